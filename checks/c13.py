"""C13 -- sequence and string operations follow the specification (DESIGN.md section 8, C13).

Pipeline: Coq theorems (coq/C13) -> harness/cmd/c13 runs the real interpreter on
exhaustive + random inputs and compares every case with a naive Go copy of the
specification -> a sample is evaluated inside Coq against the executable model
(correspondence) and against Spec.v (oracle) -> a larger sample is given to
CPython 3 as an independent opinion on Spec.v.
"""
import json
import os
import re
import subprocess
import sys

from .lib import cz, cbool, clist, coq_mismatches, HarnessError, env

LEVEL = "proof"
META = {
    "category": "proof",
    "text": "Coq theorems (17, no axioms) over an executable model of the index/slice core of starlark/eval.go (asIndex, indices, slice, signum64, the Slice loops of String/Bytes/List/Tuple, getIndex/setIndex), of range values and rangeValue.Slice, and of all 30 string methods, the 7 list methods, reversed/zip/enumerate/any/all, sorted/min/max, concatenation and repetition of library.go / eval.go. slice_correct: for every sequence length, every None / int of any size / non-int operand triple and every stride the Go computation -- bounds, then the loop run with fuel len+1 or the step=1 fast path -- returns exactly Python's slice (the elements at slice.indices' arithmetic progression), never panics or runs out of fuel, and fails exactly for a zero stride or a non-int operand; the same for ranges (range_slice_correct, through the unsigned division of rangeLen), for x[i] and x[i]=v, and for the (start,end) normalisation shared by the methods (indices_clamp). string_methods_correct_partial / list_methods_correct / builtins_correct / repeat_correct: for EVERY argument tuple (arity, types, None, omitted optionals, huge integers) each method equals an independently written Python-semantics specification: sub-range methods, split/rsplit with a separator for every maxsplit (rightmost, also overlapping), the hand-written splitspace/rsplitspace loops against a word splitter, splitlines, partition, replace, join, strip family, case mapping and predicates, list insert/pop/index/remove/extend, zip (shortest), enumerate, repetition guards. sorted_correct: on the computed keys the implementation returns the unique list the specification allows -- ordered by key, descending when reverse=True, ties in input order in BOTH directions (stability of the reversed sort); minmax_correct / minmax_unique: the first extremal element, failure exactly on an empty sequence. The one input class where the full statement is false -- strip(\"\") -- is excluded by a boolean guard and refuted by strip_empty_cutset_refuted (known finding). The hand-written model is tied to /repo on every run: the harness executes the real operations exhaustively (all (lo,hi,step) in ([-n-3,n+3] U None)^3 for receivers of length 0-8 over a 3-letter alphabet, for string, bytes, list, tuple, range) and on dense method argument tuples, huge counts in a child process, random receivers to length 40; every case is checked against a naive Go copy of the specification; a sample is evaluated inside Coq against both the model (correspondence) and Spec.v (oracle), and in CPython 3 as an independent opinion on Spec.v.",
    "note": "Trusted: Coq kernel + vm_compute; the harness, its generators and its Go copy of the specification; Go's strings/unicode functions are modelled by their documented meaning on ASCII (library oracles, validated only by the correspondence run); CPython validates Spec.v on the shared subset, with the deliberate differences of spec.md listed by class in the evidence (cpython_documented_differences). string.format has a Coq model (Format.v: the scanning loop of string_format) and an independent parse-then-evaluate specification (FormatSpec.v) with argument values abstract (their str / repr texts, observed from the interpreter's value printer, are parameters: how values print is C15); format_correct proves model = specification for all templates and argument lists (the statement was false before commit 5574fcc, when decimal wrapped: \"{18446744073709551616}\".format(\"a\") was \"a\" -- History.old_format_refuted; the check now generates field numbers around 2^63 and 2^64); a sample of the executed format cases is evaluated against both, every executed case against a Go copy of the specification and a sample against CPython. % interpolation likewise (Interp.v: the scanning loop of interpolate in eval.go; InterpSpec.v: parse into items, evaluate with operand counting; interpolate_correct holds for all templates and operands, no guard), with what each conversion letter prints for a single value (str / repr from the value printer, d i o x X e f g E F G c from the single-conversion call) as parameters; every executed case is also checked against a Go copy of the specification (% conversions s r d i o x X c, %(key), argument counting; str / repr of values) and a sample against CPython, whose differing string quoting in repr is a documented difference. sorted/min/max are modelled on integer keys (elements named by their positions); other key types (strings, tuples, floats, mixed 1/1.0) and the failure on unordered keys are covered by the Go copy of the specification and CPython; sort.Stable is a library oracle (reference stable insertion sort). Sequence lengths are bounded by 2^61 (slices) / 2^31 (index expressions) in the theorems; range receivers have 32-bit parameters (wider range arithmetic is C10).",
    "technique": "Coq proof over executable model + exhaustive differential correspondence (vm_compute) + Spec.v / Go / CPython oracles",
}

HEADER = """From Coq Require Import ZArith NArith Bool List.
From SV Require Import Common.GoInt C13.Base C13.Index C13.Str C13.Seq C13.Spec.
From SV Require Import C13.FormatBase C13.Format C13.FormatSpec C13.Interp C13.InterpSpec.
Import ListNotations.
Open Scope Z_scope.

(* string.format: an argument value is represented by the two texts the
   interpreter printed for it, (str(x), repr(x)) *)
Definition fval : Type := (list N * list N)%type.
Definition fstr (v : fval) : list N := fst v.
Definition frepr (v : fval) : list N := snd v.

(* % interpolation: a value is its str text, its repr text and, for the
   value-dependent conversion letters that occur in the template, what that
   single conversion printed for it (None = it rejected the value) *)
Record ival : Type := { iv_str : list N; iv_repr : list N; iv_tab : list (N * option (list N)) }.
Definition iv_conv (c : N) (v : ival) : option (list N) :=
  match find (fun e => N.eqb (fst e) c) (iv_tab v) with Some e => snd e | None => None end.
Definition to_soperand (x : operand ival) : soperand ival :=
  match x with OTuple l => STuple l | OMapping v e => SMapping v e | OSingle v => SSingle v end.

Inductive case :=
| CSlice (xs : list Z) (lo hi st : arg) (r : outcome (list Z))
| CRangeSlice (a b c : Z) (lo hi st : arg) (r : outcome (list Z))
| CIndex (xs : list Z) (i : arg) (r : outcome Z)
| CRangeIndex (a b c : Z) (i : arg) (r : outcome Z)
| CSetIndex (xs : list Z) (i : arg) (v : Z) (r : outcome (list Z))
| CStr (m : meth) (sm : smeth) (recv : list N) (args : list val) (r : outcome val)
| CList (m : lmeth) (sm : slmeth) (recv args : list val) (r : outcome (val * list val))
| CBuiltin (f : bfun) (sf : sbfun) (args : list val) (r : outcome val)
| CStar (x y : val) (r : outcome val)
| CPlus (x y : val) (r : outcome val)
| CSorted (reverse : bool) (keys : list Z) (out : list nat)
| CMinMax (is_max : bool) (keys : list Z) (r : outcome nat)
| CFormat (tpl : list N) (args : list fval) (kw : list (list N * fval)) (r : outcome (list N))
| CInterp (tpl : list N) (x : operand ival) (r : outcome (list N)).

Definition zl_eqb (a b : list Z) : bool :=
  (fix go a b := match a, b with [], [] => true | x :: a', y :: b' => (x =? y) && go a' b' | _, _ => false end) a b.
Definition vl_eqb (a b : list val) : bool := val_eqb (VList a) (VList b).
Definition nl_eqb (a b : list nat) : bool :=
  (fix go a b := match a, b with [], [] => true | x :: a', y :: b' => Nat.eqb x y && go a' b' | _, _ => false end) a b.
Definition pair_eqb (a b : val * list val) : bool := val_eqb (fst a) (fst b) && vl_eqb (snd a) (snd b).

Definition range_slice_elems (a b c : Z) (lo hi st : arg) : outcome (list Z) :=
  match mk_range a b c with
  | Ok r => match range_slice_impl r lo hi st with
            | Ok r' => Ok (range_elems r') | Err => Err | Panic => Panic | OutOfFuel => OutOfFuel end
  | Err => Err | Panic => Panic | OutOfFuel => OutOfFuel
  end.
Definition range_index_model (a b c : Z) (i : arg) : outcome Z :=
  match mk_range a b c with
  | Ok r => range_get_index r i
  | Err => Err | Panic => Panic | OutOfFuel => OutOfFuel
  end.

(* correspondence: the executable model reproduces what the implementation did *)
Definition model_ok (c : case) : bool :=
  match c with
  | CSlice xs lo hi st r => outcome_eqb zl_eqb (slice_impl xs lo hi st) r
  | CRangeSlice a b c lo hi st r => outcome_eqb zl_eqb (range_slice_elems a b c lo hi st) r
  | CIndex xs i r => outcome_eqb Z.eqb (get_index xs i) r
  | CRangeIndex a b c i r => outcome_eqb Z.eqb (range_index_model a b c i) r
  | CSetIndex xs i v r => outcome_eqb zl_eqb (set_index xs i v) r
  | CStr m _ recv args r => outcome_eqb val_eqb (string_method m recv args) r
  | CList m _ recv args r => outcome_eqb pair_eqb (list_method m recv args) r
  | CBuiltin f _ args r => outcome_eqb val_eqb (builtin f args) r
  | CStar x y r => outcome_eqb val_eqb (binary_star x y) r
  | CPlus x y r => outcome_eqb val_eqb (binary_plus x y) r
  | CSorted rev keys out => nl_eqb (sorted_impl rev keys) out
  | CMinMax mx keys r => outcome_eqb Nat.eqb (minmax_impl mx keys) r
  | CFormat tpl args kw r => fres_observed (string_format fval fstr frepr tpl args kw) r
  | CInterp tpl x r => ires_observed (interpolate ival iv_str iv_repr iv_conv tpl x) r
  end.

(* oracle: the implementation did what the specification says (independent of the model) *)
Definition spec_ok (c : case) : bool :=
  match c with
  | CSlice xs lo hi st r => outcome_eqb zl_eqb (of_spec (slice_spec xs lo hi st)) r
  | CRangeSlice a b c lo hi st r => outcome_eqb zl_eqb (of_spec (slice_spec (range_spec a b c) lo hi st)) r
  | CIndex xs i r => outcome_eqb Z.eqb (of_spec (index_spec xs i)) r
  | CRangeIndex a b c i r => outcome_eqb Z.eqb (of_spec (index_spec (range_spec a b c) i)) r
  | CSetIndex xs i v r => outcome_eqb zl_eqb (of_spec (setindex_spec xs i v)) r
  | CStr _ sm recv args r => outcome_eqb val_eqb (of_spec (spec_string_method sm recv args)) r
  | CList _ sm recv args r => outcome_eqb pair_eqb (of_spec (spec_list_method sm recv args)) r
  | CBuiltin _ sf args r => outcome_eqb val_eqb (of_spec (spec_builtin sf args)) r
  | CStar x y r => outcome_eqb val_eqb (of_spec (spec_star x y)) r
  | CPlus x y r => outcome_eqb val_eqb (of_spec (spec_plus x y)) r
  | CSorted rev keys out => sorted_ok rev keys out
  | CMinMax mx keys r => match r with
                         | Ok i => minmax_spec_ok mx keys (Some i)
                         | Err => minmax_spec_ok mx keys None
                         | _ => false end
  | CFormat tpl args kw r => fres_observed (format_spec fval fstr frepr tpl args kw) r
  | CInterp tpl x r => ires_observed (interpolate_spec ival iv_str iv_repr iv_conv tpl (to_soperand x)) r
  end.
"""

STR_METHODS = {
    "count": "Count", "find": "Find", "rfind": "Rfind", "index": "Index", "rindex": "Rindex",
    "startswith": "Startswith", "endswith": "Endswith", "split": "Split", "rsplit": "Rsplit",
    "splitlines": "Splitlines", "partition": "Partition", "rpartition": "Rpartition",
    "strip": "Strip", "lstrip": "Lstrip", "rstrip": "Rstrip", "replace": "Replace", "join": "Join",
    "removeprefix": "Removeprefix", "removesuffix": "Removesuffix", "upper": "Upper", "lower": "Lower",
    "capitalize": "Capitalize", "title": "Title", "isalnum": "Isalnum", "isalpha": "Isalpha",
    "isdigit": "Isdigit", "islower": "Islower", "isupper": "Isupper", "isspace": "Isspace", "istitle": "Istitle",
}
LIST_METHODS = {"append": "Append", "clear": "Clear", "extend": "Extend", "index": "Index",
                "insert": "Insert", "pop": "Pop", "remove": "Remove"}
BUILTINS = {"reversed": "Reversed", "zip": "Zip", "enumerate": "Enumerate", "any": "Any", "all": "All"}
BIG = 1 << 31


# ----------------------------------------------------------------- V helpers
def vbytes(v):
    return bytes.fromhex(v.get("s", ""))


def coq_bytes(b):
    return "[" + "; ".join("%d" % x for x in b) + "]%N"


def coq_val(v):
    """V -> Coq val; ranges are not values of the model (None = not representable)."""
    t = v["t"]
    if t == "none":
        return "VNone"
    if t == "bool":
        return "(VBool %s)" % cbool(v.get("b", False))
    if t == "int":
        return "(VInt %s)" % cz(int(v["i"]))
    if t == "str":
        return "(VStr %s)" % coq_bytes(vbytes(v))
    if t == "bytes":
        return "(VBytes %s)" % coq_bytes(vbytes(v))
    if t in ("list", "tuple"):
        el = [coq_val(e) for e in v.get("l", [])]
        if any(e is None for e in el):
            return None
        return "(%s %s)" % ("VList" if t == "list" else "VTuple", clist(el))
    if t == "float":
        return "VOther"
    if t == "iter":
        # an iterator view: the model iterates its elements like those of a list
        return "(VList %s)" % clist([coq_val(e) for e in iter_elems(v)])
    if t == "range":
        # as an iterable argument a range is the list of its elements (its own operations: CRangeSlice / CRangeIndex)
        a, b, st = v["r"]
        return "(VList %s)" % clist(["(VInt %s)" % cz(i) for i in range(a, b, st)])
    return None


def iter_elems(v):
    b = vbytes(v)
    if v["m"] in ("codepoints", "elems"):
        return [{"t": "str", "s": bytes([c]).hex()} for c in b]
    return [{"t": "int", "i": str(c)} for c in b]


def coq_arg(v):
    t = v["t"]
    if t == "none":
        return "ANone"
    if t == "int":
        return "(AInt %s)" % cz(int(v["i"]))
    return "AOther"


def seq_elems(v):
    """Elements of a string/bytes/list/tuple receiver as integers (None if not all ints)."""
    if v["t"] in ("str", "bytes"):
        return list(vbytes(v))
    out = []
    for e in v.get("l", []):
        if e["t"] != "int":
            return None
        out.append(int(e["i"]))
    return out


def zlist(xs):
    return "[" + "; ".join(cz(x) for x in xs) + "]"


def outcome(obs, conv):
    if obs["t"] == "err":
        return "Err"
    if obs["t"] == "panic":
        return "Panic"
    t = conv(obs)
    return None if t is None else "(Ok %s)" % t


def coq_case(c):
    """Structured case -> Coq term of type `case` (None when outside the modelled fragment)."""
    op, obs, args = c["op"], c["obs"], c.get("args") or []
    x = c.get("x")
    if op == "slice":
        if x["t"] == "range":
            r = outcome(obs, lambda o: zlist(seq_elems(o)) if seq_elems(o) is not None else None)
            if r is None:
                return None
            a, b, cc = x["r"]
            return "(CRangeSlice %s %s %s %s %s %s %s)" % (cz(a), cz(b), cz(cc), coq_arg(args[0]), coq_arg(args[1]), coq_arg(args[2]), r)
        xs = seq_elems(x)
        if xs is None:
            return None
        r = outcome(obs, lambda o: zlist(seq_elems(o)) if (o["t"] == x["t"] and seq_elems(o) is not None) else None)
        if r is None:
            return None
        return "(CSlice %s %s %s %s %s)" % (zlist(xs), coq_arg(args[0]), coq_arg(args[1]), coq_arg(args[2]), r)
    if op == "index":
        def one(o):
            if x["t"] in ("str", "bytes"):
                if o["t"] != x["t"] or len(vbytes(o)) != 1:
                    return None
                return cz(vbytes(o)[0])
            return cz(int(o["i"])) if o["t"] == "int" else None
        r = outcome(obs, one)
        if r is None:
            return None
        if x["t"] == "range":
            a, b, cc = x["r"]
            return "(CRangeIndex %s %s %s %s %s)" % (cz(a), cz(b), cz(cc), coq_arg(args[0]), r)
        xs = seq_elems(x)
        if xs is None:
            return None
        return "(CIndex %s %s %s)" % (zlist(xs), coq_arg(args[0]), r)
    if op == "setindex":
        if x["t"] != "list" or args[1]["t"] != "int":
            return None
        xs = seq_elems(x)
        after = seq_elems(c["after"]) if c.get("after") else None
        if xs is None or after is None:
            return None
        r = "Err" if obs["t"] == "err" else ("Panic" if obs["t"] == "panic" else "(Ok %s)" % zlist(after))
        return "(CSetIndex %s %s %s %s)" % (zlist(xs), coq_arg(args[0]), cz(int(args[1]["i"])), r)
    if op == "call" and c["name"] == "format" and x["t"] == "str":
        return coq_format_case(c)
    if op == "call":
        cargs = [coq_val(a) for a in args]
        if any(a is None for a in cargs):
            return None
        if x["t"] == "str" and c["name"] in STR_METHODS:
            r = outcome(obs, coq_val)
            if r is None:
                return None
            n = STR_METHODS[c["name"]]
            return "(CStr M%s S%s %s %s %s)" % (n, n, coq_bytes(vbytes(x)), clist(cargs), r)
        if x["t"] == "list" and c["name"] in LIST_METHODS:
            recv = coq_val(x)
            if recv is None or not c.get("after"):
                return None
            after = coq_val(c["after"])
            res = coq_val(obs) if obs["t"] not in ("err", "panic") else None
            if obs["t"] == "err":
                r = "Err"
            elif obs["t"] == "panic":
                r = "Panic"
            elif res is None or after is None:
                return None
            else:
                r = "(Ok (%s, %s))" % (res, after[len("(VList "):-1])
            n = LIST_METHODS[c["name"]]
            return "(CList L%s SL%s %s %s %s)" % (n, n, recv[len("(VList "):-1], clist(cargs), r)
        return None
    if op == "builtin":
        cargs = [coq_val(a) for a in args]
        if any(a is None for a in cargs) or c["name"] not in BUILTINS:
            return None
        r = outcome(obs, coq_val)
        if r is None:
            return None
        n = BUILTINS[c["name"]]
        return "(CBuiltin B%s SB%s %s %s)" % (n, n, clist(cargs), r)
    if op == "sort":
        return coq_sort_case(c)
    if op == "bin" and c["name"] == "%":
        return coq_interp_case(c) if x["t"] == "str" else None
    if op == "bin":
        a, b = coq_val(x), coq_val(args[0])
        r = outcome(obs, coq_val)
        if a is None or b is None or r is None:
            return None
        return "(%s %s %s %s)" % ("CStar" if c["name"] == "*" else "CPlus", a, b, r)
    return None


def coq_format_case(c):
    """S.format(*args, **kwargs) -> CFormat; every argument is the pair of texts (str(x), repr(x)) that the
    harness observed from the interpreter's own str / repr for it (c["texts"]: positional, then keyword values)."""
    texts = c.get("texts") or []          # (omitted by the harness when there is no argument at all)
    args, kw, obs = c.get("args") or [], c.get("kw") or [], c["obs"]
    nvals = len(args) + len(kw) // 2
    if len(texts) != 2 * nvals:
        return None
    pairs = ["(%s, %s)" % (coq_bytes(bytes.fromhex(texts[2 * i])), coq_bytes(bytes.fromhex(texts[2 * i + 1]))) for i in range(nvals)]
    kws = []
    for j in range(len(kw) // 2):
        if kw[2 * j]["t"] != "str":
            return None
        kws.append("(%s, %s)" % (coq_bytes(vbytes(kw[2 * j])), pairs[len(args) + j]))
    r = outcome(obs, lambda o: coq_bytes(vbytes(o)) if o["t"] == "str" else None)
    if r is None:
        return None
    return "(CFormat %s %s %s %s)" % (coq_bytes(vbytes(c["x"])), clist(pairs[:len(args)]), clist(kws), r)


VALUE_LETTERS = b"dioxXefgEFGc"


def coq_interp_case(c):
    """template % operand -> CInterp; every value the operand offers is the record of the texts the harness observed
    for it (c["itexts"], 14 per value: str, repr, then one per letter of VALUE_LETTERS, "!" = rejected)."""
    it = c.get("itexts") or []
    x, obs, tpl = c["args"][0], c["obs"], vbytes(c["x"])
    per = 2 + len(VALUE_LETTERS)
    if len(it) % per:
        return None
    used = [l for l in VALUE_LETTERS if l in tpl]

    def val(i):
        e = it[per * i: per * (i + 1)]
        tab = ["(%d%%N, %s)" % (l, "None" if e[2 + VALUE_LETTERS.index(l)] == "!" else "(Some %s)" % coq_bytes(bytes.fromhex(e[2 + VALUE_LETTERS.index(l)])))
               for l in used]
        return "{| iv_str := %s; iv_repr := %s; iv_tab := %s |}" % (coq_bytes(bytes.fromhex(e[0])), coq_bytes(bytes.fromhex(e[1])), clist(tab))
    n = len(it) // per
    if x["t"] == "tuple":
        if n != len(x.get("l", [])):
            return None
        operand = "(OTuple %s)" % clist([val(i) for i in range(n)])
    elif x["t"] == "dict":
        l = x.get("l", [])
        if n != 1 + len(l) // 2 or any(k["t"] != "str" for k in l[0::2]):
            return None
        operand = "(OMapping %s %s)" % (val(0), clist(["(%s, %s)" % (coq_bytes(vbytes(l[2 * j])), val(1 + j)) for j in range(len(l) // 2)]))
    else:
        if n != 1:
            return None
        operand = "(OSingle %s)" % val(0)
    r = outcome(obs, lambda o: coq_bytes(vbytes(o)) if o["t"] == "str" else None)
    if r is None:
        return None
    return "(CInterp %s %s %s)" % (coq_bytes(tpl), operand, r)


def key_int(name, v):
    """The harness's key functions on a V, when the key is an int (else None)."""
    t = v["t"]
    if name in ("", "ident"):
        return int(v["i"]) if t == "int" else None
    if name == "zero":
        return 0
    if name == "len":
        if t in ("str", "bytes"):
            return len(vbytes(v))
        return len(v.get("l", [])) if t in ("list", "tuple") else None
    if name == "mod3":
        return int(v["i"]) % 3 if t == "int" else None
    if name == "neg":
        return -int(v["i"]) if t == "int" else None
    if name == "first":
        l = v.get("l", [])
        return int(l[0]["i"]) if t in ("list", "tuple") and l and l[0]["t"] == "int" else None
    if name == "int":
        if t == "int":
            return int(v["i"])
        if t == "bool":
            return 1 if v.get("b") else 0
        if t == "float" and v.get("f"):
            return int(float(v["f"]))
    return None


def sort_elems(c):
    args = c.get("args") or []
    if len(args) == 1 and args[0]["t"] in ("list", "tuple"):
        return args[0].get("l", [])
    if len(args) == 1 and args[0]["t"] == "iter":
        return iter_elems(args[0])
    if len(args) == 1 and args[0]["t"] == "range":
        a, b, st = args[0]["r"]
        return [{"t": "int", "i": str(i)} for i in range(a, b, st)]
    if c["name"] != "sorted" and len(args) >= 2:
        return args
    return None


def coq_sort_case(c):
    """sorted / min / max with integer keys -> CSorted / CMinMax over positions."""
    elems = sort_elems(c)
    obs = c["obs"]
    if elems is None or obs["t"] == "panic":
        return None
    keys = [key_int(c.get("key", ""), e) for e in elems]
    if any(k is None for k in keys):
        return None
    canon = [json.dumps(e, sort_keys=True) for e in elems]

    def positions(out):
        used, res = set(), []
        for o in out:
            k = json.dumps(o, sort_keys=True)
            i = next((j for j, e in enumerate(canon) if e == k and j not in used), None)
            if i is None:
                return None
            used.add(i)
            res.append(i)
        return res
    if c["name"] == "sorted":
        if obs["t"] != "list":
            return None  # failures of sorted come from unordered keys: not in the integer fragment
        pos = positions(obs.get("l", []))
        if pos is None:
            return "(CSorted %s %s [%s])" % (cbool(c.get("rev") == "true"), zlist(keys), "; ".join("%d%%nat" % (len(keys) + 7) for _ in obs.get("l", [])))
        return "(CSorted %s %s [%s])" % (cbool(c.get("rev") == "true"), zlist(keys), "; ".join("%d%%nat" % i for i in pos))
    if c.get("rev"):
        return None
    if obs["t"] == "err":
        r = "Err"
    else:
        pos = positions([obs])
        r = "(Ok %d%%nat)" % (pos[0] if pos else len(keys) + 7)
    return "(CMinMax %s %s %s)" % (cbool(c["name"] == "max"), zlist(keys), r)


# ------------------------------------------------------------ classification
def argclass(a):
    t = a["t"]
    if t == "int":
        z = int(a["i"])
        if z >= BIG or z < -BIG:
            return "int-outside-int32" if -(1 << 63) <= z < (1 << 63) else "int-outside-int64"
        return "int"
    if t in ("str", "bytes"):
        return t + ("-empty" if not a.get("s") else "")
    if t == "iter":
        return "iter-" + a["m"]
    return t


def template_shape(tpl, marks):
    """Shape of a format / % template: its replacement fields in order, literals dropped."""
    import re as _re
    return "".join(_re.findall(marks, tpl.decode("latin-1")))


def describe(c):
    x = c.get("x")
    recv = ""
    if x is not None:
        if x["t"] in ("str", "bytes"):
            recv = repr(vbytes(x).decode("latin-1")) if x["t"] == "str" else "b" + repr(vbytes(x).decode("latin-1"))
        elif x["t"] == "range":
            recv = "range(%d, %d, %d)" % tuple(x["r"])
        else:
            recv = show(x)
    args = [show(a) for a in c.get("args") or []]
    op = c["op"]
    if op == "slice":
        return "%s[%s:%s:%s]" % (recv, *args)
    if op == "index":
        return "%s[%s]" % (recv, args[0])
    if op == "setindex":
        return "x = %s; x[%s] = %s" % (recv, args[0], args[1])
    if op == "call":
        kw = c.get("kw") or []
        args = args + ["%s=%s" % (vbytes(kw[i]).decode("latin-1"), show(kw[i + 1])) for i in range(0, len(kw) - 1, 2)]
        return "%s.%s(%s)" % (recv, c["name"], ", ".join(args))
    if op == "builtin":
        return "%s(%s)" % (c["name"], ", ".join(args))
    if op == "alias":
        a = args[0] if args else "?"
        expr = {"mul": "x * %s" % a, "rmul": "%s * x" % a, "add": "x + a", "radd": "a + x", "addself": "x + x",
                "slice": "x[%s]" % ":".join(show(e) for e in (c["args"][0].get("l", []))), "list": "list(x)",
                "sorted": "sorted(x)", "reversed": "reversed(x)"}.get(c["name"], c["name"])
        mut, _, who = (c.get("key") or "").partition("-")
        t = {"result": "r", "operand": "x", "other": "a"}.get(who, who)
        act = {"set": "%s[-1] = 99" % t, "append": "%s.append(99)" % t, "popappend": "%s.pop(); %s.append(98)" % (t, t),
               "clear": "%s.clear()" % t, "insert": "%s.insert(0, 97)" % t}.get(mut, mut)
        return "x = %s; %sr = %s; %s; (x, a, r)" % (recv, ("a = %s; " % a) if c["name"] in ("add", "radd") else "a = %s; " % a, expr, act)
    if op == "sort":
        KEYSRC = {"len": "len", "int": "int", "mod3": "lambda x: x % 3", "zero": "lambda x: 0", "first": "lambda x: x[0]",
                  "lower": "lambda x: x.lower()", "neg": "lambda x: -x", "ident": "lambda x: x"}
        kw = []
        if c.get("key"):
            kw.append("key=" + KEYSRC.get(c["key"], c["key"]))
        if c.get("rev"):
            kw.append("reverse=" + ("True" if c["rev"] == "true" else "False"))
        return "%s(%s)" % (c["name"], ", ".join(args + kw))
    return "%s %s %s" % (recv, c["name"], args[0])


def show(v):
    t = v["t"]
    if t == "none":
        return "None"
    if t == "bool":
        return "True" if v.get("b") else "False"
    if t == "int":
        z = int(v["i"])
        a = abs(z)
        if a < (1 << 31):
            return str(z)
        if a & (a - 1) == 0:
            return ("-(1<<%d)" if z < 0 else "1<<%d") % (a.bit_length() - 1)
        if (a + 1) & a == 0:
            return ("-((1<<%d)-1)" if z < 0 else "(1<<%d)-1") % a.bit_length()
        return str(z)
    if t == "str":
        return json.dumps(vbytes(v).decode("latin-1"))
    if t == "bytes":
        return "b" + json.dumps(vbytes(v).decode("latin-1"))
    if t == "list":
        return "[" + ", ".join(show(e) for e in v.get("l", [])) + "]"
    if t == "tuple":
        el = [show(e) for e in v.get("l", [])]
        return "(" + ", ".join(el) + ("," if len(el) == 1 else "") + ")"
    if t == "float":
        return repr(float(v["f"])) if v.get("f") else "1.5"
    if t == "range":
        return "range(%d, %d, %d)" % tuple(v["r"])
    if t == "iter":
        lit = json.dumps(vbytes(v).decode("latin-1"))
        return ("b" + lit + ".elems()") if v["m"] == "belems" else "%s.%s()" % (lit, v["m"])
    if t == "dict":
        l = v.get("l", [])
        return "{" + ", ".join("%s: %s" % (show(l[i]), show(l[i + 1])) for i in range(0, len(l) - 1, 2)) + "}"
    if t == "nil":
        return "<nil>"
    if t in ("err", "panic"):
        return "<%s: %s>" % (t, v.get("m", ""))
    return "?"


def finding_key(c, why):
    """Stable key naming the input class of a violating case."""
    op = c["op"]
    args = c.get("args") or []
    classes = [argclass(a) for a in args]
    name = c.get("name") or ""
    kind = (c.get("x") or {}).get("t", "")
    if why == "panic":
        classes = ["int-huge" if a["t"] == "int" and abs(int(a["i"])) >= (1 << 20) else k for a, k in zip(args, classes)]
        return "panic:%s%s(%s)" % (name or op, ":" + kind if op != "call" else "", ",".join(classes))
    big = any(k.startswith("int-outside") for k in classes) or (c.get("x") or {}).get("t") == "int" and argclass(c["x"]).startswith("int-outside")
    if op == "alias":
        return "alias:%s(%s):%s" % (name, ",".join(classes), c.get("key"))
    if op == "call" and name == "format":
        return "format:%s(%s%s)" % (template_shape(vbytes(c["x"]), r"\{\{|\}\}|\{[^{}]*\}|[{}]"), ",".join(classes),
                                    ";" + ",".join(vbytes(k).decode("latin-1") for k in (c.get("kw") or [])[0::2]) if c.get("kw") else "")
    if op == "bin" and name == "%":
        return "interpolate:%s(%s)" % (template_shape(vbytes(c["x"]), r"%\([^)]*\)?.?|%.?"), classes[0] if classes else "")
    if op == "sort":
        elems = sort_elems(c) or []
        ks = [json.dumps(key_int(c.get("key", ""), e)) if key_int(c.get("key", ""), e) is not None else json.dumps(e, sort_keys=True) for e in elems]
        ties = len(set(ks)) < len(ks)
        return "%s:%s%s%s" % (name, "key=" + c["key"] if c.get("key") else "no-key", ":reverse" if c.get("rev") == "true" else "", ":ties" if ties else "")
    if op == "slice" and big:
        return "slice:operand-outside-int32"
    if op == "call" and big and name in ("find", "rfind", "index", "rindex", "count", "startswith", "endswith"):
        return "subrange:%s:operand-outside-int32" % ("list.index" if kind == "list" else "string")
    if op == "bin" and name == "*" and big:
        neg = any(a["t"] == "int" and int(a["i"]) < 0 for a in args + [c["x"]])
        return "repeat:count-outside-int32:%s" % ("negative" if neg else "positive")
    if op == "call" and name in ("strip", "lstrip", "rstrip") and classes == ["str-empty"]:
        return "strip:empty-cutset"
    if op == "call" and name == "rsplit" and classes and classes[0] == "str" and overlapping(vbytes(c["x"]), vbytes(args[0])):
        return "rsplit:separator-occurrences-overlap"
    return "%s:%s%s(%s)" % (op, kind + "." if kind else "", name, ",".join(classes))


def overlapping(s, sep):
    """Two occurrences of sep in s overlap."""
    occ = [i for i in range(len(s) - len(sep) + 1) if s[i:i + len(sep)] == sep]
    return any(b - a < len(sep) for a, b in zip(occ, occ[1:]))


def documented_difference(c):
    """Cases where spec.md deliberately differs from CPython 3 (reason) -- else None."""
    op, name = c["op"], c.get("name")
    args = c.get("args") or []
    x = c.get("x") or {}
    tys = [a["t"] for a in args]
    if op == "call" and x.get("t") == "str":
        if name in ("find", "rfind", "index", "rindex", "count", "startswith", "endswith"):
            # spec.md: the operation applies to the substring S[start:end] built by the slice
            # conventions; Python leaves an empty needle unfound when start > end or start > len
            needles = []
            if args and args[0]["t"] == "str":
                needles = [vbytes(args[0])]
            elif args and args[0]["t"] == "tuple":
                needles = [vbytes(e) for e in args[0].get("l", []) if e["t"] == "str"]
            if any(len(n) == 0 for n in needles) and len(args) >= 2:
                return "empty needle in an empty sub-range: spec.md defines the sub-range as S[start:end]"
            if name in ("startswith", "endswith") and args and args[0]["t"] == "tuple" and any(e["t"] != "str" for e in args[0].get("l", [])):
                return "tuple with a non-string element: Python type-checks the whole tuple lazily as well, but reports differently when no element matches"
        if name == "format":
            tpl = vbytes(x)
            if b":" in tpl:
                return "format specifiers must be empty (spec.md: reserved for future use)"
            if b"." in tpl or b"[" in tpl:
                return "a field name is a decimal number or a keyword: no x.y / a[i] (spec.md)"
            if b"!r" in tpl or any(quotes_inside(a, top=True) for a in args + (c.get("kw") or [])[1::2]):
                return "repr of a string uses double quotes (and b\"...\" for bytes)"
        if name in ("strip", "lstrip", "rstrip") and tys == ["none"]:
            return "cutset parameter is a string; None is rejected"
        if name == "splitlines":
            if args and args[0]["t"] != "bool":
                return "keepends must be a bool"
            if any(b in vbytes(x) for b in b"\r\x0b\x0c\x1c\x1d\x1e\x85"):
                return "splitlines splits at \\n only (spec.md)"
        if name in ("split", "rsplit", "strip", "lstrip", "rstrip", "isspace") and any(b in vbytes(x) for b in b"\x1c\x1d\x1e\x1f"):
            return "white space is Unicode White_Space"
        if name == "join" and args and args[0]["t"] in ("str", "bytes"):
            return "strings are not iterable"
        if name in ("removeprefix", "removesuffix", "partition", "rpartition", "replace", "split", "rsplit", "join") and "bytes" in tys:
            return "bytes is not str"
    if op == "call" and x.get("t") == "list":
        if name == "index" and "none" in tys[1:]:
            return "list.index accepts None for start/end (spec.md)"
        if name == "extend" and args and args[0]["t"] in ("str", "bytes"):
            return "strings are not iterable"
        if name in ("index", "remove") and args and contains_bool(args[0]):
            return "bool is not int"
    if op == "builtin":
        if any(a["t"] in ("str", "bytes") for a in args):
            return "strings are not iterable"
        if name == "enumerate" and len(args) == 2 and args[1]["t"] == "int" and not (-(1 << 63) <= int(args[1]["i"]) < (1 << 63)):
            return "enumerate start is a machine integer"
    if op == "bin":
        if c["name"] == "+" and x.get("t") == "bytes":
            return "spec.md defines concatenation for string, list and tuple only"
        if c["name"] == "%":
            a = args[0] if args else {}
            tpl = vbytes(x)
            elems = a.get("l", []) if a.get("t") == "tuple" else [a]
            if b"%r" in tpl or b")r" in tpl or any(quotes_inside(e, top=True) for e in elems) or \
                    (a.get("t") == "dict" and any(quotes_inside(e, top=True) for e in a.get("l", [])[1::2])) or \
                    (a.get("t") == "dict" and b"%s" in tpl and a.get("l")):
                return "repr of a string uses double quotes (and b\"...\" for bytes)"
            if any(e.get("t") == "float" for e in elems) and any(k in tpl for k in (b"%x", b"%X", b"%o")):
                return "%x / %X / %o accept any number (spec.md conversion table); Python requires an int"
            if a.get("t") == "dict" and b"%(" not in tpl and not a.get("l"):
                return "an empty dict operand with positional conversions: Python treats every mapping as the whole argument"
            if contains_bool(a):
                return "bool is not int"
            if a.get("t") == "list":
                return "a list operand of % is one argument (Python treats any object with __getitem__ as a mapping and does not report surplus arguments)"
        if c["name"] == "*":
            for a in (x, args[0] if args else {}):
                if a.get("t") == "int" and not (-(1 << 63) <= int(a["i"]) < (1 << 63)):
                    return "repeat count beyond a machine word: CPython raises OverflowError for every operand (an implementation limit of CPython, not of the language)"
    if op == "setindex" and x.get("t") == "bytes":
        return None
    return None


def quotes_inside(v, top=False):
    """The text of str(v) / repr(v) involves the repr of a string or bytes value."""
    t = v.get("t")
    if t == "bytes":
        return True
    if t == "str":
        return not top
    return any(quotes_inside(e) for e in v.get("l", []))


def contains_bool(v):
    if v["t"] == "bool":
        return True
    return any(contains_bool(e) for e in v.get("l", []))


def nontrivial(c):
    """A case whose observable is not determined by argument-type rejection alone."""
    return c["obs"]["t"] not in ("err", "panic") or c["op"] in ("index", "call")


def run(ctx):
    ctx.proofs()
    hx = ctx.go_build("c13")
    out_path = os.path.join(ctx.build, "tmp", "c13_cases_%s.jsonl" % ctx.tier)
    with open(out_path, "w") as f:
        p = subprocess.run([hx, "-seed", str(ctx.seed), "-tier", ctx.tier], stdout=f, stderr=subprocess.PIPE,
                           env=env(), text=True, timeout=840)
    for line in p.stderr.splitlines():
        if line.startswith("c13:"):
            ctx.log(line)
    if p.returncode != 0:
        raise HarnessError("harness failed rc=%s\n%s" % (p.returncode, p.stderr[-3000:]))
    coq_cases, py_cases, gomis, crashes, stats = [], [], [], [], None
    with open(out_path) as f:
        for line in f:
            c = json.loads(line)
            k = c.get("k")
            if k == "case":
                coq_cases.append(c)
            elif k == "py":
                py_cases.append(c)
            elif k == "gomis":
                gomis.append(c)
            elif k == "crash":
                crashes.append(c)
            elif k == "stats":
                stats = c
    if stats is None:
        raise HarnessError("harness printed no stats line")
    ctx.log("harness: %d cases executed, %d disagree with the Go copy of the specification; %d sampled for Coq, %d more for CPython, %d crashes"
            % (stats["total"], stats["gomis"], len(coq_cases), len(py_cases), len(crashes)))

    # ---- process-killing cases and panics
    for c in crashes:
        ctx.finding(finding_key(c, "panic"), "%s kills the process (fatal error / unbounded allocation)" % describe(c), c)
    for c in coq_cases:
        if c["obs"]["t"] == "panic":
            ctx.finding(finding_key(c, "panic"), "%s panics in the host: %s" % (describe(c), c["obs"].get("m", "")[:120]), c)

    # ---- Go copy of the specification on every executed case
    for c in gomis:
        ctx.finding(finding_key(c, "spec"), "%s returned %s; the specification gives %s%s" % (
            describe(c), show(c["obs"]) + (" (list now %s)" % show(c["after"]) if c.get("after") else ""),
            show(c["want"]), " (list then %s)" % show(c["wanta"]) if c.get("wanta") else ""), c)

    # ---- receiver must be unchanged when a list operation fails
    for c in coq_cases + py_cases:
        if c["obs"]["t"] == "err" and c.get("after") is not None and c["x"]["t"] == "list":
            if json.dumps(c["after"].get("l", []), sort_keys=True) != json.dumps(c["x"].get("l", []), sort_keys=True):
                ctx.finding("failed-call-mutates:%s" % c.get("name", c["op"]), "%s failed but changed the list to %s" % (describe(c), show(c["after"])), c)

    # ---- Coq: model (correspondence) and Spec.v (oracle) on the sample
    terms, refs = [], []
    seen = set()
    unmodelled = 0
    for c in coq_cases:
        if c["obs"]["t"] == "panic" and c.get("k") == "crash":
            continue
        t = coq_case(c)
        if t is None:
            unmodelled += 1
            continue
        if t in seen:
            continue
        seen.add(t)
        terms.append(t)
        refs.append(c)
    ctx.log("evaluating %d distinct cases in Coq (model and Spec.v); %d sampled cases are outside the modelled fragment" % (len(terms), unmodelled))
    bad_model, bad_spec = coq_mismatches(ctx, "c13_cases_" + ctx.tier, HEADER, terms, ["model_ok", "spec_ok"], shard=3000)
    bad_spec_set = set(bad_spec)
    for i in bad_spec:
        c = refs[i]
        ctx.finding(finding_key(c, "spec"), "%s returned %s; %s says otherwise" % (describe(c), show(c["obs"]), "FormatSpec.v" if c.get("name") == "format" else "InterpSpec.v" if c.get("name") == "%" else "Spec.v"), c)
    only_model = [i for i in bad_model if i not in bad_spec_set]
    if only_model:
        c = refs[only_model[0]]
        ctx.broken("correspondence:C13.Model", "model and implementation differ on %d case(s) where the specification is met, e.g. %s -> %s"
                   % (len(only_model), describe(c), show(c["obs"])))
    # the Go copy of the specification and Spec.v must agree on the shard (cross-check of the two copies)
    copies_differ = [refs[i] for i in range(len(terms)) if (i in bad_spec_set) != bool(refs[i].get("gm")) and refs[i]["obs"]["t"] != "panic"]
    if copies_differ:
        c = copies_differ[0]
        ctx.broken("oracle:Spec.v-vs-Go-copy", "the two copies of the specification disagree on %d case(s), e.g. %s (observed %s)" % (len(copies_differ), describe(c), show(c["obs"])))

    # ---- CPython on the sample plus the volume sample
    allpy = coq_cases + py_cases
    py_path = os.path.join(ctx.build, "tmp", "c13_py_%s.jsonl" % ctx.tier)
    with open(py_path, "w") as f:
        for c in allpy:
            f.write(json.dumps({k: c[k] for k in ("op", "x", "name", "args", "obs", "after", "key", "rev", "kw") if k in c}) + "\n")
    pp = subprocess.run([sys.executable, os.path.join(os.path.dirname(__file__), "c13_py.py"), py_path],
                        capture_output=True, text=True, timeout=840)
    if pp.returncode != 0 or '"done"' not in pp.stdout:
        raise HarnessError("CPython oracle failed:\n" + pp.stderr[-2000:])
    py_diff = [json.loads(l) for l in pp.stdout.splitlines() if l.startswith('{"i"')]
    documented = {}
    spec_vs_py = []
    py_confirms = 0
    for d in py_diff:
        c = allpy[d["i"]]
        if c["obs"]["t"] == "panic":
            continue
        if c.get("gm"):
            py_confirms += 1      # CPython sides with the specification against the implementation
            continue
        why = documented_difference(c)
        if why:
            documented[why] = documented.get(why, 0) + 1
            continue
        spec_vs_py.append((c, d))
    if spec_vs_py:
        c, d = spec_vs_py[0]
        ctx.broken("oracle:Spec-vs-CPython", "the implementation agrees with the specification copies but CPython 3 does not, on %d case(s) with no documented difference, e.g. %s -> %s, CPython %s"
                   % (len(spec_vs_py), describe(c), show(c["obs"]), show(d["py"])))
        for c, d in spec_vs_py[:20]:
            ctx.notes.append("cpython-differs: %s -> %s ; CPython %s" % (describe(c), show(c["obs"]), show(d["py"])))
    ctx.log("CPython: %d cases, %d differ: %d side with the specification against the implementation, %d documented differences, %d unexplained"
            % (len(allpy), len(py_diff), py_confirms, sum(documented.values()), len(spec_vs_py)))

    dist = {d["class"]: d["n"] for d in stats["dist"]}
    samples = [describe(c) + " -> " + show(c["obs"]) for c in (refs[:3] + refs[len(refs) // 3: len(refs) // 3 + 3] + refs[-3:])]
    cov = {
        "evaluations": stats["total"],
        "distinct_nontrivial": len(set(t for t, c in zip(terms, refs) if nontrivial(c))),
        "coq_cases": len(terms), "cpython_cases": len(allpy), "go_oracle_cases": stats["total"],
        "coq_format_cases": sum(1 for t in terms if t.startswith("(CFormat ")),
        "coq_interpolate_cases": sum(1 for t in terms if t.startswith("(CInterp ")),
        "rule": "exhaustive (lo, hi, step) in ([-n-3, n+3] U None)^3 for every receiver of length <= %d over {a,b,c} and sampled receivers up to length 8, for string, bytes, list, tuple and five range shapes; every index in the pool; method argument tuples over needles/separators of length 0-3, all (start, end) pairs of the pool, omitted optionals, None, wrong types, counts -7..n+1; huge counts/indices (2^31-1, 2^31, 2^32, +-2^62, 2^63-1, 2^63, 2^100) in a child process; sorted/min/max on every list of length 0-4 over pools with duplicates and on random lists to length 8, keys len / x%%3 / constant / first / lower / int / -x and none, mixed 1 / 1.0 / True, reverse omitted / True / False; every iterable-taking built-in / method (zip, enumerate, reversed, sorted, min, max, any, all, list, tuple, list.extend, str.join) on sequences with a known length (list, tuple, range, str.elems(), str.elem_ords()) and on length-less iterables (str.codepoints(), str.codepoint_ords(), bytes.elems()) in every argument position with lengths 0-4 shorter / equal / longer than the other arguments; every returned value is validated deeply (a nil element is a finding by itself); results are new values: x*n, n*x, x+y, x+x, x[lo:hi:step], list(x), sorted(x), reversed(x) on lists of length 0-3 followed by an in-place mutation (element assignment, append, pop+append, clear, insert) of the result or of an operand, all lists observed afterwards (class alias); str.format and %% interpolation on every sequence of template segments (fields {} {0} {a} with !r / !s / specs / bad conversions, brace escapes; numeric field names around 2^63, 2^64, 10 * 2^64, 2^128 and small numbers written with 19-30 digits, also supplied as keyword names; %%s %%r %%d %%x %%X %%o %%i %%c %%%% %%(key)) with positional, keyword, missing and surplus arguments; seeded random receivers to length 40. Every executed case is compared with the Go copy of the specification; a sample of the format / %% cases (every 8th / 16th in the quick tier, every 40th / 60th in the thorough tier, plus every case on which the Go copy disagrees) is evaluated in Coq against Format.v / FormatSpec.v and Interp.v / InterpSpec.v; `distinct_nontrivial` counts the distinct cases evaluated in Coq against C13 model and Spec.v whose result is a value or an index/method error" % (2 if ctx.quick() else 5),
        "samples": samples, "distribution": dist,
        "model_mismatches": len(bad_model), "spec_mismatches": len(bad_spec), "go_oracle_mismatches": stats["gomis"],
        "cpython_differences": len(py_diff), "cpython_documented_differences": documented,
        "cpython_unexplained": len(spec_vs_py), "crashes": len(crashes), "outside_modelled_fragment": unmodelled,
    }
    return ctx.finish(LEVEL, cov, assumptions=[
        "Go's strings.Index/LastIndex/Count/Split*/Replace/Fields/Trim*/HasPrefix/HasSuffix and unicode.IsSpace/IsUpper/... are modelled by their documented meaning on ASCII input (library oracles)",
        "text is ASCII, so byte offsets and code points coincide (the property's quantifier)",
        "lists are unfrozen and not being iterated (freezing / mutation during iteration: C04, C06); element equality on the value domain used here cannot fail",
        "sequence lengths are below 2^31 for index expressions and below 2^61 for slices (Go cannot allocate more); range receivers have int32 parameters (range arithmetic overflow: C10)",
        "string.format: the Coq model and specification take the str / repr text of every argument as given (observed per case from the interpreter's value printer: repr = Value.String(), str = the string itself or else repr, as spec.md defines str; the built-in str() additionally decodes bytes, which spec.md does not say -- C15's subject); the error class is observed only as \"the call failed\"; len(args) fits in a Go int",
        "% interpolation: the Coq model and specification take, per operand value, the text each conversion letter prints for that value alone (str / repr from the value printer; d i o x X e f g E F G c observed from the single-conversion call \"%d\" % (v,) ..., i.e. number / character formatting is not checked here: C15 / C19, the Go copy of the specification and CPython cover it); they check how a whole template is scanned and how operands are selected and counted",
        "sorted / min / max: the key function is applied outside the Coq model (keys are inputs); the Coq fragment has integer keys, sort.Stable is modelled by the reference stable insertion sort; every executed case (any key type, 16k+ with key ties) is checked against the Go copy of the specification and a sample against CPython",
    ])
