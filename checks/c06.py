"""C06 -- mutation during iteration fails; locks and thread state are always restored (DESIGN.md section 8, C06)."""
import concurrent.futures as cf
import re

from .lib import coq_mismatches, cbool

LEVEL = "proof"
META = {
    "category": "proof",
    "text": "Coq theorems over a model of list/dict/set locking (itercount as uint32, frozen, checkMutable in front of every mutator), the interpreter's iterator stack (ITERPUSH/ITERJMP/ITERPOP in any order, UNPACK, CALL *args), every exit of the instruction loop (RETURN, error or cancellation at any point, Go panic), CallInternal's deferred clean-up, Call's frame push/pop, built-ins with deferred Done and call-backs, and Go push iterators: a mutator applied while itercount > 0 is refused and changes nothing; no accepted mutation ever targets a collection with a live iterator anywhere on the thread (fewer than 2^32 live iterators); for EVERY program tree, heap and exit path the outermost call leaves every itercount, frozen flag and the call-stack depth as they were (induction over nested calls, nested loops over the same collection included); push iterators created and ranged any number of times are neutral. The model is hand-written and tied to /repo on every run: ~700 structured scenarios ({list,dict,set} x for / comprehensions with nested clauses / *args / sequence assignment / 30 iterating built-ins and methods incl. key= call-backs / Go push iterators x every mutator x exits {exhaustion, break, continue, return, error at iteration i, panicking host built-in} x nesting over the same collection, plus random compositions) are run on the real interpreter, probed through the Go API after the call returns, and compared case by case with the model's prediction (outcome, itercounts, contents, depth) and with Spec.v inside Coq; step-limit cancellation is injected at the step indices of every scenario and checked against the specification.",
    "note": "Trusted: Coq kernel + vm_compute; the harness (its scenario emitter derives source, model term and expectations from one description); programs enter the theorems as trees of lock-relevant actions along an execution path (every instruction sequence unfolds to one; opcode semantics other than locking are abstract); freezing in the middle of a call is not modelled; user-defined Iterable/Iterator implementations are outside the property; the read-only hook VerifIterCount. Findings repaired in /repo: UNPACK left its iterator open on 'too many values'; starlark.Elements/Entries created their iterator eagerly.",
    "technique": "Coq proof (mutual induction over program trees) + differential correspondence (vm_compute) + Spec.v oracle + Go oracle",
}
HEADER = """From Coq Require Import ZArith List Bool.
From SV Require Import C06.Model C06.Spec.
Import ListNotations.
Open Scope Z_scope.
Inductive case :=
| CScen (init : list (bool * list Z)) (p : prog) (out : outcome) (ics : list Z) (contents : list (list Z)) (aft : after)
| CAfter (aft : after).
Definition outcome_eqb (a b : outcome) : bool :=
  match a, b with ORet, ORet | OErr, OErr | OPanic, OPanic => true | _, _ => false end.
Fixpoint zlist_eqb (a b : list Z) : bool :=
  match a, b with [] , [] => true | x :: a', y :: b' => (x =? y) && zlist_eqb a' b' | _, _ => false end.
Fixpoint colls_ok (h : heap) (i : nat) (ics : list Z) (cs : list (list Z)) : bool :=
  match ics, cs with
  | n :: ics', l :: cs' => (itercount (h i) =? n) && zlist_eqb (content (h i)) l && colls_ok h (S i) ics' cs'
  | [], [] => true
  | _, _ => false
  end.
Definition model_ok (c : case) : bool :=
  match c with
  | CScen init p out ics cs _ =>
      let '(h', d', o) := call true p (mk_heap init) 3%nat in
      outcome_eqb o out && Nat.eqb d' 3 && colls_ok h' 0 ics cs
  | CAfter _ => true
  end.
Definition spec_ok (c : case) : bool :=
  match c with CScen _ _ _ _ _ a => spec_after a | CAfter a => spec_after a end.
"""
BASE = {"a": 1, "b": 2, "c": 3, "d": 4, "e": 5, "1": 12, "INNER": 8, "PAIR": 7}


def zval(s):
    if s in BASE:
        return BASE[s]
    m = re.fullmatch(r"m(\d+)", s)
    if m:
        return 100 + int(m.group(1))
    m = re.fullmatch(r"M(\d+)", s)
    if m:
        return 1000 + int(m.group(1))
    return 999999


def zlist(xs):
    return "[" + "; ".join(str(x) for x in xs) + "]"


def after_term(l, with_attempts=True):
    r = l["res"]
    atts = []
    ex = l.get("expects") or []
    for i, a in enumerate(r.get("attempts") or []):
        locked = ex[i]["locked"] if i < len(ex) else False
        if i >= len(ex) and not with_attempts:
            continue
        atts.append("mkAtt %s %s %s" % (cbool(locked), cbool(a["rejected"]), cbool(a["unchanged"])))
    obs = "[" + "; ".join(zlist([zval(x) for x in (c or [])]) for c in r.get("content") or []) + "]"
    if with_attempts and l.get("expected") is not None:
        exp = "[" + "; ".join(zlist([zval(x) for x in (c or [])]) for c in l["expected"]) + "]"
        must = bool(l.get("must_fail"))
    else:
        exp, must = obs, False   # a cancelled run: the content is compared in the uncancelled scenario
    return "(mkAfter [%s] %s [%s] %d %s [%s] %s %s %s %s)" % (
        "; ".join(cbool(b) for b in l["frozen"]), zlist(r["ic"]),
        "; ".join(cbool(b) for b in r["probe_ok"]), r["depth_delta"], cbool(r["rerun_ok"]), "; ".join(atts),
        obs, exp, cbool(must), cbool(r["outcome"] == "err"))


PAIR_FILES = ["starlark/library.go", "starlark/eval.go", "starlark/interp.go", "starlark/value.go", "starlark/iter.go",
              "starlark/unpack.go", "lib/json/json.go", "lib/proto/proto.go", "starlarkstruct/struct.go"]
ITER_SITE = re.compile(r"^\s*(\w+)\s*:?=\s*(?:[\w.()]+\.)?Iterate\(")
CONTAINERS = ("iterstack = append(iterstack, %s)", "iters[i] = %s")


def pairing_scan(repo):
    """Every `x := ...Iterate(...)` in the interpreter and the libraries is followed by `defer x.Done()`,
    or handed to a container that a deferred function drains, or (explicit Done) has x.Done() in front of
    every return / break that follows it up to its last Done.  Returns (sites, unpaired)."""
    import os
    sites, bad = [], []
    for rel in PAIR_FILES:
        path = os.path.join(repo, rel)
        if not os.path.exists(path):
            continue
        lines = open(path).read().split("\n")
        for i, ln in enumerate(lines):
            m = ITER_SITE.match(ln)
            if not m or ln.strip().startswith("//"):
                continue
            x = m.group(1)
            # end of the enclosing function: next line that is exactly "}"
            end = next((j for j in range(i, len(lines)) if lines[j] == "}"), len(lines))
            # in interp.go the unit is the `case` of the opcode switch
            if rel.endswith("interp.go"):
                end = next((j for j in range(i + 1, end) if re.match(r"^\t\tcase ", lines[j])), end)
            body = lines[i + 1:end]
            how = None
            for j, b in enumerate(body[:10]):
                if b.strip() == "defer %s.Done()" % x:
                    how = "defer"
                    break
            if how is None and any(c % x in b for b in body for c in CONTAINERS):
                how = "container"
            if how is None and re.match(r"^\s*return\b", ln.strip().split(":=")[-1].strip()) is None:
                dones = [j for j, b in enumerate(body) if b.strip() == "%s.Done()" % x]
                if dones:
                    how = "explicit"
                    depth_nil = None
                    for j, b in enumerate(body[:dones[-1]]):
                        t = b.strip()
                        if t.startswith("if %s == nil" % x):
                            depth_nil = len(b) - len(b.lstrip())
                            continue
                        if depth_nil is not None:
                            if t == "}" and len(b) - len(b.lstrip()) == depth_nil:
                                depth_nil = None
                            continue
                        if re.match(r"^(return\b|break \w+)", t):
                            ind = len(b) - len(b.lstrip())
                            released = False
                            for p in reversed(body[:j]):      # the statements of the same block, back to its opening line
                                if p.strip() and len(p) - len(p.lstrip()) < ind:
                                    break
                                if p.strip() == "%s.Done()" % x:
                                    released = True
                            if not released:
                                how = "leak"
                                bad.append({"file": rel, "line": i + 1, "site": ln.strip(), "exit_line": i + 2 + j, "exit": t})
                                break
            if how is None:
                how = "unpaired"
                bad.append({"file": rel, "line": i + 1, "site": ln.strip()})
            sites.append((rel, i + 1, x, how))
    return sites, bad


def par_mismatches(ctx, name, header, cases, fns, shard, workers=6):
    chunks = [(i, cases[i:i + shard]) for i in range(0, len(cases), shard)]
    bad = [[] for _ in fns]

    def one(ic):
        i, chunk = ic
        return i, coq_mismatches(ctx, "%s_%d" % (name, i), header, chunk, fns, shard=shard, timeout=200 if ctx.quick() else 850)
    with cf.ThreadPoolExecutor(max_workers=workers) as ex:
        for i, res in ex.map(one, chunks):
            for k in range(len(fns)):
                bad[k].extend(i + j for j in res[k])
    return bad


def run(ctx):
    ctx.proofs()
    ctx.log("proofs audited")
    sites, unpaired = pairing_scan(ctx.repo)
    ctx.log("Iterate/Done pairing: %d sites (%s), %d not paired" % (
        len(sites), ", ".join("%s %d" % (h, sum(1 for s in sites if s[3] == h)) for h in ("defer", "container", "explicit")), len(unpaired)))
    hx = ctx.go_build("c06")
    ctx.log("harness built")
    if ctx.quick():
        args = ["-rand", "60", "-cancel-every", "12"]
    else:
        args = ["-rand", "600", "-cancel-every", "1"]
    lines = ctx.jsonl([hx, "-seed", str(ctx.seed)] + args, timeout=840)
    dist, tags = {}, {}
    terms, refs = [], []
    nviol = 0
    ncancel = 0
    for l in lines:
        k = l["kind"]
        fam = l["family"].split(":")[0]
        dist[k + ":" + fam] = dist.get(k + ":" + fam, 0) + 1
        if k == "static-error":
            ctx.broken("harness:scenario-does-not-compile", "%s: %s\n%s" % (l["family"], l["res"].get("msg"), l.get("src")))
            continue
        for t in l.get("tags") or []:
            tags[t] = tags.get(t, 0) + 1
        if l.get("viol"):
            nviol += 1
            ctx.finding(l["vkey"], "%s: %s" % (l["family"], l["viol"]),
                        {"family": l["family"], "kinds": l["kinds"], "frozen": l["frozen"], "limit": l.get("limit", 0),
                         "source": l.get("src"), "observed": l.get("res"), "how": "run main(c0, c1) with starlark.Call on host-created collections [a,b,c]; see harness/cmd/c06"})
        if k == "scenario":
            r = l["res"]
            init = "[" + "; ".join("(%s, %s)" % (cbool(f), zlist([zval(x) for x in c])) for f, c in zip(l["frozen"], l["init"])) + "]"
            out = {"ok": "ORet", "err": "OErr", "panic": "OPanic"}.get(r["outcome"], "OErr")
            cs = "[" + "; ".join(zlist([zval(x) for x in (c or [])]) for c in r["content"]) + "]"
            terms.append("(CScen %s %s %s %s %s %s)" % (init, l["coq"], out, zlist(r["ic"]), cs, after_term(l)))
            refs.append(l)
            if r.get("n_attempts", len(r.get("attempts") or [])) != len(l.get("expects") or []) and not l.get("viol"):
                ctx.broken("correspondence:C06.path", "scenario %s (%s): %d attempts observed, %d on the predicted path\n%s" % (
                    l["id"], l["family"], len(r.get("attempts") or []), len(l.get("expects") or []), l.get("src")))
        elif k == "cancel":
            ncancel += 1
            if l.get("viol") and l["res"].get("ic") is not None:
                terms.append("(CAfter %s)" % after_term(l, False))
                refs.append(l)
    ctx.log("harness: %d scenarios, %d cancellation runs, %d Go-oracle violations; %d cases for Coq" % (
        sum(1 for l in lines if l["kind"] == "scenario"), ncancel, nviol, len(terms)))
    # many scenarios differ only in their source text (argument shapes): evaluate each distinct term once
    uniq, first = [], {}
    for i, t in enumerate(terms):
        if t not in first:
            first[t] = len(uniq)
            uniq.append(t)
    ub_model, ub_spec = par_mismatches(ctx, "c06_cases", HEADER, uniq, ["model_ok", "spec_ok"], shard=1000 if ctx.quick() else 500)
    ubm, ubs = set(ub_model), set(ub_spec)
    bad_model = [i for i, t in enumerate(terms) if first[t] in ubm]
    bad_spec = [i for i, t in enumerate(terms) if first[t] in ubs]
    for i in bad_spec:
        l = refs[i]
        ctx.finding(l["vkey"], "%s: the observation violates the specification (Spec.spec_after)" % l["family"],
                    {"family": l["family"], "kinds": l["kinds"], "source": l.get("src"), "observed": l.get("res"), "coq_term": terms[i]})
    only_model = [i for i in bad_model if i not in set(bad_spec)]
    if only_model:
        l = refs[only_model[0]]
        ctx.broken("correspondence:C06.Model", "model and implementation differ on %d scenario(s) where the specification is met, e.g. %s (%s)\n%s\nobserved %s\nterm %s" % (
            len(only_model), l["id"], l["family"], l.get("src"), l.get("res"), terms[only_model[0]][:1500]))
    if len(sites) < 30:
        ctx.broken("pairing-scan", "only %d Iterate sites recognised in the sources: the scan no longer reads the code" % len(sites))
    if unpaired and not ctx.findings:
        # the model assumes Done on every path (HIterDefer, SUnpack, SStarArgs): a site that is not paired is an
        # obligation of the tie that no longer holds, even if no scenario above happened to reach it
        ctx.broken("pairing:" + unpaired[0]["file"], "Iterate() without Done() on every path: %s" % unpaired[:3])
    cov = {
        "iterate_sites": len(sites), "iterate_sites_unpaired": unpaired,
        "evaluations": len(lines), "distinct_nontrivial": len(set(terms)),
        "rule": "systematic product {list,dict,set} x {for, list/dict comprehension (1 and 2 clauses), *args (def / built-in callee), sequence assignment (arity 1..5), 31 iterating built-in/method expressions incl. sorted/min/max key= call-backs, Go push iterators Elements/Entries/.Elements()/.Entries()} x every Starlark mutator of the kind and every Go-API mutator x exits {exhaustion, break, continue, return, fail() at iteration i, panicking host built-in, range-body break/panic, Seq created but never ranged / ranged twice} x nesting (2 and 3 loops over the same collection, recursion through nested calls, built-ins inside loops) + seeded random compositions; each scenario also under step-limit cancellation at its step indices (every index in the thorough tier); distinct = distinct Coq terms (initial heap, program tree, observation)",
        "samples": [{"family": r["family"], "src": r.get("src"), "res": r.get("res")} for r in (refs[:2] + refs[len(refs) // 2: len(refs) // 2 + 2])],
        "distribution": dist, "construct_tags": tags, "cancellation_runs": ncancel,
        "go_oracle_violations": nviol, "model_mismatches": len(bad_model), "spec_mismatches": len(bad_spec),
    }
    return ctx.finish(LEVEL, cov, assumptions=[
        "a program enters the theorems as the tree of lock-relevant actions along one execution path; the harness's emitter derives that tree from the scenario description (checked by the correspondence: outcome, itercounts, contents, depth)",
        "fewer than 2^32 iterators are live at once (itercount is a uint32; hypothesis bounded_live of mutation_during_iteration_fails)",
        "collections are not frozen while a call is in progress; iterables implemented by the host outside starlark-go are not covered",
        "Go's defer runs on panic and on return (the deferred clean-up of CallInternal, Call and of every built-in is modelled as always executed)",
    ])
