"""C09 -- static rules and dialect options are enforced before and during execution (DESIGN.md section 8, C09)."""
import json

from .lib import cbool, clist, coq_mismatches, HarnessError
from .c08_c09_util import coq_eval_parts, coq_eval_sharded

LEVEL = "proof"
META = {
    "category": "proof",
    "text": "Coq theorems over a state-passing model of the resolver (context counters, option gating, parameter-list and argument-list scans, load rules, assignment targets, scoping with the block table, the predeclared-name cache and lookupLexical's memoisation) against a declarative specification of the static rules, for ALL programs of the modelled syntax and ALL 2^6 option vectors: the resolver accepts a program iff no static rule is broken (all 35 rules: resolver_accepts_iff_no_rule_broken); a (rule, position) is reported iff the specification says the rule is violated there, exactly, for the 30 rules that need no name resolution beyond the parameter list itself (break/continue/return/load placement, if/for/while at top level, while, assignment targets, order and duplicates of arguments, the 255 limits, order and duplicates of parameters, bare *) and for top-level rebinding (RReassign, against the check's oracle Spec.scope_viol itself); for load rebinding exactly unless a load statement is nested in a function (itself an error); the scoping rules 'undefined name' and 'set without the Set option' are proved against a declarative scoping specification (ScopeSpec.v: every identifier use with the binding sets of its enclosing function/comprehension blocks; undefined = bound by no enclosing block, by no file-level binding of the module -- anywhere in the file, or so far under GlobalReassign --, not predeclared, not universal): every report is at such a use, every such use leads to a report of the same rule (for undefined names: of the same name; at its own position when the use is outside every block) -- lookupLexical memoises failed lookups and useToplevel caches predeclared/universal names, so repeats are reported once, which the theorems state; the check's executable oracle Spec.scope_viol names exactly these uses on regular programs (the two corners where it differs from the resolver are stated as examples); while and top-level if/for/while are rejected exactly when While resp. TopLevelControl is off and no other option influences these rules; an option that is ON never causes a rejection (all six options, including Set and GlobalReassign); duplicate parameters are reported exactly as specified for every parameter list; a rejected program performs no effect in the pipeline model; and, over a model of Call/CallInternal's stack scan: with recursion off the active function frames have pairwise distinct code identities under ALL call sequences (direct, mutual, through built-in frames, through different closures of one definition) and a re-entering call fails. Tied to /repo on every run: generated programs with one of 229 planted constructs x option vectors through the real parse/resolve/compile/run pipeline with logging built-ins; the real syntax tree is translated into the model's syntax and the model's error list compared with the resolver's (exact list, vm_compute), the specification (incl. an executable scoping oracle) with the reported errors; call graphs reaching an active function with recursion off and on.",
    "note": "The per-node equivalence 'reported iff broken' is exact for 31 rules; for RUndefined and RSetUnsupported it holds up to the resolver's once-only reporting of repeated failed lookups (the naive per-node statement is false for the code as it is, see Properties.ex_memoised_once; a program with such a use is rejected); for RLoadReassign it is proved except at the items of a load statement nested in a function (named _partial). Spec.scope_viol is inexact in two corners the generator does not reach (a use inside a file-level tuple target after a binding in the same target, under GlobalReassign; parameter lists with a superfluous * or **): Properties.ex_oracle_corners; the theorems about it are stated for regular programs (ScopeSpec.regular). Trusted: Coq kernel + vm_compute; the harness and its translation of syntax.File into the model's syntax; rule classes are read from resolver messages by substring; the function-depth counter of the model stands for container().function != nil.",
    "technique": "Coq proof over executable model + differential correspondence on real syntax trees (vm_compute) + independent expectation oracle in the harness",
}

HEADER = """From Coq Require Import String Ascii List Bool Arith NArith.
From SV Require Import C09.Syntax C09.Model C09.Spec C09.Bindings.
Import ListNotations.
Open Scope string_scope.
Inductive arg1 := A1Pos (n : N) (e : expr) | A1Named (n : N) (x : string) (e : expr) | A1Star (n : N) (e : expr) | A1SS (n : N) (e : expr).
Inductive par1 := P1Id (n : N) (x : string) | P1Def (n : N) (x : string) (d : expr) | P1Star (n : N) (o : option (N * string)) | P1SS (n nn : N) (x : string).
Inductive cl1 := C1For (v : lhs) (e : expr) | C1If (e : expr).
Fixpoint es (l : list expr) : exprs := match l with [] => ENil | e :: r => ECons e (es r) end.
Fixpoint ar (l : list arg1) : args :=
  match l with
  | [] => ANil
  | A1Pos n e :: r => APos n e (ar r) | A1Named n x e :: r => ANamed n x e (ar r)
  | A1Star n e :: r => AStar n e (ar r) | A1SS n e :: r => AStarStar n e (ar r)
  end.
Fixpoint pr (l : list par1) : params :=
  match l with
  | [] => PNil
  | P1Id n x :: r => PId n x (pr r) | P1Def n x d :: r => PDef n x d (pr r)
  | P1Star n o :: r => PStar n o (pr r) | P1SS n nn x :: r => PStarStar n nn x (pr r)
  end.
Fixpoint cs (l : list cl1) : clauses :=
  match l with [] => CNil | C1For v e :: r => CFor v e (cs r) | C1If e :: r => CIf e (cs r) end.
Fixpoint ls (l : list lhs) : lhss := match l with [] => LNil | x :: r => LCons x (ls r) end.
Fixpoint ss (l : list stmt) : stmts := match l with [] => SNil | x :: r => SCons x (ss r) end.
Definition O (b : nat) : options :=
  {| o_set := Nat.testbit b 0; o_while := Nat.testbit b 1; o_toplevel_control := Nat.testbit b 2;
     o_global_reassign := Nat.testbit b 3; o_load_binds_globally := Nat.testbit b 4; o_recursion := Nat.testbit b 5 |}.
Definition err_eqb (a b : rule * N) : bool := rule_eqb (fst a) (fst b) && N.eqb (snd a) (snd b).
Fixpoint list_eqb {X} (f : X -> X -> bool) (a b : list X) : bool :=
  match a, b with [], [] => true | x :: r, y :: s => f x y && list_eqb f r s | _, _ => false end.
Definition case := (program * list (nat * list (rule * N)) * list (bool * bool * list (N * N)))%type.
Definition OB (gr lbg : bool) : options :=
  {| o_set := true; o_while := true; o_toplevel_control := true; o_global_reassign := gr; o_load_binds_globally := lbg; o_recursion := false |}.
Open Scope N_scope.
"""

CHECKS = """
(* correspondence: the model reports the resolver's error list, in order, under every option vector tried *)
Definition model_ok (c : case) : bool :=
  let '(p, runs, bs) := c in forallb (fun r => list_eqb err_eqb (resolve (O (fst r)) W p) (snd r)) runs.
(* oracle: what the resolver reported is what the specification calls a violation (both directions) *)
Definition spec_ok (c : case) : bool :=
  let '(p, runs, bs) := c in forallb (fun r => spec_agrees (O (fst r)) W p (snd r)) runs.
(* oracle: every identifier use is bound (local/free/global/predeclared/universal/undefined) as the scoping rules say *)
Definition bind_ok (c : case) : bool :=
  let '(p, runs, bs) := c in
  forallb (fun b => let '(gr, lbg, obs) := b in bindings_agree (OB gr lbg) W p obs) bs.
"""


def q(s):
    return '"%s"' % s


def c_expr(e):
    t = e[0]
    if t == "EId":
        return "(EId %d %s)" % (e[1], q(e[2]))
    if t == "ELit":
        return "ELit"
    if t == "EOp":
        return "(EOp (es %s))" % clist([c_expr(x) for x in e[1]])
    if t == "ECall":
        return "(ECall %d %s (ar %s))" % (e[1], c_expr(e[2]), clist([c_arg(a) for a in e[3]]))
    if t == "ELambda":
        return "(ELambda %d (pr %s) %s)" % (e[1], clist([c_par(p) for p in e[2]]), c_expr(e[3]))
    if t == "EComp":
        return "(EComp %d %s %s (cs %s) %s)" % (e[1], c_expr(e[2]), c_lhs(e[3]), clist([c_cl(c) for c in e[4]]), c_expr(e[5]))
    raise HarnessError("unknown expr %r" % (e,))


def c_arg(a):
    t = a[0]
    if t == "APos":
        return "A1Pos %d %s" % (a[1], c_expr(a[2]))
    if t == "ANamed":
        return "A1Named %d %s %s" % (a[1], q(a[2]), c_expr(a[3]))
    if t == "AStar":
        return "A1Star %d %s" % (a[1], c_expr(a[2]))
    return "A1SS %d %s" % (a[1], c_expr(a[2]))


def c_par(p):
    t = p[0]
    if t == "PId":
        return "P1Id %d %s" % (p[1], q(p[2]))
    if t == "PDef":
        return "P1Def %d %s %s" % (p[1], q(p[2]), c_expr(p[3]))
    if t == "PStar":
        return "P1Star %d %s" % (p[1], "None" if p[2] is None else "(Some (%d, %s))" % (p[2][0], q(p[2][1])))
    return "P1SS %d %d %s" % (p[1], p[2], q(p[3]))


def c_cl(c):
    if c[0] == "CFor":
        return "C1For %s %s" % (c_lhs(c[1]), c_expr(c[2]))
    return "C1If %s" % c_expr(c[1])


def c_lhs(l):
    t = l[0]
    if t == "LId":
        return "(LId %d %s)" % (l[1], q(l[2]))
    if t == "LSeq":
        return "(LSeq %d (ls %s))" % (l[1], clist([c_lhs(x) for x in l[2]]))
    if t == "LExpr":
        return "(LExpr (es %s))" % clist([c_expr(x) for x in l[1]])
    return "(LBad %d)" % l[1]


def c_stmt(s):
    t = s[0]
    if t == "SExpr":
        return "(SExpr %s)" % c_expr(s[1])
    if t == "SBranch":
        return "(SBranch %d)" % s[1]
    if t == "SIf":
        return "(SIf %d %s %s %s)" % (s[1], c_expr(s[2]), c_stmts(s[3]), c_stmts(s[4]))
    if t == "SAssign":
        return "(SAssign %s %s %s)" % (cbool(s[1]), c_lhs(s[2]), c_expr(s[3]))
    if t == "SDef":
        return "(SDef %d %d %s (pr %s) %s)" % (s[1], s[2], q(s[3]), clist([c_par(p) for p in s[4]]), c_stmts(s[5]))
    if t == "SFor":
        return "(SFor %d %s %s %s)" % (s[1], c_lhs(s[2]), c_expr(s[3]), c_stmts(s[4]))
    if t == "SWhile":
        return "(SWhile %d %s %s)" % (s[1], c_expr(s[2]), c_stmts(s[3]))
    if t == "SReturn":
        return "(SReturn %d %s)" % (s[1], "None" if s[2] is None else "(Some %s)" % c_expr(s[2]))
    if t == "SLoad":
        return "(SLoad %d %s)" % (s[1], clist(["(%d, %s, %d, %s)" % (i[0], q(i[1]), i[2], q(i[3])) for i in s[2]]))
    raise HarnessError("unknown stmt %r" % (s,))


def c_stmts(l):
    return "(ss %s)" % clist([c_stmt(x) for x in l])


def optstr(b):
    names = ["Set", "While", "TopLevelControl", "GlobalReassign", "LoadBindsGlobally", "Recursion"]
    on = [n for i, n in enumerate(names) if b & (1 << i)]
    return "{" + ",".join(on) + "}"


def run_resolve(ctx):
    hx = ctx.go_build("c09")
    quick = ctx.quick()
    cmd = [hx, "resolve", "-seed", str(ctx.seed), "-n", "960" if quick else "5000",
           "-vectors", "6" if quick else "64", "-coq", "16" if quick else "320"]
    rows = ctx.jsonl(cmd, timeout=1500)
    world = [r for r in rows if r.get("kind") == "world"][0]
    summary = [r for r in rows if r.get("kind") == "rsummary"][0]
    progs = [r for r in rows if r.get("kind") == "prog"]
    ctx.log("resolve: %d programs x %d option vectors = %d pipeline runs; %d programs disagree with the rule expectations" % (
        summary["programs"], summary["vectors"], summary["runs"], summary["problem_programs"]))
    for p in progs:
        for pb in p["problems"]:
            if pb.startswith("generator:"):
                ctx.broken("generator:C09", pb + "\n" + p["src"])
                break
            what = pb.split(": ", 1)[1] if ": " in pb else pb
            cls = "accepted" if "accepted, but" in pb else "rejected-valid" if "breaks no rule" in pb else "effects" if "effects" in pb and "rejected program" in pb else "panic" if "panic" in pb else "wrong-error"
            if "legacy ExecFile" in pb:
                cls += ":legacy-entry-point"
            if "scoping rules give" in pb or "must fail at run time" in pb:
                cls = "wrong-binding"
            if pb.startswith("loader entry point"):
                cls = "loader-entry-point:" + ("accepted" if "module accepted" in pb else "rejected")
            ctx.finding("resolve:%s:%s:%s" % (p["plant"], p["where"] or "expr", cls),
                        "planted %s (%s) at %s; %s\n%s" % (p["plant"], p["where"] or "expression", p["marker"], pb, p["src"]), p)
            break
    header = HEADER + "Definition W : world := {| w_predeclared := %s; w_universal := %s |}.\n" % (
        clist([q(x) for x in world["predeclared"]]), clist([q(x) for x in world["universal"]])) + CHECKS
    terms, refs = [], []
    for p in progs:
        if not p["coq"] or p.get("tree") is None:
            continue
        runs = clist(["(%d%%nat, %s)" % (r["opts"], clist(["(%s, %d)" % (e["rule"], e["pos"]) for e in r["errs"]]))
                      for r in p["runs"] if not r.get("other") and all(not e["rule"].startswith("other:") for e in r["errs"])])
        bsets = clist(["(%s, %s, %s)" % (cbool(b["gr"]), cbool(b["lbg"]), clist(["(%d, %d)" % (x[0], x[1]) for x in b["binds"]]))
                       for b in p.get("bindsets") or []])
        terms.append("(%s, %s, %s)" % (c_stmts(p["tree"]), runs, bsets))
        refs.append(p)
    return ("R", header, terms, ["model_ok", "spec_ok", "bind_ok"]), lambda bad: resolve_finish(ctx, summary, terms, refs, bad[0], bad[1], bad[2])


def resolve_finish(ctx, summary, terms, refs, bad_model, bad_spec, bad_bind):
    for i in bad_bind:
        p = refs[i]
        if p["problems"]:
            continue
        ctx.finding("resolve-bindings:%s:%s" % (p["plant"], p["where"] or "expr"),
                    "the resolver binds some identifier use differently from the scoping rules (local/free/global/predeclared/universal/undefined) under GlobalReassign x LoadBindsGlobally; bindings recorded by the resolver: %s\n%s" % (
                        json.dumps(p.get("bindsets"))[:600], p["src"]), p)
    for i in bad_spec:
        p = refs[i]
        if p["problems"]:
            continue
        ctx.finding("resolve-spec:%s:%s" % (p["plant"], p["where"] or "expr"),
                    "the resolver's errors for this program differ from the specification's violations under some option vector (planted %s); runs: %s\n%s" % (
                        p["plant"], json.dumps([(optstr(r["opts"]), r["errs"]) for r in p["runs"]][:4]), p["src"]), p)
    only_model = [i for i in bad_model if i not in set(bad_spec)]
    if only_model:
        p = refs[only_model[0]]
        ctx.broken("correspondence:C09.Model", "model and resolver report different error lists on %d program(s) where the specification is met, e.g. planted %s:\n%s\nruns: %s" % (
            len(only_model), p["plant"], p["src"], json.dumps([(optstr(r["opts"]), r["errs"]) for r in p["runs"]][:4])))
    ctx.log("resolve: %d programs in Coq (model mismatches %d, spec mismatches %d)" % (len(terms), len(bad_model), len(bad_spec)))
    return {
        "evaluations": summary["runs"], "distinct_nontrivial": summary["runs"],
        "programs": summary["programs"], "option_vectors": summary["vectors"], "plants": summary["plants"],
        "rule": "programs from a grammar (defs with all parameter kinds, nested defs, lambdas with defaults, comprehensions with several clauses, if/for/break/continue, calls with positional/named/*/** arguments, loads) valid under every option vector; in 7 of 8 programs one construct is planted (229 kinds: every rule of the resolver, at top level / in a function / in a loop / in an if / in a nested def / in a def inside a loop, or wrapped in random expression contexts), plus 7 context-sensitive constructs (load, break, continue, return, if, for, while) x 30 branch positions (if-true, elif, final else after one or two elifs, for body, while body, nestings of these, after a compound statement; at top level and in a function) with the exact expected error list, x option vectors (quick: all-off, all-on and 4 seeded; thorough: all 64), and x all 16 combinations of the legacy flags resolve.AllowSet/AllowGlobalReassign/AllowRecursion/LoadBindsGlobally through the legacy entry point starlark.ExecFile, compared with the rules under the documented mapping of LegacyFileOptions; and as a module reached through load() via the loader of repl.MakeLoadOptions(opts) with the legacy flags set to the complement of opts (must behave as under ExecFileOptions(opts)). Eight use/bind/use-again programs (a universal, a predeclared and an undeclared name used at top level and in a function, then bound as a global once or twice, then used again) with the VALUES of the uses as a direct oracle. For the programs sent to Coq the resolver's binding decision of every identifier (syntax.Ident.Binding: local or cell, free, global, predeclared, universal, undefined) under GlobalReassign x LoadBindsGlobally is dumped and compared with the scoping oracle C09.Bindings. Every argument-list rule is also planted AFTER an argument that contains a nested call (plain, with its own named / * / ** arguments, two levels deep, inside a lambda, inside a comprehension; as the value of the preceding named argument or as a separate argument in between), and the same keyword inside and outside a nested call must be accepted. The misplaced positional argument of the argument-order plants ranges over 18 expression forms (literal, identifier, unary -, +, ~, not, parenthesised, binary, list, dict, call, lambda, conditional, comprehension, index, attribute, tuple, string). Each run goes through the real ExecFileOptions pipeline with logging built-ins and a logging loader.",
        "distribution": summary["dist"], "coq_programs": len(terms),
        "model_mismatches": len(bad_model), "spec_mismatches": len(bad_spec), "binding_mismatches": len(bad_bind),
        "expectation_mismatches": summary["problem_programs"],
        "samples": [{"plant": p["plant"], "where": p["where"], "marker": p["marker"], "src": p["src"][:400],
                     "runs": [(optstr(r["opts"]), r["errs"], r["accepted"]) for r in p["runs"][:3]]} for p in refs[:3]],
    }


# ------------------------------------------------------------ recursion check
RHEADER = """From Coq Require Import List Bool Arith.
From SV Require Import C09.Recursion.
Import ListNotations.
Definition case := (bool * list event * option nat)%type.
(* first call that does not enter: the code it was calling *)
Fixpoint first_failure (evs : list event) (outs : list outcome) : option nat :=
  match evs, outs with
  | CallFn _ c :: er, o :: r => match o with Entered => first_failure er r | _ => Some c end
  | _ :: er, _ :: r => first_failure er r
  | _, _ => None
  end.
Definition until_failure (evs : list event) (outs : list outcome) : list event :=
  (fix go evs outs := match evs, outs with
                      | e :: er, o :: r => match o with Entered | Returned => e :: go er r | _ => [] end
                      | _, _ => []
                      end) evs outs.
Fixpoint nodupb (l : list nat) : bool :=
  match l with [] => true | x :: r => negb (existsb (Nat.eqb x) r) && nodupb r end.
(* correspondence: the model of Call/CallInternal fails at the call the interpreter failed at (or nowhere) *)
Definition model_ok (c : case) : bool :=
  let '(rec, evs, obs) := c in
  let r := run (fun _ => rec) 1000 [] evs in
  match first_failure evs (snd r), obs with
  | Some a, Some b => Nat.eqb a b
  | None, None => match fst r with [] => true | _ => false end
  | _, _ => false
  end.
(* oracle: with recursion off the active function frames keep pairwise distinct codes at every prefix
   up to the failing call, and a failure happened iff the called code was active *)
Definition spec_ok (c : case) : bool :=
  let '(rec, evs, obs) := c in
  let outs := snd (run (fun _ => rec) 1000 [] evs) in
  let pre := until_failure evs outs in
  forallb (fun k => rec || nodupb (off_codes (fun _ => rec) (fst (run (fun _ => rec) 1000 [] (firstn k pre)))))
          (seq 0 (S (length pre)))
  && match obs with
     | Some code => negb rec && existsb (same_code code) (fst (run (fun _ => rec) 1000 [] pre))
     | None => true
     end.
"""


def run_rec(ctx):
    hx = ctx.go_build("c09")
    quick = ctx.quick()
    rows = ctx.jsonl([hx, "rec", "-seed", str(ctx.seed), "-n", "120" if quick else "2000"], timeout=900)
    summary = [r for r in rows if r.get("kind") == "recsummary"][0]
    cases = [r for r in rows if r.get("kind") == "rec"]
    ctx.log("recursion: %d call graphs x recursion off/on; %d disagree with the rule" % (summary["graphs"], summary["problems"]))
    terms, refs = [], []
    for c in cases:
        if c.get("problem"):
            kind = "reentered" if c["obs"].startswith("ok") and not c["rec"] else "spurious-failure" if c["expect"].startswith("ok") else "wrong-function"
            edges = "closure-pair" if any(n.startswith("k0") for n in c["chain"]) else "plain"
            if c.get("nolocals"):
                edges += ":functions-without-parameters-or-locals"
            ctx.finding("recursion:%s:%s:%s:%s" % ("on" if c["rec"] else "off", c.get("entry", "file"), kind, edges),
                        "call chain %s with Recursion=%s, entered from %s: %s\n%s" % (" -> ".join(c["chain"]), c["rec"], "the host (starlark.Call on an idle thread)" if c.get("entry") == "go" else "the legacy entry point starlark.ExecFile with resolve.AllowRecursion set accordingly" if c.get("entry") == "legacy" else "the module top level", c["problem"], c["src"]), c)
        if c["obs"].startswith("other:"):
            continue
        evs = clist(["CallFn %d %d" % (e[1], e[2]) if e[0] == 0 else "CallBuiltin %d" % e[1] if e[0] == 1 else "Return" for e in c["events"]])
        if c["obs"].startswith("recursion:"):
            code = c["codes"].get(c["obs"].split(":", 1)[1])
            if code is None:
                ctx.finding("recursion:unknown-function", "recursion error names an unknown function: %s" % c["obs"], c)
                continue
            obs = "(Some %d)" % code
        else:
            obs = "None"
        terms.append("(%s, %s, %s)" % (cbool(c["rec"]), evs, obs))
        refs.append(c)
    if quick:
        terms, refs = terms[:90], refs[:90]
    return ("S", RHEADER, terms, ["model_ok", "spec_ok"]), lambda bad: rec_finish(ctx, summary, terms, refs, bad[0], bad[1])


def rec_finish(ctx, summary, terms, refs, bad_model, bad_spec):
    for i in bad_spec:
        c = refs[i]
        if c.get("problem"):
            continue
        ctx.finding("recursion-spec:%s" % ("on" if c["rec"] else "off"),
                    "call chain %s with Recursion=%s: observed %s, which contradicts the distinct-code invariant\n%s" % (" -> ".join(c["chain"]), c["rec"], c["obs"], c["src"]), c)
    only_model = [i for i in bad_model if i not in set(bad_spec)]
    if only_model:
        c = refs[only_model[0]]
        ctx.broken("correspondence:C09.Recursion", "model and interpreter differ on %d call graph(s), e.g. chain %s, Recursion=%s, observed %s" % (
            len(only_model), c["chain"], c["rec"], c["obs"]))
    ctx.log("recursion: %d runs in Coq (model mismatches %d, spec mismatches %d)" % (len(terms), len(bad_model), len(bad_spec)))
    return {"recursion_graphs": summary["graphs"], "recursion_runs": summary["runs"], "recursion_distribution": summary["dist"],
            "recursion_coq_runs": len(terms), "recursion_model_mismatches": len(bad_model),
            "recursion_spec_mismatches": len(bad_spec), "recursion_rule_mismatches": summary["problems"],
            "recursion_rule": "call chains of length <= 6 over <= 4 callables drawn from 4 plain functions and two closures of one definition, in two styles (functions taking the rest of the chain as a parameter; functions with NO parameters and NO local variables that read the chain from a host list); each definition calls the next callable directly, through a lambda, or through the key callback of sorted/min/max (seeded per definition); one third of the chains are made acyclic; every chain is run twice in sequence, with Recursion off and on, entered both from the module's top level and by the host with starlark.Call on an idle thread (no <toplevel> frame below) and through starlark.ExecFile with resolve.AllowRecursion"}


def run(ctx):
    ctx.proofs()
    pr, fr = run_resolve(ctx)
    ps, fs = run_rec(ctx)
    if ctx.quick():
        bad = coq_eval_parts(ctx, "c09_all", [pr, ps])
    else:
        bad = coq_eval_sharded(ctx, "c09", [pr, ps], shard={"R": 40, "S": 2000})
    cov = fr(bad["R"])
    rc = fs(bad["S"])
    cov.update(rc)
    cov["evaluations"] += rc["recursion_runs"]
    cov["distinct_nontrivial"] += rc["recursion_runs"]
    return ctx.finish(LEVEL, cov, assumptions=[
        "the translation of syntax.File into the model's syntax (harness) is trusted; positions are (line*1000+col) of the token the resolver reports",
        "rule classes are read from the resolver's messages by substring",
        "REPL chunks (isGlobal) and the spell-check hint are out of scope",
    ])
