"""C11 -- equality, hashing and ordering are mutually coherent (DESIGN.md section 8, C11)."""
import random
import struct

from .lib import cz, cbool, clist, copt, coq_mismatches

LEVEL = "proof"
META = {
    "category": "proof",
    "text": "Coq theorems over an executable model of CompareDepth / sameType / CompareSameType / Cmp / floatCmp / threeway / sliceCompare / rangeEqual / structsEqual, Int/Float/Tuple/Struct/Time Hash, sorted and min/max: within the comparison depth limit the six operators equal one three-way comparison of exact values (NaN greatest and equal to itself, int and float compared as rationals), == is an equivalence and != its negation, equal values hash equally (string hash a parameter), < is a strict total order modulo == on every ordered class with <=,>,>= derived from it, beyond the limit only the depth error can replace the answer, Less used by sorted is a strict weak order so any stable sort yields a stable sorted permutation (reverse included), min/max return the first extremal element. The hand-written model is tied to /repo on every run: the real operators, Hash methods, dict/set membership and sorted/min/max are run on all ordered pairs and all triples of a boundary pool and on random sequences; the algebraic laws are checked directly on the observations in Go and a sample is evaluated against Model.v and Spec.v inside Coq. Dict and set are inside the theorem universe (ModelColl.v: insertion-ordered entries, keys any hashable value incl. nested tuples, values any value; dictsEqual / setsEqual / Set.CompareSameType / IsSubset (hashtable.count) / IsSuperset / hashtable.lookup / insert / `in` modelled with the hash filter and Equal at a fresh CompareLimit): == is reflexive, symmetric and transitive and != its negation on all values within the limit whose dicts/sets are well formed (eq_equivalence_coll, neq_is_negation_coll, eq_interchangeable_coll), dict == is exactly mutual inclusion modulo == of keys and values and is insensitive to entry order (dict_eq_spec, dict_eq_order_insensitive), == keys (1 / 1.0, tuples of such) find the same entry in every dict and set and insertion under one updates the other's entry (eq_interchangeable_keys), lookups do not depend on probe order (lookup_order_insensitive), ordered comparison of dicts is an error (dict_unordered), the set operators <=,<,>=,> are a partial order whose equivalence is == (set_order_partial); the extended CompareDepth equals Model.v's on every Model.v value, operator and depth (coll_conservative), which is how the new model is tied to the correspondence check.",
    "note": "Trusted: Coq kernel + vm_compute; the harness; math/big Rat/Int, strings.Compare, sort.Stable (contract assumed as a Section hypothesis), maphash (string hash is a parameter), time.Time as oracles. Floats are modelled as exact dyadic rationals plus NaN/+-Inf/-0 (all that comparison and hashing inspect). struct constructors are atoms. The vm_compute correspondence runs Model.v (dicts / sets with atom keys); ModelColl.v (tuple keys, nested collections) is tied to it by the theorem coll_conservative and its tuple-key behaviour to the implementation by the Go law search only (dict / set histories over colliding int / float / tuple keys). In ModelColl.v entries are probed in insertion order, not bucket order (unobservable for well-formed tables: lookup_order_insensitive), the early exit of hashtable.count is not modelled, and an unhashable stored key (which insert cannot produce) answers the unhashable error; the guard cok excludes it.",
    "technique": "Coq proof over executable model + differential correspondence (vm_compute) + Spec.v oracle + direct law search in Go",
}
HEADER = """From Coq Require Import ZArith QArith Bool List.
From SV Require Import C11.Model C11.Spec.
Import ListNotations.
Open Scope Z_scope.
"""
OPS = ["EQL", "NEQ", "LT", "LE", "GT", "GE"]


def zs(bs):
    return "[" + "; ".join(str(b) for b in bs) + "]"


def hexz(h):
    return zs(bytes.fromhex(h or ""))


def flt(bits):
    bits = int(bits)
    sign = bits >> 63
    ex = (bits >> 52) & 0x7FF
    frac = bits & ((1 << 52) - 1)
    if ex == 0x7FF:
        if frac:
            return "FNaN"
        return "(FInf %s)" % cbool(sign == 1)
    if ex == 0:
        m, e = frac, -1074
    else:
        m, e = frac | (1 << 52), ex - 1075
    # normalise to an odd mantissa: keeps Coq numbers small (the model does not need it)
    while m and m % 2 == 0:
        m //= 2
        e += 1
    if m == 0:
        e = 0
    if sign:
        m = -m
    return "(FFin %s %s %s)" % (cbool(sign == 1 and m == 0), cz(m), cz(e))


def atom(d):
    t = d["t"]
    if t == "none":
        return "ANone"
    if t == "bool":
        return "(ABool %s)" % cbool(d.get("b", False))
    if t == "int":
        return "(AInt %s)" % cz(int(d["z"]))
    if t == "float":
        return "(AFloat %s)" % flt(d["bits"])
    if t == "str":
        return "(AStr %s)" % hexz(d.get("hex"))
    if t == "bytes":
        return "(ABytes %s)" % hexz(d.get("hex"))
    if t == "func":
        return "(AFunc %d %s)" % (d["id"], hexz(d.get("hex")))
    if t == "builtin":
        return "(ABuiltin %d %s %s)" % (d["id"], hexz(d.get("hex")), cbool(d.get("recv", False)))
    if t == "time":
        return "(ATime %s)" % cz(int(d["ns"]))
    if t == "dur":
        return "(ADur %s)" % cz(int(d["ns"]))
    raise ValueError("not an atom: %r" % d)


def value(d):
    t = d["t"]
    if t == "tuple":
        return "(VTuple %s)" % clist([value(e) for e in d.get("e", [])])
    if t == "list":
        return "(VList %s)" % clist([value(e) for e in d.get("e", [])])
    if t == "range":
        return "(VRange %s %s %s)" % (cz(int(d["start"])), cz(int(d["step"])), cz(int(d["len"])))
    if t == "struct":
        return "(VStruct %s %s)" % (atom(d["ctor"]), clist(["(%s, %s)" % (hexz(n.get("hex")), value(v)) for n, v in d.get("f", [])]))
    if t == "dict":
        return "(VDict %s)" % clist(["(%s, %s)" % (atom(k), value(v)) for k, v in d.get("kv", [])])
    if t == "set":
        return "(VSet %s)" % clist([atom(k) for k in d.get("e", [])])
    return "(VAtom %s)" % atom(d)


def obs(c):
    return {"T": "Some true", "F": "Some false"}.get(c, "None")


def nats(xs):
    return "[" + "; ".join("%d%%nat" % x for x in xs) + "]"


CASE_DEFS = """
Definition hs (s : list Z) : Z :=
  match find (fun p => bytes_eqb s (fst p)) strtab with Some (_, h) => h | None => 0 end.
Definition pv (i : nat) : value := nth i pool (VAtom ANone).
Definition oh (i : nat) : option Z := nth i ohash None.
Inductive case :=
| CPair (i j : nat) (obs : list (option bool))
| CHash (i : nat)
| CMember (i j : nat) (found : bool)
| CSort (keys : list nat) (reverse : bool) (out : option (list nat))
| CMinMax (ismax : bool) (keys : list nat) (out : option nat) (failed : bool).
Definition optz_eqb (a b : option Z) : bool :=
  match a, b with Some x, Some y => x =? y | None, None => true | _, _ => false end.
Definition items_of (keys : list nat) : list (value * value) :=
  map (fun pk => (pv (snd pk), VAtom (AInt (Z.of_nat (fst pk))))) (combine (seq 0 (length keys)) keys).
Definition pos_of (v : value) : option nat := match v with VAtom (AInt z) => Some (Z.to_nat z) | _ => None end.
Fixpoint natlist_eqb (a b : list nat) : bool :=
  match a, b with [] , [] => true | x :: a', y :: b' => Nat.eqb x y && natlist_eqb a' b' | _, _ => false end.
Fixpoint somes {A} (l : list (option A)) : option (list A) :=
  match l with [] => Some [] | None :: _ => None | Some x :: r => match somes r with Some r' => Some (x :: r') | None => None end end.
(* correspondence: the executable model reproduces what the implementation did *)
Definition model_ok (c : case) : bool :=
  match c with
  | CPair i j obs =>
      forallb (fun oo => match oo with (op, got) => obs_agrees (compare hs op (pv i) (pv j)) got end) (combine all_ops obs)
  | CHash i => optz_eqb (hash hs (pv i)) (oh i)
  | CMember i j found =>
      match pv i, pv j with
      | VAtom x, VAtom y => Bool.eqb (key_match hs y x) found
      | _, _ => true
      end
  | CSort keys reverse out =>
      let items := items_of keys in
      if all_comparable hs items then
        match out, somes (map pos_of (sorted_with hs (@isort _) items reverse)) with
        | Some o, Some m => natlist_eqb o m
        | _, _ => false
        end
      else true
  | CMinMax ismax keys out failed =>
      match minmax hs (if ismax then GT else LT) (items_of keys), out with
      | None, None => negb failed
      | Some (Ok v), Some p => match pos_of v with Some q => Nat.eqb p q | None => false end
      | Some ErrDepth, None | Some ErrUnord, None => failed
      | _, _ => false
      end
  end.
(* oracle: the observation satisfies the specification (no use of the model) *)
Definition spec_ok (c : case) : bool :=
  match c with
  | CPair i j obs =>
      spec_pair_ok (pv i) (pv j) obs &&
      match obs with Some true :: _ => optz_eqb (oh i) (oh j) | _ => true end
  | CHash _ => true
  | CMember i j found =>
      match pv i, pv j with
      | VAtom x, VAtom y => Bool.eqb found (key_eq x y)
      | _, _ => true
      end
  | CSort keys reverse out => spec_sorted_ok (map pv keys) reverse out
  | CMinMax ismax keys out failed =>
      spec_minmax_ok ismax (map pv keys) out || (failed && negb (all_defined (map pv keys)))
  end.
"""


def run(ctx):
    ctx.proofs()
    hx = ctx.go_build("c11")
    nseq = 300 if ctx.quick() else 20000
    nbands = 24 if ctx.quick() else 64
    recs = ctx.jsonl([hx, "-seed", str(ctx.seed), "-nseq", str(nseq), "-bands", str(nbands)], timeout=1800)
    pool = sorted([r for r in recs if r["kind"] == "pool"], key=lambda r: r["i"])
    rows = {r["i"]: r["r"] for r in recs if r["kind"] == "row"}
    members = [r for r in recs if r["kind"] == "member"]
    sorts = [r for r in recs if r["kind"] == "sort"]
    minmaxes = [r for r in recs if r["kind"] == "minmax"]
    laws = [r for r in recs if r["kind"] == "law"]
    stats = [r for r in recs if r["kind"] == "stats"]
    strtab = [(r["hex"], int(r["h"])) for r in recs if r["kind"] == "strhash"]
    n = len(pool)
    if stats and stats[0].get("aborted"):
        for l in laws:
            ctx.finding("law:%s" % l["law"], "%s: %s" % (l["law"], l["detail"]), {"law": l["law"], "detail": l["detail"]})
        return ctx.finish(LEVEL, {"evaluations": len(recs), "distinct_nontrivial": 0, "explanation": "the harness was aborted by a host panic"})
    if not stats or n == 0 or len(rows) != n:
        ctx.broken("harness:c11", "harness output incomplete (pool %d, rows %d)" % (n, len(rows)))
        return ctx.finish(LEVEL, {"evaluations": 0, "distinct_nontrivial": 0})
    st = stats[0]
    ctx.log("harness: pool %d, %d ordered pairs x 6 operators, %d triples, %d sequences, %d law violations" % (
        n, n * n, st["triples_checked"], len(sorts), st["violations"]))

    # ---- direct law violations found by the harness (the search; needs no model)
    for l in laws:
        idx = l["idx"] or []
        classes = "/".join(pool[i]["v"]["t"] for i in idx[:3]) if l["law"] not in ("sorted_order", "sorted_stable", "sorted_perm", "sorted_error", "minmax_extremal", "minmax_first", "minmax_error", "dict_history") else "seq"
        key = "law:%s:%s" % (l["law"], classes)
        ctx.finding(key, "%s violated: %s on %s" % (l["law"], l["detail"], [pool[i]["v"] for i in idx[:3]]),
                    {"law": l["law"], "detail": l["detail"], "values": [pool[i]["v"] for i in idx], "indices": idx})

    # ---- sample for Coq
    rnd = random.Random(ctx.seed)
    pairs = [(i, i) for i in range(n)]
    # magnitude bands 2^53..2^1023: [float, equal int, int+1, int-1, float+ulp, float-ulp, int(float+ulp), ...]
    groups = {}
    for p in pool:
        if p.get("grp", -1) >= 0:
            groups.setdefault(p["grp"], []).append(p["i"])
    band_pairs = []
    for g, mem_ in sorted(groups.items()):
        if ctx.quick():
            core = mem_[:3]
            band_pairs += [(a, b) for a in core for b in core if a != b]
            if len(mem_) >= 7:
                band_pairs += [(mem_[0], mem_[4]), (mem_[4], mem_[6]), (mem_[6], mem_[4])]
        else:
            band_pairs += [(a, b) for a in mem_ for b in mem_ if a != b]
    pairs += band_pairs
    # every pair of times and every pair of durations (whole representable range)
    for t in ("time", "dur"):
        idx = [p["i"] for p in pool if p["v"]["t"] == t]
        tp = [(a, b) for a in idx for b in idx if a != b]
        pairs += rnd.sample(tp, min(len(tp), 120)) if ctx.quick() else tp
    chosen = set(pairs)
    want = len(pairs) + (120 if ctx.quick() else 4000)
    nbase = sum(1 for p in pool if p.get("grp", -1) < 0)
    while len(pairs) < want:
        # two thirds of the random pairs from the base pool (all kinds), one third anywhere
        if rnd.random() < 0.67:
            q = (rnd.randrange(nbase), rnd.randrange(nbase))
        else:
            q = (rnd.randrange(n), rnd.randrange(n))
        if q[0] != q[1] and q not in chosen:
            chosen.add(q)
            pairs.append(q)
    terms, refs = [], []
    for (i, j) in pairs:
        row = rows[i][6 * j:6 * j + 6]
        terms.append("(CPair %d %d [%s])" % (i, j, "; ".join(obs(c) for c in row)))
        refs.append({"kind": "pair", "x": pool[i]["v"], "y": pool[j]["v"], "ops": dict(zip(OPS, row)),
                     "hash_x": pool[i]["hash"], "hash_y": pool[j]["hash"]})
    for p in pool:
        terms.append("(CHash %d)" % p["i"])
        refs.append({"kind": "hash", "x": p["v"], "hash": p["hash"]})
    atoms = set(p["i"] for p in pool if p["v"]["t"] not in ("tuple", "list", "range", "struct", "dict", "set"))
    mem = []
    for m in members:
        i = m["i"]
        if i not in atoms:
            continue
        for j in atoms:
            if m["dict"][j] in "TF":
                mem.append((i, j, m["dict"][j] == "T", m["set"][j] == "T"))
    band_mem = [q for q in mem if any(q[0] in g_[:2] and q[1] in g_[:2] for g_ in groups.values())]
    if ctx.quick():
        mem = band_mem + rnd.sample(mem, min(len(mem), 80))
    else:
        mem = band_mem + rnd.sample(mem, min(len(mem), 2000))
    for (i, j, d, s) in mem:
        if d != s:
            ctx.finding("member:dict-vs-set", "dict and set membership disagree for key %s probe %s" % (pool[i]["v"], pool[j]["v"]), {"x": pool[i]["v"], "y": pool[j]["v"]})
        terms.append("(CMember %d %d %s)" % (i, j, cbool(d)))
        refs.append({"kind": "member", "key": pool[i]["v"], "probe": pool[j]["v"], "found": d})
    sq = sorts[:70] if ctx.quick() else sorts[:1000]
    for s in sq:
        out = "None" if s.get("out") is None else "(Some %s)" % nats(s["out"])
        if s.get("out") is not None and any(p < 0 for p in s["out"]):
            ctx.finding("law:sorted_perm:seq", "sorted returned an element that is not in its input", s)
            continue
        terms.append("(CSort %s %s %s)" % (nats(s["items"]), cbool(s["reverse"]), out))
        refs.append({"kind": "sort", "keys": [pool[i]["v"] for i in s["items"]], "keyed": s["keyed"], "reverse": s["reverse"], "out": s.get("out")})
    mq = minmaxes[:120] if ctx.quick() else minmaxes[:1500]
    for s in mq:
        failed = s.get("err") == "err"
        out = "None" if "out" not in s else "(Some %d%%nat)" % s["out"]
        terms.append("(CMinMax %s %s %s %s)" % (cbool(s["which"] == "max"), nats(s["items"]), out, cbool(failed)))
        refs.append({"kind": "minmax", "which": s["which"], "keys": [pool[i]["v"] for i in s["items"]], "keyed": s["keyed"], "out": s.get("out"), "err": s.get("err")})

    header = HEADER
    header += "Definition strtab : list (list Z * Z) := %s.\n" % clist(["(%s, %s)" % (hexz(h), cz(v)) for h, v in strtab])
    header += "Definition pool : list value := [\n%s].\n" % ";\n".join(value(p["v"]) for p in pool)
    header += "Definition ohash : list (option Z) := %s.\n" % clist([copt(None if p["hash"] is None else cz(int(p["hash"]))) for p in pool])
    header += CASE_DEFS
    ctx.log("evaluating %d cases in Coq (model and specification)" % len(terms))
    bad_model, bad_spec = coq_mismatches(ctx, "c11_cases", header, terms, ["model_ok", "spec_ok"], shard=2500, timeout=1500)
    for i in bad_spec:
        c = refs[i]
        if c["kind"] == "pair":
            key = "spec:pair:%s/%s" % (c["x"]["t"], c["y"]["t"])
            what = "operators on %s and %s answer %s: not the specified comparison of their values, or equal values with different hashes" % (c["x"], c["y"], c["ops"])
        elif c["kind"] == "member":
            key = "spec:member:%s/%s" % (c["key"]["t"], c["probe"]["t"])
            what = "probe %s in {%s: 1} is %s: disagrees with ==" % (c["probe"], c["key"], c["found"])
        elif c["kind"] == "sort":
            key = "spec:sorted:%s" % ("reverse" if c["reverse"] else "forward")
            what = "sorted(keys=%s, reverse=%s) returned positions %s: not a stable sorted permutation" % (c["keys"], c["reverse"], c["out"])
        else:
            key = "spec:%s" % c["which"]
            what = "%s over keys %s returned position %s: not the first extremal element" % (c["which"], c["keys"], c.get("out"))
        ctx.finding(key, what, c)
    only_model = [i for i in bad_model if i not in set(bad_spec)]
    if only_model:
        c = refs[only_model[0]]
        ctx.broken("correspondence:C11.Model", "model and implementation differ on %d case(s) where the specification is met, e.g. %s" % (len(only_model), c))
    dist = {}
    for c in refs:
        k = c["kind"]
        if k == "pair":
            k = "pair %s/%s" % (c["x"]["t"], c["y"]["t"])
        dist[k] = dist.get(k, 0) + 1
    cov = {
        "evaluations": n * n * 6 + st["triples_checked"] + len(sorts) + len(minmaxes) + len(members) * n,
        "distinct_nontrivial": len(set(terms)),
        "rule": "pool of %d values (bools, ints/floats of equal magnitude across representations, +-0, NaN, +-inf, %d magnitude bands between 2^53 and 2^1023 (integral float with a random odd mantissa, the equal int, int+-1, float+-1ulp), strings/bytes below and above 12 bytes, tuples/lists nested to depth 9..12 around the limit 10, ranges, structs, functions, builtins, times, durations, dicts, sets): ALL ordered pairs x 6 operators, ALL triples of the base pool and every triple containing two values of one band, hashes, membership in {x:1} and set([x]) and one dict of everything are checked against the algebraic laws in Go; ints produced by every Int operator / conversion from big operands with small results next to the directly built equal values; random dict/set insert/update/delete histories over colliding keys in int/float/tuple representations against a reference keyed by value; %d random sequences under sorted/min/max with/without key and reverse; distinct_nontrivial = distinct cases evaluated inside Coq against C11.Model (correspondence) and C11.Spec (oracle)" % (n, len(groups), len(sorts)),
        "samples": refs[:2] + refs[len(refs) // 2: len(refs) // 2 + 2] + refs[-2:],
        "distribution": dist,
        "go_law_violations": st["violations"], "triples_checked_in_go": st["triples_checked"],
        "model_mismatches": len(bad_model), "spec_mismatches": len(bad_spec),
    }
    return ctx.finish(LEVEL, cov, assumptions=[
        "sort.Stable satisfies the stable-sort contract for a strict weak order (Section hypothesis of sorted_spec); the executable stand-in is insertion sort",
        "math/big Rat.Cmp / Int.Cmp, strings.Compare, time.Time.Before/After are oracles, modelled by exact comparison",
        "the string hash is a parameter (instantiated with the hashes observed in this process)",
        "pointer identity of *Function / *Builtin is modelled by an object id",
    ])
