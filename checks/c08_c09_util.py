"""Helpers shared by checks/c08.py and checks/c09.py (kept out of lib.py on purpose)."""
import concurrent.futures as cf
import re

from .lib import HarnessError

IDX = ("Fixpoint idx_false {A} (f : A -> bool) (i : nat) (l : list A) : list nat :=\n"
       "  match l with nil => nil | cons x r => if f x then idx_false f (S i) r else cons i (idx_false f (S i) r) end.\n")


def coq_eval_parts(ctx, name, parts, timeout=900):
    """One coqc process evaluating several independent case lists.

    parts: list of (module_name, header, terms, fns).  Each part is wrapped in its own
    Coq Module so that headers may define the same names.  Returns {module_name: [bad indices per fn]}.
    (Starting coqc and loading the libraries costs several CPU seconds: the quick tier
    uses one process for everything.)"""
    text = "Require Import List.\n"
    split = []
    for mod, header, terms, fns in parts:
        req = [l for l in header.splitlines() if l.startswith("From ") or l.startswith("Require ")]
        rest = [l for l in header.splitlines() if not (l.startswith("From ") or l.startswith("Require "))]
        text += "\n".join(req) + "\n"
        split.append("\n".join(rest))
    for (mod, header, terms, fns), rest in zip(parts, split):
        text += "Module %s.\n%s\nImport ListNotations.\n%s" % (mod, rest, IDX)
        text += "Definition cases := [\n" + ";\n".join(terms) + "].\n"
        for k, fn in enumerate(fns):
            text += "Definition M%d := Eval vm_compute in idx_false (%s) 0 cases.\n" % (k, fn)
        text += "End %s.\n" % mod
    for mod, header, terms, fns in parts:
        for k, fn in enumerate(fns):
            text += 'Goal True. idtac "@@%s.M%d". exact I. Qed.\nPrint %s.M%d.\n' % (mod, k, mod, k)
    out, rc = ctx.coq_run(name, text, timeout=timeout)
    if rc != 0:
        raise HarnessError("coq evaluation of cases failed:\n" + out[-3000:])
    res = {}
    for mod, header, terms, fns in parts:
        res[mod] = []
        for k in range(len(fns)):
            m = re.search(r"@@%s\.M%d\s*(.*?)(?=@@|\Z)" % (re.escape(mod), k), out, re.S)
            if not m:
                raise HarnessError("cannot parse coq output:\n" + out[-2000:])
            b = re.search(r"=\s*(.*?)\s*:\s*list nat", m.group(1), re.S)
            if not b:
                raise HarnessError("cannot parse coq output:\n" + m.group(1)[-2000:])
            body = b.group(1).strip()
            res[mod].append([] if body in ("[]", "nil") else [int(t) for t in re.findall(r"\d+", body)])
    return res


def coq_eval_sharded(ctx, name, parts, shard, workers=8, timeout=900):
    """Like coq_eval_parts, with each part's terms split into shards run by parallel coqc processes."""
    jobs = []
    for mod, header, terms, fns in parts:
        sh = shard.get(mod, 500) if isinstance(shard, dict) else shard
        for k in range(0, len(terms), sh):
            jobs.append((mod, k, header, terms[k:k + sh], fns))
    res = {mod: [[] for _ in fns] for mod, header, terms, fns in parts}
    with cf.ThreadPoolExecutor(max_workers=workers) as ex:
        futs = {ex.submit(coq_eval_parts, ctx, "%s_%s_%d" % (name, mod, k), [(mod, header, ch, fns)], timeout): (mod, k)
                for mod, k, header, ch, fns in jobs}
        for fu in cf.as_completed(futs):
            mod, k = futs[fu]
            for j, idxs in enumerate(fu.result()[mod]):
                res[mod][j].extend(k + i for i in idxs)
    return {m: [sorted(b) for b in v] for m, v in res.items()}
