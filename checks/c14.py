"""C14 -- parsing is faithful to the grammar (DESIGN.md section 8, C14)."""
import re
import struct

from .lib import coq_mismatches, clist

LEVEL = "proof"
META = {
    "category": "proof",
    "text": "Coq theorems over an executable model of syntax/parse.go (recursive descent with the real precedence table, explicit fuel) and of the parts of syntax/scan.go the property names (number delimiting/decoding in all radices and sizes, INDENT/OUTDENT/NEWLINE synthesis). Proved for all inputs: every well-parenthesised expression tree rendered to tokens parses back to exactly that tree with every position field, at every precedence level (all operator pairs, all nestings, comparisons non-associative, unary, conditional, lambda, calls/args, slices, displays, comprehensions); the same for every concrete statement tree and file (simple-statement lines with ';', inline and indented suites, if/elif/else, for, while, def, load); conversely every token list the expression parser accepts is the rendering of the well-parenthesised tree it returns, and every token list the statement / file parser accepts (all statement forms, inline and indented suites; premise: no INDENT directly followed by OUTDENT, which the scanner's layout algorithm is proved never to emit and without which the statement is refuted by a witness; with no premise the same holds with empty indented blocks allowed, so that is the only deviation) is the rendering of a well-formed concrete statement tree whose Go-shaped projection is the tree returned, up to the optional final NEWLINE at EOF (so near-miss texts are rejected or are themselves texts of the grammar with that meaning); rendering is injective on well-formed expressions, statements, suites and files; each node's Span start is its first token; integer literals decode to their positional value for every radix and length; the indentation stack re-nests every consistently indented block structure with blank/comment/continuation lines anywhere, never underflows, and rejects inconsistent dedents. The hand-written model is tied to /repo on every run: a Go generator of syntax trees (depth 6, all expression and statement forms, random layout) is rendered to text, the real FileOptions.Parse/ParseExpr tree and Span starts are compared with the generated tree and the renderer's positions, the real token stream (verif hook) is parsed by the Coq model (vm_compute) and must give the real tree, Print.v must render the generated tree to the real token kinds; literal sweeps, layout streams, one-token near-misses and texts with one required parenthesis dropped are compared the same way.",
    "note": "Trusted: Coq kernel + vm_compute; the Go harness (generator, renderer, its independent literal/unquote oracles); strconv.ParseFloat (cross-checked against CPython float()); unicode tables. Soundness (accepted => rendering of a well-formed tree) is proved for expressions, statements and files at token level (positions dropped, NOT_IN expanded); the premise on INDENT/OUTDENT adjacency is proved of the layout model's event stream, whose EvLine payloads stand for the tokens of a line (that reading is part of the model, tied by the layout-stream correspondence cases). String-escape decoding is checked against an independent Go oracle only; error positions are checked to lie inside the text but are not modelled.",
    "technique": "Coq proof over executable model + differential correspondence (vm_compute) + independent tree/renderer oracle",
}
HEADER = ("From Coq Require Import ZArith List String Bool.\n"
          "From SV Require Import C14.Tokens C14.Parse C14.Print C14.Scan C14.Check.\n"
          "Import ListNotations.\nOpen Scope string_scope.\nOpen Scope Z_scope.\n")
MAXTERM = 60000


def zlist(bs):
    return "[" + "; ".join(str(b) for b in bs) + "]"


def why_class(why):
    """Stable class of a Go-side difference message (positions, literals and tree text removed)."""
    w = why or ""
    if w.startswith("tree: at"):
        return "tree-differs"
    if w.startswith("Span start"):
        return "span-start"
    m = re.match(r"token \d+: want \((\w+)[^)]*\)?.*? got \((\w+)", w)
    if m:
        return "token want %s got %s" % (m.group(1), m.group(2))
    w = re.sub(r'"[^"]*"', '""', w)
    w = re.sub(r"'[^']*'", "''", w)
    w = re.sub(r"\d+", "N", w)
    return w[:70]


def end_depth(lines):
    d = 0
    for l in lines:
        if l["blank"]:
            continue
        t = l["text"].split("#")[0]
        d = max(0, l["depth"] + sum(t.count(c) for c in "([{") - sum(t.count(c) for c in ")]}"))
    return d


def ev_term(events):
    m = {"N": "EvNewline", "I": "EvIndent", "O": "EvOutdent", "T": "EvLine tt"}
    return "[" + "; ".join(m[c] for c in events if c in m) + "]"


def line_term(l):
    ws = "[" + "; ".join("true" if ch == "\t" else "false" for ch in l["ws"]) + "]"
    return "(mkline %s %s %d%%nat %s tt)" % (ws, "true" if l["blank"] else "false", l["depth"], "true" if l["cont"] else "false")


def par_mismatches(ctx, terms, workers, shard):
    """coq_mismatches over `workers` interleaved slices of the cases, in parallel coqc runs."""
    fns = ["model_ok", "spec_ok", "sound_ok", "accept_ok"]
    if workers <= 1 or len(terms) < 2 * shard:
        return coq_mismatches(ctx, "c14_cases", HEADER, terms, fns, shard=shard, timeout=1200)
    import concurrent.futures as cf
    per = (len(terms) + workers - 1) // workers
    parts = [(w, w * per, terms[w * per:(w + 1) * per]) for w in range(workers)]
    out = [[], [], [], []]
    with cf.ThreadPoolExecutor(max_workers=workers) as ex:
        futs = [ex.submit(coq_mismatches, ctx, "c14_cases_w%d" % w, HEADER, part, fns, shard, 1200) for (w, off, part) in parts if part]
        for (w, off, part), fu in zip([p for p in parts if p[2]], futs):
            res = fu.result()
            for k in range(4):
                out[k].extend(off + i for i in res[k])
    return out


def run(ctx):
    ctx.proofs()
    ok, log = ctx.coq_make(["C14/Check.vo"])
    if not ok:
        ctx.broken("coq-build:C14/Check.vo", log[-2000:])
    hx = ctx.go_build("c14")
    q = ctx.quick()
    sizes = {"expr": 500 if q else 40000, "file": 350 if q else 30000,
             "lit": 100 if q else 2000, "layout": 400 if q else 6000, "near": 25 if q else 250,
             "unparen": 400 if q else 6000, "ungram": 330 if q else 1700, "lists": 4 if q else 5}
    coq_cap = {"expr": 30 if q else 1500, "file": 25 if q else 1200, "near": 80 if q else 2500,
               "layout": 30 if q else 2000, "int": 80 if q else 3000, "float": 30 if q else 1500,
               "unparen": 60 if q else 2500, "ungram": 120 if q else 1700}
    tokcap = 40 if q else 160
    obs = {}
    dist = {}
    for mode, n in sizes.items():
        rows = ctx.jsonl([hx, "-seed", str(ctx.seed), "-n", str(n), "-mode", mode], timeout=600)
        obs[mode] = [r for r in rows if r.get("kind") != "summary"]
        for r in rows:
            if r.get("kind") == "summary":
                for k, v in r.get("distribution", {}).items():
                    dist[mode + ":" + k] = v
        ctx.log("harness %s: %d observations" % (mode, len(obs[mode])))

    terms, refs = [], []
    go_bad = 0

    def add(term, ref):
        if len(term) <= MAXTERM:
            terms.append(term)
            refs.append(ref)

    # ---- trees: Go-side verdict on everything, Coq on a sample
    for mode in ("expr", "file"):
        k = 0
        for c in obs[mode]:
            if not c["ok"]:
                go_bad += 1
                kind = "reject" if c.get("err") else "tree"
                ctx.finding("%s:%s:%s" % (mode, kind, why_class(c.get("why") or c.get("err"))),
                            "%s rendered from a generated tree: real parser %s (%s)" % (
                                mode, "rejects it: " + c["err"] if c.get("err") else "returns another tree / positions", c.get("why")),
                            {"mode": mode, "src": c["src"], "want": c["want"], "got": c["got"], "err": c["err"], "why": c["why"], "seed": ctx.seed})
                continue
            if not c.get("coq", True) or k >= coq_cap[mode] or not c["got"] or c["ntok"] > tokcap:
                continue
            k += 1
            add("(%s %s %s)" % ("CExpr" if mode == "expr" else "CFile", c["tokens"], c["want"]), c)
    # ---- near misses
    k = 0
    ncap = {"near": coq_cap["near"], "unparen": coq_cap["unparen"], "ungram": coq_cap["ungram"]}
    nk = {"near": 0, "unparen": 0, "ungram": 0}
    # accepted mutants first: that is where a widened parser shows (model rejects / tree ill-formed)
    nearall = sorted(obs["lists"] + obs["ungram"] + obs["near"] + obs["unparen"], key=lambda c: 0 if c.get("parse") == "ok" else 1)
    for c in nearall:
        fam = c["mut"].split(":")[0] if c["mut"].split(":")[0] in ("unparen", "ungram") else "near"
        if not c["ok"]:
            go_bad += 1
            ctx.finding("near:%s" % why_class(c.get("why")), "near-miss text: %s" % c.get("why"),
                        {"src": c["src"], "base_src": c.get("base_src"), "mut": c["mut"], "why": c["why"]})
            continue
        if c.get("resolve") == "panic":
            ctx.finding("near:resolver-panic", "resolver panics on an accepted near-miss: %s" % c.get("resolve_err"), {"src": c["src"]})
        if not c.get("coq", True) or not c["tokens"] or nk[fam] >= ncap[fam]:
            continue   # scanner error: nothing for the parser model
        nk[fam] += 1
        got = "(Some %s)" % c["got"] if c["parse"] == "ok" else "None"
        add("(%s %s %s)" % ("CNearE" if c["mode"] == "expr" else "CNearF", c["tokens"], got), c)
    # ---- literals
    nlit = {"int": 0, "float": 0, "string": 0}
    nlit_coq = {"int": 0, "float": 0}
    seen_int = set()
    for c in obs["lit"]:
        cls = c["cls"]
        nlit[cls] = nlit.get(cls, 0) + 1
        if not c["ok"]:
            go_bad += 1
            ctx.finding("lit:" + c["key"],
                        "literal %r: scanner %s, the lexical grammar / independent oracle says %s" % (
                            c["src"][:80], ("gives " + str(c.get("value", c.get("bits")))) if c["accepted"] else ("rejects it: " + c.get("err", "")), c["want"]),
                        {"src": c["src"], "accepted": c["accepted"], "value": c.get("value"), "want": c["want"], "err": c.get("err")})
        if not c.get("coq", True):
            continue
        src = c["src"].encode("utf8")
        if cls == "int" and c["src"] not in seen_int and len(src) <= 80 and re.fullmatch(rb"[0-9A-Za-z_.]+", src):
            seen_int.add(c["src"])
            o = "(Some %s)" % c["value"] if c["accepted"] and c["tokkind"] == "INT" else "None"
            w = "None" if c["want"] == "reject" else "(Some %s)" % c["want"]
            if re.fullmatch(rb"[0-9A-Fa-fxXoObB]+", src) and nlit_coq["int"] < coq_cap["int"] and (not q or nlit["int"] % 5 == 0 or not c["ok"]):
                nlit_coq["int"] += 1
                add("(CInt %s %s %s)" % (zlist(src), o, w), c)
        if cls == "float" and re.fullmatch(rb"[0-9eE+.\-]+", src):
            # CPython as a second opinion on strconv.ParseFloat
            try:
                pf = float(c["src"])
                pbits = struct.unpack("<Q", struct.pack("<d", pf))[0]
            except (ValueError, OverflowError):
                pf, pbits = None, None
            if c["accepted"] and c["tokkind"] == "FLOAT" and pbits is not None and pf not in (float("inf"), float("-inf")):
                if int(c["bits"]) != pbits:
                    ctx.finding("lit:" + c["key"] + ":value", "float literal %s decodes to bits %s, CPython float() gives %s" % (c["src"], c["bits"], pbits), c)
            kind = 2 if not c["accepted"] else (1 if c["tokkind"] == "FLOAT" else 0)
            if not c["accepted"] and (pf in (float("inf"), None)):
                kind = None   # rejected by the strconv oracle (overflow / malformed exponent): not the state machine
            if kind is not None and nlit_coq["float"] < coq_cap["float"]:
                nlit_coq["float"] += 1
                add("(CNum %s %d%%nat)" % (zlist(src), kind), c)
    # ---- layout
    k = 0
    for c in obs["layout"]:
        if not c.get("coq", True) or k >= coq_cap["layout"]:
            continue
        if c["err"] and "unindent" not in c["err"]:
            continue
        # outside the modelled family (Scan.v, layout): a physical line holding nothing but a
        # backslash continuation, a blank continuation line, a file that ends inside an open bracket
        if any(l["blank"] and l["cont"] for l in c["lines"]):
            continue
        if any((not l["blank"]) and l["text"].strip() in ("\\", "") for l in c["lines"]):
            continue
        if end_depth(c["lines"]) > 0 or (c["lines"] and c["lines"][-1]["text"].rstrip().endswith("\\")):
            continue
        k += 1
        o = "None" if c["err"] else "(Some %s)" % ev_term(c["events"])
        add("(CLayout %s %s %s)" % (clist([line_term(l) for l in c["lines"]]), "true" if c["final_newline"] else "false", o), c)

    ctx.log("evaluating %d cases in Coq" % len(terms))
    bad_model, bad_spec, bad_sound, bad_accept = par_mismatches(ctx, terms, 1 if q else 6, 6000 if q else 800)
    for i in bad_spec:
        c = refs[i]
        if c["kind"] == "lit":
            ctx.finding("lit:" + c["key"], "int literal %r: scanner gives %s, positional value per the lexical grammar is %s" % (
                c["src"][:80], c["value"] if c["accepted"] else "an error (" + c.get("err", "") + ")", c["want"]), c)
        elif c["kind"] == "near":
            ctx.finding("near:accepted-ill-formed:%s" % re.sub(r"@\d+", "", c["mut"]),
                        "the parser accepts a text outside the grammar and gives it a tree that does not render to it (a required parenthesis / separator is missing): %r -> %s" % (c["src"][:120], c["got"][:300]),
                        {"src": c["src"], "base_src": c.get("base_src"), "mut": c["mut"], "got": c["got"]})
        else:
            ctx.finding("%s:spec:%s" % (c["kind"], why_class(c.get("why"))), "Print.v rendering / tree comparison fails on a generated %s" % c["kind"],
                        {"src": c["src"], "want": c.get("want"), "got": c.get("got")})
    for i in bad_sound:
        c = refs[i]
        if i in bad_model:
            continue
        ctx.finding("%s:reinterpreted" % c["kind"], "accepted text is not the rendering of the tree returned for it (silent re-interpretation)",
                    {"src": c["src"], "got": c.get("got"), "tokens": c.get("tokens")})
    for i in bad_accept:
        c = refs[i]
        cls = re.sub(r"@\d+(:.*)?$", "", c["mut"])
        ctx.finding("%s:accepted-outside-grammar:%s" % (c["mode"], cls),
                    "the real parser (resolver: %s) accepts a text the grammar does not generate (the model parser, proved to accept exactly renderings of syntax trees, rejects it): %r -> %s" % (
                        c.get("resolve") or "-", c["src"][:160], (c.get("got") or "")[:300]),
                    {"src": c["src"], "template": c.get("base_src"), "mut": c["mut"], "got": c.get("got"), "resolve": c.get("resolve"), "resolve_err": c.get("resolve_err")})
    only_model = [i for i in bad_model if i not in set(bad_spec) and i not in set(bad_accept)]
    if only_model:
        c = refs[only_model[0]]
        kinds = {}
        for i in only_model:
            kinds[refs[i]["kind"] + ":" + refs[i].get("mode", refs[i].get("cls", ""))] = kinds.get(refs[i]["kind"] + ":" + refs[i].get("mode", refs[i].get("cls", "")), 0) + 1
        ctx.broken("correspondence:C14.Model", "model and implementation differ on %d case(s) %s, e.g. src=%r got=%s err=%s" % (
            len(only_model), kinds, c.get("src"), str(c.get("got"))[:300], c.get("err")))
    cov = {
        "evaluations": sum(len(v) for v in obs.values()),
        "distinct_nontrivial": len(set(c["src"] for v in obs.values() for c in v)),
        "coq_evaluated": len(terms),
        "rule": "generated trees (depth 6, all expression and statement forms, random layout, minimal+redundant parentheses) -> text -> real ParseExpr/Parse compared with the generated tree and the renderer's positions (Go side, all cases) and real tokens -> Coq model parser = real tree, Print.v(tree) = real token kinds (Coq sample); literal sweeps radix x size (<= 200 bits) x pattern, float forms, every escape in every quoting; layout streams vs the indentation model; one-token deletions/duplications/swaps/replacements, texts with one required parenthesis dropped, and structured non-grammatical texts (compound statements in inline suites or after ';', statements/assignments in expression position, suites without indent, chained headers, dangling else/elif, unsupported keywords and notations, malformed def/lambda/call/index/comprehension/load forms, bad indentation), and every def/lambda parameter list and call argument list of up to 4 (thorough: 5) items, which the parser accepts unvalidated, against a spec-derived oracle for parser+resolver: accept/reject and tree vs model, an accept the model rejects is a finding keyed by construct class, accepted text = rendering of its tree",
        "samples": [{"kind": c["kind"], "src": c["src"][:200]} for c in (refs[:3] + refs[len(refs) // 2: len(refs) // 2 + 2])],
        "distribution": dist, "literals": nlit, "go_side_failures": go_bad,
        "model_mismatches": len(bad_model), "spec_mismatches": len(bad_spec), "sound_mismatches": len(bad_sound),
        "accepted_outside_grammar": len(bad_accept),
    }
    return ctx.finish(LEVEL, cov, assumptions=[
        "strconv.ParseFloat is an oracle for float values (cross-checked against CPython float() on the sweep)",
        "string/bytes escape decoding is compared with an independent Go re-implementation written from doc/spec.md, not modelled in Coq",
        "unicode.IsLetter for identifiers is an oracle; generated identifiers sent to Coq are ASCII",
        "the parser model does not carry error positions; the harness checks that every real error position lies inside the text",
    ])
