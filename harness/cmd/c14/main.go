// c14: "parsing is faithful to the grammar".  Generates random syntax trees,
// renders them with random layout (the generator + renderer are the
// independent oracle), runs the real scanner and parser of go.starlark.net/syntax
// on the text and prints what was observed, one JSON object per line.
//
//	c14 -seed S -n N -mode expr|file|lit|layout|near|unparen|ungram|lists|all
package main

import (
	"flag"
	"fmt"
	"os"

	"go.starlark.net/syntax"

	"verifharness/internal/hx"
)

var fileOpts = &syntax.FileOptions{Set: true, While: true, TopLevelControl: true, GlobalReassign: true, Recursion: true}

var dist = map[string]int{}

func addDist(m map[string]int) {
	for k, v := range m {
		dist[k] += v
	}
}

// TieCase is one expr / file observation.
type TieCase struct {
	Kind   string `json:"kind"`
	ID     int    `json:"id"`
	Src    string `json:"src"`
	Want   string `json:"want"`
	Got    string `json:"got"`
	Err    string `json:"err"`
	Tokens string `json:"tokens"`
	OK     bool   `json:"ok"`
	Why    string `json:"why"`
	Depth  int    `json:"depth"`
	Size   int    `json:"size"`
	NTok   int    `json:"ntok"`
	Coq    bool   `json:"coq"`
}

func errString(err error) string {
	if err == nil {
		return ""
	}
	if e, ok := err.(syntax.Error); ok {
		return fmt.Sprintf("%d:%d: %s", e.Pos.Line, e.Pos.Col, e.Msg)
	}
	return "0:0: " + err.Error()
}

func firstDiff(a, b string) string {
	n := len(a)
	if len(b) < n {
		n = len(b)
	}
	i := 0
	for i < n && a[i] == b[i] {
		i++
	}
	lo := i - 30
	if lo < 0 {
		lo = 0
	}
	cut := func(s string) string {
		hi := i + 40
		if hi > len(s) {
			hi = len(s)
		}
		if lo > len(s) {
			return ""
		}
		return s[lo:hi]
	}
	return fmt.Sprintf("at %d: want …%s… got …%s…", i, cut(a), cut(b))
}

// built is a generated case before it is run.
type built struct {
	kind   string
	e      *E
	stmts  []*S
	rd     *rend
	src    []byte
	want   string // with the rendered tc / colon2
	wantNT string // tc / colon2 all false (what the Go tree can show)
	starts []Pos
	size   int
	depth  int
	coq    bool
}

func build(kind string, rc *hx.Rand, st style, budget int, uni bool) *built {
	g := &gen{r: rc, maxDepth: 6, nl: st.nl, uni: uni, pParen: 7}
	b := &built{kind: kind}
	rd := newRend(rc, st)
	if kind == "expr" {
		b.e = g.sub(budget, 0, ctxExpr)
		rd.renderExpr(b.e)
		b.size, b.depth = exprSize(b.e)
	} else {
		if budget > 1 || rc.Intn(8) != 0 {
			b.stmts = g.body(budget, 0)
		}
		rd.renderFile(b.stmts)
		b.size, b.depth = stmtsSize(b.stmts)
	}
	b.rd = rd
	b.src = rd.buf
	b.coq = !g.usedUni
	pw := &printer{tc: true}
	pn := &printer{tc: false}
	if kind == "expr" {
		pw.expr(b.e)
		pn.expr(b.e)
	} else {
		pw.stmts(b.stmts)
		pn.stmts(b.stmts)
	}
	b.want, b.wantNT, b.starts = pw.sb.String(), pn.sb.String(), pn.starts
	return b
}

// observed is what the real scanner and parser did with a text.
type observed struct {
	toks    []syntax.VerifToken
	scanErr error
	expr    syntax.Expr
	file    *syntax.File
	err     error
	got     string
	starts  []Pos
	bad     string
}

func observe(kind string, src []byte) *observed {
	o := &observed{}
	o.toks, o.scanErr = syntax.VerifTokens(src)
	if kind == "expr" {
		o.expr, o.err = fileOpts.ParseExpr("x", src, 0)
	} else {
		o.file, o.err = fileOpts.Parse("x", src, 0)
	}
	if o.err == nil {
		c := &conv{toks: o.toks}
		if kind == "expr" {
			c.expr(o.expr)
		} else {
			c.stmts(o.file.Stmts)
		}
		o.got, o.starts, o.bad = c.sb.String(), c.starts, c.bad
	}
	return o
}

func runTie(kind string, id int, rc *hx.Rand) (TieCase, *built, *observed) {
	var b *built
	for {
		st := randStyle(rc)
		b = build(kind, rc, st, sizeTarget(rc), rc.Intn(40) == 0)
		if len(b.rd.toks) <= 160 {
			break
		}
	}
	o := observe(kind, b.src)
	c := TieCase{Kind: kind, ID: id, Src: string(b.src), Want: b.want, Got: o.got, Err: errString(o.err),
		Tokens: realTokensCoq(o.toks), Depth: b.depth, Size: b.size, NTok: len(b.rd.toks), Coq: b.coq}
	c.OK, c.Why = verdict(b, o)
	return c, b, o
}

func verdict(b *built, o *observed) (bool, string) {
	if o.scanErr != nil {
		return false, "scanner: " + errString(o.scanErr)
	}
	// the renderer's own token list against the scanner's
	mine := b.rd.toks
	for i := 0; i < len(mine) || i < len(o.toks); i++ {
		if i >= len(mine) || i >= len(o.toks) {
			return false, fmt.Sprintf("token count: renderer %d scanner %d", len(mine), len(o.toks))
		}
		w := "(" + mine[i].coq + "," + mine[i].pos.String() + ")"
		g := "(" + realTokCoq(o.toks[i]) + "," + posOf(o.toks[i].Pos).String() + ")"
		if w != g {
			return false, fmt.Sprintf("token %d: want %s got %s", i, w, g)
		}
		if !mine[i].layout && o.toks[i].Raw != mine[i].raw && normNL(mine[i].raw) != o.toks[i].Raw {
			return false, fmt.Sprintf("token %d raw: want %q got %q", i, mine[i].raw, o.toks[i].Raw)
		}
	}
	if o.err != nil {
		return false, "parser: " + errString(o.err)
	}
	if o.bad != "" {
		return false, o.bad
	}
	if o.got != b.wantNT {
		return false, "tree: " + firstDiff(b.wantNT, o.got)
	}
	if len(o.starts) != len(b.starts) {
		return false, fmt.Sprintf("span count %d vs %d", len(b.starts), len(o.starts))
	}
	for i := range b.starts {
		if b.starts[i] != o.starts[i] {
			return false, fmt.Sprintf("Span start of node %d (preorder): want %v got %v", i, b.starts[i], o.starts[i])
		}
	}
	return true, ""
}

// normNL: the scanner reports every line ending inside a token as "\n".
func normNL(s string) string {
	out := make([]byte, 0, len(s))
	for i := 0; i < len(s); i++ {
		if s[i] == '\r' {
			if i+1 < len(s) && s[i+1] == '\n' {
				i++
			}
			out = append(out, '\n')
		} else {
			out = append(out, s[i])
		}
	}
	return string(out)
}

func bucket(n int) string {
	switch {
	case n <= 1:
		return "1"
	case n <= 5:
		return "2-5"
	case n <= 15:
		return "6-15"
	case n <= 40:
		return "16-40"
	case n <= 100:
		return "41-100"
	}
	return ">100"
}

func modeTie(kind string, n int, fam *hx.Rand) {
	for i := 0; i < n; i++ {
		c, b, _ := runTie(kind, i, fam.Split())
		addDist(b.rd.feat)
		dist[kind+":tokens:"+bucket(c.NTok)]++
		dist[kind+":depth:"+fmt.Sprint(c.Depth)]++
		if !c.OK {
			dist[kind+":NOT-OK"]++
		}
		if !c.Coq {
			dist[kind+":go-only(unicode-ident)"]++
		}
		dist["style:nl="+fmt.Sprintf("%q", b.rd.st.nl)]++
		hx.Emit(c)
	}
}

func main() {
	seed := flag.Uint64("seed", 1, "seed")
	n := flag.Int("n", 200, "cases per family")
	mode := flag.String("mode", "all", "expr file lit layout near unparen ungram lists all")
	flag.Parse()
	defer hx.Flush()

	root := hx.NewRand(*seed)
	// one independent generator per family, drawn in a fixed order
	rExpr, rFile, rLit, rLayout, rNear := root.Split(), root.Split(), root.Split(), root.Split(), root.Split()
	rUnparen := root.Split()
	rUngram := root.Split()
	switch *mode {
	case "expr":
		modeTie("expr", *n, rExpr)
	case "file":
		modeTie("file", *n, rFile)
	case "lit":
		modeLit(*n, rLit)
	case "layout":
		modeLayout(*n, rLayout)
	case "near":
		modeNear(*n, rNear)
	case "unparen":
		modeUnparen(*n, rUnparen)
	case "ungram":
		modeUngram(*n, rUngram)
	case "lists":
		modeLists(*n)
	case "all":
		modeTie("expr", *n, rExpr)
		modeTie("file", *n, rFile)
		modeLit(*n, rLit)
		modeLayout(*n, rLayout)
		nn := *n / 10
		if nn < 1 {
			nn = 1
		}
		modeNear(nn, rNear)
		nu := *n / 5
		if nu < 1 {
			nu = 1
		}
		modeUnparen(nu, rUnparen)
		modeUngram(len(ugTemplates), rUngram)
		modeLists(4)
	default:
		fmt.Fprintln(os.Stderr, "unknown mode", *mode)
		os.Exit(2)
	}
	hx.Emit(map[string]any{"kind": "summary", "mode": *mode, "seed": *seed, "n": *n, "distribution": dist,
		"notes": []string{"Binary NOT_IN: OpPos is the position of `in` (what parse.go records), the NOT token precedes it in the token list"}})
}
