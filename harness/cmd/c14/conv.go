package main

// Conversion of what the real scanner / parser produced into the Coq term
// syntax ("got"): concrete-syntax bits (tc, colon2) are printed false.

import (
	"fmt"
	"math"
	"math/big"
	"strconv"
	"strings"

	"go.starlark.net/syntax"
)

var tokCoqName = map[syntax.Token]string{
	syntax.EOF: "EOF", syntax.NEWLINE: "NEWLINE", syntax.INDENT: "INDENT", syntax.OUTDENT: "OUTDENT",
	syntax.PLUS: "PLUS", syntax.MINUS: "MINUS", syntax.STAR: "STAR", syntax.SLASH: "SLASH", syntax.SLASHSLASH: "SLASHSLASH",
	syntax.PERCENT: "PERCENT", syntax.AMP: "AMP", syntax.PIPE: "PIPE", syntax.CIRCUMFLEX: "CIRCUMFLEX", syntax.LTLT: "LTLT",
	syntax.GTGT: "GTGT", syntax.TILDE: "TILDE", syntax.DOT: "DOT", syntax.COMMA: "COMMA", syntax.EQ: "EQ", syntax.SEMI: "SEMI",
	syntax.COLON: "COLON", syntax.LPAREN: "LPAREN", syntax.RPAREN: "RPAREN", syntax.LBRACK: "LBRACK", syntax.RBRACK: "RBRACK",
	syntax.LBRACE: "LBRACE", syntax.RBRACE: "RBRACE", syntax.LT: "LT", syntax.GT: "GT", syntax.GE: "GE", syntax.LE: "LE",
	syntax.EQL: "EQL", syntax.NEQ: "NEQ", syntax.PLUS_EQ: "PLUS_EQ", syntax.MINUS_EQ: "MINUS_EQ", syntax.STAR_EQ: "STAR_EQ",
	syntax.SLASH_EQ: "SLASH_EQ", syntax.SLASHSLASH_EQ: "SLASHSLASH_EQ", syntax.PERCENT_EQ: "PERCENT_EQ", syntax.AMP_EQ: "AMP_EQ",
	syntax.PIPE_EQ: "PIPE_EQ", syntax.CIRCUMFLEX_EQ: "CIRCUMFLEX_EQ", syntax.LTLT_EQ: "LTLT_EQ", syntax.GTGT_EQ: "GTGT_EQ",
	syntax.STARSTAR: "STARSTAR", syntax.AND: "AND", syntax.BREAK: "BREAK", syntax.CONTINUE: "CONTINUE", syntax.DEF: "DEF",
	syntax.ELIF: "ELIF", syntax.ELSE: "ELSE", syntax.FOR: "FOR", syntax.IF: "IF", syntax.IN: "IN", syntax.LAMBDA: "LAMBDA",
	syntax.LOAD: "LOAD", syntax.NOT: "NOT", syntax.NOT_IN: "NOT_IN", syntax.OR: "OR", syntax.PASS: "PASS", syntax.RETURN: "RETURN",
	syntax.WHILE: "WHILE",
}

func posOf(p syntax.Position) Pos { return Pos{int(p.Line), int(p.Col)} }

// realTokCoq renders one scanner token as a Tokens.v constructor application.
func realTokCoq(t syntax.VerifToken) string {
	switch t.Tok {
	case syntax.IDENT:
		return "IDENT " + coqString(t.Raw)
	case syntax.INT:
		if t.BigInt != nil {
			return "INT " + t.BigInt.String()
		}
		return "INT " + strconv.FormatInt(t.Int, 10)
	case syntax.FLOAT:
		return "FLOAT " + strconv.FormatUint(math.Float64bits(t.Float), 10)
	case syntax.STRING:
		return "STRING " + coqBytes([]byte(t.String))
	case syntax.BYTES:
		return "BYTES " + coqBytes([]byte(t.String))
	}
	if n, ok := tokCoqName[t.Tok]; ok {
		return n
	}
	if t.Tok > syntax.WHILE { // reserved words
		return "RESERVED " + coqString(t.Raw)
	}
	return "ILLEGAL"
}

func realTokensCoq(toks []syntax.VerifToken) string {
	var sb strings.Builder
	sb.WriteByte('[')
	for i, t := range toks {
		if i > 0 {
			sb.WriteString("; ")
		}
		sb.WriteString("(" + realTokCoq(t) + "," + posOf(t.Pos).String() + ")")
	}
	sb.WriteByte(']')
	return sb.String()
}

type conv struct {
	sb     strings.Builder
	starts []Pos
	toks   []syntax.VerifToken
	bad    string // first structural surprise (node the grammar cannot produce)
}

func (c *conv) w(s string) { c.sb.WriteString(s) }

func (c *conv) pos(p syntax.Position) string { return posOf(p).String() }

func (c *conv) start(n syntax.Node) {
	var p Pos
	func() {
		defer func() {
			if e := recover(); e != nil {
				p = Pos{-1, -1}
				if c.bad == "" {
					c.bad = fmt.Sprintf("Span panics on %T: %v", n, e)
				}
			}
		}()
		s, _ := n.Span()
		p = posOf(s)
	}()
	c.starts = append(c.starts, p)
}

func (c *conv) list(l []syntax.Expr) {
	c.w("[")
	for i, x := range l {
		if i > 0 {
			c.w("; ")
		}
		c.expr(x)
	}
	c.w("]")
}

func (c *conv) opt(e syntax.Expr) {
	if e == nil {
		c.w("None")
		return
	}
	c.w("(Some ")
	c.expr(e)
	c.w(")")
}

func (c *conv) tokName(t syntax.Token) string {
	if n, ok := tokCoqName[t]; ok {
		return n
	}
	if c.bad == "" {
		c.bad = fmt.Sprintf("operator token %d", t)
	}
	return "ILLEGAL"
}

func litCoq(x *syntax.Literal) string {
	switch v := x.Value.(type) {
	case int64:
		if x.Token == syntax.INT {
			return "(LInt " + strconv.FormatInt(v, 10) + ")"
		}
	case *big.Int:
		if x.Token == syntax.INT {
			return "(LInt " + v.String() + ")"
		}
	case float64:
		if x.Token == syntax.FLOAT {
			return "(LFloat " + strconv.FormatUint(math.Float64bits(v), 10) + ")"
		}
	case string:
		if x.Token == syntax.STRING {
			return "(LString " + coqBytes([]byte(v)) + ")"
		}
		if x.Token == syntax.BYTES {
			return "(LBytes " + coqBytes([]byte(v)) + ")"
		}
	}
	return fmt.Sprintf("(BadLiteral %v %T)", x.Token, x.Value)
}

func (c *conv) expr(e syntax.Expr) {
	c.start(e)
	switch x := e.(type) {
	case *syntax.Ident:
		c.w("(Ident " + c.pos(x.NamePos) + " " + coqString(x.Name) + ")")
	case *syntax.Literal:
		c.w("(Literal " + c.pos(x.TokenPos) + " " + litCoq(x) + ")")
	case *syntax.ParenExpr:
		c.w("(Paren " + c.pos(x.Lparen) + " ")
		c.expr(x.X)
		c.w(" " + c.pos(x.Rparen) + ")")
	case *syntax.CallExpr:
		c.w("(Call ")
		c.expr(x.Fn)
		c.w(" " + c.pos(x.Lparen) + " ")
		c.list(x.Args)
		c.w(" false " + c.pos(x.Rparen) + ")")
	case *syntax.DotExpr:
		c.w("(Dot ")
		c.expr(x.X)
		c.w(" " + c.pos(x.Dot) + " " + c.pos(x.Name.NamePos) + " " + coqString(x.Name.Name) + ")")
	case *syntax.IndexExpr:
		c.w("(Index ")
		c.expr(x.X)
		c.w(" " + c.pos(x.Lbrack) + " ")
		c.expr(x.Y)
		c.w(" " + c.pos(x.Rbrack) + ")")
	case *syntax.SliceExpr:
		c.w("(Slice ")
		c.expr(x.X)
		c.w(" " + c.pos(x.Lbrack) + " ")
		c.opt(x.Lo)
		c.w(" ")
		c.opt(x.Hi)
		c.w(" ")
		c.opt(x.Step)
		c.w(" false " + c.pos(x.Rbrack) + ")")
	case *syntax.ListExpr:
		c.w("(ListE " + c.pos(x.Lbrack) + " ")
		c.list(x.List)
		c.w(" false " + c.pos(x.Rbrack) + ")")
	case *syntax.DictExpr:
		c.w("(DictE " + c.pos(x.Lbrace) + " ")
		c.list(x.List)
		c.w(" false " + c.pos(x.Rbrace) + ")")
	case *syntax.DictEntry:
		c.w("(DictEntry ")
		c.expr(x.Key)
		c.w(" " + c.pos(x.Colon) + " ")
		c.expr(x.Value)
		c.w(")")
	case *syntax.Comprehension:
		c.w("(Comp " + coqBool(x.Curly) + " " + c.pos(x.Lbrack) + " ")
		c.expr(x.Body)
		c.w(" [")
		for i, cl := range x.Clauses {
			if i > 0 {
				c.w("; ")
			}
			c.start(cl)
			switch cl := cl.(type) {
			case *syntax.ForClause:
				c.w("(ForClause " + c.pos(cl.For) + " ")
				c.expr(cl.Vars)
				c.w(" " + c.pos(cl.In) + " ")
				c.expr(cl.X)
				c.w(")")
			case *syntax.IfClause:
				c.w("(IfClause " + c.pos(cl.If) + " ")
				c.expr(cl.Cond)
				c.w(")")
			default:
				c.w(fmt.Sprintf("(BadClause %T)", cl))
			}
		}
		c.w("] " + c.pos(x.Rbrack) + ")")
	case *syntax.LambdaExpr:
		c.w("(Lambda " + c.pos(x.Lambda) + " ")
		c.list(x.Params)
		c.w(" ")
		c.expr(x.Body)
		c.w(")")
	case *syntax.CondExpr:
		c.w("(Cond ")
		c.expr(x.True)
		c.w(" " + c.pos(x.If) + " ")
		c.expr(x.Cond)
		c.w(" " + c.pos(x.ElsePos) + " ")
		c.expr(x.False)
		c.w(")")
	case *syntax.TupleExpr:
		switch {
		case x.Lparen.IsValid() && len(x.List) == 0:
			c.w("(EmptyTuple " + c.pos(x.Lparen) + " " + c.pos(x.Rparen) + ")")
		case !x.Lparen.IsValid() && len(x.List) > 0:
			c.w("(Tuple ")
			c.list(x.List)
			c.w(" false)")
		default:
			c.w(fmt.Sprintf("(BadTuple %v %d)", x.Lparen.IsValid(), len(x.List)))
		}
	case *syntax.UnaryExpr:
		c.w("(Unary " + c.pos(x.OpPos) + " " + c.tokName(x.Op) + " ")
		c.opt(x.X)
		c.w(")")
	case *syntax.BinaryExpr:
		c.w("(Binary ")
		c.expr(x.X)
		c.w(" " + c.pos(x.OpPos) + " " + c.tokName(x.Op) + " ")
		c.expr(x.Y)
		c.w(")")
	default:
		c.w(fmt.Sprintf("(BadExpr %T)", e))
	}
}

func (c *conv) stmts(l []syntax.Stmt) {
	c.w("[")
	for i, s := range l {
		if i > 0 {
			c.w("; ")
		}
		c.stmt(s)
	}
	c.w("]")
}

// lparenAfter finds the first LPAREN token after the token at position p
// (the Go tree does not keep LoadStmt's '(').
func (c *conv) lparenAfter(p syntax.Position) Pos {
	for i, t := range c.toks {
		if t.Pos.Line == p.Line && t.Pos.Col == p.Col && t.Tok == syntax.LOAD {
			for _, u := range c.toks[i+1:] {
				if u.Tok == syntax.LPAREN {
					return posOf(u.Pos)
				}
			}
		}
	}
	return Pos{}
}

func (c *conv) stmt(s syntax.Stmt) {
	c.start(s)
	switch x := s.(type) {
	case *syntax.AssignStmt:
		c.w("(AssignStmt ")
		c.expr(x.LHS)
		c.w(" " + c.pos(x.OpPos) + " " + c.tokName(x.Op) + " ")
		c.expr(x.RHS)
		c.w(")")
	case *syntax.BranchStmt:
		c.w("(BranchStmt " + c.pos(x.TokenPos) + " " + c.tokName(x.Token) + ")")
	case *syntax.DefStmt:
		c.w("(DefStmt " + c.pos(x.Def) + " " + c.pos(x.Name.NamePos) + " " + coqString(x.Name.Name) + " " + c.pos(x.Lparen) + " ")
		c.list(x.Params)
		c.w(" false " + c.pos(x.Rparen) + " ")
		c.stmts(x.Body)
		c.w(")")
	case *syntax.ExprStmt:
		c.w("(ExprStmt ")
		c.expr(x.X)
		c.w(")")
	case *syntax.ForStmt:
		c.w("(ForStmt " + c.pos(x.For) + " ")
		c.expr(x.Vars)
		c.w(" ")
		c.expr(x.X)
		c.w(" ")
		c.stmts(x.Body)
		c.w(")")
	case *syntax.WhileStmt:
		c.w("(WhileStmt " + c.pos(x.While) + " ")
		c.expr(x.Cond)
		c.w(" ")
		c.stmts(x.Body)
		c.w(")")
	case *syntax.IfStmt:
		c.w("(IfStmt " + c.pos(x.If) + " ")
		c.expr(x.Cond)
		c.w(" ")
		c.stmts(x.True)
		c.w(" [")
		cur := x
		first := true
		for {
			if len(cur.False) == 1 {
				if el, ok := cur.False[0].(*syntax.IfStmt); ok && el.If == cur.ElsePos {
					if !first {
						c.w("; ")
					}
					first = false
					c.start(el)
					c.w("(" + c.pos(el.If) + ", ")
					c.expr(el.Cond)
					c.w(", ")
					c.stmts(el.True)
					c.w(")")
					cur = el
					continue
				}
			}
			break
		}
		c.w("] ")
		if cur.False != nil {
			c.w("(Some (" + c.pos(cur.ElsePos) + ", ")
			c.stmts(cur.False)
			c.w("))")
		} else {
			c.w("None")
		}
		c.w(")")
	case *syntax.LoadStmt:
		c.w("(LoadStmt " + c.pos(x.Load) + " " + c.lparenAfter(x.Load).String() + " " + c.pos(x.Module.TokenPos) + " ")
		if v, ok := x.Module.Value.(string); ok && x.Module.Token == syntax.STRING {
			c.w(coqBytes([]byte(v)))
		} else {
			c.w("BadModule")
		}
		c.w(" [")
		for i := range x.From {
			if i > 0 {
				c.w("; ")
			}
			from, to := x.From[i], x.To[i]
			if to != from {
				c.w("(Some (" + c.pos(to.NamePos) + "," + coqString(to.Name) + "), ")
			} else {
				c.w("(None, ")
			}
			sp := posOf(from.NamePos)
			sp.C--
			c.w(sp.String() + ", " + coqBytes([]byte(from.Name)) + ")")
		}
		c.w("] false " + c.pos(x.Rparen) + ")")
	case *syntax.ReturnStmt:
		c.w("(ReturnStmt " + c.pos(x.Return) + " ")
		c.opt(x.Result)
		c.w(")")
	default:
		c.w(fmt.Sprintf("(BadStmt %T)", s))
	}
}
