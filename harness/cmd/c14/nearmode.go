package main

// -mode near: near-miss texts.  Valid small generated cases are mutated at the
// token level (delete / duplicate / swap adjacent) and given to the real
// scanner, parser and resolver.

import (
	"fmt"
	"regexp"
	"strings"
	"unicode/utf8"

	"go.starlark.net/resolve"
	"go.starlark.net/syntax"

	"verifharness/internal/hx"
)

type NearCase struct {
	Kind       string `json:"kind"`
	Mode       string `json:"mode"`
	Base       int    `json:"base"`
	Mut        string `json:"mut"`
	BaseSrc    string `json:"base_src"`
	Src        string `json:"src"`
	Tokens     string `json:"tokens"`
	ScanErr    string `json:"scan_err"`
	Parse      string `json:"parse"`
	Err        string `json:"err"`
	ErrPos     string `json:"errpos"`
	Got        string `json:"got"`
	Resolve    string `json:"resolve"`
	ResolveErr string `json:"resolve_err"`
	SameAsBase bool   `json:"same_as_base"`
	OK         bool   `json:"ok"`
	Why        string `json:"why"`
	Coq        bool   `json:"coq"`
}

var posRE = regexp.MustCompile(`\(\d+,\d+\)`)

func erasePos(s string) string { return posRE.ReplaceAllString(s, "_") }

// validPos: Line>=1, Col>=1 and not beyond the end of the text.
func validPos(p syntax.Position, src []byte) bool {
	if p.Line < 1 || p.Col < 1 {
		return false
	}
	// line lengths in runes, line ends as the scanner counts them
	line, col := 1, 1
	lens := map[int]int{}
	for i := 0; i < len(src); {
		c := src[i]
		switch {
		case c == '\r':
			if i+1 < len(src) && src[i+1] == '\n' {
				i++
			}
			i++
			lens[line] = col
			line++
			col = 1
		case c == '\n':
			i++
			lens[line] = col
			line++
			col = 1
		default:
			_, sz := utf8.DecodeRune(src[i:])
			i += sz
			col++
		}
	}
	lens[line] = col // the end-of-file position
	if int(p.Line) > line {
		return false
	}
	return int(p.Col) <= lens[int(p.Line)]
}

func all(string) bool  { return true }
func none(string) bool { return false }

type posErr struct {
	pos syntax.Position
	msg string
}

func runResolve(mode string, o *observed) (status, first string, errs []posErr) {
	defer func() {
		if e := recover(); e != nil {
			status, first = "panic", fmt.Sprint(e)
		}
	}()
	var err error
	if mode == "expr" {
		_, err = resolve.ExprOptions(fileOpts, o.expr, all, none)
	} else {
		err = resolve.File(o.file, all, none)
	}
	if err == nil {
		return "ok", "", nil
	}
	if el, ok := err.(resolve.ErrorList); ok {
		for _, e := range el {
			errs = append(errs, posErr{e.Pos, e.Msg})
		}
		return "err", fmt.Sprintf("%d:%d: %s", el[0].Pos.Line, el[0].Pos.Col, el[0].Msg), errs
	}
	return "err", "0:0: " + err.Error(), []posErr{{syntax.Position{}, err.Error()}}
}

// evalNear runs the real scanner, parser and (if it parses) resolver on a
// near-miss text and fills in the record; key / pfx name the distribution counters.
func evalNear(c *NearCase, kind string, src []byte, baseErased, key, pfx string) {
	mo := observe(kind, src)
	var bad []string
	check := func(what string, p syntax.Position) {
		if !validPos(p, src) {
			bad = append(bad, fmt.Sprintf("%s error position %d:%d is not inside the text", what, p.Line, p.Col))
		}
	}
	if mo.scanErr != nil {
		c.ScanErr = errString(mo.scanErr)
		if e, ok := mo.scanErr.(syntax.Error); ok {
			check("scanner", e.Pos)
		} else {
			bad = append(bad, "scanner error without position")
		}
	} else {
		c.Tokens = realTokensCoq(mo.toks)
	}
	if mo.err != nil {
		c.Parse = "err"
		c.Err = errString(mo.err)
		if e, ok := mo.err.(syntax.Error); ok {
			c.ErrPos = fmt.Sprintf("%d:%d", e.Pos.Line, e.Pos.Col)
			check("parser", e.Pos)
			if strings.HasPrefix(e.Msg, "internal error") {
				bad = append(bad, "parser internal error: "+e.Msg)
			}
		} else {
			bad = append(bad, "parser error without position")
		}
	} else {
		c.Parse = "ok"
		c.Got = mo.got
		if mo.bad != "" {
			bad = append(bad, mo.bad)
		}
		if mo.scanErr != nil {
			bad = append(bad, "parser accepted a text the scanner rejects")
		}
		c.SameAsBase = erasePos(mo.got) == baseErased
		var errs []posErr
		c.Resolve, c.ResolveErr, errs = runResolve(kind, mo)
		for _, e := range errs {
			check("resolver", e.pos)
		}
		if c.Resolve == "panic" {
			bad = append(bad, "resolver panics: "+c.ResolveErr)
		}
	}
	if len(bad) > 0 {
		c.OK, c.Why = false, strings.Join(bad, "; ")
		dist[pfx+":NOT-OK"]++
	}
	dist[key+":parse-"+c.Parse]++
	if c.Parse == "ok" {
		dist[pfx+":resolve-"+c.Resolve]++
		if c.SameAsBase {
			dist[pfx+":same-as-base"]++
		}
	}
}

var replPool = []string{"zz", "1", "1.5", `"s"`, "(", ")", "[", "]", "{", "}", ",", "=", "==", ":", ";", ".", "+", "-", "*", "**",
	"not", "in", "if", "else", "for", "lambda", "and", "or", "|", "^", "<", "+=", "pass", "return"}

// nearBase builds a small valid case laid out plainly on single lines.
func nearBase(kind string, rc *hx.Rand) (*built, *observed) {
	for {
		st := style{spaces: 1, nl: "\n", finalNL: true}
		b := build(kind, rc, st, 1+rc.Intn(14), false)
		if len(b.rd.real) > 40 {
			continue
		}
		// no token may span lines (multi-line strings): mutations stay inside one line
		multi := false
		for _, t := range b.rd.toks {
			if strings.ContainsAny(t.raw, "\r\n") {
				multi = true
			}
		}
		if multi {
			continue
		}
		o := observe(kind, b.src)
		if ok, _ := verdict(b, o); !ok {
			// not a base for near misses; the expr/file modes report such cases
			dist["near:base-skipped(not ok)"]++
			continue
		}
		return b, o
	}
}

func modeNear(n int, fam *hx.Rand) {
	for i := 0; i < n; i++ {
		rc := fam.Split()
		kind := "expr"
		if i%2 == 1 {
			kind = "file"
		}
		b, o := nearBase(kind, rc)
		baseErased := erasePos(o.got)
		srcLines := strings.SplitAfter(string(b.src), "\n")
		// real tokens (not NEWLINE/INDENT/OUTDENT/EOF) grouped by line
		type rt struct {
			raw  string
			line int
		}
		var rts []rt
		for _, t := range o.toks {
			switch t.Tok {
			case syntax.NEWLINE, syntax.INDENT, syntax.OUTDENT, syntax.EOF:
				continue
			}
			rts = append(rts, rt{t.Raw, int(t.Pos.Line)})
		}
		if len(rts) == 0 {
			continue
		}
		positions := func() []int {
			if len(rts) <= 15 {
				ps := make([]int, len(rts))
				for j := range ps {
					ps[j] = j
				}
				return ps
			}
			seen := map[int]bool{}
			var ps []int
			for len(ps) < 10 {
				j := rc.Intn(len(rts))
				if !seen[j] {
					seen[j] = true
					ps = append(ps, j)
				}
			}
			return ps
		}
		replRaw := "" // replacement text for the "repl" mutation
		mutate := func(kindM string, at int) (string, bool) {
			line := rts[at].line
			var raws []string
			lo := -1
			for j, t := range rts {
				if t.line == line {
					if lo < 0 {
						lo = j
					}
					raws = append(raws, t.raw)
				}
			}
			k := at - lo
			switch kindM {
			case "del":
				raws = append(append([]string{}, raws[:k]...), raws[k+1:]...)
			case "dup":
				raws = append(append(append([]string{}, raws[:k+1]...), raws[k]), raws[k+1:]...)
			case "repl":
				if raws[k] == replRaw {
					return "", false
				}
				raws = append([]string{}, raws...)
				raws[k] = replRaw
			case "swap":
				if k+1 >= len(raws) {
					return "", false
				}
				raws = append([]string{}, raws...)
				raws[k], raws[k+1] = raws[k+1], raws[k]
			}
			orig := srcLines[line-1]
			ws := orig[:len(orig)-len(strings.TrimLeft(orig, " \t"))]
			end := ""
			if strings.HasSuffix(orig, "\n") {
				end = "\n"
			}
			var sb strings.Builder
			for j, l := range srcLines {
				if j == line-1 {
					sb.WriteString(ws + strings.Join(raws, " ") + end)
				} else {
					sb.WriteString(l)
				}
			}
			return sb.String(), true
		}
		for _, km := range []string{"del", "dup", "swap"} {
			for _, at := range positions() {
				text, ok := mutate(km, at)
				if !ok {
					continue
				}
				c := NearCase{Kind: "near", Mode: kind, Base: i, Mut: fmt.Sprintf("%s@%d", km, at), BaseSrc: string(b.src), Src: text, Coq: b.coq, OK: true}
				evalNear(&c, kind, []byte(text), baseErased, "near:"+kind+":"+km, "near")
				hx.Emit(c)
			}
		}
		// fourth mutation: replace one token by a token from a pool.  Its own
		// generator, drawn after everything above, so the del/dup/swap records
		// of a seed are unchanged; the repl records follow them.
		rr := rc.Split()
		var rpos []int
		picks := 3
		if len(rts) <= 15 {
			for j := range rts {
				rpos = append(rpos, j)
			}
		} else {
			picks = 2
			seen := map[int]bool{}
			for len(rpos) < 10 {
				j := rr.Intn(len(rts))
				if !seen[j] {
					seen[j] = true
					rpos = append(rpos, j)
				}
			}
		}
		for _, at := range rpos {
			// the name of a keyword argument / default parameter always gets a literal too
			kwName := at > 0 && at+1 < len(rts) && rts[at+1].raw == "=" && (rts[at-1].raw == "(" || rts[at-1].raw == ",")
			for k := 0; k < picks || (kwName && k == picks); k++ {
				replRaw = hx.Pick(rr, replPool)
				if k == picks {
					replRaw = "1"
				}
				text, ok := mutate("repl", at)
				if !ok {
					continue
				}
				c := NearCase{Kind: "near", Mode: kind, Base: i, Mut: fmt.Sprintf("repl@%d:%s", at, replRaw), BaseSrc: string(b.src), Src: text, Coq: b.coq, OK: true}
				evalNear(&c, kind, []byte(text), baseErased, "near:"+kind+":repl", "near")
				hx.Emit(c)
			}
		}
		dist["near:bases:"+kind]++
	}
}
