package main

// -mode ungram: STRUCTURED texts outside the grammar, built from grammatical
// pieces placed where the grammar forbids them: compound statements in inline
// suites (after ':' on the same line, after ';'), statements where expressions
// are required, suites without NEWLINE/INDENT, chained headers, else/elif
// without an if or without a suite, keywords and notations Starlark does not
// have, assignment forms in expression position, malformed parameter /
// argument / load / comprehension lists, unexpected indentation.
//
// Every text is given to the real scanner, parser and resolver exactly as a
// near-miss is (evalNear); the verdict of the grammar is NOT decided here: the
// Coq model parser (proved to accept exactly renderings of trees of the
// grammar) is run on the same tokens by the check, and a text the real parser
// accepts while the model rejects it is a finding keyed by the construct class.
// A template that happens to be grammatical is harmless (both accept).

import (
	"strings"

	"verifharness/internal/hx"
)

type ungramT struct {
	class string
	text  string // E, F: expressions; S, T: simple statements; H, G: compound headers (with ':'); V: loop variable; N: name
}

var ugExprs = []string{"a", "f(x)", "a + b", "x[1]", "(a, b)", "not a", "a if b else c", "[x for x in y]", "{}", `"s"`, "-1", "a.b", "a < b", "a and b", "[1, 2]", "{k: v}", "x[1:2]", "lambda q: q"}
var ugSimple = []string{"pass", "x = 1", "x += 1", "return", "return a", "f(x)", "break", "continue", "a, b = c", "x.y = z", `load("m", "s")`, "x[0] = 1"}
var ugHeaders = []string{"if a:", "for x in y:", "while a:", "def f():", "def g(p, q=1, *r, **s):", "if not a and b:", "for i, j in z:"}
var ugVars = []string{"x", "i, j", "(p, q)", "x.y", "x[0]"}
var ugNames = []string{"f", "g", "name_1", "zz"}

var ugTemplates = []ungramT{
	// 1. a compound statement as an inline suite (same line as the enclosing ':')
	{"inline-compound", "H G S\n"},
	{"inline-compound", "H G S\nelse: T\n"},
	{"inline-compound", "if a: S\nelif b: G T\n"},
	{"inline-compound", "if a: S\nelse: G T\n"},
	{"inline-compound", "H\n    G H S\n"},
	{"inline-compound", "def f():\n    if a: if b: S\n    else: T\n"},
	{"inline-compound", "H G\n    S\n"},
	{"inline-compound", "H G\n        S\n    T\n"},
	// 2. a compound statement after ';'
	{"semi-compound", "S; G T\n"},
	{"semi-compound", "H S; G T\n"},
	{"semi-compound", "H\n    S; G T\n"},
	{"semi-compound", "S; G\n    T\n"},
	{"semi-compound", "G S; else: T\n"},
	// 3. chained headers
	{"chained-headers", "if a: for x in y: while b: S\n"},
	{"chained-headers", "def f(): def g(): S\n"},
	{"chained-headers", "for x in y: def f(): S\n"},
	{"chained-headers", "H G H S\n"},
	{"chained-headers", "H G H\n    S\n"},
	// 4. a statement where an expression is required
	{"stmt-in-expr", "f(pass)\n"},
	{"stmt-in-expr", "x = return E\n"},
	{"stmt-in-expr", "[break]\n"},
	{"stmt-in-expr", "x = (S)\n"},
	{"stmt-in-expr", "f(E, S)\n"},
	{"stmt-in-expr", "lambda: return E\n"},
	{"stmt-in-expr", "x = lambda: pass\n"},
	{"stmt-in-expr", "x = if a: E\n"},
	{"stmt-in-expr", "x = (def f(): pass)\n"},
	{"stmt-in-expr", "[for x in y: S]\n"},
	{"stmt-in-expr", "E + continue\n"},
	{"stmt-in-expr", "{E: pass}\n"},
	{"stmt-in-expr", "E if pass else F\n"},
	{"stmt-in-expr", "x[S]\n"},
	{"stmt-in-expr", "return return\n"},
	{"stmt-in-expr", "return pass\n"},
	{"stmt-in-expr", "H return break\n"},
	{"stmt-in-expr", "for x in pass: S\n"},
	{"stmt-in-expr", "if break: S\n"},
	{"stmt-in-expr", "while load(\"m\", \"s\"): S\n"},
	{"stmt-in-expr", "x = load(\"m\", \"s\")\n"},
	{"stmt-in-expr", "load(\"m\", \"s\").a\n"},
	// 5. assignment forms in expression position
	{"assign-in-expr", "f(a = b = c)\n"},
	{"assign-in-expr", "[a = E]\n"},
	{"assign-in-expr", "{a = E}\n"},
	{"assign-in-expr", "x = (y = E)\n"},
	{"assign-in-expr", "x = y = E\n"},
	{"assign-in-expr", "if a = b: S\n"},
	{"assign-in-expr", "while x += 1: S\n"},
	{"assign-in-expr", "for x = 1 in y: S\n"},
	{"assign-in-expr", "return x = E\n"},
	{"assign-in-expr", "a = b += E\n"},
	{"assign-in-expr", "a += b = E\n"},
	{"assign-in-expr", "f(x += 1)\n"},
	{"assign-in-expr", "E if a = b else F\n"},
	{"assign-in-expr", "lambda: x = E\n"},
	{"assign-in-expr", "[x for x = 1 in y]\n"},
	{"assign-in-expr", "x[a = 1]\n"},
	{"assign-in-expr", "x := E\n"},
	{"assign-in-expr", "(x := E)\n"},
	// 6. suites without NEWLINE INDENT / empty suites / headers without suite
	{"suite-no-indent", "H\nS\n"},
	{"suite-no-indent", "H\n"},
	{"suite-no-indent", "H"},
	{"suite-no-indent", "H\n\n"},
	{"suite-no-indent", "H\n    S\nelse:\nT\n"},
	{"suite-no-indent", "def f():\nreturn E\n"},
	{"suite-no-indent", "H\n    G\n    S\n"},
	{"suite-no-indent", "H\n    H\nS\n"},
	{"suite-no-indent", "H # c\nS\n"},
	{"suite-no-indent", "H\n# c\n"},
	{"suite-no-indent", "H \\\n    S\n    T\n"},
	// 7. else / elif without if, without suite, misplaced, for/while-else
	{"dangling-else", "else: S\n"},
	{"dangling-else", "elif a: S\n"},
	{"dangling-else", "S\nelse: T\n"},
	{"dangling-else", "if a: S\nelse\n"},
	{"dangling-else", "if a: S\nelse:\n"},
	{"dangling-else", "if a: S\nelse: \n\n"},
	{"dangling-else", "if a: S\nelif: T\n"},
	{"dangling-else", "if a: S\nelif b\n    T\n"},
	{"dangling-else", "if a: S\nelse a: T\n"},
	{"dangling-else", "for x in y: S\nelse: T\n"},
	{"dangling-else", "while a: S\nelse: T\n"},
	{"dangling-else", "def f(): S\nelse: T\n"},
	{"dangling-else", "if a: S\nelse: T\nelse: S\n"},
	{"dangling-else", "if a: S\nelse: T\nelif b: S\n"},
	{"dangling-else", "if a:\n    S\n    else: T\n"},
	{"dangling-else", "if a:\n    S\n  else: T\n"},
	{"dangling-else", "if a: S\nT\nelse: S\n"},
	{"dangling-else", "if a: S; else: T\n"},
	{"dangling-else", "if a: S else: T\n"},
	{"dangling-else", "if a: S\nelse if b: T\n"},
	{"dangling-else", "E else F\n"},
	// 8. keywords and notations Starlark does not have
	{"unsupported", "@dec\ndef f(): S\n"},
	{"unsupported", "class A: S\n"},
	{"unsupported", "class A(B):\n    S\n"},
	{"unsupported", "import m\n"},
	{"unsupported", "from m import s\n"},
	{"unsupported", "try: S\nexcept: T\n"},
	{"unsupported", "try:\n    S\nfinally:\n    T\n"},
	{"unsupported", "with a: S\n"},
	{"unsupported", "with a as b: S\n"},
	{"unsupported", "del x\n"},
	{"unsupported", "global x\n"},
	{"unsupported", "nonlocal x\n"},
	{"unsupported", "raise E\n"},
	{"unsupported", "yield E\n"},
	{"unsupported", "x = yield\n"},
	{"unsupported", "assert E\n"},
	{"unsupported", "print E\n"},
	{"unsupported", "async def f(): S\n"},
	{"unsupported", "x = await E\n"},
	{"unsupported", "E is F\n"},
	{"unsupported", "E is not F\n"},
	{"unsupported", "E as N\n"},
	{"unsupported", "load(\"m\", \"s\" as t)\n"},
	{"unsupported", "a ** b\n"},
	{"unsupported", "a <> b\n"},
	{"unsupported", "a && b\n"},
	{"unsupported", "a || b\n"},
	{"unsupported", "!a\n"},
	{"unsupported", "a ? b : c\n"},
	{"unsupported", "x++\n"},
	{"unsupported", "x **= 2\n"},
	{"unsupported", "a @ b\n"},
	{"unsupported", "a -> b\n"},
	{"unsupported", "def f() -> int: S\n"},
	{"unsupported", "def f(a: int): S\n"},
	{"unsupported", "x: int = 1\n"},
	{"unsupported", "`a`\n"},
	{"unsupported", "$x\n"},
	{"unsupported", "a...b\n"},
	{"unsupported", "x = ...\n"},
	{"unsupported", "0755\n"},
	{"unsupported", "1L\n"},
	{"unsupported", "1_000\n"},
	{"unsupported", "1j\n"},
	{"unsupported", "u\"s\"\n"},
	{"unsupported", "f\"s\"\n"},
	{"unsupported", "{a, b}\n"},
	{"unsupported", "{x for x in y}\n"},
	{"unsupported", "(x for x in y)\n"},
	{"unsupported", "f(x for x in y)\n"},
	{"unsupported", "*a, b = c\n"},
	{"unsupported", "a, *b = c\n"},
	{"unsupported", "[*a, b]\n"},
	{"unsupported", "{**a}\n"},
	{"unsupported", "lambda *, a: a\n"},
	// 9. def / lambda headers and parameter lists
	{"def-header", "def f(1): S\n"},
	{"def-header", "def f(a.b): S\n"},
	{"def-header", "def f(a)(b): S\n"},
	{"def-header", "def (a): S\n"},
	{"def-header", "def f: S\n"},
	{"def-header", "def f() S\n"},
	{"def-header", "def f(a b): S\n"},
	{"def-header", "def f(a,,b): S\n"},
	{"def-header", "def f(,): S\n"},
	{"def-header", "def f(a=): S\n"},
	{"def-header", "def f(=1): S\n"},
	{"def-header", "def f(**): S\n"},
	{"def-header", "def f(*a.b): S\n"},
	{"def-header", "def f(**1): S\n"},
	{"def-header", "def f((a, b)): S\n"},
	{"def-header", "def f(a): S; def g(): T\n"},
	{"def-header", "def 1(): S\n"},
	{"def-header", "def f.g(): S\n"},
	{"def-header", "def f():\n"},
	{"def-header", "def\n"},
	{"def-header", "lambda (a, b): a\n"},
	{"def-header", "lambda a=: a\n"},
	{"def-header", "lambda a, : a\n"},
	{"def-header", "lambda a b: a\n"},
	{"def-header", "lambda: \n"},
	{"def-header", "lambda\n"},
	{"def-header", "lambda a\n"},
	{"def-header", "x = lambda: a, lambda\n"},
	// 10. calls, indexing, displays, comprehensions
	{"call-index", "f(a b)\n"},
	{"call-index", "f(,)\n"},
	{"call-index", "f(a,,b)\n"},
	{"call-index", "f(a; b)\n"},
	{"call-index", "f(*)\n"},
	{"call-index", "f(**)\n"},
	{"call-index", "f(a=)\n"},
	{"call-index", "f(=a)\n"},
	{"call-index", "f(1=a)\n"},
	{"call-index", "f(a.b=1)\n"},
	{"call-index", "f(a=1=2)\n"},
	{"call-index", "f(\n"},
	{"call-index", "f(a))\n"},
	{"call-index", "f(a]\n"},
	{"call-index", "x[]\n"},
	{"call-index", "x[a b]\n"},
	{"call-index", "x[a:b:c:d]\n"},
	{"call-index", "x[a,]\n"},
	{"call-index", "x[a:b,]\n"},
	{"call-index", "x[:,]\n"},
	{"call-index", "x.1\n"},
	{"call-index", "x.\n"},
	{"call-index", "x.(a)\n"},
	{"call-index", "x.if\n"},
	{"call-index", ".x\n"},
	{"call-index", "[a b]\n"},
	{"call-index", "[a,,b]\n"},
	{"call-index", "[,]\n"},
	{"call-index", "[a;b]\n"},
	{"call-index", "{a}\n"},
	{"call-index", "{a: }\n"},
	{"call-index", "{: b}\n"},
	{"call-index", "{a: b c: d}\n"},
	{"call-index", "{a: b,, c: d}\n"},
	{"call-index", "{a: b: c}\n"},
	{"call-index", "(a b)\n"},
	{"call-index", "(,)\n"},
	{"call-index", "(a,,)\n"},
	{"call-index", "a,\n"},
	{"call-index", "x = a,\n"},
	{"call-index", "return a,\n"},
	{"call-index", "for x in a,: S\n"},
	{"call-index", "for a, in y: S\n"},
	{"call-index", "[a for a in b for]\n"},
	{"call-index", "[a if b]\n"},
	{"call-index", "[a if b for a in c]\n"},
	{"call-index", "[for x in y]\n"},
	{"call-index", "[a for]\n"},
	{"call-index", "[a for x]\n"},
	{"call-index", "[a for x in]\n"},
	{"call-index", "[a for x in y if]\n"},
	{"call-index", "[a for x in y, z]\n"},
	{"call-index", "[a for x in y if b else c]\n"},
	{"call-index", "[a for x in lambda: y]\n"},
	{"call-index", "[a, b for x in y]\n"},
	{"call-index", "{a: b for}\n"},
	{"call-index", "{a for x in y: b}\n"},
	{"call-index", "[a for x in y] for z in w\n"},
	// 11. load
	{"load", "load()\n"},
	{"load", "load(\"m\")\n"},
	{"load", "load(m, \"s\")\n"},
	{"load", "load(\"m\", s)\n"},
	{"load", "load(\"m\", s=t)\n"},
	{"load", "load(\"m\", \"s\" \"t\")\n"},
	{"load", "load(\"m\", 1)\n"},
	{"load", "load(\"m\", \"s\"=\"t\")\n"},
	{"load", "load(\"m\", *s)\n"},
	{"load", "load(\"m\",, \"s\")\n"},
	{"load", "load(\"m\" \"s\")\n"},
	{"load", "load \"m\", \"s\"\n"},
	{"load", "load(\"m\", \"s\"\n"},
	{"load", "load(b\"m\", \"s\")\n"},
	{"load", "load(\"m\", s=\"t\",,)\n"},
	{"load", "load(\"m\", (\"s\"))\n"},
	{"load", "load((\"m\"), \"s\")\n"},
	// 12. operators
	{"operator", "a not b\n"},
	{"operator", "a in in b\n"},
	{"operator", "not\n"},
	{"operator", "a < < b\n"},
	{"operator", "a +\n"},
	{"operator", "* a\n"},
	{"operator", "/ a\n"},
	{"operator", "a not not in b\n"},
	{"operator", "a not in not b\n"},
	{"operator", "a + not b\n"},
	{"operator", "a < b < c\n"},
	{"operator", "a == b != c\n"},
	{"operator", "a in b in c\n"},
	{"operator", "a if b\n"},
	{"operator", "a if b else\n"},
	{"operator", "a if else c\n"},
	{"operator", "if b else c\n"},
	{"operator", "a + lambda: b\n"},
	{"operator", "- lambda: b\n"},
	{"operator", "not lambda: b\n"},
	{"operator", "a and\n"},
	{"operator", "or b\n"},
	{"operator", "a ~ b\n"},
	{"operator", "a ~\n"},
	{"operator", "a = \n"},
	{"operator", "= a\n"},
	{"operator", "a += \n"},
	{"operator", "a b\n"},
	{"operator", "a 1\n"},
	{"operator", "1 a\n"},
	{"operator", "\"s\" a\n"},
	{"operator", "a; ; b\n"},
	{"operator", "; a\n"},
	{"operator", ";\n"},
	{"operator", "a;; \n"},
	{"operator", "()()\n()=\n"},
	// 13. indentation
	{"indentation", "    S\n"},
	{"indentation", "S\n    T\n"},
	{"indentation", "H\n    S\n        T\n"},
	{"indentation", "H\n        S\n    T\n"},
	{"indentation", "H\n    S\n  T\n"},
	{"indentation", "H\n\tS\n        T\n    S\n"},
	{"indentation", "H\n    S\n T\n"},
	{"indentation", "S\n  \n    T\n"},
	{"indentation", "x = [\n1,\n]\n    S\n"},
	{"indentation", "H S\n    T\n"},
}

func ugFill(rc *hx.Rand, t string) string {
	pick := func(p []string) string { return p[rc.Intn(len(p))] }
	var sb strings.Builder
	for i := 0; i < len(t); i++ {
		c := t[i]
		// a placeholder is a single capital letter that is a whole word
		isWord := func(b byte) bool {
			return b == '_' || b >= '0' && b <= '9' || b >= 'a' && b <= 'z' || b >= 'A' && b <= 'Z' || b == '"'
		}
		alone := (i == 0 || !isWord(t[i-1])) && (i+1 == len(t) || !isWord(t[i+1]))
		if alone {
			switch c {
			case 'E', 'F':
				sb.WriteString(pick(ugExprs))
				continue
			case 'S', 'T':
				sb.WriteString(pick(ugSimple))
				continue
			case 'H', 'G':
				sb.WriteString(pick(ugHeaders))
				continue
			case 'V':
				sb.WriteString(pick(ugVars))
				continue
			case 'N':
				sb.WriteString(pick(ugNames))
				continue
			}
		}
		sb.WriteByte(c)
	}
	return sb.String()
}

// modeUngram emits n texts, cycling through the templates (every template is
// used once per len(ugTemplates) cases) with seeded random fillings.
func modeUngram(n int, fam *hx.Rand) {
	for i := 0; i < n; i++ {
		rc := fam.Split()
		t := ugTemplates[i%len(ugTemplates)]
		src := ugFill(rc, t.text)
		c := NearCase{Kind: "near", Mode: "file", Base: i, Mut: "ungram:" + t.class, BaseSrc: t.text, Src: src, Coq: true, OK: true}
		evalNear(&c, "file", []byte(src), "", "ungram:"+t.class, "ungram")
		hx.Emit(c)
	}
}
