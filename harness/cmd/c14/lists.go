package main

// -mode lists: parameter lists of def / lambda and argument lists of calls.
// The parser deliberately accepts these lists unvalidated ("the grammar does
// not enforce the legal order of params and args"); the documented superset is
// to be rejected statically by the resolver.  Every sequence of up to n items
// over {required, optional, bare *, *args, **kwargs} (parameters) and
// {positional, named, *args, **kwargs} (arguments), plus duplicate-name
// variants, is given to the real parser and resolver and compared with an
// oracle written from doc/spec.md ("Function definitions", "Function calls"),
// independent of resolve.go:
//   parameters: required* optional* [ ('*' | '*' name) keyword-only* ] [ '**' name ],
//               a bare '*' is followed by at least one keyword-only parameter,
//               all names distinct;
//   arguments:  positional* named* [ '*' expr ] [ '**' expr ], named names distinct.

import (
	"fmt"
	"strings"

	"verifharness/internal/hx"
)

const (
	pkReq = iota
	pkOpt
	pkBare
	pkArgs
	pkKw
)

func paramsValid(kinds []int, names []string) bool {
	phase, bare, kwonly := 0, false, 0
	seen := map[string]bool{}
	for i, k := range kinds {
		if k != pkBare {
			if seen[names[i]] {
				return false
			}
			seen[names[i]] = true
		}
		switch k {
		case pkReq:
			switch phase {
			case 0:
			case 2:
				kwonly++
			default:
				return false
			}
		case pkOpt:
			switch phase {
			case 0, 1:
				phase = 1
			case 2:
				kwonly++
			default:
				return false
			}
		case pkBare, pkArgs:
			if phase >= 2 {
				return false
			}
			phase, bare = 2, k == pkBare
		case pkKw:
			if phase >= 3 {
				return false
			}
			phase = 3
		}
	}
	return !(bare && kwonly == 0)
}

func paramText(kinds []int, names []string) string {
	var ps []string
	for i, k := range kinds {
		switch k {
		case pkReq:
			ps = append(ps, names[i])
		case pkOpt:
			ps = append(ps, names[i]+"=1")
		case pkBare:
			ps = append(ps, "*")
		case pkArgs:
			ps = append(ps, "*"+names[i])
		case pkKw:
			ps = append(ps, "**"+names[i])
		}
	}
	return strings.Join(ps, ", ")
}

const (
	akPos = iota
	akNamed
	akArgs
	akKw
)

func argsValid(kinds []int, names []string) bool {
	named, star, kw := false, false, false
	seen := map[string]bool{}
	for i, k := range kinds {
		switch k {
		case akPos:
			if named || star || kw {
				return false
			}
		case akNamed:
			if star || kw || seen[names[i]] {
				return false
			}
			seen[names[i]] = true
			named = true
		case akArgs:
			if star || kw {
				return false
			}
			star = true
		case akKw:
			if kw {
				return false
			}
			kw = true
		}
	}
	return true
}

func argText(kinds []int, names []string) string {
	var as []string
	for i, k := range kinds {
		switch k {
		case akPos:
			as = append(as, fmt.Sprint(i+1))
		case akNamed:
			as = append(as, names[i]+"=1")
		case akArgs:
			as = append(as, "*va")
		case akKw:
			as = append(as, "**kw")
		}
	}
	return strings.Join(as, ", ")
}

func listCase(id int, what, src string, valid bool) {
	c := NearCase{Kind: "near", Mode: "file", Base: id, Mut: "lists:" + what, Src: src, Coq: false, OK: true}
	evalNear(&c, "file", []byte(src), "", "lists:"+what, "lists")
	accepted := c.Parse == "ok" && c.Resolve == "ok"
	if accepted != valid {
		verdict := "accepted by parser and resolver"
		if !accepted {
			verdict = "rejected"
		}
		msg := "outside the grammar of parameter/argument lists but " + verdict
		if valid {
			msg = "a grammatical list but " + verdict
		}
		if c.Why != "" {
			c.Why += "; "
		}
		c.OK, c.Why = false, c.Why+what+" list is "+msg
		dist["lists:NOT-OK"]++
	}
	dist[fmt.Sprintf("lists:%s:valid=%v", what, valid)]++
	hx.Emit(c)
}

// enumerate calls f on every sequence over 0..k-1 of length 0..n.
func enumerate(k, n int, f func([]int)) {
	var rec func(pre []int)
	rec = func(pre []int) {
		f(pre)
		if len(pre) == n {
			return
		}
		for x := 0; x < k; x++ {
			rec(append(append([]int{}, pre...), x))
		}
	}
	rec(nil)
}

func modeLists(n int) {
	if n < 1 {
		n = 1
	}
	if n > 6 {
		n = 6
	}
	id := 0
	distinct := []string{"p0", "p1", "p2", "p3", "p4", "p5"}
	enumerate(5, n, func(kinds []int) {
		v := paramsValid(kinds, distinct)
		t := paramText(kinds, distinct)
		listCase(id, "def", "def f("+t+"): pass\n", v)
		id++
		listCase(id, "lambda", "x = lambda "+t+": 0\n", v)
		id++
		// the same with the first and last named parameter sharing a name
		if len(kinds) >= 2 && len(kinds) <= 4 && kinds[0] != pkBare && kinds[len(kinds)-1] != pkBare {
			names := append([]string{}, distinct...)
			names[len(kinds)-1] = names[0]
			listCase(id, "def-dup", "def f("+paramText(kinds, names)+"): pass\n", paramsValid(kinds, names))
			id++
		}
	})
	enumerate(4, n, func(kinds []int) {
		v := argsValid(kinds, distinct)
		listCase(id, "call", "f("+argText(kinds, distinct)+")\n", v)
		id++
		if len(kinds) >= 2 && len(kinds) <= 4 && kinds[0] == akNamed && kinds[len(kinds)-1] == akNamed {
			names := append([]string{}, distinct...)
			names[len(kinds)-1] = names[0]
			listCase(id, "call-dup", "f("+argText(kinds, names)+")\n", argsValid(kinds, names))
			id++
		}
	})
}
