package main

// -mode unparen: texts the grammar does NOT generate because a REQUIRED
// parenthesis is missing.  A tree is generated as in expr mode, one Paren node
// that the position requires is removed, and the text goes through exactly
// what near mode runs (scanner, ParseExpr, resolver).

import (
	"strings"

	"verifharness/internal/hx"
)

type parenCand struct {
	slot **E
	name string
}

// reqName names why the position c does not admit e unparenthesised.
func reqName(e *E, c ctx) string {
	if c.op != nil { // operand of a binary operator
		lv := level(e)
		switch {
		case e.K == KTuple:
			return "binop-tuple-child"
		case e.K == KLambda:
			return "binop-lambda-child"
		case e.K == KCond:
			return "binop-cond-child"
		case c.op.Prec == lvCmp && lv == lvCmp:
			return "cmp-" + c.side
		case e.K == KUnary && e.Op == opNot:
			return "binop-not-child"
		case lv == c.op.Prec:
			return "binop-right-same-level"
		}
		return "binop-lower-child"
	}
	switch e.K {
	case KTuple:
		switch {
		case len(e.List) == 1:
			return c.name + "-1tuple"
		case c.min <= lvExpr:
			return c.name + "-tuple-trailing-comma"
		}
		return c.name + "-tuple"
	case KLambda:
		return c.name + "-lambda"
	case KCond:
		return c.name + "-cond"
	}
	return c.name
}

// requiredParens lists the Paren nodes whose position does not admit their
// content unparenthesised.  The contexts mirror parse.go (and gen.go).
func requiredParens(root **E) []parenCand {
	var out []parenCand
	var walk func(slot **E, c ctx)
	pos := func(min int, name string) ctx { return ctx{min: min, name: name} }
	loopVars := func(slot **E) {
		if (*slot).K == KTuple {
			for i := range (*slot).List {
				walk(&(*slot).List[i], pos(lvUnary, "loop-var"))
			}
			return
		}
		walk(slot, pos(lvUnary, "loop-var"))
	}
	walk = func(slot **E, c ctx) {
		e := *slot
		if e == nil {
			return
		}
		if e.K == KParen && !fits(e.X, c) {
			out = append(out, parenCand{slot, reqName(e.X, c)})
		}
		suffix := pos(lvPrimary, "suffix-target")
		switch e.K {
		case KParen:
			walk(&e.X, ctx{paren: true})
		case KCall:
			walk(&e.X, suffix)
			for i := range e.List {
				walk(&e.List[i], pos(lvTest, "call-arg"))
			}
		case KDot:
			walk(&e.X, suffix)
		case KIndex:
			walk(&e.X, suffix)
			walk(&e.Y, pos(lvExpr, "index"))
		case KSlice:
			walk(&e.X, suffix)
			walk(&e.Lo, pos(lvExpr, "slice-lo"))
			walk(&e.Hi, pos(lvTest, "slice-part"))
			walk(&e.Step, pos(lvTest, "slice-part"))
		case KList:
			for i := range e.List {
				walk(&e.List[i], pos(lvTest, "list-elem"))
			}
		case KDict:
			for i := range e.List {
				walk(&e.List[i], ctx{paren: true}) // DictEntry nodes
			}
		case KDictEntry:
			walk(&e.X, pos(lvTest, "dict-entry"))
			walk(&e.Y, pos(lvTest, "dict-entry"))
		case KComp:
			if e.X.K == KDictEntry {
				walk(&e.X, ctx{paren: true})
			} else {
				walk(&e.X, pos(lvTest, "comp-body"))
			}
			for i := range e.List {
				walk(&e.List[i], ctx{paren: true}) // clause nodes
			}
		case KForClause:
			loopVars(&e.X)
			walk(&e.Y, pos(0, "comp-in-operand"))
		case KIfClause:
			walk(&e.X, ctx{min: 0, nocond: true, name: "comp-if-cond"})
		case KLambda:
			for i := range e.List {
				walk(&e.List[i], ctx{paren: true}) // parameter forms
			}
			if c.nocond {
				walk(&e.X, ctx{min: 0, nocond: true, name: "lambda-body-nocond"})
			} else {
				walk(&e.X, pos(lvTest, "lambda-body"))
			}
		case KCond:
			walk(&e.X, pos(0, "cond-true"))
			walk(&e.Y, pos(0, "cond-cond"))
			walk(&e.Z, pos(lvTest, "cond-false"))
		case KTuple:
			for i := range e.List {
				walk(&e.List[i], pos(lvTest, "tuple-elem"))
			}
		case KUnary:
			switch e.Op {
			case opNot:
				walk(&e.X, pos(lvNot, "not-operand"))
			case opStar, opStarStar: // *args / **kwargs argument (or parameter)
				walk(&e.X, pos(lvTest, "star-arg"))
			default:
				walk(&e.X, pos(lvUnary, "unary-operand"))
			}
		case KBinary:
			if e.Op == opEq { // name=value argument / parameter default
				walk(&e.Y, pos(lvTest, "keyword-value"))
				break
			}
			lmin := e.Op.Prec
			if lmin == lvCmp {
				lmin++
			}
			walk(&e.X, ctx{min: lmin, op: e.Op, side: "left"})
			walk(&e.Y, ctx{min: e.Op.Prec + 1, op: e.Op, side: "right"})
		}
	}
	walk(root, pos(lvExpr, "top"))
	return out
}

var cmpOps = []*OpInfo{opEql, opNeq, opLt, opGt, opLe, opGe, opIn, opNotIn}

// unparenShape builds one of the named shapes; it returns the tree and the
// Paren node to drop.
func unparenShape(g *gen, cmpChain bool) (*E, *E) {
	r := g.r
	o := func() *E { return g.sub(r.Intn(3), 3, ctxPrec(lvPrimary)) } // a primary
	bin := func(x *E, op *OpInfo, y *E) *E { return &E{K: KBinary, Op: op, X: x, Y: y} }
	par := func(x *E) *E { return &E{K: KParen, X: x} }
	embed := func(e *E) *E { // sometimes not at top level
		switch r.Intn(6) {
		case 0:
			return &E{K: KList, List: []*E{e}}
		case 1:
			return &E{K: KCall, X: g.ident(), List: []*E{g.ident(), e}}
		}
		return e
	}
	if cmpChain {
		c1, c2 := hx.Pick(r, cmpOps), hx.Pick(r, cmpOps)
		if r.Bool() {
			p := par(bin(o(), c1, o()))
			return embed(bin(p, c2, o())), p
		}
		p := par(bin(o(), c2, o()))
		return embed(bin(o(), c1, p)), p
	}
	cond := func(t, c, f *E) *E { return &E{K: KCond, X: t, Y: c, Z: f} }
	switch r.Intn(16) {
	case 0: // (x if c else y) if d else z
		p := par(cond(o(), o(), o()))
		return embed(cond(p, o(), o())), p
	case 1: // x if (c if e else f) else y
		p := par(cond(o(), o(), o()))
		return embed(cond(o(), p, o())), p
	case 2: // lambda: (a, b)
		p := par(&E{K: KTuple, List: []*E{o(), o()}})
		return &E{K: KLambda, List: g.params(0, 3), X: p}, p
	case 3: // (not a) == b
		p := par(&E{K: KUnary, Op: opNot, X: o()})
		return embed(bin(p, hx.Pick(r, cmpOps), o())), p
	case 4: // a == (not b),  a + (not b)
		p := par(&E{K: KUnary, Op: opNot, X: o()})
		return embed(bin(o(), hx.Pick(r, []*OpInfo{opEql, opLt, opIn, opPlus, opPipe}), p)), p
	case 5: // (-x).y  (-x)(y)  (-x)[y]
		p := par(&E{K: KUnary, Op: hx.Pick(r, []*OpInfo{opMinus, opPlus, opTilde}), X: o()})
		switch r.Intn(3) {
		case 0:
			return embed(&E{K: KDot, X: p, Name: g.name()}), p
		case 1:
			return embed(&E{K: KCall, X: p, List: []*E{o()}}), p
		}
		return embed(&E{K: KIndex, X: p, Y: o()}), p
	case 6: // (a or b) and c, and every other pair of neighbouring levels, lower child on the left
		lo := g.pickOp(nil)
		for lo.Prec >= 9 {
			lo = g.pickOp(nil)
		}
		hi := g.pickOp(lo)
		for hi.Prec <= lo.Prec {
			hi = g.pickOp(nil)
		}
		p := par(bin(o(), lo, o()))
		return embed(bin(p, hi, o())), p
	case 7: // c * (a + b): lower child on the right
		lo := g.pickOp(nil)
		for lo.Prec >= 9 {
			lo = g.pickOp(nil)
		}
		hi := g.pickOp(nil)
		for hi.Prec <= lo.Prec {
			hi = g.pickOp(nil)
		}
		p := par(bin(o(), lo, o()))
		return embed(bin(o(), hi, p)), p
	case 8: // a - (b - c): same level on the right
		op1 := g.pickOp(nil)
		for op1.Prec == lvCmp {
			op1 = g.pickOp(nil)
		}
		op2 := g.pickOp(op1)
		for op2.Prec != op1.Prec {
			op2 = g.pickOp(nil)
		}
		p := par(bin(o(), op2, o()))
		return embed(bin(o(), op1, p)), p
	case 9: // not (a or b),  -(a * b)
		if r.Bool() {
			p := par(bin(o(), hx.Pick(r, []*OpInfo{opOr, opAnd}), o()))
			return embed(&E{K: KUnary, Op: opNot, X: p}), p
		}
		p := par(bin(o(), g.pickOp(nil), o()))
		return embed(&E{K: KUnary, Op: hx.Pick(r, []*OpInfo{opMinus, opPlus, opTilde}), X: p}), p
	case 10: // [x for x in (a if b else c)]  [x for x in (lambda: y)]
		var in *E
		if r.Bool() {
			in = cond(o(), o(), o())
		} else {
			in = &E{K: KLambda, X: o()}
		}
		p := par(in)
		return &E{K: KComp, Curly: false, X: g.ident(), List: []*E{{K: KForClause, X: g.ident(), Y: p}}}, p
	case 11: // [x for x in y if (a if b else c)]
		p := par(cond(o(), o(), o()))
		return &E{K: KComp, X: g.ident(), List: []*E{{K: KForClause, X: g.ident(), Y: g.ident()}, {K: KIfClause, X: p}}}, p
	case 12: // f((a, b))   f(x=(a, b))   f(*(a, b))
		p := par(&E{K: KTuple, List: []*E{o(), o()}, TC: r.Intn(3) == 0})
		var arg *E = p
		switch r.Intn(4) {
		case 0:
			arg = bin(g.ident(), opEq, p)
		case 1:
			arg = &E{K: KUnary, Op: opStar, X: p}
		}
		return &E{K: KCall, X: g.ident(), List: []*E{arg}}, p
	case 13: // a[(b,)]  a[(b, c,)]  a[(b,):]
		t := &E{K: KTuple, List: []*E{o()}, TC: true}
		if r.Bool() {
			t.List = append(t.List, o())
		}
		p := par(t)
		if r.Intn(3) == 0 {
			return &E{K: KSlice, X: g.ident(), Lo: p}, p
		}
		return &E{K: KIndex, X: g.ident(), Y: p}, p
	case 14: // {(a, b): c}  {a: (b, c)}  [(a, b), c]  a[b:(c, d)]
		p := par(&E{K: KTuple, List: []*E{o(), o()}})
		switch r.Intn(4) {
		case 0:
			return &E{K: KDict, List: []*E{{K: KDictEntry, X: p, Y: o()}}}, p
		case 1:
			return &E{K: KDict, List: []*E{{K: KDictEntry, X: o(), Y: p}}}, p
		case 2:
			return &E{K: KList, List: []*E{p, o()}}, p
		}
		return &E{K: KSlice, X: g.ident(), Lo: o(), Hi: p}, p
	default: // (lambda: x)(y)   (lambda: x) + y   (a if b else c).f
		var in *E
		if r.Bool() {
			in = &E{K: KLambda, List: g.params(0, 3), X: o()}
		} else {
			in = cond(o(), o(), o())
		}
		p := par(in)
		switch r.Intn(3) {
		case 0:
			return &E{K: KCall, X: p, List: []*E{o()}}, p
		case 1:
			return bin(p, g.pickOp(nil), o()), p
		}
		return bin(o(), g.pickOp(nil), p), p
	}
}

func plainRender(rc *hx.Rand, e *E) *rend {
	rd := newRend(rc, style{spaces: 1, nl: "\n", finalNL: true})
	rd.renderExpr(e)
	return rd
}

func singleLine(rd *rend) bool {
	for _, t := range rd.toks {
		if strings.ContainsAny(t.raw, "\r\n") {
			return false
		}
	}
	return true
}

func modeUnparen(n int, fam *hx.Rand) {
	for i := 0; i < n; i++ {
		rc := fam.Split()
		for {
			g := &gen{r: rc, maxDepth: 6, nl: "\n", pParen: 7}
			var root, chosen *E
			shape := "random"
			switch x := rc.Intn(100); {
			case x < 20:
				root, chosen = unparenShape(g, true)
				shape = "cmp-chain"
			case x < 38:
				root, chosen = unparenShape(g, false)
				shape = "named-shape"
			default:
				root = g.sub(3+rc.Intn(12), 0, ctxExpr)
			}
			cands := requiredParens(&root)
			if len(cands) == 0 {
				continue
			}
			var pick *parenCand
			if chosen != nil {
				for k := range cands {
					if *cands[k].slot == chosen {
						pick = &cands[k]
					}
				}
				if pick == nil {
					panic("unparen: the designated parenthesis is not required")
				}
			} else {
				pick = &cands[rc.Intn(len(cands))]
			}
			base := plainRender(rc, root)
			pn := &printer{tc: false}
			pn.expr(root)
			baseErased := erasePos(pn.sb.String())
			// drop the parenthesis
			*pick.slot = (*pick.slot).X
			rd := plainRender(rc, root)
			if len(rd.real) > 40 || !singleLine(rd) || !singleLine(base) {
				continue
			}
			c := NearCase{Kind: "near", Mode: "expr", Base: i, Mut: "unparen:" + pick.name, BaseSrc: string(base.buf), Src: string(rd.buf), Coq: true, OK: true}
			evalNear(&c, "expr", rd.buf, baseErased, "unparen:"+pick.name, "unparen")
			dist["unparen:shape:"+shape]++
			hx.Emit(c)
			break
		}
	}
}
