package main

// The generator's own syntax tree (deliberately NOT syntax.* nodes: the
// generator + renderer are the independent oracle) and its printer to the
// Coq term syntax of coq/C14/Tokens.v.

import (
	"fmt"
	"math/big"
	"strconv"
	"strings"
)

// Pos is (line, column) with rune columns, 1-based, as syntax.Position.
type Pos struct{ L, C int }

func (p Pos) String() string { return "(" + strconv.Itoa(p.L) + "," + strconv.Itoa(p.C) + ")" }

type Kind int

const (
	KIdent Kind = iota
	KLit
	KParen
	KCall
	KDot
	KIndex
	KSlice
	KList
	KDict
	KDictEntry
	KComp
	KForClause
	KIfClause
	KLambda
	KCond
	KEmptyTuple
	KTuple
	KUnary
	KBinary
)

var kindNames = [...]string{"Ident", "Literal", "Paren", "Call", "Dot", "Index", "Slice", "ListE", "DictE",
	"DictEntry", "Comp", "ForClause", "IfClause", "Lambda", "Cond", "EmptyTuple", "Tuple", "Unary", "Binary"}

// LitV is a literal: its class, value and the spelling chosen for it.
type LitV struct {
	Cls   string // int float string bytes
	Int   *big.Int
	Bits  uint64
	Bytes []byte
	Src   string
	Feat  string // spelling class, for the distribution
}

// E is an expression node. Field use per kind:
//
//	Ident      P=NamePos Name
//	Literal    P=TokenPos Lit
//	Paren      P=Lparen X P2=Rparen
//	Call       X=Fn P=Lparen List=Args TC P2=Rparen
//	Dot        X P=Dot P2=NamePos Name
//	Index      X P=Lbrack Y P2=Rbrack
//	Slice      X P=Lbrack Lo Hi Step Colon2 P2=Rbrack
//	ListE      P List TC P2
//	DictE      P List(entries) TC P2
//	DictEntry  X=Key P=Colon Y=Value
//	Comp       Curly P=Lbrack X=Body List=Clauses P2=Rbrack
//	ForClause  P=For X=Vars P2=In Y=X
//	IfClause   P=If X=Cond
//	Lambda     P List=Params X=Body
//	Cond       X=True P=If Y=Cond P2=ElsePos Z=False
//	EmptyTuple P P2
//	Tuple      List TC
//	Unary      P Op X (X nil only for the bare * parameter)
//	Binary     X P Op Y
type E struct {
	K            Kind
	Name         string
	Lit          *LitV
	Op           *OpInfo
	X, Y, Z      *E
	Lo, Hi, Step *E
	List         []*E
	TC           bool
	Colon2       bool
	Curly        bool
	P, P2        Pos
	Start        Pos // where the renderer put the first token of the node
}

type SKind int

const (
	SAssign SKind = iota
	SBranch
	SDef
	SExpr
	SFor
	SWhile
	SIf
	SLoad
	SReturn
)

var skindNames = [...]string{"AssignStmt", "BranchStmt", "DefStmt", "ExprStmt", "ForStmt", "WhileStmt", "IfStmt", "LoadStmt", "ReturnStmt"}

type Elif struct {
	P    Pos
	Cond *E
	Body []*S
}

type LoadName struct {
	Alias  string // "" if not written
	AliasP Pos
	StrP   Pos
	From   *LitV
}

// S is a statement node.
//
//	Assign  X=LHS P=OpPos Op Y=RHS
//	Branch  P Op (BREAK CONTINUE PASS)
//	Def     P=Def P2=NamePos Name P3=Lparen Params TC P4=Rparen Body
//	Expr    X
//	For     P X=Vars Y=X Body
//	While   P X=Cond Body
//	If      P X=Cond Body Elifs HasElse ElseP Else
//	Load    P P2=Lparen P3=ModulePos Module Names TC P4=Rparen
//	Return  P X (optional)
type S struct {
	K             SKind
	X, Y          *E
	Op            *OpInfo
	Name          string
	Params        []*E
	TC            bool
	Body          []*S
	Elifs         []Elif
	HasElse       bool
	ElseP         Pos
	Else          []*S
	Module        *LitV
	Names         []LoadName
	P, P2, P3, P4 Pos
	Start         Pos
}

func (s *S) small() bool {
	switch s.K {
	case SDef, SFor, SWhile, SIf:
		return false
	}
	return true
}

// OpInfo describes an operator / keyword / punctuation token.
type OpInfo struct {
	Coq  string // constructor in Tokens.v
	Text string
	Prec int // binary precedence level (0..9), -1 if not binary
}

var (
	opOr       = &OpInfo{"OR", "or", 0}
	opAnd      = &OpInfo{"AND", "and", 1}
	opNot      = &OpInfo{"NOT", "not", -1}
	opEql      = &OpInfo{"EQL", "==", 3}
	opNeq      = &OpInfo{"NEQ", "!=", 3}
	opLt       = &OpInfo{"LT", "<", 3}
	opGt       = &OpInfo{"GT", ">", 3}
	opLe       = &OpInfo{"LE", "<=", 3}
	opGe       = &OpInfo{"GE", ">=", 3}
	opIn       = &OpInfo{"IN", "in", 3}
	opNotIn    = &OpInfo{"NOT_IN", "not in", 3}
	opPipe     = &OpInfo{"PIPE", "|", 4}
	opCirc     = &OpInfo{"CIRCUMFLEX", "^", 5}
	opAmp      = &OpInfo{"AMP", "&", 6}
	opLtLt     = &OpInfo{"LTLT", "<<", 7}
	opGtGt     = &OpInfo{"GTGT", ">>", 7}
	opMinus    = &OpInfo{"MINUS", "-", 8}
	opPlus     = &OpInfo{"PLUS", "+", 8}
	opStar     = &OpInfo{"STAR", "*", 9}
	opPercent  = &OpInfo{"PERCENT", "%", 9}
	opSlash    = &OpInfo{"SLASH", "/", 9}
	opSlash2   = &OpInfo{"SLASHSLASH", "//", 9}
	opTilde    = &OpInfo{"TILDE", "~", -1}
	opStarStar = &OpInfo{"STARSTAR", "**", -1}
	opEq       = &OpInfo{"EQ", "=", -1}
	opBreak    = &OpInfo{"BREAK", "break", -1}
	opContinue = &OpInfo{"CONTINUE", "continue", -1}
	opPass     = &OpInfo{"PASS", "pass", -1}
)

var binaryOps = []*OpInfo{opOr, opAnd, opEql, opNeq, opLt, opGt, opLe, opGe, opIn, opNotIn, opPipe, opCirc, opAmp,
	opLtLt, opGtGt, opMinus, opPlus, opStar, opPercent, opSlash, opSlash2}

var assignOps = []*OpInfo{opEq, {"PLUS_EQ", "+=", -1}, {"MINUS_EQ", "-=", -1}, {"STAR_EQ", "*=", -1}, {"SLASH_EQ", "/=", -1},
	{"SLASHSLASH_EQ", "//=", -1}, {"PERCENT_EQ", "%=", -1}, {"AMP_EQ", "&=", -1}, {"PIPE_EQ", "|=", -1},
	{"CIRCUMFLEX_EQ", "^=", -1}, {"LTLT_EQ", "<<=", -1}, {"GTGT_EQ", ">>=", -1}}

// level of an expression: the loosest grammar level at which it can stand
// unparenthesised.  -2 bare tuple, -1 lambda / conditional (a "test"),
// 0..9 binary operators (2 = not), 10 unary - + ~, 11 primary with suffixes.
const (
	lvExpr    = -2
	lvTest    = -1
	lvNot     = 2
	lvCmp     = 3
	lvUnary   = 10
	lvPrimary = 11
)

func level(e *E) int {
	switch e.K {
	case KTuple:
		return lvExpr
	case KLambda, KCond:
		return lvTest
	case KBinary:
		return e.Op.Prec
	case KUnary:
		if e.Op == opNot {
			return lvNot
		}
		return lvUnary
	}
	return lvPrimary
}

// ---- Coq printing ----

type printer struct {
	sb     strings.Builder
	tc     bool  // print the concrete-syntax bits (tc, colon2) as rendered; else false everywhere
	starts []Pos // recorded start of every node, preorder
}

func coqBool(b bool) string {
	if b {
		return "true"
	}
	return "false"
}

func coqBytes(b []byte) string {
	var sb strings.Builder
	sb.WriteByte('[')
	for i, c := range b {
		if i > 0 {
			sb.WriteByte(';')
		}
		sb.WriteString(strconv.Itoa(int(c)))
	}
	sb.WriteByte(']')
	return sb.String()
}

func coqString(s string) string {
	// identifiers only; Coq doubles an embedded quote
	return `"` + strings.ReplaceAll(s, `"`, `""`) + `"`
}

func (l *LitV) coq() string {
	switch l.Cls {
	case "int":
		return "(LInt " + l.Int.String() + ")"
	case "float":
		return "(LFloat " + strconv.FormatUint(l.Bits, 10) + ")"
	case "string":
		return "(LString " + coqBytes(l.Bytes) + ")"
	case "bytes":
		return "(LBytes " + coqBytes(l.Bytes) + ")"
	}
	panic("bad literal class " + l.Cls)
}

// tokCoq is the token constructor for the literal.
func (l *LitV) tokCoq() string {
	switch l.Cls {
	case "int":
		return "INT " + l.Int.String()
	case "float":
		return "FLOAT " + strconv.FormatUint(l.Bits, 10)
	case "string":
		return "STRING " + coqBytes(l.Bytes)
	case "bytes":
		return "BYTES " + coqBytes(l.Bytes)
	}
	panic("bad literal class " + l.Cls)
}

func (p *printer) w(s string) { p.sb.WriteString(s) }

func (p *printer) list(l []*E) {
	p.w("[")
	for i, x := range l {
		if i > 0 {
			p.w("; ")
		}
		p.expr(x)
	}
	p.w("]")
}

func (p *printer) opt(e *E) {
	if e == nil {
		p.w("None")
		return
	}
	p.w("(Some ")
	p.expr(e)
	p.w(")")
}

func (p *printer) bit(b bool) string { return coqBool(b && p.tc) }

func (p *printer) expr(e *E) {
	p.starts = append(p.starts, e.Start)
	switch e.K {
	case KIdent:
		p.w("(Ident " + e.P.String() + " " + coqString(e.Name) + ")")
	case KLit:
		p.w("(Literal " + e.P.String() + " " + e.Lit.coq() + ")")
	case KParen:
		p.w("(Paren " + e.P.String() + " ")
		p.expr(e.X)
		p.w(" " + e.P2.String() + ")")
	case KCall:
		p.w("(Call ")
		p.expr(e.X)
		p.w(" " + e.P.String() + " ")
		p.list(e.List)
		p.w(" " + p.bit(e.TC) + " " + e.P2.String() + ")")
	case KDot:
		p.w("(Dot ")
		p.expr(e.X)
		p.w(" " + e.P.String() + " " + e.P2.String() + " " + coqString(e.Name) + ")")
	case KIndex:
		p.w("(Index ")
		p.expr(e.X)
		p.w(" " + e.P.String() + " ")
		p.expr(e.Y)
		p.w(" " + e.P2.String() + ")")
	case KSlice:
		p.w("(Slice ")
		p.expr(e.X)
		p.w(" " + e.P.String() + " ")
		p.opt(e.Lo)
		p.w(" ")
		p.opt(e.Hi)
		p.w(" ")
		p.opt(e.Step)
		p.w(" " + p.bit(e.Colon2) + " " + e.P2.String() + ")")
	case KList, KDict:
		if e.K == KList {
			p.w("(ListE ")
		} else {
			p.w("(DictE ")
		}
		p.w(e.P.String() + " ")
		p.list(e.List)
		p.w(" " + p.bit(e.TC) + " " + e.P2.String() + ")")
	case KDictEntry:
		p.w("(DictEntry ")
		p.expr(e.X)
		p.w(" " + e.P.String() + " ")
		p.expr(e.Y)
		p.w(")")
	case KComp:
		p.w("(Comp " + coqBool(e.Curly) + " " + e.P.String() + " ")
		p.expr(e.X)
		p.w(" ")
		p.list(e.List)
		p.w(" " + e.P2.String() + ")")
	case KForClause:
		p.w("(ForClause " + e.P.String() + " ")
		p.expr(e.X)
		p.w(" " + e.P2.String() + " ")
		p.expr(e.Y)
		p.w(")")
	case KIfClause:
		p.w("(IfClause " + e.P.String() + " ")
		p.expr(e.X)
		p.w(")")
	case KLambda:
		p.w("(Lambda " + e.P.String() + " ")
		p.list(e.List)
		p.w(" ")
		p.expr(e.X)
		p.w(")")
	case KCond:
		p.w("(Cond ")
		p.expr(e.X)
		p.w(" " + e.P.String() + " ")
		p.expr(e.Y)
		p.w(" " + e.P2.String() + " ")
		p.expr(e.Z)
		p.w(")")
	case KEmptyTuple:
		p.w("(EmptyTuple " + e.P.String() + " " + e.P2.String() + ")")
	case KTuple:
		p.w("(Tuple ")
		p.list(e.List)
		p.w(" " + p.bit(e.TC) + ")")
	case KUnary:
		p.w("(Unary " + e.P.String() + " " + e.Op.Coq + " ")
		p.opt(e.X)
		p.w(")")
	case KBinary:
		p.w("(Binary ")
		p.expr(e.X)
		p.w(" " + e.P.String() + " " + e.Op.Coq + " ")
		p.expr(e.Y)
		p.w(")")
	default:
		panic(fmt.Sprint("bad kind ", e.K))
	}
}

func (p *printer) stmts(l []*S) {
	p.w("[")
	for i, s := range l {
		if i > 0 {
			p.w("; ")
		}
		p.stmt(s)
	}
	p.w("]")
}

func (p *printer) stmt(s *S) {
	p.starts = append(p.starts, s.Start)
	switch s.K {
	case SAssign:
		p.w("(AssignStmt ")
		p.expr(s.X)
		p.w(" " + s.P.String() + " " + s.Op.Coq + " ")
		p.expr(s.Y)
		p.w(")")
	case SBranch:
		p.w("(BranchStmt " + s.P.String() + " " + s.Op.Coq + ")")
	case SDef:
		p.w("(DefStmt " + s.P.String() + " " + s.P2.String() + " " + coqString(s.Name) + " " + s.P3.String() + " ")
		p.list(s.Params)
		p.w(" " + p.bit(s.TC) + " " + s.P4.String() + " ")
		p.stmts(s.Body)
		p.w(")")
	case SExpr:
		p.w("(ExprStmt ")
		p.expr(s.X)
		p.w(")")
	case SFor:
		p.w("(ForStmt " + s.P.String() + " ")
		p.expr(s.X)
		p.w(" ")
		p.expr(s.Y)
		p.w(" ")
		p.stmts(s.Body)
		p.w(")")
	case SWhile:
		p.w("(WhileStmt " + s.P.String() + " ")
		p.expr(s.X)
		p.w(" ")
		p.stmts(s.Body)
		p.w(")")
	case SIf:
		p.w("(IfStmt " + s.P.String() + " ")
		p.expr(s.X)
		p.w(" ")
		p.stmts(s.Body)
		p.w(" [")
		for i, el := range s.Elifs {
			if i > 0 {
				p.w("; ")
			}
			p.starts = append(p.starts, el.P) // the nested IfStmt of the Go tree starts at its `elif`
			p.w("(" + el.P.String() + ", ")
			p.expr(el.Cond)
			p.w(", ")
			p.stmts(el.Body)
			p.w(")")
		}
		p.w("] ")
		if s.HasElse {
			p.w("(Some (" + s.ElseP.String() + ", ")
			p.stmts(s.Else)
			p.w("))")
		} else {
			p.w("None")
		}
		p.w(")")
	case SLoad:
		p.w("(LoadStmt " + s.P.String() + " " + s.P2.String() + " " + s.P3.String() + " " + coqBytes(s.Module.Bytes) + " [")
		for i, n := range s.Names {
			if i > 0 {
				p.w("; ")
			}
			if n.Alias == "" {
				p.w("(None, ")
			} else {
				p.w("(Some (" + n.AliasP.String() + "," + coqString(n.Alias) + "), ")
			}
			p.w(n.StrP.String() + ", " + coqBytes(n.From.Bytes) + ")")
		}
		p.w("] " + p.bit(s.TC) + " " + s.P4.String() + ")")
	case SReturn:
		p.w("(ReturnStmt " + s.P.String() + " ")
		p.opt(s.X)
		p.w(")")
	default:
		panic(fmt.Sprint("bad stmt kind ", s.K))
	}
}

// ---- measures ----

func exprSize(e *E) (size, depth int) {
	if e == nil {
		return 0, 0
	}
	size, depth = 1, 0
	add := func(c *E) {
		if c == nil {
			return
		}
		s, d := exprSize(c)
		size += s
		if d > depth {
			depth = d
		}
	}
	add(e.X)
	add(e.Y)
	add(e.Z)
	add(e.Lo)
	add(e.Hi)
	add(e.Step)
	for _, c := range e.List {
		add(c)
	}
	return size, depth + 1
}

func stmtsSize(l []*S) (size, depth int) {
	for _, s := range l {
		sz, d := 1, 0
		addE := func(e *E) {
			a, b := exprSize(e)
			sz += a
			if b > d {
				d = b
			}
		}
		addS := func(b []*S) {
			a, c := stmtsSize(b)
			sz += a
			if c > d {
				d = c
			}
		}
		addE(s.X)
		addE(s.Y)
		for _, p := range s.Params {
			addE(p)
		}
		addS(s.Body)
		for _, el := range s.Elifs {
			addE(el.Cond)
			addS(el.Body)
		}
		addS(s.Else)
		size += sz
		if d+1 > depth {
			depth = d + 1
		}
	}
	return
}

// walkE calls f on every expression node.
func walkE(e *E, f func(*E)) {
	if e == nil {
		return
	}
	f(e)
	walkE(e.X, f)
	walkE(e.Y, f)
	walkE(e.Z, f)
	walkE(e.Lo, f)
	walkE(e.Hi, f)
	walkE(e.Step, f)
	for _, c := range e.List {
		walkE(c, f)
	}
}

func walkS(l []*S, fs func(*S), fe func(*E)) {
	for _, s := range l {
		fs(s)
		walkE(s.X, fe)
		walkE(s.Y, fe)
		for _, p := range s.Params {
			walkE(p, fe)
		}
		walkS(s.Body, fs, fe)
		for _, el := range s.Elifs {
			walkE(el.Cond, fe)
			walkS(el.Body, fs, fe)
		}
		walkS(s.Else, fs, fe)
	}
}
