package main

// Renderer: tree -> text with random layout, recording for every node where
// its tokens went, and producing the renderer's own token list (including the
// NEWLINE / INDENT / OUTDENT / EOF tokens the layout implies).

import (
	"strings"
	"unicode/utf8"

	"verifharness/internal/hx"
)

type rtok struct {
	coq    string // token constructor with its value, e.g. `IDENT "a"`, `PLUS`
	pos    Pos
	raw    string
	layout bool // NEWLINE INDENT OUTDENT EOF
}

type style struct {
	spaces   int // 0 minimal, 1 one space everywhere, 2 random 0..3 spaces/tabs
	pBreak   int // percent: line break between tokens inside brackets
	pCont    int // percent: backslash continuation between tokens
	pComment int // percent: comment before a line end
	pBlank   int // percent: blank / comment-only line before a statement line
	tabs     bool
	nl       string
	finalNL  bool
	uniText  bool // non-ASCII runes in comments
	indent   int  // 0: random per block; else fixed kind
}

func randStyle(r *hx.Rand) style {
	st := style{nl: "\n", finalNL: true}
	switch x := r.Intn(10); {
	case x < 3:
		st.spaces = 1
	case x < 5:
		st.spaces = 0
	default:
		st.spaces = 2
	}
	if r.Intn(3) == 0 {
		st.pBreak = hx.Pick(r, []int{3, 10, 30})
	}
	if r.Intn(4) == 0 {
		st.pCont = hx.Pick(r, []int{2, 8, 20})
	}
	if r.Intn(3) == 0 {
		st.pComment = hx.Pick(r, []int{10, 40})
	}
	if r.Intn(3) == 0 {
		st.pBlank = hx.Pick(r, []int{10, 40})
	}
	st.tabs = r.Intn(4) == 0
	switch x := r.Intn(20); {
	case x < 3:
		st.nl = "\r\n"
	case x == 3:
		st.nl = "\r"
	}
	st.finalNL = r.Intn(5) != 0
	st.uniText = r.Intn(3) == 0
	return st
}

type rend struct {
	r         *hx.Rand
	st        style
	buf       []byte
	line, col int
	toks      []rtok
	real      []int    // indices in toks of the non-layout tokens
	pending   []string // INDENT / OUTDENT waiting for the position of the next token
	depth     int      // bracket nesting
	indents   int      // block nesting
	lineStart bool     // nothing but indentation on this logical line yet
	prevRaw   string
	prevNum   bool
	feat      map[string]int
}

func newRend(r *hx.Rand, st style) *rend {
	return &rend{r: r, st: st, line: 1, col: 1, lineStart: true, feat: map[string]int{}}
}

func (r *rend) pos() Pos { return Pos{r.line, r.col} }

func (r *rend) coin(pct int) bool { return pct > 0 && r.r.Intn(100) < pct }

// write appends text and advances the position the way the scanner counts:
// one column per rune, CR LF / LF / CR each one line end.
func (r *rend) write(s string) {
	r.buf = append(r.buf, s...)
	for i := 0; i < len(s); {
		c := s[i]
		switch {
		case c == '\r':
			if i+1 < len(s) && s[i+1] == '\n' {
				i++
			}
			i++
			r.line++
			r.col = 1
		case c == '\n':
			i++
			r.line++
			r.col = 1
		case c < utf8.RuneSelf:
			i++
			r.col++
		default:
			_, sz := utf8.DecodeRuneInString(s[i:])
			i += sz
			r.col++
		}
	}
}

func isWordByte(c byte) bool {
	return c == '_' || '0' <= c && c <= '9' || 'a' <= c && c <= 'z' || 'A' <= c && c <= 'Z' || c >= utf8.RuneSelf
}

var punctTokens = []string{"+", "-", "*", "/", "//", "%", "=", "+=", "-=", "*=", "/=", "//=", "%=", "==", "!=", "^", "<", ">",
	"<<", ">>", "&", "|", "^=", "<=", ">=", "<<=", ">>=", "&=", "|=", ".", ",", ";", ":", "~", "**", "(", ")", "[", "]", "{", "}"}

// needSpace: would the two adjacent token texts scan differently when
// written without a separator?
func needSpace(a, b string, aNum bool) bool {
	if a == "" || b == "" {
		return false
	}
	la, fb := a[len(a)-1], b[0]
	if isWordByte(la) && isWordByte(fb) {
		return true
	}
	if aNum && (isWordByte(fb) || fb == '.') {
		return true // 1 .real, 1. else, 0 x
	}
	if (a == "r" || a == "b" || a == "rb") && (fb == '"' || fb == '\'') {
		return true
	}
	if a == "." && '0' <= fb && fb <= '9' {
		return true
	}
	if !isWordByte(la) && !isWordByte(fb) {
		ab := a + b
		for _, t := range punctTokens {
			if len(t) > len(a) && strings.HasPrefix(ab, t) && strings.HasPrefix(t, a) {
				return true
			}
		}
	}
	return false
}

func (r *rend) randWS(max int) string {
	n := r.r.Intn(max + 1)
	var sb strings.Builder
	for i := 0; i < n; i++ {
		if r.st.tabs && r.r.Intn(3) == 0 {
			sb.WriteByte('\t')
		} else {
			sb.WriteByte(' ')
		}
	}
	return sb.String()
}

var commentWords = []string{"todo", "x = 1", "if", "\"", "'''", "(", "]", "\\", "#", "fix: me", ""}
var commentUni = []string{"é", "日本", "😀", "→"}

func (r *rend) comment() string {
	var sb strings.Builder
	sb.WriteByte('#')
	for i, n := 0, r.r.Intn(4); i < n; i++ {
		if r.st.uniText && r.r.Intn(3) == 0 {
			sb.WriteString(hx.Pick(r.r, commentUni))
		} else {
			sb.WriteString(hx.Pick(r.r, commentWords))
		}
		if r.r.Bool() {
			sb.WriteByte(' ')
		}
	}
	r.feat["comment"]++
	return sb.String()
}

// trailing writes optional spaces and an optional comment before a line end.
func (r *rend) trailing() {
	if r.st.spaces == 2 && r.r.Intn(4) == 0 {
		r.write(r.randWS(3))
	}
	if r.coin(r.st.pComment) {
		if r.st.spaces == 1 {
			r.write("  ")
		}
		r.write(r.comment())
	}
}

// blankLines writes blank / comment-only lines with arbitrary indentation.
func (r *rend) blankLines(pct int) {
	for n := 0; n < 3 && r.coin(pct); n++ {
		r.write(r.randWS(9))
		if r.r.Bool() {
			r.write(r.comment())
		}
		r.write(r.st.nl)
		r.feat["blankline"]++
	}
}

// gap writes the separation before the next token.
func (r *rend) gap(next string) {
	if r.lineStart {
		return
	}
	need := needSpace(r.prevRaw, next, r.prevNum)
	x := r.r.Intn(100)
	switch {
	case r.depth > 0 && x < r.st.pBreak:
		r.trailing()
		r.write(r.st.nl)
		r.blankLines(20)
		r.write(r.randWS(12))
		r.feat["bracket-linebreak"]++
		return
	case x >= r.st.pBreak && x < r.st.pBreak+r.st.pCont:
		for {
			r.write(r.randWS(2))
			r.write("\\" + r.st.nl)
			r.feat["backslash-continuation"]++
			if r.r.Intn(6) != 0 {
				break
			}
		}
		r.write(r.randWS(6))
		return
	}
	n := 0
	switch r.st.spaces {
	case 1:
		n = 1
	case 2:
		if r.r.Bool() {
			n = r.r.Intn(4)
		}
	}
	if need && n == 0 {
		n = 1
	}
	if n == 0 {
		r.feat["tokens-adjacent"]++
	}
	for i := 0; i < n; i++ {
		if r.st.tabs && r.r.Intn(3) == 0 {
			r.write("\t")
			r.feat["tab-between-tokens"]++
		} else {
			r.write(" ")
		}
	}
}

func (r *rend) flushPending(p Pos) {
	for _, k := range r.pending {
		r.toks = append(r.toks, rtok{coq: k, pos: p, layout: true})
	}
	r.pending = r.pending[:0]
}

// tokn emits one token; num marks numeric literals (for needSpace).
func (r *rend) tokn(coq, raw string, num bool) Pos {
	r.gap(raw)
	p := r.pos()
	r.flushPending(p)
	r.real = append(r.real, len(r.toks))
	r.toks = append(r.toks, rtok{coq: coq, pos: p, raw: raw})
	r.write(raw)
	r.prevRaw, r.prevNum, r.lineStart = raw, num, false
	switch raw {
	case "(", "[", "{":
		r.depth++
	case ")", "]", "}":
		r.depth--
	}
	return p
}

func (r *rend) tok(coq, raw string) Pos { return r.tokn(coq, raw, false) }
func (r *rend) op(o *OpInfo) Pos        { return r.tokn(o.Coq, o.Text, false) }

func (r *rend) identTok(name string) Pos { return r.tok("IDENT "+coqString(name), name) }

func (r *rend) litTok(l *LitV) Pos {
	r.feat[l.Feat]++
	return r.tokn(l.tokCoq(), l.Src, l.Cls == "int" || l.Cls == "float")
}

func (r *rend) commaList(l []*E, tc bool) {
	for i, x := range l {
		if i > 0 {
			r.tok("COMMA", ",")
		}
		r.expr(x)
	}
	if tc {
		r.tok("COMMA", ",")
		r.feat["trailing-comma"]++
	}
}

func (r *rend) expr(e *E) {
	mark := len(r.real)
	switch e.K {
	case KIdent:
		e.P = r.identTok(e.Name)
	case KLit:
		e.P = r.litTok(e.Lit)
	case KParen:
		e.P = r.tok("LPAREN", "(")
		r.expr(e.X)
		e.P2 = r.tok("RPAREN", ")")
	case KCall:
		r.expr(e.X)
		e.P = r.tok("LPAREN", "(")
		r.commaList(e.List, e.TC)
		e.P2 = r.tok("RPAREN", ")")
	case KDot:
		r.expr(e.X)
		e.P = r.tok("DOT", ".")
		e.P2 = r.identTok(e.Name)
	case KIndex:
		r.expr(e.X)
		e.P = r.tok("LBRACK", "[")
		r.expr(e.Y)
		e.P2 = r.tok("RBRACK", "]")
	case KSlice:
		r.expr(e.X)
		e.P = r.tok("LBRACK", "[")
		if e.Lo != nil {
			r.expr(e.Lo)
		}
		r.tok("COLON", ":")
		if e.Hi != nil {
			r.expr(e.Hi)
		}
		if e.Colon2 {
			r.tok("COLON", ":")
			if e.Step != nil {
				r.expr(e.Step)
			}
		}
		e.P2 = r.tok("RBRACK", "]")
	case KList:
		e.P = r.tok("LBRACK", "[")
		r.commaList(e.List, e.TC)
		e.P2 = r.tok("RBRACK", "]")
	case KDict:
		e.P = r.tok("LBRACE", "{")
		r.commaList(e.List, e.TC)
		e.P2 = r.tok("RBRACE", "}")
	case KDictEntry:
		r.expr(e.X)
		e.P = r.tok("COLON", ":")
		r.expr(e.Y)
	case KComp:
		if e.Curly {
			e.P = r.tok("LBRACE", "{")
		} else {
			e.P = r.tok("LBRACK", "[")
		}
		r.expr(e.X)
		for _, c := range e.List {
			r.expr(c)
		}
		if e.Curly {
			e.P2 = r.tok("RBRACE", "}")
		} else {
			e.P2 = r.tok("RBRACK", "]")
		}
	case KForClause:
		e.P = r.tok("FOR", "for")
		r.expr(e.X)
		e.P2 = r.tok("IN", "in")
		r.expr(e.Y)
	case KIfClause:
		e.P = r.tok("IF", "if")
		r.expr(e.X)
	case KLambda:
		e.P = r.tok("LAMBDA", "lambda")
		r.commaList(e.List, false)
		r.tok("COLON", ":")
		r.expr(e.X)
	case KCond:
		r.expr(e.X)
		e.P = r.tok("IF", "if")
		r.expr(e.Y)
		e.P2 = r.tok("ELSE", "else")
		r.expr(e.Z)
	case KEmptyTuple:
		e.P = r.tok("LPAREN", "(")
		e.P2 = r.tok("RPAREN", ")")
	case KTuple:
		r.commaList(e.List, e.TC)
	case KUnary:
		e.P = r.op(e.Op)
		if e.X != nil {
			r.expr(e.X)
		}
	case KBinary:
		r.expr(e.X)
		if e.Op == opNotIn {
			// two tokens; the parser reports the position of `in` as OpPos
			r.tok("NOT", "not")
			e.P = r.tok("IN", "in")
		} else {
			e.P = r.op(e.Op)
		}
		r.expr(e.Y)
	}
	e.Start = r.toks[r.real[mark]].pos
	r.feat["node:"+kindNames[e.K]]++
	if e.K == KBinary || e.K == KUnary {
		r.feat["op:"+e.Op.Coq]++
	}
}

// ---- statements ----

func (r *rend) layoutTok(kind string, p Pos) {
	r.toks = append(r.toks, rtok{coq: kind, pos: p, layout: true})
}

// beginLine starts a statement line with the block's leading whitespace.
func (r *rend) beginLine(ws string) {
	r.blankLines(r.st.pBlank)
	if strings.Contains(ws, "\t") || len(ws) >= 8 {
		if r.r.Intn(8) == 0 {
			if alt := equivalentWS(ws); alt != ws {
				ws = alt
				r.feat["indent-equivalent-spelling"]++
			}
		}
	}
	r.write(ws)
	r.lineStart = true
	r.prevRaw = ""
}

// endLine ends a logical line. last: nothing follows in the file.
func (r *rend) endLine(last bool) {
	r.trailing()
	if last && !r.st.finalNL {
		r.feat["no-final-newline"]++
		if r.indents > 0 {
			r.layoutTok("NEWLINE", r.pos()) // the scanner supplies it before the OUTDENTs
		}
		return
	}
	r.layoutTok("NEWLINE", r.pos())
	r.write(r.st.nl)
	if last {
		r.blankLines(r.st.pBlank)
		if r.coin(r.st.pBlank) { // a last blank / comment line without line end
			r.write(r.randWS(5))
			if r.r.Bool() {
				r.write(r.comment())
			}
		}
	}
}

// wsCol is the indentation the scanner attributes to a leading-whitespace
// string: a space counts 1, a tab advances to 8 - (characters so far) mod 8.
func wsCol(ws string) int {
	col := 0
	for i := 0; i < len(ws); i++ {
		if ws[i] == '\t' {
			col += 8 - i%8
		} else {
			col++
		}
	}
	return col
}

// equivalentWS returns a different spelling with the same wsCol: tabs
// expanded to spaces, or eight leading spaces folded into a tab.
func equivalentWS(ws string) string {
	if strings.Contains(ws, "\t") {
		return strings.Repeat(" ", wsCol(ws))
	}
	if len(ws) >= 8 {
		return "\t" + ws[8:]
	}
	return ws
}

func (r *rend) moreWS() string {
	n := 1 + r.r.Intn(8)
	if r.r.Intn(3) != 0 {
		n = hx.Pick(r.r, []int{2, 4, 4, 4, 8, 1})
	}
	var sb strings.Builder
	switch x := r.r.Intn(10); {
	case x < 6:
		sb.WriteString(strings.Repeat(" ", n))
	case x < 8:
		sb.WriteString(strings.Repeat("\t", 1+r.r.Intn(2)))
		r.feat["indent-tabs"]++
	default:
		for i := 0; i < n; i++ {
			if r.r.Intn(3) == 0 {
				sb.WriteByte('\t')
			} else {
				sb.WriteByte(' ')
			}
		}
		r.feat["indent-mixed"]++
	}
	return sb.String()
}

func (r *rend) small(s *S) {
	mark := len(r.real)
	switch s.K {
	case SAssign:
		r.expr(s.X)
		s.P = r.op(s.Op)
		r.expr(s.Y)
		r.feat["op:"+s.Op.Coq]++
	case SBranch:
		s.P = r.op(s.Op)
		r.feat["op:"+s.Op.Coq]++
	case SExpr:
		r.expr(s.X)
	case SReturn:
		s.P = r.tok("RETURN", "return")
		if s.X != nil {
			r.expr(s.X)
		}
	case SLoad:
		s.P = r.tok("LOAD", "load")
		s.P2 = r.tok("LPAREN", "(")
		s.P3 = r.litTok(s.Module)
		for i := range s.Names {
			n := &s.Names[i]
			r.tok("COMMA", ",")
			if n.Alias != "" {
				n.AliasP = r.identTok(n.Alias)
				r.tok("EQ", "=")
				r.feat["load-alias"]++
			}
			n.StrP = r.litTok(n.From)
		}
		if s.TC {
			r.tok("COMMA", ",")
			r.feat["trailing-comma"]++
		}
		s.P4 = r.tok("RPAREN", ")")
	default:
		panic("not a small statement")
	}
	s.Start = r.toks[r.real[mark]].pos
	r.feat["stmt:"+skindNames[s.K]]++
}

func (r *rend) simpleLine(l []*S, last bool) {
	for i, s := range l {
		if i > 0 {
			r.tok("SEMI", ";")
			r.feat["semicolon"]++
		}
		r.small(s)
	}
	if r.r.Intn(6) == 0 {
		r.tok("SEMI", ";")
		r.feat["trailing-semicolon"]++
	}
	r.endLine(last)
}

func (r *rend) suite(body []*S, ws string, last bool) {
	r.tok("COLON", ":")
	allSmall := true
	for _, s := range body {
		allSmall = allSmall && s.small()
	}
	if allSmall && r.r.Intn(3) == 0 {
		r.feat["suite-inline"]++
		r.simpleLine(body, last)
		return
	}
	r.feat["suite-block"]++
	r.endLine(false)
	r.pending = append(r.pending, "INDENT")
	r.indents++
	r.block(body, ws+r.moreWS(), last)
	r.indents--
	r.pending = append(r.pending, "OUTDENT")
}

func (r *rend) compound(s *S, ws string, last bool) {
	mark := len(r.real)
	switch s.K {
	case SDef:
		s.P = r.tok("DEF", "def")
		s.P2 = r.identTok(s.Name)
		s.P3 = r.tok("LPAREN", "(")
		r.commaList(s.Params, s.TC)
		s.P4 = r.tok("RPAREN", ")")
		r.suite(s.Body, ws, last)
	case SFor:
		s.P = r.tok("FOR", "for")
		r.expr(s.X)
		r.tok("IN", "in")
		r.expr(s.Y)
		r.suite(s.Body, ws, last)
	case SWhile:
		s.P = r.tok("WHILE", "while")
		r.expr(s.X)
		r.suite(s.Body, ws, last)
	case SIf:
		s.P = r.tok("IF", "if")
		r.expr(s.X)
		r.suite(s.Body, ws, last && len(s.Elifs) == 0 && !s.HasElse)
		for i := range s.Elifs {
			el := &s.Elifs[i]
			r.beginLine(ws)
			el.P = r.tok("ELIF", "elif")
			r.expr(el.Cond)
			r.suite(el.Body, ws, last && i == len(s.Elifs)-1 && !s.HasElse)
			r.feat["elif"]++
		}
		if s.HasElse {
			r.beginLine(ws)
			s.ElseP = r.tok("ELSE", "else")
			r.suite(s.Else, ws, last)
			r.feat["else"]++
		}
	}
	s.Start = r.toks[r.real[mark]].pos
	r.feat["stmt:"+skindNames[s.K]]++
}

func (r *rend) block(l []*S, ws string, last bool) {
	for i := 0; i < len(l); {
		s := l[i]
		r.beginLine(ws)
		if s.small() {
			j := i + 1
			for j < len(l) && l[j].small() && r.r.Intn(4) == 0 {
				j++
			}
			r.simpleLine(l[i:j], last && j == len(l))
			i = j
		} else {
			r.compound(s, ws, last && i == len(l)-1)
			i++
		}
	}
}

// finish appends the pending OUTDENTs and EOF at the end position.
func (r *rend) finish() {
	p := r.pos()
	r.flushPending(p)
	r.layoutTok("EOF", p)
}

// renderExpr lays out an expression as ParseExpr input.
func (r *rend) renderExpr(e *E) {
	r.blankLines(r.st.pBlank)
	r.expr(e)
	r.trailing()
	if r.st.finalNL {
		r.layoutTok("NEWLINE", r.pos())
		r.write(r.st.nl)
		r.blankLines(r.st.pBlank)
	} else {
		r.feat["no-final-newline"]++
	}
	r.finish()
}

func (r *rend) renderFile(l []*S) {
	if len(l) == 0 {
		r.blankLines(60)
	} else {
		r.block(l, "", true)
	}
	r.finish()
}

func (r *rend) tokensCoq() string {
	var sb strings.Builder
	sb.WriteByte('[')
	for i, t := range r.toks {
		if i > 0 {
			sb.WriteString("; ")
		}
		sb.WriteString("(" + t.coq + "," + t.pos.String() + ")")
	}
	sb.WriteByte(']')
	return sb.String()
}
