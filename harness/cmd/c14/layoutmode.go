package main

// -mode layout: random physical-line structures for the indentation
// algorithm.  Only the scanner is run.

import (
	"strings"

	"go.starlark.net/syntax"

	"verifharness/internal/hx"
)

type LayoutLine struct {
	WS    string `json:"ws"`
	Blank bool   `json:"blank"` // empty / only whitespace / only a comment
	Depth int    `json:"depth"` // bracket nesting at the start of the line
	Cont  bool   `json:"cont"`  // previous physical line ended with a backslash continuation
	Text  string `json:"text"`  // what follows the leading whitespace
}

type LayoutCase struct {
	Kind         string       `json:"kind"`
	ID           int          `json:"id"`
	Src          string       `json:"src"`
	Lines        []LayoutLine `json:"lines"`
	FinalNewline bool         `json:"final_newline"`
	NL           string       `json:"nl"`
	Events       string       `json:"events"`
	Err          string       `json:"err"`
	Coq          bool         `json:"coq"`
}

var wildWS = []string{"", "", " ", "  ", "    ", "        ", "\t", " \t", "\t ", "\t\t", "  \t", "\t  ", "       \t", "   \t \t", "         ", "\t\t\t"}
var moreWS = []string{" ", "  ", "  ", "    ", "    ", "        ", "\t", "\t", " \t", "\t ", "\t\t", "   ", "       "}

func projectEvents(toks []syntax.VerifToken) string {
	var sb strings.Builder
	inT := false
	for _, t := range toks {
		c := byte('T')
		switch t.Tok {
		case syntax.NEWLINE:
			c = 'N'
		case syntax.INDENT:
			c = 'I'
		case syntax.OUTDENT:
			c = 'O'
		case syntax.EOF:
			c = 'E'
		}
		if c == 'T' {
			if !inT {
				sb.WriteByte('T')
			}
			inT = true
			continue
		}
		inT = false
		sb.WriteByte(c)
	}
	return sb.String()
}

func genLayout(r *hx.Rand) ([]LayoutLine, bool, string) {
	n := 1 + r.Intn(6)
	if r.Intn(3) == 0 {
		n = 6 + r.Intn(20)
	}
	nl := "\n"
	if r.Intn(12) == 0 {
		nl = hx.Pick(r, []string{"\r\n", "\r"})
	}
	stack := []string{""} // leading-whitespace strings of the open blocks
	depth := 0
	cont := false
	pWild := hx.Pick(r, []int{0, 0, 5, 20})  // percent of code lines with arbitrary indentation
	pBad := hx.Pick(r, []int{0, 0, 4, 15})   // percent inconsistent dedents
	pBlank := hx.Pick(r, []int{0, 10, 30})   // percent blank / comment lines
	pBracket := hx.Pick(r, []int{0, 10, 30}) // percent lines opening a bracket
	pCont := hx.Pick(r, []int{0, 0, 8, 20})  // percent lines ending in a continuation
	firstIndented := r.Intn(12) == 0
	var lines []LayoutLine
	wantIndent := false
	for i := 0; i < n; i++ {
		ln := LayoutLine{Depth: depth, Cont: cont}
		cont = false
		x := r.Intn(100)
		// blank / comment lines, wild indentation
		if x < pBlank {
			ln.WS = hx.Pick(r, wildWS)
			ln.Blank = true
			switch r.Intn(3) {
			case 0:
				ln.Text = "# c"
			case 1:
				ln.Text = "#"
			}
			lines = append(lines, ln)
			// (a blank line after a continuation ends the logical line; it does not continue)
			continue
		}
		top := ""
		if len(stack) > 0 {
			top = stack[len(stack)-1]
		}
		switch {
		case ln.Cont || depth > 0:
			ln.WS = hx.Pick(r, wildWS)
		case len(lines) == 0 && firstIndented:
			ln.WS = hx.Pick(r, moreWS)
			stack = append(stack, ln.WS)
		case r.Intn(100) < pWild:
			ln.WS = hx.Pick(r, wildWS)
			stack = nil // no longer tracked; the scanner decides
		case stack == nil:
			ln.WS = hx.Pick(r, wildWS)
		case wantIndent && r.Intn(10) != 0:
			ln.WS = top + hx.Pick(r, moreWS)
			stack = append(stack, ln.WS)
		case len(stack) > 1 && r.Intn(100) < pBad:
			// inconsistent dedent: strictly between two enclosing levels, or a
			// different spelling of about the same width
			parent := stack[len(stack)-2]
			extra := top[len(parent):]
			switch {
			case len(extra) > 1 && r.Bool():
				ln.WS = parent + extra[:1+r.Intn(len(extra)-1)]
			case r.Bool():
				ln.WS = parent + " "
			default:
				ln.WS = strings.ReplaceAll(top, "\t", "    ")
			}
			stack = nil
		case len(stack) > 1 && r.Intn(3) == 0:
			k := r.Intn(len(stack) - 1) // dedent to level k
			stack = stack[:k+1]
			ln.WS = stack[k]
		default:
			ln.WS = top
		}
		wantIndent = false
		// content
		switch y := r.Intn(100); {
		case depth > 0 && y < 45:
			ln.Text = hx.Pick(r, []string{")", "]", "}"})
			depth--
		case depth > 0:
			ln.Text = hx.Pick(r, []string{"1,", "x,", "(", "[2,", "y"})
			depth += strings.Count(ln.Text, "(") + strings.Count(ln.Text, "[")
		case y < pBracket:
			ln.Text = hx.Pick(r, []string{"f(", "x = [", "g(a,", "{", "f(("})
			depth += strings.Count(ln.Text, "(") + strings.Count(ln.Text, "[") + strings.Count(ln.Text, "{")
		case y < pBracket+pCont:
			ln.Text = hx.Pick(r, []string{"x = \\", "y + \\", "\\", "if x: \\"})
			cont = true
		case y < pBracket+pCont+35:
			ln.Text = hx.Pick(r, []string{"if x:", "for x in y:", "def f():", "else:", "while x:"})
			wantIndent = true
		default:
			ln.Text = hx.Pick(r, []string{"x", "pass", "x = 1", "return", "f(x)", "a; b", "x # c", "x  ", "if x: pass"})
		}
		lines = append(lines, ln)
	}
	finalNL := r.Intn(4) != 0
	if cont {
		finalNL = true // a backslash at the very end of the text is a different error (stray backslash)
	}
	return lines, finalNL, nl
}

func modeLayout(n int, fam *hx.Rand) {
	for i := 0; i < n; i++ {
		r := fam.Split()
		lines, finalNL, nl := genLayout(r)
		var sb strings.Builder
		for j, ln := range lines {
			sb.WriteString(ln.WS)
			sb.WriteString(ln.Text)
			if j < len(lines)-1 || finalNL {
				sb.WriteString(nl)
			}
		}
		src := sb.String()
		toks, err := syntax.VerifTokens([]byte(src))
		c := LayoutCase{Kind: "layout", ID: i, Src: src, Lines: lines, FinalNewline: finalNL, NL: nl, Events: projectEvents(toks), Err: errString(err), Coq: true}
		dist["layout:lines:"+bucket(len(lines))]++
		if err != nil {
			if strings.Contains(err.Error(), "unindent") {
				dist["layout:err:unindent"]++
			} else {
				dist["layout:err:OTHER"]++
			}
		} else {
			dist["layout:scanned"]++
		}
		for _, ln := range lines {
			if strings.Contains(ln.WS, "\t") {
				dist["layout:line-with-tab"]++
			}
			if ln.Blank {
				dist["layout:blank-line"]++
			}
			if ln.Cont {
				dist["layout:cont-line"]++
			}
			if ln.Depth > 0 {
				dist["layout:bracket-line"]++
			}
		}
		if !finalNL {
			dist["layout:no-final-newline"]++
		}
		hx.Emit(c)
	}
}
