package main

// Literal generation (value first, then a spelling for it) and the
// independent literal oracles: positional int evaluation with math/big, exact
// decimal -> binary64 with big.Rat, and an unquote written from doc/spec.md.
// Nothing here calls into go.starlark.net/syntax.

import (
	"math"
	"math/big"
	"strings"
	"unicode/utf8"

	"verifharness/internal/hx"
)

const digitsLower = "0123456789abcdef"
const digitsUpper = "0123456789ABCDEF"

// spellDigits writes v >= 0 in the radix, most significant digit first,
// by repeated division (own code; not strconv / big.Int.Text).
func spellDigits(v *big.Int, radix int, upper func() bool) string {
	if v.Sign() == 0 {
		return "0"
	}
	x := new(big.Int).Set(v)
	rad := big.NewInt(int64(radix))
	rem := new(big.Int)
	var rev []byte
	for x.Sign() > 0 {
		x.QuoRem(x, rad, rem)
		d := int(rem.Int64())
		if upper != nil && upper() {
			rev = append(rev, digitsUpper[d])
		} else {
			rev = append(rev, digitsLower[d])
		}
	}
	for i, j := 0, len(rev)-1; i < j; i, j = i+1, j-1 {
		rev[i], rev[j] = rev[j], rev[i]
	}
	return string(rev)
}

// randBits returns a random value with exactly `bits` significant bits
// (bits >= 1), in one of several patterns.
func randBits(r *hx.Rand, bits int, pattern int) *big.Int {
	one := big.NewInt(1)
	top := new(big.Int).Lsh(one, uint(bits-1))
	switch pattern {
	case 0: // all ones
		return new(big.Int).Sub(new(big.Int).Lsh(one, uint(bits)), one)
	case 1: // one followed by zeros
		return top
	}
	v := new(big.Int).Set(top)
	for i := 0; i < bits-1; i++ {
		if r.Bool() {
			v.SetBit(v, i, 1)
		}
	}
	return v
}

func radixPrefix(r *hx.Rand, radix int) string {
	switch radix {
	case 16:
		return hx.Pick(r, []string{"0x", "0x", "0X"})
	case 8:
		return hx.Pick(r, []string{"0o", "0o", "0O"})
	case 2:
		return hx.Pick(r, []string{"0b", "0b", "0B"})
	}
	return ""
}

// genInt makes an int literal that the scanner is required to accept
// (0o / 0b literals are kept below 2^63: larger ones are swept in -mode lit).
func genInt(r *hx.Rand) *LitV {
	radix := 10
	switch x := r.Intn(100); {
	case x < 55:
	case x < 80:
		radix = 16
	case x < 90:
		radix = 8
	default:
		radix = 2
	}
	var bits int
	switch x := r.Intn(100); {
	case x < 50:
		bits = 1 + r.Intn(8)
	case x < 70:
		bits = 9 + r.Intn(24)
	case x < 85:
		bits = hx.Pick(r, []int{33, 48, 62, 63, 63, 64, 64, 65})
	default:
		bits = 66 + r.Intn(135)
	}
	if (radix == 8 || radix == 2) && bits > 63 {
		bits = 63
	}
	var v *big.Int
	if r.Intn(12) == 0 {
		v = new(big.Int)
		bits = 0
	} else {
		v = randBits(r, bits, r.Intn(4))
	}
	var upper func() bool
	if radix == 16 {
		switch r.Intn(3) {
		case 0:
		case 1:
			upper = func() bool { return true }
		default:
			upper = r.Bool
		}
	}
	src := radixPrefix(r, radix)
	if radix != 10 && r.Intn(6) == 0 {
		src += strings.Repeat("0", 1+r.Intn(3))
	}
	src += spellDigits(v, radix, upper)
	feat := "int:radix" + itoa(radix)
	if bits > 63 {
		feat += ":big"
	}
	return &LitV{Cls: "int", Int: v, Src: src, Feat: feat}
}

func itoa(i int) string { return big.NewInt(int64(i)).String() }

// decimalValue evaluates a digit string positionally.
func digitsValue(s string, radix int) (*big.Int, bool) {
	v := new(big.Int)
	rad := big.NewInt(int64(radix))
	if len(s) == 0 {
		return nil, false
	}
	for i := 0; i < len(s); i++ {
		c := s[i]
		var d int
		switch {
		case '0' <= c && c <= '9':
			d = int(c - '0')
		case 'a' <= c && c <= 'f':
			d = int(c-'a') + 10
		case 'A' <= c && c <= 'F':
			d = int(c-'A') + 10
		default:
			return nil, false
		}
		if d >= radix {
			return nil, false
		}
		v.Mul(v, rad)
		v.Add(v, big.NewInt(int64(d)))
	}
	return v, true
}

// floatBits computes the binary64 nearest to  (int.frac) * 10^exp  exactly
// (big.Rat.Float64 rounds to nearest even).  ok=false on overflow to infinity.
func floatBits(intDigits, fracDigits string, exp int) (bits uint64, ok bool) {
	m, good := digitsValue(intDigits+fracDigits, 10)
	if !good {
		return 0, false
	}
	e := exp - len(fracDigits)
	rat := new(big.Rat).SetInt(m)
	p := new(big.Int).Exp(big.NewInt(10), big.NewInt(int64(abs(e))), nil)
	if e >= 0 {
		rat.Mul(rat, new(big.Rat).SetInt(p))
	} else {
		rat.Quo(rat, new(big.Rat).SetInt(p))
	}
	f, _ := rat.Float64()
	if math.IsInf(f, 0) {
		return 0, false
	}
	return math.Float64bits(f), true
}

func abs(x int) int {
	if x < 0 {
		return -x
	}
	return x
}

func randDigits(r *hx.Rand, n int) string {
	b := make([]byte, n)
	for i := range b {
		b[i] = byte('0' + r.Intn(10))
	}
	return string(b)
}

// genFloat makes a float literal in one of the spec's forms, magnitude kept
// well inside the normal range so the exact oracle applies.
func genFloat(r *hx.Rand) *LitV {
	for {
		var ip, fp string
		hasDot, hasExp := false, false
		form := r.Intn(7)
		switch form {
		case 0: // 1.
			ip, hasDot = randDigits(r, 1+r.Intn(4)), true
		case 1: // .5
			fp, hasDot = randDigits(r, 1+r.Intn(4)), true
		case 2: // 1.5
			ip, fp, hasDot = randDigits(r, 1+r.Intn(6)), randDigits(r, 1+r.Intn(6)), true
		case 3: // 1e5
			ip, hasExp = randDigits(r, 1+r.Intn(4)), true
		case 4: // 1.5e5
			ip, fp, hasDot, hasExp = randDigits(r, 1+r.Intn(4)), randDigits(r, 1+r.Intn(4)), true, true
		case 5: // .5e5
			fp, hasDot, hasExp = randDigits(r, 1+r.Intn(4)), true, true
		case 6: // 1.e5
			ip, hasDot, hasExp = randDigits(r, 1+r.Intn(4)), true, true
		}
		if r.Intn(15) == 0 && ip != "" {
			ip = randDigits(r, 17+r.Intn(10)) // more digits than a double holds
		}
		src := ip
		if hasDot {
			src += "." + fp
		}
		exp := 0
		if hasExp {
			exp = r.Intn(25)
			if r.Intn(8) == 0 {
				exp = r.Intn(280)
			}
			sign := hx.Pick(r, []string{"", "+", "-"})
			estr := itoa(exp)
			if r.Intn(8) == 0 {
				estr = "0" + estr
			}
			if sign == "-" {
				exp = -exp
			}
			src += hx.Pick(r, []string{"e", "E"}) + sign + estr
		}
		// "0755"-like integer parts are fine here because a '.' or exponent follows.
		bits, ok := floatBits(ip, fp, exp)
		if !ok {
			continue
		}
		// stay away from the subnormal range
		if f := math.Float64frombits(bits); f != 0 && f < 1e-290 {
			continue
		}
		forms := [...]string{"D.", ".D", "D.D", "DeX", "D.DeX", ".DeX", "D.eX"}
		return &LitV{Cls: "float", Bits: bits, Src: src, Feat: "float:" + forms[form]}
	}
}

var plainChars = "abcxyzABC 019_-+*/=<>()[]{}:;,.!?@$%^&|~#"
var nonASCII = []string{"é", "ß", "世", "界", "😀", "ж", " "}

// genString makes a string or bytes literal; nl is the line ending of the
// case (used for escaped / raw newlines inside the literal).
// allowBytes: bytes literals permitted; multiline: newlines permitted.
func genString(r *hx.Rand, nl string, allowBytes, multiline bool) *LitV {
	isBytes := allowBytes && r.Intn(5) == 0
	raw := r.Intn(6) == 0
	quote := hx.Pick(r, []string{`"`, `"`, `'`})
	other := `'`
	if quote == `'` {
		other = `"`
	}
	triple := r.Intn(7) == 0
	var src strings.Builder
	var val []byte
	prefix := ""
	if raw {
		prefix += "r"
	}
	if isBytes {
		prefix += "b"
	}
	src.WriteString(prefix)
	q := quote
	if triple {
		q = quote + quote + quote
	}
	src.WriteString(q)
	n := r.Intn(6)
	if r.Intn(8) == 0 {
		n = 6 + r.Intn(10)
	}
	feat := "str:plain"
	shortOctal := false // previous item was an octal escape with < 3 digits
	plain := func() {
		c := plainChars[r.Intn(len(plainChars))]
		if shortOctal && '0' <= c && c <= '7' {
			c = 'z'
		}
		src.WriteByte(c)
		val = append(val, c)
	}
	for i := 0; i < n; i++ {
		so := shortOctal
		shortOctal = false
		x := r.Intn(100)
		switch {
		case x < 40:
			shortOctal = so
			plain()
			shortOctal = false
		case x < 46: // other kind of quote, plain
			src.WriteString(other)
			val = append(val, other[0])
		case x < 52: // same kind of quote
			if triple {
				// plain, but never three in a row nor next to the closing quotes
				src.WriteString(quote + "a")
				val = append(val, quote[0], 'a')
			} else {
				src.WriteString(`\` + quote)
				if raw {
					val = append(val, '\\')
				}
				val = append(val, quote[0])
			}
			feat = "str:quote"
		case x < 60: // non-ASCII rune
			s := hx.Pick(r, nonASCII)
			src.WriteString(s)
			val = append(val, s...)
			feat = "str:nonascii"
		case x < 64 && multiline: // escaped newline
			src.WriteString(`\` + nl)
			if raw {
				val = append(val, '\\', '\n')
			}
			feat = "str:escnl"
		case x < 70 && multiline && triple: // raw newline
			src.WriteString(nl)
			val = append(val, '\n')
			feat = "str:newline"
		case raw: // backslash pair, kept literally
			c := hx.Pick(r, []byte{'n', 'x', 'q', '\\', '0', 'u', ' '})
			src.WriteByte('\\')
			src.WriteByte(c)
			val = append(val, '\\', c)
			feat = "str:rawbackslash"
		case x < 80: // simple escape
			esc := hx.Pick(r, []string{"a\a", "b\b", "f\f", "n\n", "r\r", "t\t", "v\v", "\\\\", "''", `""`})
			src.WriteString(`\` + esc[:1])
			val = append(val, esc[1])
			feat = "str:esc"
		case x < 87: // octal
			max := 0x7f
			if isBytes {
				max = 0xff
			}
			v := r.Intn(max + 1)
			s := spellDigits(big.NewInt(int64(v)), 8, nil)
			for len(s) < 3 && r.Bool() {
				s = "0" + s
			}
			src.WriteString(`\` + s)
			val = append(val, byte(v))
			shortOctal = len(s) < 3
			feat = "str:octal"
		case x < 94: // hex
			max := 0x7f
			if isBytes {
				max = 0xff
			}
			v := r.Intn(max + 1)
			s := spellDigits(big.NewInt(int64(v)), 16, r.Bool)
			if len(s) < 2 {
				s = "0" + s
			}
			src.WriteString(`\x` + s)
			val = append(val, byte(v))
			feat = "str:hex"
		default: // \u \U (strings only here; bytes literals are swept in -mode lit)
			if isBytes {
				shortOctal = so
				plain()
				shortOctal = false
				break
			}
			var cp int
			for {
				cp = hx.Pick(r, []int{r.Intn(0x80), r.Intn(0x800), r.Intn(0x10000), r.Intn(0x110000)})
				if cp < 0xD800 || cp > 0xDFFF {
					break
				}
			}
			s := spellDigits(big.NewInt(int64(cp)), 16, r.Bool)
			if cp < 0x10000 && r.Bool() {
				src.WriteString(`\u` + strings.Repeat("0", 4-len(s)) + s)
			} else {
				src.WriteString(`\U` + strings.Repeat("0", 8-len(s)) + s)
			}
			val = utf8.AppendRune(val, rune(cp))
			feat = "str:unicode"
		}
	}
	src.WriteString(q)
	cls := "string"
	if isBytes {
		cls = "bytes"
	}
	if triple {
		feat += ":triple"
	}
	if raw {
		feat += ":raw"
	}
	if val == nil {
		val = []byte{}
	}
	return &LitV{Cls: cls, Bytes: val, Src: src.String(), Feat: feat}
}

// ---- the independent unquote (doc/spec.md "String literals") ----

// specUnquote decodes a complete literal text. ok=false: not a literal the
// spec describes. why names the class of the rejection.
func specUnquote(lit string) (val []byte, isBytes bool, ok bool, why string) {
	s := lit
	raw := false
	// prefixes: r, b, rb (exactly these)
	switch {
	case strings.HasPrefix(s, "rb"):
		raw, isBytes, s = true, true, s[2:]
	case strings.HasPrefix(s, "r"):
		raw, s = true, s[1:]
	case strings.HasPrefix(s, "b"):
		isBytes, s = true, s[1:]
	}
	if len(s) < 2 || (s[0] != '"' && s[0] != '\'') {
		return nil, isBytes, false, "prefix"
	}
	q := s[0]
	triple := len(s) >= 6 && s[1] == q && s[2] == q
	var body string
	if triple {
		if !(s[len(s)-1] == q && s[len(s)-2] == q && s[len(s)-3] == q) {
			return nil, isBytes, false, "unterminated"
		}
		body = s[3 : len(s)-3]
	} else {
		if s[len(s)-1] != q {
			return nil, isBytes, false, "unterminated"
		}
		body = s[1 : len(s)-1]
	}
	val = []byte{}
	i := 0
	quotes := 0
	for i < len(body) {
		c := body[i]
		// line endings: LF, CRLF and CR all denote one line feed
		if c == '\n' || c == '\r' {
			if !triple {
				return nil, isBytes, false, "newline"
			}
			if c == '\r' && i+1 < len(body) && body[i+1] == '\n' {
				i++
			}
			i++
			val = append(val, '\n')
			quotes = 0
			continue
		}
		if c == q {
			quotes++
			if !triple || quotes == 3 {
				return nil, isBytes, false, "quote" // closes the literal early
			}
			val = append(val, c)
			i++
			continue
		}
		quotes = 0
		if c != '\\' {
			val = append(val, c)
			i++
			continue
		}
		// backslash
		if i+1 >= len(body) {
			return nil, isBytes, false, "truncated"
		}
		d := body[i+1]
		// an escaped line ending
		if d == '\n' || d == '\r' {
			n := 2
			if d == '\r' && i+2 < len(body) && body[i+2] == '\n' {
				n = 3
			}
			if raw {
				val = append(val, '\\', '\n')
			}
			i += n
			continue
		}
		if raw {
			// no processing: backslash and the next character stand for themselves
			_, sz := utf8.DecodeRuneInString(body[i+1:])
			val = append(val, body[i:i+1+sz]...)
			i += 1 + sz
			continue
		}
		switch d {
		case 'a':
			val = append(val, 7)
		case 'b':
			val = append(val, 8)
		case 'f':
			val = append(val, 12)
		case 'n':
			val = append(val, 10)
		case 'r':
			val = append(val, 13)
		case 't':
			val = append(val, 9)
		case 'v':
			val = append(val, 11)
		case '\\', '\'', '"':
			val = append(val, d)
		case '0', '1', '2', '3', '4', '5', '6', '7':
			n, j := 0, i+1
			for k := 0; k < 3 && j < len(body) && '0' <= body[j] && body[j] <= '7'; k++ {
				n = n*8 + int(body[j]-'0')
				j++
			}
			if n > 255 {
				return nil, isBytes, false, "octal>255"
			}
			if n > 127 && !isBytes {
				return nil, isBytes, false, "octal>127 in string"
			}
			val = append(val, byte(n))
			i = j
			continue
		case 'x':
			if i+4 > len(body) {
				return nil, isBytes, false, "truncated \\x"
			}
			v, good := digitsValue(body[i+2:i+4], 16)
			if !good {
				return nil, isBytes, false, "bad \\x"
			}
			n := int(v.Int64())
			if n > 127 && !isBytes {
				return nil, isBytes, false, "hex>127 in string"
			}
			val = append(val, byte(n))
			i += 4
			continue
		case 'u', 'U':
			sz := 4
			if d == 'U' {
				sz = 8
			}
			if i+2+sz > len(body) {
				return nil, isBytes, false, "truncated \\u"
			}
			v, good := digitsValue(body[i+2:i+2+sz], 16)
			if !good {
				return nil, isBytes, false, "bad \\u"
			}
			n := v.Int64()
			if n > 0x10FFFF {
				return nil, isBytes, false, "code point>10FFFF"
			}
			if 0xD800 <= n && n <= 0xDFFF {
				return nil, isBytes, false, "surrogate"
			}
			val = utf8.AppendRune(val, rune(n))
			i += 2 + sz
			continue
		default:
			return nil, isBytes, false, "invalid escape"
		}
		i += 2
	}
	if triple && quotes > 0 {
		// body ending in the quote character: the literal would have closed earlier
		return nil, isBytes, false, "quote"
	}
	return val, isBytes, true, ""
}
