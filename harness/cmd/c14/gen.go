package main

// Random syntax-tree generator.  It builds an arbitrary tree and inserts Paren
// nodes where the grammar requires them (fit), plus redundant ones.

import (
	"verifharness/internal/hx"
)

type gen struct {
	r        *hx.Rand
	maxDepth int
	nl       string // line ending of the case (strings may contain newlines)
	uni      bool   // Unicode-letter identifiers allowed (Go-side-only cases)
	usedUni  bool
	pParen   int // one in pParen child sites gets a redundant Paren
}

var identPool = []string{"a", "b", "c", "x", "y", "z", "i", "j", "k", "v", "f", "g", "n", "foo", "bar", "baz", "_", "_x", "x1", "T",
	"None", "True", "False", "name_2", "self", "args", "kw", "r", "rb", "b2", "iff", "ina", "note", "orx", "e5", "x0b1", "lambda_", "assert"}
var uniIdents = []string{"é", "变量", "ж1", "naïve", "Ωmega"}

func (g *gen) name() string {
	if g.uni && g.r.Intn(4) == 0 {
		g.usedUni = true
		return hx.Pick(g.r, uniIdents)
	}
	return hx.Pick(g.r, identPool)
}

func (g *gen) ident() *E { return &E{K: KIdent, Name: g.name()} }

func (g *gen) lit() *E {
	var l *LitV
	switch x := g.r.Intn(100); {
	case x < 45:
		l = genInt(g.r)
	case x < 65:
		l = genFloat(g.r)
	default:
		l = genString(g.r, g.nl, true, true)
	}
	return &E{K: KLit, Lit: l}
}

func (g *gen) leaf() *E {
	switch x := g.r.Intn(20); {
	case x < 11:
		return g.ident()
	case x < 18:
		return g.lit()
	case x == 18:
		return &E{K: KEmptyTuple}
	default:
		if g.r.Bool() {
			return &E{K: KList}
		}
		return &E{K: KDict}
	}
}

// ctx describes what a syntactic position admits.
type ctx struct {
	min    int  // minimum level
	nocond bool // "test without conditional": lambda allowed if its body is again no-cond
	// used only by the required-parenthesis analysis of -mode unparen:
	paren bool    // directly inside ( ): everything fits
	name  string  // name of the position
	op    *OpInfo // operand of this binary operator ...
	side  string  // ... on this side ("left" / "right")
}

var (
	ctxExpr   = ctx{min: lvExpr} // bare tuple (>= 2 elements, no trailing comma) allowed
	ctxTest   = ctx{min: lvTest}
	ctxNoCond = ctx{min: 0, nocond: true}
)

func ctxPrec(n int) ctx { return ctx{min: n} }

func fits(e *E, c ctx) bool {
	if c.paren {
		return true
	}
	if e.K == KTuple {
		return c.min <= lvExpr && len(e.List) >= 2 && !e.TC
	}
	if c.nocond && e.K == KLambda {
		return fits(e.X, ctxNoCond)
	}
	return level(e) >= c.min
}

func (g *gen) paren(e *E) *E {
	if e.K == KTuple {
		if len(e.List) == 1 {
			e.TC = true
		} else {
			e.TC = g.r.Intn(3) == 0
		}
	}
	return &E{K: KParen, X: e}
}

// fit wraps e in the Paren nodes the position requires, and sometimes in
// redundant ones.
func (g *gen) fit(e *E, c ctx) *E {
	for g.r.Intn(g.pParen) == 0 {
		e = g.paren(e)
	}
	if !fits(e, c) {
		e = g.paren(e)
	}
	return e
}

// split divides budget b into n non-negative parts.
func (g *gen) split(b, n int) []int {
	parts := make([]int, n)
	for i := 0; i < b; i++ {
		parts[g.r.Intn(n)]++
	}
	return parts
}

// sub generates an expression for a position with context c.
func (g *gen) sub(b, d int, c ctx) *E {
	var e *E
	if c.min <= lvExpr && b >= 2 && g.r.Intn(4) == 0 {
		e = g.tuple(b, d, 2+g.r.Intn(3))
	} else {
		e = g.test(b, d)
	}
	return g.fit(e, c)
}

func (g *gen) tuple(b, d, n int) *E {
	parts := g.split(b, n)
	t := &E{K: KTuple}
	for i := 0; i < n; i++ {
		t.List = append(t.List, g.sub(parts[i], d+1, ctxTest))
	}
	return t
}

// loopVars: primary-with-suffix expressions, bare tuples of them, parenthesised.
func (g *gen) loopVars(b, d int) *E {
	one := func(b int) *E {
		var e *E
		switch x := g.r.Intn(20); {
		case x < 11:
			e = g.ident()
		case x < 13:
			e = &E{K: KDot, X: g.ident(), Name: g.name()}
		case x < 15:
			e = &E{K: KIndex, X: g.ident(), Y: g.sub(b, d+2, ctxExpr)}
		case x < 17 && d < g.maxDepth:
			t := &E{K: KTuple}
			for i, n := 0, 1+g.r.Intn(3); i < n; i++ {
				t.List = append(t.List, g.ident())
			}
			e = g.paren(t)
		case x < 18 && d < g.maxDepth:
			e = &E{K: KList, List: []*E{g.ident(), g.ident()}, TC: g.r.Intn(4) == 0}
		case x < 19:
			e = g.test(b, d+1)
		default:
			e = g.ident()
		}
		return g.fit(e, ctxPrec(lvUnary))
	}
	if g.r.Intn(3) == 0 {
		n := 2 + g.r.Intn(2)
		parts := g.split(b, n)
		t := &E{K: KTuple}
		for i := 0; i < n; i++ {
			t.List = append(t.List, one(parts[i]))
		}
		return t
	}
	return one(b)
}

func (g *gen) params(b, d int) []*E {
	n := g.r.Intn(4)
	if g.r.Intn(10) == 0 {
		n = 4 + g.r.Intn(3)
	}
	var ps []*E
	parts := g.split(b, n+1)
	for i := 0; i < n; i++ {
		switch x := g.r.Intn(20); {
		case x < 9:
			ps = append(ps, g.ident())
		case x < 14:
			ps = append(ps, &E{K: KBinary, Op: opEq, X: g.ident(), Y: g.sub(parts[i], d+1, ctxTest)})
		case x < 16:
			ps = append(ps, &E{K: KUnary, Op: opStar})
		case x < 18:
			ps = append(ps, &E{K: KUnary, Op: opStar, X: g.ident()})
		default:
			ps = append(ps, &E{K: KUnary, Op: opStarStar, X: g.ident()})
		}
	}
	return ps
}

func (g *gen) args(b, d int) []*E {
	n := g.r.Intn(4)
	if b == 0 && g.r.Bool() {
		n = 0
	}
	var as []*E
	parts := g.split(b, n+1)
	for i := 0; i < n; i++ {
		switch x := g.r.Intn(20); {
		case x < 11:
			as = append(as, g.sub(parts[i], d+1, ctxTest))
		case x < 15:
			as = append(as, &E{K: KBinary, Op: opEq, X: g.ident(), Y: g.sub(parts[i], d+1, ctxTest)})
		case x < 18:
			as = append(as, &E{K: KUnary, Op: opStar, X: g.sub(parts[i], d+1, ctxTest)})
		default:
			as = append(as, &E{K: KUnary, Op: opStarStar, X: g.sub(parts[i], d+1, ctxTest)})
		}
	}
	return as
}

func (g *gen) clauses(b, d int) []*E {
	n := 1 + g.r.Intn(3)
	if g.r.Intn(3) != 0 {
		n = 1 + g.r.Intn(2)
	}
	parts := g.split(b, n)
	var cl []*E
	for i := 0; i < n; i++ {
		if i == 0 || g.r.Bool() {
			h := parts[i] / 2
			cl = append(cl, &E{K: KForClause, X: g.loopVars(h, d+1), Y: g.operand(parts[i]-h, d+1, ctxPrec(0), opOr)})
		} else {
			cl = append(cl, &E{K: KIfClause, X: g.nocondTest(parts[i], d+1)})
		}
	}
	return cl
}

// nocondTest generates the operand of a comprehension `if`: the context-dependent
// production "Test without conditional" = lambda whose body is again such a
// test | or-expression.  Every alternative is drawn explicitly, including chains
// of 1..3 directly nested lambdas (their innermost body cannot be an
// unparenthesised conditional).
func (g *gen) nocondTest(b, d int) *E {
	if g.r.Intn(3) != 0 {
		return g.operand(b, d, ctxNoCond, opOr)
	}
	k := 1 + g.r.Intn(3)
	body := g.operand(b/2, d+k, ctxNoCond, opOr)
	for i := 0; i < k; i++ {
		var ps []*E
		if g.r.Intn(3) == 0 {
			ps = g.params(1+g.r.Intn(2), d)
		}
		body = &E{K: KLambda, List: ps, X: body}
	}
	dist["shape:nocond-lambda-chain"]++
	return body
}

func (g *gen) dictEntry(b, d int) *E {
	h := b / 2
	return &E{K: KDictEntry, X: g.sub(h, d+1, ctxTest), Y: g.sub(b-h, d+1, ctxTest)}
}

// pickOp draws a binary operator: precedence level first (so every level is
// as frequent as the crowded comparison level), then an operator of the level.
func (g *gen) pickOp(near *OpInfo) *OpInfo {
	lv := g.r.Intn(10)
	if near != nil && g.r.Intn(3) != 0 {
		np := near.Prec
		if near == opNot {
			np = lvNot
		}
		lv = np - 1 + g.r.Intn(3)
	}
	var ops []*OpInfo
	for _, o := range binaryOps {
		if o.Prec == lv {
			ops = append(ops, o)
		}
	}
	if len(ops) == 0 {
		return hx.Pick(g.r, binaryOps)
	}
	return hx.Pick(g.r, ops)
}

// binary makes a binary-operator node (b nodes below it); with near != nil
// the operator is biased to the precedence levels next to near's, so that
// unparenthesised neighbours in the precedence table meet often.
func (g *gen) binary(b, d int, near *OpInfo) *E {
	op := g.pickOp(near)
	h := g.r.Intn(b + 1)
	lmin := op.Prec
	if op.Prec == lvCmp {
		lmin++ // comparisons do not associate
	}
	return &E{K: KBinary, Op: op, X: g.operand(h, d+1, ctxPrec(lmin), op), Y: g.operand(b-h, d+1, ctxPrec(op.Prec+1), op)}
}

// operand generates the operand of an operator: often another operator
// expression with only the parentheses the grammar requires.
func (g *gen) operand(b, d int, c ctx, parent *OpInfo) *E {
	if b >= 2 && d < g.maxDepth && g.r.Intn(100) < 55 {
		var e *E
		switch x := g.r.Intn(20); {
		case x < 13:
			e = g.binary(b-1, d, parent)
		case x < 15:
			e = &E{K: KUnary, Op: opNot, X: g.operand(b-1, d+1, ctxPrec(lvNot), opNot)}
		case x < 17:
			e = &E{K: KUnary, Op: hx.Pick(g.r, []*OpInfo{opMinus, opPlus, opTilde}), X: g.operand(b-1, d+1, ctxPrec(lvUnary), nil)}
		case x < 19:
			p := g.split(b-1, 3)
			e = &E{K: KCond, X: g.operand(p[0], d+1, ctxPrec(0), opOr), Y: g.operand(p[1], d+1, ctxPrec(0), opOr), Z: g.operand(p[2], d+1, ctxTest, opOr)}
		default:
			h := (b - 1) / 2
			body := g.operand(b-1-h, d+1, ctxTest, opOr)
			if g.r.Intn(3) == 0 {
				body = &E{K: KLambda, X: body}
			}
			e = &E{K: KLambda, List: g.params(h, d), X: body}
		}
		if !fits(e, c) {
			e = g.paren(e)
		}
		return e
	}
	return g.sub(b, d, c)
}

// test generates an arbitrary expression that is not a bare tuple, of about
// b nodes, nesting at most to g.maxDepth.
func (g *gen) test(b, d int) *E {
	if b <= 1 || d >= g.maxDepth {
		return g.leaf()
	}
	b--
	x := g.r.Intn(100)
	switch {
	case x < 28: // binary
		return g.binary(b, d, nil)
	case x < 31:
		return &E{K: KUnary, Op: opNot, X: g.operand(b, d+1, ctxPrec(lvNot), opNot)}
	case x < 37:
		return &E{K: KUnary, Op: hx.Pick(g.r, []*OpInfo{opMinus, opPlus, opTilde}), X: g.operand(b, d+1, ctxPrec(lvUnary), nil)}
	case x < 42:
		p := g.split(b, 3)
		return &E{K: KCond, X: g.operand(p[0], d+1, ctxPrec(0), opOr), Y: g.operand(p[1], d+1, ctxPrec(0), opOr), Z: g.operand(p[2], d+1, ctxTest, opOr)}
	case x < 47:
		h := b / 2
		return &E{K: KLambda, List: g.params(h, d), X: g.operand(b-h, d+1, ctxTest, opOr)}
	case x < 57:
		h := g.r.Intn(b + 1)
		as := g.args(b-h, d)
		return &E{K: KCall, X: g.sub(h, d+1, ctxPrec(lvPrimary)), List: as, TC: len(as) > 0 && g.r.Intn(4) == 0}
	case x < 63:
		return &E{K: KDot, X: g.sub(b, d+1, ctxPrec(lvPrimary)), Name: g.name()}
	case x < 69:
		h := g.r.Intn(b + 1)
		return &E{K: KIndex, X: g.sub(h, d+1, ctxPrec(lvPrimary)), Y: g.sub(b-h, d+1, ctxExpr)}
	case x < 75:
		p := g.split(b, 4)
		e := &E{K: KSlice, X: g.sub(p[0], d+1, ctxPrec(lvPrimary))}
		if g.r.Bool() {
			e.Lo = g.sub(p[1], d+1, ctxExpr)
		}
		if g.r.Bool() {
			e.Hi = g.sub(p[2], d+1, ctxTest)
		}
		if g.r.Bool() {
			e.Step = g.sub(p[3], d+1, ctxTest)
		}
		e.Colon2 = e.Step != nil || g.r.Bool()
		return e
	case x < 80: // explicit parentheses
		switch y := g.r.Intn(20); {
		case y < 9:
			return &E{K: KParen, X: g.sub(b, d+1, ctxExpr)}
		case y < 14:
			return g.paren(g.tuple(b, d+1, 2+g.r.Intn(3)))
		case y < 18:
			return g.paren(g.tuple(b, d+1, 1))
		default:
			return &E{K: KEmptyTuple}
		}
	case x < 85:
		n := g.r.Intn(4)
		e := &E{K: KList}
		if n > 0 {
			p := g.split(b, n)
			for i := 0; i < n; i++ {
				e.List = append(e.List, g.sub(p[i], d+1, ctxTest))
			}
			e.TC = g.r.Intn(4) == 0
		}
		return e
	case x < 89:
		n := g.r.Intn(4)
		e := &E{K: KDict}
		if n > 0 {
			p := g.split(b, n)
			for i := 0; i < n; i++ {
				e.List = append(e.List, g.dictEntry(p[i], d+1))
			}
			e.TC = g.r.Intn(4) == 0
		}
		return e
	case x < 93:
		h := b / 2
		return &E{K: KComp, X: g.sub(h, d+1, ctxTest), List: g.clauses(b-h, d+1)}
	case x < 96:
		h := b / 2
		return &E{K: KComp, Curly: true, X: g.dictEntry(h, d+1), List: g.clauses(b-h, d+1)}
	default:
		return g.leaf()
	}
}

// ---- statements ----

func (g *gen) target(b, d int) *E {
	one := func() *E {
		switch x := g.r.Intn(10); {
		case x < 6:
			return g.ident()
		case x < 8:
			return &E{K: KDot, X: g.ident(), Name: g.name()}
		default:
			return &E{K: KIndex, X: g.ident(), Y: g.sub(b, d+1, ctxExpr)}
		}
	}
	switch x := g.r.Intn(20); {
	case x < 11:
		return one()
	case x < 14:
		t := &E{K: KTuple}
		for i, n := 0, 2+g.r.Intn(2); i < n; i++ {
			t.List = append(t.List, one())
		}
		if g.r.Intn(3) == 0 {
			return g.paren(t)
		}
		return t
	case x < 16:
		e := &E{K: KList}
		for i, n := 0, 1+g.r.Intn(3); i < n; i++ {
			e.List = append(e.List, one())
		}
		return e
	default:
		return g.sub(b, d+1, ctxExpr)
	}
}

func (g *gen) loadStmt() *S {
	s := &S{K: SLoad, Module: g.loadString()}
	for i, n := 0, 1+g.r.Intn(3); i < n; i++ {
		ln := LoadName{From: g.loadString()}
		if g.r.Intn(5) < 2 {
			ln.Alias = g.name()
		}
		s.Names = append(s.Names, ln)
	}
	s.TC = g.r.Intn(4) == 0
	return s
}

func (g *gen) loadString() *LitV {
	if g.r.Intn(4) == 0 {
		return genString(g.r, g.nl, false, true)
	}
	name := hx.Pick(g.r, []string{"m.star", "//pkg:defs.bzl", "a", "sym", "x_y", "é"})
	q := hx.Pick(g.r, []string{`"`, `'`})
	return &LitV{Cls: "string", Bytes: []byte(name), Src: q + name + q, Feat: "str:plain"}
}

func (g *gen) smallStmt(b, d int) *S {
	switch x := g.r.Intn(100); {
	case x < 40:
		op := assignOps[0]
		if g.r.Bool() {
			op = hx.Pick(g.r, assignOps)
		}
		h := b / 3
		return &S{K: SAssign, X: g.target(h, d), Op: op, Y: g.sub(b-h, d+1, ctxExpr)}
	case x < 60:
		return &S{K: SExpr, X: g.sub(b, d+1, ctxExpr)}
	case x < 73:
		s := &S{K: SReturn}
		if g.r.Intn(10) < 7 {
			s.X = g.sub(b, d+1, ctxExpr)
		}
		return s
	case x < 92:
		return &S{K: SBranch, Op: hx.Pick(g.r, []*OpInfo{opBreak, opContinue, opPass, opPass})}
	default:
		return g.loadStmt()
	}
}

func (g *gen) body(b, d int) []*S {
	n := 1
	switch x := g.r.Intn(10); {
	case x < 5:
	case x < 8:
		n = 2
	default:
		n = 3 + g.r.Intn(2)
	}
	if n > b+1 {
		n = b + 1
	}
	parts := g.split(b, n)
	var l []*S
	for i := 0; i < n; i++ {
		l = append(l, g.stmt(parts[i], d))
	}
	return l
}

func (g *gen) stmt(b, d int) *S {
	if d >= g.maxDepth || b < 2 || g.r.Intn(100) >= 38 {
		return g.smallStmt(b, d)
	}
	b--
	switch x := g.r.Intn(100); {
	case x < 38:
		s := &S{K: SIf}
		nel := 0
		if g.r.Intn(3) == 0 {
			nel = 1 + g.r.Intn(2)
		}
		s.HasElse = g.r.Intn(5) < 2
		k := 2 + 2*nel
		if s.HasElse {
			k++
		}
		p := g.split(b, k)
		s.X = g.sub(p[0], d+1, ctxTest)
		s.Body = g.body(p[1], d+1)
		for i := 0; i < nel; i++ {
			s.Elifs = append(s.Elifs, Elif{Cond: g.sub(p[2+2*i], d+1, ctxTest), Body: g.body(p[3+2*i], d+1)})
		}
		if s.HasElse {
			s.Else = g.body(p[k-1], d+1)
		}
		return s
	case x < 58:
		p := g.split(b, 3)
		return &S{K: SFor, X: g.loopVars(p[0], d+1), Y: g.sub(p[1], d+1, ctxExpr), Body: g.body(p[2], d+1)}
	case x < 72:
		h := b / 3
		return &S{K: SWhile, X: g.sub(h, d+1, ctxTest), Body: g.body(b-h, d+1)}
	default:
		h := b / 3
		ps := g.params(h, d+1)
		return &S{K: SDef, Name: g.name(), Params: ps, TC: len(ps) > 0 && g.r.Intn(4) == 0, Body: g.body(b-h, d+1)}
	}
}

// sizeTarget draws the node budget: most cases small, a tail up to ~100 nodes.
func sizeTarget(r *hx.Rand) int {
	switch x := r.Intn(100); {
	case x < 10:
		return 1
	case x < 40:
		return 2 + r.Intn(6)
	case x < 75:
		return 8 + r.Intn(17)
	case x < 93:
		return 25 + r.Intn(30)
	default:
		return 55 + r.Intn(50)
	}
}
