package main

// -mode lit: literal spelling sweeps.  Each literal is scanned alone with the
// real scanner (VerifTokens) and parsed with ParseExpr; the oracles are in lits.go.

import (
	"fmt"
	"math"
	"math/big"
	"strconv"
	"strings"
	"unicode/utf8"

	"go.starlark.net/syntax"

	"verifharness/internal/hx"
)

type LitCase struct {
	Kind     string `json:"kind"`
	Cls      string `json:"cls"`
	Src      string `json:"src"`
	SrcBytes []int  `json:"src_bytes,omitempty"` // only when src is not valid UTF-8
	Radix    int    `json:"radix,omitempty"`
	Bits     any    `json:"bits,omitempty"` // int: bit size of the intended value; float: binary64 pattern (decimal string)
	Accepted bool   `json:"accepted"`
	Parsed   bool   `json:"parsed"` // ParseExpr agrees with the scanner (same literal / both reject)
	TokKind  string `json:"tokkind"`
	Err      string `json:"err"`
	Value    any    `json:"value,omitempty"` // int: decimal string; string/bytes: list of bytes
	Want     any    `json:"want"`            // same shape, or "reject" ("" = no oracle)
	OK       bool   `json:"ok"`
	Key      string `json:"key"`
	Coq      bool   `json:"coq"`
	Note     string `json:"note,omitempty"`
}

var kindName = map[syntax.Token]string{syntax.INT: "INT", syntax.FLOAT: "FLOAT", syntax.STRING: "STRING", syntax.BYTES: "BYTES",
	syntax.IDENT: "IDENT", syntax.NEWLINE: "NEWLINE", syntax.INDENT: "INDENT", syntax.OUTDENT: "OUTDENT", syntax.DOT: "DOT"}

func tokKindName(t syntax.Token) string {
	if n, ok := kindName[t]; ok {
		return n
	}
	if n, ok := tokCoqName[t]; ok {
		return n
	}
	return "RESERVED"
}

// scanAlone scans the text; single: exactly one token before EOF.
func scanAlone(src []byte) (toks []syntax.VerifToken, kinds string, single bool, err error) {
	toks, err = syntax.VerifTokens(src)
	if err != nil {
		return toks, "", false, err
	}
	var ks []string
	for _, t := range toks {
		if t.Tok != syntax.EOF {
			ks = append(ks, tokKindName(t.Tok))
		}
	}
	return toks, strings.Join(ks, "+"), len(toks) == 2, nil
}

func bytesList(s string) []int {
	l := make([]int, len(s))
	for i := 0; i < len(s); i++ {
		l[i] = int(s[i])
	}
	return l
}

func sameInts(a, b []int) bool {
	if len(a) != len(b) {
		return false
	}
	for i := range a {
		if a[i] != b[i] {
			return false
		}
	}
	return true
}

// parsedLiteral: ParseExpr yields a *Literal carrying the same token kind and value.
func parsedLiteral(src []byte, t *syntax.VerifToken) bool {
	e, err := fileOpts.ParseExpr("x", src, 0)
	if t == nil {
		return err != nil
	}
	if err != nil {
		return false
	}
	l, ok := e.(*syntax.Literal)
	if !ok || l.Token != t.Tok {
		return false
	}
	switch v := l.Value.(type) {
	case int64:
		return t.BigInt == nil && v == t.Int
	case *big.Int:
		return t.BigInt != nil && v.Cmp(t.BigInt) == 0
	case float64:
		return math.Float64bits(v) == math.Float64bits(t.Float)
	case string:
		return v == t.String
	}
	return false
}

func emitLit(c LitCase) {
	dist["lit:"+c.Cls]++
	if !c.OK {
		dist["lit:NOT-OK:"+c.Key]++
	}
	hx.Emit(c)
}

// ---- ints ----

// specInt: the spec's int grammar (decimal without leading zeros, or all
// zeros; 0x 0o 0b with at least one digit), value computed positionally.
func specInt(s string) (*big.Int, bool) {
	if len(s) >= 2 && s[0] == '0' {
		switch s[1] {
		case 'x', 'X':
			return digitsValue(s[2:], 16)
		case 'o', 'O':
			return digitsValue(s[2:], 8)
		case 'b', 'B':
			return digitsValue(s[2:], 2)
		}
	}
	v, ok := digitsValue(s, 10)
	if !ok {
		return nil, false
	}
	if s[0] == '0' && v.Sign() != 0 {
		return nil, false // leading zeros (legacy octal 0755, 08)
	}
	return v, true
}

func litInt(src string, radix, bits int, key string) {
	c := LitCase{Kind: "lit", Cls: "int", Src: src, Radix: radix, Bits: bits, Key: key, Coq: true}
	toks, kinds, single, err := scanAlone([]byte(src))
	c.TokKind, c.Err = kinds, errString(err)
	var tok *syntax.VerifToken
	if single && toks[0].Tok == syntax.INT {
		tok = &toks[0]
		c.Accepted = true
		if tok.BigInt != nil {
			c.Value = tok.BigInt.String()
		} else {
			c.Value = strconv.FormatInt(tok.Int, 10)
		}
	}
	c.Parsed = parsedLiteral([]byte(src), tok)
	want, ok := specInt(src)
	if ok {
		c.Want = want.String()
		c.OK = c.Accepted && c.Value == c.Want && c.Parsed
	} else {
		c.Want = "reject"
		c.OK = !c.Accepted && c.Parsed
	}
	emitLit(c)
}

func sweepInts(r *hx.Rand, extra int) {
	sizes := []int{}
	for b := 1; b <= 70; b++ {
		sizes = append(sizes, b)
	}
	sizes = append(sizes, 100, 127, 128, 129, 200)
	cls := func(radix, bits int) string {
		if bits > 63 {
			return fmt.Sprintf("int:radix%d:bits>63", radix)
		}
		return fmt.Sprintf("int:radix%d:bits<=63", radix)
	}
	one := func(radix, bits, pattern int) {
		lead := pattern == 3
		p := pattern
		if lead {
			p = 2
		}
		v := randBits(r, bits, p)
		var upper func() bool
		if radix == 16 {
			upper = r.Bool
		}
		src := radixPrefix(r, radix)
		key := cls(radix, bits)
		if lead {
			src += strings.Repeat("0", 1+r.Intn(3))
			if radix == 10 {
				key = "int:radix10:leading-zeros"
			}
		}
		src += spellDigits(v, radix, upper)
		litInt(src, radix, bits, key)
	}
	for _, radix := range []int{10, 16, 8, 2} {
		for _, bits := range sizes {
			for pattern := 0; pattern < 4; pattern++ {
				one(radix, bits, pattern)
			}
		}
	}
	for i := 0; i < extra; i++ {
		one(hx.Pick(r, []int{10, 16, 8, 2}), 1+r.Intn(200), r.Intn(4))
	}
	for _, s := range []string{"0", "00", "000", "0755", "0755.0", "08", "09.5", "0_1", "1_000", "0x", "0X", "0o", "0b", "0o8", "0b2", "0xg", "1L", "1l",
		"0x_1", "0O17", "0B11", "0XfF", "9223372036854775807", "9223372036854775808", "18446744073709551615", "18446744073709551616",
		"0x7fffffffffffffff", "0x8000000000000000", "0xffffffffffffffff", "0x10000000000000000",
		"0o777777777777777777777", "0o1000000000000000000000", "0o1777777777777777777777", "0o2000000000000000000000",
		"0b" + strings.Repeat("1", 63), "0b1" + strings.Repeat("0", 63), "0b" + strings.Repeat("1", 64), "0b1" + strings.Repeat("0", 64)} {
		if strings.ContainsAny(s, ".") {
			litFloat(s, "float:special:"+s)
			continue
		}
		litInt(s, 0, 0, "int:special:"+s)
	}
}

// ---- floats ----

// specFloat splits a spelling by the spec's float grammar.
func specFloat(s string) (ip, fp string, exp int, ok bool) {
	i := 0
	for i < len(s) && '0' <= s[i] && s[i] <= '9' {
		i++
	}
	ip = s[:i]
	hasDot := false
	if i < len(s) && s[i] == '.' {
		hasDot = true
		i++
		j := i
		for i < len(s) && '0' <= s[i] && s[i] <= '9' {
			i++
		}
		fp = s[j:i]
	}
	hasExp := false
	if i < len(s) && (s[i] == 'e' || s[i] == 'E') {
		hasExp = true
		i++
		neg := false
		if i < len(s) && (s[i] == '+' || s[i] == '-') {
			neg = s[i] == '-'
			i++
		}
		j := i
		for i < len(s) && '0' <= s[i] && s[i] <= '9' {
			i++
		}
		if i == j || i-j > 6 {
			return "", "", 0, false
		}
		v, _ := digitsValue(s[j:i], 10)
		exp = int(v.Int64())
		if neg {
			exp = -exp
		}
	}
	if i != len(s) {
		return "", "", 0, false
	}
	switch {
	case hasDot && ip != "": // decimals '.' [decimals] [exponent]
	case hasDot && fp != "": // '.' decimals [exponent]
	case !hasDot && hasExp && ip != "": // decimals exponent
	default:
		return "", "", 0, false
	}
	return ip, fp, exp, true
}

func litFloat(src, key string) {
	c := LitCase{Kind: "lit", Cls: "float", Src: src, Key: key, Coq: true}
	toks, kinds, single, err := scanAlone([]byte(src))
	c.TokKind, c.Err = kinds, errString(err)
	var tok *syntax.VerifToken
	if single && toks[0].Tok == syntax.FLOAT {
		tok = &toks[0]
		c.Accepted = true
		c.Bits = strconv.FormatUint(math.Float64bits(tok.Float), 10)
	} else if single && toks[0].Tok == syntax.INT {
		tok = &toks[0]
	}
	c.Parsed = parsedLiteral([]byte(src), tok)
	ip, fp, exp, ok := specFloat(src)
	switch {
	case !ok:
		c.Want = "reject"
		c.OK = !c.Accepted && c.Parsed
	default:
		bits, fin := floatBits(ip, fp, exp)
		if !fin {
			c.Want = "overflow" // the spec does not say; reported, not judged
			c.OK = c.Parsed
		} else {
			c.Want = strconv.FormatUint(bits, 10)
			c.OK = c.Accepted && c.Bits == c.Want && c.Parsed
		}
	}
	emitLit(c)
}

func sweepFloats(r *hx.Rand, extra int) {
	for _, s := range []string{"1.", ".5", "1.5", "1e5", "1E-3", "1e+3", "0.0e0", "00.5", "0e0", "1.e2", ".5e-10", "1e400", "1e-400", "1e308", "1.8e308",
		"1.7976931348623157e308", "1.7976931348623159e308", "4.9e-324", "2.4e-324", "2.5e-324", "2.2250738585072014e-308", "2.2250738585072011e-308",
		"123456789012345678901234567890.0", "09.5", "0755.5", "0755e1", "1e", "1e+", "1e-", "1.e", ".e5", ".", "1..2", "1.5.5", "1e5e5", "1e5.5", "0x1.8", "0x1p3", "1_0.5", "1.5_0", "1.5j", "1e0005",
		"0.1", "0.2", "0.3", "9007199254740993.0", "9007199254740992.5", "0.30000000000000004", "5e-1", "00000.00000", "1.0000000000000002", "1.00000000000000011102230246251565404236316680908203125",
		"1.00000000000000011102230246251565404236316680908203126", "1.00000000000000011102230246251565404236316680908203124"} {
		litFloat(s, "float:special:"+s)
	}
	forms := []string{"D.", ".D", "D.D", "DeX", "D.DeX", ".DeX", "D.eX"}
	n := 300 + extra
	for i := 0; i < n; i++ {
		f := r.Intn(len(forms))
		d := func() string { return randDigits(r, 1+r.Intn(hx.Pick(r, []int{3, 8, 25}))) }
		var s string
		switch f {
		case 0:
			s = d() + "."
		case 1:
			s = "." + d()
		case 2:
			s = d() + "." + d()
		case 3:
			s = d()
		case 4:
			s = d() + "." + d()
		case 5:
			s = "." + d()
		case 6:
			s = d() + "."
		}
		if f >= 3 {
			e := r.Intn(30)
			if r.Intn(4) == 0 {
				e = r.Intn(340)
			}
			s += hx.Pick(r, []string{"e", "E"}) + hx.Pick(r, []string{"", "+", "-", "-"}) + strconv.Itoa(e)
		}
		litFloat(s, "float:"+forms[f])
	}
}

// ---- strings ----

type strBody struct {
	text string
	cls  string
}

func stringBodies(r *hx.Rand, extra int) []strBody {
	var bs []strBody
	add := func(t, c string) { bs = append(bs, strBody{t, c}) }
	add("", "empty")
	add("abc", "plain")
	add("héllo 世界 😀", "nonascii")
	// every backslash + ASCII character
	for ch := 0x20; ch < 0x7f; ch++ {
		c := byte(ch)
		cls := "invalid-escape"
		switch {
		case strings.IndexByte(`abfnrtv\'"`, c) >= 0:
			cls = "simple-escape"
		case '0' <= c && c <= '7':
			cls = "octal<=127"
		case c == 'x' || c == 'u' || c == 'U':
			cls = "truncated-escape"
		}
		add(`\`+string(c), cls)
		add(`p\`+string(c)+`q`, cls)
	}
	add(`\`, "lone-backslash")
	add("\\\n", "esc-newline-lf")
	add("\\\r\n", "esc-newline-crlf")
	add("\\\r", "esc-newline-cr")
	add("a\\\nb", "esc-newline-lf")
	add("a\nb", "raw-newline-lf")
	add("a\r\nb", "raw-newline-crlf")
	add("a\rb", "raw-newline-cr")
	add("\n", "raw-newline-lf")
	add("a\tb", "raw-tab")
	// octal: every value, minimal digits and three digits; followed by a digit / non-digit
	for v := 0; v < 256; v++ {
		cls := "octal<=127"
		if v > 127 {
			cls = "octal128-255"
		}
		min := spellDigits(big.NewInt(int64(v)), 8, nil)
		add(`\`+min, cls)
		three := strings.Repeat("0", 3-len(min)) + min
		add(`\`+three+"7", cls)
		if v%17 == 0 {
			add(`\`+min+"z", cls)
			add(`\`+min+"8", cls)
		}
	}
	for _, s := range []string{`\400`, `\777`, `\477`, `\1234`, `\08`, `\8`, `\9`, `\0`, `\00`, `\000`, `\0000`} {
		cls := "octal<=127"
		if s == `\400` || s == `\777` || s == `\477` {
			cls = "octal>255"
		}
		if s == `\8` || s == `\9` {
			cls = "invalid-escape"
		}
		add(s, cls)
	}
	// hex: every value
	for v := 0; v < 256; v++ {
		cls := "hex<=7f"
		if v > 127 {
			cls = "hex>7f"
		}
		add(fmt.Sprintf(`\x%02x`, v), cls)
		if v%5 == 0 {
			add(fmt.Sprintf(`\x%02X`, v), cls)
		}
	}
	for _, s := range []string{`\x`, `\x0`, `\xg0`, `\x0g`, `\x 1`, `\X41`, `\x+1`, `\x-1`, `\x1_`, `\x_1`} {
		add(s, "hex-bad")
	}
	// \u
	us := []int{0, 0x41, 0x7f, 0x80, 0x7ff, 0x800, 0xd7ff, 0xd800, 0xdbff, 0xdc00, 0xdfff, 0xe000, 0xfffd, 0xffff}
	for i := 0; i < 40+extra/10; i++ {
		us = append(us, r.Intn(0x10000))
	}
	for _, v := range us {
		cls := "u-bmp"
		if 0xd800 <= v && v <= 0xdfff {
			cls = "u-surrogate"
		}
		if r.Bool() {
			add(fmt.Sprintf(`\u%04x`, v), cls)
		} else {
			add(fmt.Sprintf(`\u%04X`, v), cls)
		}
	}
	for _, s := range []string{`\u`, `\u1`, `\u12`, `\u123`, `\u12g4`, `\u+123`, `\u-123`, `\u 123`, `\u1234` + "5", `\u1_23`} {
		cls := "u-bad"
		if s == `\u1234`+"5" {
			cls = "u-bmp"
		}
		add(s, cls)
	}
	Us := []int64{0, 0x41, 0xffff, 0x10000, 0x1f600, 0x10ffff, 0x110000, 0xd800, 0xdfff, 0x7fffffff, 0x80000000, 0xffffffff}
	for i := 0; i < 30+extra/10; i++ {
		Us = append(Us, int64(r.Intn(0x120000)))
	}
	for _, v := range Us {
		cls := "U-valid"
		switch {
		case v > 0x10ffff:
			cls = "U>10ffff"
		case 0xd800 <= v && v <= 0xdfff:
			cls = "U-surrogate"
		}
		add(fmt.Sprintf(`\U%08x`, v), cls)
	}
	for _, s := range []string{`\U`, `\U0001f60`, `\U0001f60g`, `\U+001f600`, `\U-0000041`, `\U000_0041`} {
		add(s, "U-bad")
	}
	// quotes inside
	add(`it's`, "quote-single-inside")
	add(`say "hi"`, "quote-double-inside")
	add(`a''b`, "quote-single-pair-inside")
	add(`a""b`, "quote-double-pair-inside")
	add(`a'''b`, "quote-single-triple-inside")
	add(`a"""b`, "quote-double-triple-inside")
	add(`a\'b\"c`, "simple-escape")
	add(`ends with \\`, "simple-escape")
	add(`#not a comment`, "plain")
	return bs
}

var strPrefixes = []string{"", "r", "b", "rb", "br", "R", "B", "Rb", "bR", "u", "f"}
var strQuotes = []string{`"`, `'`, `"""`, `'''`}

func litString(prefix, quote string, b strBody) {
	src := prefix + quote + b.text + quote
	pcls := prefix
	if pcls == "" {
		pcls = "plain"
	}
	qcls := map[string]string{`"`: "dq", `'`: "sq", `"""`: "dq3", `'''`: "sq3"}[quote]
	c := LitCase{Kind: "lit", Cls: "string", Src: src, Key: "str:" + pcls + ":" + qcls + ":" + b.cls, Coq: true}
	runString(&c, []byte(src))
}

func runString(c *LitCase, src []byte) {
	toks, kinds, single, err := scanAlone(src)
	c.TokKind, c.Err = kinds, errString(err)
	var tok *syntax.VerifToken
	if single && (toks[0].Tok == syntax.STRING || toks[0].Tok == syntax.BYTES) {
		tok = &toks[0]
		c.Accepted = true
		c.Value = bytesList(tok.String)
	}
	c.Parsed = parsedLiteral(src, tok) || (err == nil && !single) || (single && tok == nil)
	want, isBytes, ok, why := specUnquote(string(src))
	if ok {
		wl := bytesList(string(want))
		c.Want = wl
		wk := "STRING"
		if isBytes {
			wk = "BYTES"
		}
		c.OK = c.Accepted && c.TokKind == wk && sameInts(wl, c.Value.([]int)) && c.Parsed
	} else {
		c.Want = "reject"
		c.Note = why
		c.OK = !c.Accepted && c.Parsed
	}
	emitLit(*c)
}

func sweepStrings(r *hx.Rand, extra int) {
	bodies := stringBodies(r, extra)
	for _, b := range bodies {
		for _, q := range strQuotes {
			for pi, p := range strPrefixes {
				// the unusual prefixes only on a few bodies
				if pi >= 4 && !(b.cls == "plain" || b.cls == "empty" || b.text == `\n`) {
					continue
				}
				litString(p, q, b)
			}
		}
	}
	// the scanner's string state machine (closing-quote counter x escape): every
	// sequence of up to 3 symbols out of {", ', \", \', \\, \n, a, newline} as the body
	// of a literal in every quoting, plain / raw / bytes; longer sequences sampled
	syms := []string{`"`, `'`, `\"`, `\'`, `\\`, `\n`, "a", "\n"}
	var seqs []string
	var rec func(pre string, k int)
	rec = func(pre string, k int) {
		if pre != "" {
			seqs = append(seqs, pre)
		}
		if k == 0 {
			return
		}
		for _, y := range syms {
			rec(pre+y, k-1)
		}
	}
	rec("", 3)
	for i := 0; i < 60+extra; i++ {
		t := ""
		for j, n := 0, 4+r.Intn(4); j < n; j++ {
			t += syms[r.Intn(len(syms))]
		}
		seqs = append(seqs, t)
	}
	for _, t := range seqs {
		for _, q := range strQuotes {
			for _, p := range []string{"", "r", "b"} {
				if len(q) == 1 && p != "" && len(t) > 2 {
					continue // single-quoted: the longer bodies in the plain form only
				}
				litString(p, q, strBody{t, "combo"})
			}
		}
	}
	// unterminated and other whole-literal shapes
	for _, s := range []string{`"abc`, `'abc`, `"""abc`, `"""abc"`, `"""abc""`, `'''abc''`, `"abc'`, `"`, `'`, `""`, `''`, `"""`, `""""`, `"""""`, `""""""`, `'''''''`, `""""a"""`,
		`"""a""""`, `r"\"`, `r"\\"`, `r"\""`, `rb'\''`, `b"é"`, `"a" "b"`, `"a""b"`, `r'a'r'b'`, `rb"x"`, `bb"x"`, `rr"x"`, `r b"x"`, `b r"x"`} {
		c := LitCase{Kind: "lit", Cls: "string", Src: s, Key: "str:shape:" + s, Coq: true}
		runString(&c, []byte(s))
	}
	// source that is not UTF-8 (outside the spec: files are UTF-8); reported only
	for _, raw := range [][]byte{{'"', 0xff, '"'}, {'b', '"', 0x80, 'a', '"'}, {'"', 0xc3, '"'}, {'r', '\'', 0xe4, 0xb8, '\''}} {
		c := LitCase{Kind: "lit", Cls: "string", Src: strings.ToValidUTF8(string(raw), "�"), Key: "str:invalid-utf8-source", Coq: false,
			Note: "source is not valid UTF-8 (outside the spec)"}
		for _, b := range raw {
			c.SrcBytes = append(c.SrcBytes, int(b))
		}
		if utf8.Valid(raw) {
			panic("expected invalid utf8")
		}
		toks, kinds, single, err := scanAlone(raw)
		c.TokKind, c.Err = kinds, errString(err)
		if single && (toks[0].Tok == syntax.STRING || toks[0].Tok == syntax.BYTES) {
			c.Accepted = true
			c.Value = bytesList(toks[0].String)
		}
		c.Parsed = true
		c.Want = ""
		c.OK = true
		emitLit(c)
	}
	// random literals from the expression generator's string maker, all line endings
	for i := 0; i < 200+extra; i++ {
		nl := hx.Pick(r, []string{"\n", "\n", "\r\n", "\r"})
		l := genString(r, nl, true, true)
		c := LitCase{Kind: "lit", Cls: "string", Src: l.Src, Key: "str:random:" + l.Feat, Coq: true}
		runString(&c, []byte(l.Src))
		// the constructive value of the generator must agree with the unquote oracle too
		if want, _, ok, _ := specUnquote(l.Src); !ok || string(want) != string(l.Bytes) {
			panic(fmt.Sprintf("generator and specUnquote disagree on %q: %v vs %v (ok=%v)", l.Src, l.Bytes, want, ok))
		}
	}
}

func modeLit(n int, r *hx.Rand) {
	extra := n
	if extra > 5000 {
		extra = 5000
	}
	sweepInts(r.Split(), extra)
	sweepFloats(r.Split(), extra)
	sweepStrings(r.Split(), extra)
}
