// c16: position table and call stack.
//
//	c16 -mode codec -seed S -n N     run the real encoder / decoder / lookup on generated rows
//	c16 -mode prog  -seed S -n N     generated programs with a known failing call chain
//	c16 -mode one   -seed S -i I     print the source of program case I (replay)
//
// One JSON object per line.
package main

import (
	"bytes"
	"flag"
	"fmt"
	"math/bits"
	"os"
	"strings"
	"sync"
	"time"
	"unicode/utf8"

	"go.starlark.net/starlark"
	"go.starlark.net/syntax"

	"verifharness/internal/hx"
)

// ---------------------------------------------------------------- codec mode

type CodecCase struct {
	Kind   string     `json:"kind"`  // "codec"
	Class  string     `json:"class"` // generator class
	Block  bool       `json:"block"` // one block per row (arbitrary pcs) or genuine code offsets
	Line   int32      `json:"line"`
	Col    int32      `json:"col"`
	Rows   [][3]int64 `json:"rows"`
	Tab    []uint16   `json:"tab"`
	Dec    [][3]int64 `json:"dec"`
	Pos    [][3]int64 `json:"pos"` // (pc, line, col) as reported by Position; only when pcs are sorted
	Sorted bool       `json:"sorted"`
	// independent evaluation of the specification in Go (volume)
	GoRoundtrip bool   `json:"go_roundtrip"`
	GoLookup    bool   `json:"go_lookup"`
	Panic       string `json:"panic,omitempty"`
	Seed        uint64 `json:"seed"`
	I           int    `json:"i"`
	NTab        int    `json:"ntab"`
	NRows       int    `json:"nrows"`
	NDec        int    `json:"ndec"`
	HTab        uint64 `json:"htab"` // digest of the table / of the decoded rows (see hashSeq)
	HDec        uint64 `json:"hdec"`
	Big         bool   `json:"big"` // too big to print: rows / tab / dec / pos omitted, only the Go oracle's verdict
}

// hashSeq is a polynomial digest modulo the prime 2^61-1; the check computes
// the same function inside Coq on the model's output, so that long tables are
// compared without being parsed by coqc (which costs ~1 ms per number).
const hashP = (1 << 61) - 1
const hashB = 1000003

func hashStep(h uint64, x uint64) uint64 {
	hi, lo := bits.Mul64(h, hashB)
	lo, c := bits.Add64(lo, x+1, 0)
	hi += c
	_, rem := bits.Div64(hi, lo, hashP)
	return rem
}

func hashTab(tab []uint16) uint64 {
	var h uint64
	for _, x := range tab {
		h = hashStep(h, uint64(x))
	}
	return h
}

func hashRows(rs []starlark.VerifRow) uint64 {
	var h uint64
	for _, r := range rs {
		h = hashStep(h, uint64(r.PC))
		h = hashStep(h, uint64(int64(r.Line)+2147483648))
		h = hashStep(h, uint64(int64(r.Col)+2147483648))
	}
	return h
}

func rows3(rs []starlark.VerifRow) [][3]int64 {
	out := make([][3]int64, len(rs))
	for i, r := range rs {
		out[i] = [3]int64{int64(r.PC), int64(r.Line), int64(r.Col)}
	}
	return out
}

// specification, written independently: the rows are the positioned
// instructions; lookup = last row with pc' <= pc, else first row, else (0,0).
func specRows(rows []starlark.VerifRow) []starlark.VerifRow {
	var out []starlark.VerifRow
	for _, r := range rows {
		if r.Line != 0 {
			out = append(out, r)
		}
	}
	return out
}

func specLookup(rows []starlark.VerifRow, pc uint32) (int32, int32) {
	if len(rows) == 0 {
		return 0, 0
	}
	best := rows[0]
	for _, r := range rows[1:] {
		if r.PC <= pc {
			best = r
		}
	}
	return best.Line, best.Col
}

var lineBound = []int32{-17, -16, -15, -1, 0, 1, 14, 15, 16, 17, 30, 31, 32, -32, -33}
var colBound = []int32{-33, -32, -31, -1, 0, 1, 30, 31, 32, 33, 62, 63, 64, -64, -65}
var pcBound = []uint32{1, 2, 14, 15, 16, 17, 29, 30, 31, 32, 45, 46}

func genRows(r *hx.Rand, class string) (line, col int32, rows []starlark.VerifRow, block bool) {
	line, col = int32(1+r.Intn(50)), int32(1+r.Intn(80))
	n := 1 + r.Intn(12)
	pc := uint32(r.Intn(3))
	l, c := line, col
	add := func() { rows = append(rows, starlark.VerifRow{PC: pc, Line: l, Col: c}) }
	nz := func(x int32) int32 { // a genuine instruction position has line >= 1; keep line != 0 unless the class wants it
		if x == 0 {
			return 1
		}
		return x
	}
	switch class {
	case "small":
		for i := 0; i < n; i++ {
			pc += uint32(1 + r.Intn(6))
			l = nz(l + int32(r.Intn(5)) - 1)
			c = int32(1 + r.Intn(100))
			add()
		}
	case "boundary": // deltas exactly at and around the clip bounds of each field
		for i := 0; i < n; i++ {
			pc += hx.Pick(r, pcBound)
			l = nz(l + hx.Pick(r, lineBound))
			c = c + hx.Pick(r, colBound)
			add()
		}
	case "coljump":
		for i := 0; i < n; i++ {
			pc += uint32(1 + r.Intn(4))
			if r.Bool() {
				c = int32(1 + r.Intn(12000))
			} else {
				c = int32(1 + r.Intn(40))
			}
			l = nz(l + int32(r.Intn(3)))
			add()
		}
	case "linegap":
		n = 1 + r.Intn(4)
		for i := 0; i < n; i++ {
			pc += uint32(1 + r.Intn(4))
			switch r.Intn(3) {
			case 0:
				l = nz(l + int32(r.Intn(100000)))
			case 1:
				l = nz(l - int32(r.Intn(100000)))
			default:
				l = nz(l + int32(r.Intn(40)) - 20)
			}
			c = int32(1 + r.Intn(200))
			add()
		}
	case "pcgap":
		for i := 0; i < n; i++ {
			pc += uint32(1 + r.Intn(3000))
			l = nz(l + int32(r.Intn(3)))
			c = int32(1 + r.Intn(100))
			add()
		}
	case "negative": // lines and columns going down, also below zero
		for i := 0; i < n; i++ {
			pc += uint32(1 + r.Intn(20))
			l = nz(l - int32(r.Intn(60)))
			c = c - int32(r.Intn(90))
			add()
		}
	case "mixed":
		for i := 0; i < n; i++ {
			pc += uint32(1 + r.Intn(40))
			l = nz(l + int32(r.Intn(2000)) - 1000)
			c = c + int32(r.Intn(600)) - 300
			add()
		}
	case "many": // thousands of rows
		n = 1000 + r.Intn(4000)
		for i := 0; i < n; i++ {
			pc += uint32(1 + r.Intn(24))
			switch r.Intn(20) {
			case 0:
				l = nz(l + int32(r.Intn(3000)) - 1000)
			default:
				l = nz(l + int32(r.Intn(3)))
			}
			if r.Intn(10) == 0 {
				c = int32(1 + r.Intn(10000))
			} else {
				c = int32(1 + r.Intn(120))
			}
			add()
		}
	case "block-equalpc": // several instructions reported at one pc, unpositioned rows (line 0) in between
		block = true
		for i := 0; i < n; i++ {
			pc += uint32(r.Intn(3)) * uint32(r.Intn(20))
			l = l + int32(r.Intn(7)) - 3
			if r.Intn(4) == 0 {
				l = 0 // instruction without a position: skipped by the encoder
			}
			c = c + int32(r.Intn(100)) - 50
			add()
			if l == 0 {
				l = 1
			}
		}
	case "block-anypc": // block addresses far apart (a decreasing pc would cost 2^32/15 entries: covered by the theorem only)
		block = true
		n = 1 + r.Intn(3)
		for i := 0; i < n; i++ {
			pc += uint32(r.Intn(40000))
			l = nz(l + int32(r.Intn(200)) - 100)
			c = c + int32(r.Intn(200)) - 100
			add()
		}
	case "block-wrap": // int32 coordinates near the ends of the range: differences wrap
		block = true
		n = 1 + r.Intn(3)
		ends := []int32{-2147483648, -2147483647, 2147483647, 2147483646}
		l, c = hx.Pick(r, ends), hx.Pick(r, ends)
		line, col = l+int32(r.Intn(3))*0, c
		for i := 0; i < n; i++ {
			pc += uint32(1 + r.Intn(20))
			// move across the boundary by a small wrapped amount
			l = l + int32(r.Intn(100)) - 50
			c = c + int32(r.Intn(100)) - 50
			if l == 0 {
				l = 1
			}
			add()
		}
	}
	return
}

var codecClasses = []string{"small", "boundary", "coljump", "linegap", "pcgap", "negative", "mixed", "many",
	"block-equalpc", "block-anypc", "block-wrap"}

func runCodec(seed uint64, i int, class string) (cc CodecCase) {
	r := hx.NewRand(seed*1000003 + uint64(i)*7919 + 17)
	line, col, rows, block := genRows(r, class)
	cc = CodecCase{Kind: "codec", Class: class, Block: block, Line: line, Col: col, Rows: rows3(rows), Seed: seed, I: i}
	defer func() {
		if e := recover(); e != nil {
			cc.Panic = fmt.Sprint(e)
		}
	}()
	tab, _ := starlark.VerifEncodeLNT(line, col, rows, block)
	cc.Tab = tab
	if cc.Tab == nil {
		cc.Tab = []uint16{}
	}
	dec := starlark.VerifDecodeLNT(line, col, tab)
	cc.Dec = rows3(dec)
	cc.NDec, cc.HTab, cc.HDec = len(dec), hashTab(tab), hashRows(dec)
	want := specRows(rows)
	cc.GoRoundtrip = len(dec) == len(want)
	if cc.GoRoundtrip {
		for k := range dec {
			if dec[k] != want[k] {
				cc.GoRoundtrip = false
			}
		}
	}
	cc.Sorted = true
	for k := 1; k < len(want); k++ {
		if want[k-1].PC > want[k].PC {
			cc.Sorted = false
		}
	}
	cc.GoLookup = true
	cc.Pos = [][3]int64{}
	if cc.Sorted {
		var pcs []uint32
		pcs = append(pcs, 0, 1)
		limit := len(want)
		step := 1
		if limit > 12 {
			step = limit / 12
		}
		for k := 0; k < limit; k += step {
			p := want[k].PC
			pcs = append(pcs, p, p+1)
			if p > 0 {
				pcs = append(pcs, p-1)
			}
		}
		if limit > 0 {
			pcs = append(pcs, want[limit-1].PC, want[limit-1].PC+1000, 4294967295)
		}
		got := starlark.VerifPositions(line, col, tab, pcs)
		cc.Pos = rows3(got)
		for _, g := range got {
			wl, wc := specLookup(want, g.PC)
			if wl != g.Line || wc != g.Col {
				cc.GoLookup = false
			}
		}
	}
	return cc
}

// ----------------------------------------------------------------- prog mode

type Frame struct {
	Name string `json:"name"`
	File string `json:"file"` // "" = the program's file, "<builtin>" = a built-in frame
	Line int32  `json:"line"` // -1 = not specified by the generator
	Col  int32  `json:"col"`
	// ColMax > Col: the operation is a two-word operator ("not in") written at
	// columns Col..ColMax; any column of the operator identifies it.
	ColMax int32 `json:"colmax,omitempty"`
}

type FuncLNT struct {
	Name    string     `json:"name"`
	Line    int32      `json:"line"`
	Col     int32      `json:"col"`
	CodeLen int        `json:"codelen"`
	Tab     []uint16   `json:"tab"`
	Rows    [][3]int64 `json:"rows"`
	Pos     [][3]int64 `json:"pos"` // Position(pc) for sampled pcs
	HRows   uint64     `json:"hrows"`
}

type ProgCase struct {
	Kind     string   `json:"kind"` // "prog"
	Seed     uint64   `json:"seed"`
	I        int      `json:"i"`
	Links    []string `json:"links"`  // kinds of the links of the call chain
	Fail     string   `json:"fail"`   // kind of the failing operation
	Ctx      string   `json:"ctx"`    // syntactic context of the failing expression
	Layout   string   `json:"layout"` // summary of the layout choices
	Depth    int      `json:"depth"`
	SrcLen   int      `json:"srclen"`
	Src      string   `json:"src,omitempty"` // only when small
	Expected []Frame  `json:"expected"`
	Got      []Frame  `json:"got"`
	GotSer   []Frame  `json:"got_ser"` // after Write + CompiledProgram
	GotLater []Frame  `json:"got_later"` // the same EvalError inspected again after later failures on its thread
	BtLater  bool     `json:"bt_later"`  // its Backtrace() is unchanged as well
	GotWarm  []Frame  `json:"got_warm"` // on a thread that ran unrelated deep calls before
	Warm     string   `json:"warm"`     // shape of the warm-up
	Err      string   `json:"err"`
	ErrSer   string   `json:"err_ser"`
	BtOK     bool     `json:"bt_ok"`     // Backtrace() has the expected frame lines
	BtSerOK  bool     `json:"bt_ser_ok"` // the same after serialisation
	Bt       string   `json:"bt,omitempty"`
	Problem  string   `json:"problem,omitempty"` // the harness could not run the case as intended
	MaxLine  int      `json:"maxline"`
	MaxCol   int      `json:"maxcol"`
	Funcs    []FuncLNT `json:"funcs,omitempty"`
}

// W writes source text and tracks the position of the next rune.
type W struct {
	sb        strings.Builder
	line, col int
	maxcol    int
}

func newW() *W { return &W{line: 1, col: 1} }
func (w *W) s(str string) {
	w.sb.WriteString(str)
	if n := strings.Count(str, "\n"); n > 0 {
		w.line += n
		str = str[strings.LastIndex(str, "\n")+1:]
		w.col = 1
	}
	w.col += utf8.RuneCountInString(str)
	if w.col > w.maxcol {
		w.maxcol = w.col
	}
}
func (w *W) nl(n int) {
	if n > 0 {
		w.s(strings.Repeat("\n", n))
	}
}
func (w *W) sp(n int) {
	if n > 0 {
		w.s(strings.Repeat(" ", n))
	}
}
func (w *W) mark() (int32, int32) { return int32(w.line), int32(w.col) }

type gen struct {
	r       *hx.Rand
	w       *W
	layout  []string
	ctx     int  // syntactic context of the failing expression
	noPrefix bool // what follows cannot take an `"..." and ` prefix (a lambda; the first instruction of a function)
	oneLine bool // the context does not allow the expression to span lines outside brackets
}

// a gap in lines: mostly small, sometimes huge
func (g *gen) lineGap() int {
	switch g.r.Intn(12) {
	case 0:
		g.layout = append(g.layout, "hugegap")
		return 20000 + g.r.Intn(80000)
	case 1, 2:
		g.layout = append(g.layout, "gap")
		return 17 + g.r.Intn(3000)
	case 3:
		return 14 + g.r.Intn(5) // around the 5-bit bound
	default:
		return g.r.Intn(4)
	}
}

func (g *gen) colPad() int {
	switch g.r.Intn(12) {
	case 0:
		g.layout = append(g.layout, "hugecol")
		return 3000 + g.r.Intn(7000)
	case 1, 2:
		g.layout = append(g.layout, "widecol")
		return 33 + g.r.Intn(600)
	case 3:
		return 28 + g.r.Intn(8) // around the 6-bit bound
	default:
		return g.r.Intn(6)
	}
}

// filler statements inside a function body at indentation ind: successful,
// positioned operations at varying columns and many unpositioned instructions.
func (g *gen) filler(ind string) {
	w := g.w
	n := g.r.Intn(4)
	for k := 0; k < n; k++ {
		switch g.r.Intn(5) {
		case 0: // thousands of instructions without a position
			m := 20 + g.r.Intn(200)
			if g.r.Intn(6) == 0 {
				m = 1000 + g.r.Intn(3000)
				g.layout = append(g.layout, "manyinsns")
			}
			w.s(ind + "_a = [")
			for q := 0; q < m; q++ {
				w.s(fmt.Sprintf("%d,", q%97))
			}
			w.s("]\n")
		case 1: // an operation far to the right
			w.s(ind + "_b = (x")
			w.sp(g.colPad())
			w.s("+ 1)\n")
		case 2: // operations spread over lines inside parentheses
			w.s(ind + "_c = (x +")
			w.nl(g.r.Intn(40))
			w.sp(g.r.Intn(70))
			w.s("x * 2 -")
			w.nl(g.r.Intn(3))
			w.s("x)\n")
		case 3: // branches and loops: several blocks
			w.s(ind + "for _i in [1, 2]:\n")
			w.s(ind + "    if _i == x:\n")
			w.s(ind + "        _d = [_i,")
			w.sp(g.r.Intn(50))
			w.s("x + _i]\n")
			w.s(ind + "    else:\n")
			w.s(ind + "        _d = str(_i)\n")
		default: // a non-ASCII string: columns count runes, not bytes
			w.s(ind + "_e = \"" + strings.Repeat("é", 1+g.r.Intn(30)) + "\" + str(x)\n")
		}
	}
}

// placeExpr writes "<prefix>(" then moves by a generator-chosen number of
// lines and columns (newlines and blanks are free inside parentheses), so that
// what the caller writes next lands at an arbitrary (line, col).
func (g *gen) openParenAndMove() {
	w := g.w
	w.s("(")
	gap := g.lineGap()
	w.nl(gap)
	w.sp(g.colPad())
	g.nonASCIILeft()
}

// nonASCIILeft sometimes writes non-ASCII text to the LEFT of what follows, on
// the same line: `"<multi-byte runes>" and ` evaluates what follows and leaves
// its position where it is written; columns count runes (W.s does), not bytes.
func (g *gen) nonASCIILeft() {
	if g.noPrefix || g.r.Intn(4) != 0 {
		return
	}
	g.layout = append(g.layout, "nonascii-left")
	runes := []string{"\u00e9", "\u4e16", "\U0001F600", "\u00df\u754c"}
	n := 1 + g.r.Intn(12)
	var sb strings.Builder
	for k := 0; k < n; k++ {
		sb.WriteString(hx.Pick(g.r, runes))
	}
	g.w.s("\"" + sb.String() + "\" and ")
	g.w.sp(g.r.Intn(4))
}


// The syntactic contexts a failing expression is placed in.  The compiler has
// separate code paths for conditions (ifelse: not, and, or, "not in"), for
// values, for arguments and defaults; every failing kind visits them all.
const nCtx = 18

var ctxNames = [nCtx]string{"return-paren", "assign-paren", "stmt-paren", "if", "if-not", "if-and", "if-or", "if-paren", "elif",
	"condexpr-test", "comp-filter", "call-arg", "call-kwarg", "default-value", "while", "list-element", "condexpr-and-multiline", "comp-filter-not"}

func (g *gen) move() {
	g.w.nl(g.lineGap())
	g.w.sp(g.colPad())
	if g.ctx != 17 && g.ctx != 9 && g.ctx != 16 { // not after `not`, not before `1 if`
		g.nonASCIILeft()
	}
}

// openCtx writes what precedes the failing expression and returns what follows it.
func (g *gen) openCtx(ind, tail string) string {
	w, r := g.w, g.r
	g.oneLine = false
	pass := ":\n" + ind + "    pass\n"
	switch g.ctx {
	case 1:
		w.s(ind + "_v = (")
		g.move()
		return ")" + tail
	case 2:
		w.s(ind + "(")
		g.move()
		return ")" + tail
	case 3:
		g.oneLine = true
		w.s(ind + "if")
		w.sp(1 + g.colPad())
		return pass
	case 4:
		g.oneLine = true
		w.s(ind + "if not")
		w.sp(1 + g.colPad())
		return pass
	case 5:
		g.oneLine = true
		w.s(ind + "if x == 1 and")
		w.sp(1 + g.colPad())
		return hx.Pick(r, []string{"", " and x == 1", " or x == 7"}) + pass
	case 6:
		g.oneLine = true
		w.s(ind + "if x == 2 or")
		w.sp(1 + g.colPad())
		return pass
	case 7:
		w.s(ind + "if (")
		g.move()
		return ")" + pass
	case 8:
		g.oneLine = true
		w.s(ind + "if x == 2:\n" + ind + "    pass\n" + ind + "elif")
		w.sp(1 + g.colPad())
		return pass
	case 9:
		w.s(ind + "return (")
		g.move()
		w.s("1 if")
		w.sp(1 + r.Intn(4))
		return " else 2)\n"
	case 10:
		w.s(ind + "return [q for q in t if")
		g.move()
		w.s(" ")
		return "]\n"
	case 11:
		w.s(ind + "return str(")
		g.move()
		return ")\n"
	case 12:
		w.s(ind + "return dict(k =")
		g.move()
		w.s(" ")
		return ")\n"
	case 13:
		w.s(ind + "def inner_d(a =")
		g.move()
		w.s(" ")
		return "):\n" + ind + "    return a\n" + ind + "return inner_d()\n"
	case 14:
		g.oneLine = true
		w.s(ind + "while")
		w.sp(1 + g.colPad())
		return ":\n" + ind + "    break\n"
	case 15:
		w.s(ind + "_v = [x,")
		g.move()
		w.s(" ")
		return ", y]\n"
	case 16:
		w.s(ind + "return (")
		g.move()
		w.s("1 if x == 1 " + hx.Pick(r, []string{"and", "and x != 5 and"}))
		w.nl(1 + r.Intn(3))
		w.sp(r.Intn(50))
		return " else 2)\n"
	case 17:
		w.s(ind + "return {q: 1 for q in t if not")
		g.move()
		w.s(" ")
		return "}\n"
	}
	w.s(ind + "return (")
	g.move()
	return ")" + tail
}

var linkKinds = []string{"def", "def", "lambda", "comp", "dictcomp", "sorted", "min", "max", "closure", "callkw", "callvar", "ifblock", "forblock"}
var failKinds = []string{"call", "binop", "unop", "index", "attr", "unpack", "local", "global", "fail",
	"setindex", "divzero", "iterate", "slice", "cmp", "in", "callkw", "setfield", "augassign", "argbind",
	"dictkey", "compiterate", "percent", "notin", "default", "methodcall", "pluschain", "recursive", "pluschain", "argbind",
	"augindex", "augfield", "plainstore", "seqstore", "notin", "augindex", "freevar", "cellvar", "freevar"}

func fname(i int) string { return fmt.Sprintf("f%d", i) }

// genProgram builds the source; returns expected frames (outermost first).
func (g *gen) genProgram(depth int, links []string, failKind string) (src string, expected []Frame) {
	w := g.w
	r := g.r
	w.s("# generated for C16\n")
	// frames contributed by each function, in call order
	frames := make([][]Frame, depth+1)
	// the functions are written in a random order
	order := make([]int, depth)
	for i := range order {
		order[i] = i + 1
	}
	for i := len(order) - 1; i > 0; i-- {
		j := r.Intn(i + 1)
		order[i], order[j] = order[j], order[i]
	}
	for _, fi := range order {
		w.nl(g.lineGap())
		last := fi == depth
		kind := "def"
		if !last {
			kind = links[fi] // how fi calls f(i+1)
		}
		next := fname(fi + 1)
		name := fname(fi)
		if last {
			frames[fi] = g.genFailing(name, failKind)
			continue
		}
		switch kind {
		case "lambda":
			// fN = (   lambda x: (  fM  (x)))
			w.s(name + " = ")
			g.noPrefix = true
			g.openParenAndMove()
			g.noPrefix = false
			w.s("lambda x: ")
			g.openParenAndMove()
			w.s(next)
			w.sp(r.Intn(3))
			l, c := w.mark()
			w.s("(x)))\n")
			frames[fi] = []Frame{{Name: "lambda", Line: l, Col: c}}
		case "closure":
			w.s("def " + name + "(x):\n")
			g.filler("    ")
			w.s("    def inner" + fmt.Sprint(fi) + "(y):\n")
			w.s("        return ")
			g.openParenAndMove()
			w.s(next)
			l2, c2 := w.mark()
			w.s("(y + x - x))\n")
			w.s("    return ")
			g.openParenAndMove()
			w.s("inner" + fmt.Sprint(fi))
			w.sp(r.Intn(3))
			l, c := w.mark()
			w.s("(x))\n")
			frames[fi] = []Frame{{Name: name, Line: l, Col: c}, {Name: "inner" + fmt.Sprint(fi), Line: l2, Col: c2}}
		default:
			w.s("def " + name + "(x):\n")
			g.filler("    ")
			ind := "    "
			switch kind {
			case "ifblock":
				w.s(ind + "if x == 0:\n" + ind + "    return 0\n" + ind + "elif x == 1:\n")
				ind += "    "
			case "forblock":
				w.s(ind + "for _j in [x, x]:\n")
				ind += "    "
			}
			w.s(ind + "return ")
			g.openParenAndMove()
			var fr []Frame
			switch kind {
			case "comp":
				w.s("[" + next)
				l, c := w.mark()
				w.s("(y) for y in [x]][0])\n")
				fr = []Frame{{Name: name, Line: l, Col: c}}
			case "dictcomp":
				w.s("{y: " + next)
				w.sp(r.Intn(3))
				l, c := w.mark()
				w.s("(y) for y in [x] if y == x})\n")
				fr = []Frame{{Name: name, Line: l, Col: c}}
			case "sorted", "min", "max":
				w.s(kind)
				w.sp(r.Intn(3))
				l, c := w.mark()
				w.s("([x, x], key = " + next + "))\n")
				fr = []Frame{{Name: name, Line: l, Col: c}, {Name: kind, File: "<builtin>"}}
			case "callkw":
				w.s(next)
				l, c := w.mark()
				w.s("(x = x))\n")
				fr = []Frame{{Name: name, Line: l, Col: c}}
			case "callvar":
				w.s(next)
				w.sp(r.Intn(2))
				l, c := w.mark()
				w.s("(*[x], **{}))\n")
				fr = []Frame{{Name: name, Line: l, Col: c}}
			default: // def, ifblock, forblock
				w.s(next)
				w.sp(r.Intn(3))
				l, c := w.mark()
				w.s("(x))\n")
				fr = []Frame{{Name: name, Line: l, Col: c}}
			}
			frames[fi] = fr
		}
	}
	// the toplevel call
	w.nl(g.lineGap())
	w.s("_r = ")
	g.openParenAndMove()
	w.s(fname(1))
	w.sp(r.Intn(3))
	l, c := w.mark()
	w.s("(1))\n")
	frames[0] = []Frame{{Name: "<toplevel>", Line: l, Col: c}}
	w.s("later_g = 1\n")
	for _, fs := range frames {
		expected = append(expected, fs...)
	}
	return w.sb.String(), expected
}

// genFailing writes the innermost function; x is the int 1.
func (g *gen) genFailing(name, kind string) []Frame {
	w := g.w
	r := g.r
	w.s("def " + name + "(x):\n")
	var firstL, firstC int32
	if kind == "recursive" {
		w.s("    q0 = ")
		g.noPrefix = true
		g.openParenAndMove()
		g.noPrefix = false
		firstL, firstC = w.mark()
		w.s("x + 0)\n")
	}
	w.s("    y = \"s\"\n    t = (1, 2, 3)\n")
	g.filler("    ")
	ind := "    "
	if r.Intn(4) == 0 {
		w.s(ind + "if x == 1:\n")
		ind += "    "
	}
	// what follows the failing operation: nothing, or another positioned
	// instruction right after it (the frame's pc must not have moved on to it)
	tail := hx.Pick(r, []string{"\n", "\n", " + x\n", " == [x, y]\n"})
	fr := func(l, c int32) []Frame { return []Frame{{Name: name, Line: l, Col: c}} }
	var out []Frame
	seqClose := false
	switch kind {
	case "call":
		closer := g.openCtx(ind, tail)
		w.s("x")
		w.sp(r.Intn(3))
		l, c := w.mark()
		w.s("(1)" + closer)
		out = fr(l, c)
	case "binop":
		op := hx.Pick(r, []string{"+", "-", "//", "%", "&", "|", "^", "<<", ">>", "/"})
		closer := g.openCtx(ind, tail)
		w.s("x ")
		w.sp(r.Intn(3))
		l, c := w.mark()
		w.s(op + " y" + closer)
		out = fr(l, c)
	case "cmp":
		op := hx.Pick(r, []string{"<", "<=", ">", ">="})
		closer := g.openCtx(ind, tail)
		w.s("x ")
		l, c := w.mark()
		w.s(op + " y" + closer)
		out = fr(l, c)
	case "in":
		closer := g.openCtx(ind, tail)
		w.s("y ")
		l, c := w.mark()
		w.s("in x" + closer)
		out = fr(l, c)
	case "unop":
		op := hx.Pick(r, []string{"-", "~", "+"})
		closer := g.openCtx(ind, tail)
		l, c := w.mark()
		w.s(op + " y" + closer)
		out = fr(l, c)
	case "index":
		closer := g.openCtx(ind, tail)
		w.s(hx.Pick(r, []string{"x", "t", "y"}))
		w.sp(r.Intn(3))
		l, c := w.mark()
		w.s("[7]" + closer)
		out = fr(l, c)
	case "slice":
		closer := g.openCtx(ind, tail)
		w.s("x")
		l, c := w.mark()
		switch r.Intn(3) {
		case 0:
			w.s("[1:2]" + closer)
		case 1: // operands with their own positions, on other lines
			w.s("[")
			w.nl(1 + r.Intn(3))
			w.sp(r.Intn(40))
			w.s("len(y):")
			w.nl(r.Intn(2))
			w.s("x + 1]" + closer)
		default:
			w.s("[::x]" + closer)
		}
		out = fr(l, c)
	case "attr":
		closer := g.openCtx(ind, tail)
		w.s("x")
		w.sp(r.Intn(3))
		l, c := w.mark()
		w.s(".nosuch" + closer)
		out = fr(l, c)
	case "unpack":
		w.s(ind + "a, b")
		w.sp(g.colPad())
		l, c := w.mark()
		w.s("= " + hx.Pick(r, []string{"x", "t"}) + "\n")
		w.s(ind + "return a\n")
		out = fr(l, c)
	case "local":
		closer := g.openCtx(ind, tail)
		l, c := w.mark()
		w.s("z" + closer)
		w.s("    z = 1\n")
		out = fr(l, c)
	case "cellvar":
		// a variable of THIS function that a nested function captures (a cell), read before it is assigned
		w.s(ind + "def inner_c():\n" + ind + "    return zc\n")
		closer := g.openCtx(ind, tail)
		l, c := w.mark()
		w.s("zc" + closer)
		w.s("    zc = 1\n")
		out = fr(l, c)
	case "freevar":
		// a nested def / lambda reads a variable of the ENCLOSING function before that
		// function has assigned it; the nested function is called directly, from a
		// comprehension, or by a built-in; the reference is the first instruction of
		// the nested function or follows other positioned operations on other lines
		iname := "inner_f"
		var rl, rc int32
		if r.Intn(3) == 0 {
			iname = "lambda"
			w.s(ind + "inner_f = ")
			g.noPrefix = true
			g.openParenAndMove()
			g.noPrefix = false
			w.s("lambda a: ")
			if r.Bool() {
				w.s("(a +")
				w.nl(r.Intn(3))
				w.sp(r.Intn(40))
				w.s("1) * ")
			}
			w.s("(")
			w.nl(r.Intn(3))
			w.sp(g.colPad())
			rl, rc = w.mark()
			w.s("zf))\n")
		} else {
			w.s(ind + "def inner_f(a):\n")
			if r.Bool() {
				w.s(ind + "    q = (a +")
				w.sp(g.colPad())
				w.s("1)\n")
				w.nl(r.Intn(20))
			}
			save := g.ctx
			closer := g.openCtx(ind+"    ", "\n")
			rl, rc = w.mark()
			w.s("zf" + closer)
			g.ctx = save
			w.s(ind + "    return a\n")
		}
		w.s(ind + "_r = ")
		g.openParenAndMove()
		var mid []Frame
		var l, c int32
		switch r.Intn(4) {
		case 0:
			w.s("[inner_f")
			l, c = w.mark()
			w.s("(q) for q in [x]])\n")
		case 1:
			bn := hx.Pick(r, []string{"sorted", "min", "max"})
			w.s(bn)
			l, c = w.mark()
			w.s("([x, x], key = inner_f))\n")
			mid = []Frame{{Name: bn, File: "<builtin>"}}
		default:
			w.s("inner_f")
			w.sp(r.Intn(3))
			l, c = w.mark()
			w.s("(x))\n")
		}
		w.s("    zf = 1\n")
		out = append(fr(l, c), mid...)
		out = append(out, Frame{Name: iname, Line: rl, Col: rc})
	case "global":
		closer := g.openCtx(ind, tail)
		l, c := w.mark()
		w.s("later_g" + closer)
		out = fr(l, c)
	case "fail":
		closer := g.openCtx(ind, tail)
		w.s("fail")
		w.sp(r.Intn(3))
		l, c := w.mark()
		w.s("(\"boom\")" + closer)
		out = append(fr(l, c), Frame{Name: "fail", File: "<builtin>"})
	case "setindex":
		w.s(ind + "t")
		w.sp(g.colPad())
		l, c := w.mark()
		w.s("[0] = x\n")
		w.s(ind + "return t\n")
		out = fr(l, c)
	case "setfield":
		w.s(ind + "t")
		w.sp(g.colPad())
		l, c := w.mark()
		w.s(".f = x\n")
		w.s(ind + "return t\n")
		out = fr(l, c)
	case "augassign":
		w.s(ind + "q = x\n")
		w.s(ind + "q")
		w.sp(g.colPad())
		l, c := w.mark()
		w.s(hx.Pick(r, []string{"+=", "-=", "|=", "//=", "&=", "<<="}) + " y\n")
		w.s(ind + "return q\n")
		out = fr(l, c)
	case "divzero":
		closer := g.openCtx(ind, tail)
		w.s("x ")
		l, c := w.mark()
		w.s(hx.Pick(r, []string{"//", "%", "/"}) + " (x - x)" + closer)
		out = fr(l, c)
	case "iterate":
		w.s(ind)
		l, c := w.mark()
		w.s("for q in x:\n")
		w.s(ind + "    pass\n")
		w.s(ind + "return x\n")
		out = fr(l, c)
	case "callkw":
		closer := g.openCtx(ind, tail)
		w.s("y")
		l, c := w.mark()
		w.s("(a = 1, *[2])" + closer)
		out = fr(l, c)
	case "dictkey":
		// The INSERTION of an entry fails (unhashable or duplicate key), in a dict
		// display or a dict comprehension; reported at the ':' of that entry whatever
		// the value expression is (literal, call, method call, operator, multi-line).
		closer := g.openCtx(ind, tail)
		val := func() {
			switch r.Intn(6) {
			case 0:
				w.s("2")
			case 1:
				w.s("y.strip()")
			case 2:
				w.s("len(y)")
			case 3:
				w.s("x + 1")
			case 4:
				w.s("(x +")
				w.nl(1 + r.Intn(3))
				w.sp(r.Intn(40))
				w.s("len(y))")
			default:
				w.s("[q * 2 for q in t]")
			}
		}
		var l, c int32
		switch r.Intn(3) {
		case 0: // unhashable key in a display
			w.s("{x: ")
			val()
			w.s(", [x]")
			w.sp(r.Intn(3))
			l, c = w.mark()
			w.s(": ")
			val()
			w.s("}")
		case 1: // duplicate key in a display
			w.s("{\"k\": ")
			val()
			w.s(", \"k\"")
			w.sp(r.Intn(3))
			l, c = w.mark()
			w.s(": ")
			val()
			w.s(", \"z\": 0}")
		default: // unhashable key in a dict comprehension
			w.s("{k")
			w.sp(r.Intn(3))
			l, c = w.mark()
			w.s(": ")
			switch r.Intn(3) {
			case 0:
				w.s("v")
			case 1:
				w.s("v.strip()")
			default:
				w.s("(v +")
				w.nl(1 + r.Intn(2))
				w.s(" y)")
			}
			w.s(" for k, v in [(x, y), ([x], y)]}")
		}
		w.s(closer)
		out = fr(l, c)
	case "compiterate": // iterating a non-iterable in a comprehension: reported at its 'for'
		closer := g.openCtx(ind, tail)
		w.s("[q ")
		w.sp(r.Intn(3))
		l, c := w.mark()
		w.s("for q in x]" + closer)
		out = fr(l, c)
	case "percent":
		closer := g.openCtx(ind, tail)
		w.s("y ")
		l, c := w.mark()
		w.s("% t" + closer)
		out = fr(l, c)
	case "notin":
		closer := g.openCtx(ind, tail)
		w.s("y ")
		l, c := w.mark()
		w.s("not in x" + closer)
		out = fr(l, c)
		out[0].ColMax = c + 4 // the column of "in"
	case "default": // a failing default-value expression is evaluated in the enclosing function
		w.s(ind + "def inner(a = ")
		g.openParenAndMove()
		w.s("x ")
		l, c := w.mark()
		w.s("// (x - x))):\n")
		w.s(ind + "    return a\n")
		w.s(ind + "return inner()\n")
		out = fr(l, c)
	case "methodcall": // a built-in method rejects its argument: the call's '(' plus the built-in's frame
		closer := g.openCtx(ind, tail)
		w.s("y.join")
		w.sp(r.Intn(3))
		l, c := w.mark()
		w.s("([x])" + closer)
		out = append(fr(l, c), Frame{Name: "join", File: "<builtin>"})
	case "augindex":
		// x[i] op= v where the load and the operator succeed and the STORE fails:
		// reported at the '[' of the target (index expression possibly on other lines)
		recv := hx.Pick(r, []string{"t", "y", "flist", "fdict", "iterated"})
		idx, rhs, op := "0", "x", hx.Pick(r, []string{"+=", "-=", "*=", "|="})
		switch recv {
		case "y":
			rhs, op = "\"a\"", "+="
		case "fdict":
			idx = "\"k\""
		case "iterated":
			w.s(ind + "lst = [1, 2, 3]\n" + ind + "for _q in lst:\n")
			ind += "    "
			recv = "lst"
		}
		w.s(ind + recv)
		w.sp(g.colPad())
		l, c := w.mark()
		w.s("[")
		if r.Bool() {
			w.nl(1 + r.Intn(3))
			w.sp(r.Intn(40))
		}
		w.s(idx)
		if r.Bool() {
			w.nl(1 + r.Intn(2))
		}
		w.s("]")
		w.sp(1 + r.Intn(20))
		w.s(op + " " + rhs + "\n")
		out = fr(l, c)
	case "augfield":
		// x.f op= v: load and operator succeed, SetField fails: reported at the '.'
		w.s(ind + hx.Pick(r, []string{"rec", "frec"}))
		w.sp(g.colPad())
		l, c := w.mark()
		w.s(".f")
		w.sp(1 + r.Intn(20))
		w.s(hx.Pick(r, []string{"+=", "-=", "*="}) + " x\n")
		out = fr(l, c)
	case "plainstore":
		// x[i] = v and x.f = v on immutable / frozen / being-iterated receivers
		recv := hx.Pick(r, []string{"t", "y", "flist", "fdict", "iterated", "rec", "frec"})
		if recv == "iterated" {
			w.s(ind + "lst = [1, 2, 3]\n" + ind + "for _q in lst:\n")
			ind += "    "
			recv = "lst"
		}
		w.s(ind + recv)
		w.sp(g.colPad())
		l, c := w.mark()
		if recv == "rec" || recv == "frec" {
			w.s(".f = x\n")
		} else {
			w.s("[")
			if r.Bool() {
				w.nl(1 + r.Intn(3))
				w.sp(r.Intn(40))
			}
			w.s("0")
			if r.Bool() {
				w.nl(1)
			}
			w.s("] = x\n")
		}
		out = fr(l, c)
	case "seqstore":
		// a sequence assignment whose targets include an index / field target that cannot be stored
		opener := hx.Pick(r, []string{"", "[", "("})
		w.s(ind + opener + "a, ")
		recv := hx.Pick(r, []string{"t", "flist", "rec", "frec"})
		w.sp(r.Intn(30))
		w.s(recv)
		w.sp(r.Intn(5))
		l, c := w.mark()
		if recv == "rec" || recv == "frec" {
			w.s(".f")
		} else {
			w.s("[0]")
		}
		out = fr(l, c)
		w.s(map[string]string{"": "", "[": "]", "(": ")"}[opener] + " = 5, 6\n")
		seqClose = true
	case "argbind":
		// The callee rejects its arguments before its first instruction runs: the
		// innermost frame is the callee with a fresh frame (pc 0), which reports the
		// first position of the callee's code -- whatever ran before on the thread.
		closer := g.openCtx(ind, tail)
		w.s("g_two")
		l, c := w.mark()
		w.s(hx.Pick(r, []string{"(x)", "(x, x, x)", "(x, zz = 1)", "(x, x, a = 2)", "()"}) + closer)
		w.s("def g_two(a, b):\n")
		w.s("    q = ")
		g.noPrefix = true
		g.openParenAndMove()
		g.noPrefix = false
		l0, c0 := w.mark()
		w.s("a + 1)\n")
		w.nl(r.Intn(30))
		w.s("    r = [q,")
		w.sp(g.colPad())
		w.s("q * 2, q - a]\n")
		w.nl(r.Intn(30))
		w.s("    return r[0] - b\n")
		out = append(fr(l, c), Frame{Name: "g_two", Line: l0, Col: c0})
	case "recursive":
		// The recursion check fails in the callee before its first instruction: the
		// second frame of the same function is fresh (pc 0 => first position).
		closer := g.openCtx(ind, tail)
		w.s(name)
		w.sp(r.Intn(3))
		l, c := w.mark()
		w.s("(x)" + closer)
		out = append(fr(l, c), Frame{Name: name, Line: firstL, Col: firstC})
	case "pluschain":
		// A chain a + b + c + ... with runs of adjacent literals (which the compiler
		// folds into one constant), possibly spread over lines; the generator works
		// out, left to right, which '+' is the first whose operand types differ.
		closer := g.openCtx(ind, tail)
		type operand struct {
			text string
			ty   int // 0 int, 1 string, 2 list, 3 tuple
		}
		lit := func(ty int) operand {
			switch ty {
			case 1:
				return operand{fmt.Sprintf("\"s%d\"", r.Intn(9)), 1}
			case 2:
				return operand{fmt.Sprintf("[%d]", r.Intn(9)), 2}
			default:
				return operand{fmt.Sprintf("(%d, %d)", r.Intn(9), r.Intn(9)), 3}
			}
		}
		vars := []operand{{"x", 0}, {"y", 1}, {"t", 3}, {"[x]", 2}}
		var ops []operand
		litTy := 1 + r.Intn(3)
		run := func() {
			k := 1 + r.Intn(4)
			for q := 0; q < k; q++ {
				ops = append(ops, lit(litTy))
			}
		}
		switch r.Intn(4) {
		case 0: // the non-literal operand first, then a run of literals
			ops = append(ops, vars[0])
			run()
		case 1: // a literal of another kind, then a run
			ops = append(ops, lit(1+litTy%3))
			run()
		case 2: // run, non-literal in the middle (of the literals' type, so it is fine), run, then a mismatch
			run()
			for _, v := range vars {
				if v.ty == litTy {
					ops = append(ops, v)
				}
			}
			run()
			ops = append(ops, vars[0])
			if r.Bool() {
				run()
			}
		default: // any mixture
			n := 2 + r.Intn(6)
			for q := 0; q < n; q++ {
				if r.Intn(3) == 0 {
					ops = append(ops, hx.Pick(r, vars))
				} else {
					ops = append(ops, lit(1+r.Intn(3)))
				}
			}
			ops = append(ops, vars[0], lit(1))
		}
		cur := ops[0].ty
		var fl, fc int32
		failed := false
		w.s(ops[0].text)
		for _, o := range ops[1:] {
			if r.Intn(3) == 0 && !g.oneLine {
				w.nl(1 + r.Intn(3))
				w.sp(r.Intn(60))
			} else {
				w.sp(1 + r.Intn(3))
			}
			l, c := w.mark()
			w.s("+")
			w.sp(r.Intn(3))
			if r.Intn(5) == 0 && !g.oneLine {
				w.nl(1)
				w.sp(r.Intn(30))
			}
			w.s(o.text)
			if !failed && o.ty != cur {
				failed = true
				fl, fc = l, c
			}
		}
		w.s("" + closer)
		out = fr(fl, fc)
	}
	_ = seqClose
	return out
}

// Predeclared host values for the failing-store kinds.
type recValue struct{ settable bool }

func (r *recValue) String() string        { return "rec" }
func (r *recValue) Type() string          { return "rec" }
func (r *recValue) Freeze()               {}
func (r *recValue) Truth() starlark.Bool  { return true }
func (r *recValue) Hash() (uint32, error) { return 0, fmt.Errorf("unhashable") }
func (r *recValue) Attr(name string) (starlark.Value, error) {
	if name == "f" {
		return starlark.MakeInt(3), nil
	}
	return nil, nil
}
func (r *recValue) AttrNames() []string { return []string{"f"} }

// frecValue has a SetField that always fails (a frozen record).
type frecValue struct{ recValue }

func (r *frecValue) SetField(name string, v starlark.Value) error {
	return fmt.Errorf("cannot set field of frozen rec")
}

func predeclared() starlark.StringDict {
	fl := starlark.NewList([]starlark.Value{starlark.MakeInt(1), starlark.MakeInt(2), starlark.MakeInt(3)})
	fl.Freeze()
	fd := starlark.NewDict(1)
	fd.SetKey(starlark.String("k"), starlark.MakeInt(1))
	fd.Freeze()
	return starlark.StringDict{"rec": &recValue{}, "frec": &frecValue{}, "flist": fl, "fdict": fd}
}

var progOpts = &syntax.FileOptions{While: true}

const progFile = "c16.star"

func frameOf(cf starlark.CallFrame) Frame {
	f := Frame{Name: cf.Name, Line: cf.Pos.Line, Col: cf.Pos.Col}
	if fn := cf.Pos.Filename(); fn != progFile {
		f.File = fn
	}
	return f
}

func expectedBacktraceLines(fs []Frame) (lines []string, suffix string) {
	if n := len(fs); n > 0 && fs[n-1].File == "<builtin>" {
		suffix = " in " + fs[n-1].Name
		fs = fs[:n-1]
	}
	lines = append(lines, "Traceback (most recent call last):")
	for _, f := range fs {
		switch {
		case f.File == "<builtin>":
			lines = append(lines, fmt.Sprintf("  <builtin>: in %s", f.Name))
		case f.Line < 0:
			lines = append(lines, "") // unspecified
		case f.ColMax > f.Col:
			lines = append(lines, "") // a range of columns: compared frame by frame, not as text
		default:
			lines = append(lines, fmt.Sprintf("  %s:%d:%d: in %s", progFile, f.Line, f.Col, f.Name))
		}
	}
	return lines, "Error" + suffix + ": "
}

func btMatches(bt string, fs []Frame) bool {
	want, errPrefix := expectedBacktraceLines(fs)
	got := strings.Split(bt, "\n")
	if len(got) < len(want)+1 {
		return false
	}
	for i, wl := range want {
		if wl == "" {
			continue
		}
		if got[i] != wl {
			return false
		}
	}
	return strings.HasPrefix(got[len(want)], errPrefix)
}

// warmThread returns a thread on which unrelated calls ran to completion down
// to depth `depth`, each frame having executed `work` filler statements before
// its nested call (so the frames the thread recycles have been at large pcs).
var warmProgs = map[string]*starlark.Program{}

func warmThread(depth, work int, viaBuiltin bool) (*starlark.Thread, string) {
	key := fmt.Sprintf("depth=%d,work=%d,builtin=%v", depth, work, viaBuiltin)
	prog := warmProgs[key]
	if prog == nil {
		var sb strings.Builder
		sb.WriteString("def w0(x):\n    return x\n")
		for k := 1; k <= depth; k++ {
			fmt.Fprintf(&sb, "def w%d(x):\n", k)
			for q := 0; q < work; q++ {
				fmt.Fprintf(&sb, "    _a%d = [x, x + %d, (x * 2) - 1]\n", q, q)
			}
			if viaBuiltin && k%3 == 0 {
				fmt.Fprintf(&sb, "    return max([x, x], key = w%d)\n", k-1)
			} else {
				fmt.Fprintf(&sb, "    return w%d(x) + 0\n", k-1)
			}
		}
		fmt.Fprintf(&sb, "_r = [w%d(1), w%d(2)]\n", depth, depth)
		_, p, err := starlark.SourceProgramOptions(&syntax.FileOptions{}, "warm.star", sb.String(), func(string) bool { return false })
		if err != nil {
			panic(err)
		}
		warmProgs[key] = p
		prog = p
	}
	thread := &starlark.Thread{Name: "c16"}
	if _, err := prog.Init(thread, nil); err != nil {
		panic("warm-up failed: " + err.Error())
	}
	return thread, key
}

// laterFailure makes another, unrelated evaluation fail on the thread (shallow
// stacks of several shapes).
var laterProgs = map[int]*starlark.Program{}

func laterFailure(th *starlark.Thread, shape int) {
	p := laterProgs[shape]
	if p == nil {
		src := []string{
			"ZZ = 1 // 0\n",
			"def la(x):\n    return x.nosuch\nla(1)\n",
			"def lb(x):\n    return [1][x]\ndef la(x):\n    return lb(x + 5)\n_ = la(1)\n",
			"_ = sorted([1, 2], key = lambda v: v + \"s\")\n",
		}[shape]
		var err error
		_, p, err = starlark.SourceProgramOptions(progOpts, "later.star", src, predeclared().Has)
		if err != nil {
			panic(err)
		}
		laterProgs[shape] = p
	}
	p.Init(th, predeclared())
}

func execProg(prog *starlark.Program) (frames []Frame, errs string, bt string, problem string) {
	return execProgOn(&starlark.Thread{Name: "c16"}, prog)
}

func execProgOn(thread *starlark.Thread, prog *starlark.Program) (frames []Frame, errs string, bt string, problem string) {
	defer func() {
		if e := recover(); e != nil {
			problem = fmt.Sprint("panic: ", e)
		}
	}()
	_, err := prog.Init(thread, predeclared())
	if err == nil {
		return nil, "", "", "program did not fail"
	}
	ee, ok := err.(*starlark.EvalError)
	if !ok {
		return nil, err.Error(), "", "error is not an EvalError"
	}
	for _, cf := range ee.CallStack {
		frames = append(frames, frameOf(cf))
	}
	return frames, ee.Msg, ee.Backtrace(), ""
}

func genCase(seed uint64, i int) (src string, pc ProgCase) {
	r := hx.NewRand(seed*2000003 + uint64(i)*104729 + 5)
	g := &gen{r: r, w: newW()}
	depth := 1 + r.Intn(8)
	links := make([]string, depth+1)
	for k := 1; k < depth; k++ {
		links[k] = hx.Pick(r, linkKinds)
	}
	// make every failing kind and link kind appear regularly
	failKind := failKinds[i%len(failKinds)]
	g.ctx = (i/len(failKinds)*7 + (i%len(failKinds))*5 + int(seed%nCtx)) % nCtx
	if depth > 1 {
		links[1+r.Intn(depth-1)] = linkKinds[(i/len(failKinds))%len(linkKinds)]
	}
	src, expected := g.genProgram(depth, links, failKind)
	pc = ProgCase{Kind: "prog", Seed: seed, I: i, Links: links[1:depth], Fail: failKind, Ctx: ctxNames[g.ctx], Depth: len(expected),
		SrcLen: len(src), Expected: expected, MaxLine: g.w.line, MaxCol: g.w.maxcol}
	seen := map[string]bool{}
	var lay []string
	for _, l := range g.layout {
		if !seen[l] {
			seen[l] = true
			lay = append(lay, l)
		}
	}
	pc.Layout = strings.Join(lay, ",")
	return src, pc
}

func runProg(seed uint64, i int, withLNT bool) ProgCase {
	src, pc := genCase(seed, i)
	if len(src) < 3000 {
		pc.Src = src
	}
	_, prog, err := starlark.SourceProgramOptions(progOpts, progFile, src, predeclared().Has)
	if err != nil {
		pc.Problem = "does not compile: " + err.Error()
		if len(src) < 20000 {
			pc.Src = src
		}
		return pc
	}
	pc.Got, pc.Err, pc.Bt, pc.Problem = execProg(prog)
	pc.BtOK = btMatches(pc.Bt, pc.Expected)
	if len(pc.Bt) > 1500 {
		pc.Bt = pc.Bt[:1500]
	}
	// an error is a value: inspect it again after later failures on the same thread
	// (a runner that collects errors and reports them at the end)
	{
		th := &starlark.Thread{Name: "c16"}
		_, err1 := prog.Init(th, predeclared())
		if ee, ok := err1.(*starlark.EvalError); ok {
			bt1 := ee.Backtrace()
			lr := hx.NewRand(seed*131 + uint64(i))
			for k, nk := 0, 1+lr.Intn(3); k < nk; k++ {
				laterFailure(th, lr.Intn(4))
			}
			for _, cf := range ee.CallStack {
				pc.GotLater = append(pc.GotLater, frameOf(cf))
			}
			pc.BtLater = ee.Backtrace() == bt1
		}
	}
	// the same on a thread with a history: the report must not depend on what ran before
	{
		wr := hx.NewRand(seed*77 + uint64(i))
		th, key := warmThread(12+wr.Intn(8), 1+wr.Intn(12), wr.Bool())
		var pw string
		pc.GotWarm, _, _, pw = execProgOn(th, prog)
		pc.Warm = key
		if pw != "" {
			pc.Problem += " warm: " + pw
		}
	}
	// the same after a serialisation round trip
	var buf bytes.Buffer
	if err := prog.Write(&buf); err != nil {
		pc.Problem += " write: " + err.Error()
		return pc
	}
	prog2, err := starlark.CompiledProgram(&buf)
	if err != nil {
		pc.Problem += " CompiledProgram: " + err.Error()
		return pc
	}
	var bt2, p2 string
	pc.GotSer, pc.ErrSer, bt2, p2 = execProg(prog2)
	if p2 != "" {
		pc.Problem += " after serialisation: " + p2
	}
	pc.BtSerOK = btMatches(bt2, pc.Expected)
	if withLNT {
		for fi, f := range starlark.VerifProgramLNT(prog) {
			fl := FuncLNT{Name: f.Name, Line: f.Line, Col: f.Col, CodeLen: f.CodeLen, Tab: f.Tab, Rows: rows3(f.Rows), HRows: hashRows(f.Rows)}
			if fl.Tab == nil {
				fl.Tab = []uint16{}
			}
			step := 1
			if f.CodeLen > 24 {
				step = f.CodeLen / 24
			}
			for p := 0; p < f.CodeLen; p += step {
				l, c := starlark.VerifFuncPosition(prog, fi, uint32(p))
				fl.Pos = append(fl.Pos, [3]int64{int64(p), int64(l), int64(c)})
			}
			pc.Funcs = append(pc.Funcs, fl)
		}
	}
	return pc
}


// ---------------------------------------------------------------- trace mode
//
// A generated program whose complete call history is known to the generator:
// every statement is a call of the built-in probe(), a call of another
// generated function, or the one failing operation.  probe() records
// thread.CallStack(); the history is printed as the events of the machine of
// coq/C16/Stack.v, with source positions (line*100000+col) standing for pcs.

type TraceCase struct {
	Kind     string       `json:"kind"` // "trace"
	Seed     uint64       `json:"seed"`
	I        int          `json:"i"`
	Names    []string     `json:"names"`  // callable id -> name
	Events   [][2]int64   `json:"events"` // (0,c) call, (1,pc) step, (2,0) return, (3,0) fail
	Snaps    [][][2]int64 `json:"snaps"`  // observed stack (id, pc) at each probe, in order
	ExpSnaps [][][2]int64 `json:"exp_snaps"`
	Final    [][2]int64   `json:"final"` // observed EvalError.CallStack
	ExpFinal [][2]int64   `json:"exp_final"`
	Problem  string       `json:"problem,omitempty"`
	Src      string       `json:"src,omitempty"`
}

type tstmt struct {
	kind   int // 0 probe, 1 call, 2 fail
	callee int
	pc     int64
}

func runTrace(seed uint64, i int) TraceCase {
	r := hx.NewRand(seed*3000017 + uint64(i)*15485863 + 11)
	tc := TraceCase{Kind: "trace", Seed: seed, I: i}
	nf := 1 + r.Intn(8)
	probeID := nf + 1
	tc.Names = append(tc.Names, "<toplevel>")
	for k := 1; k <= nf; k++ {
		tc.Names = append(tc.Names, fmt.Sprintf("g%d", k))
	}
	tc.Names = append(tc.Names, "probe")
	// the failing path: toplevel -> ... -> some function; chosen as an increasing chain of indices
	failPath := []int{0}
	for k := 1; k <= nf; k++ {
		if r.Intn(2) == 0 || k == nf {
			failPath = append(failPath, k)
		}
	}
	onPath := map[int]int{} // function -> next on the failing path (or -1: fails itself)
	for k := 0; k+1 < len(failPath); k++ {
		onPath[failPath[k]] = failPath[k+1]
	}
	onPath[failPath[len(failPath)-1]] = -1
	bodies := make([][]tstmt, nf+1)
	w := newW()
	w.s("# generated for C16 (trace)\n")
	writeBody := func(fi int, ind string) {
		n := r.Intn(4)
		var st []tstmt
		for q := 0; q < n; q++ {
			if r.Intn(2) == 0 || fi == nf {
				st = append(st, tstmt{kind: 0})
			} else {
				st = append(st, tstmt{kind: 1, callee: fi + 1 + r.Intn(nf-fi)})
			}
		}
		if nxt, ok := onPath[fi]; ok {
			if nxt < 0 {
				st = append(st, tstmt{kind: 2})
			} else {
				st = append(st, tstmt{kind: 1, callee: nxt})
			}
		}
		if len(st) == 0 {
			st = append(st, tstmt{kind: 0})
		}
		for q := range st {
			w.nl(r.Intn(3))
			w.s(ind + "_v = ")
			w.s("(")
			w.sp(r.Intn(50))
			switch st[q].kind {
			case 0:
				w.s("probe")
				l, c := w.mark()
				st[q].pc = int64(l)*100000 + int64(c)
				w.s("(x))\n")
			case 1:
				w.s(fmt.Sprintf("g%d", st[q].callee))
				w.sp(r.Intn(3))
				l, c := w.mark()
				st[q].pc = int64(l)*100000 + int64(c)
				w.s("(x))\n")
			case 2:
				w.s("x ")
				l, c := w.mark()
				st[q].pc = int64(l)*100000 + int64(c)
				w.s("+ \"s\")\n")
			}
		}
		bodies[fi] = st
	}
	// a callee never lies on the failing path unless it is the designated next
	// one, and a function that fails must not be called earlier as a plain callee:
	// restrict plain callees to functions off the path.
	for fi := nf; fi >= 1; fi-- {
		w.nl(r.Intn(4))
		w.s(fmt.Sprintf("def g%d(x):\n", fi))
		writeBody(fi, "    ")
		w.s("    return x\n")
	}
	w.s("x = 1\n")
	writeBody(0, "")
	// repair: plain calls to functions that (transitively) fail would end the history early; retarget them to probes
	fails := map[int]bool{}
	for k := range onPath {
		fails[k] = true
	}
	src := w.sb.String()
	// simulate
	var events [][2]int64
	var stack [][2]int64
	var snaps [][][2]int64
	budget := 4000
	var sim func(fi int) bool // false = failed
	sim = func(fi int) bool {
		for qi, s := range bodies[fi] {
			if budget--; budget < 0 {
				return true
			}
			last := qi == len(bodies[fi])-1
			events = append(events, [2]int64{1, s.pc})
			stack[len(stack)-1][1] = s.pc
			switch s.kind {
			case 0:
				events = append(events, [2]int64{0, int64(probeID)})
				snap := append(append([][2]int64{}, stack...), [2]int64{int64(probeID), 0})
				snaps = append(snaps, snap)
				events = append(events, [2]int64{2, 0})
			case 1:
				events = append(events, [2]int64{0, int64(s.callee)})
				stack = append(stack, [2]int64{int64(s.callee), 0})
				ok := sim(s.callee)
				if !ok {
					return false
				}
				stack = stack[:len(stack)-1]
				events = append(events, [2]int64{2, 0})
			case 2:
				events = append(events, [2]int64{3, 0})
				return false
			}
			_ = last
		}
		return true
	}
	events = append(events, [2]int64{0, 0})
	stack = append(stack, [2]int64{0, 0})
	failed := !sim(0)
	if budget < 0 {
		tc.Problem = "history too long"
		return tc
	}
	if !failed {
		tc.Problem = "generator: history does not fail"
		return tc
	}
	tc.Events = events
	tc.ExpSnaps = snaps
	tc.ExpFinal = append([][2]int64{}, stack...)
	if len(src) < 4000 {
		tc.Src = src
	}
	// run the real thing
	id := map[string]int64{}
	for k, n := range tc.Names {
		id[n] = int64(k)
	}
	conv := func(cs starlark.CallStack) [][2]int64 {
		out := make([][2]int64, len(cs))
		for k, f := range cs {
			v, ok := id[f.Name]
			if !ok {
				v = -1
			}
			out[k] = [2]int64{v, int64(f.Pos.Line)*100000 + int64(f.Pos.Col)}
		}
		return out
	}
	probe := starlark.NewBuiltin("probe", func(thread *starlark.Thread, b *starlark.Builtin, args starlark.Tuple, kwargs []starlark.Tuple) (starlark.Value, error) {
		tc.Snaps = append(tc.Snaps, conv(thread.CallStack()))
		return starlark.None, nil
	})
	pre := starlark.StringDict{"probe": probe}
	_, prog, err := starlark.SourceProgramOptions(&syntax.FileOptions{GlobalReassign: true}, progFile, src, pre.Has)
	if err != nil {
		tc.Problem = "does not compile: " + err.Error()
		tc.Src = src
		return tc
	}
	thread := &starlark.Thread{Name: "c16t"}
	_, err = prog.Init(thread, pre)
	ee, ok := err.(*starlark.EvalError)
	if !ok {
		tc.Problem = fmt.Sprint("no EvalError: ", err)
		return tc
	}
	tc.Final = conv(ee.CallStack)
	return tc
}

// ----------------------------------------------------------------- conc mode
//
// Several threads fail at the same time in the same frozen function of a
// freshly loaded program (no position of it has been looked up yet); the
// function has a big position table and the failing instruction is late in it.
// Every thread's CallStack must carry the expected positions.

type ConcCase struct {
	Kind     string  `json:"kind"` // "conc"
	Seed     uint64  `json:"seed"`
	I        int     `json:"i"`
	Funcs    int     `json:"funcs"`
	Rows     int     `json:"rows"` // positioned instructions per function (approx.)
	Threads  int     `json:"threads"`
	Reloads  int     `json:"reloads"`
	Lookups  int     `json:"lookups"` // failing calls observed
	Wrong    int     `json:"wrong"`
	Expected []Frame `json:"expected,omitempty"` // of the first wrong observation
	Got      []Frame `json:"got,omitempty"`
	Panic    string  `json:"panic,omitempty"`
	Problem  string  `json:"problem,omitempty"`
}

// A hookCaller is a Go callable with a Position method (the public
// callableWithPosition protocol): a built-in frame that reports a position.
type hookCaller struct {
	fn      starlark.Value
}

var hookFile = "hook.go"

func (c *hookCaller) Name() string          { return "caller" }
func (c *hookCaller) String() string        { return "caller" }
func (c *hookCaller) Type() string          { return "caller" }
func (c *hookCaller) Freeze()               {}
func (c *hookCaller) Truth() starlark.Bool  { return true }
func (c *hookCaller) Hash() (uint32, error) { return 0, fmt.Errorf("unhashable") }
func (c *hookCaller) CallInternal(thread *starlark.Thread, args starlark.Tuple, kwargs []starlark.Tuple) (starlark.Value, error) {
	return starlark.Call(thread, c.fn, args, nil)
}
func (c *hookCaller) Position() syntax.Position {
	return syntax.MakePosition(&hookFile, 1, 1)
}

func runConc(seed uint64, i int, reloads, nthreads int) ConcCase {
	const repeats = 300
	r := hx.NewRand(seed*5000011 + uint64(i)*999983 + 3)
	cc := ConcCase{Kind: "conc", Seed: seed, I: i, Threads: nthreads, Reloads: reloads}
	nf := 2 + r.Intn(2)
	lines := 4000 + r.Intn(4000)
	per := 12 + r.Intn(12)
	cc.Funcs, cc.Rows = nf, lines*per
	w := newW()
	type want struct{ outerL, outerC, l, c int32 }
	wants := make([]want, nf)
	filler := "        a = [" + strings.TrimSuffix(strings.Repeat("x, ", per), ", ") + "]\n"
	for k := 0; k < nf; k++ {
		// The compiler lays out the false successor of a branch first and the true
		// successor last: the 'then' branch below is at the END of the code and of the
		// position table, yet it is reached after a handful of instructions.
		w.s(fmt.Sprintf("def big%d(x):\n    if x:\n        return (", k))
		w.nl(r.Intn(3))
		w.sp(r.Intn(200))
		w.s("1 ")
		wants[k].l, wants[k].c = w.mark()
		w.s("// (x - x))\n    else:\n")
		for q := 0; q < lines; q++ {
			w.s(filler)
		}
		w.s(fmt.Sprintf("def outer%d(x):\n    return big%d", k, k))
		w.sp(r.Intn(30))
		wants[k].outerL, wants[k].outerC = w.mark()
		w.s("(x)\n")
	}
	src := w.sb.String()
	_, prog0, err := starlark.SourceProgramOptions(progOpts, progFile, src, predeclared().Has)
	if err != nil {
		cc.Problem = "does not compile: " + err.Error()
		return cc
	}
	var buf bytes.Buffer
	if err := prog0.Write(&buf); err != nil {
		cc.Problem = err.Error()
		return cc
	}
	data := buf.Bytes()
	var mu sync.Mutex
	for rl := 0; rl < reloads; rl++ {
		// a fresh program: nothing decoded yet
		prog, err := starlark.CompiledProgram(bytes.NewReader(data))
		if err != nil {
			cc.Problem = err.Error()
			return cc
		}
		globals, err := prog.Init(&starlark.Thread{Name: "init"}, predeclared())
		if err != nil {
			cc.Problem = "init: " + err.Error()
			return cc
		}
		for k := 0; k < nf; k++ {
			var fn starlark.Value = globals[fmt.Sprintf("outer%d", k)]
			exp := []Frame{{Name: fmt.Sprintf("outer%d", k), Line: wants[k].outerL, Col: wants[k].outerC},
				{Name: fmt.Sprintf("big%d", k), Line: wants[k].l, Col: wants[k].c}}
			if (rl+k)%2 == 0 {
				// through a Go callable whose Position method lines the threads up
				fn = &hookCaller{fn: globals[fmt.Sprintf("big%d", k)]}
				exp = []Frame{{Name: "caller", File: hookFile, Line: 1, Col: 1}, exp[1]}
			}
			start := make(chan struct{})
			var ready, done sync.WaitGroup
			for t := 0; t < nthreads; t++ {
				ready.Add(1)
				done.Add(1)
				go func(t int) {
					defer done.Done()
					defer func() {
						if e := recover(); e != nil {
							mu.Lock()
							cc.Panic = fmt.Sprint(e)
							mu.Unlock()
						}
					}()
					thread := &starlark.Thread{Name: fmt.Sprint("t", t)}
					ready.Done()
					<-start
					// Thread 0 performs the first lookup.  A thread that arrives while the
					// table is still being allocated waits for the decoding to finish; one
					// that arrives later looks up while it is being decoded.  The length of
					// the two phases varies widely, so the threads start 15, 30, 60, ... us apart.
					if t > 0 {
						for t0 := time.Now(); time.Since(t0) < time.Duration(15<<uint(t-1))*time.Microsecond; {
						}
					}
					// fail again and again for about as long as the first lookup of the
					// function's positions takes (allocation + decoding of the table), so
					// that some thread's lookup falls into every phase of it
					for rep := 0; rep < repeats; rep++ {
						_, err := starlark.Call(thread, fn, starlark.Tuple{starlark.MakeInt(1)}, nil)
						var got []Frame
						if ee, ok := err.(*starlark.EvalError); ok {
							for _, cf := range ee.CallStack {
								got = append(got, frameOf(cf))
							}
						}
						same := len(got) == len(exp)
						for q := 0; same && q < len(exp); q++ {
							same = got[q] == exp[q]
						}
						if !same || rep == repeats-1 {
							mu.Lock()
							cc.Lookups += rep + 1
							if !same {
								cc.Wrong++
								if cc.Got == nil {
									cc.Expected, cc.Got = exp, got
									if cc.Got == nil {
										cc.Got = []Frame{}
									}
								}
							}
							mu.Unlock()
							break
						}
					}
				}(t)
			}
			ready.Wait()
			close(start)
			done.Wait()
		}
	}
	return cc
}

func main() {
	mode := flag.String("mode", "codec", "codec | prog | one")
	seed := flag.Uint64("seed", 1, "")
	n := flag.Int("n", 100, "number of cases")
	idx := flag.Int("i", 0, "case index (mode one)")
	lnt := flag.Int("lnt", 0, "prog mode: dump the position tables of the first K programs")
	reloads := flag.Int("reloads", 6, "conc mode: fresh copies of each program")
	nthreads := flag.Int("threads", 8, "conc mode: goroutines failing at the same time")
	maxtab := flag.Int("maxtab", 200000, "codec mode: omit the data of cases whose table is longer")
	flag.Parse()
	defer hx.Flush()
	switch *mode {
	case "codec":
		for i := 0; i < *n; i++ {
			class := codecClasses[i%len(codecClasses)]
			cc := runCodec(*seed, i, class)
			cc.NTab, cc.NRows = len(cc.Tab), len(cc.Rows)
			if cc.NTab > *maxtab && cc.GoRoundtrip && cc.GoLookup && cc.Panic == "" {
				cc.Big = true
				cc.Rows, cc.Tab, cc.Dec, cc.Pos = nil, nil, nil, nil
			} else if cc.NTab > 64 && cc.GoRoundtrip && cc.Panic == "" {
				cc.Tab, cc.Dec = nil, nil // the digests stand for them
			}
			hx.Emit(cc)
		}
	case "prog":
		for i := 0; i < *n; i++ {
			hx.Emit(runProg(*seed, i, i < *lnt))
		}
	case "conc":
		for i := 0; i < *n; i++ {
			hx.Emit(runConc(*seed, i, *reloads, *nthreads))
			hx.Flush()
		}
	case "trace":
		for i := 0; i < *n; i++ {
			hx.Emit(runTrace(*seed, i))
		}
	case "one":
		src, _ := genCase(*seed, *idx)
		os.Stdout.WriteString(src)
	}
}
