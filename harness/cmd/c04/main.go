// c04: deep immutability after module execution.
//
// Generates object-graph descriptions (shared, nested, cyclic; closures over
// mutable values; defaults; bound methods; host values passed in through
// predeclared), renders each as a Starlark module, executes it with the real
// interpreter (to success or to a planted failure), and then, for every
// described object and every mutator (the methods discovered from AttrNames,
// the interpreter's assignment opcodes, the Go API), attempts the mutation on
// a fresh Instance and records error / no error and the object's contents
// before and after.  One JSON object per graph; every graph runs in a child
// process so that a fatal error (stack overflow in Freeze) is observable.
package main

import (
	"bytes"
	"context"
	"encoding/json"
	"flag"
	"fmt"
	"os"
	"os/exec"
	"runtime/debug"
	"sort"
	"strings"
	"time"

	"go.starlark.net/starlark"
	"go.starlark.net/syntax"

	"verifharness/internal/graphs"
	"verifharness/internal/hx"
)

// ------------------------------------------------------------------ operations

type KV struct {
	K int64 `json:"k"`
	V Val   `json:"v"`
}

type Op struct {
	N   string    `json:"n"`
	I   *int64    `json:"i,omitempty"`
	V   *Val      `json:"v,omitempty"`
	Vs  []Val     `json:"vs"`
	K   *int64    `json:"k,omitempty"`
	D   *Val      `json:"d,omitempty"`
	KVs []KV      `json:"kvs"`
	Kss [][]int64 `json:"kss"`
	Alt int       `json:"alt,omitempty"` // another spelling of the same operation: 1 tuple / dict argument, 2 a host iterable of unknown length
}

type Probe struct {
	Node   int    `json:"node"`
	Op     Op     `json:"op"`
	Via    string `json:"via"`
	Err    bool   `json:"err"`
	Msg    string `json:"msg,omitempty"`
	After  []Val  `json:"after"` // nil: contents as before
	Others []int  `json:"others,omitempty"`
	Viol   string `json:"viol,omitempty"`
	Skip   bool   `json:"skip,omitempty"`
}

func i64(x int64) *int64 { return &x }
func pv(v Val) *Val      { return &v }

func opsFor(d *Desc, nd *Node, r *hx.Rand) []Op {
	n := int64(0)
	pay := func() Val {
		if r.Intn(2) == 0 {
			return graphs.Atom(int64(40 + r.Intn(5)))
		}
		for t := 0; t < 8; t++ {
			c := r.Intn(len(d.Nodes))
			if d.Nodes[c].Exists {
				return graphs.Ref(c)
			}
		}
		return graphs.Atom(41)
	}
	var atomsIn []int64
	for i, e := range nd.Elems {
		if !e.IsRef() && (nd.Kind != "dict" || i%2 == 0) {
			atomsIn = append(atomsIn, e[1])
		}
	}
	present := func() int64 {
		if len(atomsIn) > 0 {
			return atomsIn[r.Intn(len(atomsIn))]
		}
		return 77
	}
	absent := int64(555)
	var ops []Op
	switch nd.Kind {
	case "list":
		n = int64(len(nd.Elems))
		idx := []int64{0, -1, n - 1, n, -n, -n - 1, n + 1}
		ops = append(ops,
			Op{N: "LAppend", V: pv(pay())}, Op{N: "LClear"}, Op{N: "LExtend", Vs: []Val{}}, Op{N: "LExtend", Vs: []Val{pay(), pay()}},
			Op{N: "LInsert", I: i64(hx.Pick(r, idx)), V: pv(pay())}, Op{N: "LInsert", I: i64(hx.Pick(r, idx)), V: pv(pay())},
			Op{N: "LPop"}, Op{N: "LPop", I: i64(hx.Pick(r, idx))}, Op{N: "LPop", I: i64(hx.Pick(r, idx))},
			Op{N: "LRemove", K: i64(present())}, Op{N: "LRemove", K: i64(absent)},
			Op{N: "LSetIndex", I: i64(hx.Pick(r, idx)), V: pv(pay())}, Op{N: "LSetIndex", I: i64(hx.Pick(r, idx)), V: pv(pay())},
			Op{N: "LInplaceAdd", Vs: []Val{}}, Op{N: "LInplaceAdd", Vs: []Val{pay()}},
			Op{N: "GoLAppend", V: pv(pay())}, Op{N: "GoLClear"}, Op{N: "XSetField", V: pv(pay())})
		if n > 0 {
			ops = append(ops, Op{N: "GoLSetIndex", I: i64(int64(r.Intn(int(n)))), V: pv(pay())})
		}
	case "dict":
		ops = append(ops,
			Op{N: "DClear"}, Op{N: "DPop", K: i64(present())}, Op{N: "DPop", K: i64(absent)}, Op{N: "DPop", K: i64(absent), D: pv(pay())},
			Op{N: "DPop", K: i64(present()), D: pv(pay())}, Op{N: "DPopitem"},
			Op{N: "DSetdefault", K: i64(present()), D: pv(pay())}, Op{N: "DSetdefault", K: i64(absent), D: pv(pay())},
			Op{N: "DUpdate", KVs: []KV{}}, Op{N: "DUpdate", KVs: []KV{{present(), pay()}, {absent, pay()}}},
			Op{N: "DSetKey", K: i64(present()), V: pv(pay())}, Op{N: "DSetKey", K: i64(absent), V: pv(pay())},
			Op{N: "DInplacePipe", KVs: []KV{}}, Op{N: "DInplacePipe", KVs: []KV{{absent, pay()}}},
			Op{N: "GoDSetKey", K: i64(hx.Pick(r, []int64{present(), absent})), V: pv(pay())},
			Op{N: "GoDDelete", K: i64(present())}, Op{N: "GoDDelete", K: i64(absent)}, Op{N: "GoDClear"}, Op{N: "XSetField", V: pv(pay())})
	case "set":
		ops = append(ops,
			Op{N: "SAdd", K: i64(present())}, Op{N: "SAdd", K: i64(absent)}, Op{N: "SClear"},
			Op{N: "SDiscard", K: i64(present())}, Op{N: "SDiscard", K: i64(absent)}, Op{N: "SPop"},
			Op{N: "SRemove", K: i64(present())}, Op{N: "SRemove", K: i64(absent)},
			Op{N: "SUpdate", Kss: [][]int64{}}, Op{N: "SUpdate", Kss: [][]int64{{}, {}}}, Op{N: "SUpdate", Kss: [][]int64{{present()}, {absent, 556}}}, Op{N: "SUpdate", Kss: [][]int64{{present(), absent}}}, Op{N: "SUpdate", Kss: [][]int64{{}}},
			Op{N: "GoSInsert", K: i64(hx.Pick(r, []int64{present(), absent})), V: nil},
			Op{N: "GoSDelete", K: i64(present())}, Op{N: "GoSDelete", K: i64(absent)}, Op{N: "GoSClear"}, Op{N: "XSetField", V: pv(pay())})
	case "hbox": // a host-defined mutable value: its bound method, its Go API, and the assignments it does not support
		ops = append(ops, Op{N: "LAppend", V: pv(pay())}, Op{N: "GoLAppend", V: pv(pay())}, Op{N: "XSetField", V: pv(pay())})
	default: // tuple, struct, func, bound: no mutators; item and field assignment must fail
		ops = append(ops, Op{N: "LSetIndex", I: i64(0), V: pv(pay())}, Op{N: "XSetField", V: pv(pay())})
	}
	return ops
}

// the Starlark-level spelling of an operation: method name + args, or an opcode of _apply
func spell(in *Instance, op Op) (name string, a, b starlark.Value, isMethod bool) {
	list := func(vs []Val) *starlark.List {
		var es []starlark.Value
		for _, v := range vs {
			es = append(es, in.Value(v))
		}
		return starlark.NewList(es)
	}
	kvlist := func(kvs []KV) *starlark.List {
		var es []starlark.Value
		for _, kv := range kvs {
			es = append(es, starlark.Tuple{starlark.MakeInt64(kv.K), in.Value(kv.V)})
		}
		return starlark.NewList(es)
	}
	switch op.N {
	case "LAppend":
		return "append", starlark.Tuple{in.Value(*op.V)}, nil, true
	case "LClear", "DClear", "SClear":
		return "clear", starlark.Tuple{}, nil, true
	case "LExtend":
		if op.Alt == 1 {
			return "extend", starlark.Tuple{tupleOf(list(op.Vs))}, nil, true
		}
		if op.Alt == 2 {
			return "extend", starlark.Tuple{&graphs.NoLen{Vals: tupleOf(list(op.Vs))}}, nil, true
		}
		return "extend", starlark.Tuple{list(op.Vs)}, nil, true
	case "LInsert":
		return "insert", starlark.Tuple{starlark.MakeInt64(*op.I), in.Value(*op.V)}, nil, true
	case "LPop":
		if op.I == nil {
			return "pop", starlark.Tuple{}, nil, true
		}
		return "pop", starlark.Tuple{starlark.MakeInt64(*op.I)}, nil, true
	case "LRemove":
		return "remove", starlark.Tuple{starlark.MakeInt64(*op.K)}, nil, true
	case "LSetIndex":
		return "setindex", starlark.MakeInt64(*op.I), in.Value(*op.V), false
	case "LInplaceAdd":
		if op.Alt == 1 {
			return "iadd", tupleOf(list(op.Vs)), nil, false
		}
		if op.Alt == 2 {
			return "iadd", &graphs.NoLen{Vals: tupleOf(list(op.Vs))}, nil, false
		}
		return "iadd", list(op.Vs), nil, false
	case "DPop":
		if op.D == nil {
			return "pop", starlark.Tuple{starlark.MakeInt64(*op.K)}, nil, true
		}
		return "pop", starlark.Tuple{starlark.MakeInt64(*op.K), in.Value(*op.D)}, nil, true
	case "DPopitem":
		return "popitem", starlark.Tuple{}, nil, true
	case "DSetdefault":
		return "setdefault", starlark.Tuple{starlark.MakeInt64(*op.K), in.Value(*op.D)}, nil, true
	case "DUpdate":
		if len(op.KVs) == 0 && op.K != nil { // spelled d.update() with no argument
			return "update", starlark.Tuple{}, nil, true
		}
		if op.Alt == 2 {
			return "update", starlark.Tuple{&graphs.NoLen{Vals: tupleOf(kvlist(op.KVs))}}, nil, true
		}
		if op.Alt == 1 {
			dd := starlark.NewDict(len(op.KVs))
			for _, kv := range op.KVs {
				dd.SetKey(starlark.MakeInt64(kv.K), in.Value(kv.V))
			}
			return "update", starlark.Tuple{dd}, nil, true
		}
		return "update", starlark.Tuple{kvlist(op.KVs)}, nil, true
	case "DSetKey":
		return "setindex", starlark.MakeInt64(*op.K), in.Value(*op.V), false
	case "DInplacePipe":
		dd := starlark.NewDict(2)
		for _, kv := range op.KVs {
			dd.SetKey(starlark.MakeInt64(kv.K), in.Value(kv.V))
		}
		return "ior", dd, nil, false
	case "SAdd":
		return "add", starlark.Tuple{starlark.MakeInt64(*op.K)}, nil, true
	case "SDiscard":
		return "discard", starlark.Tuple{starlark.MakeInt64(*op.K)}, nil, true
	case "SPop":
		return "pop", starlark.Tuple{}, nil, true
	case "SRemove":
		return "remove", starlark.Tuple{starlark.MakeInt64(*op.K)}, nil, true
	case "SUpdate":
		var args starlark.Tuple
		for _, ks := range op.Kss {
			var es []starlark.Value
			for _, k := range ks {
				es = append(es, starlark.MakeInt64(k))
			}
			switch op.Alt {
			case 1:
				args = append(args, starlark.Tuple(es))
			case 2:
				args = append(args, &graphs.NoLen{Vals: es})
			default:
				args = append(args, starlark.NewList(es))
			}
		}
		if args == nil {
			args = starlark.Tuple{}
		}
		return "update", args, nil, true
	case "XSetField":
		return "setfield", in.Value(*op.V), nil, false
	}
	return "", nil, nil, false
}

func tupleOf(l *starlark.List) starlark.Tuple {
	t := starlark.Tuple{}
	for i := 0; i < l.Len(); i++ {
		t = append(t, l.Index(i))
	}
	return t
}

func mutableKind(k string) bool { return k == "list" || k == "dict" || k == "set" || k == "hbox" }

func isGoOp(n string) bool { return strings.HasPrefix(n, "Go") }

func applyGo(in *Instance, id int, op Op) (err error, skipped bool) {
	switch x := in.Objs[id].(type) {
	case *graphs.Box:
		if op.N == "GoLAppend" {
			return x.Append(in.Value(*op.V)), false
		}
	case *starlark.List:
		switch op.N {
		case "GoLAppend":
			return x.Append(in.Value(*op.V)), false
		case "GoLClear":
			return x.Clear(), false
		case "GoLSetIndex":
			return x.SetIndex(int(*op.I), in.Value(*op.V)), false
		}
	case *starlark.Dict:
		switch op.N {
		case "GoDSetKey":
			return x.SetKey(starlark.MakeInt64(*op.K), in.Value(*op.V)), false
		case "GoDDelete":
			_, _, err := x.Delete(starlark.MakeInt64(*op.K))
			return err, false
		case "GoDClear":
			return x.Clear(), false
		}
	case *starlark.Set:
		switch op.N {
		case "GoSInsert":
			return x.Insert(starlark.MakeInt64(*op.K)), false
		case "GoSDelete":
			_, err := x.Delete(starlark.MakeInt64(*op.K))
			return err, false
		case "GoSClear":
			return x.Clear(), false
		}
	}
	return nil, true
}

// vias: the ways this operation can be performed on node id in this Instance
func vias(in *Instance, id int, op Op) []string {
	if isGoOp(op.N) {
		return []string{"go"}
	}
	name, _, _, isMethod := spell(in, op)
	out := []string{"mod"}
	if op.N == "SUpdate" && len(op.Kss) == 1 {
		out = append(out, "goinsertall") // Go API (*Set).InsertAll(iterator)
	}
	if isMethod {
		out = append(out, "api")
		for _, nd := range in.D.Nodes {
			if nd.Kind == "bound" && nd.Exists && nd.Recv == id && nd.Method == name && in.Objs[nd.ID] != nil {
				out = append(out, fmt.Sprintf("bound%d", nd.ID))
			}
		}
	}
	for _, nd := range in.D.Nodes {
		if nd.Kind != "func" || !nd.Exists || in.Objs[nd.ID] == nil {
			continue
		}
		usable := true // the closure builds a tuple of all its captured variables
		for _, c := range nd.Captures {
			if !in.D.Nodes[c].Exists {
				usable = false
			}
		}
		if !usable {
			continue
		}
		for j, c := range nd.Captures {
			if c == id {
				out = append(out, fmt.Sprintf("clo%d.%d", nd.ID, j))
			}
		}
		for j, dv := range nd.Defaults {
			if dv.IsRef() && int(dv[1]) == id {
				out = append(out, fmt.Sprintf("clo%d.%d", nd.ID, len(nd.Captures)+j))
			}
		}
	}
	return out
}

func apply(in *Instance, id int, op Op, via string) (err error) {
	defer func() {
		if e := recover(); e != nil {
			err = fmt.Errorf("PANIC: %v", e)
		}
	}()
	if via == "go" {
		e, _ := applyGo(in, id, op)
		return e
	}
	if via == "goinsertall" {
		var es []starlark.Value
		for _, k := range op.Kss[0] {
			es = append(es, starlark.MakeInt64(k))
		}
		it := starlark.NewList(es).Iterate()
		defer it.Done()
		return in.Objs[id].(*starlark.Set).InsertAll(it)
	}
	name, a, b, _ := spell(in, op)
	if a == nil {
		a = starlark.None
	}
	if b == nil {
		b = starlark.None
	}
	th := &starlark.Thread{Name: "probe"}
	tgt := in.Objs[id]
	switch {
	case via == "api":
		m, e := starlark.Value(nil), error(nil)
		if ha, ok := tgt.(starlark.HasAttrs); ok {
			m, e = ha.Attr(name)
		}
		if e != nil || m == nil {
			return fmt.Errorf("no attribute %s", name)
		}
		_, err = starlark.Call(th, m, a.(starlark.Tuple), nil)
		return err
	case via == "mod":
		f := in.Globals["_apply"]
		if f == nil {
			return fmt.Errorf("no _apply")
		}
		_, err = starlark.Call(th, f, starlark.Tuple{tgt, starlark.String(name), a, b}, nil)
		return err
	case strings.HasPrefix(via, "bound"):
		var bid int
		fmt.Sscanf(via, "bound%d", &bid)
		_, err = starlark.Call(th, in.Objs[bid], a.(starlark.Tuple), nil)
		return err
	case strings.HasPrefix(via, "clo"):
		var fid, j int
		fmt.Sscanf(via, "clo%d.%d", &fid, &j)
		_, err = starlark.Call(th, in.Objs[fid], starlark.Tuple{starlark.MakeInt(j), starlark.String(name), a, b}, in.D.Nodes[fid].Kwargs())
		return err
	}
	return fmt.Errorf("unknown via %s", via)
}

func noopCase(nd *Node, cur []Val, op Op) bool {
	switch op.N {
	case "DSetdefault":
		for j := 0; j+1 < len(cur); j += 2 {
			if !cur[j].IsRef() && cur[j][1] == *op.K {
				return true
			}
		}
	case "DUpdate":
		return len(op.KVs) == 0
	case "SClear":
		return len(cur) == 0
	case "SUpdate":
		for _, ks := range op.Kss {
			if len(ks) > 0 {
				return false
			}
		}
		return true
	}
	return false
}

var alwaysSucceeds = map[string]bool{
	"LAppend": true, "GoLAppend": true, "LClear": true, "GoLClear": true, "LExtend": true, "LInplaceAdd": true, "LInsert": true,
	"DClear": true, "GoDClear": true, "DSetKey": true, "GoDSetKey": true, "DUpdate": true, "DInplacePipe": true, "GoDDelete": true, "DSetdefault": true,
	"SAdd": true, "SClear": true, "GoSClear": true, "SDiscard": true, "GoSDelete": true, "SUpdate": true, "GoSInsert": true,
}

var knownMutators = map[string]map[string]bool{
	"hbox": {"append": true},
	"list": {"append": true, "clear": true, "extend": true, "insert": true, "pop": true, "remove": true},
	"dict": {"clear": true, "pop": true, "popitem": true, "setdefault": true, "update": true},
	"set":  {"add": true, "clear": true, "discard": true, "pop": true, "remove": true, "update": true},
}
var knownReaders = map[string]map[string]bool{
	"list": {"index": true},
	"dict": {"get": true, "items": true, "keys": true, "values": true},
	"set":  {"difference": true, "intersection": true, "issubset": true, "issuperset": true, "symmetric_difference": true, "union": true},
}

type (
	Val      = graphs.Val
	Node     = graphs.Node
	Desc     = graphs.Desc
	Instance = graphs.Instance
)

// -------------------------------------------------------------- derived values
//
// A value computed FROM a container (a slice, a copy, a sorted list, the items
// of a dict, a union ...) is a new value: mutating it must never change the
// container it was computed from -- in particular not a frozen one.

type Alias struct {
	Node   int    `json:"node"`
	Kind   string `json:"kind"`
	Frozen bool   `json:"frozen"` // the original must be immutable (reachable from the globals / frozen before)
	How    string `json:"how"`    // the expression (over x) or Go call that produced the derived value
	Mut    string `json:"mut"`    // what was done to the derived value
	Before []Val  `json:"before"`
	After  []Val  `json:"after"`
}

func deriveAll(in *Instance, id int, frozen bool, out *GraphOut) {
	nd := in.D.Nodes[id]
	v := in.Objs[id]
	th := &starlark.Thread{Name: "derive"}
	type deriv struct {
		how string
		f   func() starlark.Value
	}
	var ds []deriv
	for _, e := range graphs.DerivExprs[nd.Kind] {
		e := e
		ds = append(ds, deriv{e, func() starlark.Value {
			r, err := starlark.EvalOptions(graphs.EvalOpts, th, "derive", e, starlark.StringDict{"x": v})
			if err != nil {
				return nil
			}
			return r
		}})
	}
	if l, ok := v.(*starlark.List); ok {
		ds = append(ds, deriv{"Go x.Slice(0, n, 1)", func() starlark.Value { return l.Slice(0, l.Len(), 1) }})
		if l.Len() > 0 {
			ds = append(ds, deriv{"Go x.Slice(1, n, 1)", func() starlark.Value { return l.Slice(1, l.Len(), 1) }})
			ds = append(ds, deriv{"Go x.Slice(0, n-1, 1)", func() starlark.Value { return l.Slice(0, l.Len()-1, 1) }})
		}
	}
	// pure expressions (slicing, then concatenation / repetition): nothing is mutated by anyone
	for _, e := range graphs.ReadOnlyExprs[nd.Kind] {
		before := in.Contents(id)
		rawBefore, _, _, _ := starlark.VerifHeader(v)
		graphs.Derive(th, e, v, 7)
		graphs.Derive(th, e, v, 8)
		out.Derived++
		after := in.Contents(id)
		rawAfter, _, _, _ := starlark.VerifHeader(v)
		_, isTuple := v.(starlark.Tuple)
		if !graphs.EqVals(before, after) || ((frozen || isTuple) && !bytes.Equal(rawBefore, rawAfter)) {
			out.Alias = append(out.Alias, Alias{Node: id, Kind: nd.Kind, Frozen: frozen || isTuple, How: e, Mut: "(nothing: the expression only reads x)", Before: before, After: after})
			return
		}
	}
	for _, dv := range ds {
		for _, m := range graphs.DerivedMuts {
			before := in.Contents(id)
			rawBefore, _, _, _ := starlark.VerifHeader(v)
			d := dv.f()
			if d == nil {
				continue
			}
			switch d.(type) {
			case *starlark.List, *starlark.Dict, *starlark.Set:
			default:
				continue
			}
			func() {
				defer func() { recover() }()
				m.F(th, d)
			}()
			out.Derived++
			after := in.Contents(id)
			rawAfter, _, _, _ := starlark.VerifHeader(v)
			if !graphs.EqVals(before, after) || (frozen && !bytes.Equal(rawBefore, rawAfter)) {
				out.Alias = append(out.Alias, Alias{Node: id, Kind: nd.Kind, Frozen: frozen, How: dv.how, Mut: m.Name, Before: before, After: after})
				return // the original is damaged: stop here
			}
		}
	}
}

// ----------------------------------------------------------------------- run

type GraphOut struct {
	Kind     string   `json:"kind"`
	I        int      `json:"i"`
	Desc     *Desc    `json:"desc"`
	Src      string   `json:"src"`
	Failed   bool     `json:"failed"`
	ExecErr  string   `json:"exec_err,omitempty"`
	Roots    []int    `json:"roots"` // globals that were defined when execution returned (node ids)
	Walk     []int    `json:"walk"`  // described objects reachable from the globals through the Go API
	Reach    []int    `json:"reach"` // ... according to the description (oracle)
	Probes   []Probe  `json:"probes"`
	Gaps     []string `json:"gaps,omitempty"`
	EnvOK    bool     `json:"env_ok"`
	EnvNote  string   `json:"env_note,omitempty"`
	Readers  int      `json:"readers"`
	StormOps int      `json:"storm_ops"`
	Storm    string   `json:"storm,omitempty"`
	Derived  int      `json:"derived"`
	Alias    []Alias  `json:"alias,omitempty"`
	ReadViol []string `json:"read_viol,omitempty"`
}

func universeSnapshot() map[string]starlark.Value {
	m := map[string]starlark.Value{}
	for k, v := range starlark.Universe {
		m[k] = v
	}
	return m
}

func runGraph(seed uint64, i int, maxProbes int) GraphOut {
	r := hx.NewRand(seed*1000003 + uint64(i))
	d := graphs.Gen(r)
	if i == 0 {
		d = graphs.Corner() // never-written and large containers, one value of each kind
	}
	src := d.Source()
	out := GraphOut{Kind: "graph", I: i, Desc: d, Src: src, EnvOK: true}
	hx.Emit(map[string]any{"kind": "begin", "i": i, "src": src})
	hx.Flush()

	uni := universeSnapshot()
	in := graphs.Instantiate(d, src)
	out.Failed = in.Err != nil
	if in.Err != nil {
		out.ExecErr = in.Err.Error()
		if !strings.Contains(out.ExecErr, "planted failure") {
			out.Gaps = append(out.Gaps, "generator: module failed unexpectedly: "+out.ExecErr)
		}
	}
	// predeclared and universe unchanged
	if len(uni) != len(starlark.Universe) {
		out.EnvOK, out.EnvNote = false, "universe changed size"
	}
	for k, v := range uni {
		if starlark.Universe[k] != v {
			out.EnvOK, out.EnvNote = false, "universe entry rebound: "+k
		}
	}
	wantPre := 5 // struct, reg, pick, box, boom
	for _, nd := range d.Nodes {
		if nd.Host {
			wantPre++
		}
	}
	if len(in.Predecl) != wantPre {
		out.EnvOK, out.EnvNote = false, "predeclared changed size"
	}
	for _, nd := range d.Nodes {
		if nd.Host && in.Predecl[fmt.Sprintf("h%d", nd.ID)] != in.Objs[nd.ID] {
			out.EnvOK, out.EnvNote = false, "predeclared entry rebound"
		}
	}
	for k := range in.Globals {
		if _, ok := in.Predecl[k]; ok {
			out.EnvOK, out.EnvNote = false, "global shadows predeclared: "+k
		}
	}
	// roots
	for gi, g := range d.Globals {
		if v, ok := in.Globals[fmt.Sprintf("g%d", gi)]; ok {
			if graphs.SameObj(v, in.Objs[g]) {
				out.Roots = append(out.Roots, g)
			} else if v != starlark.None {
				out.Gaps = append(out.Gaps, fmt.Sprintf("generator: global g%d is not node %d", gi, g))
			}
		}
	}
	out.Walk = in.Walk()
	reach := d.Reach()
	for id := range d.Nodes {
		if reach[id] {
			out.Reach = append(out.Reach, id)
		}
	}
	sort.Ints(out.Reach)
	// contents as described?
	for _, nd := range d.Nodes {
		if !nd.Exists || in.Objs[nd.ID] == nil {
			if nd.Exists != (in.Objs[nd.ID] != nil) {
				out.Gaps = append(out.Gaps, fmt.Sprintf("generator: node %d existence differs", nd.ID))
			}
			continue
		}
		var want []Val
		want = append(want, nd.Elems...)
		if nd.Kind == "func" {
			want = append(want, nd.Defaults...)
			for _, c := range nd.Captures {
				if d.Nodes[c].Exists {
					want = append(want, graphs.Ref(c))
				}
			}
		}
		if nd.Kind == "bound" {
			want = []Val{graphs.Ref(nd.Recv)}
		}
		got := in.Contents(nd.ID)
		if nd.Kind == "func" {
			// FreeVars are ordered by first use; compare as multisets
			graphs.SortVals(want)
			graphs.SortVals(got)
		}
		if !graphs.EqVals(want, got) {
			out.Gaps = append(out.Gaps, fmt.Sprintf("generator: node %d (%s) has contents %v, described %v", nd.ID, nd.Kind, got, want))
		}
	}

	// mutators discovered from AttrNames
	for _, nd := range d.Nodes {
		if in.Objs[nd.ID] == nil {
			continue
		}
		if ha, ok := in.Objs[nd.ID].(starlark.HasAttrs); ok && knownMutators[nd.Kind] != nil {
			for _, name := range ha.AttrNames() {
				if !knownMutators[nd.Kind][name] && !knownReaders[nd.Kind][name] {
					g := fmt.Sprintf("method %s.%s is not known to the model", nd.Kind, name)
					dup := false
					for _, x := range out.Gaps {
						if x == g {
							dup = true
						}
					}
					if !dup {
						out.Gaps = append(out.Gaps, g)
					}
				}
			}
		}
	}

	// probes: every existing node x every operation, each on a fresh Instance
	type job struct {
		id int
		op Op
	}
	var jobs []job
	for _, nd := range d.Nodes {
		if !nd.Exists {
			continue
		}
		for _, op := range opsFor(d, nd, r) {
			op.Alt = r.Intn(4) % 3 // 0 twice as often
			jobs = append(jobs, job{nd.ID, op})
		}
	}
	if maxProbes > 0 && len(jobs) > maxProbes {
		// keep a seeded subset
		for k := len(jobs) - 1; k > 0; k-- {
			j := r.Intn(k + 1)
			jobs[k], jobs[j] = jobs[j], jobs[k]
		}
		jobs = jobs[:maxProbes]
	}
	for _, jb := range jobs {
		fresh := graphs.Instantiate(d, src)
		nd := d.Nodes[jb.id]
		if fresh.Objs[jb.id] == nil {
			continue
		}
		vias := vias(fresh, jb.id, jb.op)
		via := vias[r.Intn(len(vias))]
		if jb.op.N == "DUpdate" && len(jb.op.KVs) == 0 && r.Bool() {
			jb.op.K = i64(0) // spelled d.update()
		}
		before := fresh.Snapshot()
		err := apply(fresh, jb.id, jb.op, via)
		after := fresh.Snapshot()
		p := Probe{Node: jb.id, Op: jb.op, Via: via, Err: err != nil}
		if err != nil {
			p.Msg = err.Error()
			if strings.HasPrefix(p.Msg, "PANIC") {
				p.Viol = "panic"
			}
		}
		for id := range before {
			if !graphs.EqVals(before[id], after[id]) {
				if id == jb.id {
					p.After = after[id]
					if p.After == nil {
						p.After = []Val{}
					}
				} else {
					p.Others = append(p.Others, id)
				}
			}
		}
		// oracle
		immutable := reach[jb.id] || nd.PreFrozen || !mutableKind(nd.Kind)
		if p.Viol == "" {
			switch {
			case len(p.Others) > 0:
				p.Viol = "other-object-changed"
			case immutable && p.After != nil:
				p.Viol = "changed"
			case immutable && !p.Err && !noopCase(nd, before[jb.id], jb.op):
				p.Viol = "accepted"
			case !immutable && p.Err && alwaysSucceeds[jb.op.N]:
				p.Viol = "lost-mutability"
			}
		}
		out.Probes = append(out.Probes, p)
	}

	// storm: every operation on every object that must be immutable, one after the
	// other on ONE instance -- no sequence of operations changes anything
	{
		st := graphs.Instantiate(d, src)
		before := st.Snapshot()
		for _, jb := range jobs {
			nd := d.Nodes[jb.id]
			if st.Objs[jb.id] == nil {
				continue
			}
			if !(reach[jb.id] || nd.PreFrozen || !mutableKind(nd.Kind)) {
				continue
			}
			vs := vias(st, jb.id, jb.op)
			apply(st, jb.id, jb.op, vs[r.Intn(len(vs))])
			out.StormOps++
		}
		after := st.Snapshot()
		for id := range before {
			if !graphs.EqVals(before[id], after[id]) {
				out.Storm = fmt.Sprintf("node %d (%s) changed from %v to %v", id, d.Nodes[id].Kind, before[id], after[id])
				break
			}
		}
	}

	// derived values never alias the container they were computed from
	{
		dv := graphs.Instantiate(d, src)
		for _, nd := range d.Nodes {
			if dv.Objs[nd.ID] == nil || (graphs.DerivExprs[nd.Kind] == nil && graphs.ReadOnlyExprs[nd.Kind] == nil) {
				continue
			}
			deriveAll(dv, nd.ID, reach[nd.ID] || nd.PreFrozen, &out)
		}
	}

	// read-only methods and operations never change anything (volume check, Go side only)
	fresh := graphs.Instantiate(d, src)
	before := fresh.Snapshot()
	th := &starlark.Thread{Name: "read"}
	for _, nd := range d.Nodes {
		v := fresh.Objs[nd.ID]
		if v == nil {
			continue
		}
		starlark.Equal(v, v)
		v.Hash()
		if it := starlark.Iterate(v); it != nil {
			var x starlark.Value
			for it.Next(&x) {
			}
			it.Done()
		}
		if ha, ok := v.(starlark.HasAttrs); ok {
			for name := range knownReaders[nd.Kind] {
				m, _ := ha.Attr(name)
				if m == nil {
					continue
				}
				var args starlark.Tuple
				switch name {
				case "index", "get":
					args = starlark.Tuple{starlark.MakeInt(10)}
				case "difference", "intersection", "issubset", "issuperset", "symmetric_difference", "union":
					args = starlark.Tuple{starlark.NewList([]starlark.Value{starlark.MakeInt(20)})}
				}
				starlark.Call(th, m, args, nil)
				out.Readers++
			}
		}
	}
	after := fresh.Snapshot()
	for id := range before {
		if !graphs.EqVals(before[id], after[id]) {
			out.ReadViol = append(out.ReadViol, fmt.Sprintf("node %d (%s) changed under read-only operations", id, d.Nodes[id].Kind))
		}
	}
	return out
}

// ------------------------------------------------------------------- nested
//
// A module that finishes while a function of ANOTHER module is still running:
// a built-in called by `outer` (module A) executes module B, passing it outer's
// inner function f; B binds f to a global and finishes (its epilogue freezes f
// and what f's captured variable holds).  Then outer goes on and may re-assign
// the captured variable.  Afterwards everything reachable from B's global must
// still be frozen.

type NestedOut struct {
	Kind    string `json:"kind"`
	Variant int    `json:"variant"`
	Rebind  bool   `json:"rebind"`
	KeepInA bool   `json:"keep_in_a"`
	Value   string `json:"value"`
	SrcA    string `json:"src_a"`
	SrcB    string `json:"src_b"`
	ErrA    string `json:"err_a,omitempty"`
	Mutable bool   `json:"mutable"` // the value B's global reaches through the closure accepted a mutation
	Seen    string `json:"seen"`
}

func runNested(variant int) NestedOut {
	o := NestedOut{Kind: "nested", Variant: variant, Rebind: variant&1 == 1, KeepInA: variant&2 == 2}
	lit1, lit2 := "[1]", "[2]"
	o.Value = "list"
	if variant&4 == 4 {
		lit1, lit2, o.Value = "{1: 1}", "{2: 2}", "dict"
	}
	o.SrcB = "g = f\n"
	var bGlobals starlark.StringDict
	runB := starlark.NewBuiltin("run_b", func(_ *starlark.Thread, _ *starlark.Builtin, args starlark.Tuple, _ []starlark.Tuple) (starlark.Value, error) {
		g, err := starlark.ExecFileOptions(&syntax.FileOptions{}, &starlark.Thread{Name: "B"}, "b.star", o.SrcB, starlark.StringDict{"f": args[0]})
		bGlobals = g
		return starlark.None, err
	})
	var b strings.Builder
	fmt.Fprintf(&b, "def outer():\n    x = %s\n    def f():\n        return x\n    run_b(f)\n", lit1)
	if o.Rebind {
		fmt.Fprintf(&b, "    x = %s\n", lit2)
	}
	b.WriteString("    return f\n")
	if o.KeepInA {
		b.WriteString("keep = outer()\n")
	} else {
		b.WriteString("outer()\n")
	}
	o.SrcA = b.String()
	_, err := starlark.ExecFileOptions(&syntax.FileOptions{}, &starlark.Thread{Name: "A"}, "a.star", o.SrcA, starlark.StringDict{"run_b": runB})
	if err != nil {
		o.ErrA = err.Error()
		return o
	}
	v, err := starlark.Call(&starlark.Thread{Name: "later"}, bGlobals["g"], nil, nil)
	if err != nil {
		o.ErrA = "calling B.g: " + err.Error()
		return o
	}
	switch x := v.(type) {
	case *starlark.List:
		o.Mutable = x.Append(starlark.MakeInt(3)) == nil
	case *starlark.Dict:
		o.Mutable = x.SetKey(starlark.MakeInt(3), starlark.MakeInt(3)) == nil
	}
	o.Seen = v.String()
	return o
}

func child(seed uint64, from, to, maxProbes int) {
	debug.SetMaxStack(64 << 20) // a runaway Freeze recursion dies quickly
	for i := from; i < to; i++ {
		hx.Emit(runGraph(seed, i, maxProbes))
		hx.Flush()
	}
	if from == 0 {
		for v := 0; v < 8; v++ {
			hx.Emit(runNested(v))
		}
		// worlds made by several module executions / a host freezing early: the value the
		// last module's global closure captures must be frozen
		for _, f := range graphs.MultiModules() {
			m := f()
			rec := map[string]any{"kind": "multi", "name": m.Name, "srcs": m.Srcs, "err": m.Err}
			if m.Err == "" {
				rec["call_accepted"] = m.Call(&starlark.Thread{Name: "later"}) == nil
				rec["go_mutable"] = m.Mutable()
				rec["seen"] = m.Target.String()
			}
			hx.Emit(rec)
		}
		hx.Flush()
	}
}

func main() {
	if len(os.Args) > 1 && os.Args[1] == "child" {
		fs := flag.NewFlagSet("child", flag.ExitOnError)
		seed := fs.Uint64("seed", 1, "")
		from := fs.Int("from", 0, "")
		to := fs.Int("to", 1, "")
		mp := fs.Int("maxprobes", 0, "")
		fs.Parse(os.Args[2:])
		child(*seed, *from, *to, *mp)
		return
	}
	seed := flag.Uint64("seed", 1, "")
	n := flag.Int("n", 100, "number of graphs")
	mp := flag.Int("maxprobes", 0, "probes per graph (0: all)")
	batch := flag.Int("batch", 50, "graphs per child process")
	flag.Parse()
	w := os.Stdout
	for from := 0; from < *n; {
		to := from + *batch
		if to > *n {
			to = *n
		}
		ctx, cancel := context.WithTimeout(context.Background(), 300*time.Second)
		cmd := exec.CommandContext(ctx, os.Args[0], "child", "-seed", fmt.Sprint(*seed), "-from", fmt.Sprint(from), "-to", fmt.Sprint(to), "-maxprobes", fmt.Sprint(*mp))
		var stderr bytes.Buffer
		cmd.Stderr = &stderr
		outb, err := cmd.Output()
		timedOut := ctx.Err() != nil
		cancel()
		last := -1
		lastSrc := ""
		done := -1
		for _, line := range bytes.Split(outb, []byte("\n")) {
			if len(line) == 0 {
				continue
			}
			var head struct {
				Kind string `json:"kind"`
				I    int    `json:"i"`
				Src  string `json:"src"`
			}
			if json.Unmarshal(line, &head) != nil {
				continue
			}
			if head.Kind == "begin" {
				last, lastSrc = head.I, head.Src
				continue
			}
			done = head.I
			w.Write(line)
			w.Write([]byte("\n"))
		}
		if err == nil {
			from = to
			continue
		}
		// the child died while working on graph `last`
		if last < 0 || last == done {
			last = done + 1
			if last < from {
				last = from
			}
		}
		msg := stderr.String()
		if len(msg) > 600 {
			msg = msg[:600]
		}
		what := "crash"
		if timedOut {
			what = "timeout"
		}
		b, _ := json.Marshal(map[string]any{"kind": what, "i": last, "src": lastSrc, "stderr": msg, "exit": err.Error()})
		w.Write(b)
		w.Write([]byte("\n"))
		from = last + 1
	}
}
