// c04: deep immutability after module execution.
//
// Generates object-graph descriptions (shared, nested, cyclic; closures over
// mutable values; defaults; bound methods; host values passed in through
// predeclared), renders each as a Starlark module, executes it with the real
// interpreter (to success or to a planted failure), and then, for every
// described object and every mutator (the methods discovered from AttrNames,
// the interpreter's assignment opcodes, the Go API), attempts the mutation on
// a fresh instance and records error / no error and the object's contents
// before and after.  One JSON object per graph; every graph runs in a child
// process so that a fatal error (stack overflow in Freeze) is observable.
package main

import (
	"bytes"
	"context"
	"encoding/json"
	"flag"
	"fmt"
	"os"
	"os/exec"
	"runtime/debug"
	"sort"
	"strings"
	"time"

	"go.starlark.net/starlark"
	"go.starlark.net/starlarkstruct"
	"go.starlark.net/syntax"

	"verifharness/internal/hx"
)

// ---------------------------------------------------------------- description

type Val [2]int64 // {0,a}: the integer atom a; {1,id}: reference to node id

func atom(a int64) Val    { return Val{0, a} }
func ref(id int) Val      { return Val{1, int64(id)} }
func (v Val) isRef() bool { return v[0] == 1 }

type Node struct {
	ID        int    `json:"id"`
	Kind      string `json:"kind"` // list dict set tuple struct func bound
	Host      bool   `json:"host,omitempty"`
	PreFrozen bool   `json:"prefrozen,omitempty"`
	Exists    bool   `json:"exists"` // created before a failure planted inside build()
	Elems     []Val  `json:"elems"`  // final contents (dict: k,v,k,v,...; struct: field values in order f0,f1,..)
	Defaults  []Val  `json:"defaults,omitempty"`
	Captures  []int  `json:"captures,omitempty"`
	Recv      int    `json:"recv,omitempty"`
	Method    string `json:"method,omitempty"`
	init      []Val
}

type Link struct {
	Node int
	K    Val // dict only
	V    Val
}

type Stmt struct {
	New  int // node id, or -1
	Link *Link
}

type Desc struct {
	Nodes      []*Node `json:"nodes"`
	Globals    []int   `json:"globals"`     // node ids bound to g0, g1, ... in this order
	FailGlobal int     `json:"fail_global"` // execution fails before global #k is assigned (-1: never)
	FailBuild  int     `json:"fail_build"`  // execution fails inside build() before statement #k (-1: never)
	stmts      []Stmt
}

var methodsOf = map[string][]string{
	"list": {"append", "clear", "extend", "index", "insert", "pop", "remove"},
	"dict": {"clear", "get", "items", "keys", "pop", "popitem", "setdefault", "update", "values"},
	"set":  {"add", "clear", "discard", "pop", "remove", "update", "union", "difference"},
}

func (d *Desc) hashable(v Val) bool {
	if !v.isRef() {
		return true
	}
	n := d.Nodes[v[1]]
	switch n.Kind {
	case "list", "dict", "set":
		return false
	case "tuple", "struct":
		for _, e := range n.init {
			if !d.hashable(e) {
				return false
			}
		}
		return true
	}
	return true // func, bound
}

func (nd *Node) add(kind string, k, v Val) {
	if kind == "dict" {
		nd.Elems = append(nd.Elems, k, v)
	} else {
		nd.Elems = append(nd.Elems, v)
	}
}

func hasKey(kind string, elems []Val, k Val) bool {
	step := 1
	if kind == "dict" {
		step = 2
	}
	for j := 0; j < len(elems); j += step {
		if elems[j] == k {
			return true
		}
	}
	return false
}

func gen(r *hx.Rand) *Desc {
	d := &Desc{FailGlobal: -1, FailBuild: -1}
	nhost := r.Intn(3)
	if r.Intn(4) == 0 {
		nhost = 0
	}
	n := nhost + 2 + r.Intn(9)
	anyVal := func(upto int) Val { // a value available when node `upto` is created
		if upto == 0 || r.Intn(3) == 0 {
			return atom(int64(r.Intn(6)))
		}
		return ref(r.Intn(upto))
	}
	for id := 0; id < n; id++ {
		nd := &Node{ID: id, Exists: true}
		host := id < nhost
		nd.Host = host
		kinds := []string{"list", "list", "dict", "dict", "set", "tuple", "struct", "func", "func", "bound"}
		if host {
			kinds = []string{"list", "dict", "set"}
		}
		nd.Kind = hx.Pick(r, kinds)
		if nd.Kind == "bound" {
			// receiver: an earlier list/dict/set
			var cands []int
			for j := 0; j < id; j++ {
				if _, ok := methodsOf[d.Nodes[j].Kind]; ok {
					cands = append(cands, j)
				}
			}
			if len(cands) == 0 {
				nd.Kind = "list"
			} else {
				nd.Recv = hx.Pick(r, cands)
				nd.Method = hx.Pick(r, methodsOf[d.Nodes[nd.Recv].Kind])
			}
		}
		k := r.Intn(4)
		switch nd.Kind {
		case "list":
			for i := 0; i < k; i++ {
				nd.init = append(nd.init, anyVal(id))
			}
		case "tuple", "struct":
			nd.init = append(nd.init, atom(int64(1000+id))) // unique tag: tuples and structs compare structurally
			for i := 0; i < k; i++ {
				nd.init = append(nd.init, anyVal(id))
			}
		case "dict":
			for i := 0; i < k; i++ {
				key := atom(int64(10 + i))
				if r.Intn(3) == 0 {
					if c := anyVal(id); c.isRef() && d.hashable(c) {
						key = c
					}
				}
				if !hasKey("dict", nd.init, key) {
					nd.init = append(nd.init, key, anyVal(id))
				}
			}
		case "set":
			for i := 0; i < k; i++ {
				e := atom(int64(20 + i))
				if r.Intn(3) == 0 {
					if c := anyVal(id); c.isRef() && d.hashable(c) {
						e = c
					}
				}
				if !hasKey("set", nd.init, e) {
					nd.init = append(nd.init, e)
				}
			}
		case "func":
			ndef := r.Intn(3)
			for i := 0; i < ndef; i++ {
				nd.Defaults = append(nd.Defaults, anyVal(id))
			}
			nc := r.Intn(3)
			for i := 0; i < nc; i++ {
				c := nhost + r.Intn(n-nhost) // any variable of build(): earlier, the function itself, or later
				dup := false
				for _, x := range nd.Captures {
					if x == c {
						dup = true
					}
				}
				if !dup {
					nd.Captures = append(nd.Captures, c)
				}
			}
			if len(nd.Defaults)+len(nd.Captures) == 0 {
				nd.Defaults = []Val{atom(0)}
			}
		}
		nd.Elems = append([]Val{}, nd.init...)
		d.Nodes = append(d.Nodes, nd)
		d.stmts = append(d.stmts, Stmt{New: id})
		if host {
			if r.Intn(4) == 0 {
				nd.PreFrozen = true
			}
			if id == nhost-1 {
				// a pre-frozen host value was frozen deeply (by the host, before the module ran)
				for changed := true; changed; {
					changed = false
					for _, x := range d.Nodes {
						if x.PreFrozen {
							for _, e := range x.Elems {
								if e.isRef() && !d.Nodes[e[1]].PreFrozen {
									d.Nodes[e[1]].PreFrozen = true
									changed = true
								}
							}
						}
					}
				}
			}
			continue
		}
		// links: mutate an earlier (or this) container so that it refers to this node: cycles
		nl := r.Intn(3)
		for t := 0; t < nl; t++ {
			tgt := r.Intn(id + 1)
			tn := d.Nodes[tgt]
			if tn.PreFrozen {
				continue
			}
			v := ref(id)
			if r.Intn(4) == 0 {
				v = anyVal(id + 1)
			}
			switch tn.Kind {
			case "list":
				tn.add("list", v, v)
				d.stmts = append(d.stmts, Stmt{New: -1, Link: &Link{Node: tgt, V: v}})
			case "dict":
				key := atom(int64(100 + len(tn.Elems)))
				if v.isRef() && d.hashable(v) && r.Intn(2) == 0 && !hasKey("dict", tn.Elems, v) {
					key, v = v, atom(int64(r.Intn(6))) // the new object as a KEY
				}
				tn.add("dict", key, v)
				d.stmts = append(d.stmts, Stmt{New: -1, Link: &Link{Node: tgt, K: key, V: v}})
			case "set":
				if d.hashable(v) && !hasKey("set", tn.Elems, v) {
					tn.add("set", v, v)
					d.stmts = append(d.stmts, Stmt{New: -1, Link: &Link{Node: tgt, V: v}})
				}
			}
		}
	}
	ng := r.Intn(4)
	for i := 0; i < ng; i++ {
		d.Globals = append(d.Globals, r.Intn(n))
	}
	switch r.Intn(10) {
	case 0, 1:
		d.FailGlobal = r.Intn(ng + 1)
	case 2:
		d.FailBuild = r.Intn(len(d.stmts) + 1)
		// contents and existence at the point of failure
		for _, nd := range d.Nodes {
			nd.Exists = nd.Host
			nd.Elems = append([]Val{}, nd.init...)
		}
		for i, s := range d.stmts {
			if i >= d.FailBuild {
				break
			}
			if s.New >= 0 {
				d.Nodes[s.New].Exists = true
			} else {
				tn := d.Nodes[s.Link.Node]
				tn.add(tn.Kind, s.Link.K, s.Link.V)
			}
		}
	}
	return d
}

func (d *Desc) expr(v Val) string {
	if !v.isRef() {
		return fmt.Sprint(v[1])
	}
	if d.Nodes[v[1]].Host {
		return fmt.Sprintf("h%d", v[1])
	}
	return fmt.Sprintf("n%d", v[1])
}

func (d *Desc) exprs(vs []Val) string {
	var s []string
	for _, v := range vs {
		s = append(s, d.expr(v))
	}
	return strings.Join(s, ", ")
}

const prelude = `def _apply(t, opn, a, b):
    if opn == "setindex":
        t[a] = b
    elif opn == "iadd":
        t += a
    elif opn == "ior":
        t |= a
    elif opn == "setfield":
        t.f0 = a
    else:
        return getattr(t, opn)(*a)
`

func (d *Desc) source() string {
	var b strings.Builder
	b.WriteString(prelude)
	b.WriteString("def build():\n")
	for i, s := range d.stmts {
		if i == d.FailBuild {
			b.WriteString("    boom()\n")
		}
		if s.New >= 0 {
			nd := d.Nodes[s.New]
			if nd.Host {
				continue
			}
			id := nd.ID
			switch nd.Kind {
			case "list":
				fmt.Fprintf(&b, "    n%d = reg(%d, [%s])\n", id, id, d.exprs(nd.init))
			case "tuple":
				fmt.Fprintf(&b, "    n%d = reg(%d, (%s,))\n", id, id, d.exprs(nd.init))
			case "set":
				fmt.Fprintf(&b, "    n%d = reg(%d, set([%s]))\n", id, id, d.exprs(nd.init))
			case "dict":
				var kv []string
				for j := 0; j+1 < len(nd.init); j += 2 {
					kv = append(kv, d.expr(nd.init[j])+": "+d.expr(nd.init[j+1]))
				}
				fmt.Fprintf(&b, "    n%d = reg(%d, {%s})\n", id, id, strings.Join(kv, ", "))
			case "struct":
				var fs []string
				for j, v := range nd.init {
					fs = append(fs, fmt.Sprintf("f%d=%s", j, d.expr(v)))
				}
				fmt.Fprintf(&b, "    n%d = reg(%d, struct(%s))\n", id, id, strings.Join(fs, ", "))
			case "bound":
				fmt.Fprintf(&b, "    n%d = reg(%d, %s.%s)\n", id, id, d.expr(ref(nd.Recv)), nd.Method)
			case "func":
				params := "which=None, opn=None, a=None, b=None"
				var tup []string
				for _, c := range nd.Captures {
					tup = append(tup, fmt.Sprintf("n%d", c))
				}
				for j, v := range nd.Defaults {
					params += fmt.Sprintf(", d%d=%s", j, d.expr(v))
					tup = append(tup, fmt.Sprintf("d%d", j))
				}
				fmt.Fprintf(&b, "    def f%d(%s):\n        return _apply((%s,)[which], opn, a, b)\n", id, params, strings.Join(tup, ", "))
				fmt.Fprintf(&b, "    n%d = reg(%d, f%d)\n", id, id, id)
			}
		} else {
			l := s.Link
			switch d.Nodes[l.Node].Kind {
			case "list":
				fmt.Fprintf(&b, "    %s.append(%s)\n", d.expr(ref(l.Node)), d.expr(l.V))
			case "dict":
				fmt.Fprintf(&b, "    %s[%s] = %s\n", d.expr(ref(l.Node)), d.expr(l.K), d.expr(l.V))
			case "set":
				fmt.Fprintf(&b, "    %s.add(%s)\n", d.expr(ref(l.Node)), d.expr(l.V))
			}
		}
	}
	if d.FailBuild == len(d.stmts) {
		b.WriteString("    boom()\n")
	}
	b.WriteString("    return None\n")
	b.WriteString("build()\n")
	for i, g := range d.Globals {
		if i == d.FailGlobal {
			b.WriteString("boom()\n")
		}
		fmt.Fprintf(&b, "g%d = pick(%d)\n", i, g)
	}
	if d.FailGlobal == len(d.Globals) {
		b.WriteString("boom()\n")
	}
	return b.String()
}

// ------------------------------------------------------------------ instance

type instance struct {
	d       *Desc
	objs    []starlark.Value // by node id (nil: never created)
	globals starlark.StringDict
	err     error
	thread  *starlark.Thread
	predecl starlark.StringDict
}

func (in *instance) value(v Val) starlark.Value {
	if !v.isRef() {
		return starlark.MakeInt64(v[1])
	}
	return in.objs[v[1]]
}

var fileOpts = &syntax.FileOptions{Set: true, GlobalReassign: true, TopLevelControl: true}

func instantiate(d *Desc, src string) *instance {
	in := &instance{d: d, objs: make([]starlark.Value, len(d.Nodes)), thread: &starlark.Thread{Name: "c04"}}
	pre := starlark.StringDict{
		"struct": starlark.NewBuiltin("struct", starlarkstruct.Make),
		"reg": starlark.NewBuiltin("reg", func(_ *starlark.Thread, _ *starlark.Builtin, args starlark.Tuple, _ []starlark.Tuple) (starlark.Value, error) {
			id, _ := starlark.AsInt32(args[0])
			in.objs[id] = args[1]
			return args[1], nil
		}),
		"pick": starlark.NewBuiltin("pick", func(_ *starlark.Thread, _ *starlark.Builtin, args starlark.Tuple, _ []starlark.Tuple) (starlark.Value, error) {
			id, _ := starlark.AsInt32(args[0])
			if in.objs[id] == nil {
				return starlark.None, nil
			}
			return in.objs[id], nil
		}),
		"boom": starlark.NewBuiltin("boom", func(_ *starlark.Thread, _ *starlark.Builtin, _ starlark.Tuple, _ []starlark.Tuple) (starlark.Value, error) {
			return nil, fmt.Errorf("planted failure")
		}),
	}
	// host values, created (and possibly frozen) by the host before the module runs
	for _, nd := range d.Nodes {
		if !nd.Host {
			continue
		}
		switch nd.Kind {
		case "list":
			var es []starlark.Value
			for _, e := range nd.init {
				es = append(es, in.value(e))
			}
			in.objs[nd.ID] = starlark.NewList(es)
		case "dict":
			dd := starlark.NewDict(4)
			for j := 0; j+1 < len(nd.init); j += 2 {
				dd.SetKey(in.value(nd.init[j]), in.value(nd.init[j+1]))
			}
			in.objs[nd.ID] = dd
		case "set":
			s := starlark.NewSet(4)
			for _, e := range nd.init {
				s.Insert(in.value(e))
			}
			in.objs[nd.ID] = s
		}
		pre[fmt.Sprintf("h%d", nd.ID)] = in.objs[nd.ID]
	}
	for _, nd := range d.Nodes {
		if nd.Host && nd.PreFrozen {
			in.objs[nd.ID].Freeze()
		}
	}
	in.predecl = pre
	in.globals, in.err = starlark.ExecFileOptions(fileOpts, in.thread, "m.star", src, pre)
	return in
}

func sameObj(a, b starlark.Value) bool {
	if a == nil || b == nil {
		return false
	}
	ta, ok1 := a.(starlark.Tuple)
	tb, ok2 := b.(starlark.Tuple)
	if ok1 || ok2 {
		return ok1 && ok2 && len(ta) > 0 && len(ta) == len(tb) && &ta[0] == &tb[0]
	}
	switch a.(type) {
	case *starlark.List, *starlark.Dict, *starlark.Set, *starlark.Function, *starlark.Builtin, *starlarkstruct.Struct:
		return a == b
	}
	return false
}

func (in *instance) idOf(v starlark.Value) (Val, bool) {
	if v == nil {
		return Val{2, 0}, true // an unassigned cell
	}
	if i, ok := v.(starlark.Int); ok {
		if x, ok := i.Int64(); ok {
			return atom(x), true
		}
	}
	for id, o := range in.objs {
		if sameObj(o, v) {
			return ref(id), true
		}
	}
	if v == starlark.None {
		return Val{2, 1}, true
	}
	return Val{3, 0}, false // a value the description does not know
}

// children through the Go API, as values
func childrenOf(v starlark.Value) []starlark.Value {
	var out []starlark.Value
	switch v := v.(type) {
	case *starlark.List:
		for i := 0; i < v.Len(); i++ {
			out = append(out, v.Index(i))
		}
	case starlark.Tuple:
		out = append(out, v...)
	case *starlark.Dict:
		for _, it := range v.Items() {
			out = append(out, it[0], it[1])
		}
	case *starlark.Set:
		it := v.Iterate()
		var x starlark.Value
		for it.Next(&x) {
			out = append(out, x)
		}
		it.Done()
	case *starlarkstruct.Struct:
		for _, name := range v.AttrNames() {
			x, _ := v.Attr(name)
			out = append(out, x)
		}
	case *starlark.Function:
		for i := 0; i < v.NumParams(); i++ {
			if dv := v.ParamDefault(i); dv != nil {
				out = append(out, dv)
			}
		}
		for i := 0; i < v.NumFreeVars(); i++ {
			_, fv := v.FreeVar(i)
			if fv != nil {
				out = append(out, fv)
			}
		}
	case *starlark.Builtin:
		if r := v.Receiver(); r != nil {
			out = append(out, r)
		}
	}
	return out
}

func (in *instance) contents(id int) []Val {
	var out []Val
	for _, c := range childrenOf(in.objs[id]) {
		v, _ := in.idOf(c)
		if v[0] == 2 {
			continue // None defaults of the probe parameters
		}
		out = append(out, v)
	}
	return out
}

// walk: the described objects reachable from the module's globals through the Go API
func (in *instance) walk() []int {
	var seen []starlark.Value
	var todo []starlark.Value
	names := in.globals.Keys()
	for _, k := range names {
		todo = append(todo, in.globals[k])
	}
	for len(todo) > 0 {
		v := todo[len(todo)-1]
		todo = todo[:len(todo)-1]
		dup := false
		for _, s := range seen {
			if sameObj(s, v) {
				dup = true
			}
		}
		switch v.(type) {
		case *starlark.List, *starlark.Dict, *starlark.Set, *starlark.Function, *starlark.Builtin, *starlarkstruct.Struct, starlark.Tuple:
		default:
			continue
		}
		if dup {
			continue
		}
		seen = append(seen, v)
		todo = append(todo, childrenOf(v)...)
	}
	var ids []int
	for id, o := range in.objs {
		for _, s := range seen {
			if sameObj(o, s) {
				ids = append(ids, id)
				break
			}
		}
	}
	return ids
}

func (in *instance) snapshot() [][]Val {
	out := make([][]Val, len(in.objs))
	for id := range in.objs {
		if in.objs[id] != nil {
			out[id] = in.contents(id)
		}
	}
	return out
}

func eqVals(a, b []Val) bool {
	if len(a) != len(b) {
		return false
	}
	for i := range a {
		if a[i] != b[i] {
			return false
		}
	}
	return true
}

// ------------------------------------------------------------------ operations

type KV struct {
	K int64 `json:"k"`
	V Val   `json:"v"`
}

type Op struct {
	N   string    `json:"n"`
	I   *int64    `json:"i,omitempty"`
	V   *Val      `json:"v,omitempty"`
	Vs  []Val     `json:"vs"`
	K   *int64    `json:"k,omitempty"`
	D   *Val      `json:"d,omitempty"`
	KVs []KV      `json:"kvs"`
	Kss [][]int64 `json:"kss"`
}

type Probe struct {
	Node   int    `json:"node"`
	Op     Op     `json:"op"`
	Via    string `json:"via"`
	Err    bool   `json:"err"`
	Msg    string `json:"msg,omitempty"`
	After  []Val  `json:"after"` // nil: contents as before
	Others []int  `json:"others,omitempty"`
	Viol   string `json:"viol,omitempty"`
	Skip   bool   `json:"skip,omitempty"`
}

func i64(x int64) *int64 { return &x }
func pv(v Val) *Val      { return &v }

func opsFor(d *Desc, nd *Node, r *hx.Rand) []Op {
	n := int64(0)
	pay := func() Val {
		if r.Intn(2) == 0 {
			return atom(int64(40 + r.Intn(5)))
		}
		for t := 0; t < 8; t++ {
			c := r.Intn(len(d.Nodes))
			if d.Nodes[c].Exists {
				return ref(c)
			}
		}
		return atom(41)
	}
	var atomsIn []int64
	for i, e := range nd.Elems {
		if !e.isRef() && (nd.Kind != "dict" || i%2 == 0) {
			atomsIn = append(atomsIn, e[1])
		}
	}
	present := func() int64 {
		if len(atomsIn) > 0 {
			return atomsIn[r.Intn(len(atomsIn))]
		}
		return 77
	}
	absent := int64(555)
	var ops []Op
	switch nd.Kind {
	case "list":
		n = int64(len(nd.Elems))
		idx := []int64{0, -1, n - 1, n, -n, -n - 1, n + 1}
		ops = append(ops,
			Op{N: "LAppend", V: pv(pay())}, Op{N: "LClear"}, Op{N: "LExtend", Vs: []Val{}}, Op{N: "LExtend", Vs: []Val{pay(), pay()}},
			Op{N: "LInsert", I: i64(hx.Pick(r, idx)), V: pv(pay())}, Op{N: "LInsert", I: i64(hx.Pick(r, idx)), V: pv(pay())},
			Op{N: "LPop"}, Op{N: "LPop", I: i64(hx.Pick(r, idx))}, Op{N: "LPop", I: i64(hx.Pick(r, idx))},
			Op{N: "LRemove", K: i64(present())}, Op{N: "LRemove", K: i64(absent)},
			Op{N: "LSetIndex", I: i64(hx.Pick(r, idx)), V: pv(pay())}, Op{N: "LSetIndex", I: i64(hx.Pick(r, idx)), V: pv(pay())},
			Op{N: "LInplaceAdd", Vs: []Val{}}, Op{N: "LInplaceAdd", Vs: []Val{pay()}},
			Op{N: "GoLAppend", V: pv(pay())}, Op{N: "GoLClear"}, Op{N: "XSetField", V: pv(pay())})
		if n > 0 {
			ops = append(ops, Op{N: "GoLSetIndex", I: i64(int64(r.Intn(int(n)))), V: pv(pay())})
		}
	case "dict":
		ops = append(ops,
			Op{N: "DClear"}, Op{N: "DPop", K: i64(present())}, Op{N: "DPop", K: i64(absent)}, Op{N: "DPop", K: i64(absent), D: pv(pay())},
			Op{N: "DPop", K: i64(present()), D: pv(pay())}, Op{N: "DPopitem"},
			Op{N: "DSetdefault", K: i64(present()), D: pv(pay())}, Op{N: "DSetdefault", K: i64(absent), D: pv(pay())},
			Op{N: "DUpdate", KVs: []KV{}}, Op{N: "DUpdate", KVs: []KV{{present(), pay()}, {absent, pay()}}},
			Op{N: "DSetKey", K: i64(present()), V: pv(pay())}, Op{N: "DSetKey", K: i64(absent), V: pv(pay())},
			Op{N: "DInplacePipe", KVs: []KV{}}, Op{N: "DInplacePipe", KVs: []KV{{absent, pay()}}},
			Op{N: "GoDSetKey", K: i64(hx.Pick(r, []int64{present(), absent})), V: pv(pay())},
			Op{N: "GoDDelete", K: i64(present())}, Op{N: "GoDDelete", K: i64(absent)}, Op{N: "GoDClear"}, Op{N: "XSetField", V: pv(pay())})
	case "set":
		ops = append(ops,
			Op{N: "SAdd", K: i64(present())}, Op{N: "SAdd", K: i64(absent)}, Op{N: "SClear"},
			Op{N: "SDiscard", K: i64(present())}, Op{N: "SDiscard", K: i64(absent)}, Op{N: "SPop"},
			Op{N: "SRemove", K: i64(present())}, Op{N: "SRemove", K: i64(absent)},
			Op{N: "SUpdate", Kss: [][]int64{}}, Op{N: "SUpdate", Kss: [][]int64{{}, {}}}, Op{N: "SUpdate", Kss: [][]int64{{present()}, {absent, 556}}},
			Op{N: "GoSInsert", K: i64(hx.Pick(r, []int64{present(), absent})), V: nil},
			Op{N: "GoSDelete", K: i64(present())}, Op{N: "GoSDelete", K: i64(absent)}, Op{N: "GoSClear"}, Op{N: "XSetField", V: pv(pay())})
	default: // tuple, struct, func, bound: no mutators; item and field assignment must fail
		ops = append(ops, Op{N: "LSetIndex", I: i64(0), V: pv(pay())}, Op{N: "XSetField", V: pv(pay())})
	}
	return ops
}

// the Starlark-level spelling of an operation: method name + args, or an opcode of _apply
func (in *instance) spell(op Op) (name string, a, b starlark.Value, isMethod bool) {
	list := func(vs []Val) *starlark.List {
		var es []starlark.Value
		for _, v := range vs {
			es = append(es, in.value(v))
		}
		return starlark.NewList(es)
	}
	kvlist := func(kvs []KV) *starlark.List {
		var es []starlark.Value
		for _, kv := range kvs {
			es = append(es, starlark.Tuple{starlark.MakeInt64(kv.K), in.value(kv.V)})
		}
		return starlark.NewList(es)
	}
	switch op.N {
	case "LAppend":
		return "append", starlark.Tuple{in.value(*op.V)}, nil, true
	case "LClear", "DClear", "SClear":
		return "clear", starlark.Tuple{}, nil, true
	case "LExtend":
		return "extend", starlark.Tuple{list(op.Vs)}, nil, true
	case "LInsert":
		return "insert", starlark.Tuple{starlark.MakeInt64(*op.I), in.value(*op.V)}, nil, true
	case "LPop":
		if op.I == nil {
			return "pop", starlark.Tuple{}, nil, true
		}
		return "pop", starlark.Tuple{starlark.MakeInt64(*op.I)}, nil, true
	case "LRemove":
		return "remove", starlark.Tuple{starlark.MakeInt64(*op.K)}, nil, true
	case "LSetIndex":
		return "setindex", starlark.MakeInt64(*op.I), in.value(*op.V), false
	case "LInplaceAdd":
		return "iadd", list(op.Vs), nil, false
	case "DPop":
		if op.D == nil {
			return "pop", starlark.Tuple{starlark.MakeInt64(*op.K)}, nil, true
		}
		return "pop", starlark.Tuple{starlark.MakeInt64(*op.K), in.value(*op.D)}, nil, true
	case "DPopitem":
		return "popitem", starlark.Tuple{}, nil, true
	case "DSetdefault":
		return "setdefault", starlark.Tuple{starlark.MakeInt64(*op.K), in.value(*op.D)}, nil, true
	case "DUpdate":
		if len(op.KVs) == 0 && op.K != nil { // spelled d.update() with no argument
			return "update", starlark.Tuple{}, nil, true
		}
		return "update", starlark.Tuple{kvlist(op.KVs)}, nil, true
	case "DSetKey":
		return "setindex", starlark.MakeInt64(*op.K), in.value(*op.V), false
	case "DInplacePipe":
		dd := starlark.NewDict(2)
		for _, kv := range op.KVs {
			dd.SetKey(starlark.MakeInt64(kv.K), in.value(kv.V))
		}
		return "ior", dd, nil, false
	case "SAdd":
		return "add", starlark.Tuple{starlark.MakeInt64(*op.K)}, nil, true
	case "SDiscard":
		return "discard", starlark.Tuple{starlark.MakeInt64(*op.K)}, nil, true
	case "SPop":
		return "pop", starlark.Tuple{}, nil, true
	case "SRemove":
		return "remove", starlark.Tuple{starlark.MakeInt64(*op.K)}, nil, true
	case "SUpdate":
		var args starlark.Tuple
		for _, ks := range op.Kss {
			var es []starlark.Value
			for _, k := range ks {
				es = append(es, starlark.MakeInt64(k))
			}
			args = append(args, starlark.NewList(es))
		}
		if args == nil {
			args = starlark.Tuple{}
		}
		return "update", args, nil, true
	case "XSetField":
		return "setfield", in.value(*op.V), nil, false
	}
	return "", nil, nil, false
}

func isGoOp(n string) bool { return strings.HasPrefix(n, "Go") }

func (in *instance) applyGo(id int, op Op) (err error, skipped bool) {
	switch x := in.objs[id].(type) {
	case *starlark.List:
		switch op.N {
		case "GoLAppend":
			return x.Append(in.value(*op.V)), false
		case "GoLClear":
			return x.Clear(), false
		case "GoLSetIndex":
			return x.SetIndex(int(*op.I), in.value(*op.V)), false
		}
	case *starlark.Dict:
		switch op.N {
		case "GoDSetKey":
			return x.SetKey(starlark.MakeInt64(*op.K), in.value(*op.V)), false
		case "GoDDelete":
			_, _, err := x.Delete(starlark.MakeInt64(*op.K))
			return err, false
		case "GoDClear":
			return x.Clear(), false
		}
	case *starlark.Set:
		switch op.N {
		case "GoSInsert":
			return x.Insert(starlark.MakeInt64(*op.K)), false
		case "GoSDelete":
			_, err := x.Delete(starlark.MakeInt64(*op.K))
			return err, false
		case "GoSClear":
			return x.Clear(), false
		}
	}
	return nil, true
}

// vias: the ways this operation can be performed on node id in this instance
func (in *instance) vias(id int, op Op) []string {
	if isGoOp(op.N) {
		return []string{"go"}
	}
	name, _, _, isMethod := in.spell(op)
	out := []string{"mod"}
	if isMethod {
		out = append(out, "api")
		for _, nd := range in.d.Nodes {
			if nd.Kind == "bound" && nd.Exists && nd.Recv == id && nd.Method == name && in.objs[nd.ID] != nil {
				out = append(out, fmt.Sprintf("bound%d", nd.ID))
			}
		}
	}
	for _, nd := range in.d.Nodes {
		if nd.Kind != "func" || !nd.Exists || in.objs[nd.ID] == nil {
			continue
		}
		usable := true // the closure builds a tuple of all its captured variables
		for _, c := range nd.Captures {
			if !in.d.Nodes[c].Exists {
				usable = false
			}
		}
		if !usable {
			continue
		}
		for j, c := range nd.Captures {
			if c == id {
				out = append(out, fmt.Sprintf("clo%d.%d", nd.ID, j))
			}
		}
		for j, dv := range nd.Defaults {
			if dv.isRef() && int(dv[1]) == id {
				out = append(out, fmt.Sprintf("clo%d.%d", nd.ID, len(nd.Captures)+j))
			}
		}
	}
	return out
}

func (in *instance) apply(id int, op Op, via string) (err error) {
	defer func() {
		if e := recover(); e != nil {
			err = fmt.Errorf("PANIC: %v", e)
		}
	}()
	if via == "go" {
		e, _ := in.applyGo(id, op)
		return e
	}
	name, a, b, _ := in.spell(op)
	if a == nil {
		a = starlark.None
	}
	if b == nil {
		b = starlark.None
	}
	th := &starlark.Thread{Name: "probe"}
	tgt := in.objs[id]
	switch {
	case via == "api":
		m, e := starlark.Value(nil), error(nil)
		if ha, ok := tgt.(starlark.HasAttrs); ok {
			m, e = ha.Attr(name)
		}
		if e != nil || m == nil {
			return fmt.Errorf("no attribute %s", name)
		}
		_, err = starlark.Call(th, m, a.(starlark.Tuple), nil)
		return err
	case via == "mod":
		f := in.globals["_apply"]
		if f == nil {
			return fmt.Errorf("no _apply")
		}
		_, err = starlark.Call(th, f, starlark.Tuple{tgt, starlark.String(name), a, b}, nil)
		return err
	case strings.HasPrefix(via, "bound"):
		var bid int
		fmt.Sscanf(via, "bound%d", &bid)
		_, err = starlark.Call(th, in.objs[bid], a.(starlark.Tuple), nil)
		return err
	case strings.HasPrefix(via, "clo"):
		var fid, j int
		fmt.Sscanf(via, "clo%d.%d", &fid, &j)
		_, err = starlark.Call(th, in.objs[fid], starlark.Tuple{starlark.MakeInt(j), starlark.String(name), a, b}, nil)
		return err
	}
	return fmt.Errorf("unknown via %s", via)
}

// ------------------------------------------------- oracle on the description

func (d *Desc) reach() map[int]bool {
	seen := map[int]bool{}
	var todo []int
	for i, g := range d.Globals {
		if d.FailBuild >= 0 {
			break // execution failed inside build(): no g_i was assigned
		}
		if d.FailGlobal >= 0 && i >= d.FailGlobal {
			break
		}
		if d.Nodes[g].Exists {
			todo = append(todo, g)
		}
	}
	for len(todo) > 0 {
		x := todo[len(todo)-1]
		todo = todo[:len(todo)-1]
		if seen[x] {
			continue
		}
		seen[x] = true
		nd := d.Nodes[x]
		var next []Val
		next = append(next, nd.Elems...)
		next = append(next, nd.Defaults...)
		for _, v := range next {
			if v.isRef() && d.Nodes[v[1]].Exists {
				todo = append(todo, int(v[1]))
			}
		}
		if nd.Kind == "func" {
			for _, c := range nd.Captures {
				if d.Nodes[c].Exists {
					todo = append(todo, c)
				}
			}
		}
		if nd.Kind == "bound" {
			todo = append(todo, nd.Recv)
		}
	}
	return seen
}

func noopCase(nd *Node, cur []Val, op Op) bool {
	switch op.N {
	case "DSetdefault":
		for j := 0; j+1 < len(cur); j += 2 {
			if !cur[j].isRef() && cur[j][1] == *op.K {
				return true
			}
		}
	case "DUpdate":
		return len(op.KVs) == 0
	case "SClear":
		return len(cur) == 0
	case "SUpdate":
		for _, ks := range op.Kss {
			if len(ks) > 0 {
				return false
			}
		}
		return true
	}
	return false
}

var alwaysSucceeds = map[string]bool{
	"LAppend": true, "GoLAppend": true, "LClear": true, "GoLClear": true, "LExtend": true, "LInplaceAdd": true, "LInsert": true,
	"DClear": true, "GoDClear": true, "DSetKey": true, "GoDSetKey": true, "DUpdate": true, "DInplacePipe": true, "GoDDelete": true, "DSetdefault": true,
	"SAdd": true, "SClear": true, "GoSClear": true, "SDiscard": true, "GoSDelete": true, "SUpdate": true, "GoSInsert": true,
}

var knownMutators = map[string]map[string]bool{
	"list": {"append": true, "clear": true, "extend": true, "insert": true, "pop": true, "remove": true},
	"dict": {"clear": true, "pop": true, "popitem": true, "setdefault": true, "update": true},
	"set":  {"add": true, "clear": true, "discard": true, "pop": true, "remove": true, "update": true},
}
var knownReaders = map[string]map[string]bool{
	"list": {"index": true},
	"dict": {"get": true, "items": true, "keys": true, "values": true},
	"set":  {"difference": true, "intersection": true, "issubset": true, "issuperset": true, "symmetric_difference": true, "union": true},
}

// ----------------------------------------------------------------------- run

type GraphOut struct {
	Kind     string   `json:"kind"`
	I        int      `json:"i"`
	Desc     *Desc    `json:"desc"`
	Src      string   `json:"src"`
	Failed   bool     `json:"failed"`
	ExecErr  string   `json:"exec_err,omitempty"`
	Roots    []int    `json:"roots"` // globals that were defined when execution returned (node ids)
	Walk     []int    `json:"walk"`  // described objects reachable from the globals through the Go API
	Reach    []int    `json:"reach"` // ... according to the description (oracle)
	Probes   []Probe  `json:"probes"`
	Gaps     []string `json:"gaps,omitempty"`
	EnvOK    bool     `json:"env_ok"`
	EnvNote  string   `json:"env_note,omitempty"`
	Readers  int      `json:"readers"`
	ReadViol []string `json:"read_viol,omitempty"`
}

func universeSnapshot() map[string]starlark.Value {
	m := map[string]starlark.Value{}
	for k, v := range starlark.Universe {
		m[k] = v
	}
	return m
}

func runGraph(seed uint64, i int, maxProbes int) GraphOut {
	r := hx.NewRand(seed*1000003 + uint64(i))
	d := gen(r)
	src := d.source()
	out := GraphOut{Kind: "graph", I: i, Desc: d, Src: src, EnvOK: true}
	hx.Emit(map[string]any{"kind": "begin", "i": i, "src": src})
	hx.Flush()

	uni := universeSnapshot()
	in := instantiate(d, src)
	out.Failed = in.err != nil
	if in.err != nil {
		out.ExecErr = in.err.Error()
		if !strings.Contains(out.ExecErr, "planted failure") {
			out.Gaps = append(out.Gaps, "generator: module failed unexpectedly: "+out.ExecErr)
		}
	}
	// predeclared and universe unchanged
	if len(uni) != len(starlark.Universe) {
		out.EnvOK, out.EnvNote = false, "universe changed size"
	}
	for k, v := range uni {
		if starlark.Universe[k] != v {
			out.EnvOK, out.EnvNote = false, "universe entry rebound: "+k
		}
	}
	wantPre := 4
	for _, nd := range d.Nodes {
		if nd.Host {
			wantPre++
		}
	}
	if len(in.predecl) != wantPre {
		out.EnvOK, out.EnvNote = false, "predeclared changed size"
	}
	for _, nd := range d.Nodes {
		if nd.Host && in.predecl[fmt.Sprintf("h%d", nd.ID)] != in.objs[nd.ID] {
			out.EnvOK, out.EnvNote = false, "predeclared entry rebound"
		}
	}
	for k := range in.globals {
		if _, ok := in.predecl[k]; ok {
			out.EnvOK, out.EnvNote = false, "global shadows predeclared: "+k
		}
	}
	// roots
	for gi, g := range d.Globals {
		if v, ok := in.globals[fmt.Sprintf("g%d", gi)]; ok {
			if sameObj(v, in.objs[g]) {
				out.Roots = append(out.Roots, g)
			} else if v != starlark.None {
				out.Gaps = append(out.Gaps, fmt.Sprintf("generator: global g%d is not node %d", gi, g))
			}
		}
	}
	out.Walk = in.walk()
	reach := d.reach()
	for id := range d.Nodes {
		if reach[id] {
			out.Reach = append(out.Reach, id)
		}
	}
	sort.Ints(out.Reach)
	// contents as described?
	for _, nd := range d.Nodes {
		if !nd.Exists || in.objs[nd.ID] == nil {
			if nd.Exists != (in.objs[nd.ID] != nil) {
				out.Gaps = append(out.Gaps, fmt.Sprintf("generator: node %d existence differs", nd.ID))
			}
			continue
		}
		var want []Val
		want = append(want, nd.Elems...)
		if nd.Kind == "func" {
			want = append(want, nd.Defaults...)
			for _, c := range nd.Captures {
				if d.Nodes[c].Exists {
					want = append(want, ref(c))
				}
			}
		}
		if nd.Kind == "bound" {
			want = []Val{ref(nd.Recv)}
		}
		got := in.contents(nd.ID)
		if nd.Kind == "func" {
			// FreeVars are ordered by first use; compare as multisets
			sortVals(want)
			sortVals(got)
		}
		if !eqVals(want, got) {
			out.Gaps = append(out.Gaps, fmt.Sprintf("generator: node %d (%s) has contents %v, described %v", nd.ID, nd.Kind, got, want))
		}
	}

	// mutators discovered from AttrNames
	for _, nd := range d.Nodes {
		if in.objs[nd.ID] == nil {
			continue
		}
		if ha, ok := in.objs[nd.ID].(starlark.HasAttrs); ok && knownMutators[nd.Kind] != nil {
			for _, name := range ha.AttrNames() {
				if !knownMutators[nd.Kind][name] && !knownReaders[nd.Kind][name] {
					g := fmt.Sprintf("method %s.%s is not known to the model", nd.Kind, name)
					dup := false
					for _, x := range out.Gaps {
						if x == g {
							dup = true
						}
					}
					if !dup {
						out.Gaps = append(out.Gaps, g)
					}
				}
			}
		}
	}

	// probes: every existing node x every operation, each on a fresh instance
	type job struct {
		id int
		op Op
	}
	var jobs []job
	for _, nd := range d.Nodes {
		if !nd.Exists {
			continue
		}
		for _, op := range opsFor(d, nd, r) {
			jobs = append(jobs, job{nd.ID, op})
		}
	}
	if maxProbes > 0 && len(jobs) > maxProbes {
		// keep a seeded subset
		for k := len(jobs) - 1; k > 0; k-- {
			j := r.Intn(k + 1)
			jobs[k], jobs[j] = jobs[j], jobs[k]
		}
		jobs = jobs[:maxProbes]
	}
	for _, jb := range jobs {
		fresh := instantiate(d, src)
		nd := d.Nodes[jb.id]
		if fresh.objs[jb.id] == nil {
			continue
		}
		vias := fresh.vias(jb.id, jb.op)
		via := vias[r.Intn(len(vias))]
		if jb.op.N == "DUpdate" && len(jb.op.KVs) == 0 && r.Bool() {
			jb.op.K = i64(0) // spelled d.update()
		}
		before := fresh.snapshot()
		err := fresh.apply(jb.id, jb.op, via)
		after := fresh.snapshot()
		p := Probe{Node: jb.id, Op: jb.op, Via: via, Err: err != nil}
		if err != nil {
			p.Msg = err.Error()
			if strings.HasPrefix(p.Msg, "PANIC") {
				p.Viol = "panic"
			}
		}
		for id := range before {
			if !eqVals(before[id], after[id]) {
				if id == jb.id {
					p.After = after[id]
					if p.After == nil {
						p.After = []Val{}
					}
				} else {
					p.Others = append(p.Others, id)
				}
			}
		}
		// oracle
		immutable := reach[jb.id] || nd.PreFrozen || !(nd.Kind == "list" || nd.Kind == "dict" || nd.Kind == "set")
		if p.Viol == "" {
			switch {
			case len(p.Others) > 0:
				p.Viol = "other-object-changed"
			case immutable && p.After != nil:
				p.Viol = "changed"
			case immutable && !p.Err && !noopCase(nd, before[jb.id], jb.op):
				p.Viol = "accepted"
			case !immutable && p.Err && alwaysSucceeds[jb.op.N]:
				p.Viol = "lost-mutability"
			}
		}
		out.Probes = append(out.Probes, p)
	}

	// read-only methods and operations never change anything (volume check, Go side only)
	fresh := instantiate(d, src)
	before := fresh.snapshot()
	th := &starlark.Thread{Name: "read"}
	for _, nd := range d.Nodes {
		v := fresh.objs[nd.ID]
		if v == nil {
			continue
		}
		starlark.Equal(v, v)
		v.Hash()
		if it := starlark.Iterate(v); it != nil {
			var x starlark.Value
			for it.Next(&x) {
			}
			it.Done()
		}
		if ha, ok := v.(starlark.HasAttrs); ok {
			for name := range knownReaders[nd.Kind] {
				m, _ := ha.Attr(name)
				if m == nil {
					continue
				}
				var args starlark.Tuple
				switch name {
				case "index", "get":
					args = starlark.Tuple{starlark.MakeInt(10)}
				case "difference", "intersection", "issubset", "issuperset", "symmetric_difference", "union":
					args = starlark.Tuple{starlark.NewList([]starlark.Value{starlark.MakeInt(20)})}
				}
				starlark.Call(th, m, args, nil)
				out.Readers++
			}
		}
	}
	after := fresh.snapshot()
	for id := range before {
		if !eqVals(before[id], after[id]) {
			out.ReadViol = append(out.ReadViol, fmt.Sprintf("node %d (%s) changed under read-only operations", id, d.Nodes[id].Kind))
		}
	}
	return out
}

func sortVals(vs []Val) {
	sort.Slice(vs, func(i, j int) bool {
		if vs[i][0] != vs[j][0] {
			return vs[i][0] < vs[j][0]
		}
		return vs[i][1] < vs[j][1]
	})
}

func child(seed uint64, from, to, maxProbes int) {
	debug.SetMaxStack(64 << 20) // a runaway Freeze recursion dies quickly
	for i := from; i < to; i++ {
		hx.Emit(runGraph(seed, i, maxProbes))
		hx.Flush()
	}
}

func main() {
	if len(os.Args) > 1 && os.Args[1] == "child" {
		fs := flag.NewFlagSet("child", flag.ExitOnError)
		seed := fs.Uint64("seed", 1, "")
		from := fs.Int("from", 0, "")
		to := fs.Int("to", 1, "")
		mp := fs.Int("maxprobes", 0, "")
		fs.Parse(os.Args[2:])
		child(*seed, *from, *to, *mp)
		return
	}
	seed := flag.Uint64("seed", 1, "")
	n := flag.Int("n", 100, "number of graphs")
	mp := flag.Int("maxprobes", 0, "probes per graph (0: all)")
	batch := flag.Int("batch", 50, "graphs per child process")
	flag.Parse()
	w := os.Stdout
	for from := 0; from < *n; {
		to := from + *batch
		if to > *n {
			to = *n
		}
		ctx, cancel := context.WithTimeout(context.Background(), 300*time.Second)
		cmd := exec.CommandContext(ctx, os.Args[0], "child", "-seed", fmt.Sprint(*seed), "-from", fmt.Sprint(from), "-to", fmt.Sprint(to), "-maxprobes", fmt.Sprint(*mp))
		var stderr bytes.Buffer
		cmd.Stderr = &stderr
		outb, err := cmd.Output()
		timedOut := ctx.Err() != nil
		cancel()
		last := -1
		lastSrc := ""
		done := -1
		for _, line := range bytes.Split(outb, []byte("\n")) {
			if len(line) == 0 {
				continue
			}
			var head struct {
				Kind string `json:"kind"`
				I    int    `json:"i"`
				Src  string `json:"src"`
			}
			if json.Unmarshal(line, &head) != nil {
				continue
			}
			if head.Kind == "begin" {
				last, lastSrc = head.I, head.Src
				continue
			}
			done = head.I
			w.Write(line)
			w.Write([]byte("\n"))
		}
		if err == nil {
			from = to
			continue
		}
		// the child died while working on graph `last`
		if last < 0 || last == done {
			last = done + 1
			if last < from {
				last = from
			}
		}
		msg := stderr.String()
		if len(msg) > 600 {
			msg = msg[:600]
		}
		what := "crash"
		if timedOut {
			what = "timeout"
		}
		b, _ := json.Marshal(map[string]any{"kind": what, "i": last, "src": lastSrc, "stderr": msg, "exit": err.Error()})
		w.Write(b)
		w.Write([]byte("\n"))
		from = last + 1
	}
}
