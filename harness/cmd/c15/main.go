// c15: runs the real syntax.Quote / unquote / scanner / repr / Eval on
// generated inputs and prints what was observed (one JSON object per line).
//
//	c15 strings -seed S -n N [-sweep]   quote/unquote/scan observations + direct round trip
//	c15 isprint [-full]                 the hypothesis on strconv.IsPrint used by the Coq proof
//	c15 values  -seed S -n N            Eval(repr(v)) == v, cyclic str/repr (child processes)
//	c15 child <what> ...                crash-prone cases (stack overflow kills the process)
package main

import (
	"bytes"
	"encoding/hex"
	"encoding/json"
	"flag"
	"fmt"
	"math"
	"math/big"
	"os"
	"os/exec"
	"runtime/debug"
	"strconv"
	"strings"
	"sync"
	"time"
	"unicode/utf8"

	"go.starlark.net/starlark"
	"go.starlark.net/starlarkstruct"
	"go.starlark.net/syntax"

	"verifharness/internal/hx"
)

type M = map[string]any

func hx_(b string) string { return hex.EncodeToString([]byte(b)) }

// ---------------------------------------------------------------- strings

var runePool = []rune{
	0, 1, 7, 8, 9, 10, 11, 12, 13, 14, 0x1b, 0x1f, ' ', '!', '"', '#', '\'', '0', '7', 'A', 'U', '\\', 'a', 'b', 'n', 'r', 'u', 'x', '~', 0x7f,
	0x80, 0x85, 0x9f, 0xa0, 0xa1, 0xad, 0xe9, 0xff, 0x100, 0x300, 0x378, 0x7ff, 0x800, 0x2028, 0x2029, 0x200b, 0x202e, 0x3000, 0xd7ff, 0xe000,
	0xfeff, 0xfffd, 0xfffe, 0xffff, 0x10000, 0x1f600, 0x2fffe, 0xe0001, 0xf0000, 0x10fffd, 0x10ffff,
}

var badChunks = []string{
	"\x80", "\xbf", "\xc0\x80", "\xc1\xbf", "\xc2", "\xe0\x80\x80", "\xe0\xa0", "\xed\xa0\x80", "\xed\xbf\xbf", "\xf0\x80\x80\x80",
	"\xf0\x90\x80", "\xf4\x90\x80\x80", "\xf5", "\xff", "\xfe", "\xe2\x82", "\xef\xbf",
}

func randRune(r *hx.Rand) rune {
	switch r.Intn(10) {
	case 0, 1, 2, 3:
		return hx.Pick(r, runePool)
	case 4, 5:
		return rune(r.Intn(0x80))
	case 6:
		return rune(r.Intn(0x3000))
	case 7:
		return rune(0x10000 + r.Intn(0x100000))
	default:
		for {
			c := rune(r.Intn(0x110000))
			if c < 0xd800 || c >= 0xe000 {
				return c
			}
		}
	}
}

// randString returns a string; valid UTF-8 unless bad is set.
func randString(r *hx.Rand, bad bool) string {
	if !bad && r.Intn(4) == 0 {
		// "pure" strings: plain printable ASCII plus at most one kind of special
		// character (fast paths in printers key on exactly such strings)
		special := hx.Pick(r, []string{"", "", "\\", "\"", "'", "\n", "\t", "\x7f", "\x00", "é", "\u2028", "\U0001F600", "%", "{", "\\\""})
		var sb strings.Builder
		for i, n := 0, r.Intn(10); i < n; i++ {
			if special != "" && r.Intn(3) == 0 {
				sb.WriteString(special)
			} else {
				sb.WriteByte(byte(' ' + r.Intn(95)))
			}
		}
		return sb.String()
	}
	n := r.Intn(9)
	if r.Intn(8) == 0 {
		n = r.Intn(40)
	}
	var b []byte
	for i := 0; i < n; i++ {
		if bad && r.Intn(3) == 0 {
			if r.Bool() {
				b = append(b, hx.Pick(r, badChunks)...)
			} else {
				b = append(b, byte(r.Intn(256)))
			}
			continue
		}
		b = utf8.AppendRune(b, randRune(r))
	}
	return string(b)
}

func printable(s string) []int {
	seen := map[rune]bool{}
	var out []int
	for _, c := range s { // invalid bytes come out as U+FFFD, which is printable anyway
		if !seen[c] {
			seen[c] = true
			if strconv.IsPrint(c) {
				out = append(out, int(c))
			}
		}
	}
	if out == nil {
		out = []int{}
	}
	return out
}

func obsUnquote(lit string) M {
	s, triple, isByte, err := syntax.VerifUnquote(lit)
	if err != nil {
		return M{"err": true}
	}
	return M{"s": hx_(s), "triple": triple, "bytes": isByte}
}

func obsScan(src string) (m M, stringTok bool) {
	// the literal must be the very first thing in the source: the scanner skips
	// leading blank lines, spaces and comments, which are not part of the model
	if src == "" || strings.ContainsRune(" \t\n\r#\\", rune(src[0])) {
		return M{"tok": "leading-space"}, false
	}
	tok, _, val, rest, err := syntax.VerifFirstToken([]byte(src))
	if err != nil {
		return M{"err": true}, true
	}
	if tok != syntax.STRING && tok != syntax.BYTES {
		return M{"tok": tok.String()}, false
	}
	return M{"bytes": tok == syntax.BYTES, "s": hx_(val), "rest": rest}, true
}

var litAtoms = []string{
	"a", "Z", " ", "0", "9", "'", "\"", "\\\\", "\\'", "\\\"", "\\n", "\\r", "\\t", "\\a", "\\b", "\\f", "\\v", "\\0", "\\7", "\\12", "\\101", "\\177", "\\200", "\\377",
	"\\400", "\\777", "\\8", "\\x00", "\\x41", "\\x7f", "\\x7F", "\\x80", "\\xff", "\\xZZ", "\\x4", "\\u0041", "\\u00e9", "\\u2028", "\\ud7ff", "\\ud800", "\\udfff", "\\ue000",
	"\\uFFFD", "\\u12", "\\U0001F600", "\\U0010FFFF", "\\U00110000", "\\U0000D800", "\\UFFFFFFFF", "\\U0001F60", "\\q", "\\ ", "\\\n", "\\\r\n", "\\\r", "\n", "\r\n", "\r",
	"é", "\u2028", "\U0001F600", "\ufffd", "\\", "''", "\"\"", "'''", "\"\"\"", "#", "\\N", "\\e", "\\1a", "\\18",
}

func randLiteral(r *hx.Rand) string {
	prefix := hx.Pick(r, []string{"", "", "", "", "r", "b", "b", "rb", "br", "R", "B", "u"})
	q := hx.Pick(r, []string{"\"", "'"})
	delim := q
	if r.Intn(4) == 0 {
		delim = q + q + q
	}
	var sb strings.Builder
	sb.WriteString(prefix)
	sb.WriteString(delim)
	n := r.Intn(6)
	for i := 0; i < n; i++ {
		if r.Intn(5) == 0 {
			sb.WriteString(string(randRune(r)))
		} else {
			sb.WriteString(hx.Pick(r, litAtoms))
		}
	}
	switch r.Intn(12) {
	case 0: // unterminated
	case 1:
		sb.WriteString(q)
	default:
		sb.WriteString(delim)
	}
	if r.Intn(3) == 0 {
		sb.WriteString(hx.Pick(r, []string{" x", "\"", "'", "]", ", 1", "\n", "''", "b\"\""}))
	}
	s := sb.String()
	// single-byte corruption of a minority
	if r.Intn(10) == 0 && len(s) > 0 {
		b := []byte(s)
		switch r.Intn(3) {
		case 0:
			i := r.Intn(len(b))
			b = append(b[:i:i], b[i+1:]...)
		case 1:
			b[r.Intn(len(b))] = byte(hx.Pick(r, []int{'"', '\'', '\\', 'x', '0', '\n', 0x80, 0xff}))
		default:
			i := r.Intn(len(b) + 1)
			b = append(b[:i:i], append([]byte{byte(hx.Pick(r, []int{'"', '\'', '\\', '\r'}))}, b[i:]...)...)
		}
		s = string(b)
	}
	return s
}

// direct round trip on the implementation; returns "" when the law holds
func roundTrip(s string, b bool) string {
	if !b && !utf8.ValidString(s) {
		return ""
	}
	q := syntax.Quote(s, b)
	got, triple, isByte, err := syntax.VerifUnquote(q)
	if err != nil {
		return "unquote(Quote(s)) fails: " + err.Error()
	}
	if got != s || isByte != b || triple {
		return fmt.Sprintf("unquote(Quote(s)) = %q bytes=%v triple=%v", got, isByte, triple)
	}
	tok, _, val, rest, err := syntax.VerifFirstToken([]byte(q + " ]"))
	if err != nil {
		return "scanning Quote(s) fails: " + err.Error()
	}
	want := syntax.STRING
	if b {
		want = syntax.BYTES
	}
	if tok != want || val != s || rest != 2 {
		return fmt.Sprintf("scanning Quote(s) gives %v %q rest=%d", tok, val, rest)
	}
	return ""
}

// strIdentity: str of a string is the string itself, for EVERY string value
// (Starlark strings are byte strings: slicing at a byte offset inside a
// multi-byte character, or a host-constructed value, gives ill-formed UTF-8),
// through every entry point that converts with str: the builtin called from Go,
// str(x), "%s" % x, "{}".format(x) and string concatenation in the interpreter,
// and on slices computed by the interpreter itself.
func strIdentity(r *hx.Rand, n int, fail func(entry, s, got string)) (checked int) {
	var pool []string
	pool = append(pool, badChunks...)
	pool = append(pool, stringClasses(true)...)
	for _, c := range runePool {
		pool = append(pool, string(c), "a"+string(c)+"b")
	}
	for i := 0; i < n; i++ {
		pool = append(pool, randString(r, i%2 == 0))
	}
	// every byte-offset slice of some multi-byte strings
	for _, w := range []string{"héllo", "日本語", "a\U0001F600b", " xé", "né\xffe"} {
		for i := 0; i <= len(w); i++ {
			for j := i; j <= len(w); j++ {
				pool = append(pool, w[i:j])
			}
		}
	}
	prog := "r1 = str(x)\nr2 = \"%s\" % (x,)\nr3 = \"{}\".format(x)\nr4 = \"\" + x\nr5 = \"\".join([x])\nr6 = str(w[i:j])\nr7 = w[i:j]\n"
	for _, s := range pool {
		checked++
		if got, err := strOf(starlark.String(s)); err != nil || got != s {
			fail("builtin", s, got)
		}
		th := &starlark.Thread{Name: "str"}
		env := starlark.StringDict{"x": starlark.String(s), "w": starlark.String("zz" + s + "é"), "i": starlark.MakeInt(2), "j": starlark.MakeInt(2 + len(s))}
		g, err := starlark.ExecFile(th, "str.star", prog, env)
		if err != nil {
			fail("exec", s, err.Error())
			continue
		}
		for _, name := range []string{"r1", "r2", "r3", "r4", "r5", "r6", "r7"} {
			if got, ok := g[name].(starlark.String); !ok || string(got) != s {
				fail(map[string]string{"r1": "str(x)", "r2": "%s", "r3": "format", "r4": "concat", "r5": "join", "r6": "str(slice)", "r7": "slice"}[name], s, string(got))
			}
		}
	}
	return checked
}

func classOfString(s string) string {
	switch {
	case s == "":
		return "empty"
	case !utf8.ValidString(s):
		return "invalid-utf8"
	}
	cls := "ascii-printable"
	for _, c := range s {
		switch {
		case c == '"' || c == '\\' || c == '\'':
			cls = "quote-or-backslash"
		case c < 0x20 || c == 0x7f:
			return "control"
		case c >= 0x10000:
			cls = "astral"
		case c >= 0x80 && cls == "ascii-printable":
			if strconv.IsPrint(c) {
				cls = "non-ascii-printable"
			} else {
				cls = "non-ascii-unprintable"
			}
		}
	}
	return cls
}

func cmdStrings(args []string) {
	fs := flag.NewFlagSet("strings", flag.ExitOnError)
	seed := fs.Uint64("seed", 1, "")
	n := fs.Int("n", 1000, "")
	sweep := fs.Bool("sweep", false, "round-trip every single code point (and every byte) directly")
	fs.Parse(args)
	r := hx.NewRand(*seed)
	dist := map[string]int{}
	fails := 0
	fail := func(kind, s string, b bool, what string) {
		fails++
		if fails <= 50 {
			hx.Emit(M{"kind": "rt_fail", "sub": kind, "s": hx_(s), "b": b, "what": what, "class": classOfString(s)})
		}
	}
	emitQuote := func(s string, b bool) {
		q := syntax.Quote(s, b)
		hx.Emit(M{"kind": "quote", "s": hx_(s), "b": b, "q": hx_(q), "print": printable(s), "class": classOfString(s)})
		dist["quote:"+classOfString(s)]++
		if w := roundTrip(s, b); w != "" {
			fail("quote", s, b, w)
		}
	}
	// boundary pool: every pool rune alone, every byte alone (bytes mode), bad chunks
	for _, c := range runePool {
		emitQuote(string(c), false)
		emitQuote("a"+string(c)+"\"", true)
	}
	for i := 0; i < 256; i += 1 {
		emitQuote(string([]byte{byte(i)}), true)
	}
	for _, c := range badChunks {
		emitQuote(c, true)
		emitQuote("x"+c+"y", false) // not a legal literal: model only
	}
	for i := 0; i < *n; i++ {
		bad := r.Intn(4) == 0
		b := r.Intn(3) == 0
		emitQuote(randString(r, bad || (b && r.Bool())), b)
	}
	// scanner + unquote on generated literal source text
	nonString := 0
	for i := 0; i < *n; i++ {
		src := randLiteral(r)
		o, isStr := obsScan(src)
		if !isStr {
			nonString++
			dist["scan:not-a-string-token"]++
			continue
		}
		cls := "scan:ok"
		if o["err"] != nil {
			cls = "scan:error"
		}
		dist[cls]++
		hx.Emit(M{"kind": "scan", "src": hx_(src), "obs": o})
		if i%2 == 0 {
			hx.Emit(M{"kind": "unquote", "lit": hx_(src), "obs": obsUnquote(src)})
			dist["unquote:raw-text"]++
		}
	}
	// utf8 primitives
	for i := 0; i < *n/4+len(badChunks); i++ {
		var s string
		if i < len(badChunks) {
			s = badChunks[i] + "z"
		} else {
			s = randString(r, r.Bool())
		}
		c, w := utf8.DecodeRuneInString(s)
		hx.Emit(M{"kind": "utf8", "s": hx_(s), "r": int(c), "w": w, "valid": utf8.ValidString(s)})
		dist["utf8:decode"]++
		cp := rune(r.Intn(0x120000))
		if r.Intn(4) == 0 {
			cp = hx.Pick(r, runePool)
		}
		hx.Emit(M{"kind": "utf8enc", "r": int(cp), "enc": hx_(string(utf8.AppendRune(nil, cp)))})
	}
	// direct sweep
	swept := 0
	if *sweep {
		for c := rune(0); c <= 0x10ffff; c++ {
			if c >= 0xd800 && c < 0xe000 {
				continue
			}
			s := string(c)
			for _, b := range []bool{false, true} {
				if w := roundTrip(s, b); w != "" {
					fail("sweep", s, b, w)
				}
				if w := roundTrip("\\"+s+"\"", b); w != "" {
					fail("sweep-ctx", "\\"+s+"\"", b, w)
				}
			}
			swept++
		}
		for i := 0; i < 256; i++ {
			for j := 0; j < 256; j += 1 {
				s := string([]byte{byte(i), byte(j)})
				if w := roundTrip(s, true); w != "" {
					fail("sweep-bytes2", s, true, w)
				}
				if w := roundTrip(s, false); w != "" {
					fail("sweep-bytes2", s, false, w)
				}
			}
		}
	}
	// random direct round trips for volume
	vol := *n * 20
	for i := 0; i < vol; i++ {
		b := r.Bool()
		s := randString(r, b && r.Bool())
		if w := roundTrip(s, b); w != "" {
			fail("random", s, b, w)
		}
	}
	nstr := strIdentity(r, *n, func(entry, s, got string) {
		fails++
		if fails <= 50 {
			hx.Emit(M{"kind": "str_fail", "entry": entry, "s": hx_(s), "got": hx_(got), "class": classOfString(s)})
		}
	})
	dist["str-identity"] = nstr
	hx.Emit(M{"kind": "summary", "dist": dist, "rt_fails": fails, "swept_code_points": swept, "direct_round_trips": vol, "non_string_tokens": nonString})
}

// ---------------------------------------------------------------- isprint

func cmdIsPrint(args []string) {
	fs := flag.NewFlagSet("isprint", flag.ExitOnError)
	full := fs.Bool("full", false, "")
	seed := fs.Uint64("seed", 1, "")
	fs.Parse(args)
	r := hx.NewRand(*seed)
	checked, nprint := 0, 0
	var bad []int
	check := func(c rune) {
		checked++
		if strconv.IsPrint(c) {
			nprint++
			// hypothesis of the Coq proof: r <> 10 /\ r <> 13; the harness checks the
			// stronger documented fact as well (no control character, no DEL)
			if c == 10 || c == 13 || c < 0x20 || c == 0x7f {
				bad = append(bad, int(c))
			}
		}
	}
	if *full {
		for c := rune(0); c <= 0x10ffff; c++ {
			check(c)
		}
	} else {
		for c := rune(0); c < 0x3000; c++ {
			check(c)
		}
		for i := 0; i < 20000; i++ {
			check(rune(0x3000 + r.Intn(0x110000-0x3000)))
		}
	}
	if bad == nil {
		bad = []int{}
	}
	hx.Emit(M{"kind": "isprint", "checked": checked, "printable": nprint, "violations": bad, "full": *full})
}

// ---------------------------------------------------------------- values

type gen struct {
	r      *hx.Rand
	shared []starlark.Value
}

func (g *gen) randInt() starlark.Int {
	r := g.r
	switch r.Intn(6) {
	case 0:
		return starlark.MakeInt(r.Intn(20) - 10)
	case 1:
		b := hx.Pick(r, []int64{math.MaxInt32, math.MinInt32, math.MaxInt64, math.MinInt64, 1 << 31, 1 << 32, -(1 << 31) - 1, 1 << 53})
		return starlark.MakeInt64(b + int64(r.Intn(3)) - 1)
	case 2:
		return starlark.MakeInt64(int64(r.Uint64()))
	default:
		z := new(big.Int)
		nb := 1 + r.Intn(300)
		for i := 0; i < nb; i += 64 {
			z.Lsh(z, 64)
			z.Or(z, new(big.Int).SetUint64(r.Uint64()))
		}
		z.Rsh(z, uint(r.Intn(64)))
		if r.Intn(5) == 0 {
			z = new(big.Int).Lsh(big.NewInt(1), uint(r.Intn(300)))
			z.Add(z, big.NewInt(int64(r.Intn(3)-1)))
		}
		if r.Bool() {
			z.Neg(z)
		}
		return starlark.MakeBigInt(z)
	}
}

var floatPool = []float64{0, math.Copysign(0, -1), 1, -1, 0.1, 0.5, 1e5, 1e6, 123456, 1234567, 1e15, 1e16, 1e17, 1e20, 1e21, 1e22, 1e23, 1e-4, 1e-5, 1e-7, 5e-324, -5e-324,
	2.2250738585072014e-308, 2.225073858507201e-308, math.MaxFloat64, -math.MaxFloat64, 9007199254740993, 4.35, 0.3, 2.5e-324, 1.7976931348623157e308, 123456789012345680, 0.000001, 1e100, 3.141592653589793}

func (g *gen) randFloat() starlark.Float {
	r := g.r
	for {
		var f float64
		switch r.Intn(6) {
		case 0:
			f = hx.Pick(r, floatPool)
		case 1: // subnormal
			f = math.Float64frombits(r.Uint64() & (1<<52 - 1))
		case 2: // power of two +- 1ulp
			f = math.Ldexp(1, r.Intn(2098)-1074)
			switch r.Intn(3) {
			case 0:
				f = math.Nextafter(f, math.Inf(1))
			case 1:
				f = math.Nextafter(f, 0)
			}
		case 3: // short decimal, or full-precision value of moderate magnitude (printed without exponent)
			if r.Bool() {
				f, _ = strconv.ParseFloat(fmt.Sprintf("%de%d", r.Intn(100000), r.Intn(60)-30), 64)
			} else {
				f = math.Ldexp(1+float64(r.Uint64()>>12)/(1<<52), r.Intn(41)-17)
			}
		default:
			f = math.Float64frombits(r.Uint64())
		}
		if r.Intn(4) == 0 {
			f = -f
		}
		if !math.IsNaN(f) && !math.IsInf(f, 0) {
			return starlark.Float(f)
		}
	}
}

func (g *gen) leaf(hashable bool) starlark.Value {
	r := g.r
	switch r.Intn(8) {
	case 0:
		return starlark.None
	case 1:
		return starlark.Bool(r.Bool())
	case 2, 3:
		return g.randInt()
	case 4:
		return g.randFloat()
	case 5:
		return starlark.Bytes(randString(r, r.Bool()))
	default:
		return starlark.String(randString(r, false))
	}
}

func (g *gen) value(depth int, hashable bool) starlark.Value {
	r := g.r
	if depth <= 0 || r.Intn(3) == 0 {
		return g.leaf(hashable)
	}
	if !hashable && len(g.shared) > 0 && r.Intn(6) == 0 {
		return hx.Pick(r, g.shared) // shared substructure
	}
	n := r.Intn(4)
	if r.Intn(6) == 0 {
		n = 1
	}
	k := r.Intn(3)
	if hashable {
		k = 1
	}
	switch k {
	case 0:
		elems := make([]starlark.Value, n)
		for i := range elems {
			elems[i] = g.value(depth-1, false)
		}
		l := starlark.NewList(elems)
		g.shared = append(g.shared, l)
		return l
	case 1:
		t := make(starlark.Tuple, n)
		for i := range t {
			t[i] = g.value(depth-1, hashable)
		}
		return t
	default:
		d := starlark.NewDict(n)
		for i := 0; i < n; i++ {
			if err := d.SetKey(g.value(depth-1, true), g.value(depth-1, false)); err != nil {
				panic(err)
			}
		}
		g.shared = append(g.shared, d)
		return d
	}
}

// stringClasses: one short string for every subset of the character classes that
// quoting distinguishes, over a plain printable-ASCII base (so that strings made
// ONLY of plain ASCII plus exactly the chosen classes occur).
func stringClasses(bytesMode bool) []string {
	parts := []string{"\\", "\"", "'", "\n", "\x7f", "é", " ", "\U0001F600"}
	if bytesMode {
		parts = append(parts, "\xff")
	}
	var out []string
	for mask := 0; mask < 1<<len(parts); mask++ {
		s := "a b"
		for i, p := range parts {
			if mask&(1<<i) != 0 {
				s += p + "z"
			}
		}
		out = append(out, s)
	}
	// the same classes alone, doubled, at the start and at the end
	for _, p := range parts {
		out = append(out, p, p+p, p+"x", "x"+p, "C:"+p+"dir"+p)
	}
	return append(out, "", " ", "~", "a\\nb", "\\\\", "\\x41", "%s{}$")
}

func systematicLeaves() []starlark.Value {
	leaves := []starlark.Value{starlark.None, starlark.True, starlark.False}
	// ints around every power of two up to 2^260 and every power of ten up to 10^80
	one := big.NewInt(1)
	for k := 0; k <= 260; k++ {
		p := new(big.Int).Lsh(one, uint(k))
		for d := int64(-5); d <= 5; d++ {
			z := new(big.Int).Add(p, big.NewInt(d))
			leaves = append(leaves, starlark.MakeBigInt(z), starlark.MakeBigInt(new(big.Int).Neg(z)))
		}
	}
	ten := big.NewInt(10)
	p := big.NewInt(1)
	for k := 0; k <= 80; k++ {
		for d := int64(-2); d <= 2; d++ {
			z := new(big.Int).Add(p, big.NewInt(d))
			leaves = append(leaves, starlark.MakeBigInt(z), starlark.MakeBigInt(new(big.Int).Neg(z)))
		}
		p = new(big.Int).Mul(p, ten)
	}
	for _, f := range floatPool {
		leaves = append(leaves, starlark.Float(f), starlark.Float(-f))
	}
	// floats printed in positional notation with full precision (magnitude between
	// 1e-5 and 1e7, random 53-bit mantissa): text of 15-17 significant digits
	// without exponent, the other main path of float printing and scanning
	fr := hx.NewRand(0xC15)
	for i := 0; i < 2500; i++ {
		f := math.Ldexp(1+float64(fr.Uint64()>>12)/(1<<52), fr.Intn(41)-17)
		if i%2 == 1 {
			f = -f
		}
		leaves = append(leaves, starlark.Float(f))
	}
	// and short decimals d.ddd with 1..17 digits
	for i := 0; i < 1500; i++ {
		nd := 1 + fr.Intn(17)
		m := fr.Uint64() % uint64(math.Pow10(nd))
		f, _ := strconv.ParseFloat(fmt.Sprintf("%de-%d", m, fr.Intn(nd+3)), 64)
		leaves = append(leaves, starlark.Float(f))
	}
	for _, s := range stringClasses(false) {
		leaves = append(leaves, starlark.String(s))
	}
	for _, s := range stringClasses(true) {
		leaves = append(leaves, starlark.Bytes(s))
	}
	return leaves
}

// positions places a leaf alone and at every kind of position inside containers.
func positions(x starlark.Value) []starlark.Value {
	one := starlark.MakeInt(1)
	dk := starlark.NewDict(1)
	dk.SetKey(x, one)
	dv := starlark.NewDict(1)
	dv.SetKey(one, x)
	dd := starlark.NewDict(1)
	dd.SetKey(starlark.Tuple{x, x}, starlark.NewList([]starlark.Value{x}))
	return []starlark.Value{
		x,
		starlark.NewList([]starlark.Value{x}),
		starlark.NewList([]starlark.Value{one, x, x}),
		starlark.Tuple{x},
		starlark.Tuple{x, one},
		dk, dv, dd,
		starlark.NewList([]starlark.Value{starlark.Tuple{starlark.NewList([]starlark.Value{x})}}),
	}
}

// deepSame: same type and same content, exactly (floats by bit pattern, dict order included)
func deepSame(x, y starlark.Value) bool {
	if x.Type() != y.Type() {
		return false
	}
	switch x := x.(type) {
	case starlark.NoneType:
		return true
	case starlark.Bool:
		return x == y.(starlark.Bool)
	case starlark.Int:
		return x.BigInt().Cmp(y.(starlark.Int).BigInt()) == 0
	case starlark.Float:
		return math.Float64bits(float64(x)) == math.Float64bits(float64(y.(starlark.Float)))
	case starlark.String:
		return x == y.(starlark.String)
	case starlark.Bytes:
		return x == y.(starlark.Bytes)
	case *starlark.List:
		yl := y.(*starlark.List)
		if x.Len() != yl.Len() {
			return false
		}
		for i := 0; i < x.Len(); i++ {
			if !deepSame(x.Index(i), yl.Index(i)) {
				return false
			}
		}
		return true
	case starlark.Tuple:
		yt := y.(starlark.Tuple)
		if len(x) != len(yt) {
			return false
		}
		for i := range x {
			if !deepSame(x[i], yt[i]) {
				return false
			}
		}
		return true
	case *starlark.Dict:
		xi, yi := x.Items(), y.(*starlark.Dict).Items()
		if len(xi) != len(yi) {
			return false
		}
		for i := range xi {
			if !deepSame(xi[i][0], yi[i][0]) || !deepSame(xi[i][1], yi[i][1]) {
				return false
			}
		}
		return true
	}
	return false
}

func depthOf(v starlark.Value) int {
	d := 0
	switch v := v.(type) {
	case *starlark.List:
		for i := 0; i < v.Len(); i++ {
			d = max(d, depthOf(v.Index(i)))
		}
		return d + 1
	case starlark.Tuple:
		for _, e := range v {
			d = max(d, depthOf(e))
		}
		return d + 1
	case *starlark.Dict:
		for _, it := range v.Items() {
			d = max(d, depthOf(it[0]), depthOf(it[1]))
		}
		return d + 1
	}
	return 0
}

// describe renders a value for the Coq side: a small JSON tree.
func describe(v starlark.Value) any {
	switch v := v.(type) {
	case starlark.NoneType:
		return M{"t": "none"}
	case starlark.Bool:
		return M{"t": "bool", "b": bool(v)}
	case starlark.Int:
		return M{"t": "int", "z": v.String()}
	case starlark.Float:
		return M{"t": "float", "bits": strconv.FormatUint(math.Float64bits(float64(v)), 10)}
	case starlark.String:
		return M{"t": "str", "s": hx_(string(v)), "print": printable(string(v))}
	case starlark.Bytes:
		return M{"t": "bytes", "s": hx_(string(v)), "print": printable(string(v))}
	case *starlark.List:
		xs := []any{}
		for i := 0; i < v.Len(); i++ {
			xs = append(xs, describe(v.Index(i)))
		}
		return M{"t": "list", "xs": xs}
	case starlark.Tuple:
		xs := []any{}
		for _, e := range v {
			xs = append(xs, describe(e))
		}
		return M{"t": "tuple", "xs": xs}
	case *starlark.Dict:
		xs := []any{}
		for _, it := range v.Items() {
			xs = append(xs, []any{describe(it[0]), describe(it[1])})
		}
		return M{"t": "dict", "xs": xs}
	}
	return M{"t": "other"}
}

func reprOf(v starlark.Value) (string, error) {
	th := &starlark.Thread{Name: "c15"}
	r, err := starlark.Call(th, starlark.Universe["repr"], starlark.Tuple{v}, nil)
	if err != nil {
		return "", err
	}
	return string(r.(starlark.String)), nil
}

func strOf(v starlark.Value) (string, error) {
	th := &starlark.Thread{Name: "c15"}
	r, err := starlark.Call(th, starlark.Universe["str"], starlark.Tuple{v}, nil)
	if err != nil {
		return "", err
	}
	return string(r.(starlark.String)), nil
}

func typeClass(v starlark.Value) string {
	switch v := v.(type) {
	case starlark.Int:
		if v.BigInt().BitLen() > 63 {
			return "int-big"
		}
		return "int-small"
	case starlark.Float:
		f := float64(v)
		switch {
		case f == 0:
			return "float-zero"
		case math.Abs(f) < 2.2250738585072014e-308:
			return "float-subnormal"
		case f == math.Trunc(f):
			return "float-integral"
		}
		return "float-other"
	}
	return v.Type()
}

func cmdValues(args []string) {
	fs := flag.NewFlagSet("values", flag.ExitOnError)
	seed := fs.Uint64("seed", 1, "")
	n := fs.Int("n", 1000, "")
	ncoq := fs.Int("coq", 300, "values also printed in full for the Coq write_value/read_value models")
	ngraphs := fs.Int("graphs", 30, "random cyclic/shared value graphs in addition to the named shapes")
	fs.Parse(args)
	r := hx.NewRand(*seed)
	dist := map[string]int{}
	fails := 0
	check := func(v starlark.Value, emit bool) {
		cls := typeClass(v)
		if d := depthOf(v); d > 0 {
			cls = fmt.Sprintf("%s-depth%d", v.Type(), d)
		}
		dist[cls]++
		text, err := reprOf(v)
		what := ""
		if err != nil {
			what = "repr failed: " + err.Error()
		} else if v.String() != text {
			what = "repr(v) differs from v.String()"
		} else {
			th := &starlark.Thread{Name: "c15"}
			v2, err := starlark.Eval(th, "repr", text, nil)
			if err != nil {
				what = "Eval(repr(v)) failed: " + err.Error()
			} else if !deepSame(v, v2) {
				t2, _ := reprOf(v2)
				what = "Eval(repr(v)) is a different value or type: " + t2
			} else if eq, err := starlark.Equal(v, v2); err == nil && !eq {
				// (an error here is Equal's own recursion limit on values deeper
				// than CompareLimit, reachable through shared substructure;
				// deepSame above has already compared everything exactly)
				what = "Eval(repr(v)) != v"
			}
		}
		if s, ok := v.(starlark.String); ok && what == "" {
			if st, err := strOf(v); err != nil || st != string(s) {
				what = "str(s) is not s"
			}
		}
		if what != "" {
			fails++
			if fails <= 50 {
				hx.Emit(M{"kind": "value_fail", "class": typeClass(v), "v": describe(v), "repr": hx_(text), "what": what})
			}
		}
		if emit && err == nil {
			st, _ := strOf(v)
			hx.Emit(M{"kind": "value", "v": describe(v), "repr": hx_(text), "str": hx_(st)})
		}
	}
	// systematic part: every leaf kind x every position.  The printer has separate
	// code for a leaf printed on its own (T.String()) and inside a container
	// (writeValue's duplicated cases), and the scanner has separate paths by literal
	// size, so each boundary leaf is placed alone, as list / tuple element, as dict
	// key and dict value, and one level deeper.
	nsys := 0
	for li, leaf := range systematicLeaves() {
		for pi, v := range positions(leaf) {
			// a deterministic slice of them also goes through the Coq printer model / reader
			check(v, li%181 == 0 && (pi == 1 || pi == 5))
			nsys++
		}
	}
	dist["systematic-leaf-x-position"] = nsys
	for _, f := range floatPool {
		check(starlark.Float(f), true)
		check(starlark.Float(-f), false)
	}
	check(starlark.Tuple{}, true)
	check(starlark.Tuple{starlark.MakeInt(1)}, true)
	check(starlark.Tuple{starlark.Tuple{starlark.Tuple{}}}, true)
	check(starlark.NewList(nil), true)
	check(starlark.NewDict(0), true)
	for i := 0; i < *n; i++ {
		g := &gen{r: r}
		var v starlark.Value
		switch r.Intn(4) {
		case 0:
			v = g.randInt()
		case 1:
			v = g.randFloat()
		default:
			v = g.value(1+r.Intn(6), false)
		}
		check(v, i < *ncoq)
	}
	// cyclic / shared value graphs: every graph is printed with str and repr at
	// every node, unfrozen, after Freeze(), inside the module that builds it, as a
	// global of the finished (frozen) module and from a module that loads it; one
	// child process per graph (a runaway recursion kills the process)
	cyc := 0
	specs := graphSpecs(r, *ngraphs)
	recs := make([]M, len(specs))
	sem := make(chan struct{}, 8)
	var wg sync.WaitGroup
	for gi, g := range specs {
		wg.Add(1)
		go func(gi int, g gspec) {
			defer wg.Done()
			sem <- struct{}{}
			recs[gi] = runGraph(g)
			<-sem
		}(gi, g)
	}
	wg.Wait()
	for gi, rec := range recs {
		rec["index"] = gi
		dist["graph:"+rec["cyc"].(string)]++
		cyc++
		hx.Emit(rec)
	}
	{
		out, status := runChild(10*time.Second, "cycle", "list-struct-list")
		dist["cyclic:list-struct-list"]++
		hx.Emit(M{"kind": "cycle", "what": "list-struct-list", "status": status, "out": out})
	}
	hx.Emit(M{"kind": "summary", "dist": dist, "value_fails": fails, "cyclic_cases": cyc})
}

// ---------------------------------------------------------------- value graphs

// A gnode is a list ("L"), dict ("D") or tuple ("T"); children >= 0 are node
// indices, children < 0 are the int leaf -c.  Tuples may refer to lists, dicts
// and EARLIER tuples only (they are immutable: built before lists/dicts are filled).
type gnode struct {
	K string `json:"k"`
	C []int  `json:"c"`
}
type gspec struct {
	Name  string  `json:"name"`
	Nodes []gnode `json:"nodes"`
}

func namedGraphs() []gspec {
	L := func(c ...int) gnode { return gnode{"L", c} }
	D := func(c ...int) gnode { return gnode{"D", c} }
	T := func(c ...int) gnode { return gnode{"T", c} }
	return []gspec{
		{"list-self", []gnode{L(-1, 0, -3)}},
		{"list-self-twice", []gnode{L(0, 0)}},
		{"dict-self", []gnode{D(0, -1)}},
		{"list-list", []gnode{L(-1, 1), L(0, -2)}},
		{"list-list-list", []gnode{L(1), L(2), L(0, -7)}},
		{"list-dict-list", []gnode{L(1, 1), D(0)}},
		{"dict-list-dict", []gnode{D(1, -5), L(0)}},
		{"dict-dict", []gnode{D(1), D(0, 1)}},
		{"list-tuple-list", []gnode{L(2), T(0), T(0, 1)}},
		{"tuple-list-tuple", []gnode{T(1, -4), L(0)}},
		{"dict-tuple-dict", []gnode{D(1), T(0, -2)}},
		{"list-tuple-dict-list", []gnode{L(1), T(2), D(0, 1)}},
		{"two-cycles", []gnode{L(0, 1), L(1, 0)}},
		{"shared-acyclic", []gnode{L(1, 1, 2), L(-1), T(1, 1)}},
		{"diamond", []gnode{L(1, 2), L(3), D(3), L(-9)}},
		{"deep-shared", []gnode{L(1, 1), L(2, 2), L(3, 3), L(4, 4), L(5, 5), L(6, 6), L(-1)}},
		{"cycle-below-shared", []gnode{L(1, 1), L(2), L(1, -1)}},
		{"empty-things", []gnode{L(1, 2, 3), L(), D(), T()}},
	}
}

func graphSpecs(r *hx.Rand, nrandom int) []gspec {
	gs := namedGraphs()
	for i := 0; i < nrandom; i++ {
		n := 1 + r.Intn(5)
		g := gspec{Name: fmt.Sprintf("random-%d", i)}
		for j := 0; j < n; j++ {
			k := hx.Pick(r, []string{"L", "L", "L", "D", "T"})
			var c []int
			nc := r.Intn(4)
			for x := 0; x < nc; x++ {
				if r.Intn(4) == 0 {
					c = append(c, -(1 + r.Intn(9)))
					continue
				}
				t := r.Intn(n)
				c = append(c, t)
			}
			g.Nodes = append(g.Nodes, gnode{k, c})
		}
		// tuples may only see lists, dicts and earlier tuples
		for j := range g.Nodes {
			if g.Nodes[j].K != "T" {
				continue
			}
			var c []int
			for _, t := range g.Nodes[j].C {
				if t < 0 || g.Nodes[t].K != "T" || t < j {
					c = append(c, t)
				}
			}
			g.Nodes[j].C = c
		}
		gs = append(gs, g)
	}
	return gs
}

// cycleKind names the class of the graph: which node kinds lie on a cycle.
func cycleKind(g gspec) string {
	n := len(g.Nodes)
	reach := make([][]bool, n)
	for i := range reach {
		reach[i] = make([]bool, n)
		for _, c := range g.Nodes[i].C {
			if c >= 0 {
				reach[i][c] = true
			}
		}
	}
	for k := 0; k < n; k++ {
		for i := 0; i < n; i++ {
			for j := 0; j < n; j++ {
				if reach[i][k] && reach[k][j] {
					reach[i][j] = true
				}
			}
		}
	}
	kinds := map[string]bool{}
	for i := 0; i < n; i++ {
		if reach[i][i] {
			kinds[g.Nodes[i].K] = true
		}
	}
	switch {
	case len(kinds) == 0:
		return "acyclic"
	case kinds["D"] && kinds["L"]:
		if kinds["T"] {
			return "cycle-lists-dicts-tuples"
		}
		return "cycle-lists-dicts"
	case kinds["D"]:
		if kinds["T"] {
			return "cycle-dicts-tuples"
		}
		return "cycle-dicts"
	case kinds["T"]:
		return "cycle-lists-tuples"
	}
	return "cycle-lists"
}

func buildGraph(g gspec) []starlark.Value {
	vals := make([]starlark.Value, len(g.Nodes))
	for i, nd := range g.Nodes {
		switch nd.K {
		case "L":
			vals[i] = starlark.NewList(nil)
		case "D":
			vals[i] = starlark.NewDict(0)
		}
	}
	child := func(c int) starlark.Value {
		if c < 0 {
			return starlark.MakeInt(-c)
		}
		return vals[c]
	}
	for i, nd := range g.Nodes {
		if nd.K == "T" {
			t := make(starlark.Tuple, len(nd.C))
			for j, c := range nd.C {
				t[j] = child(c)
			}
			vals[i] = t
		}
	}
	for i, nd := range g.Nodes {
		switch nd.K {
		case "L":
			for _, c := range nd.C {
				vals[i].(*starlark.List).Append(child(c))
			}
		case "D":
			for j, c := range nd.C {
				vals[i].(*starlark.Dict).SetKey(starlark.String(fmt.Sprintf("k%d", j)), child(c))
			}
		}
	}
	return vals
}

// graphProgram is Starlark source that builds the same graph as globals n0, n1, ...
// and prints every node inside the module (out = [[repr, str], ...]).
func graphProgram(g gspec) string {
	var sb strings.Builder
	ref := func(c int) string {
		if c < 0 {
			return strconv.Itoa(-c)
		}
		return fmt.Sprintf("n%d", c)
	}
	for i, nd := range g.Nodes {
		switch nd.K {
		case "L":
			fmt.Fprintf(&sb, "n%d = []\n", i)
		case "D":
			fmt.Fprintf(&sb, "n%d = {}\n", i)
		}
	}
	for i, nd := range g.Nodes {
		if nd.K == "T" {
			fmt.Fprintf(&sb, "n%d = (", i)
			for _, c := range nd.C {
				sb.WriteString(ref(c) + ",")
			}
			sb.WriteString(")\n")
		}
	}
	for i, nd := range g.Nodes {
		for j, c := range nd.C {
			switch nd.K {
			case "L":
				fmt.Fprintf(&sb, "n%d.append(%s)\n", i, ref(c))
			case "D":
				fmt.Fprintf(&sb, "n%d[\"k%d\"] = %s\n", i, j, ref(c))
			}
		}
	}
	sb.WriteString("out = [")
	for i := range g.Nodes {
		fmt.Fprintf(&sb, "[repr(n%d), str(n%d)],", i, i)
	}
	sb.WriteString("]\n")
	return sb.String()
}

// childGraph prints, for every stage and node, "out <stage> <node> <hex repr> <hex str>";
// "stage <name>" is printed (and flushed) before each stage so that the parent
// knows where a crash happened.
func childGraph(js string) {
	var g gspec
	if err := json.Unmarshal([]byte(js), &g); err != nil {
		os.Exit(2)
	}
	stage := func(name string) { fmt.Printf("stage %s\n", name); os.Stdout.Sync() }
	emit := func(st string, i int, r, s string) { fmt.Printf("out %s %d %s %s\n", st, i, hx_(r), hx_(s)) }
	printAll := func(st string, vals []starlark.Value) {
		stage(st)
		for i, v := range vals {
			r, err1 := reprOf(v)
			s, err2 := strOf(v)
			if err1 != nil || err2 != nil {
				fmt.Printf("error %s %d\n", st, i)
				continue
			}
			if r != v.String() {
				fmt.Printf("error %s %d repr-vs-String\n", st, i)
			}
			emit(st, i, r, s)
		}
	}
	// Go API: unfrozen, then frozen from every node in turn (Freeze is recursive;
	// entering the cycle at different nodes)
	vals := buildGraph(g)
	printAll("api-unfrozen", vals)
	for i := range vals {
		fresh := buildGraph(g)
		fresh[i].Freeze()
		stage(fmt.Sprintf("api-frozen-from-%d", i))
		for j, v := range fresh {
			r, err1 := reprOf(v)
			s, err2 := strOf(v)
			if err1 != nil || err2 != nil {
				fmt.Printf("error api-frozen %d\n", j)
				continue
			}
			emit(fmt.Sprintf("api-frozen-from-%d", i), j, r, s)
		}
	}
	// through the interpreter
	src := graphProgram(g)
	stage("in-module")
	th := &starlark.Thread{Name: "g"}
	globals, err := starlark.ExecFile(th, "g.star", src, nil)
	if err != nil {
		fmt.Printf("error in-module exec %s\n", hx_(err.Error()))
		return
	}
	if out, ok := globals["out"].(*starlark.List); ok {
		for i := 0; i < out.Len(); i++ {
			p := out.Index(i).(*starlark.List)
			emit("in-module", i, string(p.Index(0).(starlark.String)), string(p.Index(1).(starlark.String)))
		}
	}
	globals.Freeze()
	gv := make([]starlark.Value, len(g.Nodes))
	for i := range g.Nodes {
		gv[i] = globals[fmt.Sprintf("n%d", i)]
	}
	printAll("module-global", gv)
	stage("loaded")
	var cl strings.Builder
	cl.WriteString("load(\"g.star\"")
	for i := range g.Nodes {
		fmt.Fprintf(&cl, ", \"n%d\"", i)
	}
	cl.WriteString(")\nout2 = [")
	for i := range g.Nodes {
		fmt.Fprintf(&cl, "[repr(n%d), str(n%d), \"%%r\" %% (n%d,), \"%%s\" %% (n%d,)],", i, i, i, i)
	}
	cl.WriteString("]\n")
	th2 := &starlark.Thread{Name: "client", Load: func(*starlark.Thread, string) (starlark.StringDict, error) { return globals, nil }}
	g2, err := starlark.ExecFile(th2, "client.star", cl.String(), nil)
	if err != nil {
		fmt.Printf("error loaded exec %s\n", hx_(err.Error()))
		return
	}
	out2 := g2["out2"].(*starlark.List)
	for i := 0; i < out2.Len(); i++ {
		p := out2.Index(i).(*starlark.List)
		emit("loaded", i, string(p.Index(0).(starlark.String)), string(p.Index(1).(starlark.String)))
		emit("loaded-format", i, string(p.Index(2).(starlark.String)), string(p.Index(3).(starlark.String)))
	}
	stage("done")
}

func runGraph(g gspec) M {
	js, _ := json.Marshal(g)
	cmd := exec.Command(os.Args[0], "child", "graph", string(js))
	var out, errb bytes.Buffer
	cmd.Stdout = &out
	cmd.Stderr = &errb
	status := "ok"
	if err := cmd.Start(); err != nil {
		status = "start-failed"
	} else {
		done := make(chan error, 1)
		go func() { done <- cmd.Wait() }()
		select {
		case err := <-done:
			if err != nil {
				e := errb.String()
				switch {
				case strings.Contains(e, "stack overflow"):
					status = "stack-overflow"
				case strings.Contains(e, "panic"):
					status = "panic"
				default:
					status = "crash"
				}
			}
		case <-time.After(20 * time.Second):
			cmd.Process.Kill()
			status = "timeout"
		}
	}
	last := ""
	outs := []M{}
	var errs []string
	for _, line := range strings.Split(out.String(), "\n") {
		f := strings.Fields(line)
		switch {
		case len(f) == 2 && f[0] == "stage":
			last = f[1]
		case len(f) >= 4 && f[0] == "out":
			node, _ := strconv.Atoi(f[2])
			sv := ""
			if len(f) > 4 {
				sv = f[4]
			}
			outs = append(outs, M{"stage": f[1], "node": node, "repr": f[3], "str": sv})
		case len(f) >= 1 && f[0] == "error":
			errs = append(errs, line)
		}
	}
	if status == "ok" && last != "done" {
		status = "incomplete"
	}
	return M{"kind": "graph", "spec": g, "cyc": cycleKind(g), "status": status, "last_stage": last, "outs": outs, "errors": errs}
}

func runChild(timeout time.Duration, args ...string) (string, string) {
	cmd := exec.Command(os.Args[0], append([]string{"child"}, args...)...)
	var out, errb bytes.Buffer
	cmd.Stdout = &out
	cmd.Stderr = &errb
	if err := cmd.Start(); err != nil {
		return "", "start-failed"
	}
	done := make(chan error, 1)
	go func() { done <- cmd.Wait() }()
	select {
	case err := <-done:
		if err != nil {
			e := errb.String()
			switch {
			case strings.Contains(e, "stack overflow"):
				return "", "stack-overflow"
			case strings.Contains(e, "panic"):
				return "", "panic"
			}
			return "", "crash"
		}
		return strings.TrimSpace(out.String()), "ok"
	case <-time.After(timeout):
		cmd.Process.Kill()
		return "", "timeout"
	}
}

func cmdChild(args []string) {
	debug.SetMaxStack(64 << 20) // a runaway recursion dies quickly with "stack overflow"
	if len(args) == 2 && args[0] == "graph" {
		childGraph(args[1])
		return
	}
	if len(args) < 2 || args[0] != "cycle" {
		os.Exit(2)
	}
	var v starlark.Value
	switch args[1] {
	case "list-struct-list":
		l := starlark.NewList(nil)
		s := starlarkstruct.FromStringDict(starlarkstruct.Default, starlark.StringDict{"x": l})
		l.Append(s)
		v = l
	default:
		os.Exit(2)
	}
	r1, err1 := reprOf(v)
	r2, err2 := strOf(v)
	if err1 != nil || err2 != nil {
		fmt.Println("error")
		return
	}
	if len(r1) > 4000 {
		r1 = r1[:4000] + fmt.Sprintf("...(%d bytes)", len(r1))
	}
	fmt.Printf("%s\n", r1)
	if r1 != r2 && len(r2) <= 400 {
		fmt.Printf("str differs: %s\n", r2)
	}
}

// undescribe rebuilds a value from the JSON tree printed by describe.
func undescribe(x any) starlark.Value {
	m := x.(map[string]any)
	unhex := func(k string) string { b, _ := hex.DecodeString(m[k].(string)); return string(b) }
	switch m["t"] {
	case "none":
		return starlark.None
	case "bool":
		return starlark.Bool(m["b"].(bool))
	case "int":
		z, _ := new(big.Int).SetString(m["z"].(string), 10)
		return starlark.MakeBigInt(z)
	case "float":
		u, _ := strconv.ParseUint(m["bits"].(string), 10, 64)
		return starlark.Float(math.Float64frombits(u))
	case "str":
		return starlark.String(unhex("s"))
	case "bytes":
		return starlark.Bytes(unhex("s"))
	case "list", "tuple":
		var xs []starlark.Value
		for _, e := range m["xs"].([]any) {
			xs = append(xs, undescribe(e))
		}
		if m["t"] == "list" {
			return starlark.NewList(xs)
		}
		return starlark.Tuple(xs)
	case "dict":
		d := starlark.NewDict(0)
		for _, e := range m["xs"].([]any) {
			kv := e.([]any)
			d.SetKey(undescribe(kv[0]), undescribe(kv[1]))
		}
		return d
	}
	return starlark.None
}

// cmdReplay re-runs one recorded input (the "replay" object of a finding, on stdin).
func cmdReplay() {
	var m map[string]any
	if err := json.NewDecoder(os.Stdin).Decode(&m); err != nil {
		fmt.Fprintln(os.Stderr, err)
		os.Exit(2)
	}
	unhex := func(k string) string { b, _ := hex.DecodeString(m[k].(string)); return string(b) }
	switch m["kind"] {
	case "quote", "rt_fail":
		s, b := unhex("s"), m["b"].(bool)
		hx.Emit(M{"kind": "quote", "s": hx_(s), "b": b, "q": hx_(syntax.Quote(s, b)), "print": printable(s), "class": classOfString(s)})
		if w := roundTrip(s, b); w != "" {
			hx.Emit(M{"kind": "rt_fail", "sub": "replay", "s": hx_(s), "b": b, "what": w, "class": classOfString(s)})
		}
	case "str_fail":
		one := unhex("s")
		strIdentityOne := func(entry, s, got string) {
			hx.Emit(M{"kind": "str_fail", "entry": entry, "s": hx_(s), "got": hx_(got), "class": classOfString(s)})
		}
		_ = one
		if got, err := strOf(starlark.String(one)); err != nil || got != one {
			strIdentityOne("builtin", one, got)
		}
	case "scan":
		src := unhex("src")
		if o, isStr := obsScan(src); isStr {
			hx.Emit(M{"kind": "scan", "src": hx_(src), "obs": o})
		}
	case "unquote":
		hx.Emit(M{"kind": "unquote", "lit": m["lit"], "obs": obsUnquote(unhex("lit"))})
	case "value", "value_fail":
		v := undescribe(m["v"])
		text, err := reprOf(v)
		what := ""
		if err != nil {
			what = "repr failed: " + err.Error()
		} else if v2, err := starlark.Eval(&starlark.Thread{Name: "c15"}, "repr", text, nil); err != nil {
			what = "Eval(repr(v)) failed: " + err.Error()
		} else if !deepSame(v, v2) {
			what = "Eval(repr(v)) is a different value or type"
		}
		if what != "" {
			hx.Emit(M{"kind": "value_fail", "class": typeClass(v), "v": describe(v), "repr": hx_(text), "what": what})
		}
		if err == nil {
			st, _ := strOf(v)
			hx.Emit(M{"kind": "value", "v": describe(v), "repr": hx_(text), "str": hx_(st)})
		}
	case "graph":
		js, _ := json.Marshal(m["spec"])
		var g gspec
		json.Unmarshal(js, &g)
		hx.Emit(runGraph(g))
	case "cycle":
		what := m["what"].(string)
		out, status := runChild(10*time.Second, "cycle", what)
		hx.Emit(M{"kind": "cycle", "what": what, "status": status, "out": out})
	case "isprint":
		cmdIsPrint([]string{"-full"})
	}
}

func main() {
	if len(os.Args) < 2 {
		fmt.Fprintln(os.Stderr, "usage: c15 strings|isprint|values|child ...")
		os.Exit(2)
	}
	defer hx.Flush()
	switch os.Args[1] {
	case "strings":
		cmdStrings(os.Args[2:])
	case "isprint":
		cmdIsPrint(os.Args[2:])
	case "values":
		cmdValues(os.Args[2:])
	case "child":
		cmdChild(os.Args[2:])
	case "replay":
		cmdReplay()
	default:
		os.Exit(2)
	}
}
