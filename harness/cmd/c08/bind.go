package main

// c08 bind: every signature of the bounded product in C08's quantifier is
// rendered as a Starlark `def f(...)` that returns all of its parameters, every
// call shape as a call site `def sN(S, D): return f(<positional>, <named>, *S, **D)`;
// the sites are executed on the real interpreter (so the CALL* opcodes do the
// flattening and setArgs the binding) for every * sequence S and ** dict D of
// the product.  Each observation is compared with a binder written here,
// independently, from the Python rule (specBind, association lists only); a
// sample is printed in full for the Coq model / Spec.v and for CPython.

import (
	"bytes"
	"flag"
	"fmt"
	"os"
	"runtime"
	"sort"
	"strings"
	"sync"

	"go.starlark.net/starlark"
	"go.starlark.net/syntax"

	"verifharness/internal/hx"
)

// ---------------------------------------------------------------- signatures

type kwParam struct {
	Name string
	D    int // 0 = no default
}

type sigT struct {
	Req    []string
	Opt    []kwParam // D != 0
	Star   string    // "none" "bare" "args"
	Kwonly []kwParam
	Kwargs bool
}

const argsName, kwName = "args", "kw"

func (s *sigT) ordinary() []string {
	var out []string
	out = append(out, s.Req...)
	for _, o := range s.Opt {
		out = append(out, o.Name)
	}
	for _, k := range s.Kwonly {
		out = append(out, k.Name)
	}
	return out
}

// def text; the function returns its parameters in the order
// positional, keyword-only, *args, **kwargs.
func (s *sigT) def() string {
	var ps, ret []string
	for _, r := range s.Req {
		ps = append(ps, r)
		ret = append(ret, r)
	}
	for _, o := range s.Opt {
		ps = append(ps, fmt.Sprintf("%s=%d", o.Name, o.D))
		ret = append(ret, o.Name)
	}
	switch s.Star {
	case "bare":
		ps = append(ps, "*")
	case "args":
		ps = append(ps, "*"+argsName)
	}
	for _, k := range s.Kwonly {
		if k.D != 0 {
			ps = append(ps, fmt.Sprintf("%s=%d", k.Name, k.D))
		} else {
			ps = append(ps, k.Name)
		}
		ret = append(ret, k.Name)
	}
	if s.Star == "args" {
		ret = append(ret, argsName)
	}
	if s.Kwargs {
		ps = append(ps, "**"+kwName)
		ret = append(ret, kwName)
	}
	if len(ret) == 0 {
		return fmt.Sprintf("def f(%s): return ()", strings.Join(ps, ", "))
	}
	return fmt.Sprintf("def f(%s): return (%s,)", strings.Join(ps, ", "), strings.Join(ret, ", "))
}

func allSignatures() []*sigT {
	posNames := []string{"a", "b", "c"}
	kwNames := []string{"k", "m"}
	var out []*sigT
	for r := 0; r <= 3; r++ {
		for o := 0; r+o <= 3; o++ {
			for _, star := range []string{"none", "bare", "args"} {
				for nk := 0; nk <= 2; nk++ {
					if star == "none" && nk > 0 || star == "bare" && nk == 0 {
						continue
					}
					for mask := 0; mask < 1<<nk; mask++ {
						for _, kwargs := range []bool{false, true} {
							s := &sigT{Star: star, Kwargs: kwargs}
							for i := 0; i < r; i++ {
								s.Req = append(s.Req, posNames[i])
							}
							for i := 0; i < o; i++ {
								s.Opt = append(s.Opt, kwParam{posNames[r+i], 901 + i})
							}
							for i := 0; i < nk; i++ {
								d := 0
								if mask&(1<<i) != 0 {
									d = 911 + i
								}
								s.Kwonly = append(s.Kwonly, kwParam{kwNames[i], d})
							}
							out = append(out, s)
						}
					}
				}
			}
		}
	}
	return out
}

// --------------------------------------------------------------------- calls

type kv struct {
	K string
	V int
}

type dItem struct {
	K     string
	IsStr bool
	V     int
}

type siteT struct {
	NPos  int
	Named []kv
	HasS  bool
	HasD  bool
}

type starOpt struct {
	Bad bool
	Seq []int
}

type dstarOpt struct {
	Bad   bool
	Items []dItem
}

func (st *siteT) src(idx int) string {
	var as []string
	for i := 0; i < st.NPos; i++ {
		as = append(as, fmt.Sprint(101+i))
	}
	for _, n := range st.Named {
		as = append(as, fmt.Sprintf("%s=%d", n.K, n.V))
	}
	if st.HasS {
		as = append(as, "*S")
	}
	if st.HasD {
		as = append(as, "**D")
	}
	// the result is observed LATE: after the call the site keeps evaluating multi-operand
	// expressions at the same operand-stack depth, and only then returns what f returned
	return fmt.Sprintf("def s%d(S, D):\n  r = f(%s)\n  _j(981, 982, 983, 984, 985, 986, 987, 988)\n  _t = [971, 972, 973, 974, 975, 976, 977]\n  return r", idx, strings.Join(as, ", "))
}

// the call as one expression, valid Starlark and Python
func callSrc(st *siteT, S *starOpt, D *dstarOpt) string {
	var as []string
	for i := 0; i < st.NPos; i++ {
		as = append(as, fmt.Sprint(101+i))
	}
	for _, n := range st.Named {
		as = append(as, fmt.Sprintf("%s=%d", n.K, n.V))
	}
	if S != nil {
		if S.Bad {
			as = append(as, "*7")
		} else {
			var el []string
			for _, e := range S.Seq {
				el = append(el, fmt.Sprint(e))
			}
			as = append(as, "*["+strings.Join(el, ", ")+"]")
		}
	}
	if D != nil {
		if D.Bad {
			as = append(as, "**7")
		} else {
			var el []string
			for _, it := range D.Items {
				if it.IsStr {
					el = append(el, fmt.Sprintf("%q: %d", it.K, it.V))
				} else {
					el = append(el, fmt.Sprintf("1: %d", it.V))
				}
			}
			as = append(as, "**{"+strings.Join(el, ", ")+"}")
		}
	}
	return "f(" + strings.Join(as, ", ") + ")"
}

func subsets(names []string, base int) [][]kv {
	var out [][]kv
	for mask := 0; mask < 1<<len(names); mask++ {
		var l []kv
		for i, n := range names {
			if mask&(1<<i) != 0 {
				l = append(l, kv{n, base + i})
			}
		}
		out = append(out, l)
	}
	return out
}

func sitesFor(s *sigT) []*siteT {
	uni := append(s.ordinary(), "z")
	var out []*siteT
	for npos := 0; npos <= 4; npos++ {
		for _, sub := range subsets(uni, 201) {
			orders := [][]kv{sub}
			if len(sub) >= 2 {
				rev := make([]kv, len(sub))
				for i := range sub {
					rev[len(sub)-1-i] = sub[i]
				}
				orders = append(orders, rev)
			}
			for _, named := range orders {
				for _, hs := range []bool{false, true} {
					for _, hd := range []bool{false, true} {
						out = append(out, &siteT{NPos: npos, Named: named, HasS: hs, HasD: hd})
					}
				}
			}
		}
	}
	return out
}

func starOpts() []*starOpt {
	return []*starOpt{{Seq: nil}, {Seq: []int{301}}, {Seq: []int{301, 302}}, {Seq: []int{301, 302, 303}}, {Bad: true}}
}

func dstarOpts(s *sigT) []*dstarOpt {
	uni := append(s.ordinary(), "z", "y")
	if s.Star == "args" {
		uni = append(uni, argsName)
	}
	if s.Kwargs {
		uni = append(uni, kwName)
	}
	var out []*dstarOpt
	for _, sub := range subsets(uni, 401) {
		if len(sub) > 3 { // every ** dict of up to 3 keys
			continue
		}
		d := &dstarOpt{}
		for _, e := range sub {
			d.Items = append(d.Items, dItem{e.K, true, e.V})
		}
		out = append(out, d)
	}
	// a non-string key (alone, and after a string key), a non-mapping
	out = append(out, &dstarOpt{Items: []dItem{{"", false, 499}}})
	out = append(out, &dstarOpt{Items: []dItem{{"z", true, 498}, {"", false, 499}}})
	out = append(out, &dstarOpt{Bad: true})
	return out
}

// ---------------------------------------------------- the independent binder

type bnd struct {
	Kind string // "v" "t" "d"
	V    int
	T    []int
	D    []kv
}

type outcome struct {
	Err string // "" = success
	B   []bnd
}

func lookup(K []kv, name string) (int, bool) {
	for _, e := range K {
		if e.K == name {
			return e.V, true
		}
	}
	return 0, false
}

func count(K []kv, name string) int {
	n := 0
	for _, e := range K {
		if e.K == name {
			n++
		}
	}
	return n
}

// specBind is Python 3's binding rule.  classes = every error class that applies
// to the call (used to decide whether CPython's choice of class is comparable).
func specBind(s *sigT, st *siteT, S *starOpt, D *dstarOpt) (res outcome, classes []string) {
	// operands
	var operand []string
	if D != nil && D.Bad {
		operand = append(operand, "dstar")
	}
	if D != nil && !D.Bad {
		for _, it := range D.Items {
			if !it.IsStr {
				operand = append(operand, "key")
				break
			}
		}
	}
	if S != nil && S.Bad {
		operand = append(operand, "star")
	}
	classes = append(classes, operand...)
	// (with an operand error the remaining classes are still collected, from
	// the usable part of the call, to know whether several classes apply)
	var P []int
	for i := 0; i < st.NPos; i++ {
		P = append(P, 101+i)
	}
	if S != nil {
		P = append(P, S.Seq...)
	}
	K := append([]kv{}, st.Named...)
	if D != nil {
		for _, it := range D.Items {
			if it.IsStr {
				K = append(K, kv{it.K, it.V})
			}
		}
	}
	type pp struct {
		name string
		d    int
	}
	var pk []pp
	for _, r := range s.Req {
		pk = append(pk, pp{r, 0})
	}
	for _, o := range s.Opt {
		pk = append(pk, pp{o.Name, o.D})
	}
	isParam := map[string]bool{}
	for _, n := range s.ordinary() {
		isParam[n] = true
	}
	tooMany := len(P) > len(pk) && s.Star != "args"
	// the first keyword that cannot be accepted
	firstBad := ""
	anyMult, anyUnexp := false, false
	for j, e := range K {
		bad := ""
		dup := false
		for _, prev := range K[:j] {
			if prev.K == e.K {
				dup = true
			}
		}
		for i, p := range pk {
			if p.name == e.K && i < len(P) {
				dup = true
			}
		}
		if dup {
			bad = "multiple"
			anyMult = true
		} else if !isParam[e.K] && !s.Kwargs {
			bad = "unexpected"
			anyUnexp = true
		}
		if bad != "" && firstBad == "" {
			firstBad = bad
		}
	}
	var vals []bnd
	missing := false
	for i, p := range pk {
		if i < len(P) {
			vals = append(vals, bnd{Kind: "v", V: P[i]})
		} else if v, ok := lookup(K, p.name); ok {
			vals = append(vals, bnd{Kind: "v", V: v})
		} else if p.d != 0 {
			vals = append(vals, bnd{Kind: "v", V: p.d})
		} else {
			missing = true
		}
	}
	for _, k := range s.Kwonly {
		if v, ok := lookup(K, k.Name); ok {
			vals = append(vals, bnd{Kind: "v", V: v})
		} else if k.D != 0 {
			vals = append(vals, bnd{Kind: "v", V: k.D})
		} else {
			missing = true
		}
	}
	if tooMany {
		classes = append(classes, "toomany")
	}
	if anyMult {
		classes = append(classes, "multiple")
	}
	if anyUnexp {
		classes = append(classes, "unexpected")
	}
	if missing {
		classes = append(classes, "missing")
	}
	switch {
	case len(operand) > 0:
		return outcome{Err: operand[0]}, classes
	case tooMany:
		return outcome{Err: "toomany"}, classes
	case firstBad != "":
		return outcome{Err: firstBad}, classes
	case missing:
		return outcome{Err: "missing"}, classes
	}
	if s.Star == "args" {
		t := []int{}
		if len(P) > len(pk) {
			t = P[len(pk):]
		}
		vals = append(vals, bnd{Kind: "t", T: t})
	}
	if s.Kwargs {
		d := []kv{}
		for _, e := range K {
			if !isParam[e.K] {
				d = append(d, e)
			}
		}
		vals = append(vals, bnd{Kind: "d", D: d})
	}
	return outcome{B: vals}, nil
}

// ------------------------------------------------------------ the real thing

func classify(err error) string {
	m := err.Error()
	switch {
	case strings.Contains(m, "accepts no arguments"):
		return "noargs"
	case strings.Contains(m, "positional argument"):
		return "toomany"
	case strings.Contains(m, "unexpected keyword"):
		return "unexpected"
	case strings.Contains(m, "multiple values"):
		return "multiple"
	case strings.Contains(m, "missing"):
		return "missing"
	case strings.Contains(m, "argument after * must be iterable"):
		return "star"
	case strings.Contains(m, "argument after ** must be a mapping"):
		return "dstar"
	case strings.Contains(m, "keywords must be strings"):
		return "key"
	}
	return "other:" + m
}

func observe(v starlark.Value, err error) outcome {
	if err != nil {
		return outcome{Err: classify(err)}
	}
	t, ok := v.(starlark.Tuple)
	if !ok {
		return outcome{Err: "other:result is " + v.Type()}
	}
	o := outcome{B: []bnd{}}
	for _, e := range t {
		switch e := e.(type) {
		case starlark.Int:
			n, _ := e.Int64()
			o.B = append(o.B, bnd{Kind: "v", V: int(n)})
		case starlark.Tuple:
			b := bnd{Kind: "t", T: []int{}}
			for _, x := range e {
				n, _ := x.(starlark.Int).Int64()
				b.T = append(b.T, int(n))
			}
			o.B = append(o.B, b)
		case *starlark.Dict:
			b := bnd{Kind: "d", D: []kv{}}
			for _, it := range e.Items() {
				k, _ := starlark.AsString(it[0])
				n, _ := it[1].(starlark.Int).Int64()
				b.D = append(b.D, kv{k, int(n)})
			}
			o.B = append(o.B, b)
		default:
			return outcome{Err: "other:element " + e.Type()}
		}
	}
	return o
}

func sameOutcome(a, b outcome, coarse bool, npos int) bool {
	ae := a.Err
	if coarse && ae == "noargs" {
		// setArgs' message for parameterless functions, split by what was surplus
		if npos > 0 {
			ae = "toomany"
		} else {
			ae = "unexpected"
		}
	}
	if ae != b.Err || len(a.B) != len(b.B) {
		return false
	}
	for i := range a.B {
		x, y := a.B[i], b.B[i]
		if x.Kind != y.Kind || x.V != y.V || len(x.T) != len(y.T) || len(x.D) != len(y.D) {
			return false
		}
		for j := range x.T {
			if x.T[j] != y.T[j] {
				return false
			}
		}
		for j := range x.D {
			if x.D[j] != y.D[j] {
				return false
			}
		}
	}
	return true
}

// ------------------------------------------------------------------- JSON out

type jSig struct {
	Req    []string `json:"req"`
	Opt    [][2]any `json:"opt"`
	Star   string   `json:"star"`
	Kwonly [][2]any `json:"kwonly"`
	Kwargs bool     `json:"kwargs"`
}

type jCall struct {
	Pos   []int    `json:"pos"`
	Named [][2]any `json:"named"`
	Star  any      `json:"star"`  // nil | {"seq":[..]} | {"bad":true}
	Dstar any      `json:"dstar"` // nil | {"items":[[key,isStr,val]..]} | {"bad":true}
}

type jCase struct {
	Kind    string   `json:"kind"` // "case" | "mismatch"
	Sig     jSig     `json:"sig"`
	Call    jCall    `json:"call"`
	Obs     any      `json:"obs"`
	Spec    any      `json:"gospec"`
	Classes []string `json:"classes"`
	Def     string   `json:"def"`
	Src     string   `json:"src"`
	Mode    string   `json:"mode"` // "" | "late-module" | "roundtrip"
	Coq     bool     `json:"coq"`
	Py      bool     `json:"py"`
}

func jOutcome(o outcome) any {
	if o.Err != "" {
		return map[string]any{"err": o.Err}
	}
	l := []any{}
	for _, b := range o.B {
		switch b.Kind {
		case "v":
			l = append(l, map[string]any{"v": b.V})
		case "t":
			l = append(l, map[string]any{"t": append([]int{}, b.T...)})
		case "d":
			d := [][2]any{}
			for _, e := range b.D {
				d = append(d, [2]any{e.K, e.V})
			}
			l = append(l, map[string]any{"d": d})
		}
	}
	return map[string]any{"ok": l}
}

func mkCase(kind string, s *sigT, st *siteT, S *starOpt, D *dstarOpt, obs, spec outcome, classes []string) *jCase {
	c := &jCase{Kind: kind, Def: s.def(), Src: callSrc(st, S, D), Obs: jOutcome(obs), Spec: jOutcome(spec), Classes: classes}
	c.Sig = jSig{Req: append([]string{}, s.Req...), Opt: [][2]any{}, Star: s.Star, Kwonly: [][2]any{}, Kwargs: s.Kwargs}
	for _, o := range s.Opt {
		c.Sig.Opt = append(c.Sig.Opt, [2]any{o.Name, o.D})
	}
	for _, k := range s.Kwonly {
		if k.D != 0 {
			c.Sig.Kwonly = append(c.Sig.Kwonly, [2]any{k.Name, k.D})
		} else {
			c.Sig.Kwonly = append(c.Sig.Kwonly, [2]any{k.Name, nil})
		}
	}
	c.Call = jCall{Pos: []int{}, Named: [][2]any{}}
	for i := 0; i < st.NPos; i++ {
		c.Call.Pos = append(c.Call.Pos, 101+i)
	}
	for _, n := range st.Named {
		c.Call.Named = append(c.Call.Named, [2]any{n.K, n.V})
	}
	if S != nil {
		if S.Bad {
			c.Call.Star = map[string]any{"bad": true}
		} else {
			c.Call.Star = map[string]any{"seq": append([]int{}, S.Seq...)}
		}
	}
	if D != nil {
		if D.Bad {
			c.Call.Dstar = map[string]any{"bad": true}
		} else {
			items := [][3]any{}
			for _, it := range D.Items {
				items = append(items, [3]any{it.K, it.IsStr, it.V})
			}
			c.Call.Dstar = map[string]any{"items": items}
		}
	}
	return c
}

// ----------------------------------------------------------------------- main

func mix(a ...uint64) uint64 {
	h := uint64(0x9E3779B97F4A7C15)
	for _, x := range a {
		h ^= x + 0x9E3779B97F4A7C15 + (h << 6) + (h >> 2)
		h *= 0xBF58476D1CE4E5B9
		h ^= h >> 29
	}
	return h
}

func mkStar(S *starOpt) starlark.Value {
	if S.Bad {
		return starlark.MakeInt(7)
	}
	t := make(starlark.Tuple, len(S.Seq))
	for i, e := range S.Seq {
		t[i] = starlark.MakeInt(e)
	}
	return t
}

func mkDict(D *dstarOpt) starlark.Value {
	if D.Bad {
		return starlark.MakeInt(7)
	}
	d := starlark.NewDict(len(D.Items))
	for _, it := range D.Items {
		if it.IsStr {
			d.SetKey(starlark.String(it.K), starlark.MakeInt(it.V))
		} else {
			d.SetKey(starlark.MakeInt(1), starlark.MakeInt(it.V))
		}
	}
	return d
}

type sigResult struct {
	roundtrips int
	lates      int
	cases      []*jCase
	total      int
	mismatches int
	dist       map[string]int
	fatal      string
}

func bindMain(argv []string) {
	fs := flag.NewFlagSet("bind", flag.ExitOnError)
	seed := fs.Uint64("seed", 1, "seed")
	frac := fs.Float64("frac", 1.0, "fraction of call sites executed (1 = the full product)")
	ncoq := fs.Int("coq", 3000, "cases printed for evaluation in Coq")
	npy := fs.Int("py", 20000, "cases printed for CPython")
	workers := fs.Int("workers", 0, "goroutines (0 = GOMAXPROCS, at most 12)")
	fs.Parse(argv)

	sigs := allSignatures()
	stars := starOpts()
	// pass 1: choose the sites, count the cases
	type job struct {
		idx   int
		s     *sigT
		sites []*siteT
		ds    []*dstarOpt
		n     int
	}
	var jobs []*job
	total := 0
	thr := uint64(*frac * float64(1<<32))
	for i, s := range sigs {
		j := &job{idx: i, s: s, ds: dstarOpts(s)}
		for k, st := range sitesFor(s) {
			if *frac < 1 && mix(*seed, uint64(i), uint64(k))&0xffffffff >= thr {
				continue
			}
			j.sites = append(j.sites, st)
			n := 1
			if st.HasS {
				n *= len(stars)
			}
			if st.HasD {
				n *= len(j.ds)
			}
			j.n += n
		}
		total += j.n
		jobs = append(jobs, j)
	}
	pcoq := uint64(float64(*ncoq) / float64(total+1) * float64(1<<32))
	ppy := uint64(float64(*npy) / float64(total+1) * float64(1<<32))
	if *ncoq >= total {
		pcoq = 1 << 32
	}
	if *npy >= total {
		ppy = 1 << 32
	}

	results := make([]*sigResult, len(jobs))
	nw := *workers
	if nw <= 0 {
		nw = runtime.GOMAXPROCS(0)
		if nw > 12 {
			nw = 12
		}
	}
	ch := make(chan *job)
	var wg sync.WaitGroup
	for w := 0; w < nw; w++ {
		wg.Add(1)
		go func() {
			defer wg.Done()
			for j := range ch {
				results[j.idx] = runSig(j.idx, j.s, j.sites, stars, j.ds, *seed, pcoq, ppy, *frac < 1)
			}
		}()
	}
	// big signatures first
	order := append([]*job{}, jobs...)
	sort.SliceStable(order, func(a, b int) bool { return order[a].n > order[b].n })
	for _, j := range order {
		ch <- j
	}
	close(ch)
	wg.Wait()

	dist := map[string]int{}
	nm, ntot, nrt, nlate := 0, 0, 0, 0
	for _, r := range results {
		nrt += r.roundtrips
		nlate += r.lates
		if r.fatal != "" {
			fmt.Fprintln(os.Stderr, "c08 bind:", r.fatal)
			os.Exit(1)
		}
		for _, c := range r.cases {
			hx.Emit(c)
		}
		for k, v := range r.dist {
			dist[k] += v
		}
		nm += r.mismatches
		ntot += r.total
	}
	hx.Emit(map[string]any{"kind": "summary", "signatures": len(sigs), "cases": ntot, "mismatches": nm, "dist": dist, "frac": *frac, "roundtrip_cases": nrt, "late_module_calls": nlate})
	hx.Flush()
}

// a panic inside the interpreter is an observation ("other:panic ..."), not the end of the harness
func safeCall(thread *starlark.Thread, fn starlark.Value, args starlark.Tuple, kwargs []starlark.Tuple) (v starlark.Value, err error) {
	defer func() {
		if r := recover(); r != nil {
			v, err = nil, fmt.Errorf("panic: %v", r)
		}
	}()
	return starlark.Call(thread, fn, args, kwargs)
}

func runSig(idx int, s *sigT, sites []*siteT, stars []*starOpt, ds []*dstarOpt, seed uint64, pcoq, ppy uint64, rtAll bool) *sigResult {
	res := &sigResult{dist: map[string]int{}}
	if len(sites) == 0 {
		return res
	}
	var src strings.Builder
	src.WriteString(s.def() + "\ndef _j(*a): return None\n")
	for k, st := range sites {
		src.WriteString(st.src(k) + "\n")
	}
	thread := &starlark.Thread{Name: "c08"}
	globals, err := starlark.ExecFileOptions(&syntax.FileOptions{}, thread, "sig.star", src.String(), nil)
	if err != nil {
		res.fatal = fmt.Sprintf("signature %q does not execute: %v", s.def(), err)
		return res
	}
	// the same module after a serialization round trip (Program.Write -> CompiledProgram -> Init)
	var globalsRT starlark.StringDict
	rtErr := ""
	func() {
		defer func() {
			if r := recover(); r != nil {
				rtErr = fmt.Sprintf("panic: %v", r)
			}
		}()
		_, prog, err := starlark.SourceProgramOptions(&syntax.FileOptions{}, "sig.star", src.String(), func(string) bool { return false })
		if err != nil {
			rtErr = err.Error()
			return
		}
		var buf bytes.Buffer
		if err := prog.Write(&buf); err != nil {
			rtErr = err.Error()
			return
		}
		prog2, err := starlark.CompiledProgram(&buf)
		if err != nil {
			rtErr = err.Error()
			return
		}
		g2, err := prog2.Init(&starlark.Thread{Name: "c08rt"}, nil)
		if err != nil {
			rtErr = err.Error()
			return
		}
		globalsRT = g2
	}()
	if rtErr != "" {
		res.fatal = fmt.Sprintf("signature %q does not survive Program.Write/CompiledProgram: %s", s.def(), rtErr)
		return res
	}
	threadRT := &starlark.Thread{Name: "c08rt"}
	lateModule(res, s)
	starVals := make([]starlark.Value, len(stars))
	for i, S := range stars {
		starVals[i] = mkStar(S)
	}
	dVals := make([]starlark.Value, len(ds))
	for i, D := range ds {
		dVals[i] = mkDict(D)
	}
	args := make(starlark.Tuple, 2)
	mismatchKeys := map[string]int{}
	for k, st := range sites {
		fn := globals[fmt.Sprintf("s%d", k)]
		nS, nD := 1, 1
		if st.HasS {
			nS = len(stars)
		}
		if st.HasD {
			nD = len(ds)
		}
		for si := 0; si < nS; si++ {
			for di := 0; di < nD; di++ {
				var S *starOpt
				var D *dstarOpt
				args[0], args[1] = starlark.None, starlark.None
				if st.HasS {
					S = stars[si]
					args[0] = starVals[si]
				}
				if st.HasD {
					D = ds[di]
					args[1] = dVals[di]
				}
				v, err := safeCall(thread, fn, args, nil)
				obs := observe(v, err)
				spec, classes := specBind(s, st, S, D)
				npos := st.NPos
				if S != nil {
					npos += len(S.Seq)
				}
				ok := sameOutcome(obs, spec, true, npos)
				res.total++
				cls := "ok"
				if obs.Err != "" {
					cls = obs.Err
					if strings.HasPrefix(cls, "other:") {
						cls = "other"
					}
				}
				res.dist[cls]++
				h := mix(seed, uint64(idx), uint64(k), uint64(si), uint64(di))
				// success and rarer classes are weighted up in the printed samples
				w := uint64(1)
				switch cls {
				case "ok":
					w = 40
				case "missing", "noargs":
					w = 12
				case "unexpected", "toomany":
					w = 3
				}
				coq := (h & 0xffffffff) < pcoq*w
				py := ((h >> 32) & 0xffffffff) < ppy*w
				// every case in the sampled tiers, one in eight in the full product: the same call on the reloaded module
				if ok && (rtAll || h%8 == 0) {
					v2, err2 := safeCall(threadRT, globalsRT[fmt.Sprintf("s%d", k)], args, nil)
					obs2 := observe(v2, err2)
					res.roundtrips++
					if !sameOutcome(obs2, spec, true, npos) {
						res.mismatches++
						key := fmt.Sprintf("rt/%s/%s/%v/%v", obs2.Err, spec.Err, st.HasS, st.HasD)
						mismatchKeys[key]++
						if mismatchKeys[key] <= 2 {
							c := mkCase("mismatch", s, st, S, D, obs2, spec, classes)
							c.Mode = "roundtrip"
							c.Coq, c.Py = true, false
							res.cases = append(res.cases, c)
						}
						continue
					}
				}
				if !ok {
					res.mismatches++
					key := fmt.Sprintf("%s/%s/%v/%v", obs.Err, spec.Err, st.HasS, st.HasD)
					mismatchKeys[key]++
					if mismatchKeys[key] <= 3 {
						c := mkCase("mismatch", s, st, S, D, obs, spec, classes)
						c.Coq, c.Py = true, true
						res.cases = append(res.cases, c)
					}
					continue
				}
				if coq || py {
					c := mkCase("case", s, st, S, D, obs, spec, classes)
					c.Coq, c.Py = coq, py
					res.cases = append(res.cases, c)
				}
			}
		}
	}
	return res
}

// lateModule: calls made at MODULE level whose results are kept in a global list while the
// module goes on evaluating other calls and displays; the kept results are compared after
// the module has finished (they must neither change nor alias one another).
func lateModule(res *sigResult, s *sigT) {
	type kept struct {
		st   *siteT
		spec outcome
		cls  []string
	}
	var ks []kept
	var src strings.Builder
	src.WriteString(s.def() + "\ndef _j(*a): return None\nKEEP = []\n")
	for round := 0; round < 2; round++ {
		for npos := 0; npos <= 4; npos++ {
			// name every required parameter that is not filled positionally
			st := &siteT{NPos: npos}
			i := 0
			for _, r := range s.Req {
				if i >= npos {
					st.Named = append(st.Named, kv{r, 201 + 10*round + i})
				}
				i++
			}
			for j, k := range s.Kwonly {
				if k.D == 0 {
					st.Named = append(st.Named, kv{k.Name, 231 + 10*round + j})
				}
			}
			spec, classes := specBind(s, st, nil, nil)
			if spec.Err != "" {
				continue
			}
			var as []string
			for p := 0; p < npos; p++ {
				as = append(as, fmt.Sprint(101+p))
			}
			for _, n := range st.Named {
				as = append(as, fmt.Sprintf("%s=%d", n.K, n.V))
			}
			fmt.Fprintf(&src, "KEEP.append(f(%s))\n_j(981, 982, 983, 984, 985, 986, 987, 988)\n[971, 972, 973, 974, 975, 976, 977]\n", strings.Join(as, ", "))
			ks = append(ks, kept{st, spec, classes})
		}
	}
	if len(ks) == 0 {
		return
	}
	var g starlark.StringDict
	var err error
	func() {
		defer func() {
			if r := recover(); r != nil {
				err = fmt.Errorf("panic: %v", r)
			}
		}()
		g, err = starlark.ExecFileOptions(&syntax.FileOptions{}, &starlark.Thread{Name: "c08late"}, "late.star", src.String(), nil)
	}()
	var list *starlark.List
	if err == nil {
		list, _ = g["KEEP"].(*starlark.List)
	}
	for i, k := range ks {
		res.lates++
		var obs outcome
		if err != nil || list == nil || i >= list.Len() {
			obs = outcome{Err: fmt.Sprintf("other:module did not finish: %v", err)}
		} else {
			obs = observe(list.Index(i), nil)
		}
		if !sameOutcome(obs, k.spec, true, k.st.NPos) {
			res.mismatches++
			c := mkCase("mismatch", s, k.st, nil, nil, obs, k.spec, k.cls)
			c.Mode = "late-module"
			c.Coq, c.Py = true, false
			res.cases = append(res.cases, c)
			if len(res.cases) > 6 {
				break
			}
		}
	}
}
