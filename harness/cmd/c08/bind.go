package main

func bindMain(args []string) {}
