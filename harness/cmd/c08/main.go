// c08: correspondence harness for property C08 (argument binding).
//
//	c08 bind   ...   Starlark-defined functions: signatures x calls (bind.go)
//	c08 unpack ...   UnpackArgs / UnpackPositionalArgs built-ins (unpack.go)
package main

import (
	"fmt"
	"os"
)

func main() {
	if len(os.Args) < 2 {
		fmt.Fprintln(os.Stderr, "usage: c08 bind|unpack [flags]")
		os.Exit(2)
	}
	switch os.Args[1] {
	case "bind":
		bindMain(os.Args[2:])
	case "unpack":
		unpackMain(os.Args[2:])
	default:
		fmt.Fprintln(os.Stderr, "unknown sub-command", os.Args[1])
		os.Exit(2)
	}
}
