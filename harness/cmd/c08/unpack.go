package main

// c08 unpack: Go built-ins that call starlark.UnpackArgs / UnpackPositionalArgs
// with typed targets pre-filled with sentinels, for every parameter list of the
// bounded product (<= 3 parameters x marker name/name?/name?? x target kind)
// and call shapes (0..4 positional, named subsets of declared and undeclared
// names, duplicates as a **dict would append them) x argument types.  Reports
// the error class and what every target holds afterwards; compares with a
// per-parameter specification written here independently (specUnpack).

import (
	"flag"
	"fmt"
	"math/big"
	"runtime"
	"strconv"
	"strings"
	"sync"

	"go.starlark.net/starlark"

	"verifharness/internal/hx"
)

type uParam struct {
	Name   string
	Marker string // "plain" "opt" "optnone"
	Kind   string // value string bool int int8 float list dict callable iterable
}

func (p uParam) raw() string {
	switch p.Marker {
	case "opt":
		return p.Name + "?"
	case "optnone":
		return p.Name + "??"
	}
	return p.Name
}

// an argument value, described
type uArg struct {
	T  string `json:"t"` // none bool int float string list dict tuple func
	Z  string `json:"z,omitempty"`
	ID int    `json:"id"`
}

var sentList = starlark.NewList([]starlark.Value{starlark.String("PREV")})
var sentDict = starlark.NewDict(1)
var sentFunc = starlark.NewBuiltin("PREV", func(*starlark.Thread, *starlark.Builtin, starlark.Tuple, []starlark.Tuple) (starlark.Value, error) {
	return starlark.None, nil
})
var sentIter = starlark.Tuple{starlark.String("PREV")}
var sentVal = starlark.String("PREV")
var lenFn = starlark.Universe["len"]

// an application-defined Unpacker: it takes strings only and stores nothing on failure
type strUnpacker struct{ v starlark.Value }

func (u *strUnpacker) Unpack(v starlark.Value) error {
	s, ok := v.(starlark.String)
	if !ok {
		return fmt.Errorf("got %s, want string", v.Type())
	}
	u.v = s
	return nil
}

type tgt struct {
	v   starlark.Value
	s   string
	b   bool
	i   int
	i8  int8
	u8  uint8
	i16 int16
	i32 int32
	i64 int64
	u   uint
	u16 uint16
	u32 uint32
	u64 uint64
	up  uintptr
	unp strUnpacker
	tup starlark.Tuple
	iv  starlark.Int
	f   float64
	l   *starlark.List
	d   *starlark.Dict
	c   starlark.Callable
	it  starlark.Iterable
}

func newTgt() *tgt {
	return &tgt{v: sentVal, s: "PREV", b: false, i: -777, i8: -77, u8: 77, i16: -7777, i32: -77777, i64: -777777, u: 777777, u16: 7777, u32: 77777, u64: 777777, up: 777777,
		unp: strUnpacker{sentVal}, tup: starlark.Tuple{starlark.String("PREV")}, iv: starlark.MakeInt(-777777), f: -7.5, l: sentList, d: sentDict, c: sentFunc, it: sentIter}
}

func (t *tgt) ptr(kind string) any {
	switch kind {
	case "value":
		return &t.v
	case "string":
		return &t.s
	case "bool":
		return &t.b
	case "int":
		return &t.i
	case "int8":
		return &t.i8
	case "uint8":
		return &t.u8
	case "int16":
		return &t.i16
	case "int32":
		return &t.i32
	case "int64":
		return &t.i64
	case "uint":
		return &t.u
	case "uint16":
		return &t.u16
	case "uint32":
		return &t.u32
	case "uint64":
		return &t.u64
	case "uintptr":
		return &t.up
	case "unpacker":
		return &t.unp
	case "tuplev":
		return &t.tup
	case "intv":
		return &t.iv
	case "float":
		return &t.f
	case "list":
		return &t.l
	case "dict":
		return &t.d
	case "callable":
		return &t.c
	case "iterable":
		return &t.it
	}
	panic(kind)
}

func mkArg(a uArg) starlark.Value {
	switch a.T {
	case "none":
		return starlark.None
	case "bool":
		return starlark.True
	case "int":
		z, _ := new(big.Int).SetString(a.Z, 10)
		return starlark.MakeBigInt(z)
	case "float":
		return starlark.Float(float64(a.ID) + 0.5)
	case "string":
		return starlark.String("s" + strconv.Itoa(a.ID))
	case "list":
		return starlark.NewList([]starlark.Value{starlark.MakeInt(a.ID)})
	case "dict":
		d := starlark.NewDict(1)
		d.SetKey(starlark.MakeInt(a.ID), starlark.None)
		return d
	case "tuple":
		return starlark.Tuple{starlark.MakeInt(a.ID)}
	case "func":
		return lenFn
	}
	panic(a.T)
}

func describeVal(v starlark.Value) uArg {
	if v == nil {
		return uArg{T: "nil"} // the target was overwritten with a nil interface
	}
	switch v := v.(type) {
	case starlark.NoneType:
		return uArg{T: "none"}
	case starlark.Bool:
		return uArg{T: "bool"}
	case starlark.Int:
		return uArg{T: "int", Z: v.String()}
	case starlark.Float:
		return uArg{T: "float", ID: int(float64(v) - 0.5)}
	case starlark.String:
		n, _ := strconv.Atoi(strings.TrimPrefix(string(v), "s"))
		return uArg{T: "string", ID: n}
	case *starlark.List:
		n, _ := starlark.AsInt32(v.Index(0))
		return uArg{T: "list", ID: n}
	case *starlark.Dict:
		n, _ := starlark.AsInt32(v.Keys()[0])
		return uArg{T: "dict", ID: n}
	case starlark.Tuple:
		n, _ := starlark.AsInt32(v[0])
		return uArg{T: "tuple", ID: n}
	case *starlark.Builtin:
		return uArg{T: "func"}
	}
	return uArg{T: "?" + v.Type()}
}

// what a target holds: nil = previous content
func (t *tgt) read(kind string) *uArg {
	switch kind {
	case "value":
		if t.v == starlark.Value(sentVal) {
			return nil
		}
		a := describeVal(t.v)
		return &a
	case "string":
		if t.s == "PREV" {
			return nil
		}
		n, _ := strconv.Atoi(strings.TrimPrefix(t.s, "s"))
		return &uArg{T: "string", ID: n}
	case "bool":
		if !t.b {
			return nil
		}
		return &uArg{T: "bool"}
	case "int":
		if t.i == -777 {
			return nil
		}
		return &uArg{T: "int", Z: strconv.FormatInt(int64(t.i), 10)}
	case "int8":
		if t.i8 == -77 {
			return nil
		}
		return &uArg{T: "int", Z: strconv.Itoa(int(t.i8))}
	case "uint8":
		if t.u8 == 77 {
			return nil
		}
		return &uArg{T: "int", Z: strconv.Itoa(int(t.u8))}
	case "int16":
		if t.i16 == -7777 {
			return nil
		}
		return &uArg{T: "int", Z: strconv.Itoa(int(t.i16))}
	case "int32":
		if t.i32 == -77777 {
			return nil
		}
		return &uArg{T: "int", Z: strconv.Itoa(int(t.i32))}
	case "int64":
		if t.i64 == -777777 {
			return nil
		}
		return &uArg{T: "int", Z: strconv.FormatInt(t.i64, 10)}
	case "uint":
		if t.u == 777777 {
			return nil
		}
		return &uArg{T: "int", Z: strconv.FormatUint(uint64(t.u), 10)}
	case "uint16":
		if t.u16 == 7777 {
			return nil
		}
		return &uArg{T: "int", Z: strconv.Itoa(int(t.u16))}
	case "uint32":
		if t.u32 == 77777 {
			return nil
		}
		return &uArg{T: "int", Z: strconv.FormatUint(uint64(t.u32), 10)}
	case "uint64":
		if t.u64 == 777777 {
			return nil
		}
		return &uArg{T: "int", Z: strconv.FormatUint(t.u64, 10)}
	case "uintptr":
		if t.up == 777777 {
			return nil
		}
		return &uArg{T: "int", Z: strconv.FormatUint(uint64(t.up), 10)}
	case "unpacker":
		if t.unp.v == starlark.Value(sentVal) {
			return nil
		}
		a := describeVal(t.unp.v)
		return &a
	case "tuplev":
		if len(t.tup) == 1 && t.tup[0] == starlark.Value(starlark.String("PREV")) {
			return nil
		}
		if t.tup == nil {
			return &uArg{T: "nil"}
		}
		a := describeVal(t.tup)
		return &a
	case "intv":
		if n, ok := t.iv.Int64(); ok && n == -777777 {
			return nil
		}
		return &uArg{T: "int", Z: t.iv.String()}
	case "float":
		if t.f == -7.5 {
			return nil
		}
		return &uArg{T: "float", ID: int(t.f - 0.5)}
	case "list":
		if t.l == sentList {
			return nil
		}
		a := describeVal(t.l)
		return &a
	case "dict":
		if t.d == sentDict {
			return nil
		}
		a := describeVal(t.d)
		return &a
	case "callable":
		if b, ok := t.c.(*starlark.Builtin); ok && b == sentFunc {
			return nil
		}
		a := describeVal(t.c)
		return &a
	case "iterable":
		if tu, ok := t.it.(starlark.Tuple); ok && len(tu) == 1 && tu[0] == starlark.Value(starlark.String("PREV")) {
			return nil
		}
		a := describeVal(t.it)
		return &a
	}
	panic(kind)
}

type uOutcome struct {
	Err     string  `json:"err"` // "" toomany toofew kwargs unexpected multiple missing badarg other:...
	I       int     `json:"i"`
	Targets []*uArg `json:"targets"`
}

type uKw struct {
	K string
	A uArg
}

// ------------------------------------------------ independent specification
func accepts(kind string, a uArg) bool {
	switch kind {
	case "value":
		return true
	case "string":
		return a.T == "string"
	case "bool":
		return a.T == "bool"
	case "int", "int8", "int16", "int32", "int64", "uint", "uint8", "uint16", "uint32", "uint64", "uintptr":
		// an integer variable takes exactly the ints it can represent
		if a.T != "int" {
			return false
		}
		z, _ := new(big.Int).SetString(a.Z, 10)
		bits, signed := intKind(kind)
		lo, hi := big.NewInt(0), new(big.Int).Sub(new(big.Int).Lsh(big.NewInt(1), uint(bits)), big.NewInt(1))
		if signed {
			lo = new(big.Int).Neg(new(big.Int).Lsh(big.NewInt(1), uint(bits-1)))
			hi = new(big.Int).Sub(new(big.Int).Lsh(big.NewInt(1), uint(bits-1)), big.NewInt(1))
		}
		return z.Cmp(lo) >= 0 && z.Cmp(hi) <= 0
	case "unpacker":
		return a.T == "string"
	case "tuplev":
		return a.T == "tuple"
	case "intv":
		return a.T == "int"
	case "float":
		return a.T == "float"
	case "list":
		return a.T == "list"
	case "dict":
		return a.T == "dict"
	case "callable":
		return a.T == "func"
	case "iterable":
		return a.T == "list" || a.T == "dict" || a.T == "tuple"
	}
	return false
}

// specUnpack: per parameter. Delivery order: positional arguments in order, then
// keyword arguments in call order; the first delivery that cannot be made stops
// the call and earlier deliveries stay.
func specUnpack(ps []uParam, args []uArg, kw []uKw) uOutcome {
	targets := make([]*uArg, len(ps))
	if len(args) > len(ps) {
		return uOutcome{Err: "toomany", Targets: targets}
	}
	given := make([]bool, len(ps))
	deliver := func(i int, a uArg) bool {
		p := ps[i]
		if p.Marker == "optnone" && a.T == "none" {
			return true
		}
		if !accepts(p.Kind, a) {
			return false
		}
		c := a
		targets[i] = &c
		return true
	}
	for i, a := range args {
		given[i] = true
		if !deliver(i, a) {
			return uOutcome{Err: "badarg", I: i, Targets: targets}
		}
	}
	for _, e := range kw {
		idx := -1
		for i, p := range ps {
			if p.Name == e.K {
				idx = i
				break
			}
		}
		if idx < 0 {
			return uOutcome{Err: "unexpected", Targets: targets}
		}
		if given[idx] {
			return uOutcome{Err: "multiple", Targets: targets}
		}
		given[idx] = true
		if !deliver(idx, e.A) {
			return uOutcome{Err: "badarg", I: idx, Targets: targets}
		}
	}
	for i, p := range ps {
		if p.Marker != "plain" {
			break
		}
		if !given[i] {
			return uOutcome{Err: "missing", I: i, Targets: targets}
		}
	}
	return uOutcome{Targets: targets}
}

func specPositional(min int, kinds []string, args []uArg, nkw int) uOutcome {
	targets := make([]*uArg, len(kinds))
	switch {
	case nkw > 0:
		return uOutcome{Err: "kwargs", Targets: targets}
	case len(args) < min:
		return uOutcome{Err: "toofew", Targets: targets}
	case len(args) > len(kinds):
		return uOutcome{Err: "toomany", Targets: targets}
	}
	for i, a := range args {
		if !accepts(kinds[i], a) {
			return uOutcome{Err: "badarg", I: i, Targets: targets}
		}
		c := a
		targets[i] = &c
	}
	return uOutcome{Targets: targets}
}

// ------------------------------------------------------------- the real thing
func classifyUnpack(err error, ps []uParam) (string, int) {
	m := err.Error()
	switch {
	case strings.Contains(m, "unexpected keyword arguments"):
		return "kwargs", 0
	case strings.Contains(m, "want at most"):
		return "toomany", 0
	case strings.Contains(m, "want at least"):
		return "toofew", 0
	case strings.Contains(m, "for parameter "):
		rest := m[strings.Index(m, "for parameter ")+len("for parameter "):]
		name := strings.Trim(rest[:strings.Index(rest, ":")], "\"")
		if n, err := strconv.Atoi(name); err == nil && ps == nil {
			return "badarg", n - 1
		}
		for i, p := range ps {
			if p.Name == name {
				return "badarg", i
			}
		}
		return "other:" + m, 0
	case strings.Contains(m, "got multiple values"):
		return "multiple", 0
	case strings.Contains(m, "unexpected keyword argument"):
		return "unexpected", 0
	case strings.Contains(m, "missing argument for "):
		name := m[strings.Index(m, "missing argument for ")+len("missing argument for "):]
		for i, p := range ps {
			if p.raw() == name {
				return "missing", i
			}
		}
		return "other:" + m, 0
	case strings.Contains(m, "arguments, want "):
		var got, want int
		i := strings.Index(m, "got ")
		fmt.Sscanf(m[i:], "got %d arguments, want %d", &got, &want)
		if got < want {
			return "toofew", 0
		}
		return "toomany", 0
	}
	return "other:" + m, 0
}

func sameU(a, b uOutcome) bool {
	if a.Err != b.Err || len(a.Targets) != len(b.Targets) {
		return false
	}
	if (a.Err == "badarg" || a.Err == "missing") && a.I != b.I {
		return false
	}
	for i := range a.Targets {
		x, y := a.Targets[i], b.Targets[i]
		if (x == nil) != (y == nil) {
			return false
		}
		if x != nil && (x.T != y.T || x.Z != y.Z || x.ID != y.ID) {
			return false
		}
	}
	return true
}

func runUnpack(thread *starlark.Thread, ps []uParam, args []uArg, kw []uKw) uOutcome {
	ts := make([]*tgt, len(ps))
	pairs := make([]any, 0, 2*len(ps))
	for i, p := range ps {
		ts[i] = newTgt()
		pairs = append(pairs, p.raw(), ts[i].ptr(p.Kind))
	}
	b := starlark.NewBuiltin("u", func(_ *starlark.Thread, b *starlark.Builtin, a starlark.Tuple, k []starlark.Tuple) (starlark.Value, error) {
		return starlark.None, starlark.UnpackArgs("u", a, k, pairs...)
	})
	at := make(starlark.Tuple, len(args))
	for i, a := range args {
		at[i] = mkArg(a)
	}
	var kt []starlark.Tuple
	for _, e := range kw {
		kt = append(kt, starlark.Tuple{starlark.String(e.K), mkArg(e.A)})
	}
	_, err := safeCall(thread, b, at, kt)
	out := uOutcome{Targets: make([]*uArg, len(ps))}
	if err != nil {
		out.Err, out.I = classifyUnpack(err, ps)
	}
	for i, p := range ps {
		out.Targets[i] = ts[i].read(p.Kind)
	}
	return out
}

func runPositional(thread *starlark.Thread, min int, kinds []string, args []uArg, nkw int) uOutcome {
	ts := make([]*tgt, len(kinds))
	vars := make([]any, len(kinds))
	for i, k := range kinds {
		ts[i] = newTgt()
		vars[i] = ts[i].ptr(k)
	}
	b := starlark.NewBuiltin("p", func(_ *starlark.Thread, b *starlark.Builtin, a starlark.Tuple, k []starlark.Tuple) (starlark.Value, error) {
		return starlark.None, starlark.UnpackPositionalArgs("p", a, k, min, vars...)
	})
	at := make(starlark.Tuple, len(args))
	for i, a := range args {
		at[i] = mkArg(a)
	}
	var kt []starlark.Tuple
	for i := 0; i < nkw; i++ {
		kt = append(kt, starlark.Tuple{starlark.String("k"), starlark.None})
	}
	_, err := safeCall(thread, b, at, kt)
	out := uOutcome{Targets: make([]*uArg, len(kinds))}
	if err != nil {
		out.Err, out.I = classifyUnpack(err, nil)
	}
	for i, k := range kinds {
		out.Targets[i] = ts[i].read(k)
	}
	return out
}

// ------------------------------------------------------------------- generator
var argPool = []uArg{
	{T: "none"}, {T: "bool"}, {T: "int", Z: "5"}, {T: "int", Z: "1000"}, {T: "int", Z: "-3"}, {T: "int", Z: "1180591620717411303424"}, // 1<<70
	{T: "float"}, {T: "string"}, {T: "list"}, {T: "dict"}, {T: "tuple"}, {T: "func"},
}

// intKind: width and signedness of an integer target kind (0 = not an integer kind); Go's int/uint/uintptr are 64 bits here
func intKind(kind string) (bits int, signed bool) {
	switch kind {
	case "int", "int64":
		return 64, true
	case "int8":
		return 8, true
	case "int16":
		return 16, true
	case "int32":
		return 32, true
	case "uint", "uint64", "uintptr":
		return 64, false
	case "uint8":
		return 8, false
	case "uint16":
		return 16, false
	case "uint32":
		return 32, false
	}
	return 0, false
}

// boundary values of an integer target: min-1, min, -1, 0, max, max+1, 2^bits, -2^bits, and big ints of both signs
func intBoundaries(bits int, signed bool) []string {
	one := big.NewInt(1)
	pow := func(k int) *big.Int { return new(big.Int).Lsh(one, uint(k)) }
	var vs []*big.Int
	if signed {
		min := new(big.Int).Neg(pow(bits - 1))
		max := new(big.Int).Sub(pow(bits-1), one)
		vs = []*big.Int{new(big.Int).Sub(min, one), min, new(big.Int).Add(min, one), big.NewInt(-1), big.NewInt(0), new(big.Int).Sub(max, one), max, new(big.Int).Add(max, one)}
	} else {
		max := new(big.Int).Sub(pow(bits), one)
		vs = []*big.Int{big.NewInt(-1), big.NewInt(0), big.NewInt(1), pow(bits - 1), new(big.Int).Sub(max, one), max, new(big.Int).Add(max, one)}
	}
	vs = append(vs, pow(bits), new(big.Int).Neg(pow(bits)), new(big.Int).Add(pow(bits), one), pow(70), new(big.Int).Neg(pow(70)))
	out := make([]string, len(vs))
	for i, v := range vs {
		out[i] = v.String()
	}
	return out
}

func inPool(pool []string, k string) bool {
	for _, x := range pool {
		if x == k {
			return true
		}
	}
	return false
}

func pickArg(r *hx.Rand, kind string, id int) uArg {
	// an integer target: half of the time one of its boundary values
	if bits, signed := intKind(kind); bits > 0 && r.Intn(2) == 0 {
		bs := intBoundaries(bits, signed)
		return uArg{T: "int", Z: bs[r.Intn(len(bs))]}
	}
	// half of the time an argument its parameter accepts, otherwise any type
	var a uArg
	if kind != "" && r.Intn(2) == 0 {
		for tries := 0; tries < 20; tries++ {
			a = argPool[r.Intn(len(argPool))]
			if accepts(kind, a) {
				break
			}
		}
	} else {
		a = argPool[r.Intn(len(argPool))]
	}
	switch a.T {
	case "float", "string", "list", "dict", "tuple":
		a.ID = id
	case "int":
		if a.Z == "5" {
			a.Z = strconv.Itoa(1 + id) // distinct small ints
		} else if a.Z == "1000" {
			a.Z = strconv.Itoa(1000 + id)
		}
	}
	return a
}

type uCase struct {
	Kind  string      `json:"kind"` // ucase pcase
	Ps    [][3]string `json:"ps,omitempty"`
	Min   int         `json:"min"`
	Kinds []string    `json:"kinds,omitempty"`
	Args  []uArg      `json:"args"`
	Kw    [][2]any    `json:"kw"`
	NKw   int         `json:"nkw"`
	Obs   uOutcome    `json:"obs"`
	Spec  uOutcome    `json:"gospec"`
	Bad   bool        `json:"mismatch"`
	Coq   bool        `json:"coq"`
}

func unpackMain(argv []string) {
	fs := flag.NewFlagSet("unpack", flag.ExitOnError)
	seed := fs.Uint64("seed", 1, "seed")
	frac := fs.Float64("frac", 1.0, "fraction of parameter lists executed")
	ncoq := fs.Int("coq", 2000, "cases printed for Coq")
	full := fs.Bool("full", false, "all 10 target kinds at every position (default: at the first position, 6 at the others)")
	fs.Parse(argv)
	r := hx.NewRand(*seed)
	kinds := []string{"value", "int", "string", "bool", "list", "int8"}
	markers := []string{"plain", "opt", "optnone"}
	names := []string{"x", "y", "z"}
	// all parameter lists
	var lists [][]uParam
	var rec func(cur []uParam)
	// every case of the type switch in unpackArgNoEscape / AsInt, the Unpacker path and the reflection path
	allKinds := []string{"value", "string", "bool", "int", "int8", "int16", "int32", "int64", "uint", "uint8", "uint16", "uint32", "uint64", "uintptr",
		"float", "list", "dict", "callable", "iterable", "unpacker", "tuplev", "intv"}
	// all kinds in every position: every list of <= 2 parameters over all kinds, and 3-parameter lists whose
	// third parameter ranges over all kinds (the first two over the small pool); -full: all kinds everywhere
	rec = func(cur []uParam) {
		lists = append(lists, append([]uParam{}, cur...))
		if len(cur) == 3 {
			return
		}
		for _, m := range markers {
			for _, k := range allKinds {
				if !*full && len(cur) == 2 && !(inPool(kinds, cur[0].Kind) && inPool(kinds, cur[1].Kind)) {
					continue
				}
				rec(append(cur, uParam{names[len(cur)], m, k}))
			}
		}
	}
	rec(nil)
	total, mism := 0, 0
	dist := map[string]int{}
	var printed []*uCase
	thr := uint64(*frac * float64(1<<32))
	// expected number of cases, to size the Coq sample
	perList := 5 * 16 * 5 * 2
	expect := float64(len(lists)) * *frac * float64(perList) / 2
	pcoq := float64(*ncoq) / (expect + 1)
	results := make([]*listRes, len(lists))
	var wg sync.WaitGroup
	jobs := make(chan int)
	nw := runtime.GOMAXPROCS(0)
	if nw > 8 {
		nw = 8
	}
	for w := 0; w < nw; w++ {
		wg.Add(1)
		go func() {
			defer wg.Done()
			thread := &starlark.Thread{Name: "c08u"}
			for li := range jobs {
				results[li] = runList(thread, lists[li], hx.NewRand(mix(*seed, uint64(li), 77)), pcoq)
			}
		}()
	}
	for li := range lists {
		if *frac < 1 && mix(*seed, uint64(li))&0xffffffff >= thr {
			continue
		}
		jobs <- li
	}
	close(jobs)
	wg.Wait()
	mismKeys := map[string]int{}
	for _, lr := range results {
		if lr == nil {
			continue
		}
		total += lr.total
		mism += lr.mism
		for k, v := range lr.dist {
			dist[k] += v
		}
		for _, c := range lr.printed {
			if c.Bad {
				key := c.Obs.Err + "/" + c.Spec.Err
				mismKeys[key]++
				if mismKeys[key] > 3 {
					continue
				}
			}
			printed = append(printed, c)
		}
	}
	thread := &starlark.Thread{Name: "c08u"}
	// wide parameter lists: UnpackArgs keeps the set of supplied parameters in a 64-bit word for fewer than 64
	// parameters and in a map otherwise; parameter counts around that threshold, with few or many arguments,
	// named arguments at low and high indices, and duplicates of them
	for _, n := range []int{62, 63, 64, 65, 66, 70, 130} {
		ps := make([]uParam, n)
		for i := range ps {
			m := "opt"
			if i < 2 {
				m = "plain"
			} else if i%7 == 3 {
				m = "optnone"
			}
			ps[i] = uParam{fmt.Sprintf("p%d", i), m, "value"}
		}
		idxs := []int{1, 2, 31, 32, 61, 62, 63, 64, 65, 69, 129}
		id := 1
		val := func() uArg { id++; return uArg{T: "string", ID: id} }
		for _, npos := range []int{0, 2, 5, n} {
			for _, a := range idxs {
				if a >= n {
					continue
				}
				for _, b := range append([]int{-1, -2, -3}, idxs...) { // -1: no second keyword; -2: an undeclared one; -3: all other parameters by name first
					if b >= n {
						continue
					}
					var args []uArg
					for i := 0; i < npos; i++ {
						args = append(args, val())
					}
					var kw []uKw
					if npos < 2 {
						kw = append(kw, uKw{"p0", val()}, uKw{"p1", val()})
					}
					if b == -3 && npos < n {
						for i := npos; i < n; i++ {
							if i != a && i > 1 {
								kw = append(kw, uKw{ps[i].Name, val()})
							}
						}
					}
					kw = append(kw, uKw{ps[a].Name, val()})
					switch {
					case b == -2:
						kw = append(kw, uKw{"w", val()})
					case b == -3:
						kw = append(kw, uKw{ps[a].Name, val()})
					case b >= 0:
						kw = append(kw, uKw{ps[b].Name, val()})
					}
					obs := runUnpack(thread, ps, args, kw)
					spec := specUnpack(ps, args, kw)
					total++
					cls := obs.Err
					if cls == "" {
						cls = "ok"
					} else if strings.HasPrefix(cls, "other:") {
						cls = "other"
					}
					dist["UnpackArgs(wide):"+cls]++
					bad := !sameU(obs, spec)
					if bad {
						mism++
						key := fmt.Sprintf("wide/%s/%s", obs.Err, spec.Err)
						mismKeys[key]++
						if mismKeys[key] > 3 {
							continue
						}
					}
					if bad || (n == 65 && npos == 2 && (a == 64 || a == 2) && (b == a || b == -1)) {
						c := &uCase{Kind: "ucase", Args: args, Obs: obs, Spec: spec, Bad: bad, Coq: true, Kw: [][2]any{}}
						if c.Args == nil {
							c.Args = []uArg{}
						}
						for _, p := range ps {
							c.Ps = append(c.Ps, [3]string{p.Name, p.Marker, p.Kind})
						}
						for _, e := range kw {
							c.Kw = append(c.Kw, [2]any{e.K, e.A})
						}
						printed = append(printed, c)
					}
				}
			}
		}
	}
	// UnpackPositionalArgs: kinds lists of length 0..3, min 0..len, 0..4 arguments, with/without kwargs
	var klists [][]string
	var krec func(cur []string)
	krec = func(cur []string) {
		klists = append(klists, append([]string{}, cur...))
		if len(cur) == 3 {
			return
		}
		for _, k := range allKinds {
			if len(cur) == 2 && !(cur[0] == "value" && cur[1] == "value") && !inPool(kinds, k) {
				continue
			}
			krec(append(cur, k))
		}
	}
	krec(nil)
	for ki, ks := range klists {
		// the sampled tier runs a seeded tenth of the variable lists (all of the lists of <= 1 variable)
		if *frac < 1 && len(ks) > 1 && mix(*seed, uint64(ki), 99)%10 != 0 {
			continue
		}
		for min := 0; min <= len(ks); min++ {
			for npos := 0; npos <= 4; npos++ {
				for nkw := 0; nkw <= 1; nkw++ {
					for rep := 0; rep < 2; rep++ {
						var args []uArg
						for i := 0; i < npos; i++ {
							k := ""
							if i < len(ks) {
								k = ks[i]
							}
							args = append(args, pickArg(r, k, i+1))
						}
						obs := runPositional(thread, min, ks, args, nkw)
						spec := specPositional(min, ks, args, nkw)
						total++
						cls := obs.Err
						if cls == "" {
							cls = "ok"
						} else if strings.HasPrefix(cls, "other:") {
							cls = "other"
						}
						dist["UnpackPositionalArgs:"+cls]++
						bad := !sameU(obs, spec)
						if bad {
							mism++
						}
						if bad || float64(r.Uint64()>>11)/float64(1<<53) < 0.3*float64(*ncoq)/25000 {
							c := &uCase{Kind: "pcase", Min: min, Kinds: ks, Args: args, NKw: nkw, Obs: obs, Spec: spec, Bad: bad, Coq: true, Kw: [][2]any{}}
							if c.Args == nil {
								c.Args = []uArg{}
							}
							if c.Kinds == nil {
								c.Kinds = []string{}
							}
							printed = append(printed, c)
						}
					}
				}
			}
		}
	}
	for _, c := range printed {
		hx.Emit(c)
	}
	hx.Emit(map[string]any{"kind": "usummary", "lists": len(lists), "cases": total, "mismatches": mism, "dist": dist, "frac": *frac, "kinds": kinds})
	hx.Flush()
}

type listRes struct {
	total, mism int
	dist        map[string]int
	printed     []*uCase
}

func runList(thread *starlark.Thread, ps []uParam, r *hx.Rand, pcoq float64) *listRes {
	res := &listRes{dist: map[string]int{}}
	total, mism := 0, 0
	dist := res.dist
	var printed []*uCase
	mismKeys := map[string]int{}
	uni := []string{}
	for _, p := range ps {
		uni = append(uni, p.Name)
	}
	uni = append(uni, "w")
	for npos := 0; npos <= 4; npos++ {
		for mask := 0; mask < 1<<len(uni); mask++ {
			// duplicates: none, a declared name again, the undeclared name again
			dups := []string{""}
			if len(ps) > 0 {
				dups = append(dups, ps[0].Name, ps[len(ps)-1].Name)
			}
			dups = append(dups, "w")
			for _, dup := range dups {
				for rep := 0; rep < 2; rep++ {
					id := 1
					var args []uArg
					for i := 0; i < npos; i++ {
						k := ""
						if i < len(ps) {
							k = ps[i].Kind
						}
						args = append(args, pickArg(r, k, id))
						id++
					}
					var kw []uKw
					kindOf := func(n string) string {
						for _, p := range ps {
							if p.Name == n {
								return p.Kind
							}
						}
						return ""
					}
					for i, n := range uni {
						if mask&(1<<i) != 0 {
							kw = append(kw, uKw{n, pickArg(r, kindOf(n), id)})
							id++
						}
					}
					if rep == 1 && len(kw) > 1 { // other order
						kw[0], kw[len(kw)-1] = kw[len(kw)-1], kw[0]
					}
					if dup != "" {
						kw = append(kw, uKw{dup, pickArg(r, kindOf(dup), id)})
						id++
					}
					obs := runUnpack(thread, ps, args, kw)
					spec := specUnpack(ps, args, kw)
					total++
					cls := obs.Err
					if cls == "" {
						cls = "ok"
					} else if strings.HasPrefix(cls, "other:") {
						cls = "other"
					}
					dist["UnpackArgs:"+cls]++
					bad := !sameU(obs, spec)
					w := 1.0
					if cls == "ok" || cls == "badarg" || cls == "missing" {
						w = 4
					}
					coq := float64(r.Uint64()>>11)/float64(1<<53) < pcoq*w
					if bad {
						mism++
						key := obs.Err + "/" + spec.Err
						mismKeys[key]++
						if mismKeys[key] > 3 {
							continue
						}
					}
					if bad || coq {
						c := &uCase{Kind: "ucase", Args: args, Obs: obs, Spec: spec, Bad: bad, Coq: true, Kw: [][2]any{}}
						if c.Args == nil {
							c.Args = []uArg{}
						}
						for _, p := range ps {
							c.Ps = append(c.Ps, [3]string{p.Name, p.Marker, p.Kind})
						}
						for _, e := range kw {
							c.Kw = append(c.Kw, [2]any{e.K, e.A})
						}
						printed = append(printed, c)
					}
				}
			}
		}
	}
	res.total, res.mism, res.printed = total, mism, printed
	return res
}
