package main

func unpackMain(args []string) {}
