package main

// Mode "writers": Program.Write under every way of being called.  A program is
// immutable, so several programs may be saved at the same time, to writers
// that do not consume their input at once, and a writer may itself save
// another program.  Whatever the interleaving, every stream written must be
// exactly the program's encoding (the bytes a lone Write to a bytes.Buffer
// produces), which decodes back to the program.
//
//   reentrant   the writer's Write method saves ANOTHER program before it
//               copies the bytes it was given
//   concurrent  several goroutines save different programs at the same time
//               to writers that copy their input in small pieces, yielding
//   pipe        the program is written into an io.Pipe whose reader first
//               saves another program and only then reads
//   sequential  the same programs to a file, a bufio.Writer and a chunking
//               writer, one after the other
//
// Each scenario is preceded by the save of a large program (buffers that an
// implementation may recycle then have spare capacity).

import (
	"bufio"
	"bytes"
	"fmt"
	"io"
	"os"
	"runtime"
	"sync"
	"time"

	"go.starlark.net/starlark"

	"verifharness/internal/hx"
)

type writersCase struct {
	Kind      string         `json:"kind"` // "writers"
	ID        int            `json:"id"`
	NProgs    int            `json:"nprogs"`
	Sizes     []int          `json:"sizes"`
	Scenarios map[string]int `json:"scenarios"` // streams compared per scenario
	Diffs     []diff         `json:"diffs"`
	Srcs      []string       `json:"srcs,omitempty"`
}

type reentrantWriter struct {
	other *starlark.Program
	side  bytes.Buffer
	buf   bytes.Buffer
}

func (w *reentrantWriter) Write(p []byte) (int, error) {
	w.side.Reset()
	if err := w.other.Write(&w.side); err != nil {
		return 0, err
	}
	return w.buf.Write(p)
}

type slowWriter struct {
	buf   bytes.Buffer
	chunk  int
	pieces int // at most this many pieces
	nap    time.Duration
}

func (w *slowWriter) Write(p []byte) (int, error) {
	n := 0
	if min := len(p)/w.pieces + 1; w.chunk < min {
		w.chunk = min
	}
	for len(p) > 0 {
		k := w.chunk
		if k > len(p) {
			k = len(p)
		}
		runtime.Gosched()
		if w.nap > 0 {
			time.Sleep(w.nap)
		}
		w.buf.Write(p[:k])
		p = p[k:]
		n += k
	}
	return n, nil
}

func firstDiffAt(a, b []byte) int {
	i := 0
	for i < len(a) && i < len(b) && a[i] == b[i] {
		i++
	}
	return i
}

func modeWriters(seed uint64, n int) {
	r := hx.NewRand(seed ^ 0x77726974)
	for id := 0; id < n; id++ {
		pr := r.Split()
		c := writersCase{Kind: "writers", ID: id, Scenarios: map[string]int{}}
		add := func(key, what string) { c.Diffs = append(c.Diffs, diff{key, what}) }
		// programs: the first one large, the others of mixed sizes
		var progs []*starlark.Program
		var srcs []string
		want := 3 + pr.Intn(4)
		for tries := 0; len(progs) < want && tries < 40; tries++ {
			src, opts, _ := genProgram(pr.Split(), true)
			if len(progs) == 0 {
				// make the first one clearly the largest
				src += fmt.Sprintf("\nBIG_PAD = %q\n", string(bytes.Repeat([]byte("pad-"), 4000+pr.Intn(4000))))
			}
			_, p, err := starlark.SourceProgramOptions(&opts, fmt.Sprintf("w%d.star", len(progs)), src, isPredeclared)
			if err != nil {
				continue
			}
			progs = append(progs, p)
			srcs = append(srcs, src)
		}
		if len(progs) < 3 {
			add("generator:writers", "could not generate three valid programs")
			hx.Emit(c)
			continue
		}
		c.NProgs = len(progs)
		// reference encodings: a lone Write to a bytes.Buffer each, twice (must be stable)
		ref := make([][]byte, len(progs))
		for j, p := range progs {
			b, err := writeProg(p)
			if err != nil {
				add("write:error", err.Error())
			}
			ref[j] = append([]byte(nil), b...)
			c.Sizes = append(c.Sizes, len(b))
		}
		for j, p := range progs {
			b, _ := writeProg(p)
			if !bytes.Equal(b, ref[j]) {
				add("write:unstable", fmt.Sprintf("two consecutive Writes of program %d differ at offset %d", j, firstDiffAt(b, ref[j])))
			}
		}
		check := func(key string, j int, got []byte) {
			c.Scenarios[key]++
			if !bytes.Equal(got, ref[j]) {
				add("write:"+key, fmt.Sprintf("scenario %s: the %d bytes written for program %d differ from its encoding (%d bytes) at offset %d", key, len(got), j, len(ref[j]), firstDiffAt(got, ref[j])))
				return
			}
			if _, err := starlark.CompiledProgram(bytes.NewReader(got)); err != nil {
				add("write:"+key+":decode", "the written stream does not decode: "+err.Error())
			}
		}
		prime := func() { writeProg(progs[0]) }

		// reentrant
		for j := 1; j < len(progs); j++ {
			prime()
			o := 1 + (j % (len(progs) - 1))
			if o == j {
				o = 0
			}
			w := &reentrantWriter{other: progs[o]}
			if err := progs[j].Write(w); err != nil {
				add("write:error", err.Error())
			}
			check("reentrant", j, w.buf.Bytes())
			check("reentrant-inner", o, w.side.Bytes())
		}

		// concurrent, slow writers
		for round := 0; round < 3; round++ {
			prime()
			ws := make([]*slowWriter, len(progs))
			start := make(chan struct{})
			var wg sync.WaitGroup
			for j := range progs {
				ws[j] = &slowWriter{chunk: 16 + pr.Intn(200), pieces: 6 + pr.Intn(20)}
				if round == 2 {
					ws[j].nap = time.Duration(pr.Intn(30)) * time.Microsecond
				}
				wg.Add(1)
				go func(j int) {
					defer wg.Done()
					<-start
					for rep := 0; rep < 3; rep++ {
						ws[j].buf.Reset()
						progs[j].Write(ws[j])
						if !bytes.Equal(ws[j].buf.Bytes(), ref[j]) {
							return
						}
					}
				}(j)
			}
			close(start)
			wg.Wait()
			for j := range progs {
				check("concurrent", j, ws[j].buf.Bytes())
			}
		}

		// pipe: the reader saves another program before it reads
		for j := 1; j < len(progs); j++ {
			prime()
			rd, wr := io.Pipe()
			go func(j int) {
				progs[j].Write(wr)
				wr.Close()
			}(j)
			time.Sleep(200 * time.Microsecond) // let the writer reach the pipe
			runtime.Gosched()
			other := (j + 1) % len(progs)
			ob, _ := writeProg(progs[other])
			ob = append([]byte(nil), ob...)
			got, _ := io.ReadAll(rd)
			check("pipe", j, got)
			check("pipe-other", other, ob)
		}

		// sequential, other writer types
		for j := range progs {
			f, err := os.CreateTemp("", "c17w-*.bin")
			if err == nil {
				progs[j].Write(f)
				f.Close()
				got, _ := os.ReadFile(f.Name())
				os.Remove(f.Name())
				check("file", j, got)
			}
			var bb bytes.Buffer
			bw := bufio.NewWriterSize(&bb, 16+pr.Intn(5000))
			progs[j].Write(bw)
			bw.Flush()
			check("bufio", j, bb.Bytes())
		}
		if len(c.Diffs) > 0 {
			c.Srcs = srcs
		}
		hx.Emit(c)
	}
}
