package main

// Generator of statically valid Starlark programs that exercise every field of
// a compiled program: constants of every kind, nested functions with cells and
// free variables, all parameter shapes, loads, docstrings, lambdas,
// comprehensions, saturated position deltas (very long lines / huge line
// gaps), programs that fail at run time below several frames, recursion.

import (
	"fmt"
	"strings"

	"go.starlark.net/syntax"

	"verifharness/internal/hx"
)

type sig struct {
	name                 string
	npos, ndef           int // positional without / with default
	varargs              bool
	kwonly, kwonlyDef    []string
	kwargs               bool
	needsCallable, fails bool
}

type gen struct {
	r     *hx.Rand
	sb    strings.Builder
	feat  map[string]bool
	n     int
	funcs []sig
	vars  []string
	opts  syntax.FileOptions
	small bool
}

func (g *gen) f(s string) { g.feat[s] = true }

func (g *gen) id(prefix string) string {
	g.n++
	return fmt.Sprintf("%s%d", prefix, g.n)
}

func (g *gen) w(format string, a ...any) { fmt.Fprintf(&g.sb, format, a...) }

var strConsts = []string{
	`""`, `"a"`, `"hello, world"`, `"h\u00e9llo \u4e16\u754c"`, "\"\xff\xfe raw invalid utf8 \x80\"", `"\x00nul\x00"`,
	`"tab\tnl\nquote\"back\\"`, `'single'`, `"""triple
quoted"""`, `"\U0001F600"`, `"%s-%d"`, `"{}:{}"`,
}
var bytesConsts = []string{`b""`, `b"abc"`, `b"\x00\xff\x80\x7f"`, `b"h\xc3\xa9"`, `b"\n\t\\"`}
var intConsts = []string{
	"0", "1", "7", "255", "256", "65535", "65536", "2147483647", "2147483648", "4294967296",
	"9223372036854775807", "9223372036854775808", "18446744073709551615", "18446744073709551616",
	"0x7fffffffffffffff", "0xffffffffffffffffffffffff", "123456789012345678901234567890123456789012345678901234567890",
	"0o777", "0b1011", "1000000007",
}
var floatConsts = []string{
	"0.0", "1.5", "3.141592653589793", "1e308", "1.7976931348623157e308", "5e-324", "2.2250738585072014e-308",
	"1e-7", "123456789.125", "0.1", "1e22", ".5", "6.02e23",
}

func (g *gen) constant() string {
	switch g.r.Intn(7) {
	case 0:
		g.f("const:string")
		return hx.Pick(g.r, strConsts)
	case 1:
		g.f("const:bytes")
		return hx.Pick(g.r, bytesConsts)
	case 2:
		c := hx.Pick(g.r, intConsts)
		if len(c) > 19 || strings.HasPrefix(c, "0xffffffffff") || c == "9223372036854775808" {
			g.f("const:bigint")
		} else {
			g.f("const:int")
		}
		return c
	case 3:
		g.f("const:float")
		return hx.Pick(g.r, floatConsts)
	case 4:
		g.f("const:int")
		return fmt.Sprint(g.r.Intn(100000))
	case 5:
		g.f("const:string")
		return fmt.Sprintf("%q", randWord(g.r, 1+g.r.Intn(12)))
	default:
		g.f("const:bigint")
		// a random big integer
		s := fmt.Sprint(1 + g.r.Intn(9))
		for i := 0; i < 20+g.r.Intn(40); i++ {
			s += fmt.Sprint(g.r.Intn(10))
		}
		return s
	}
}

func randWord(r *hx.Rand, n int) string {
	b := make([]byte, n)
	for i := range b {
		b[i] = "abcdefghijklmnopqrstuvwxyz_ ABC019"[r.Intn(34)]
	}
	return string(b)
}

// a side-effect free expression over the given variable names (all ints)
func (g *gen) intExpr(vars []string, depth int) string {
	if depth <= 0 || g.r.Intn(3) == 0 {
		if len(vars) > 0 && g.r.Intn(3) != 0 {
			return hx.Pick(g.r, vars)
		}
		return fmt.Sprint(g.r.Intn(50))
	}
	a, b := g.intExpr(vars, depth-1), g.intExpr(vars, depth-1)
	switch g.r.Intn(8) {
	case 0:
		return "(" + a + " + " + b + ")"
	case 1:
		return "(" + a + " - " + b + ")"
	case 2:
		return "(" + a + " * " + b + ")"
	case 3:
		return "(" + a + " if " + a + " < " + b + " else " + b + ")"
	case 4:
		return "len([" + a + ", " + b + "])"
	case 5:
		return "max(" + a + ", " + b + ")"
	case 6:
		return "(" + a + " & " + b + ")"
	default:
		return "(" + a + " % (1 + abs(" + b + ")))"
	}
}

// pad returns whitespace that produces a saturated column delta.
func (g *gen) pad() string {
	if g.small || g.r.Intn(4) != 0 {
		return " "
	}
	g.f("pos:long-line")
	return strings.Repeat(" ", 40+g.r.Intn(3000))
}

// gap emits blank lines: a saturated line delta.
func (g *gen) gap() {
	if g.small {
		return
	}
	switch g.r.Intn(8) {
	case 0:
		g.f("pos:line-gap")
		g.sb.WriteString(strings.Repeat("\n", 20+g.r.Intn(200)))
	case 1:
		g.f("pos:huge-line-gap")
		g.sb.WriteString(strings.Repeat("\n", 1000+g.r.Intn(70000)))
	case 2:
		g.sb.WriteString("# a comment\n\n")
	}
}

func (g *gen) params(s *sig) (decl string, names []string) {
	var ps []string
	for i := 0; i < s.npos; i++ {
		n := fmt.Sprintf("p%d", i)
		ps = append(ps, n)
		names = append(names, n)
	}
	for i := 0; i < s.ndef; i++ {
		n := fmt.Sprintf("d%d", i)
		var dv string
		switch g.r.Intn(4) {
		case 0:
			dv = g.constant()
		case 1:
			dv = "None"
		case 2:
			dv = "[" + fmt.Sprint(g.r.Intn(9)) + "]"
		default:
			dv = fmt.Sprint(g.r.Intn(100))
		}
		ps = append(ps, n+"="+g.pad()+dv)
		names = append(names, n)
		g.f("param:default")
	}
	if s.varargs {
		ps = append(ps, "*args")
		g.f("param:varargs")
	} else if len(s.kwonly)+len(s.kwonlyDef) > 0 {
		ps = append(ps, "*")
	}
	for _, n := range s.kwonly {
		ps = append(ps, n)
		names = append(names, n)
		g.f("param:kwonly")
	}
	for _, n := range s.kwonlyDef {
		ps = append(ps, n+"="+fmt.Sprint(g.r.Intn(100)))
		names = append(names, n)
		g.f("param:kwonly-default")
	}
	if s.kwargs {
		ps = append(ps, "**kwargs")
		g.f("param:kwargs")
	}
	return strings.Join(ps, ", "), names
}

func (g *gen) randSig(name string) sig {
	s := sig{name: name, npos: g.r.Intn(3), ndef: g.r.Intn(3)}
	s.varargs = g.r.Intn(3) == 0
	for i := 0; i < g.r.Intn(3); i++ {
		s.kwonly = append(s.kwonly, fmt.Sprintf("k%d", i))
	}
	for i := 0; i < g.r.Intn(2); i++ {
		s.kwonlyDef = append(s.kwonlyDef, fmt.Sprintf("kd%d", i))
	}
	s.kwargs = g.r.Intn(3) == 0
	return s
}

// call renders a valid call of s (unless bad, which makes a run-time error likely).
func (g *gen) call(s sig, bad bool) string {
	var as []string
	for i := 0; i < s.npos; i++ {
		as = append(as, fmt.Sprint(g.r.Intn(20)))
	}
	nd := 0
	if s.ndef > 0 {
		nd = g.r.Intn(s.ndef + 1)
	}
	for i := 0; i < nd; i++ {
		as = append(as, fmt.Sprint(g.r.Intn(20)))
	}
	if s.varargs && nd == s.ndef && g.r.Bool() {
		as = append(as, "100", "200")
	}
	for _, n := range s.kwonly {
		if bad && g.r.Bool() {
			continue
		}
		as = append(as, n+"="+g.pad()+fmt.Sprint(g.r.Intn(20)))
	}
	for _, n := range s.kwonlyDef {
		if g.r.Bool() {
			as = append(as, n+"="+fmt.Sprint(g.r.Intn(20)))
		}
	}
	if s.kwargs && g.r.Bool() {
		as = append(as, "zz=1", "yy=\"v\"")
	}
	if bad && g.r.Bool() {
		as = append(as, "nosuch=1")
	}
	return s.name + "(" + strings.Join(as, ", ") + ")"
}

func (g *gen) docstring(indent string) {
	switch g.r.Intn(4) {
	case 0:
		g.w("%s\"doc of this\"\n", indent)
		g.f("doc:short")
	case 1:
		g.w("%s\"\"\"A longer docstring.\n\n%sArgs:\n%s  x: \xff raw-invalid \\u00e9 \\x7f \\001\n%s\"\"\"\n", indent, indent, indent, indent)
		g.f("doc:long")
	}
}

// items ---------------------------------------------------------------

func (g *gen) itemConst() {
	v := g.id("c")
	g.w("%s =%s%s\n", v, g.pad(), g.constant())
	g.vars = append(g.vars, v)
	if g.r.Intn(3) == 0 {
		g.w("print(%s, type(%s))\n", v, v)
	}
}

func (g *gen) itemCollection() {
	v := g.id("coll")
	switch g.r.Intn(4) {
	case 0:
		g.w("%s = [%s, %s,%s%s]\n", v, g.constant(), g.constant(), g.pad(), g.constant())
	case 1:
		g.w("%s = {%s: %s, \"k\":%s%s}\n", v, hx.Pick(g.r, strConsts[1:8]), g.constant(), g.pad(), g.constant())
	case 2:
		g.w("%s = (%s, %s)\n", v, g.constant(), g.constant())
	default:
		g.w("%s = [%s,\n\n\n   %s,\n %s]\n", v, g.constant(), g.constant(), g.constant())
	}
	g.vars = append(g.vars, v)
	g.f("collection")
}

func (g *gen) itemDef() {
	s := g.randSig(g.id("f"))
	decl, names := g.params(&s)
	g.w("def %s(%s):\n", s.name, decl)
	g.docstring("    ")
	loc := g.id("t")
	g.w("    %s = %s\n", loc, g.intExpr(nil, 2))
	ret := []string{loc}
	for _, n := range names {
		if strings.HasPrefix(n, "p") || strings.HasPrefix(n, "k") {
			ret = append(ret, n)
		}
	}
	g.w("    r = [%s]\n", strings.Join(append(ret, names...), ", "))
	if s.varargs {
		g.w("    r.append(args)\n")
	}
	if s.kwargs {
		g.w("    r.append(sorted(kwargs.items()))\n")
	}
	if g.r.Intn(3) == 0 {
		g.w("    for i in range(%d):\n        r.append(i *%s%s)\n", g.r.Intn(4), g.pad(), loc)
		g.f("stmt:for")
	}
	if g.r.Intn(4) == 0 {
		g.w("    if len(r) > %d:\n        return tuple(r)\n    elif %s:\n        pass\n", g.r.Intn(6), loc)
		g.f("stmt:if")
	}
	g.w("    return r\n")
	g.funcs = append(g.funcs, s)
	g.f("def")
	if g.r.Intn(2) == 0 {
		v := g.id("res")
		g.w("%s = %s\n", v, g.call(s, false))
		g.vars = append(g.vars, v)
	}
	if g.r.Intn(3) == 0 {
		g.w("print(%s)\n", g.call(s, false))
	}
}

func (g *gen) itemClosure() {
	name := g.id("outer")
	depth := 1 + g.r.Intn(3)
	g.w("def %s(a, b=%d):\n", name, g.r.Intn(10))
	g.docstring("    ")
	g.w("    x = a * 2\n    acc = []\n")
	indent := "    "
	vars := []string{"a", "b", "x"}
	for i := 0; i < depth; i++ {
		g.w("%sdef inner%d(y%d, *rest, scale=%d):\n", indent, i, i, 1+g.r.Intn(5))
		indent += "    "
		if g.r.Intn(2) == 0 {
			g.w("%s\"inner doc %d\"\n", indent, i)
		}
		vars = append(vars, fmt.Sprintf("y%d", i))
		g.w("%sz%d = %s\n", indent, i, g.intExpr(vars, 2))
		vars = append(vars, fmt.Sprintf("z%d", i))
		g.w("%sacc.append(z%d * scale)\n", indent, i)
	}
	g.w("%sreturn (%s, len(acc))\n", indent, strings.Join(vars, " + "))
	for i := depth - 1; i >= 0; i-- {
		indent = indent[:len(indent)-4]
		if i == depth-1 {
			g.w("%sreturn inner%d\n", indent, i)
		} else {
			g.w("%sreturn inner%d\n", indent, i)
		}
	}
	g.f("closure")
	if depth > 1 {
		g.f("closure:deep")
	}
	v := g.id("clo")
	g.w("%s = %s(%d)\n", v, name, g.r.Intn(9))
	g.vars = append(g.vars, v)
	call := v
	for i := 0; i < depth; i++ {
		call += fmt.Sprintf("(%d)", i+1)
	}
	w := g.id("clores")
	g.w("%s = %s\n", w, call)
	g.vars = append(g.vars, w)
	g.w("print(%s)\n", w)
}

func (g *gen) itemLambda() {
	v := g.id("lam")
	switch g.r.Intn(4) {
	case 0:
		g.w("%s = lambda x, y=%s, *a, **k: (x, y, a, sorted(k))\n", v, g.constant())
		g.w("print(%s(1), %s(1, 2, 3, q=4))\n", v, v)
	case 1:
		g.w("%s = lambda: %s\n", v, g.constant())
	case 2:
		w := g.id("base")
		g.w("%s = %d\n", w, g.r.Intn(100))
		g.w("%s = [lambda q, n=n:%sq + n + %s for n in range(3)]\n", v, g.pad(), w)
		g.w("print([fn(10) for fn in %s])\n", v)
	default:
		g.w("%s = lambda *, key, other=3: key * other\n", v)
		g.w("print(%s(key=%d))\n", v, g.r.Intn(9))
	}
	g.vars = append(g.vars, v)
	g.f("lambda")
}

func (g *gen) itemComprehension() {
	v := g.id("comp")
	switch g.r.Intn(4) {
	case 0:
		g.w("%s = [x * x for x in range(%d) if x %% 2 == %d]\n", v, 3+g.r.Intn(8), g.r.Intn(2))
	case 1:
		g.w("%s = {str(k): [k, v] for k, v in [(1, %s), (2, %s)]}\n", v, g.constant(), g.constant())
	case 2:
		g.w("%s = [(i, j) for i in range(3) for j in range(i) if i != j]\n", v)
	default:
		g.w("%s = [[y +%sx for y in range(2)] for x in range(%d)]\n", v, g.pad(), 1+g.r.Intn(3))
	}
	g.vars = append(g.vars, v)
	g.f("comprehension")
}

func (g *gen) itemMethods() {
	v := g.id("m")
	switch g.r.Intn(5) {
	case 0:
		g.w("%s = \"a,b,c\".split(\",\")\n%s.append(%s)\n%s.extend([1, 2])\n", v, v, g.constant(), v)
	case 1:
		g.w("%s = {}\n%s.setdefault(\"k\", []).append(%s)\n%s.update(z=1)\n", v, v, g.constant(), v)
	case 2:
		g.w("%s = %s.upper().lower().title().strip()\n", v, hx.Pick(g.r, strConsts[1:8]))
	case 3:
		g.w("%s = \"%%s=%%r\" %% (%s, %s)\n", v, g.constant(), g.constant())
	default:
		g.w("%s = %s.elems() if True else None\n", v, hx.Pick(g.r, bytesConsts))
	}
	g.vars = append(g.vars, v)
	g.f("names:attr")
}

func (g *gen) itemRecursion() {
	n := g.id("fact")
	g.w("def %s(n):\n    return 1 if n <= 1 else n * %s(n - 1)\n", n, n)
	v := g.id("rec")
	g.w("%s = %s(%d)\n", v, n, 2+g.r.Intn(25))
	g.vars = append(g.vars, v)
	g.f("recursion:call")
}

func (g *gen) itemControl() {
	v := g.id("tc")
	g.w("%s = []\n", v)
	if g.opts.TopLevelControl {
		g.w("for i%d in range(%d):\n    if i%d %% 2:\n        %s.append(i%d)\n    else:\n        %s.append(-1)\n", g.n, 2+g.r.Intn(5), g.n, v, g.n, v)
		g.f("toplevel:control")
		if g.opts.While {
			g.w("while len(%s) < %d:\n    %s.append(3)\n", v, g.r.Intn(20), v)
			g.f("stmt:while")
		}
	}
	if g.opts.GlobalReassign {
		g.w("%s_n = 1\n%s_n = %s_n + 1\n%s_n += %d\n", v, v, v, v, g.r.Intn(9))
		g.f("global:reassign")
	}
	if g.opts.Set {
		g.w("%s_set = set([1, 2, %d])\n", v, g.r.Intn(5))
		g.f("set")
	}
	g.vars = append(g.vars, v)
}

func (g *gen) itemAssignForms() {
	a, b := g.id("ua"), g.id("ub")
	g.w("%s, %s = %s, %s\n", a, b, g.constant(), g.constant())
	g.w("[%s_x, (%s_y, %s_z)] = [1, (2, 3)]\n", a, a, a)
	v := g.id("sl")
	g.w("%s = list(range(10))[1:%d:2]\n", v, 3+g.r.Intn(7))
	g.w("%s_cond = %s if %s_x else %s\n", v, g.constant(), a, g.constant())
	g.w("%s_in = %s_x in [1, 2] and not (%s_y not in (2,)) or %s_z == 3\n", v, a, a, a)
	g.vars = append(g.vars, a, b, v)
	g.f("assign:forms")
}

func (g *gen) itemFailing() {
	// a run-time failure below several frames, possibly far to the right / far down
	a, b, c := g.id("g"), g.id("g"), g.id("g")
	var boom string
	switch g.r.Intn(6) {
	case 0:
		boom = "x //" + g.pad() + "0"
	case 1:
		boom = "fail(\"boom %d\" % x)"
	case 2:
		boom = "[1, 2][x +" + g.pad() + "5]"
	case 3:
		boom = "{}[" + g.pad() + "x]"
	case 4:
		boom = "x." + g.pad() + "nosuchattr"
	default:
		boom = "int(" + g.pad() + "\"notanumber\")"
	}
	g.w("def %s(x):\n    \"fails\"\n    return%s%s\n", c, g.pad(), boom)
	g.gap()
	switch g.r.Intn(3) {
	case 0:
		g.w("def %s(x):\n    return [%s(v) for v in [x]]\n", b, c)
	case 1:
		g.w("def %s(x):\n    return (lambda q:%s%s(q))(x)\n", b, g.pad(), c)
	default:
		g.w("def %s(x):\n    y = x + 1\n\n\n    return %s(y)\n", b, c)
	}
	g.gap()
	g.w("def %s(x, *a, **k):\n    return%s%s(x)\n", a, g.pad(), b)
	g.gap()
	g.w("%s_result =%s%s(%d)\n", a, g.pad(), a, g.r.Intn(5))
	g.f("runtime:error")
}

var loadable = map[string][]string{
	"mod_a.star": {"alpha", "beta", "gamma"},
	"dir/mod_b.star": {"delta", "epsilon"},
	"//pkg:mod_c.star": {"zeta"},
}
var loadOrder = []string{"mod_a.star", "dir/mod_b.star", "//pkg:mod_c.star"}

func (g *gen) itemLoad() {
	m := hx.Pick(g.r, loadOrder)
	syms := loadable[m]
	var parts []string
	for i, s := range syms {
		if g.r.Intn(3) == 0 && i > 0 {
			continue
		}
		local := s + fmt.Sprint(g.id("_l"))
		if g.r.Bool() {
			parts = append(parts, fmt.Sprintf("%s=%q", local, s))
		} else {
			local = s
			// plain import: only once per program
			if g.feat["load:"+s] {
				parts = append(parts, fmt.Sprintf("%s%s=%q", s, g.id("_m"), s))
				continue
			}
			g.f("load:" + s)
			parts = append(parts, fmt.Sprintf("%q", s))
		}
		_ = local
	}
	g.w("load(%q,%s%s)\n", m, g.pad(), strings.Join(parts, ", "))
	g.f("load")
}

// program renders one program.
func genProgram(r *hx.Rand, small bool) (src string, opts syntax.FileOptions, feats []string) {
	g := &gen{r: r, feat: map[string]bool{}, small: small}
	g.opts = syntax.FileOptions{
		Set:             r.Intn(3) == 0,
		While:           r.Intn(3) == 0,
		TopLevelControl: r.Intn(2) == 0,
		GlobalReassign:  r.Intn(3) == 0,
		Recursion:       r.Intn(2) == 0,
	}
	if g.opts.Recursion {
		g.f("opt:recursion")
	}
	if r.Intn(3) == 0 {
		g.w("\"\"\"Module docstring %s.\"\"\"\n", randWord(r, 5))
		g.f("doc:module")
	}
	if r.Intn(8) == 0 {
		g.gap()
	}
	nload := 0
	if r.Intn(2) == 0 {
		nload = 1 + r.Intn(3)
	}
	for i := 0; i < nload; i++ {
		g.itemLoad()
		g.gap()
	}
	items := []func(){g.itemConst, g.itemConst, g.itemCollection, g.itemDef, g.itemDef, g.itemClosure, g.itemLambda,
		g.itemComprehension, g.itemMethods, g.itemRecursion, g.itemControl, g.itemAssignForms}
	n := 1 + r.Intn(10)
	if small {
		n = 1 + r.Intn(2)
	}
	for i := 0; i < n; i++ {
		hx.Pick(r, items)()
		g.gap()
	}
	if len(g.funcs) > 0 && r.Intn(3) == 0 {
		// a call that binds arguments wrongly: run-time error from the callee's metadata
		g.w("bad_call = %s\n", g.call(hx.Pick(r, g.funcs), true))
		g.f("runtime:bad-call")
	}
	if r.Intn(3) == 0 {
		g.itemFailing()
	}
	if len(g.vars) > 0 {
		g.w("print(%s)\n", strings.Join(g.vars[:min(len(g.vars), 4)], ", "))
	}
	for k := range g.feat {
		if !strings.HasPrefix(k, "load:") {
			feats = append(feats, k)
		}
	}
	return g.sb.String(), g.opts, feats
}
