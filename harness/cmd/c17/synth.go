package main

// (b) correspondence material: for small compiled programs and for synthetic
// programs with arbitrary (boundary) field values, the dump of every field and
// the bytes the real Program.Encode produced, for the Coq model to reproduce
// (model_ok) and to decode (spec_ok); plus the Go-side volume comparison
// dump(Decode(Encode(p))) == dump(p) and byte-identical re-encoding.

import (
	"bytes"
	"fmt"
	"math"
	"reflect"

	"go.starlark.net/starlark"

	"verifharness/internal/hx"
)

type jBinding struct {
	N string `json:"n"` // hex
	L int32  `json:"l"`
	C int32  `json:"c"`
}
type jConst struct {
	K string `json:"k"`
	S string `json:"s,omitempty"` // hex
	I int64  `json:"i,omitempty"`
	B uint64 `json:"b,omitempty"`
}
type jFuncode struct {
	Name      string     `json:"name"` // hex
	Line      int32      `json:"line"`
	Col       int32      `json:"col"`
	Doc       string     `json:"doc"`  // hex
	Code      string     `json:"code"` // hex
	Pclinetab []uint16   `json:"pclinetab"`
	Locals    []jBinding `json:"locals"`
	Cells     []int      `json:"cells"`
	FreeVars  []jBinding `json:"freevars"`
	MaxStack  int        `json:"maxstack"`
	NumParams int        `json:"numparams"`
	NumKwonly int        `json:"numkwonly"`
	Varargs   bool       `json:"varargs"`
	Kwargs    bool       `json:"kwargs"`
}
type jProgram struct {
	Filename  string     `json:"filename"` // hex
	Loads     []jBinding `json:"loads"`
	Names     []string   `json:"names"` // hex
	Constants []jConst   `json:"constants"`
	Globals   []jBinding `json:"globals"`
	Toplevel  jFuncode   `json:"toplevel"`
	Functions []jFuncode `json:"functions"`
	Recursion bool       `json:"recursion"`
}

func jb(bs []starlark.VerifBinding) []jBinding {
	out := make([]jBinding, len(bs))
	for i, b := range bs {
		out[i] = jBinding{hexs([]byte(b.Name)), b.Line, b.Col}
	}
	return out
}

func jf(f *starlark.VerifFuncode) jFuncode {
	return jFuncode{Name: hexs([]byte(f.Name)), Line: f.Pos.Line, Col: f.Pos.Col, Doc: hexs([]byte(f.Doc)), Code: hexs(f.Code),
		Pclinetab: append([]uint16{}, f.Pclinetab...), Locals: jb(f.Locals), Cells: append([]int{}, f.Cells...), FreeVars: jb(f.FreeVars),
		MaxStack: f.MaxStack, NumParams: f.NumParams, NumKwonly: f.NumKwonlyParams, Varargs: f.HasVarargs, Kwargs: f.HasKwargs}
}

func jp(d *starlark.VerifProgram) jProgram {
	p := jProgram{Filename: hexs([]byte(d.Toplevel.Pos.Filename)), Loads: jb(d.Loads), Globals: jb(d.Globals), Toplevel: jf(d.Toplevel), Recursion: d.Recursion}
	p.Names = make([]string, len(d.Names))
	for i, n := range d.Names {
		p.Names[i] = hexs([]byte(n))
	}
	p.Constants = make([]jConst, len(d.Constants))
	for i, c := range d.Constants {
		p.Constants[i] = jConst{K: c.Kind, S: hexs([]byte(c.Str)), I: c.Int, B: c.Bits}
	}
	p.Functions = make([]jFuncode, len(d.Functions))
	for i, f := range d.Functions {
		p.Functions[i] = jf(f)
	}
	return p
}

type corrCase struct {
	Kind   string   `json:"kind"` // "corr"
	ID     int      `json:"id"`
	Origin string   `json:"origin"` // compiled | synthetic
	Src    string   `json:"src,omitempty"`
	Opts   string   `json:"opts,omitempty"`
	Dump   jProgram `json:"dump"`
	Bytes  string   `json:"bytes"` // hex of Program.Encode
	Diffs  []diff   `json:"diffs"` // Go-side: decoded dump / re-encoding differ
	Class  []string `json:"class"`
}

// ---- random field values from boundary pools

var i32pool = []int32{0, 1, -1, 2, 63, 64, 127, 128, 1000, 65535, 65536, math.MaxInt32, math.MinInt32, math.MaxInt32 - 1, math.MinInt32 + 1}
var u16pool = []uint16{0, 1, 2, 0x7fff, 0x8000, 0xffff, 0xfffe, 0x1000, 0x0801, 63, 64, 127, 128, 255, 256}
var intpool = []int{0, 1, -1, 2, 63, 64, -64, -65, 127, 128, 255, 256, 8191, 8192, 1 << 31, -(1 << 31), 1<<32 - 1, math.MaxInt64, math.MinInt64, math.MaxInt64 - 1, math.MinInt64 + 1, 1 << 62, -(1 << 62)}
var bitspool = []uint64{0, 1 << 63 /* -0.0 */, 0x7ff0000000000000 /* +inf */, 0xfff0000000000000 /* -inf */, 0x7ff8000000000001 /* NaN */, 0xfff8000000000000, 0x7ff0000000000001, /* signalling NaN */
	math.MaxUint64, 1, 0x3ff0000000000000, 0x7fefffffffffffff, 0x0010000000000000, 0x8000000000000001, 1 << 62, 127, 128}
var bigpool = []string{"0", "-1", "9223372036854775808", "-9223372036854775809", "18446744073709551616",
	"123456789012345678901234567890123456789012345678901234567890", "-340282366920938463463374607431768211456", "7", "+5", "007", "-0"}

func rbytes(r *hx.Rand) string {
	switch r.Intn(16) {
	case 0, 8:
		return ""
	case 1:
		return "\xff\xfe\x80"
	case 2:
		return "\x00"
	case 3:
		n := 60 + r.Intn(80) // around 64: the length varint grows to two bytes
		b := make([]byte, n)
		for i := range b {
			b[i] = byte(r.Uint64())
		}
		return string(b)
	case 4:
		return "héllo 世"
	default:
		n := 1 + r.Intn(8)
		b := make([]byte, n)
		for i := range b {
			b[i] = byte(r.Uint64())
		}
		return string(b)
	}
}

func ri32(r *hx.Rand) int32 {
	if r.Intn(3) == 0 {
		return int32(r.Uint64())
	}
	return hx.Pick(r, i32pool)
}
func rint(r *hx.Rand) int {
	if r.Intn(3) == 0 {
		return int(r.Uint64() >> uint(r.Intn(64)))
	}
	if r.Intn(6) == 0 {
		return -int(r.Uint64() >> uint(1+r.Intn(63)))
	}
	return hx.Pick(r, intpool)
}
func rlen(r *hx.Rand) int {
	switch r.Intn(5) {
	case 0, 1:
		return 0
	case 2:
		return 1
	default:
		return 1 + r.Intn(4)
	}
}
func rbindings(r *hx.Rand) []starlark.VerifBinding {
	out := make([]starlark.VerifBinding, rlen(r))
	for i := range out {
		out[i] = starlark.VerifBinding{Name: rbytes(r), Line: ri32(r), Col: ri32(r)}
	}
	return out
}
func rfuncode(r *hx.Rand) *starlark.VerifFuncode {
	f := &starlark.VerifFuncode{Name: rbytes(r), Doc: rbytes(r), Code: []byte(rbytes(r)), Locals: rbindings(r), FreeVars: rbindings(r),
		MaxStack: rint(r), NumParams: rint(r), NumKwonlyParams: rint(r), HasVarargs: r.Bool(), HasKwargs: r.Bool()}
	f.Pos.Line, f.Pos.Col = ri32(r), ri32(r)
	f.Pclinetab = make([]uint16, rlen(r)*2)
	for i := range f.Pclinetab {
		if r.Bool() {
			f.Pclinetab[i] = hx.Pick(r, u16pool)
		} else {
			f.Pclinetab[i] = uint16(r.Uint64())
		}
	}
	f.Cells = make([]int, rlen(r))
	for i := range f.Cells {
		f.Cells[i] = rint(r)
	}
	return f
}
func rconst(r *hx.Rand) starlark.VerifConst {
	switch r.Intn(5) {
	case 0:
		return starlark.VerifConst{Kind: "string", Str: rbytes(r)}
	case 1:
		return starlark.VerifConst{Kind: "bytes", Str: rbytes(r)}
	case 2:
		return starlark.VerifConst{Kind: "int", Int: int64(rint(r))}
	case 3:
		if r.Intn(3) == 0 {
			return starlark.VerifConst{Kind: "float", Bits: r.Uint64()}
		}
		return starlark.VerifConst{Kind: "float", Bits: hx.Pick(r, bitspool)}
	default:
		return starlark.VerifConst{Kind: "bigint", Str: hx.Pick(r, bigpool)}
	}
}
func rprogram(r *hx.Rand) *starlark.VerifProgram {
	d := &starlark.VerifProgram{Loads: rbindings(r), Globals: rbindings(r), Toplevel: rfuncode(r), Recursion: r.Bool()}
	d.Names = make([]string, rlen(r))
	for i := range d.Names {
		d.Names[i] = rbytes(r)
	}
	d.Constants = make([]starlark.VerifConst, rlen(r)+r.Intn(3))
	for i := range d.Constants {
		d.Constants[i] = rconst(r)
	}
	d.Functions = make([]*starlark.VerifFuncode, rlen(r)%3)
	for i := range d.Functions {
		d.Functions[i] = rfuncode(r)
	}
	return d
}

// single-feature programs: everything empty except one field with a boundary value,
// so that every field is hit by every pool value at least once over the run.
func minimalProgram() *starlark.VerifProgram {
	return &starlark.VerifProgram{Toplevel: &starlark.VerifFuncode{}}
}

func boundaryPrograms() (out []*starlark.VerifProgram, class []string) {
	add := func(c string, f func(d *starlark.VerifProgram)) {
		d := minimalProgram()
		f(d)
		out = append(out, d)
		class = append(class, c)
	}
	add("minimal", func(d *starlark.VerifProgram) {})
	add("recursion", func(d *starlark.VerifProgram) { d.Recursion = true })
	for _, v := range i32pool {
		v := v
		add("binding:line", func(d *starlark.VerifProgram) { d.Loads = []starlark.VerifBinding{{Name: "m", Line: v, Col: 1}} })
		add("binding:col", func(d *starlark.VerifProgram) { d.Globals = []starlark.VerifBinding{{Name: "g", Line: 1, Col: v}} })
		add("funcode:pos", func(d *starlark.VerifProgram) { d.Toplevel.Pos.Line, d.Toplevel.Pos.Col = v, -v })
	}
	for _, v := range u16pool {
		v := v
		add("pclinetab", func(d *starlark.VerifProgram) { d.Toplevel.Pclinetab = []uint16{v, 0xffff - v} })
	}
	for _, v := range intpool {
		v := v
		add("cells", func(d *starlark.VerifProgram) { d.Toplevel.Cells = []int{v} })
		add("maxstack", func(d *starlark.VerifProgram) { d.Toplevel.MaxStack = v })
		add("numparams", func(d *starlark.VerifProgram) { d.Toplevel.NumParams = v })
		add("numkwonly", func(d *starlark.VerifProgram) { d.Toplevel.NumKwonlyParams = v })
		add("const:int", func(d *starlark.VerifProgram) { d.Constants = []starlark.VerifConst{{Kind: "int", Int: int64(v)}} })
		add("function:numparams", func(d *starlark.VerifProgram) {
			d.Functions = []*starlark.VerifFuncode{{NumParams: v, NumKwonlyParams: -v, HasKwargs: true}}
		})
	}
	for _, v := range bitspool {
		v := v
		add("const:float", func(d *starlark.VerifProgram) { d.Constants = []starlark.VerifConst{{Kind: "float", Bits: v}} })
	}
	for _, v := range bigpool {
		v := v
		add("const:bigint", func(d *starlark.VerifProgram) { d.Constants = []starlark.VerifConst{{Kind: "bigint", Str: v}} })
	}
	for _, s := range []string{"", "a", "\xff", "\x00\x00", string(make([]byte, 130))} {
		s := s
		add("const:string", func(d *starlark.VerifProgram) { d.Constants = []starlark.VerifConst{{Kind: "string", Str: s}} })
		add("const:bytes", func(d *starlark.VerifProgram) { d.Constants = []starlark.VerifConst{{Kind: "bytes", Str: s}} })
		add("names", func(d *starlark.VerifProgram) { d.Names = []string{s, "x" + s} })
		add("doc", func(d *starlark.VerifProgram) { d.Toplevel.Doc = s })
		add("code", func(d *starlark.VerifProgram) { d.Toplevel.Code = []byte(s) })
		add("name", func(d *starlark.VerifProgram) { d.Toplevel.Name = s })
	}
	add("bools:varargs", func(d *starlark.VerifProgram) { d.Toplevel.HasVarargs = true })
	add("bools:kwargs", func(d *starlark.VerifProgram) { d.Toplevel.HasKwargs = true })
	add("freevars-vs-cells", func(d *starlark.VerifProgram) {
		d.Toplevel.FreeVars = []starlark.VerifBinding{{Name: "fv", Line: 3, Col: 4}}
		d.Toplevel.Cells = []int{7, 8}
		d.Toplevel.Locals = []starlark.VerifBinding{{Name: "lo", Line: 5, Col: 6}, {Name: "l2", Line: 7, Col: 8}, {Name: "l3"}}
	})
	return
}

// checkSynthetic: build, encode, decode, dump, re-encode.
func corrOf(id int, origin string, p *starlark.Program, class []string) corrCase {
	c := corrCase{Kind: "corr", ID: id, Origin: origin, Class: class}
	add := func(key, what string) { c.Diffs = append(c.Diffs, diff{key, what}) }
	defer func() {
		if e := recover(); e != nil {
			add("roundtrip:panic", fmt.Sprintf("host panic: %v", e))
		}
	}()
	d1 := starlark.VerifDumpProgram(p)
	c.Dump = jp(d1)
	b1, err := writeProg(p)
	if err != nil {
		add("roundtrip:write-error", err.Error())
		return c
	}
	c.Bytes = hexs(b1)
	in := append([]byte(nil), b1...)
	p2, err := starlark.VerifDecodeProgram(in)
	for i := range in { // the decoded program must not depend on the input slice any more
		in[i] = 0xff
	}
	if err != nil {
		add("roundtrip:decode-error", "DecodeProgram(Encode(p)) failed: "+err.Error())
		return c
	}
	d2 := starlark.VerifDumpProgram(p2)
	if d := firstDiff("Program", "roundtrip:dump:Program", reflect.ValueOf(d1), reflect.ValueOf(d2)); d != nil {
		add(d.Key, "compiled program differs after the round trip: "+d.What)
	}
	b2, err := writeProg(p2)
	if err != nil {
		add("roundtrip:rewrite-error", err.Error())
	} else if !bytes.Equal(b1, b2) {
		add("roundtrip:bytes", fmt.Sprintf("re-encoding the decoded program gives different bytes (%d vs %d)", len(b1), len(b2)))
	}
	return c
}

func modeCorr(seed uint64, n int, sample bool) {
	r := hx.NewRand(seed ^ 0xc17)
	id := 0
	// boundary programs: one field at a time (quick tier: a seeded third of them)
	bp, cls := boundaryPrograms()
	for i, d := range bp {
		if sample && (uint64(i)+seed)%3 != 0 {
			continue
		}
		p, ok := starlark.VerifProgramFromDump(d, "b.star")
		if !ok {
			continue
		}
		hx.Emit(corrOf(id, "synthetic", p, []string{"boundary:" + cls[i]}))
		id++
	}
	for i := 0; i < n; i++ {
		pr := r.Split()
		if i%5 == 0 {
			// a small compiled program
			src, opts, feats := genProgram(pr, true)
			_, p, err := starlark.SourceProgramOptions(&opts, "s.star", src, isPredeclared)
			if err != nil {
				hx.Emit(rtCase{Kind: "rt", ID: id, Invalid: err.Error(), Src: src, Opts: optsString(opts)})
				continue
			}
			c := corrOf(id, "compiled", p, feats)
			c.Src, c.Opts = src, optsString(opts)
			hx.Emit(c)
		} else {
			d := rprogram(pr)
			p, ok := starlark.VerifProgramFromDump(d, rbytes(pr))
			if !ok {
				continue
			}
			hx.Emit(corrOf(id, "synthetic", p, []string{"random"}))
		}
		id++
	}
}
