// c17: compiled programs survive serialization unchanged.
//
//	c17 -mode rt      -seed S -n N    (a) CompiledProgram(Write(p)) behaves like p; re-Write gives the same bytes
//	c17 -mode corr    -seed S -n N    (b) dump + real bytes of small / synthetic programs for the Coq model
//	c17 -mode corrupt -seed S -n N    (c) truncated / corrupted files: an error, never a panic, crash or hang
//	c17 -mode src -file f.star [-recursion ...]   replay of one source file through (a)
//	c17 child <hexfile>               decode one file in a sacrificial process
//
// One JSON object per line on stdout.
package main

import (
	"bufio"
	"bytes"
	"encoding/hex"
	"flag"
	"fmt"
	"io"
	"os"
	"reflect"
	"sort"
	"strings"
	"testing/iotest"
	"time"

	"go.starlark.net/starlark"
	"go.starlark.net/syntax"

	"verifharness/internal/hx"
)

// ------------------------------------------------------------------ running

type frameObs struct {
	Name string `json:"name"`
	Pos  string `json:"pos"`
}

type fnObs struct {
	Path     string   `json:"path"`
	Name     string   `json:"name"`
	Doc      string   `json:"doc"`
	Pos      string   `json:"pos"`
	NParams  int      `json:"nparams"`
	NKwonly  int      `json:"nkwonly"`
	Varargs  bool     `json:"varargs"`
	Kwargs   bool     `json:"kwargs"`
	Params   []string `json:"params"`   // name@pos
	Defaults []string `json:"defaults"` // repr or <nil>
	FreeVars []string `json:"freevars"` // name@pos=repr
}

type runObs struct {
	Prints    []string   `json:"prints"`
	Globals   []string   `json:"globals"` // name=repr, sorted
	Err       string     `json:"err"`
	Backtrace string     `json:"backtrace"`
	Stack     []frameObs `json:"stack"`
	Funcs     []fnObs    `json:"funcs"`
	Panic     string     `json:"panic,omitempty"`
	Filename  string     `json:"filename"`
	Loads     []string   `json:"loads"` // name@pos
}

var moduleSrc = map[string]string{
	"mod_a.star":       "alpha = 1\ndef beta(x=2):\n    \"beta doc\"\n    return x + alpha\ngamma = [1, 2.5, \"g\"]\n",
	"dir/mod_b.star":   "delta = {\"d\": 4}\nepsilon = lambda q: q * 2\n",
	"//pkg:mod_c.star": "zeta = (1 << 70, b\"z\\xff\")\n",
}

func loader(thread *starlark.Thread, module string) (starlark.StringDict, error) {
	src, ok := moduleSrc[module]
	if !ok {
		return nil, fmt.Errorf("no such module %q", module)
	}
	t := &starlark.Thread{Name: "load " + module}
	return starlark.ExecFileOptions(&syntax.FileOptions{}, t, module, src, nil)
}

func predeclared() starlark.StringDict {
	return starlark.StringDict{
		"pre_x":    starlark.MakeInt(42),
		"pre_list": starlark.NewList([]starlark.Value{starlark.MakeInt(1), starlark.String("s")}),
	}
}

func isPredeclared(name string) bool { return name == "pre_x" || name == "pre_list" }

func collectFuncs(path string, v starlark.Value, depth int, out *[]fnObs) {
	if depth > 3 {
		return
	}
	switch v := v.(type) {
	case *starlark.Function:
		fo := fnObs{Path: path, Name: v.Name(), Doc: v.Doc(), Pos: v.Position().String(), NParams: v.NumParams(),
			NKwonly: v.NumKwonlyParams(), Varargs: v.HasVarargs(), Kwargs: v.HasKwargs()}
		for i := 0; i < v.NumParams(); i++ {
			n, p := v.Param(i)
			fo.Params = append(fo.Params, n+"@"+p.String())
			if d := v.ParamDefault(i); d != nil {
				fo.Defaults = append(fo.Defaults, d.String())
			} else {
				fo.Defaults = append(fo.Defaults, "<nil>")
			}
		}
		for i := 0; i < v.NumFreeVars(); i++ {
			b, val := v.FreeVar(i)
			s := "<nil>"
			if val != nil {
				s = val.String()
			}
			fo.FreeVars = append(fo.FreeVars, b.Name+"@"+b.Pos.String()+"="+s)
		}
		*out = append(*out, fo)
		for i := 0; i < v.NumFreeVars(); i++ {
			_, val := v.FreeVar(i)
			if val != nil {
				collectFuncs(fmt.Sprintf("%s.free[%d]", path, i), val, depth+1, out)
			}
		}
	case *starlark.List:
		for i := 0; i < v.Len(); i++ {
			collectFuncs(fmt.Sprintf("%s[%d]", path, i), v.Index(i), depth+1, out)
		}
	case starlark.Tuple:
		for i, e := range v {
			collectFuncs(fmt.Sprintf("%s[%d]", path, i), e, depth+1, out)
		}
	}
}

// runProgram initializes prog in a fresh thread and records everything observable.
func runProgram(prog *starlark.Program) (obs runObs) {
	defer func() {
		if e := recover(); e != nil {
			obs.Panic = fmt.Sprint(e)
		}
	}()
	obs.Filename = prog.Filename()
	for i := 0; i < prog.NumLoads(); i++ {
		n, p := prog.Load(i)
		obs.Loads = append(obs.Loads, n+"@"+p.String())
	}
	thread := &starlark.Thread{
		Name:  "c17",
		Print: func(_ *starlark.Thread, msg string) { obs.Prints = append(obs.Prints, msg) },
		Load:  loader,
	}
	thread.SetMaxExecutionSteps(2_000_000)
	g, err := prog.Init(thread, predeclared())
	names := make([]string, 0, len(g))
	for k := range g {
		names = append(names, k)
	}
	sort.Strings(names)
	for _, k := range names {
		obs.Globals = append(obs.Globals, k+"="+g[k].String())
		collectFuncs(k, g[k], 0, &obs.Funcs)
	}
	if err != nil {
		obs.Err = err.Error()
		if ee, ok := err.(*starlark.EvalError); ok {
			obs.Backtrace = ee.Backtrace()
			for _, fr := range ee.CallStack {
				obs.Stack = append(obs.Stack, frameObs{fr.Name, fr.Pos.String()})
			}
		}
	}
	return obs
}

// ------------------------------------------------------------------ diffing

type diff struct {
	Key  string `json:"key"`
	What string `json:"what"`
}

// firstDiff walks two values of the same type and reports the first difference:
// key = path with indices removed, what = full path and both values.
func firstDiff(path, key string, a, b reflect.Value) *diff {
	switch a.Kind() {
	case reflect.Pointer:
		if a.IsNil() || b.IsNil() {
			if a.IsNil() != b.IsNil() {
				return &diff{key, fmt.Sprintf("%s: nil vs non-nil", path)}
			}
			return nil
		}
		return firstDiff(path, key, a.Elem(), b.Elem())
	case reflect.Struct:
		for i := 0; i < a.NumField(); i++ {
			n := a.Type().Field(i).Name
			if d := firstDiff(path+"."+n, key+"."+n, a.Field(i), b.Field(i)); d != nil {
				return d
			}
		}
		return nil
	case reflect.Slice:
		if a.Type().Elem().Kind() == reflect.Uint8 {
			if !bytes.Equal(a.Bytes(), b.Bytes()) {
				return &diff{key, fmt.Sprintf("%s: %x vs %x", path, clip(a.Bytes()), clip(b.Bytes()))}
			}
			return nil
		}
		if a.Len() != b.Len() {
			return &diff{key + ".len", fmt.Sprintf("%s: length %d vs %d", path, a.Len(), b.Len())}
		}
		for i := 0; i < a.Len(); i++ {
			if d := firstDiff(fmt.Sprintf("%s[%d]", path, i), key, a.Index(i), b.Index(i)); d != nil {
				return d
			}
		}
		return nil
	default:
		if !reflect.DeepEqual(a.Interface(), b.Interface()) {
			return &diff{key, fmt.Sprintf("%s: %#v vs %#v", path, clipAny(a.Interface()), clipAny(b.Interface()))}
		}
		return nil
	}
}

func clip(b []byte) []byte {
	if len(b) > 64 {
		return b[:64]
	}
	return b
}

func clipAny(v any) any {
	if s, ok := v.(string); ok && len(s) > 200 {
		return s[:200] + "..."
	}
	return v
}

// ------------------------------------------------------------------ (a) round trip

type rtCase struct {
	Kind      string   `json:"kind"` // "rt"
	ID        int      `json:"id"`
	Src       string   `json:"src,omitempty"`
	Filename  string   `json:"filename"`
	SrcLen    int      `json:"srclen"`
	Opts      string   `json:"opts"`
	Feats     []string `json:"feats"`
	Invalid   string   `json:"invalid,omitempty"` // the generator produced a program that does not compile
	Diffs     []diff   `json:"diffs"`
	NBytes    int      `json:"nbytes"`
	Reader    string   `json:"reader"` // how the bytes were handed to the decoder and destroyed afterwards
	NFuncs    int      `json:"nfuncs"`
	Err       string   `json:"err,omitempty"`
	Failed    bool     `json:"failed"` // the program fails at run time (same way on both sides unless a diff says otherwise)
	StackLen  int      `json:"stacklen"`
	NConsts   int      `json:"nconsts"`
	Saturated int      `json:"saturated"` // pclinetab entries with the continuation bit
}

func optsString(o syntax.FileOptions) string {
	return fmt.Sprintf("set=%v while=%v toplevel=%v reassign=%v recursion=%v", o.Set, o.While, o.TopLevelControl, o.GlobalReassign, o.Recursion)
}

func writeProg(p *starlark.Program) ([]byte, error) {
	var buf bytes.Buffer
	err := p.Write(&buf)
	return buf.Bytes(), err
}

// clobberBytes is what the input is overwritten with: the encoding of another
// program, repeated, or 0xff bytes.
var otherProgram []byte

func clobberFill(n int, k int) []byte {
	out := make([]byte, n)
	if k%2 == 0 {
		for i := range out {
			out[i] = 0xff
		}
		return out
	}
	if otherProgram == nil {
		o := syntax.FileOptions{}
		_, p, err := starlark.SourceProgramOptions(&o, "other.star", "OTHER = \"zzzzzzzzzzzzzzzzzzzzzzzzzzzzzzzzzzzzzzzzzz\"\ndef other(q, r = \"ooooooooo\"):\n    return [q, r, OTHER] * 3\nvalue = other(1)\n", isPredeclared)
		if err != nil {
			panic(err)
		}
		otherProgram, _ = writeProg(p)
	}
	for i := range out {
		out[i] = otherProgram[i%len(otherProgram)]
	}
	return out
}

// dribble returns at most k bytes per Read.
type dribble struct {
	r io.Reader
	k int
}

func (d *dribble) Read(p []byte) (int, error) {
	if len(p) > d.k {
		p = p[:d.k]
	}
	return d.r.Read(p)
}

func decodeAndClobber(id int, b1 []byte) (p *starlark.Program, how string, err error) {
	in := append([]byte(nil), b1...)
	fill := clobberFill(len(in), id/9)
	switch id % 9 {
	case 0:
		how = "bytes.Buffer, then reused for another program"
		buf := bytes.NewBuffer(in)
		p, err = starlark.CompiledProgram(buf)
		buf.Reset()
		buf.Write(fill)
		copy(in, fill)
	case 1:
		how = "bytes.Reader, then slice overwritten"
		p, err = starlark.CompiledProgram(bytes.NewReader(in))
		copy(in, fill)
	case 2:
		how = "bufio.Reader, then slice overwritten"
		p, err = starlark.CompiledProgram(bufio.NewReaderSize(bytes.NewReader(in), 16+id%4096))
		copy(in, fill)
	case 3:
		how = "os.File, then file rewritten"
		f, e := os.CreateTemp("", "c17-*.bin")
		if e != nil {
			return nil, how, e
		}
		defer os.Remove(f.Name())
		f.Write(in)
		f.Seek(0, 0)
		p, err = starlark.CompiledProgram(f)
		f.Seek(0, 0)
		f.Write(fill)
		f.Close()
		copy(in, fill)
	case 5:
		how = "iotest.OneByteReader (every Read returns one byte), then slice overwritten"
		p, err = starlark.CompiledProgram(iotest.OneByteReader(bytes.NewReader(in)))
		copy(in, fill)
	case 6:
		how = "reader returning 1-7 bytes per Read and data together with EOF, then slice overwritten"
		p, err = starlark.CompiledProgram(iotest.DataErrReader(&dribble{r: bytes.NewReader(in), k: 1 + id%7}))
		copy(in, fill)
	case 7:
		how = "io.Pipe fed in small writes"
		rd, wr := io.Pipe()
		go func(data []byte) {
			for len(data) > 0 {
				k := 1 + (len(data)+id)%5
				if k > len(data) {
					k = len(data)
				}
				wr.Write(data[:k])
				data = data[k:]
			}
			wr.Close()
		}(append([]byte(nil), in...))
		p, err = starlark.CompiledProgram(rd)
		copy(in, fill)
	default:
		how = "DecodeProgram on a byte slice, then slice overwritten"
		p, err = starlark.VerifDecodeProgram(in)
		copy(in, fill)
	}
	return p, how, err
}

// roundTrip performs every comparison of part (a) on one source program.
func roundTrip(id int, filename, src string, opts syntax.FileOptions, feats []string) (c rtCase) {
	c = rtCase{Kind: "rt", ID: id, Filename: filename, SrcLen: len(src), Opts: optsString(opts), Feats: feats}
	add := func(key, what string) { c.Diffs = append(c.Diffs, diff{key, what}) }
	defer func() {
		if e := recover(); e != nil {
			add("roundtrip:panic", fmt.Sprintf("host panic during the round trip: %v", e))
		}
		if len(c.Diffs) > 0 || c.Invalid != "" {
			c.Src = src
		}
	}()
	_, p1, err := starlark.SourceProgramOptions(&opts, filename, src, isPredeclared)
	if err != nil {
		c.Invalid = err.Error()
		return c
	}
	b1, err := writeProg(p1)
	if err != nil {
		add("roundtrip:write-error", err.Error())
		return c
	}
	c.NBytes = len(b1)
	d1 := starlark.VerifDumpProgram(p1)
	c.NConsts = len(d1.Constants)
	for _, f := range append([]*starlark.VerifFuncode{d1.Toplevel}, d1.Functions...) {
		for _, x := range f.Pclinetab {
			if x&1 != 0 {
				c.Saturated++
			}
		}
	}
	// Decode from a private copy of the bytes through one of several reader
	// types, then destroy that input (reuse the buffer for another program,
	// overwrite the slice, rewrite the file) BEFORE the decoded program is
	// executed, dumped or written again: the program must not depend on the
	// caller's buffer after CompiledProgram has returned.
	p2, how, err := decodeAndClobber(id, b1)
	c.Reader = how
	if err != nil {
		add("roundtrip:decode-error", "CompiledProgram(Write(p)) failed ("+how+"): "+err.Error())
		return c
	}
	// re-Write: identical bytes
	b2, err := writeProg(p2)
	if err != nil {
		add("roundtrip:rewrite-error", err.Error())
	} else if !bytes.Equal(b1, b2) {
		i := 0
		for i < len(b1) && i < len(b2) && b1[i] == b2[i] {
			i++
		}
		add("roundtrip:bytes", fmt.Sprintf("Write(CompiledProgram(Write(p))) differs from Write(p): lengths %d vs %d, first difference at offset %d", len(b1), len(b2), i))
	}
	// every field of the compiled program
	d2 := starlark.VerifDumpProgram(p2)
	if d := firstDiff("Program", "roundtrip:dump:Program", reflect.ValueOf(d1), reflect.ValueOf(d2)); d != nil {
		add(d.Key, "compiled program differs after the round trip: "+d.What)
	}
	// all positions carry the program's file name
	checkFilenames := func(side string, d *starlark.VerifProgram, want string) {
		bad := ""
		chk := func(where string, b starlark.VerifBinding) {
			if b.Filename != want && bad == "" {
				bad = fmt.Sprintf("%s: %q, want %q", where, b.Filename, want)
			}
		}
		for _, b := range d.Loads {
			chk("Loads", b)
		}
		for _, b := range d.Globals {
			chk("Globals", b)
		}
		for _, f := range append([]*starlark.VerifFuncode{d.Toplevel}, d.Functions...) {
			chk("Funcode.Pos", f.Pos)
			for _, b := range f.Locals {
				chk("Locals", b)
			}
			for _, b := range f.FreeVars {
				chk("FreeVars", b)
			}
			if !f.ProgOK {
				bad = "Funcode.Prog does not point at its program"
			}
		}
		if bad != "" {
			add("roundtrip:filename:"+side, bad)
		}
	}
	checkFilenames("original", d1, filename)
	checkFilenames("decoded", d2, filename)
	// behaviour
	o1 := runProgram(p1)
	o2 := runProgram(p2)
	c.NFuncs = len(o1.Funcs)
	c.Failed = o1.Err != ""
	c.Err = fmt.Sprint(clipAny(o1.Err))
	c.StackLen = len(o1.Stack)
	if o1.Panic != "" {
		add("exec:panic:original", "host panic executing the source program: "+o1.Panic)
	}
	if o2.Panic != "" && o1.Panic == "" {
		add("roundtrip:exec:panic", "host panic executing the decoded program: "+o2.Panic)
	}
	cmp := func(key string, a, b any) {
		if !reflect.DeepEqual(a, b) {
			add("roundtrip:"+key, fmt.Sprintf("%s differs: original %v, after round trip %v", key, clipAny(fmt.Sprint(a)), clipAny(fmt.Sprint(b))))
		}
	}
	// A program is a value: using it (executing it, asking for positions in every
	// function) must not change what Write emits.  Lazily built caches inside the
	// compiled program are the state that could leak into the encoding.
	for side, p := range map[string]*starlark.Program{"original": p1, "decoded": p2} {
		nf := len(d1.Functions) + 1
		func() {
			defer func() { recover() }()
			for fi := 0; fi < nf; fi++ {
				starlark.VerifFuncPosition(p, fi, 0)
			}
		}()
		b3, err := writeProg(p)
		if err != nil {
			add("roundtrip:write-after-use-error:"+side, err.Error())
		} else if !bytes.Equal(b1, b3) {
			i := 0
			for i < len(b1) && i < len(b3) && b1[i] == b3[i] {
				i++
			}
			add("roundtrip:bytes-after-use:"+side, fmt.Sprintf("Write of the %s program after it was executed and its positions were queried differs from Write before use: lengths %d vs %d, first difference at offset %d", side, len(b1), len(b3), i))
		} else if p3, err := starlark.CompiledProgram(bytes.NewReader(b3)); err == nil {
			if d := firstDiff("Program", "roundtrip:dump-after-use:"+side, reflect.ValueOf(d1), reflect.ValueOf(starlark.VerifDumpProgram(p3))); d != nil {
				add(d.Key, "program written after use decodes to a different program: "+d.What)
			}
		}
	}
	cmp("exec:prints", o1.Prints, o2.Prints)
	cmp("exec:globals", o1.Globals, o2.Globals)
	cmp("exec:error", o1.Err, o2.Err)
	cmp("exec:backtrace", o1.Backtrace, o2.Backtrace)
	cmp("exec:callstack", o1.Stack, o2.Stack)
	cmp("program:Filename", o1.Filename, o2.Filename)
	cmp("program:Loads", o1.Loads, o2.Loads)
	if len(o1.Funcs) != len(o2.Funcs) {
		add("roundtrip:metadata:functions", fmt.Sprintf("%d function values vs %d", len(o1.Funcs), len(o2.Funcs)))
	} else {
		for i := range o1.Funcs {
			if d := firstDiff(o1.Funcs[i].Path, "roundtrip:metadata", reflect.ValueOf(o1.Funcs[i]), reflect.ValueOf(o2.Funcs[i])); d != nil {
				add(d.Key, "function "+d.What)
				break
			}
		}
	}
	return c
}

func modeRT(seed uint64, n int, small bool) {
	r := hx.NewRand(seed)
	for i := 0; i < n; i++ {
		pr := r.Split()
		src, opts, feats := genProgram(pr, small || i%4 == 0)
		fn := hx.Pick(pr, []string{"prog.star", "dir/sub/p.star", "", "café \xff.star", "//pkg:file.bzl"})
		hx.Emit(roundTrip(i, fn, src, opts, feats))
	}
}

// ------------------------------------------------------------------ main

func main() {
	if len(os.Args) > 1 && os.Args[1] == "child" {
		childMain(os.Args[2:])
		return
	}
	mode := flag.String("mode", "rt", "rt | corr | corrupt | writers | src | hex")
	seed := flag.Uint64("seed", 1, "seed")
	n := flag.Int("n", 100, "number of cases")
	small := flag.Bool("small", false, "small programs only")
	file := flag.String("file", "", "source file (mode src)")
	fname := flag.String("filename", "prog.star", "file name recorded in the program (mode src)")
	optstr := flag.String("opts", "", "opts string as printed (mode src)")
	flag.Parse()
	defer hx.Flush()
	// DecodeProgram prints a stack trace for every recovered panic
	if devnull, err := os.OpenFile(os.DevNull, os.O_WRONLY, 0); err == nil && *mode != "src" {
		os.Stderr = devnull
	}
	switch *mode {
	case "rt":
		modeRT(*seed, *n, *small)
	case "corr":
		modeCorr(*seed, *n, *small)
	case "corrupt":
		modeCorrupt(*seed, *n)
	case "writers":
		modeWriters(*seed, *n)
	case "src":
		data, err := os.ReadFile(*file)
		if err != nil {
			fmt.Fprintln(os.Stderr, err)
			os.Exit(2)
		}
		has := func(k string) bool { return strings.Contains(*optstr, k+"=true") }
		opts := syntax.FileOptions{Set: has("set"), While: has("while"), TopLevelControl: has("toplevel"), GlobalReassign: has("reassign"), Recursion: has("recursion")}
		c := roundTrip(0, *fname, string(data), opts, nil)
		c.Src = ""
		hx.Emit(c)
	case "hex":
		// replay of one corrupted file (hex text in -file), in a child process
		data, err := os.ReadFile(*file)
		if err != nil {
			fmt.Fprintln(os.Stderr, err)
			os.Exit(2)
		}
		raw, err := hex.DecodeString(strings.TrimSpace(string(data)))
		if err != nil {
			fmt.Fprintln(os.Stderr, err)
			os.Exit(2)
		}
		res := runCases([]ccase{{class: "replay", data: raw}}, 20*time.Second)
		hx.Emit(map[string]string{"kind": "hex", "result": res[0].res})
	default:
		fmt.Fprintln(os.Stderr, "unknown mode")
		os.Exit(2)
	}
}

func hexs(b []byte) string { return hex.EncodeToString(b) }
