package main

// (c) truncated / corrupted compiled files must be rejected with an error (or,
// where the corruption happens to describe another program, decoded) -- never a
// host panic, a fatal runtime error or a hang.  Every decode of a corrupted
// file runs in a sacrificial child process with an address-space limit and a
// per-case timeout: a length field of 1<<40 must not be able to take the
// harness down.

import (
	"bufio"
	"encoding/binary"
	"encoding/hex"
	"fmt"
	"os"
	"os/exec"
	"sort"
	"strings"
	"syscall"
	"time"

	"go.starlark.net/starlark"

	"verifharness/internal/hx"
)

type ccase struct {
	class   string
	data    []byte
	mustErr bool
	small   bool // derived from the minimal file: also replayed on the Coq model of the decoder
}

// ---- child: decode each line of the file, report one line per case

func childMain(args []string) {
	if len(args) < 1 {
		os.Exit(2)
	}
	// bound the address space: a huge make() must fail fast, not swap the machine
	// A huge make() must not swap the machine: a watchdog ends the process when
	// its resident set exceeds 1.5 GiB.  (RLIMIT_AS is not usable: the Go runtime
	// itself fails at random under a tight address-space limit.)
	go func() {
		for {
			time.Sleep(10 * time.Millisecond)
			if b, err := os.ReadFile("/proc/self/statm"); err == nil {
				var size, rss int64
				fmt.Sscan(string(b), &size, &rss)
				if rss*int64(os.Getpagesize()) > 3<<29 {
					syscall.Write(2, []byte("fatal: resident set above 1.5 GiB while decoding (memory blow-up)\n"))
					os.Exit(3)
				}
			}
		}
	}()
	start, end := 0, 1<<62
	if len(args) > 1 {
		fmt.Sscan(args[1], &start)
	}
	if len(args) > 2 {
		fmt.Sscan(args[2], &end)
	}
	f, err := os.Open(args[0])
	if err != nil {
		os.Exit(2)
	}
	if devnull, err := os.OpenFile(os.DevNull, os.O_WRONLY, 0); err == nil && os.Getenv("C17_CHILD_STDERR") == "" {
		// DecodeProgram prints the stack of every recovered panic; keep fatal
		// errors (written by the runtime to fd 2 directly) visible.
		os.Stderr = devnull
	}
	sc := bufio.NewScanner(f)
	sc.Buffer(make([]byte, 1<<20), 1<<28)
	w := bufio.NewWriter(os.Stdout)
	i := -1
	for sc.Scan() {
		i++
		if i < start {
			continue
		}
		if i >= end {
			break
		}
		data, err := hex.DecodeString(strings.TrimSpace(sc.Text()))
		if err != nil {
			fmt.Fprintf(w, "%d badhex\n", i)
			w.Flush()
			continue
		}
		fmt.Fprintf(w, "%d %s\n", i, decodeOne(data))
		w.Flush()
	}
}

func decodeOne(data []byte) (res string) {
	defer func() {
		if e := recover(); e != nil {
			res = "panic " + strings.ReplaceAll(fmt.Sprint(e), "\n", " ")
		}
	}()
	// exact capacity: DecodeProgram must not look beyond len(data)
	buf := make([]byte, len(data))
	copy(buf, data)
	p, err := starlark.VerifDecodeProgram(buf)
	if err != nil {
		if strings.Contains(err.Error(), "internal error while decoding") {
			return "err recovered"
		}
		return "err format"
	}
	// a program came out: it must at least be encodable again
	if _, err := writeProg(p); err != nil {
		return "panic rewrite: " + err.Error()
	}
	return "ok"
}

// ---- parent

type outcome struct {
	res string // "ok" | "err ..." | "panic ..." | "crash ..." | "hang"
}

// runCases decodes all cases in child processes; a crash or hang costs one case.
func runCases(cases []ccase, perCase time.Duration) []outcome {
	out := make([]outcome, len(cases))
	tmp, err := os.CreateTemp("", "c17-corrupt-*.hex")
	if err != nil {
		panic(err)
	}
	if os.Getenv("C17_KEEP") == "" {
		defer os.Remove(tmp.Name())
	}
	bw := bufio.NewWriter(tmp)
	for _, c := range cases {
		bw.WriteString(hex.EncodeToString(c.data))
		bw.WriteByte('\n')
	}
	bw.Flush()
	tmp.Close()
	// cases are grouped by class; after 3 crashes / hangs in one class the rest
	// of that class is skipped (each costs a process and up to perCase of time)
	start := 0
	for start < len(cases) {
		end := start
		for end < len(cases) && classKey(cases[end].class) == classKey(cases[start].class) {
			end++
		}
		fails := 0
		for start < end {
			next, fail := runChild(tmp.Name(), start, end, perCase, out)
			if next < end {
				// the child died or hung in case `next`: confirm in a fresh process, alone
				n2, fail2 := runChild(tmp.Name(), next, next+1, perCase, out)
				if n2 == next {
					if fail2 == "" {
						fail2 = fail
					}
					out[next] = outcome{fail2}
					fails++
				}
				next++
			}
			start = next
			if fails >= 3 {
				for ; start < end; start++ {
					out[start] = outcome{"skipped"}
				}
			}
		}
	}
	return out
}

// runChild decodes cases [start,end) in one child; it returns the index of the
// first case without an answer and, if that is < end, how the child failed.
func runChild(file string, start, end int, perCase time.Duration, out []outcome) (next int, fail string) {
	cmd := exec.Command(os.Args[0], "child", file, fmt.Sprint(start), fmt.Sprint(end))
	cmd.Env = append(os.Environ(), "GOTRACEBACK=none")
	stdout, _ := cmd.StdoutPipe()
	var stderr strings.Builder
	cmd.Stderr = &limitedWriter{w: &stderr, n: 4096}
	if err := cmd.Start(); err != nil {
		panic(err)
	}
	lines := make(chan string, 1024)
	go func() {
		sc := bufio.NewScanner(stdout)
		sc.Buffer(make([]byte, 1<<16), 1<<20)
		for sc.Scan() {
			lines <- sc.Text()
		}
		close(lines)
	}()
	next = start
	hung := false
loop:
	for {
		select {
		case l, ok := <-lines:
			if !ok {
				break loop
			}
			var idx int
			var rest string
			if sp := strings.IndexByte(l, ' '); sp > 0 {
				fmt.Sscan(l[:sp], &idx)
				rest = l[sp+1:]
			}
			if idx == next {
				out[idx] = outcome{rest}
				next++
			}
		case <-time.After(perCase):
			hung = true
			cmd.Process.Kill()
			break loop
		}
	}
	if hung {
		for range lines {
		}
	}
	werr := cmd.Wait()
	if next < end {
		if hung {
			fail = fmt.Sprintf("hang no answer within %v", perCase)
		} else {
			msg := strings.TrimSpace(stderr.String())
			if len(msg) > 300 {
				msg = msg[:300]
			}
			fail = fmt.Sprintf("crash %v: %s", werr, strings.ReplaceAll(msg, "\n", " | "))
		}
	}
	return next, fail
}

type limitedWriter struct {
	w *strings.Builder
	n int
}

func (l *limitedWriter) Write(p []byte) (int, error) {
	if l.n > 0 {
		k := min(l.n, len(p))
		l.w.Write(p[:k])
		l.n -= k
	}
	return len(p), nil
}

// ---- building corrupted files

func splitFile(file []byte) (p, s []byte) {
	off := binary.LittleEndian.Uint32(file[4:8])
	return file[8:off], file[off:]
}

func joinFile(p, s []byte) []byte {
	out := append([]byte{}, starlark.VerifSerialMagic...)
	out = binary.LittleEndian.AppendUint32(out, uint32(8+len(p)))
	out = append(out, p...)
	return append(out, s...)
}

// varintSpans returns the boundaries of the varints making up the program section.
func varintSpans(p []byte) [][2]int {
	var spans [][2]int
	i := 0
	for i < len(p) {
		_, n := binary.Varint(p[i:])
		if n <= 0 {
			break
		}
		spans = append(spans, [2]int{i, i + n})
		i += n
	}
	return spans
}

func replaceVarint(p []byte, span [2]int, v int64) []byte {
	out := append([]byte{}, p[:span[0]]...)
	out = binary.AppendVarint(out, v)
	return append(out, p[span[1]:]...)
}

var hugeValues = []int64{1 << 40, 1 << 62, 1<<63 - 1, -1, -(1 << 63), 1 << 31, 1 << 20, 1 << 48}

func baseFiles(r *hx.Rand) (files [][]byte, names []string) {
	add := func(name string, p *starlark.Program) {
		b, err := writeProg(p)
		if err == nil {
			files = append(files, b)
			names = append(names, name)
		}
	}
	if p, ok := starlark.VerifProgramFromDump(minimalProgram(), ""); ok {
		add("minimal", p)
	}
	for len(files) < 3 {
		src, opts, _ := genProgram(r.Split(), true)
		if _, p, err := starlark.SourceProgramOptions(&opts, "c.star", src, isPredeclared); err == nil {
			add("compiled", p)
		}
	}
	if p, ok := starlark.VerifProgramFromDump(rprogram(r.Split()), "syn"); ok {
		add("synthetic", p)
	}
	return
}

func buildCorrupt(r *hx.Rand, n int) []ccase {
	var cs []ccase
	minimal := false
	add := func(class string, data []byte, mustErr bool) {
		cs = append(cs, ccase{class, data, mustErr, minimal && len(data) <= 80})
	}
	files, names := baseFiles(r)
	for fi, file := range files {
		nm := names[fi]
		minimal = nm == "minimal"
		p, s := splitFile(file)
		// every strict prefix (sampled above 600 bytes)
		step := 1
		if len(file) > 600 {
			step = len(file)/600 + 1
		}
		for k := 0; k < len(file); k += step {
			add("prefix:"+nm, file[:k], true)
		}
		add("prefix:"+nm, file[:len(file)-1], true)
		// trailing garbage
		add("trailing-garbage", append(append([]byte{}, file...), 0), true)
		add("trailing-garbage", append(append([]byte{}, file...), 0xff, 0x01), true)
		// magic
		for i := 0; i < 4; i++ {
			m := append([]byte{}, file...)
			m[i] ^= byte(1 << uint(r.Intn(8)))
			add("magic", m, true)
		}
		// version
		sp := varintSpans(p)
		for _, v := range []int64{0, int64(starlark.VerifSerialVersion) - 1, int64(starlark.VerifSerialVersion) + 1, -1, 1 << 40, -(1 << 63)} {
			add("version", joinFile(replaceVarint(p, sp[0], v), s), true)
		}
		// offset field
		true_ := int64(8 + len(p))
		for _, off := range []int64{0, 1, 7, 8, 9, true_ - 1, true_ + 1, int64(len(file)) - 1, int64(len(file)), int64(len(file)) + 1, 1<<32 - 1, 1 << 31, 0x7fffffff} {
			if off < 0 || off == true_ {
				continue
			}
			m := append([]byte{}, file...)
			binary.LittleEndian.PutUint32(m[4:8], uint32(off))
			add("offset", m, off < 8 || off > int64(len(file)))
		}
		// program section shortened, strings kept
		for k := 1; k <= 3 && k < len(p); k++ {
			add("short-program-section", joinFile(p[:len(p)-k], s), false)
		}
		// string section shortened / lengthened is covered by prefix / trailing garbage
		// overlong varint in place of each of the first varints
		for k := 0; k < len(sp) && k < 12; k++ {
			over := append([]byte{}, p[:sp[k][0]]...)
			over = append(over, 0xff, 0xff, 0xff, 0xff, 0xff, 0xff, 0xff, 0xff, 0xff, 0xff, 0x01)
			over = append(over, p[sp[k][1]:]...)
			add("overlong-varint", joinFile(over, s), true)
		}
		// huge / negative values in place of every varint (for big files: a sample)
		for k := 1; k < len(sp); k++ {
			if len(sp) > 80 && r.Intn(len(sp)/80+1) != 0 {
				continue
			}
			for _, v := range hugeValues {
				add(fmt.Sprintf("huge:%s:%d", nm, v), joinFile(replaceVarint(p, sp[k], v), s), false)
			}
		}
	}
	minimal = true
	// tiny inputs
	for k := 0; k <= 9; k++ {
		b := append([]byte(starlark.VerifSerialMagic), 8, 0, 0, 0, 28)
		if k < len(b) {
			add("tiny", b[:k], true)
		}
	}
	add("tiny", []byte("!sky\x08\x00\x00\x00"), true)
	add("tiny", []byte("!sky\x09\x00\x00\x00\x1c"), false)
	// random flips
	for i := 0; i < n; i++ {
		fi := r.Intn(len(files))
		if i%4 == 0 {
			fi = 0
		}
		file := files[fi]
		minimal = names[fi] == "minimal"
		m := append([]byte{}, file...)
		for j := 0; j <= r.Intn(3); j++ {
			pos := r.Intn(len(m))
			if r.Bool() {
				m[pos] ^= byte(1 << uint(r.Intn(8)))
			} else {
				m[pos] = byte(r.Uint64())
			}
		}
		if string(m) == string(file) {
			continue
		}
		add("flip", m, false)
	}
	return cs
}

type corruptSummary struct {
	Kind     string         `json:"kind"` // "corrupt"
	Cases    int            `json:"cases"`
	ByClass  map[string]int `json:"by_class"`
	Outcomes map[string]int `json:"outcomes"`
}

// corruptCase: a small corrupted file and what DecodeProgram did with it, for
// the Coq model of the decoder to reproduce.
type corruptCase struct {
	Kind  string `json:"kind"` // "corrupt-case"
	Class string `json:"class"`
	Hex   string `json:"hex"`
	OK    bool   `json:"ok"` // decoded without error
}

type corruptFail struct {
	Kind  string `json:"kind"` // "corrupt-fail"
	Key   string `json:"key"`
	Class string `json:"class"`
	What  string `json:"what"`
	Hex   string `json:"hex"`
}

func classKey(class string) string {
	// huge:<file>:<value> -> huge ; prefix:<file> -> truncated
	if strings.HasPrefix(class, "huge:") {
		return "huge-length"
	}
	if strings.HasPrefix(class, "prefix:") {
		return "truncated"
	}
	return class
}

func modeCorrupt(seed uint64, n int) {
	r := hx.NewRand(seed ^ 0xbad)
	cs := buildCorrupt(r, n)
	sort.SliceStable(cs, func(i, j int) bool { return classKey(cs[i].class) < classKey(cs[j].class) })
	res := runCases(cs, 10*time.Second)
	sum := corruptSummary{Kind: "corrupt", Cases: len(cs), ByClass: map[string]int{}, Outcomes: map[string]int{}}
	seen := map[string]bool{}
	for i, c := range cs {
		ck := classKey(c.class)
		sum.ByClass[ck]++
		o := res[i].res
		word := o
		if sp := strings.IndexByte(o, ' '); sp > 0 {
			word = o[:sp]
		}
		sum.Outcomes[ck+":"+strings.TrimSpace(strings.SplitN(o+" ", " ", 3)[0]+" "+firstWord(o))]++
		if c.small && (word == "ok" || word == "err") {
			hx.Emit(corruptCase{Kind: "corrupt-case", Class: ck, Hex: hex.EncodeToString(c.data), OK: word == "ok"})
		}
		var key, what string
		switch word {
		case "ok":
			if c.mustErr {
				key, what = "decode:accepted:"+ck, "a "+ck+" file was decoded without an error"
			}
		case "err", "skipped":
		case "panic":
			key, what = "decode:panic:"+ck, "host panic escaped DecodeProgram / Write on a "+ck+" file: "+o
		case "hang":
			key, what = "decode:hang:"+ck, "DecodeProgram did not return on a "+ck+" file ("+c.class+"): "+o
		case "crash":
			key, what = "decode:fatal:"+ck, "the process died decoding a "+ck+" file ("+c.class+"): "+o
		default:
			key, what = "decode:unknown:"+ck, "no result for a "+ck+" file: "+o
		}
		if key != "" && !seen[key] {
			seen[key] = true
			hx.Emit(corruptFail{Kind: "corrupt-fail", Key: key, Class: c.class, What: what, Hex: hex.EncodeToString(c.data)})
		}
	}
	hx.Emit(sum)
}

func firstWord(o string) string {
	f := strings.Fields(o)
	if len(f) > 1 && (f[0] == "err") {
		return f[1]
	}
	return ""
}
