// c20: drives lib/proto through the Starlark-visible API on a message schema
// built programmatically (descriptorpb -> protodesc -> dynamicpb) and prints what
// was observed, one JSON object per line.
//
//	c20 -mode scalar [-small]          boundary grid: kind x position x value
//	c20 -mode hist -seed S -n N -len L random operation histories over message Node
//	c20 -mode replay -file ops.json    run exactly the given history (shrinking)
//	c20 -mode probe                    fixed scenarios for the suspected defects
package main

import (
	"encoding/hex"
	"encoding/json"
	"flag"
	"fmt"
	"math"
	"math/big"
	"os"
	"reflect"
	"sort"
	"strings"

	sproto "go.starlark.net/lib/proto"
	"go.starlark.net/starlark"
	"go.starlark.net/syntax"
	"google.golang.org/protobuf/proto"
	"google.golang.org/protobuf/reflect/protodesc"
	"google.golang.org/protobuf/reflect/protoreflect"
	"google.golang.org/protobuf/types/descriptorpb"

	"verifharness/internal/hx"
)

// ---------------------------------------------------------------- schema

type kindInfo struct {
	name string
	typ  descriptorpb.FieldDescriptorProto_Type
	key  bool // legal as a map key
}

var kinds = []kindInfo{
	{"bool", descriptorpb.FieldDescriptorProto_TYPE_BOOL, true},
	{"int32", descriptorpb.FieldDescriptorProto_TYPE_INT32, true},
	{"sint32", descriptorpb.FieldDescriptorProto_TYPE_SINT32, true},
	{"sfixed32", descriptorpb.FieldDescriptorProto_TYPE_SFIXED32, true},
	{"int64", descriptorpb.FieldDescriptorProto_TYPE_INT64, true},
	{"sint64", descriptorpb.FieldDescriptorProto_TYPE_SINT64, true},
	{"sfixed64", descriptorpb.FieldDescriptorProto_TYPE_SFIXED64, true},
	{"uint32", descriptorpb.FieldDescriptorProto_TYPE_UINT32, true},
	{"fixed32", descriptorpb.FieldDescriptorProto_TYPE_FIXED32, true},
	{"uint64", descriptorpb.FieldDescriptorProto_TYPE_UINT64, true},
	{"fixed64", descriptorpb.FieldDescriptorProto_TYPE_FIXED64, true},
	{"float", descriptorpb.FieldDescriptorProto_TYPE_FLOAT, false},
	{"double", descriptorpb.FieldDescriptorProto_TYPE_DOUBLE, false},
	{"string", descriptorpb.FieldDescriptorProto_TYPE_STRING, true},
	{"bytes", descriptorpb.FieldDescriptorProto_TYPE_BYTES, false},
}

func camel(s string) string {
	var b strings.Builder
	up := true
	for _, c := range s {
		if c == '_' {
			up = true
			continue
		}
		if up && c >= 'a' && c <= 'z' {
			c -= 32
		}
		up = false
		b.WriteRune(c)
	}
	return b.String()
}

type msgBuilder struct {
	full string
	m    *descriptorpb.DescriptorProto
	num  int32
}

func (b *msgBuilder) add(name string, typ descriptorpb.FieldDescriptorProto_Type, typeName string, repeated bool) {
	b.num++
	f := &descriptorpb.FieldDescriptorProto{
		Name:     proto.String(name),
		Number:   proto.Int32(b.num),
		Type:     typ.Enum(),
		Label:    descriptorpb.FieldDescriptorProto_LABEL_OPTIONAL.Enum(),
		JsonName: nil,
	}
	if repeated {
		f.Label = descriptorpb.FieldDescriptorProto_LABEL_REPEATED.Enum()
	}
	if typeName != "" {
		f.TypeName = proto.String(typeName)
	}
	b.m.Field = append(b.m.Field, f)
}

func (b *msgBuilder) addMap(name string, kt descriptorpb.FieldDescriptorProto_Type, vt descriptorpb.FieldDescriptorProto_Type, vtName string) {
	entry := camel(name) + "Entry"
	e := &descriptorpb.DescriptorProto{
		Name:    proto.String(entry),
		Options: &descriptorpb.MessageOptions{MapEntry: proto.Bool(true)},
	}
	eb := &msgBuilder{m: e}
	eb.add("key", kt, "", false)
	eb.add("value", vt, vtName, false)
	b.m.NestedType = append(b.m.NestedType, e)
	b.add(name, descriptorpb.FieldDescriptorProto_TYPE_MESSAGE, "."+b.full+"."+entry, true)
}

var (
	tDesc, nodeDesc protoreflect.MessageDescriptor
	eDesc, fDesc    protoreflect.EnumDescriptor
	xFile           protoreflect.FileDescriptor // proto2 file with an extendable message X and extensions
	xDesc           protoreflect.MessageDescriptor
	node2Desc       protoreflect.MessageDescriptor // look-alike: c20.Node from ANOTHER pool, different definition
	e2Desc          protoreflect.EnumDescriptor    // look-alike: c20.E from another pool (B = 2)
)

// buildExtras: (1) a proto2 file with an extendable message and scalar / message / repeated
// extensions; (2) a second descriptor pool declaring c20.Node and c20.E again, differently.
func buildExtras() {
	opt := descriptorpb.FieldDescriptorProto_LABEL_OPTIONAL.Enum()
	rep := descriptorpb.FieldDescriptorProto_LABEL_REPEATED.Enum()
	ext := func(name string, num int32, typ descriptorpb.FieldDescriptorProto_Type, label *descriptorpb.FieldDescriptorProto_Label, tn string) *descriptorpb.FieldDescriptorProto {
		f := &descriptorpb.FieldDescriptorProto{Name: proto.String(name), Number: proto.Int32(num), Type: typ.Enum(), Label: label, Extendee: proto.String(".c20x.X")}
		if tn != "" {
			f.TypeName = proto.String(tn)
		}
		return f
	}
	const ti64 = descriptorpb.FieldDescriptorProto_TYPE_INT64
	const tstr = descriptorpb.FieldDescriptorProto_TYPE_STRING
	const tmsg = descriptorpb.FieldDescriptorProto_TYPE_MESSAGE
	X := &descriptorpb.DescriptorProto{
		Name: proto.String("X"),
		Field: []*descriptorpb.FieldDescriptorProto{
			{Name: proto.String("v"), Number: proto.Int32(1), Type: ti64.Enum(), Label: opt},
			{Name: proto.String("s"), Number: proto.Int32(2), Type: tstr.Enum(), Label: opt},
		},
		ExtensionRange: []*descriptorpb.DescriptorProto_ExtensionRange{{Start: proto.Int32(100), End: proto.Int32(200)}},
	}
	fd := &descriptorpb.FileDescriptorProto{
		Name: proto.String("c20x.proto"), Package: proto.String("c20x"), Syntax: proto.String("proto2"),
		MessageType: []*descriptorpb.DescriptorProto{X},
		Extension: []*descriptorpb.FieldDescriptorProto{
			ext("ext_s", 100, tstr, opt, ""), ext("ext_i", 101, ti64, opt, ""), ext("ext_m", 102, tmsg, opt, ".c20x.X"),
			ext("ext_r", 103, ti64, rep, ""), ext("ext_rm", 104, tmsg, rep, ".c20x.X"),
		},
	}
	f, err := protodesc.NewFile(fd, nil)
	if err != nil {
		panic(err)
	}
	xFile, xDesc = f, f.Messages().ByName("X")

	N := &msgBuilder{full: "c20.Node", m: &descriptorpb.DescriptorProto{Name: proto.String("Node")}}
	N.add("v", tstr, "", false) // string where the real Node declares int64
	N.add("s", ti64, "", false) // int64 where the real Node declares string
	N.add("sub", tmsg, ".c20.Node", false)
	N.add("ri", ti64, "", true)
	N.add("rm", tmsg, ".c20.Node", true)
	N.addMap("mi", tstr, ti64, "")
	N.addMap("mm", tstr, tmsg, ".c20.Node")
	ev := func(n string, i int32) *descriptorpb.EnumValueDescriptorProto {
		return &descriptorpb.EnumValueDescriptorProto{Name: proto.String(n), Number: proto.Int32(i)}
	}
	fd2 := &descriptorpb.FileDescriptorProto{
		Name: proto.String("c20.proto"), Package: proto.String("c20"), Syntax: proto.String("proto3"),
		EnumType:    []*descriptorpb.EnumDescriptorProto{{Name: proto.String("E"), Value: []*descriptorpb.EnumValueDescriptorProto{ev("A", 0), ev("B", 7), ev("C", 5), ev("D", 9)}}},
		MessageType: []*descriptorpb.DescriptorProto{N.m},
	}
	f2, err := protodesc.NewFile(fd2, nil)
	if err != nil {
		panic(err)
	}
	node2Desc, e2Desc = f2.Messages().ByName("Node"), f2.Enums().ByName("E")
}

func buildSchema() {
	const tmsg = descriptorpb.FieldDescriptorProto_TYPE_MESSAGE
	const tenum = descriptorpb.FieldDescriptorProto_TYPE_ENUM
	const tstr = descriptorpb.FieldDescriptorProto_TYPE_STRING
	const ti64 = descriptorpb.FieldDescriptorProto_TYPE_INT64
	T := &msgBuilder{full: "c20.T", m: &descriptorpb.DescriptorProto{Name: proto.String("T")}}
	for _, k := range kinds {
		T.add("s_"+k.name, k.typ, "", false)
		T.add("r_"+k.name, k.typ, "", true)
		T.addMap("mv_"+k.name, tstr, k.typ, "")
		if k.key {
			T.addMap("mk_"+k.name, k.typ, ti64, "")
		}
	}
	T.add("s_enum", tenum, ".c20.E", false)
	T.add("r_enum", tenum, ".c20.E", true)
	T.addMap("mv_enum", tstr, tenum, ".c20.E")
	T.add("r_enumf", tenum, ".c20.F", true)
	T.addMap("mv_enumf", tstr, tenum, ".c20.F")
	T.add("s_msg", tmsg, ".c20.T", false)
	T.add("r_msg", tmsg, ".c20.T", true)
	T.addMap("mv_msg", tstr, tmsg, ".c20.T")
	N := &msgBuilder{full: "c20.Node", m: &descriptorpb.DescriptorProto{Name: proto.String("Node")}}
	N.add("v", ti64, "", false)
	N.add("s", tstr, "", false)
	N.add("sub", tmsg, ".c20.Node", false)
	N.add("ri", ti64, "", true)
	N.add("rm", tmsg, ".c20.Node", true)
	N.addMap("mi", tstr, ti64, "")
	N.addMap("mm", tstr, tmsg, ".c20.Node")
	ev := func(n string, i int32) *descriptorpb.EnumValueDescriptorProto {
		return &descriptorpb.EnumValueDescriptorProto{Name: proto.String(n), Number: proto.Int32(i)}
	}
	fd := &descriptorpb.FileDescriptorProto{
		Name:    proto.String("c20.proto"),
		Package: proto.String("c20"),
		Syntax:  proto.String("proto3"),
		EnumType: []*descriptorpb.EnumDescriptorProto{
			// numbers with gaps, out of declaration order and negative: the declaration index of a value is not its number
			{Name: proto.String("E"), Value: []*descriptorpb.EnumValueDescriptorProto{ev("A", 0), ev("B", 2), ev("C", 5), ev("D", 1), ev("G", 3), ev("N", -2)}},
			{Name: proto.String("F"), Value: []*descriptorpb.EnumValueDescriptorProto{ev("X", 0), ev("Y", 3), ev("Z", 1)}},
		},
		MessageType: []*descriptorpb.DescriptorProto{T.m, N.m},
	}
	file, err := protodesc.NewFile(fd, nil)
	if err != nil {
		panic(err)
	}
	tDesc = file.Messages().ByName("T")
	nodeDesc = file.Messages().ByName("Node")
	eDesc = file.Enums().ByName("E")
	fDesc = file.Enums().ByName("F")
}

// ---------------------------------------------------------------- descriptors of values

type V struct {
	T    string  `json:"t"`
	B    bool    `json:"b,omitempty"`
	Z    string  `json:"z,omitempty"`
	Bits string  `json:"bits,omitempty"`
	Hex  *string `json:"hex,omitempty"`
	E    string  `json:"e,omitempty"`
	N    *int    `json:"n,omitempty"`
	Ty   string  `json:"ty,omitempty"`
	L    []V     `json:"l,omitempty"`
}

func hexs(s string) *string { h := hex.EncodeToString([]byte(s)); return &h }

func describe(v starlark.Value) V {
	switch v := v.(type) {
	case starlark.NoneType:
		return V{T: "none"}
	case starlark.Bool:
		return V{T: "bool", B: bool(v)}
	case starlark.Int:
		return V{T: "int", Z: v.String()}
	case starlark.Float:
		return V{T: "float", Bits: fmt.Sprint(math.Float64bits(float64(v)))}
	case starlark.String:
		return V{T: "str", Hex: hexs(string(v))}
	case starlark.Bytes:
		return V{T: "bytes", Hex: hexs(string(v))}
	case sproto.EnumValueDescriptor:
		n := int(v.Desc.Number())
		return V{T: "enum", E: string(v.Desc.Parent().Name()), N: &n}
	case *sproto.Message:
		return V{T: "msg", Ty: string(v.Message().ProtoReflect().Descriptor().Name())}
	case *starlark.List:
		var l []V
		for i := 0; i < v.Len(); i++ {
			l = append(l, describe(v.Index(i)))
		}
		return V{T: "list", L: l}
	}
	return V{T: "other", Ty: v.Type()}
}

type sval struct {
	v starlark.Value
	d V
}

func sv(v starlark.Value) sval { return sval{v, describe(v)} }

func bigi(s string) starlark.Int {
	z, ok := new(big.Int).SetString(s, 0)
	if !ok {
		panic(s)
	}
	return starlark.MakeBigInt(z)
}

func enumVal(d protoreflect.EnumDescriptor, n int32) starlark.Value {
	return sproto.EnumValueDescriptor{Desc: d.Values().ByNumber(protoreflect.EnumNumber(n))}
}

func p2(k uint) *big.Int { return new(big.Int).Lsh(big.NewInt(1), k) }

// candidate values for a kind (boundary values, wrong types, None)
func candidates(k string, small bool) []sval {
	var out []sval
	long := 300
	if small {
		long = 20
	}
	addz := func(zs ...*big.Int) {
		for _, z := range zs {
			out = append(out, sv(starlark.MakeBigInt(z)))
		}
	}
	wrong := func() {
		out = append(out, sv(starlark.None), sv(starlark.True), sv(starlark.Float(1.0)), sv(starlark.String("1")), sv(starlark.Bytes("1")),
			sv(starlark.NewList([]starlark.Value{starlark.MakeInt(1)})), sv(enumVal(eDesc, 1)))
	}
	intRange := func(lo, hi *big.Int) {
		one := big.NewInt(1)
		addz(new(big.Int).Sub(lo, one), lo, new(big.Int).Add(lo, one), big.NewInt(-1), big.NewInt(0), big.NewInt(1),
			new(big.Int).Sub(hi, one), hi, new(big.Int).Add(hi, one))
		if !small {
			addz(p2(31), p2(32), p2(63), p2(64), new(big.Int).Neg(new(big.Int).Add(p2(63), one)), new(big.Int).Sub(p2(31), one), new(big.Int).Neg(p2(31)), new(big.Int).Sub(p2(32), one),
				new(big.Int).Sub(p2(63), one), new(big.Int).Neg(p2(63)), new(big.Int).Sub(p2(64), one), p2(100), new(big.Int).Neg(p2(100)))
		}
		wrong()
	}
	switch k {
	case "int32", "sint32", "sfixed32":
		intRange(new(big.Int).Neg(p2(31)), new(big.Int).Sub(p2(31), big.NewInt(1)))
	case "int64", "sint64", "sfixed64":
		intRange(new(big.Int).Neg(p2(63)), new(big.Int).Sub(p2(63), big.NewInt(1)))
	case "uint32", "fixed32":
		intRange(big.NewInt(0), new(big.Int).Sub(p2(32), big.NewInt(1)))
	case "uint64", "fixed64":
		intRange(big.NewInt(0), new(big.Int).Sub(p2(64), big.NewInt(1)))
	case "bool":
		out = append(out, sv(starlark.True), sv(starlark.False), sv(starlark.MakeInt(0)), sv(starlark.MakeInt(1)), sv(starlark.None), sv(starlark.String("x")), sv(starlark.Float(1)))
	case "string":
		out = append(out, sv(starlark.String("")), sv(starlark.String("abc")), sv(starlark.String(strings.Repeat("x", long))), sv(starlark.String("h\u00e9\u4e16")),
			sv(starlark.String("\xff\xfe")), sv(starlark.Bytes("abc")), sv(starlark.Bytes("")), sv(starlark.MakeInt(1)), sv(starlark.None), sv(starlark.True))
	case "bytes":
		out = append(out, sv(starlark.Bytes("")), sv(starlark.Bytes("\x00\xff")), sv(starlark.Bytes(strings.Repeat("y", long))), sv(starlark.String("abc")), sv(starlark.String("\xff")),
			sv(starlark.MakeInt(1)), sv(starlark.None), sv(starlark.True))
	case "float", "double":
		out = append(out, sv(starlark.Float(0)), sv(starlark.Float(math.Copysign(0, -1))), sv(starlark.Float(1.5)), sv(starlark.Float(1e300)), sv(starlark.Float(math.NaN())),
			sv(starlark.Float(math.Inf(1))), sv(starlark.Float(0.1)), sv(starlark.MakeInt(1)), sv(starlark.MakeBigInt(new(big.Int).Add(p2(53), big.NewInt(1)))), sv(starlark.MakeBigInt(p2(1100))),
			sv(starlark.String("1")), sv(starlark.None), sv(starlark.True))
	case "enum":
		for _, n := range []int32{0, 2, 5, 1, 3, -2} {
			out = append(out, sv(enumVal(eDesc, n)))
		}
		out = append(out, sv(enumVal(fDesc, 1)), sv(enumVal(fDesc, 3)))
		for _, n := range []int{0, 1, 2, 3, 4, 5, 6, -1, -2, -3} {
			out = append(out, sv(starlark.MakeInt(n)))
		}
		for _, nm := range []string{"A", "B", "C", "D", "G", "N", "Z", "X"} {
			out = append(out, sv(starlark.String(nm)))
		}
		out = append(out,
			sv(starlark.MakeBigInt(p2(31))), sv(starlark.MakeBigInt(p2(40))),
			sv(starlark.Float(1)), sv(starlark.None), sv(starlark.True))
	}
	return out
}

// two valid values of a kind (prefill)
func valid(k string) (starlark.Value, starlark.Value) {
	switch k {
	case "bool":
		return starlark.True, starlark.False
	case "string":
		return starlark.String("p"), starlark.String("q")
	case "bytes":
		return starlark.Bytes("p"), starlark.Bytes("q")
	case "float", "double":
		return starlark.Float(2.5), starlark.Float(-4)
	case "enum":
		return enumVal(eDesc, 1), enumVal(eDesc, 5)
	}
	return starlark.MakeInt(7), starlark.MakeInt(9)
}

// ---------------------------------------------------------------- running Starlark

var thread = &starlark.Thread{Name: "c20"}

func baseEnv() starlark.StringDict {
	return starlark.StringDict{
		"T": sproto.MessageDescriptor{Desc: tDesc}, "Node": sproto.MessageDescriptor{Desc: nodeDesc},
		"E": sproto.EnumDescriptor{Desc: eDesc}, "F": sproto.EnumDescriptor{Desc: fDesc}, "proto": sproto.Module,
		"X": sproto.MessageDescriptor{Desc: xDesc}, "XF": sproto.FileDescriptor{Desc: xFile},
		"Node2": sproto.MessageDescriptor{Desc: node2Desc}, "E2": sproto.EnumDescriptor{Desc: e2Desc},
	}
}

// exec runs statements; returns class ok / err / panic
func exec(src string, env starlark.StringDict) (out string, msg string) {
	defer func() {
		if e := recover(); e != nil {
			out, msg = "panic", fmt.Sprint(e)
		}
	}()
	_, err := starlark.ExecFileOptions(&syntax.FileOptions{}, thread, "op.star", src, env)
	if err != nil {
		return "err", err.Error()
	}
	return "ok", ""
}

func eval(src string, env starlark.StringDict) (v starlark.Value, out string, msg string) {
	defer func() {
		if e := recover(); e != nil {
			v, out, msg = nil, "panic", fmt.Sprint(e)
		}
	}()
	v, err := starlark.Eval(thread, "e.star", src, env)
	if err != nil {
		return nil, "err", err.Error()
	}
	return v, "ok", ""
}

func with(env starlark.StringDict, kv ...any) starlark.StringDict {
	e := starlark.StringDict{}
	for k, v := range env {
		e[k] = v
	}
	for i := 0; i+1 < len(kv); i += 2 {
		e[kv[i].(string)] = kv[i+1].(starlark.Value)
	}
	return e
}

// content of a whole field read through the Starlark-visible wrappers
func fieldContent(m starlark.Value, name string) (res []any) {
	defer func() {
		if e := recover(); e != nil {
			res = []any{map[string]string{"t": "panic", "msg": fmt.Sprint(e)}}
		}
	}()
	v, err := m.(starlark.HasAttrs).Attr(name)
	if err != nil || v == nil {
		return []any{map[string]string{"t": "attr-error"}}
	}
	switch x := v.(type) {
	case *sproto.RepeatedField:
		out := []any{}
		for i := 0; i < x.Len(); i++ {
			out = append(out, describe(x.Index(i)))
		}
		return out
	case *sproto.MapField:
		out := []any{}
		for _, kv := range x.Items() {
			out = append(out, []V{describe(kv[0]), describe(kv[1])})
		}
		return out
	}
	return []any{describe(v)}
}

func roundTrip(m starlark.Value, name string, text bool) (res []any, errc string) {
	defer func() {
		if e := recover(); e != nil {
			res, errc = nil, "panic"
		}
	}()
	mar, unm := "proto.marshal", "proto.unmarshal"
	if text {
		mar, unm = "proto.marshal_text", "proto.unmarshal_text"
	}
	env := with(baseEnv(), "m", m)
	data, out, _ := eval(mar+"(m)", env)
	if out != "ok" {
		return nil, "marshal-" + out
	}
	m2, out, _ := eval(unm+"(T, d)", with(env, "d", data))
	if out != "ok" {
		return nil, "unmarshal-" + out
	}
	return fieldContent(m2, name), ""
}

// ---------------------------------------------------------------- mode scalar

func modeScalar(small bool) {
	env := baseEnv()
	allKinds := []string{}
	for _, k := range kinds {
		allKinds = append(allKinds, k.name)
	}
	allKinds = append(allKinds, "enum")
	isKey := map[string]bool{}
	for _, k := range kinds {
		isKey[k.name] = k.key
	}
	positions := []string{"singular", "ctor", "rep_append", "rep_setindex", "rep_assign", "map_value", "map_assign", "map_key"}
	for _, k := range allKinds {
		v0, v1 := valid(k)
		for _, pos := range positions {
			if pos == "map_key" && !isKey[k] {
				continue
			}
			for _, c := range candidates(k, small) {
				newT := func() starlark.Value {
					m, out, msg := eval("T()", env)
					if out != "ok" {
						panic(msg)
					}
					return m
				}
				m := newT()
				var field, src string
				e := with(env, "m", m, "val", c.v, "v0", v0, "v1", v1)
				pre := ""
				switch pos {
				case "singular":
					field, src = "s_"+k, "m.s_"+k+" = val"
				case "ctor":
					field = "s_" + k
				case "rep_append":
					field, pre, src = "r_"+k, "m.r_"+k+" = [v0, v1]", "m.r_"+k+".append(val)"
				case "rep_setindex":
					field, pre, src = "r_"+k, "m.r_"+k+" = [v0, v1]", "m.r_"+k+"[1] = val"
				case "rep_assign":
					field, pre, src = "r_"+k, "m.r_"+k+" = [v0]", "m.r_"+k+" = [v1, val]"
				case "map_value":
					field, pre, src = "mv_"+k, "m.mv_"+k+" = {'k': v0, 'z': v1}", "m.mv_"+k+"['k'] = val"
				case "map_assign":
					field, pre, src = "mv_"+k, "m.mv_"+k+" = {'k': v0}", "m.mv_"+k+" = {'a': val}"
				case "map_key":
					field, pre, src = "mk_"+k, "m.mk_"+k+" = {v0: 1}", "m.mk_"+k+"[val] = 7"
				}
				if pre != "" {
					if out, msg := exec(pre, e); out != "ok" {
						panic("prefill failed: " + pre + ": " + msg)
					}
				}
				before := fieldContent(m, field)
				var out, msg string
				if pos == "ctor" {
					var m2 starlark.Value
					m2, out, msg = eval("T(s_"+k+" = val)", e)
					if out == "ok" {
						m = m2
					}
				} else {
					out, msg = exec(src, e)
				}
				rec := map[string]any{"kind": "scalar", "fk": k, "pos": pos, "val": c.d, "out": out, "before": before, "msg": msg}
				switch pos {
				case "rep_assign":
					rec["aux"] = []V{describe(v1)}
				case "map_value":
					rec["aux"] = []V{describe(starlark.String("k"))}
				case "map_assign":
					rec["aux"] = []V{describe(starlark.String("a"))}
				case "map_key":
					rec["aux"] = []V{describe(starlark.MakeInt(7))}
				}
				if out == "panic" {
					rec["after"] = nil
				} else {
					rec["after"] = fieldContent(m, field)
					rb, eb := roundTrip(m, field, false)
					rt, et := roundTrip(m, field, true)
					rec["rt_bin"], rec["rt_text"] = rb, rt
					rec["rt_err"] = strings.TrimSpace(eb + " " + et)
				}
				hx.Emit(rec)
			}
		}
	}
}

// modeViews: m.r_K = o.r_K2 and m.mv_K = o.mv_K2 for every pair of kinds, the value being a
// proto.repeated / proto.map VIEW of another message's field (not a list / dict): the
// elements must go through the same per-kind validation as any other value.
func modeViews() {
	env := baseEnv()
	srcs := []string{}
	for _, k := range kinds {
		srcs = append(srcs, k.name)
	}
	srcs = append(srcs, "enum", "enumf")
	dsts := append([]string{}, srcs[:len(srcs)-1]...)
	// values valid for the SOURCE kind (boundaries of its own range)
	srcVals := func(k string) [][]starlark.Value {
		b := func(s string) starlark.Value { return bigi(s) }
		switch k {
		case "int32", "sint32", "sfixed32":
			return [][]starlark.Value{{b("-2147483648"), b("2147483647")}, {b("7"), b("0")}}
		case "int64", "sint64", "sfixed64":
			return [][]starlark.Value{{b("-9223372036854775808"), b("9223372036854775807")}, {b("7"), b("-1")}, {b("4294967295"), b("5")}}
		case "uint32", "fixed32":
			return [][]starlark.Value{{b("0"), b("4294967295")}, {b("1"), b("5")}}
		case "uint64", "fixed64":
			return [][]starlark.Value{{b("0"), b("18446744073709551615")}, {b("1"), b("5")}}
		case "bool":
			return [][]starlark.Value{{starlark.True, starlark.False}}
		case "string":
			return [][]starlark.Value{{starlark.String("A"), starlark.String("xyz")}, {starlark.String("C")}}
		case "bytes":
			return [][]starlark.Value{{starlark.Bytes("B"), starlark.Bytes("\x00\xff")}}
		case "float", "double":
			return [][]starlark.Value{{starlark.Float(1.5), starlark.Float(5)}, {starlark.Float(1)}}
		case "enum":
			return [][]starlark.Value{{enumVal(eDesc, 5), enumVal(eDesc, 1)}, {enumVal(eDesc, 0)}, {enumVal(eDesc, 2), enumVal(eDesc, -2), enumVal(eDesc, 3)}}
		case "enumf":
			return [][]starlark.Value{{enumVal(fDesc, 1), enumVal(fDesc, 0)}, {enumVal(fDesc, 3)}}
		}
		return nil
	}
	for _, dk := range dsts {
		v0, _ := valid(dk)
		for _, sk := range srcs {
			for _, vals := range srcVals(sk) {
				for _, pos := range []string{"rep_assign_view", "map_assign_view"} {
					m, _, _ := eval("T()", env)
					o, _, _ := eval("T()", env)
					e := with(env, "m", m, "o", o, "v0", v0, "vals", starlark.NewList(vals), "val", vals[len(vals)-1])
					var field, pre, src string
					var aux []V
					if pos == "rep_assign_view" {
						field, pre, src = "r_"+dk, "m.r_"+dk+" = [v0]\no.r_"+sk+" = vals", "m.r_"+dk+" = o.r_"+sk
						for _, x := range vals[:len(vals)-1] {
							aux = append(aux, describe(x))
						}
					} else {
						field, pre, src = "mv_"+dk, "m.mv_"+dk+" = {'k': v0}\no.mv_"+sk+" = {'a': val}", "m.mv_"+dk+" = o.mv_"+sk
						aux = []V{describe(starlark.String("a"))}
					}
					if out, msg := exec(pre, e); out != "ok" {
						panic("prefill failed: " + pre + ": " + msg)
					}
					before := fieldContent(m, field)
					out, msg := exec(src, e)
					rec := map[string]any{"kind": "scalar", "fk": dk, "pos": pos, "src": sk, "val": describe(vals[len(vals)-1]), "aux": aux,
						"out": out, "before": before, "msg": msg}
					if out == "panic" {
						rec["after"] = nil
					} else {
						rec["after"] = fieldContent(m, field)
						rb, eb := roundTrip(m, field, false)
						rt, et := roundTrip(m, field, true)
						rec["rt_bin"], rec["rt_text"] = rb, rt
						rec["rt_err"] = strings.TrimSpace(eb + " " + et)
					}
					hx.Emit(rec)
				}
			}
		}
	}
}

// ---------------------------------------------------------------- histories over Node

type Op struct {
	Op  string  `json:"op"`
	I   int     `json:"i"`
	J   int     `json:"j,omitempty"`
	K   int     `json:"k,omitempty"`
	N   int64   `json:"n,omitempty"`
	Key string  `json:"key,omitempty"`
	S   string  `json:"s,omitempty"`
	L   []int64 `json:"l,omitempty"`
	Via int     `json:"via,omitempty"` // access path of GetSub / GetRM / GetMM (0: x.f, x.f[k], x.f[key])
}

const nvars = 4

type state struct {
	x [nvars]starlark.Value
}

func (st *state) env(extra ...any) starlark.StringDict {
	e := baseEnv()
	for i, v := range st.x {
		if v != nil {
			e[fmt.Sprintf("x%d", i)] = v
		}
	}
	return with(e, extra...)
}

type Dump struct {
	V   string    `json:"v"`
	S   string    `json:"s"`
	Sub *Dump     `json:"sub"`
	RI  []string  `json:"ri"`
	RM  []*Dump   `json:"rm"`
	MI  [][2]string `json:"mi"`
	MM  []MMEntry `json:"mm"`
}
type MMEntry struct {
	K string `json:"k"`
	D *Dump  `json:"d"`
}

func attr(m starlark.Value, name string) starlark.Value {
	v, err := m.(starlark.HasAttrs).Attr(name)
	if err != nil {
		panic(err)
	}
	return v
}

func hasField(m starlark.Value, name string) bool {
	return m.(*sproto.Message).Message().ProtoReflect().Has(m.(*sproto.Message).Message().ProtoReflect().Descriptor().Fields().ByName(protoreflect.Name(name)))
}

func dump(m starlark.Value, depth int) *Dump {
	if depth > 40 {
		panic("dump: too deep (cycle?)")
	}
	d := &Dump{RI: []string{}, RM: []*Dump{}, MI: [][2]string{}, MM: []MMEntry{}}
	d.V = attr(m, "v").(starlark.Int).String()
	d.S = hex.EncodeToString([]byte(string(attr(m, "s").(starlark.String))))
	if hasField(m, "sub") {
		d.Sub = dump(attr(m, "sub"), depth+1)
	}
	ri := attr(m, "ri").(*sproto.RepeatedField)
	for i := 0; i < ri.Len(); i++ {
		d.RI = append(d.RI, ri.Index(i).(starlark.Int).String())
	}
	rm := attr(m, "rm").(*sproto.RepeatedField)
	for i := 0; i < rm.Len(); i++ {
		d.RM = append(d.RM, dump(rm.Index(i), depth+1))
	}
	for _, kv := range attr(m, "mi").(*sproto.MapField).Items() {
		d.MI = append(d.MI, [2]string{hex.EncodeToString([]byte(string(kv[0].(starlark.String)))), kv[1].(starlark.Int).String()})
	}
	for _, kv := range attr(m, "mm").(*sproto.MapField).Items() {
		d.MM = append(d.MM, MMEntry{hex.EncodeToString([]byte(string(kv[0].(starlark.String)))), dump(kv[1], depth+1)})
	}
	return d
}

func pm(v starlark.Value) protoreflect.Message { return v.(*sproto.Message).Message().ProtoReflect() }

// reachable reports whether target is reachable from m (including m itself)
func reachable(m, target protoreflect.Message, depth int) bool {
	if m == target {
		return true
	}
	if depth > 60 {
		return true
	}
	found := false
	m.Range(func(fd protoreflect.FieldDescriptor, v protoreflect.Value) bool {
		switch {
		case fd.IsList() && fd.Message() != nil:
			l := v.List()
			for i := 0; i < l.Len() && !found; i++ {
				found = reachable(l.Get(i).Message(), target, depth+1)
			}
		case fd.IsMap() && fd.MapValue().Message() != nil:
			v.Map().Range(func(_ protoreflect.MapKey, mv protoreflect.Value) bool {
				found = found || reachable(mv.Message(), target, depth+1)
				return !found
			})
		case fd.Message() != nil && !fd.IsMap() && !fd.IsList():
			found = reachable(v.Message(), target, depth+1)
		}
		return !found
	})
	return found
}

// hasCycle reports whether some message is reachable from itself.
func hasCycle(m protoreflect.Message, stack []protoreflect.Message) bool {
	for _, s := range stack {
		if s == m {
			return true
		}
	}
	stack = append(stack, m)
	found := false
	m.Range(func(fd protoreflect.FieldDescriptor, v protoreflect.Value) bool {
		switch {
		case fd.IsList() && fd.Message() != nil:
			l := v.List()
			for i := 0; i < l.Len() && !found; i++ {
				found = hasCycle(l.Get(i).Message(), stack)
			}
		case fd.IsMap() && fd.MapValue().Message() != nil:
			v.Map().Range(func(_ protoreflect.MapKey, mv protoreflect.Value) bool {
				found = found || hasCycle(mv.Message(), stack)
				return !found
			})
		case fd.Message() != nil && !fd.IsMap() && !fd.IsList():
			found = hasCycle(v.Message(), stack)
		}
		return !found
	})
	return found
}

func (st *state) cyclic() bool {
	for _, v := range st.x {
		if v != nil && hasCycle(pm(v), nil) {
			return true
		}
	}
	return false
}

// srcMsgs: the messages an op would store into x_i's graph
func (st *state) wouldCycle(op Op) bool {
	if st.x[op.I] == nil {
		return false
	}
	tgt := pm(st.x[op.I])
	var srcs []protoreflect.Message
	switch op.Op {
	case "SetSub", "AppendRM", "SetMM", "AssignRMList", "AssignMMDict":
		if st.x[op.J] == nil {
			return false
		}
		srcs = append(srcs, pm(st.x[op.J]))
	case "AssignRM":
		if st.x[op.J] == nil {
			return false
		}
		l := pm(st.x[op.J]).Get(nodeDesc.Fields().ByName("rm")).List()
		for i := 0; i < l.Len(); i++ {
			srcs = append(srcs, l.Get(i).Message())
		}
	case "AssignMM":
		if st.x[op.J] == nil {
			return false
		}
		pm(st.x[op.J]).Get(nodeDesc.Fields().ByName("mm")).Map().Range(func(_ protoreflect.MapKey, v protoreflect.Value) bool {
			srcs = append(srcs, v.Message())
			return true
		})
	}
	for _, s := range srcs {
		if reachable(s, tgt, 0) {
			return true
		}
	}
	return false
}

// apply executes one op; class ok / err / panic / skip
func (st *state) apply(op Op) (out string, msg string) {
	defer func() {
		if e := recover(); e != nil {
			out, msg = "panic", fmt.Sprint(e)
		}
	}()
	xi, xj := fmt.Sprintf("x%d", op.I), fmt.Sprintf("x%d", op.J)
	need := func(vars ...int) bool {
		for _, v := range vars {
			if v < 0 || v >= nvars || st.x[v] == nil {
				return false
			}
		}
		return true
	}
	bind := func(src string, deps ...int) (string, string) {
		if op.I < 0 || op.I >= nvars || !need(deps...) {
			return "skip", ""
		}
		v, out, msg := eval(src, st.env())
		if out == "ok" {
			if _, isMsg := v.(*sproto.Message); !isMsg {
				return "err", "not a message"
			}
			st.x[op.I] = v
		}
		return out, msg
	}
	stmt := func(src string, extra []any, deps ...int) (string, string) {
		if !need(deps...) {
			return "skip", ""
		}
		if st.wouldCycle(op) {
			return "skip", "would create a cycle"
		}
		return exec(src, st.env(extra...))
	}
	s, _ := hex.DecodeString(op.S)
	switch op.Op {
	case "New":
		return bind("Node()")
	case "Copy":
		return bind("Node("+xj+")", op.J)
	case "GetSub":
		if op.Via == 1 {
			return bind("proto.get_field("+xj+", Node.sub)", op.J)
		}
		return bind(xj+".sub", op.J)
	case "GetRM":
		switch op.Via {
		case 1:
			return bind(fmt.Sprintf("list(%s.rm)[%d]", xj, op.K), op.J)
		case 2:
			return bind(fmt.Sprintf("[e for e in proto.get_field(%s, Node.rm)][%d]", xj, op.K), op.J)
		}
		return bind(fmt.Sprintf("%s.rm[%d]", xj, op.K), op.J)
	case "GetMM":
		switch op.Via {
		case 1:
			return bind(fmt.Sprintf("dict(%s.mm)[%q]", xj, op.Key), op.J)
		case 2:
			return bind(fmt.Sprintf("[%s.mm[k] for k in %s.mm if k == %q][0]", xj, xj, op.Key), op.J)
		}
		return bind(fmt.Sprintf("%s.mm[%q]", xj, op.Key), op.J)
	case "SetV":
		return stmt(fmt.Sprintf("%s.v = %d", xi, op.N), nil, op.I)
	case "SetS":
		return stmt(xi+".s = sv", []any{"sv", starlark.String(s)}, op.I)
	case "SetSub":
		return stmt(xi+".sub = "+xj, nil, op.I, op.J)
	case "ClearSub":
		return stmt(xi+".sub = None", nil, op.I)
	case "AppendRI":
		return stmt(fmt.Sprintf("%s.ri.append(%d)", xi, op.N), nil, op.I)
	case "SetRI":
		return stmt(fmt.Sprintf("%s.ri[%d] = %d", xi, op.K, op.N), nil, op.I)
	case "AssignRI":
		return stmt(xi+".ri = "+xj+".ri", nil, op.I, op.J)
	case "AssignRIList":
		var els []starlark.Value
		for _, n := range op.L {
			els = append(els, starlark.MakeInt64(n))
		}
		return stmt(xi+".ri = lv", []any{"lv", starlark.NewList(els)}, op.I)
	case "AppendRM":
		return stmt(xi+".rm.append("+xj+")", nil, op.I, op.J)
	case "AssignRM":
		return stmt(xi+".rm = "+xj+".rm", nil, op.I, op.J)
	case "SetMI":
		return stmt(fmt.Sprintf("%s.mi[%q] = %d", xi, op.Key, op.N), nil, op.I)
	case "SetMM":
		return stmt(fmt.Sprintf("%s.mm[%q] = %s", xi, op.Key, xj), nil, op.I, op.J)
	case "AssignMM":
		return stmt(xi+".mm = "+xj+".mm", nil, op.I, op.J)
	case "AssignMI":
		return stmt(xi+".mi = "+xj+".mi", nil, op.I, op.J)
	case "AssignRMList":
		return stmt(xi+".rm = ["+xj+"]", nil, op.I, op.J)
	case "AssignMIDict":
		return stmt(fmt.Sprintf("%s.mi = {%q: %d}", xi, op.Key, op.N), nil, op.I)
	case "AssignMMDict":
		return stmt(fmt.Sprintf("%s.mm = {%q: %s}", xi, op.Key, xj), nil, op.I, op.J)
	case "Freeze":
		if !need(op.I) {
			return "skip", ""
		}
		st.x[op.I].Freeze()
		return "ok", ""
	}
	return "skip", "unknown op"
}

func marshalBytes(v starlark.Value) string {
	b, err := proto.MarshalOptions{Deterministic: true}.Marshal(v.(*sproto.Message).Message())
	if err != nil {
		return "ERR"
	}
	return hex.EncodeToString(b)
}

func runHistory(id int, ops []Op) map[string]any {
	st := &state{}
	var res []string
	var dumps []map[string]*Dump
	var frozenLog [][]int
	type fz struct {
		at   int
		dump string
		wire string
	}
	frozen := map[int]*fz{}
	var violation map[string]any
	for t, op := range ops {
		out, _ := st.apply(op)
		if st.cyclic() {
			// a message became reachable from itself (printing / marshalling it would not
			// terminate): the history ends here
			res = append(res, "cycle")
			break
		}
		res = append(res, out)
		if out == "ok" {
			switch op.Op {
			case "New", "Copy", "GetSub", "GetRM", "GetMM":
				delete(frozen, op.I) // variable re-bound: stop tracking
			}
		}
		d := map[string]*Dump{}
		for i, v := range st.x {
			if v != nil {
				d[fmt.Sprint(i)] = dump(v, 0)
			}
		}
		dumps = append(dumps, d)
		if op.Op == "Freeze" && out == "ok" {
			if _, already := frozen[op.I]; !already {
				b, _ := json.Marshal(d[fmt.Sprint(op.I)])
				frozen[op.I] = &fz{t, string(b), marshalBytes(st.x[op.I])}
			}
		}
		var fl []int
		for i := 0; i < nvars; i++ {
			if f, ok := frozen[i]; ok {
				fl = append(fl, i)
				b, _ := json.Marshal(d[fmt.Sprint(i)])
				if violation == nil && (string(b) != f.dump || marshalBytes(st.x[i]) != f.wire) {
					violation = map[string]any{"var": i, "frozen_at": f.at, "changed_at": t, "op": op}
				}
			}
		}
		frozenLog = append(frozenLog, fl)
	}
	rec := map[string]any{"kind": "hist", "id": id, "ops": ops[:len(res)], "res": res, "dumps": dumps, "frozen": frozenLog}
	if violation != nil {
		rec["freeze_violation"] = violation
	}
	return rec
}

func genHistory(r *hx.Rand, ln int) []Op {
	// generation tracks which variables are set by actually running the ops on a scratch state
	st := &state{}
	var ops []Op
	push := func(op Op) bool {
		out, _ := st.apply(op)
		if st.cyclic() {
			// rebuild the scratch state without this op
			st = &state{}
			for _, o := range ops {
				st.apply(o)
			}
			return false
		}
		if out == "skip" {
			return false
		}
		ops = append(ops, op)
		return true
	}
	push(Op{Op: "New", I: 0})
	push(Op{Op: "New", I: 1})
	keys := []string{"a", "b", "c"}
	set := func() []int {
		var s []int
		for i, v := range st.x {
			if v != nil {
				s = append(s, i)
			}
		}
		return s
	}
	for tries := 0; len(ops) < ln && tries < ln*20; tries++ {
		ss := set()
		i, j := hx.Pick(r, ss), hx.Pick(r, ss)
		any := r.Intn(nvars)
		n := int64(r.Intn(9) + 1)
		var op Op
		// prefer mutating through a variable other than one that was just frozen
		switch r.Intn(40) {
		case 0:
			op = Op{Op: "New", I: any}
		case 1, 2, 3:
			op = Op{Op: "Copy", I: any, J: j}
		case 4, 5:
			if !hasField(st.x[j], "sub") && r.Intn(3) != 0 {
				continue // mostly a set sub-message; sometimes the (detached, frozen) default of an unset one
			}
			op = Op{Op: "GetSub", I: any, J: j, Via: r.Intn(2)}
		case 6, 7:
			l := attr(st.x[j], "rm").(*sproto.RepeatedField).Len()
			if l == 0 {
				continue
			}
			op = Op{Op: "GetRM", I: any, J: j, K: r.Intn(l), Via: r.Intn(3)}
		case 8, 9:
			k := hx.Pick(r, keys)
			if _, found, _ := attr(st.x[j], "mm").(*sproto.MapField).Get(starlark.String(k)); !found {
				continue
			}
			op = Op{Op: "GetMM", I: any, J: j, Key: k, Via: r.Intn(3)}
		case 10, 11, 12:
			op = Op{Op: "SetV", I: i, N: n}
		case 13:
			op = Op{Op: "SetS", I: i, S: hex.EncodeToString([]byte(fmt.Sprintf("s%d", n)))}
		case 14, 15, 16:
			op = Op{Op: "SetSub", I: i, J: j}
		case 17:
			op = Op{Op: "ClearSub", I: i}
		case 18, 19:
			op = Op{Op: "AppendRI", I: i, N: n}
		case 20:
			l := attr(st.x[i], "ri").(*sproto.RepeatedField).Len()
			if l == 0 {
				continue
			}
			op = Op{Op: "SetRI", I: i, K: r.Intn(l), N: n}
		case 21:
			op = Op{Op: "AssignRI", I: i, J: j}
		case 22, 23:
			op = Op{Op: "AssignRIList", I: i, L: []int64{n, n + 1}}
		case 24:
			op = Op{Op: "AppendRM", I: i, J: j}
		case 25:
			op = Op{Op: "AssignRM", I: i, J: j}
		case 26, 27:
			op = Op{Op: "AssignRMList", I: i, J: j}
		case 28:
			op = Op{Op: "SetMI", I: i, Key: hx.Pick(r, keys), N: n}
		case 29:
			op = Op{Op: "SetMM", I: i, Key: hx.Pick(r, keys), J: j}
		case 30:
			op = Op{Op: "AssignMM", I: i, J: j}
		case 31:
			op = Op{Op: "AssignMI", I: i, J: j}
		case 32:
			op = Op{Op: "AssignMIDict", I: i, Key: hx.Pick(r, keys), N: n}
		case 33, 34:
			op = Op{Op: "AssignMMDict", I: i, Key: hx.Pick(r, keys), J: j}
		default:
			op = Op{Op: "Freeze", I: i}
		}
		push(op)
	}
	return ops
}

func modeHist(seed uint64, n, ln int) {
	r := hx.NewRand(seed)
	nv := 0
	for id := 0; id < n; id++ {
		ops := genHistory(r.Split(), ln)
		rec := runHistory(id, ops)
		if _, bad := rec["freeze_violation"]; bad {
			nv++
		}
		hx.Emit(rec)
	}
	hx.Emit(map[string]any{"kind": "stats", "histories": n, "freeze_violations": nv})
}

// ---------------------------------------------------------------- probes

func probe(name string, f func() (out string, detail string, mutated bool)) {
	var out, detail string
	var mutated bool
	func() {
		defer func() {
			if e := recover(); e != nil {
				out, detail = "panic", fmt.Sprint(e)
			}
		}()
		out, detail, mutated = f()
	}()
	hx.Emit(map[string]any{"kind": "probe", "name": name, "out": out, "detail": detail, "mutated": mutated})
}

func modeProbe() {
	env := baseEnv()
	mk := func(src string) starlark.Value {
		v, out, msg := eval(src, env)
		if out != "ok" {
			panic(src + ": " + msg)
		}
		return v
	}
	js := func(v starlark.Value) string { b, _ := json.Marshal(dump(v, 0)); return string(b) }
	scenario := func(name, mkM, mkO, setup, mutate string) {
		probe(name, func() (string, string, bool) {
			m := mk(mkM)
			e := with(env, "m", m)
			if mkO != "" {
				o, out, msg := eval(mkO, e)
				if out != "ok" {
					return "setup-" + out, msg, false
				}
				e = with(e, "o", o)
			}
			if setup != "" {
				if out, msg := exec(setup, e); out != "ok" {
					return "setup-" + out, msg, false
				}
			}
			m.Freeze()
			before := js(m)
			out, msg := exec(mutate, e)
			after := js(m)
			return out, msg + " | frozen m before " + before + " after " + after, before != after
		})
	}
	scenario("copy-shares-sub", "Node(sub=Node(v=1))", "Node(m)", "", "o.sub.v = 2")
	scenario("copy-shares-list", "Node(ri=[1])", "Node(m)", "", "o.ri.append(2)")
	scenario("copy-shares-map", "Node(mi={'a': 1})", "Node(m)", "", "o.mi['b'] = 2")
	scenario("copy-shares-rm", "Node(rm=[Node(v=1)])", "Node(m)", "", "o.rm[0].v = 2")
	scenario("alias-assign", "Node(sub=Node(v=1))", "Node()", "o.sub = m.sub", "o.sub.v = 2")
	scenario("alias-append", "Node(sub=Node(v=1))", "Node()", "o.rm.append(m.sub)", "o.rm[0].v = 2")
	scenario("alias-mapvalue", "Node(sub=Node(v=1))", "Node()", "o.mm['a'] = m.sub", "o.mm['a'].v = 2")
	scenario("alias-whole-message", "Node(v=1)", "Node()", "o.sub = m", "o.sub.v = 2")
	scenario("alias-source-frozen-later", "Node(v=1)", "Node()", "m.sub = o", "o.v = 2")
	scenario("frozen-direct-scalar", "Node(v=1)", "", "", "m.v = 2")
	scenario("frozen-direct-append", "Node(ri=[1])", "", "", "m.ri.append(2)")
	scenario("frozen-direct-setindex", "Node(ri=[1])", "", "", "m.ri[0] = 2")
	scenario("frozen-direct-sub", "Node(sub=Node(v=1))", "", "", "m.sub.v = 2")
	scenario("frozen-direct-mapset", "Node(mi={'a': 1})", "", "", "m.mi['a'] = 2")
	scenario("frozen-direct-rm-elem", "Node(rm=[Node(v=1)])", "", "", "m.rm[0].v = 2")
	scenario("frozen-direct-mm-elem", "Node(mm={'a': Node(v=1)})", "", "", "m.mm['a'].v = 2")
	scenario("frozen-direct-assign-list", "Node(ri=[1])", "", "", "m.ri = [5]")
	scenario("frozen-set_field", "Node(v=1)", "", "", "proto.set_field(m, Node.v, 2)")
	for _, s := range []struct{ name, src string }{
		{"bytes-to-string-singular", "m.s_string = b'abc'"},
		{"bytes-to-string-ctor", "T(s_string = b'abc')"},
		{"bytes-to-string-append", "m.r_string.append(b'x')"},
		{"bytes-to-string-list", "m.r_string = [b'x']"},
		{"bytes-to-string-mapvalue", "m.mv_string['k'] = b'x'"},
		{"bytes-to-string-mapkey", "m.mk_string[b'x'] = 1"},
	} {
		s := s
		probe(s.name, func() (string, string, bool) {
			m := mk("T()")
			out, msg := exec(s.src, with(env, "m", m))
			return out, msg, false
		})
	}
	selfAssign := func(name, mkM, stmt string) {
		probe(name, func() (string, string, bool) {
			m := mk(mkM)
			before := js(m)
			out, msg := exec(stmt, with(env, "m", m))
			after := js(m)
			return out, msg + " | before " + before + " after " + after, before != after
		})
	}
	selfAssign("self-assign-list", "Node(ri=[1,2,3])", "m.ri = m.ri")
	selfAssign("self-assign-msglist", "Node(rm=[Node(v=1)])", "m.rm = m.rm")
	selfAssign("self-assign-map", "Node(mi={'a': 1})", "m.mi = m.mi")
	selfAssign("self-assign-msgmap", "Node(mm={'a': Node(v=1)})", "m.mm = m.mm")
	selfAssign("failed-list-assign-keeps-old", "Node(ri=[1,2,3])", "m.ri = [7, 'x']")
	selfAssign("failed-map-assign-keeps-old", "Node(mi={'a': 1})", "m.mi = {'b': 'x'}")
	modeProbeExtras(env, mk)
	// a message of another type offered to a message-typed position: an error, never accepted, never a panic
	for _, tm := range []struct{ name, src string }{
		{"type-mismatch:r_msg=view", "t.r_msg = n.rm"},
		{"type-mismatch:mv_msg=view", "t.mv_msg = n.mm"},
		{"type-mismatch:s_msg=msg", "t.s_msg = n"},
		{"type-mismatch:r_msg=list", "t.r_msg = [n]"},
		{"type-mismatch:r_msg.append", "t.r_msg.append(n)"},
		{"type-mismatch:r_msg[0]=", "t.r_msg[0] = n"},
		{"type-mismatch:mv_msg[k]=", "t.mv_msg['a'] = n"},
		{"type-mismatch:ctor-view", "T(r_msg = n.rm)"},
		{"type-mismatch:ctor-msg", "T(s_msg = n)"},
		{"type-mismatch:ctor-copy", "T(n)"},
		{"type-mismatch:reverse-view", "n.rm = t.r_msg"},
		{"type-mismatch:r_enum=F-view", "t.r_enum = t2.r_enumf"},
		{"type-mismatch:mv_enum=F-view", "t.mv_enum = t2.mv_enumf"},
		{"type-mismatch:s_enum=F", "t.s_enum = F.Y"},
	} {
		tm := tm
		probe(tm.name, func() (string, string, bool) {
			t := mk("T(r_msg=[T()], mv_msg={'a': T()})")
			t2 := mk("T(r_enumf=[F.Y], mv_enumf={'a': F.Y})")
			n := mk("Node(rm=[Node(v=1)], mm={'a': Node(v=1)})")
			out, msg := exec(tm.src, with(env, "t", t, "t2", t2, "n", n))
			return out, msg, false
		})
	}
	// every way of obtaining a wrapper / view BEFORE the freeze x every mutation through it AFTER the freeze
	const setup = "Node(v=1, sub=Node(v=1, sub=Node(v=3), ri=[1], mi={'a': 1}), ri=[1, 2], rm=[Node(v=1, ri=[1], mi={'a': 1})], mi={'a': 1}, mm={'a': Node(v=1, ri=[1], mi={'a': 1})})"
	prelude := "def upd(x):\n  d = {}\n  d.update(x)\n  return d\n"
	pg, perr := starlark.ExecFileOptions(&syntax.FileOptions{}, thread, "prelude.star", prelude, nil)
	if perr != nil {
		panic(perr)
	}
	type access struct {
		name, kind, expr string
		goFn             func(m starlark.Value) starlark.Value
	}
	mm := func(m starlark.Value) *sproto.MapField { return attr(m, "mm").(*sproto.MapField) }
	rm := func(m starlark.Value) *sproto.RepeatedField { return attr(m, "rm").(*sproto.RepeatedField) }
	accesses := []access{
		{"attr", "msg", "m.sub", nil},
		{"get_field", "msg", "proto.get_field(m, Node.sub)", nil},
		{"attr.attr", "msg", "m.sub.sub", nil},
		{"index", "msg", "m.rm[0]", nil},
		{"neg-index", "msg", "m.rm[-1]", nil},
		{"list()", "msg", "list(m.rm)[0]", nil},
		{"tuple()", "msg", "tuple(m.rm)[0]", nil},
		{"comprehension", "msg", "[e for e in m.rm][0]", nil},
		{"get_field-index", "msg", "proto.get_field(m, Node.rm)[0]", nil},
		{"mapget", "msg", "m.mm['a']", nil},
		{"dict()", "msg", "dict(m.mm)['a']", nil},
		{"dict.update", "msg", "upd(m.mm)['a']", nil},
		{"keys+get", "msg", "[m.mm[k] for k in m.mm][0]", nil},
		{"get_field-mapget", "msg", "proto.get_field(m, Node.mm)['a']", nil},
		{"go:Items", "msg", "", func(m starlark.Value) starlark.Value { return mm(m).Items()[0][1] }},
		{"go:Entries", "msg", "", func(m starlark.Value) starlark.Value {
			var r starlark.Value
			for _, v := range mm(m).Entries() {
				r = v
			}
			return r
		}},
		{"go:MapGet", "msg", "", func(m starlark.Value) starlark.Value { v, _, _ := mm(m).Get(starlark.String("a")); return v }},
		{"go:Elements", "msg", "", func(m starlark.Value) starlark.Value {
			var r starlark.Value
			for v := range rm(m).Elements() {
				r = v
			}
			return r
		}},
		{"go:Index", "msg", "", func(m starlark.Value) starlark.Value { return rm(m).Index(0) }},
		{"go:Iterate", "msg", "", func(m starlark.Value) starlark.Value {
			it := rm(m).Iterate()
			defer it.Done()
			var r starlark.Value
			it.Next(&r)
			return r
		}},
		{"ri-view", "ilist", "m.ri", nil},
		{"ri-view-get_field", "ilist", "proto.get_field(m, Node.ri)", nil},
		{"sub.ri-view", "ilist", "m.sub.ri", nil},
		{"rm[0].ri-view", "ilist", "m.rm[0].ri", nil},
		{"rm-view", "mlist", "m.rm", nil},
		{"mi-view", "imap", "m.mi", nil},
		{"mi-view-get_field", "imap", "proto.get_field(m, Node.mi)", nil},
		{"mm['a'].mi-view", "imap", "m.mm['a'].mi", nil},
		{"mm-view", "mmap", "m.mm", nil},
		// bound methods of the views (every name in RepeatedField.AttrNames), captured as values
		{"ri.append-method", "imethod", "m.ri.append", nil},
		{"getattr(ri,append)", "imethod", "getattr(m.ri, 'append')", nil},
		{"get_field-ri.append-method", "imethod", "proto.get_field(m, Node.ri).append", nil},
		{"sub.ri.append-method", "imethod", "m.sub.ri.append", nil},
		{"rm[0].ri.append-method", "imethod", "m.rm[0].ri.append", nil},
		{"mm['a'].ri.append-method", "imethod", "dict(m.mm)['a'].ri.append", nil},
		{"rm.append-method", "mmethod", "m.rm.append", nil},
		{"go:Attr(append)", "imethod", "", func(m starlark.Value) starlark.Value {
			v, _ := attr(m, "ri").(*sproto.RepeatedField).Attr("append")
			return v
		}},
	}
	mutations := map[string][]string{
		"msg":   {"W.v = 2", "W.s = 'x'", "W.ri = [9]", "W.sub = None", "proto.set_field(W, Node.v, 2)", "W.mi = {'z': 1}"},
		"ilist": {"W.append(3)", "W[0] = 5"},
		"mlist": {"W.append(Node())", "W[0] = Node(v=7)"},
		"imap":  {"W['a'] = 2", "W['b'] = 2"},
		"mmap":  {"W['a'] = Node(v=7)", "W['b'] = Node()"},
		"imethod": {"W(3)"},
		"mmethod": {"W(Node())"},
	}
	for _, when := range []string{"before", "after"} {
		for _, a := range accesses {
			for _, mu := range mutations[a.kind] {
				a, mu, when := a, mu, when
				probe("view-"+when+"-freeze:"+a.name+":"+mu, func() (string, string, bool) {
					m := mk(setup)
					e := with(env, "m", m, "upd", pg["upd"])
					get := func() (starlark.Value, string, string) {
						if a.goFn != nil {
							return a.goFn(m), "ok", ""
						}
						return eval(a.expr, e)
					}
					var w starlark.Value
					var out, msg string
					if when == "before" {
						if w, out, msg = get(); out != "ok" {
							return "setup-" + out, msg, false
						}
						m.Freeze()
					} else {
						m.Freeze()
						if w, out, msg = get(); out != "ok" {
							return "setup-" + out, msg, false
						}
					}
					before := js(m)
					out, msg = exec(mu, with(e, "W", w))
					after := js(m)
					return out, msg, before != after
				})
			}
		}
	}
	// writes through the default value of an UNSET composite field (a detached frozen empty
	// message / list / map): an error, never a host panic, and the message stays as it was
	for _, ud := range []struct{ name, mk, src string }{
		{"unset-default:sub.v=", "Node()", "m.sub.v = 7"},
		{"unset-default:sub.s=", "Node(v=1)", "m.sub.s = 'x'"},
		{"unset-default:sub.ri=", "Node()", "m.sub.ri = [1]"},
		{"unset-default:sub.sub=", "Node()", "m.sub.sub = Node()"},
		{"unset-default:sub.sub.v=", "Node()", "m.sub.sub.v = 1"},
		{"unset-default:set_field(sub)", "Node()", "proto.set_field(m.sub, Node.v, 7)"},
		{"unset-default:get_field(sub).v=", "Node()", "proto.get_field(m, Node.sub).v = 7"},
		{"unset-default:sub.ri.append", "Node()", "m.sub.ri.append(1)"},
		{"unset-default:sub.mi[k]=", "Node()", "m.sub.mi['a'] = 1"},
		{"unset-default:ri.append", "Node()", "m.ri.append(1)"},
		{"unset-default:rm.append", "Node()", "m.rm.append(Node())"},
		{"unset-default:mi[k]=", "Node()", "m.mi['a'] = 1"},
		{"unset-default:mm[k]=", "Node()", "m.mm['a'] = Node()"},
		{"unset-default:set-sub-of-set-sub", "Node(sub=Node())", "m.sub.sub.v = 1"},
		{"unset-default:rm[0].sub.v=", "Node(rm=[Node()])", "m.rm[0].sub.v = 1"},
		{"unset-default:mm[k].sub.v=", "Node(mm={'a': Node()})", "m.mm['a'].sub.v = 1"},
		{"unset-default:T.s_msg.s_int32=", "T()", "m.s_msg.s_int32 = 1"},
		{"unset-default:T.s_msg.r_int32.append", "T()", "m.s_msg.r_int32.append(1)"},
		{"unset-default:T.r_msg-elem", "T(r_msg=[T()])", "m.r_msg[0].s_msg.s_string = 'x'"},
		{"unset-default:ext_m.v=", "X()", "proto.get_field(m, XF.ext_m).v = 1"},
		{"unset-default:ext_m.set_field-ext", "X()", "proto.set_field(proto.get_field(m, XF.ext_m), XF.ext_s, 'q')"},
		{"unset-default:ext_r.append", "X()", "proto.get_field(m, XF.ext_r).append(1)"},
		{"unset-default:frozen-parent-sub.v=", "Node()", "m.sub.v = 7"},
	} {
		ud := ud
		probe(ud.name, func() (string, string, bool) {
			m := mk(ud.mk)
			if strings.Contains(ud.name, "frozen-parent") {
				m.Freeze()
			}
			before := marshalBytes(m)
			out, msg := exec(ud.src, with(env, "m", m))
			after := marshalBytes(m)
			return out, msg, before != after
		})
	}
	// lossless bulk stores: every value written is read back
	probe("lossless-map-many-keys", func() (string, string, bool) {
		m := mk("Node(mi={'k0': 100})")
		e := with(env, "m", m)
		for i := 1; i < 8; i++ {
			if out, msg := exec(fmt.Sprintf("m.mi['k%d'] = %d", i, 100+i), e); out != "ok" {
				return out, msg, false
			}
		}
		d := dump(m, 0)
		if len(d.MI) != 8 {
			return "mismatch", fmt.Sprintf("wrote 8 keys, read back %d: %v", len(d.MI), d.MI), true
		}
		for i, kv := range d.MI {
			if kv[0] != hex.EncodeToString([]byte(fmt.Sprintf("k%d", i))) || kv[1] != fmt.Sprint(100+i) {
				return "mismatch", fmt.Sprintf("entry %d reads back %v", i, kv), true
			}
		}
		return "ok", "", false
	})
	probe("lossless-list-many-appends", func() (string, string, bool) {
		m := mk("Node(ri=[0])")
		e := with(env, "m", m)
		for i := 1; i < 12; i++ {
			if out, msg := exec(fmt.Sprintf("m.ri.append(%d)", i), e); out != "ok" {
				return out, msg, false
			}
		}
		d := dump(m, 0)
		if len(d.RI) != 12 {
			return "mismatch", fmt.Sprintf("appended to 12 elements, read back %d", len(d.RI)), true
		}
		for i, x := range d.RI {
			if x != fmt.Sprint(i) {
				return "mismatch", fmt.Sprintf("element %d reads back %s", i, x), true
			}
		}
		return "ok", "", false
	})
	probe("iter-append", func() (string, string, bool) {
		m := mk("Node(ri=[1])")
		out, msg := exec("def f():\n  n = 0\n  for e in m.ri:\n    m.ri.append(7)\n    n += 1\n    if n > 5:\n      break\nf()", with(env, "m", m))
		return out, msg + " | after " + js(m), len(dump(m, 0).RI) != 1
	})
	probe("iter-append-same-wrapper", func() (string, string, bool) {
		m := mk("Node(ri=[1])")
		out, msg := exec("def f():\n  r = m.ri\n  n = 0\n  for e in r:\n    r.append(7)\n    n += 1\n    if n > 5:\n      break\nf()", with(env, "m", m))
		return out, msg + " | after " + js(m), len(dump(m, 0).RI) != 1
	})
}

// xSnapshot: everything that can be read from an X message (fields, every extension, wire bytes)
func xSnapshot(x starlark.Value) string {
	e := with(baseEnv(), "x", x)
	var b strings.Builder
	for _, src := range []string{"x.v", "x.s", "proto.get_field(x, XF.ext_s)", "proto.get_field(x, XF.ext_i)", "proto.has(x, XF.ext_m)",
		"proto.get_field(x, XF.ext_m).v", "proto.get_field(proto.get_field(x, XF.ext_m), XF.ext_s)", "list(proto.get_field(x, XF.ext_r))",
		"[e.v for e in proto.get_field(x, XF.ext_rm)]", "proto.marshal_text(x)"} {
		v, out, _ := eval(src, e)
		if out == "ok" {
			b.WriteString(v.String())
		} else {
			b.WriteString("<" + out + ">")
		}
		b.WriteString(" | ")
	}
	// wire bytes with a deterministic field order (proto.marshal's order varies from call to call)
	b.WriteString(marshalBytes(x))
	return b.String()
}

func modeProbeExtras(env starlark.StringDict, mk func(string) starlark.Value) {
	// ---- the surface of the package: an unknown member / method means a mutation path
	// this harness does not exercise (reported by the check as a gap of the tie)
	var mod []string
	for name := range sproto.Module.Members {
		mod = append(mod, name)
	}
	sort.Strings(mod)
	methods := func(v any) []string {
		t := reflect.TypeOf(v)
		var out []string
		for i := 0; i < t.NumMethod(); i++ {
			out = append(out, t.Method(i).Name)
		}
		return out
	}
	hx.Emit(map[string]any{"kind": "surface", "module": mod,
		"Message": methods(&sproto.Message{}), "RepeatedField": methods(&sproto.RepeatedField{}), "MapField": methods(&sproto.MapField{}),
		"repeated_attrs": (&sproto.RepeatedField{}).AttrNames()})

	// ---- extensions: lossless when unfrozen
	mkx := func() starlark.Value {
		x := mk("X(v=1, s='s')")
		out, msg := exec("proto.set_field(x, XF.ext_s, 'a')\nproto.set_field(x, XF.ext_i, 5)\nproto.set_field(x, XF.ext_m, X(v=2))\n"+
			"proto.set_field(proto.get_field(x, XF.ext_m), XF.ext_s, 'n')\nproto.set_field(x, XF.ext_r, [1, 2])\nproto.set_field(x, XF.ext_rm, [X(v=3)])", with(env, "x", x))
		if out != "ok" {
			panic("extension setup: " + msg)
		}
		return x
	}
	for _, st := range []string{"proto.set_field(x, XF.ext_s, 'a')", "proto.set_field(x, XF.ext_i, 5)", "proto.set_field(x, XF.ext_m, X(v=2))",
		"proto.set_field(x, XF.ext_r, [1, 2])", "proto.set_field(x, XF.ext_rm, [X(v=3)])", "proto.get_field(x, XF.ext_r)", "proto.get_field(x, XF.ext_m)", "proto.has(x, XF.ext_r)",
		"proto.set_field(x, XF.ext_r, None)", "proto.set_field(x, XF.ext_s, 5)", "proto.set_field(x, XF.ext_m, Node())"} {
		st := st
		probe("ext-op:"+st, func() (string, string, bool) {
			x := mk("X(v=1)")
			_, out, msg := eval(st, with(env, "x", x))
			return out, msg, false
		})
	}
	probe("ext-lossless", func() (string, string, bool) {
		x := mkx()
		got := xSnapshot(x)
		want := "1 | \"s\" | \"a\" | 5 | True | 2 | \"n\" | [1, 2] | [3] | "
		if !strings.HasPrefix(got, want) {
			return "mismatch", "extensions written are not read back: " + got, true
		}
		return "ok", "", false
	})
	// ---- every mutation path on a FROZEN extendable message (views obtained before / after the freeze)
	type mut struct{ name, pre, stmt string }
	muts := []mut{
		{"attr-set", "", "x.v = 2"},
		{"attr-clear", "", "x.s = None"},
		{"set_field-ordinary", "", "proto.set_field(x, X.v, 2)"},
		{"set_field-ordinary-clear", "", "proto.set_field(x, X.s, None)"},
		{"set_field-ext-scalar", "", "proto.set_field(x, XF.ext_s, 'b')"},
		{"set_field-ext-int", "", "proto.set_field(x, XF.ext_i, 6)"},
		{"set_field-ext-message", "", "proto.set_field(x, XF.ext_m, X(v=9))"},
		{"set_field-ext-repeated", "", "proto.set_field(x, XF.ext_r, [9])"},
		{"set_field-ext-repeated-msg", "", "proto.set_field(x, XF.ext_rm, [X()])"},
		{"set_field-ext-clear", "", "proto.set_field(x, XF.ext_s, None)"},
		{"set_field-ext-clear-msg", "", "proto.set_field(x, XF.ext_m, None)"},
		{"ext-view-append", "W = proto.get_field(x, XF.ext_r)", "W.append(3)"},
		{"ext-view-setindex", "W = proto.get_field(x, XF.ext_r)", "W[0] = 7"},
		{"ext-msg-attr-set", "W = proto.get_field(x, XF.ext_m)", "W.v = 5"},
		{"ext-msg-set_field", "W = proto.get_field(x, XF.ext_m)", "proto.set_field(W, X.v, 5)"},
		{"ext-msg-set_field-ext", "W = proto.get_field(x, XF.ext_m)", "proto.set_field(W, XF.ext_s, 'q')"},
		{"ext-rm-elem-set", "W = proto.get_field(x, XF.ext_rm)[0]", "W.v = 4"},
		{"ext-rm-elem-set_field-ext", "W = proto.get_field(x, XF.ext_rm)[0]", "proto.set_field(W, XF.ext_i, 4)"},
		{"ext-rm-view-append", "W = proto.get_field(x, XF.ext_rm)", "W.append(X())"},
		{"ext-rm-view-setindex", "W = proto.get_field(x, XF.ext_rm)", "W[0] = X(v=8)"},
	}
	for _, when := range []string{"before", "after"} {
		for _, mu := range muts {
			if mu.pre == "" && when == "before" {
				continue
			}
			mu, when := mu, when
			probe("frozen-path:"+when+":"+mu.name, func() (string, string, bool) {
				x := mkx()
				e := with(env, "x", x)
				var w starlark.Value = starlark.None
				get := func() (string, string) {
					if mu.pre == "" {
						return "ok", ""
					}
					v, out, msg := eval(strings.TrimPrefix(mu.pre, "W = "), e)
					w = v
					return out, msg
				}
				if when == "before" {
					if out, msg := get(); out != "ok" {
						return "setup-" + out, msg, false
					}
					x.Freeze()
				} else {
					x.Freeze()
					if out, msg := get(); out != "ok" {
						return "setup-" + out, msg, false
					}
				}
				before := xSnapshot(x)
				out, msg := exec(mu.stmt, with(e, "W", w))
				after := xSnapshot(x)
				return out, msg + " | " + before + " => " + after, before != after
			})
		}
	}
	// ---- look-alikes: c20.Node / c20.E declared again, differently, in another descriptor pool
	for _, la := range []struct{ name, src string }{
		{"lookalike:sub=", "n.sub = n2"},
		{"lookalike:rm=[..]", "n.rm = [n2]"},
		{"lookalike:rm.append", "n.rm.append(n2)"},
		{"lookalike:rm[0]=", "n.rm[0] = n2"},
		{"lookalike:mm[k]=", "n.mm['a'] = n2"},
		{"lookalike:mm={..}", "n.mm = {'a': n2}"},
		{"lookalike:rm=view", "n.rm = n2.rm"},
		{"lookalike:mm=view", "n.mm = n2.mm"},
		{"lookalike:ctor-sub", "Node(sub = n2)"},
		{"lookalike:ctor-rm", "Node(rm = [n2])"},
		{"lookalike:ctor-mm", "Node(mm = {'a': n2})"},
		{"lookalike:ctor-copy", "Node(n2)"},
		{"lookalike:set_field", "proto.set_field(n, Node.sub, n2)"},
		{"lookalike:set_field-other-desc", "proto.set_field(n, Node2.sub, n)"},
		{"lookalike:get_field-other-desc", "proto.get_field(n, Node2.v)"},
		{"lookalike:reverse-sub=", "n2.sub = n"},
		{"lookalike:enum-singular", "t.s_enum = E2.B"},
		{"lookalike:enum-list", "t.r_enum = [E2.B]"},
		{"lookalike:enum-append", "t.r_enum.append(E2.D)"},
		{"lookalike:enum-mapvalue", "t.mv_enum['a'] = E2.C"},
		{"lookalike:enum-ctor", "T(s_enum = E2.B)"},
		{"lookalike:enum-E(..)", "E(E2.B)"},
	} {
		la := la
		probe(la.name, func() (string, string, bool) {
			n := mk("Node(v=1, rm=[Node(v=1)], mm={'a': Node(v=1)})")
			n2 := mk("Node2(v='x', s=7, rm=[Node2(v='y')], mm={'a': Node2(v='z')})")
			t := mk("T(r_enum=[E.A], mv_enum={'a': E.A})")
			out, msg := exec(la.src, with(env, "n", n, "n2", n2, "t", t))
			if out == "ok" {
				// accepted: re-check the typed invariant by reading everything back and marshalling
				detail := "ACCEPTED; "
				func() {
					defer func() {
						if e := recover(); e != nil {
							detail += fmt.Sprint("reading back panics: ", e)
						}
					}()
					detail += "reads back " + func() string { b, _ := json.Marshal(dump(n, 0)); return string(b) }()
				}()
				return out, detail, true
			}
			return out, msg, false
		})
	}
}

func main() {
	mode := flag.String("mode", "scalar", "")
	seed := flag.Uint64("seed", 1, "")
	n := flag.Int("n", 500, "")
	ln := flag.Int("len", 12, "")
	small := flag.Bool("small", false, "")
	file := flag.String("file", "", "")
	flag.Parse()
	buildSchema()
	buildExtras()
	defer hx.Flush()
	switch *mode {
	case "scalar":
		modeScalar(*small)
		modeViews()
	case "hist":
		modeHist(*seed, *n, *ln)
	case "replay":
		data, err := os.ReadFile(*file)
		if err != nil {
			panic(err)
		}
		var ops []Op
		if err := json.Unmarshal(data, &ops); err != nil {
			panic(err)
		}
		hx.Emit(runHistory(0, ops))
	case "shrink":
		// drop single operations while a frozen message still changes (and no cycle arises)
		data, err := os.ReadFile(*file)
		if err != nil {
			panic(err)
		}
		var ops []Op
		if err := json.Unmarshal(data, &ops); err != nil {
			panic(err)
		}
		fails := func(o []Op) bool {
			rec := runHistory(0, o)
			_, bad := rec["freeze_violation"]
			for _, r := range rec["res"].([]string) {
				if r == "cycle" {
					return false
				}
			}
			return bad
		}
		for changed := true; changed; {
			changed = false
			for k := len(ops) - 1; k >= 0; k-- {
				cand := append(append([]Op{}, ops[:k]...), ops[k+1:]...)
				if fails(cand) {
					ops, changed = cand, true
				}
			}
		}
		hx.Emit(runHistory(0, ops))
	case "probe":
		modeProbe()
	}
}
