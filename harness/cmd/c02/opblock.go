package main

// Block O of mode "calls": the operators of the language applied directly
// (starlark.Unary / Binary / Compare, what the VM's instructions call) to the
// pool values and to integers around every representation boundary
// (+-2^7 .. +-2^64, each +-1); every result is then used (printed, hashed,
// tested, frozen, added to itself, compared with itself).
import (
	"fmt"
	"math/big"

	"go.starlark.net/starlark"
	"go.starlark.net/syntax"
)

var unaryOps = []syntax.Token{syntax.MINUS, syntax.PLUS, syntax.TILDE, syntax.NOT}
var binaryOps = []syntax.Token{syntax.PLUS, syntax.MINUS, syntax.STAR, syntax.SLASH, syntax.SLASHSLASH, syntax.PERCENT, syntax.AMP, syntax.PIPE, syntax.CIRCUMFLEX,
	syntax.LTLT, syntax.GTGT, syntax.IN, syntax.NOT_IN, syntax.EQL, syntax.NEQ, syntax.LT, syntax.LE, syntax.GT, syntax.GE}

func boundaryInts() []poolEntry {
	var out []poolEntry
	seen := map[string]bool{}
	add := func(z *big.Int) {
		s := z.String()
		if seen[s] {
			return
		}
		seen[s] = true
		zz := new(big.Int).Set(z)
		out = append(out, poolEntry{name: s, mk: func(*cctx) starlark.Value { return starlark.MakeBigInt(zz) }})
	}
	for _, sh := range []uint{7, 8, 15, 16, 31, 32, 53, 62, 63, 64} {
		b := new(big.Int).Lsh(big.NewInt(1), sh)
		for d := int64(-1); d <= 1; d++ {
			p := new(big.Int).Add(b, big.NewInt(d))
			add(p)
			add(new(big.Int).Neg(p))
		}
	}
	for _, v := range []int64{0, 1, -1, 2, -2, 3, 10, 512, 513} {
		add(big.NewInt(v))
	}
	return out
}

type opCase struct {
	unary bool
	op    syntax.Token
	x, y  int
}

func (m *callMode) buildOps() {
	ints := boundaryInts()
	m.opv = append(append([]poolEntry(nil), m.pool...), ints...)
	var sel []int // the operands of the binary product
	if m.o.tier == "thorough" {
		for i, p := range m.opv {
			if !p.noprod {
				sel = append(sel, i)
			}
		}
	} else {
		sel = append(sel, m.edge...)
		core := map[string]bool{"0": true, "1": true, "-1": true, "2": true}
		for _, sh := range []uint{31, 32, 63, 64} {
			b := new(big.Int).Lsh(big.NewInt(1), sh)
			for d := int64(-1); d <= 1; d++ {
				p := new(big.Int).Add(b, big.NewInt(d))
				core[p.String()] = true
				core[new(big.Int).Neg(p).String()] = true
			}
		}
		for i := len(m.pool); i < len(m.opv); i++ { // quick tier: the 32- and 64-bit boundaries only (unary operators get all of them)
			if core[m.opv[i].name] {
				sel = append(sel, i)
			}
		}
	}
	for _, op := range unaryOps {
		for i, p := range m.opv {
			if !p.noprod {
				m.opc = append(m.opc, opCase{unary: true, op: op, x: i})
			}
		}
	}
	for _, op := range binaryOps {
		for _, x := range sel {
			for _, y := range sel {
				m.opc = append(m.opc, opCase{op: op, x: x, y: y})
			}
		}
	}
}

func useValue(v starlark.Value) {
	_ = v.String()
	_, _ = v.Hash()
	_ = v.Truth()
	_ = v.Type()
	v.Freeze()
	starlark.Binary(syntax.PLUS, v, v)
	starlark.Compare(syntax.EQL, v, v)
	if _, ok := v.(starlark.Int); ok {
		starlark.Compare(syntax.LT, v, starlark.MakeInt(0))
		starlark.Unary(syntax.MINUS, v)
		d := starlark.NewDict(1)
		d.SetKey(v, starlark.None)
	}
}

func (m *callMode) runOp(c *cctx, oc opCase) string {
	x := m.opv[oc.x].mk(c)
	var v starlark.Value
	var err error
	switch {
	case oc.unary:
		v, err = starlark.Unary(oc.op, x)
		if v == nil && err == nil {
			return "error" // unsupported operand
		}
	case oc.op == syntax.EQL || oc.op == syntax.NEQ || oc.op == syntax.LT || oc.op == syntax.LE || oc.op == syntax.GT || oc.op == syntax.GE:
		var b bool
		b, err = starlark.Compare(oc.op, x, m.opv[oc.y].mk(c))
		v = starlark.Bool(b)
	default:
		v, err = starlark.Binary(oc.op, x, m.opv[oc.y].mk(c))
	}
	if err != nil {
		_ = err.Error()
		return "error"
	}
	if v == nil {
		return "panic:operator returned nil value and nil error"
	}
	useValue(v)
	return "value"
}

func (m *callMode) describeOp(oc opCase) string {
	if oc.unary {
		return fmt.Sprintf("%s (%s)", oc.op, m.opv[oc.x].name)
	}
	return fmt.Sprintf("(%s) %s (%s)", m.opv[oc.x].name, oc.op, m.opv[oc.y].name)
}
