package main

// Mode "src": source texts up to 64 KiB x FileOptions, parsed, resolved,
// compiled and executed (ExecFileOptions, so the module's globals are frozen
// at the end) with a finite step budget.  Generators:
//
//	nest:*    deep nesting of every bracket kind, of not / unary / lambda /
//	          conditional / comprehension / call / index / attribute chains,
//	          nested def / if / for / while blocks, long operator chains,
//	          huge literals, very many arguments / parameters / statements
//	valid     structurally valid programs from a small grammar-directed generator
//	mutate    token-level mutations of valid programs
//	bytes     grammar-unaware byte strings (fragments, random bytes)
import (
	"encoding/base64"
	"fmt"
	"strings"
	"time"

	sjson "go.starlark.net/lib/json"
	smath "go.starlark.net/lib/math"
	stime "go.starlark.net/lib/time"
	"go.starlark.net/starlark"
	"go.starlark.net/starlarkstruct"
	"go.starlark.net/syntax"

	"verifharness/internal/hx"
)

const maxSrc = 64 << 10

type nestGen struct {
	name string
	mk   func(n int) string // n = nesting depth / repetition count
	unit int                // bytes per level (to find the largest n that fits 64 KiB)
}

func rep(s string, n int) string { return strings.Repeat(s, n) }

func blockNest(head func(d int) string, n int, body string) string {
	var b strings.Builder
	for d := 0; d < n; d++ {
		b.WriteString(rep(" ", d))
		b.WriteString(head(d))
		b.WriteString("\n")
		if b.Len() > maxSrc {
			break
		}
	}
	b.WriteString(rep(" ", n))
	b.WriteString(body)
	b.WriteString("\n")
	return b.String()
}

var nestGens = []nestGen{
	{"paren", func(n int) string { return "x = " + rep("(", n) + "1" + rep(")", n) + "\n" }, 2},
	{"paren-unclosed", func(n int) string { return "x = " + rep("(", n) + "1\n" }, 1},
	{"bracket", func(n int) string { return "x = " + rep("[", n) + "1" + rep("]", n) + "\n" }, 2},
	{"bracket-unclosed", func(n int) string { return "x = " + rep("[", n) }, 1},
	{"brace-dict", func(n int) string { return "x = " + rep("{1:", n) + "1" + rep("}", n) + "\n" }, 4},
	{"brace-unclosed", func(n int) string { return "x = " + rep("{", n) + "\n" }, 1},
	{"mixed-brackets", func(n int) string { return "x = " + rep("([{1:(", n) + "1" + rep(",)}],)", n) + "\n" }, 12},
	{"tuple-paren-comma", func(n int) string { return "x = " + rep("(", n) + "1" + rep(",)", n) + "\n" }, 3},
	{"close-only", func(n int) string { return "x = 1" + rep(")]}", n) + "\n" }, 3},
	{"not", func(n int) string { return "x = " + rep("not ", n) + "1\n" }, 4},
	{"minus", func(n int) string { return "x = " + rep("-", n) + "1\n" }, 1},
	{"tilde-plus", func(n int) string { return "x = " + rep("~+", n) + "1\n" }, 2},
	{"lambda", func(n int) string { return "x = " + rep("lambda: ", n) + "1\n" }, 8},
	{"lambda-call", func(n int) string { return "x = " + rep("(lambda: ", n) + "1" + rep(")()", n) + "\n" }, 12},
	{"cond-right", func(n int) string { return "x = " + rep("1 if 0 else ", n) + "2\n" }, 12},
	{"cond-left", func(n int) string { return "x = " + rep("(", n) + "1" + rep(" if 1 else 2)", n) + "\n" }, 15},
	{"plus-chain", func(n int) string { return "x = " + rep("1+", n) + "1\n" }, 2},
	{"and-or-chain", func(n int) string { return "x = " + rep("1 and 0 or ", n) + "1\n" }, 11},
	{"pow-like-chain", func(n int) string { return "x = " + rep("2*", n) + "1\n" }, 2},
	{"string-plus-chain", func(n int) string { return "x = " + rep("\"a\"+", n) + "\"b\"\n" }, 4},
	{"compare-chain", func(n int) string { return "x = " + rep("1<", n) + "1\n" }, 2},
	{"pipe-chain", func(n int) string { return "x = " + rep("1|", n) + "1\n" }, 2},
	{"call-nest", func(n int) string { return "def f(x): return x\nx = " + rep("f(", n) + "1" + rep(")", n) + "\n" }, 3},
	{"index-nest", func(n int) string { return "a = [0]\nx = " + rep("a[", n) + "0" + rep("]", n) + "\n" }, 3},
	{"index-chain", func(n int) string { return "a = []\na.append(a)\nx = a" + rep("[0]", n) + "\n" }, 3},
	{"attr-chain", func(n int) string { return "x = a" + rep(".b", n) + "\n" }, 2},
	{"call-chain", func(n int) string { return "def f(): return f\nx = f" + rep("()", n) + "\n" }, 2},
	{"comprehension-nest", func(n int) string { return "x = " + rep("[", n) + "1" + rep(" for i in [1]]", n) + "\n" }, 15},
	{"comprehension-clauses", func(n int) string { return "x = [1 " + rep("for i in [1] if i ", n) + "]\n" }, 18},
	{"dict-comp-nest", func(n int) string { return "x = " + rep("{1:", n) + "1" + rep(" for i in [1]}", n) + "\n" }, 17},
	{"slice-chain", func(n int) string { return "x = \"abc\"" + rep("[::]", n) + "\n" }, 4},
	{"assign-chain-tuple", func(n int) string {
		return rep("(", n) + "a" + rep(",)", n) + " = " + rep("(", n) + "1" + rep(",)", n) + "\n"
	}, 6},
	{"paren-augassign", func(n int) string {
		return "def f():\n  x = 1\n  " + rep("(", n) + "x" + rep(")", n) + " += 1\n  return x\nr = f()\n"
	}, 2},
	{"paren-augassign-index", func(n int) string {
		return "def f():\n  a = [1, 2]\n  " + rep("(", n) + "a[0]" + rep(")", n) + " += 5\n  " + rep("(", n) + "a" + rep(")", n) + "[1] *= 2\n  return a\nr = f()\n"
	}, 4},
	{"paren-assign-targets", func(n int) string {
		p, q := rep("(", n), rep(")", n)
		return "def f():\n  " + p + "a, b" + q + " = 1, 2\n  " + p + "c" + q + " = 3\n  [" + p + "d" + q + ", e] = [4, 5]\n  for " + p + "i" + q + " in [1]: pass\n  g = [j for " + p + "j" + q + " in [1]]\n  " + p + "h" + q + " = {}\n  " + p + "h" + q + "[1] = 2\n  return (a, b, c, d, e, g, h)\nr = f()\n"
	}, 14},
	{"paren-call-callee", func(n int) string {
		return "def f(x=1): return x\nr = " + rep("(", n) + "f" + rep(")", n) + "(2) + " + rep("(", n) + "[1]" + rep(")", n) + "[0] + " + rep("(", n) + "\"a\"" + rep(")", n) + ".count(\"a\")\n"
	}, 6},
	{"star-args", func(n int) string { return "def f(*a, **k): return 0\nx = f(" + rep("1,", n) + ")\n" }, 2},
	{"kw-args", func(n int) string {
		var b strings.Builder
		b.WriteString("def f(**k): return 0\nx = f(")
		for i := 0; i < n && b.Len() < maxSrc-20; i++ {
			fmt.Fprintf(&b, "a%d=1,", i)
		}
		b.WriteString(")\n")
		return b.String()
	}, 8},
	{"params", func(n int) string {
		var b strings.Builder
		b.WriteString("def f(")
		for i := 0; i < n && b.Len() < maxSrc-30; i++ {
			fmt.Fprintf(&b, "a%d=1,", i)
		}
		b.WriteString("): return 0\nx = f()\n")
		return b.String()
	}, 8},
	{"list-literal-wide", func(n int) string { return "x = [" + rep("1,", n) + "]\n" }, 2},
	{"dict-literal-wide", func(n int) string {
		var b strings.Builder
		b.WriteString("x = {")
		for i := 0; i < n && b.Len() < maxSrc-20; i++ {
			fmt.Fprintf(&b, "%d:1,", i)
		}
		b.WriteString("}\n")
		return b.String()
	}, 8},
	{"int-literal-huge", func(n int) string { return "x = " + rep("9", n) + "\n" }, 1},
	{"hex-literal-huge", func(n int) string { return "x = 0x" + rep("f", n) + "\n" }, 1},
	{"bin-octal-literal-huge", func(n int) string { return "x = 0b" + rep("1", n/2) + "\ny = 0o" + rep("7", n/2) + "\n" }, 1},
	{"float-literal-huge", func(n int) string { return "x = 1" + rep("0", n/2) + "." + rep("9", n/2) + "e" + rep("9", 5) + "\n" }, 1},
	{"float-exponent-huge", func(n int) string { return "x = 1e" + rep("9", n) + "\n" }, 1},
	{"string-literal-huge", func(n int) string { return "x = \"" + rep("a", n) + "\"\n" }, 1},
	{"string-escapes", func(n int) string { return "x = \"" + rep("\\x41\\n\\u00e9\\101", n) + "\"\n" }, 18},
	{"bytes-escapes-bad", func(n int) string { return "x = b\"" + rep("\\xff\\777\\u12", n) + "\"\n" }, 13},
	{"triple-quote-unclosed", func(n int) string { return "x = \"\"\"" + rep("a\n", n) }, 2},
	{"identifier-huge", func(n int) string { return rep("a", n) + " = 1\n" }, 1},
	{"line-continuations", func(n int) string { return "x = 1" + rep("\\\n", n) + "\n" }, 2},
	{"comment-lines", func(n int) string { return rep("#\n", n) + "x = 1\n" }, 2},
	{"statements-many", func(n int) string { return rep("x=1\n", n) }, 4},
	{"semicolons", func(n int) string { return "x=1" + rep(";x=1", n) + "\n" }, 4},
	// (sizes capped: the result doubles per step; building gigabyte values is memory exhaustion, outside the claim)
	{"string-repeat-mul-runtime", func(n int) string {
		return "x = \"a\"" + rep("*2", min(n, 16)) + "\ny = [1]" + rep("*2", min(n, 16)) + "\n"
	}, 2},
	{"shift-runtime", func(n int) string { return "x = 1" + rep("<<500", min(n, 1500)) + "\n" }, 5},
	{"def-nest", func(n int) string {
		return blockNest(func(d int) string { return fmt.Sprintf("def f%d():", d) }, n, "return 1")
	}, 0},
	{"if-nest", func(n int) string {
		return "def f():\n" + indent(blockNest(func(d int) string { return "if 1:" }, n, "return 1"), " ") + "x = f()\n"
	}, 0},
	{"for-nest", func(n int) string {
		return "def f():\n" + indent(blockNest(func(d int) string { return fmt.Sprintf("for i%d in [1]:", d) }, n, "pass"), " ") + "x = f()\n"
	}, 0},
	{"while-nest", func(n int) string {
		return "def f():\n" + indent(blockNest(func(d int) string { return "while 1:" }, n, "return 1"), " ") + "x = f()\n"
	}, 0},
	{"elif-chain", func(n int) string {
		return "def f():\n if 0: pass\n" + rep(" elif 0: pass\n", n) + " else: return 1\nx = f()\n"
	}, 14},
	{"indent-dedent-noise", func(n int) string { return "def f():\n" + rep("  x=1\n   y=2\n", n) }, 12},
	{"tabs-vs-spaces", func(n int) string { return "def f():\n" + rep("\tif 1:\n        pass\n", n) }, 20},
	{"load-many", func(n int) string { return rep("load(\"m\", \"a\")\n", n) }, 15},
	{"recursion-runtime", func(n int) string { return "def f(n):\n  return f(n+1)\nx = f(0)\n" }, 0},
	{"mutual-recursion-runtime", func(n int) string { return "def g(n): return f(n)\ndef f(n): return g(n)\nx = f(0)\n" }, 0},
	{"deep-list-runtime-print", func(n int) string {
		return "def f():\n  l = []\n  for i in range(" + fmt.Sprint(n*3) + "):\n    l = [l]\n  return l\nx = f()\ny = str(x)\nz = (x == x)\nj = json.encode(x)\n"
	}, 0},
	{"deep-tuple-runtime-hash", func(n int) string {
		return "def f():\n  t = ()\n  for i in range(" + fmt.Sprint(n*3) + "):\n    t = (t,)\n  return t\nx = f()\nd = {x: 1}\ny = str(x)\n"
	}, 0},
	{"deep-dict-runtime", func(n int) string {
		return "def f():\n  d = {}\n  for i in range(" + fmt.Sprint(n*3) + "):\n    d = {\"k\": d}\n  return d\nx = f()\ny = str(x)\nj = json.encode(x)\nk = json.decode(j)\n"
	}, 0},
	{"json-decode-deep", func(n int) string {
		return "x = json.decode(\"[\" * " + fmt.Sprint(n*3) + " + \"]\" * " + fmt.Sprint(n*3) + ")\ny = json.decode(\"{\\\"a\\\":\" * " + fmt.Sprint(n) + ")\n"
	}, 0},
	{"format-deep", func(n int) string {
		return "x = \"" + rep("{", n) + rep("}", n) + "\".format(1)\ny = \"" + rep("%", n) + "s\" % 1\n"
	}, 3},
	// closures over variables of the enclosing function that are still unassigned when the module's globals are frozen
	{"closure-unassigned-untaken-branch", func(n int) string {
		return "def outer(flag):\n  if flag:\n    v = 1\n  def inner(): return v\n  return inner\ng = outer(False)\nh = [outer(0), {\"k\": outer(None)}, struct(f=outer(\"\"))]\n"
	}, 0},
	{"closure-unassigned-zero-iteration-loop", func(n int) string {
		return "def outer(xs):\n  for v in xs:\n    pass\n  def inner(): return v\n  return inner\ng = outer([])\nt = (outer(()), outer({}))\n"
	}, 0},
	{"closure-unassigned-early-return", func(n int) string {
		return "def outer(early):\n  def inner(): return (late, other)\n  if early:\n    return inner\n  late = 1\n  other = [inner]\n  return inner\ng = outer(True)\nk = outer(False)\n"
	}, 0},
	{"closure-unassigned-in-default", func(n int) string {
		return "def outer():\n  def inner(): return v\n  def with_default(d = inner, e = [inner]): return d\n  if False:\n    v = 0\n  return with_default\ng = outer()\nlam = (lambda: (lambda: g))()\n"
	}, 0},
	{"closure-unassigned-comprehension-and-nested", func(n int) string {
		return "def outer():\n  def mid():\n    def inner(): return (a, b)\n    return inner\n  fs = [mid() for _ in range(2)]\n  if not fs:\n    a = 1\n    b = 2\n  return fs\ng = outer()\ndef call():\n  return g[0]()\n"
	}, 0},
	{"closure-unassigned-called", func(n int) string {
		return "def outer():\n  def inner(): return v\n  if False:\n    v = 0\n  return inner\ng = outer()\nx = str(g) + repr([g]) + str(g == g) + str({g: 1})\ny = g()\n"
	}, 0},
	// last: the two programs that build a cyclic value (a crash here restarts the worker)
	{"closure-self-freeze", func(n int) string { return "def outer():\n  def f(): return f\n  return f\ng = outer()\n" }, 0},
	{"struct-in-own-list-print", func(n int) string { return "l = []\ns = struct(x=l)\nl.append(s)\nprint(l)\n" }, 0},
}

func indent(s, pre string) string {
	lines := strings.Split(strings.TrimRight(s, "\n"), "\n")
	for i := range lines {
		lines[i] = pre + lines[i]
	}
	return strings.Join(lines, "\n") + "\n"
}

var nestSizes = []int{3, 40, 300, 2000, 9000, -1} // -1: the largest that fits 64 KiB

func nestSource(gi, si int) (string, int) {
	g := nestGens[gi]
	n := nestSizes[si]
	if n < 0 {
		if g.unit > 0 {
			n = (maxSrc - 64) / g.unit
		} else {
			n = 340 // block nesting: indentation grows quadratically; 340 levels ~ 60 KiB
		}
	}
	if g.unit == 0 && n > 340 {
		n = 340
	}
	if g.unit > 0 && n*g.unit > maxSrc-64 {
		n = (maxSrc - 64) / g.unit
	}
	s := g.mk(n)
	if len(s) > maxSrc {
		s = s[:maxSrc]
	}
	return s, n
}

// ------------------------------------------------------------ valid programs

type pgen struct {
	r     *hx.Rand
	b     strings.Builder
	vars  []string
	funcs []string
	depth int
}

func (p *pgen) v() string {
	if len(p.vars) == 0 {
		return "1"
	}
	return hx.Pick(p.r, p.vars)
}

func (p *pgen) expr(d int) string {
	r := p.r
	if d <= 0 {
		switch r.Intn(9) {
		case 0:
			return fmt.Sprint(r.Intn(100) - 20)
		case 1:
			return hx.Pick(r, []string{`"a"`, `"hello world"`, `""`, `"%s-%d"`, `b"xy"`, "None", "True", "1.5", "1e300", "(1<<70)", "-7"})
		case 2, 3, 4:
			return p.v()
		case 5:
			return "[]"
		case 6:
			return "{}"
		case 7:
			return "()"
		default:
			return "[1, 2, 3]"
		}
	}
	e := func() string { return p.expr(d - 1) }
	switch r.Intn(24) {
	case 0:
		return "(" + e() + " " + hx.Pick(r, []string{"+", "-", "*", "//", "%", "/", "&", "|", "^", "<<", ">>", "==", "!=", "<", "<=", ">", ">=", "and", "or", "in", "not in"}) + " " + e() + ")"
	case 1:
		return hx.Pick(r, []string{"-", "+", "~", "not "}) + e()
	case 2:
		return "[" + e() + ", " + e() + "]"
	case 3:
		return "(" + e() + ", " + e() + ")"
	case 4:
		return "{" + e() + ": " + e() + "}"
	case 5:
		return e() + "[" + e() + "]"
	case 6:
		return e() + "[" + e() + ":" + e() + ":" + e() + "]"
	case 7:
		return hx.Pick(r, []string{"len", "str", "repr", "list", "tuple", "sorted", "reversed", "bool", "int", "float", "type", "hash", "dir", "min", "max", "any", "all", "set", "dict", "enumerate", "zip", "abs", "ord", "chr", "bytes", "range"}) + "(" + e() + ")"
	case 8:
		return e() + "." + hx.Pick(r, []string{"append", "extend", "pop", "keys", "values", "items", "get", "update", "split", "join", "format", "strip", "upper", "find", "index", "count", "union", "add", "clear", "insert", "remove", "setdefault", "popitem", "elems", "startswith", "replace", "title", "partition", "rsplit", "splitlines", "isdigit"}) + "(" + hx.Pick(r, []string{"", e(), e() + ", " + e()}) + ")"
	case 9:
		return "(" + e() + " if " + e() + " else " + e() + ")"
	case 10:
		return "[" + e() + " for q in " + e() + " if " + e() + "]"
	case 11:
		return "{q: " + e() + " for q in " + e() + "}"
	case 12:
		return "(lambda a, b=2, *c, **d: " + e() + ")(" + e() + ")"
	case 13:
		if len(p.funcs) > 0 {
			return hx.Pick(r, p.funcs) + "(" + hx.Pick(r, []string{"", e(), e() + ", " + e(), "*" + e(), "**" + e(), e() + ", k=" + e()}) + ")"
		}
		return e()
	case 14:
		return "struct(a=" + e() + ", b=" + e() + ")"
	case 15:
		return hx.Pick(r, []string{"json.encode", "json.decode", "json.indent", "json.encode_indent", "math.sqrt", "math.floor", "math.pow", "math.log", "time.parse_duration", "time.from_timestamp", "time.now", "time.time"}) + "(" + hx.Pick(r, []string{"", e(), e() + ", " + e()}) + ")"
	case 16:
		return e() + " % " + e()
	case 17:
		return "getattr(" + e() + ", " + hx.Pick(r, []string{`"a"`, `"append"`, `"x"`}) + ", " + e() + ")"
	case 18:
		return "range(" + fmt.Sprint(r.Intn(50)) + ")"
	case 19:
		return e() + "." + hx.Pick(r, []string{"a", "b", "x"})
	default:
		return e()
	}
}

func (p *pgen) stmt(ind string, d int, inFunc, inLoop bool) {
	r := p.r
	w := func(s string) { p.b.WriteString(ind + s + "\n") }
	k := r.Intn(16)
	if d <= 0 && k >= 6 {
		k = r.Intn(6)
	}
	switch k {
	case 0, 1, 2:
		name := fmt.Sprintf("v%d", r.Intn(8))
		w(name + " = " + p.expr(2+r.Intn(2)))
		if !inFunc {
			p.vars = append(p.vars, name)
		}
	case 3:
		w(p.v() + " " + hx.Pick(r, []string{"+=", "-=", "*=", "|=", "//=", "%="}) + " " + p.expr(2))
	case 4:
		w(p.expr(3))
	case 5:
		w(hx.Pick(r, []string{"print(" + p.expr(2) + ")", "a, b = " + p.expr(2), p.v() + "[" + p.expr(1) + "] = " + p.expr(2), "pass", "(a, [b, c]) = " + p.expr(2), "x, = " + p.expr(2)}))
	case 6, 7:
		w("if " + p.expr(2) + ":")
		p.block(ind+"  ", d-1, inFunc, inLoop)
		if r.Bool() {
			w("elif " + p.expr(1) + ":")
			p.block(ind+"  ", d-1, inFunc, inLoop)
		}
		if r.Bool() {
			w("else:")
			p.block(ind+"  ", d-1, inFunc, inLoop)
		}
	case 8, 9:
		w("for " + hx.Pick(r, []string{"i", "i, j", "(i, j)", "v1"}) + " in " + p.expr(2) + ":")
		p.block(ind+"  ", d-1, inFunc, true)
	case 10:
		w("while " + p.expr(1) + ":")
		p.block(ind+"  ", d-1, inFunc, true)
	case 11, 12:
		name := fmt.Sprintf("fn%d", len(p.funcs))
		w("def " + name + "(" + hx.Pick(r, []string{"", "a", "a, b=1", "*args", "a, *, k=2, **kw", "a=[], b={}"}) + "):")
		sv := p.vars
		p.vars = append(append([]string(nil), p.vars...), "a")
		p.block(ind+"  ", d-1, true, false)
		p.vars = sv
		p.funcs = append(p.funcs, name)
	case 13:
		if inFunc {
			w("return " + p.expr(2))
		} else {
			w("v0 = " + p.expr(2))
		}
	case 14:
		if inLoop {
			w(hx.Pick(r, []string{"break", "continue"}))
		} else {
			w("pass")
		}
	default:
		w(hx.Pick(r, []string{"load(\"mod\", \"sym\")", "fail(" + p.expr(1) + ")",
			"def mkc(flag, xs):\n" + ind + "  if flag:\n" + ind + "    cv = " + p.expr(1) + "\n" + ind + "  for lv in xs: pass\n" + ind + "  def inner(d = " + p.v() + "): return (cv, lv)\n" + ind + "  return inner\n" + ind + "cl" + fmt.Sprint(r.Intn(4)) + " = [mkc(" + p.expr(1) + ", []), mkc(0, " + p.expr(1) + " if type(" + p.expr(0) + ") == \"list\" else [])]",
			"(v0) += 1", "((v0)) = " + p.expr(1), "[pa, [pb, pc]] = [1, [2, 3]]", "(pa, (pb, pc)) = (1, (2, 3))", "pl = [1, 2]\n" + ind + "(pl)[0] += 1\n" + ind + "((pl[1])) -= 1",
			"pc2 = [x for (x) in [1, 2] for ((y), [z]) in [(x, [x])] if (x)]", "for (pa), [pb] in [(1, [2])]: pass",
			"pf = lambda *a, **k: (a, k)\n" + ind + "pr = pf(*[1, 2], **{\"k\": 3})", "ps = \"%(a)s-%(b)r\" % {\"a\": " + p.expr(1) + ", \"b\": 2}",
			"pq = " + p.v() + "[:] if type(" + p.v() + ") in (\"list\", \"string\", \"tuple\") else None", "pd = {k: {k: v} for k, v in [(1, 2), (3, 4)]}",
			"def pg(a, b = lambda: (lambda: 1)(), *c, d = [x for x in range(2)], **e): return (a, b(), c, d, e)\n" + ind + "pz = pg(0, d = 1, z = 2)", "def rec(n):\n" + ind + "  return rec(n + 1) if n < 50 else n", "l0 = []\n" + ind + "l0.append(l0)", "s0 = struct(x=v0) if True else None"}))
	}
}

func (p *pgen) block(ind string, d int, inFunc, inLoop bool) {
	n := 1 + p.r.Intn(3)
	for i := 0; i < n; i++ {
		p.stmt(ind, d, inFunc, inLoop)
	}
}

func validProgram(r *hx.Rand) string {
	p := &pgen{r: r}
	p.b.WriteString("v0 = 1\n")
	p.vars = []string{"v0"}
	n := 2 + r.Intn(12)
	for i := 0; i < n; i++ {
		p.stmt("", 3, false, false)
	}
	return p.b.String()
}

var vocab = []string{"(", ")", "[", "]", "{", "}", ",", ":", ";", ".", "=", "==", "+", "-", "*", "**", "/", "//", "%", "<<", ">>", "&", "|", "^", "~", "<", ">", "<=", ">=", "!=", "+=", "lambda", "def", "if", "else", "elif", "for", "in", "not", "and", "or", "return", "pass", "break", "continue", "while", "load", "None", "True", "\n", "\n  ", "\n    ", " ", "0", "1", "x", "v0", "\"s\"", "'", "\"", "\"\"\"", "\\", "#", "0x", "1e", "1.", ".5", "b\"", "r'", "*args", "**kw", "is", "import", "class", "del", "\t", "\r", "\x00", "\xff", "é", "1<<62", "range(1000)"}

func tokenise(s string) []string {
	var toks []string
	cur := ""
	flush := func() {
		if cur != "" {
			toks = append(toks, cur)
			cur = ""
		}
	}
	for _, c := range s {
		isWord := c == '_' || c >= '0' && c <= '9' || c >= 'a' && c <= 'z' || c >= 'A' && c <= 'Z'
		if isWord {
			cur += string(c)
		} else {
			flush()
			toks = append(toks, string(c))
		}
	}
	flush()
	return toks
}

func mutate(r *hx.Rand, s string) string {
	t := tokenise(s)
	if len(t) == 0 {
		return s
	}
	for k := 1 + r.Intn(4); k > 0; k-- {
		i := r.Intn(len(t))
		switch r.Intn(5) {
		case 0:
			t = append(t[:i], t[i+1:]...)
		case 1:
			t[i] = hx.Pick(r, vocab)
		case 2:
			t = append(t[:i], append([]string{hx.Pick(r, vocab)}, t[i:]...)...)
		case 3:
			j := r.Intn(len(t))
			t[i], t[j] = t[j], t[i]
		default:
			t = append(t[:i], append([]string{t[i]}, t[i:]...)...)
		}
		if len(t) == 0 {
			break
		}
	}
	return strings.Join(t, "")
}

func byteSoup(r *hx.Rand) string {
	var b strings.Builder
	n := 1 << uint(r.Intn(17))
	switch r.Intn(3) {
	case 0: // fragments
		for b.Len() < n {
			b.WriteString(hx.Pick(r, vocab))
			if r.Intn(3) == 0 {
				b.WriteByte(' ')
			}
		}
	case 1: // raw bytes
		for b.Len() < n {
			b.WriteByte(byte(r.Intn(256)))
		}
	default: // one fragment repeated
		f := hx.Pick(r, vocab) + hx.Pick(r, vocab)
		for b.Len() < n {
			b.WriteString(f)
		}
	}
	s := b.String()
	if len(s) > maxSrc {
		s = s[:maxSrc]
	}
	return s
}

// ------------------------------------------------------------------- the mode

type srcCase struct {
	Cat    string `json:"category"`
	Recipe string `json:"recipe"`
	Opts   int    `json:"opts"` // bit set of FileOptions
	Src    string `json:"-"`
}

type nestCase struct{ gi, si, opt int }

// generators whose text does not depend on n are enumerated once
func nestCases(quick bool) []nestCase {
	var out []nestCase
	for gi, g := range nestGens {
		for si := range nestSizes {
			if si > 0 && g.mk(3) == g.mk(40) {
				continue
			}
			if quick && (nestSizes[si] == 9000 || nestSizes[si] == 40 || nestSizes[si] == 2000) {
				continue
			}
			switch {
			case quick:
				out = append(out, nestCase{gi, si, -1}) // one combination per case, varying with the index
			case nestSizes[si] <= 300:
				for o := 0; o < 64; o++ { // all FileOptions combinations
					out = append(out, nestCase{gi, si, o})
				}
			default: // the large sizes (seconds each): no option, all options, each option alone
				for _, o := range []int{0, 63, 1, 2, 4, 8, 16, 32} {
					out = append(out, nestCase{gi, si, o})
				}
			}
		}
	}
	return out
}

type srcMode struct {
	fixed  []srcCase
	trunc  []string
	nc     []nestCase
	o      *opts
	nNest  int64
	nRand  int64
	allOpt bool
	single *struct {
		Cat  string `json:"category"`
		Opts int    `json:"opts"`
		B64  string `json:"source_b64"`
	}
}

func newSrcMode(o *opts) *srcMode {
	m := &srcMode{o: o, nc: nestCases(o.tier != "thorough")}
	m.nNest = int64(len(m.nc))
	for k, p := range escapePrograms() {
		m.fixed = append(m.fixed, srcCase{Cat: "escape", Recipe: fmt.Sprintf("escapePrograms()[%d]: *args / **kwargs values used after the caller went on evaluating", k), Src: p})
	}
	for k, p := range aliasPrograms() {
		m.fixed = append(m.fixed, srcCase{Cat: "alias", Recipe: fmt.Sprintf("aliasPrograms()[%d]: the same object as receiver and argument / both operands: %s", k, strings.ReplaceAll(p, "\n", "; ")), Src: p})
	}
	for k, p := range callShapePrograms() {
		m.fixed = append(m.fixed, srcCase{Cat: "callshape", Recipe: fmt.Sprintf("callShapePrograms()[%d]: %s", k, strings.SplitN(p[len(callPrelude):], "\n", 2)[0]), Src: p})
	}
	seenT := map[string]bool{}
	for _, p := range truncPrograms {
		for i := 0; i <= len(p); i++ {
			if !seenT[p[:i]] {
				seenT[p[:i]] = true
				m.trunc = append(m.trunc, p[:i])
			}
		}
		for _, v := range tokenVariants(p) { // every single token deleted / doubled
			if !seenT[v] {
				seenT[v] = true
				m.trunc = append(m.trunc, v)
			}
		}
	}
	m.nRand = 500 + 2400 // incl. the truncations of truncPrograms (the first indices of the block)
	if o.tier == "thorough" {
		m.allOpt = true
		m.nRand = 12000
	}
	if o.n > 0 {
		m.nRand = o.n
	}
	if o.single != "" {
		m.single = new(struct {
			Cat  string `json:"category"`
			Opts int    `json:"opts"`
			B64  string `json:"source_b64"`
		})
		if err := jsonUnmarshal(o.single, m.single); err != nil {
			panic(err)
		}
	}
	return m
}

// Spans: the nesting block goes to two long-lived workers (growing the Go
// stack for the first deeply nested source costs seconds per process).
func (m *srcMode) Spans(workers int) []span {
	if m.single != nil {
		return []span{{0, 1}}
	}
	var out []span
	parts := int64(2)
	if m.allOpt {
		parts = int64(workers)
	}
	for p := int64(0); p < parts; p++ {
		out = append(out, span{m.nNest * p / parts, m.nNest * (p + 1) / parts})
	}
	end := m.nNest + m.nRand + int64(len(m.fixed))
	chunk := (end-m.nNest)/int64(workers*3) + 1
	for lo := m.nNest; lo < end; lo += chunk {
		out = append(out, span{lo, min(lo+chunk, end)})
	}
	return out
}

func (m *srcMode) Count() int64 {
	if m.single != nil {
		return 1
	}
	return m.nNest + m.nRand + int64(len(m.fixed))
}

func (m *srcMode) decode(i int64) srcCase {
	if m.single != nil {
		b, _ := base64.StdEncoding.DecodeString(m.single.B64)
		return srcCase{Cat: m.single.Cat, Opts: m.single.Opts, Src: string(b)}
	}
	if i < m.nNest {
		k := i
		op := m.nc[k].opt
		if op < 0 {
			op = int((i*37 + 5) % 64)
		}
		gi, si := m.nc[k].gi, m.nc[k].si
		s, n := nestSource(gi, si)
		if !m.allOpt && strings.Contains(nestGens[gi].name, "recursion") {
			op |= 32 // quick tier: one combination per case; recursion must be allowed to go deep
		}
		return srcCase{Cat: "nest:" + nestGens[gi].name, Recipe: fmt.Sprintf("generator %s, n=%d, %d bytes", nestGens[gi].name, n, len(s)), Opts: op, Src: s}
	}
	j := i - m.nNest
	if j >= m.nRand {
		c := m.fixed[j-m.nRand]
		c.Opts = int((j*13+1)%64) | 1 | 8
		return c
	}
	if j < int64(len(m.trunc)) {
		t := m.trunc[j]
		return srcCase{Cat: "trunc", Recipe: fmt.Sprintf("a lexically dense valid program truncated, or with one token deleted / doubled (%d bytes)", len(t)), Opts: int((j*29 + 1) % 64), Src: t}
	}
	r := hx.NewRand(m.o.seed*104729 + uint64(j)).Split()
	op := r.Intn(64)
	switch j % 4 {
	case 0, 1:
		return srcCase{Cat: "valid", Recipe: fmt.Sprintf("validProgram(seed %d, #%d)", m.o.seed, j), Opts: op | 1, Src: validProgram(r)}
	case 2:
		return srcCase{Cat: "mutate", Recipe: fmt.Sprintf("mutate(validProgram)(seed %d, #%d)", m.o.seed, j), Opts: op, Src: mutate(r, validProgram(r))}
	default:
		return srcCase{Cat: "bytes", Recipe: fmt.Sprintf("byteSoup(seed %d, #%d)", m.o.seed, j), Opts: op, Src: byteSoup(r)}
	}
}

func fileOptions(bits int) *syntax.FileOptions {
	return &syntax.FileOptions{
		Set: bits&1 != 0, While: bits&2 != 0, TopLevelControl: bits&4 != 0,
		GlobalReassign: bits&8 != 0, LoadBindsGlobally: bits&16 != 0, Recursion: bits&32 != 0,
	}
}

const stepBudget = 300000

func (m *srcMode) Run(i int64) string {
	c := m.decode(i)
	thread := &starlark.Thread{Name: "c02", Print: func(*starlark.Thread, string) {},
		Load: func(t *starlark.Thread, module string) (starlark.StringDict, error) {
			return starlark.StringDict{"sym": starlark.MakeInt(1), "a": starlark.MakeInt(2)}, nil
		}}
	budget := uint64(stepBudget)
	if strings.Contains(c.Cat, "recursion") {
		// enough steps to reach the interpreter's own frame limit (100 000 frames
		// when FileOptions.Recursion is set) before the budget stops the program
		budget = 8000000
	}
	thread.SetMaxExecutionSteps(budget)
	pre := starlark.StringDict{"struct": starlark.NewBuiltin("struct", starlarkstruct.Make), "json": sjson.Module, "math": smath.Module, "time": stime.Module}
	_, err := starlark.ExecFileOptions(fileOptions(c.Opts), thread, "c02.star", c.Src, pre)
	if thread.ExecutionSteps() > budget+1 {
		return "panic:step budget overrun: " + fmt.Sprint(thread.ExecutionSteps())
	}
	if err != nil {
		_ = err.Error()
		if ee, ok := err.(*starlark.EvalError); ok {
			_ = ee.Backtrace()
		}
		return "error"
	}
	return "value"
}

func (m *srcMode) Describe(i int64) map[string]any {
	c := m.decode(i)
	head := c.Src
	if len(head) > 300 {
		head = head[:300] + "..."
	}
	return map[string]any{"category": c.Cat, "recipe": c.Recipe, "opts": c.Opts, "bytes": len(c.Src), "head": head,
		"source_b64": base64.StdEncoding.EncodeToString([]byte(c.Src))}
}

// StackMB: the programs that build a cyclic value at run time are run with a
// small maximum stack (an endless recursion overflows any stack; the default
// 1 GB takes ~20 s to fill); everything else runs with Go's default limit so
// that a deep but finite recursion is not misreported.
func (m *srcMode) StackMB(i int64) int {
	c := m.decode(i)
	if strings.Contains(c.Src, "struct(") || strings.Contains(c.Cat, "closure-self") {
		return 64
	}
	return 0
}

// Timeout: the deep-nesting sources may need tens of seconds of CPU (growing the Go
// stack); every other source is small and gets 8 s of CPU.
func (m *srcMode) Timeout(i int64) time.Duration {
	if strings.HasPrefix(m.decode(i).Cat, "nest:") {
		return 0
	}
	return 8 * time.Second
}

func (m *srcMode) Dist(i int64) string { return strings.SplitN(m.decode(i).Cat, ":", 2)[0] }

func (m *srcMode) Key(i int64, kind, detail string) string {
	c := m.decode(i)
	d := shortDetail(detail)
	if kind == "fatal" && strings.HasPrefix(d, "stack-overflow") {
		return "src:" + d
	}
	return "src:" + c.Cat + ":" + kind + ":" + d
}
