package main

// valid programs dense in lexical structure; every prefix (truncation at every
// byte offset) of each is a case of its own in mode "src" (category "trunc")
var truncPrograms = []string{
	"x = \"a\\x41\\n\\101\\u00e9\\U0001F600\\'\\\"\\\\\" + 'q\\\n' + b\"\\xff\\377\" + r\"\\d\" + rb'\\x'\n" +
		"y = \"\"\"tri\\\nple \\\"\"\" q\"\"\"\nz = '''a\\'''b'''\n",
	`def f(a, b=1, *c, d, **e):
  if a: return [x for x in (1, 2) if x] + [{1: 2}, {k: v for k, v in []}]
  elif b: pass
  else:
    for i, (j, k) in []: continue
  g = lambda p, *a, **k: (lambda *, z=1, **kk: z)(**k)
  return lambda q=0x1F, r=0o17, s=0b11, t=1e3, u=.5, v=1.: q if r else s
load("m", "a", b="sym")
w = f(1, d=2, *[3], **{"e": 4}) if 0 else not -~+1 * 2
w += 1 ; w //= 2 ; w <<= 3 ; w |= 4 ; (w) = "abc"[1:2:3]
`,
	"x = \"%s %(a)05d %c\" % (1,)\ny = \"{0!r:>{1}} {a.b[2]}\".format(1, 2)\nz = json.decode('{\"k\\\\\": [1, 2.5e-3, \"\\\\u12ab\\\\\"]}')\n",
}
