package main

// Generated small programs of mode "src" whose point is a SHAPE of code the
// random generators rarely produce:
//
//	callshape  every kind of callee called through the VM's CALL instruction with every
//	           argument form: f(**m), f(*s), f(*s, **m), f(1, **m), f(x=1, **m), f(*s, x=1)
//	           for mappings with non-string / mixed / many keys and non-mapping operands
//	escape     *args / **kwargs values that escape their call (returned, stored) and are
//	           used after the caller has gone on evaluating expressions that create
//	           closures and temporaries at several operand-stack depths
import (
	"fmt"
	"sort"
	"strings"
)

const callPrelude = `def fS(a = 0, b = 1, *c, d = 2, **e): return (a, b, c, d, e)
def fP(a, b): return (a, b)
def fK(**k): return k
def fV(*v): return v
lam = lambda *a, **k: (a, k)
cyc = {}
cyc["self"] = cyc
lst = []
lst.append(lst)
big = dict([(i, i) for i in range(300)])
bigs = dict([("k%d" % i, i) for i in range(300)])
`

var callees = []string{"len", "sorted", "print", "dict", "max", "str", "int", "list", "struct", "json.encode", "\"{} {a}\".format",
	"[].append", "{}.update", "{}.get", "set().union", "fS", "fP", "fK", "fV", "lam", "zip", "getattr", "time.time", "math.pow", "range", "fail"}

var mappings = []string{"{1: 2}", "{(1, 2): 3}", "{None: 1}", "{\"a\": 1}", "{\"a\": 1, 2: 3}", "{2: 3, \"a\": 1}", "{}", "{b\"k\": 1}", "big", "bigs", "{\"a\": 1, \"a b\": 2, \"\": 3}", "cyc",
	"{\"key\": 1, \"reverse\": 1}", "1", "None", "[(\"a\", 1)]", "struct(a = 1)"}

var sequences = []string{"[1, 2]", "()", "\"ab\"", "range(3)", "{1: 2}", "None", "lst", "range(300)", "1", "[[1, 2], \"a\"]"}

func callShapePrograms() []string {
	var out []string
	for _, c := range callees {
		for _, m := range mappings {
			for _, f := range []string{"(**%s)", "(1, **%s)", "(x = 1, **%s)"} {
				out = append(out, callPrelude+"r = "+c+fmt.Sprintf(f, m)+"\ns = str(r)\n")
			}
		}
		for _, s := range sequences {
			for _, f := range []string{"(*%s)", "(*%s, **{\"y\": 2})"} {
				out = append(out, callPrelude+"r = "+c+fmt.Sprintf(f, s)+"\ns = str(r)\n")
			}
		}
	}
	return out
}

// aliasPrograms: the SAME object as receiver and argument, as both operands, as
// container and element, while it is being iterated -- each with a finite step budget
func aliasPrograms() []string {
	var out []string
	mk := map[string]string{"list": "[1, 2, 3]", "dict": "{\"a\": 1, \"b\": 2}", "set": "set([1, 2, 3])", "tuple": "(1, 2, 3)", "string": "\"abc\"", "bytes": "b\"abc\"", "empty": "[]"}
	stmts := []string{
		"x.extend(x)", "x += x", "x = x + x", "x *= 2", "x.append(x)", "x.insert(0, x)", "x.remove(x)", "x.index(x)", "y = x.count(x) if type(x) == \"string\" else 0",
		"x.update(x)", "x |= x", "x &= x", "x -= x", "x ^= x", "y = x | x", "y = x & x", "y = x.union(x)", "y = x.intersection(x)", "y = x.difference(x)", "y = x.symmetric_difference(x)", "y = x.issubset(x)", "y = x.issuperset(x)",
		"x[0:0] = x", "x[x[0]] = x", "x.setdefault(\"k\", x)", "y = x.get(x)", "y = x == x", "y = x < x", "y = x in x", "y = sorted(x, key = lambda e: x)", "y = zip(x, x, x)", "y = dict(zip(x, x))", "y = list(x) + list(x)",
		"y = x.join(x)", "y = x.replace(x, x)", "y = x.split(x)", "y = x.strip(x)", "y = x.format(x, x = x)", "y = x % x", "y = x.startswith(x)", "y = x.partition(x)", "y = max(x, x)", "y = [x, x] * 2", "y = {1: x, 2: x}", "y = struct(a = x, b = x)", "y = json.encode([x, x])",
		"def f(a, b = x, *c, **d): return (a, b, c, d)\ny = f(x, x, x, k = x)", "y = (lambda v = x: v)() == x",
	}
	for kind, lit := range mk {
		for _, st := range stmts {
			for _, wrap := range []string{"%s", "def g(x):\n    %s\n    return x\nz = g(x)", "for e in x:\n    %s\n    break"} {
				body := strings.ReplaceAll(st, "\n", "\n    ")
				if wrap == "%s" {
					body = st
				}
				out = append(out, "# "+kind+"\nx = "+lit+"\n"+fmt.Sprintf(wrap, body)+"\nw = str(x)[:50]\n")
			}
		}
	}
	sort.Strings(out)
	return out
}

func escapePrograms() []string {
	var out []string
	for nargs := 1; nargs <= 6; nargs++ {
		for depth := 0; depth <= 3; depth++ {
			var args []string
			for i := 0; i < nargs; i++ {
				args = append(args, fmt.Sprint(10*(i+1)))
			}
			a := strings.Join(args, ", ")
			pad := strings.Repeat("0, ", depth)
			var b strings.Builder
			b.WriteString("def keep(*args): return args\ndef keepk(a, *rest, **kw): return (rest, kw)\ndef keepd(*args, **kw):\n    saved.append(args)\n    saved.append(kw)\n    return None\nsaved = []\n")
			b.WriteString("def caller(p, q, r):\n")
			fmt.Fprintf(&b, "    t = keep(%s)\n    u = keepk(0, %s, name_one = p, name_two = q)\n    keepd(%s, k = r)\n", a, a, a)
			// the caller goes on: closures over several locals and temporaries, created while the operand stack holds `depth` values
			fmt.Fprintf(&b, "    v = [%slambda: (p, q, r), lambda: (r, q), [lambda: p + q for _ in range(2)]]\n", pad)
			fmt.Fprintf(&b, "    w = (%s{1: lambda: (q, r)}, (lambda x = p: (x, q, r))(), \"%%s%%s\" %% (p, q), [p, q, r][::-1])\n", pad)
			fmt.Fprintf(&b, "    def inner(): return (p, q, r, t)\n    z = [%sinner, p + q * r, {p: q}, (p, (q, (r,)))]\n", pad)
			b.WriteString("    for x in (t, u[0], saved[-2]):\n        truths = [bool(e) for e in x]\n        keys = {e: 1 for e in x}\n        text = str(x) + repr(list(x))\n        hashes = {x: 1}\n        srt = sorted(x)\n        eqs = [e == e for e in x]\n")
			fmt.Fprintf(&b, "    if t != (%s,) or u[0] != (%s,) or saved[-2] != (%s,): fail(\"a *args tuple changed after its call returned:\", t, u, saved)\n", a, a, a)
			b.WriteString("    if u[1] != {\"name_one\": p, \"name_two\": q} or saved[-1] != {\"k\": r}: fail(\"a **kwargs dict changed after its call returned:\", u, saved)\n")
			b.WriteString("    return (t, u, v, w, z)\nres = caller(1, 2, 3)\nres2 = [caller(a, a + 1, a + 2)[0] for a in range(3)]\n")
			out = append(out, b.String())
		}
	}
	return out
}
