package main

func arityMain(args []string) {}
