package main

// c02 arity -repo DIR: re-derives, from the Go source, the table of built-in
// functions that coq/C02/Arity.v contains: for every function with the
// built-in signature (thread, *Builtin, args Tuple, kwargs []Tuple) the
// argument-unpacking call it makes (minimum / maximum number of positional
// arguments), the destination variables of interface type that stay nil when
// an optional argument is absent, whether the body calls a method on them and
// whether it compares them with nil first; and direct uses of args[i] together
// with whether len(args) is tested.  Standard library only (go/parser, go/ast).
import (
	"flag"
	"fmt"
	"go/ast"
	"go/parser"
	"go/token"
	"os"
	"path/filepath"
	"sort"
	"strconv"
	"strings"

	"verifharness/internal/hx"
)

type arityVar struct {
	Name     string `json:"name"`
	Type     string `json:"type"`
	Optional bool   `json:"optional"`
	Iface    bool   `json:"iface"`    // interface-typed: nil when the argument is absent
	Init     bool   `json:"init"`     // given a value before the unpack call
	Deref    bool   `json:"deref"`    // a method is called on it
	NilCheck bool   `json:"nilcheck"` // compared with nil somewhere in the body
}

type arityRow struct {
	File     string     `json:"file"`
	Line     int        `json:"line"`
	Func     string     `json:"func"`
	Unpack   string     `json:"unpack"` // positional | named | none
	Min      int        `json:"min"`
	Max      int        `json:"max"`
	Vars     []arityVar `json:"vars"`
	ArgIndex int        `json:"argindex"` // 1 + largest constant i in args[i], 0 if none
	LenCheck bool       `json:"lencheck"` // len(args) appears in the body
}

var arityFiles = []string{"starlark/library.go", "lib/json/json.go", "lib/math/math.go", "lib/time/time.go", "starlarkstruct/struct.go", "starlarkstruct/module.go"}

var ifaceTypes = map[string]bool{"Value": true, "Iterable": true, "Callable": true, "Sequence": true, "Indexable": true, "Mapping": true,
	"IterableMapping": true, "Iterator": true, "HasAttrs": true, "Sliceable": true, "Comparable": true}

func typeString(e ast.Expr) string {
	switch t := e.(type) {
	case *ast.Ident:
		return t.Name
	case *ast.SelectorExpr:
		return typeString(t.X) + "." + t.Sel.Name
	case *ast.StarExpr:
		return "*" + typeString(t.X)
	case *ast.ArrayType:
		return "[]" + typeString(t.Elt)
	case *ast.MapType:
		return "map[" + typeString(t.Key) + "]" + typeString(t.Value)
	case *ast.InterfaceType:
		return "interface{}"
	case *ast.FuncType:
		return "func"
	}
	return fmt.Sprintf("%T", e)
}

func isBuiltinSig(ft *ast.FuncType) (argsName string, ok bool) {
	if ft.Params == nil {
		return "", false
	}
	var types []string
	var names []string
	for _, f := range ft.Params.List {
		n := len(f.Names)
		if n == 0 {
			n = 1
		}
		for k := 0; k < n; k++ {
			types = append(types, typeString(f.Type))
			if k < len(f.Names) {
				names = append(names, f.Names[k].Name)
			} else {
				names = append(names, "_")
			}
		}
	}
	if len(types) != 4 {
		return "", false
	}
	strip := func(s string) string { return strings.Replace(s, "starlark.", "", 1) }
	if strip(types[0]) != "*Thread" || strip(types[1]) != "*Builtin" || strip(types[2]) != "Tuple" || strip(types[3]) != "[]Tuple" {
		return "", false
	}
	return names[2], true
}

func analyseBuiltin(fset *token.FileSet, rel, name string, ft *ast.FuncType, body *ast.BlockStmt) arityRow {
	argsName, _ := isBuiltinSig(ft)
	row := arityRow{File: rel, Line: fset.Position(body.Pos()).Line, Func: name, Unpack: "none"}
	varType := map[string]string{}
	inited := map[string]bool{}
	var unpackPos token.Pos
	var targets []string
	var optional []bool
	// declarations and the unpack call
	ast.Inspect(body, func(n ast.Node) bool {
		switch x := n.(type) {
		case *ast.FuncLit:
			if _, ok := isBuiltinSig(x.Type); ok {
				return false // analysed separately
			}
		case *ast.GenDecl:
			for _, sp := range x.Specs {
				if vs, ok := sp.(*ast.ValueSpec); ok {
					for _, id := range vs.Names {
						if vs.Type != nil {
							varType[id.Name] = typeString(vs.Type)
						}
						if len(vs.Values) > 0 {
							inited[id.Name] = true
							if vs.Type == nil {
								varType[id.Name] = "inferred"
							}
						}
					}
				}
			}
		case *ast.AssignStmt:
			if unpackPos == token.NoPos || x.Pos() < unpackPos {
				for _, l := range x.Lhs {
					if id, ok := l.(*ast.Ident); ok {
						inited[id.Name] = true
						if _, known := varType[id.Name]; !known {
							varType[id.Name] = "inferred"
						}
					}
				}
			}
		case *ast.CallExpr:
			fn := typeString(x.Fun)
			fn = strings.TrimPrefix(fn, "starlark.")
			if row.Unpack != "none" {
				break
			}
			switch fn {
			case "UnpackPositionalArgs", "unpackPositionalArgsNoEscape":
				if len(x.Args) >= 4 {
					row.Unpack = "positional"
					unpackPos = x.Pos()
					if bl, ok := x.Args[3].(*ast.BasicLit); ok {
						row.Min, _ = strconv.Atoi(bl.Value)
					} else {
						row.Min = -1
					}
					for i, a := range x.Args[4:] {
						targets = append(targets, targetName(a))
						optional = append(optional, i >= row.Min)
					}
					row.Max = len(x.Args) - 4
				}
			case "UnpackArgs", "unpackArgsNoEscape":
				if len(x.Args) >= 3 {
					row.Unpack = "named"
					unpackPos = x.Pos()
					opt := false
					for i := 3; i+1 < len(x.Args); i += 2 {
						pn := ""
						if bl, ok := x.Args[i].(*ast.BasicLit); ok {
							pn, _ = strconv.Unquote(bl.Value)
						}
						if strings.HasSuffix(pn, "?") {
							opt = true
						}
						if !opt {
							row.Min++
						}
						row.Max++
						targets = append(targets, targetName(x.Args[i+1]))
						optional = append(optional, opt)
					}
					if len(x.Args) > 1 {
						if id, ok := x.Args[1].(*ast.Ident); ok && id.Name == "nil" {
							// positional arguments not accepted at all (keyword-only)
							row.Unpack = "named-kwonly"
						}
					}
				}
			}
		}
		return true
	})
	// uses
	deref := map[string]bool{}
	nilcheck := map[string]bool{}
	ast.Inspect(body, func(n ast.Node) bool {
		switch x := n.(type) {
		case *ast.FuncLit:
			if _, ok := isBuiltinSig(x.Type); ok {
				return false
			}
		case *ast.CallExpr:
			if se, ok := x.Fun.(*ast.SelectorExpr); ok {
				if id, ok := se.X.(*ast.Ident); ok {
					deref[id.Name] = true
				}
			}
			if id, ok := x.Fun.(*ast.Ident); ok && id.Name == "len" && len(x.Args) == 1 {
				if a, ok := x.Args[0].(*ast.Ident); ok && a.Name == argsName {
					row.LenCheck = true
				}
			}
		case *ast.BinaryExpr:
			if x.Op == token.EQL || x.Op == token.NEQ {
				l, lok := x.X.(*ast.Ident)
				r, rok := x.Y.(*ast.Ident)
				if lok && rok {
					if r.Name == "nil" {
						nilcheck[l.Name] = true
					}
					if l.Name == "nil" {
						nilcheck[r.Name] = true
					}
				}
			}
		case *ast.IndexExpr:
			if id, ok := x.X.(*ast.Ident); ok && id.Name == argsName && argsName != "_" {
				if bl, ok := x.Index.(*ast.BasicLit); ok {
					if k, err := strconv.Atoi(bl.Value); err == nil && k+1 > row.ArgIndex {
						row.ArgIndex = k + 1
					}
				} else if row.ArgIndex == 0 {
					row.ArgIndex = 1 // non-constant index
				}
			}
		case *ast.RangeStmt:
			if id, ok := x.X.(*ast.Ident); ok && id.Name == argsName {
				row.LenCheck = true // ranging over args is always in bounds
			}
		}
		return true
	})
	for i, t := range targets {
		ty := varType[t]
		base := strings.TrimPrefix(ty, "starlark.")
		row.Vars = append(row.Vars, arityVar{Name: t, Type: ty, Optional: optional[i], Iface: ifaceTypes[base], Init: inited[t], Deref: deref[t], NilCheck: nilcheck[t]})
	}
	return row
}

func targetName(e ast.Expr) string {
	if u, ok := e.(*ast.UnaryExpr); ok && u.Op == token.AND {
		return typeString(u.X)
	}
	return typeString(e)
}

func arityRows(repo string) ([]arityRow, error) {
	var rows []arityRow
	fset := token.NewFileSet()
	for _, rel := range arityFiles {
		f, err := parser.ParseFile(fset, filepath.Join(repo, rel), nil, 0)
		if err != nil {
			return nil, err
		}
		for _, d := range f.Decls {
			fd, ok := d.(*ast.FuncDecl)
			if !ok || fd.Body == nil {
				continue
			}
			if _, ok := isBuiltinSig(fd.Type); ok {
				rows = append(rows, analyseBuiltin(fset, rel, fd.Name.Name, fd.Type, fd.Body))
			}
			k := 0
			ast.Inspect(fd.Body, func(n ast.Node) bool {
				if fl, ok := n.(*ast.FuncLit); ok {
					if _, ok := isBuiltinSig(fl.Type); ok {
						k++
						rows = append(rows, analyseBuiltin(fset, rel, fmt.Sprintf("%s#%d", fd.Name.Name, k), fl.Type, fl.Body))
					}
				}
				return true
			})
		}
	}
	sort.SliceStable(rows, func(i, j int) bool {
		if rows[i].File != rows[j].File {
			return rows[i].File < rows[j].File
		}
		return rows[i].Func < rows[j].Func
	})
	return rows, nil
}

func arityMain(args []string) {
	fs := flag.NewFlagSet("arity", flag.ExitOnError)
	repo := fs.String("repo", "/repo", "")
	fs.Parse(args)
	rows, err := arityRows(*repo)
	if err != nil {
		fmt.Fprintln(os.Stderr, err)
		os.Exit(1)
	}
	for _, r := range rows {
		hx.Emit(map[string]any{"kind": "arity", "row": r})
	}
	hx.Flush()
}
