package main

// Mode "cycles": random object graphs (reference cycles through lists, dicts,
// tuples, closures - cells and default values -, structs, bound methods),
// built by a generated Starlark program, under one operation per case:
// str/repr/==/</hash (dict key)/freeze/json.encode/sorted/in/%-format/print.
// The graph is described in the vocabulary of coq/C02/Traverse.v (objects by
// index, closure cells in their own index space) so that checks/c02.py can
// evaluate the Coq model on the same heap and compare the predicted class
// (value / error / recursion-never-ends) with what the child process observed.
import (
	"encoding/json"
	"fmt"
	"strings"

	sjson "go.starlark.net/lib/json"
	"go.starlark.net/starlark"
	"go.starlark.net/starlarkstruct"
	"go.starlark.net/syntax"

	"verifharness/internal/hx"
)

func jsonUnmarshal(s string, v any) error { return json.Unmarshal([]byte(s), v) }

type gobj struct {
	Kind  string   `json:"kind"` // none int list dict set tuple struct func builtin
	Val   int64    `json:"val,omitempty"`
	Ch    []int    `json:"ch,omitempty"`    // list/tuple elements, dict values, struct field values, func defaults
	Keys  []string `json:"keys,omitempty"`  // dict keys "s:<name>" / "i:<int>"; struct field names
	Ints  []int64  `json:"ints,omitempty"`  // set elements
	Cells []int    `json:"cells,omitempty"` // func: indices into Graph.Cells
	Recv  int      `json:"recv"`            // builtin: receiver object or -1
}

type graph struct {
	Objs  []gobj `json:"objs"`
	Cells []int  `json:"cells"` // content of each cell: object index, or -1 = the variable is still unassigned (nil cell)
	Root  int    `json:"root"`
	Other int    `json:"other"`
	Shape string `json:"shape"` // template name or "random"
}

var cycleOps = []string{"str", "repr", "eq_self", "eq", "lt", "hash", "freeze", "json", "sorted", "in_list", "format", "print", "index", "freeze_str", "neq", "dictkey_lookup"}

type cycleMode struct {
	o      *opts
	n      int64
	single *struct {
		G  graph  `json:"graph"`
		Op string `json:"op"`
	}
}

func newCycleMode(o *opts) *cycleMode {
	m := &cycleMode{o: o, n: 400}
	if o.tier == "thorough" {
		m.n = 6000
	}
	if o.n > 0 {
		m.n = o.n
	}
	if o.single != "" {
		m.single = new(struct {
			G  graph  `json:"graph"`
			Op string `json:"op"`
		})
		if err := jsonUnmarshal(o.single, m.single); err != nil {
			panic(err)
		}
	}
	return m
}

func (m *cycleMode) Count() int64 {
	if m.single != nil {
		return 1
	}
	return m.n * int64(len(cycleOps))
}

// fixed shapes first (the ones the property text names), then random graphs
func templates() []graph {
	L := func(ch ...int) gobj { return gobj{Kind: "list", Ch: ch, Recv: -1} }
	T := func(ch ...int) gobj { return gobj{Kind: "tuple", Ch: ch, Recv: -1} }
	D := func(keys []string, ch ...int) gobj { return gobj{Kind: "dict", Keys: keys, Ch: ch, Recv: -1} }
	S := func(keys []string, ch ...int) gobj { return gobj{Kind: "struct", Keys: keys, Ch: ch, Recv: -1} }
	I := func(v int64) gobj { return gobj{Kind: "int", Val: v, Recv: -1} }
	F := func(defs []int, cells ...int) gobj { return gobj{Kind: "func", Ch: defs, Cells: cells, Recv: -1} }
	B := func(recv int) gobj { return gobj{Kind: "builtin", Recv: recv} }
	return []graph{
		{Shape: "list-self", Objs: []gobj{L(0)}},
		{Shape: "dict-self", Objs: []gobj{D([]string{"s:k"}, 0)}},
		{Shape: "list-dict", Objs: []gobj{L(1), D([]string{"s:k"}, 0)}},
		{Shape: "list-tuple-list", Objs: []gobj{L(1), T(0, 0)}, Root: 1},
		{Shape: "two-isomorphic-self-lists", Objs: []gobj{L(0), L(1)}, Root: 0, Other: 1},
		{Shape: "struct-in-own-list", Objs: []gobj{L(1), S([]string{"x"}, 0)}},
		{Shape: "struct-in-own-list-root-struct", Objs: []gobj{L(1), S([]string{"x"}, 0)}, Root: 1, Other: 1},
		{Shape: "struct-dict-struct", Objs: []gobj{I(7), D([]string{"s:a"}, 2), S([]string{"f", "g"}, 1, 0)}, Root: 2},
		{Shape: "closure-self-cell", Objs: []gobj{F(nil, 0)}, Cells: []int{0}},
		{Shape: "closure-cell-list-closure", Objs: []gobj{L(1), F(nil, 0)}, Cells: []int{0}, Root: 1},
		{Shape: "closure-default-list-closure", Objs: []gobj{L(1), F([]int{0})}, Root: 1},
		{Shape: "mutual-closures-through-list", Objs: []gobj{L(1, 2), F(nil, 0), F(nil, 1)}, Cells: []int{0, 0}, Root: 2},
		{Shape: "bound-method-in-own-list", Objs: []gobj{L(1), B(0)}},
		{Shape: "tuple-struct-list", Objs: []gobj{L(2), S([]string{"a"}, 0), T(1, 1)}, Root: 2},
		{Shape: "deep-tuple-chain-in-list", Objs: []gobj{L(4), T(0), T(1), T(2), T(3)}, Root: 4},
		{Shape: "dict-intkey-self", Objs: []gobj{D([]string{"i:1", "s:z"}, 0, 1), I(3)}},
		{Shape: "list-of-two-self", Objs: []gobj{L(0, 0)}},
		{Shape: "closure-unassigned-cell", Objs: []gobj{F(nil, 0)}, Cells: []int{-1}},
		{Shape: "closure-unassigned-and-self", Objs: []gobj{L(1), F([]int{0}, 0, 1, 2)}, Cells: []int{-1, 1, 0}, Root: 1},
		{Shape: "default-is-closure-with-unassigned-cell", Objs: []gobj{F(nil, 0), F([]int{0}, 1), T(1, 0)}, Cells: []int{-1, -1}, Root: 2},
		{Shape: "struct-dict-of-closures-unassigned", Objs: []gobj{F(nil, 0, 1), D([]string{"s:f"}, 0), S([]string{"g"}, 1)}, Cells: []int{-1, -1}, Root: 2},
		{Shape: "acyclic-nested", Objs: []gobj{I(1), T(0, 0), L(1, 0), D([]string{"s:a", "s:b"}, 2, 1), S([]string{"p", "q"}, 3, 0)}, Root: 4, Other: 4},
	}
}

func (m *cycleMode) graphOf(g int64) graph {
	ts := templates()
	if g < int64(len(ts)) {
		gr := ts[g]
		if gr.Other == 0 && gr.Root != 0 && len(gr.Objs) > 0 && gr.Shape != "two-isomorphic-self-lists" {
			gr.Other = gr.Root
		}
		return gr
	}
	r := hx.NewRand(m.o.seed*7919 + uint64(g)).Split()
	n := 2 + r.Intn(8)
	gr := graph{Shape: "random"}
	kinds := []string{"list", "list", "dict", "tuple", "tuple", "struct", "func", "func", "builtin", "int", "none", "set", "list", "dict", "tuple", "int"}
	var mutables []int
	for i := 0; i < n; i++ {
		k := hx.Pick(r, kinds)
		if i == 0 {
			k = hx.Pick(r, []string{"list", "dict"})
		}
		o := gobj{Kind: k, Recv: -1}
		prev := func() int { return r.Intn(i) }
		switch k {
		case "int":
			o.Val = int64(r.Intn(4))
		case "list", "dict":
			mutables = append(mutables, i)
		case "set":
			for j := r.Intn(3); j > 0; j-- {
				v := int64(r.Intn(4))
				dup := false
				for _, w := range o.Ints {
					dup = dup || w == v
				}
				if !dup {
					o.Ints = append(o.Ints, v)
				}
			}
		case "tuple":
			for j := r.Intn(3); j >= 0 && i > 0; j-- {
				o.Ch = append(o.Ch, prev())
			}
		case "struct":
			nf := r.Intn(3)
			for j := 0; j < nf && i > 0; j++ {
				o.Keys = append(o.Keys, fmt.Sprintf("f%d", j))
				o.Ch = append(o.Ch, prev())
			}
		case "func":
			for j := r.Intn(2); j > 0 && i > 0; j-- {
				o.Ch = append(o.Ch, prev())
			}
			for j := r.Intn(3); j > 0; j-- {
				c := i // self
				if i > 0 && r.Intn(3) > 0 {
					c = prev()
				}
				if r.Intn(4) == 0 {
					c = -1 // captured variable that is never assigned
				}
				o.Cells = append(o.Cells, len(gr.Cells))
				gr.Cells = append(gr.Cells, c)
			}
		case "builtin":
			// bound method of an earlier list/dict, else a plain built-in
			var cands []int
			for j := 0; j < i; j++ {
				if gr.Objs[j].Kind == "list" || gr.Objs[j].Kind == "dict" {
					cands = append(cands, j)
				}
			}
			if len(cands) > 0 && r.Intn(4) > 0 {
				o.Recv = hx.Pick(r, cands)
			}
		}
		gr.Objs = append(gr.Objs, o)
	}
	// fill the mutable containers: edges to ANY object (this is where cycles come from)
	for _, i := range mutables {
		o := &gr.Objs[i]
		ne := r.Intn(4)
		if i == 0 && ne == 0 {
			ne = 1
		}
		for j := 0; j < ne; j++ {
			c := r.Intn(n)
			if r.Intn(3) == 0 && c < i { // bias to back edges from later objects
				c = i + r.Intn(n-i)
			}
			o.Ch = append(o.Ch, c)
			if o.Kind == "dict" {
				if r.Intn(6) == 0 {
					o.Keys = append(o.Keys, fmt.Sprintf("i:%d", j))
				} else {
					o.Keys = append(o.Keys, fmt.Sprintf("s:k%d", j))
				}
			}
		}
	}
	gr.Root = r.Intn(n)
	if r.Intn(2) == 0 {
		gr.Root = 0
	}
	gr.Other = r.Intn(n)
	if r.Intn(3) == 0 {
		gr.Other = gr.Root
	}
	return gr
}

func (m *cycleMode) decode(i int64) (graph, string) {
	if m.single != nil {
		return m.single.G, m.single.Op
	}
	return m.graphOf(i / int64(len(cycleOps))), cycleOps[i%int64(len(cycleOps))]
}

// source builds the graph in index order, then fills the mutable containers.
func (g graph) source() string {
	var b strings.Builder
	name := func(i int) string { return fmt.Sprintf("o%d", i) }
	for i, o := range g.Objs {
		switch o.Kind {
		case "none":
			fmt.Fprintf(&b, "o%d = None\n", i)
		case "int":
			fmt.Fprintf(&b, "o%d = %d\n", i, o.Val)
		case "list":
			fmt.Fprintf(&b, "o%d = []\n", i)
		case "dict":
			fmt.Fprintf(&b, "o%d = {}\n", i)
		case "set":
			var xs []string
			for _, v := range o.Ints {
				xs = append(xs, fmt.Sprint(v))
			}
			fmt.Fprintf(&b, "o%d = set([%s])\n", i, strings.Join(xs, ", "))
		case "tuple":
			var xs []string
			for _, c := range o.Ch {
				xs = append(xs, name(c))
			}
			if len(xs) == 0 {
				fmt.Fprintf(&b, "o%d = ()\n", i)
			} else {
				fmt.Fprintf(&b, "o%d = (%s,)\n", i, strings.Join(xs, ", "))
			}
		case "struct":
			var xs []string
			for j, c := range o.Ch {
				xs = append(xs, o.Keys[j]+"="+name(c))
			}
			fmt.Fprintf(&b, "o%d = struct(%s)\n", i, strings.Join(xs, ", "))
		case "builtin":
			if o.Recv >= 0 {
				meth := "append"
				if g.Objs[o.Recv].Kind == "dict" {
					meth = "get"
				}
				fmt.Fprintf(&b, "o%d = o%d.%s\n", i, o.Recv, meth)
			} else {
				fmt.Fprintf(&b, "o%d = len\n", i)
			}
		case "func":
			fmt.Fprintf(&b, "def mk%d():\n", i)
			var ps, cs []string
			for j, d := range o.Ch {
				ps = append(ps, fmt.Sprintf("p%d=%s", j, name(d)))
			}
			for j, c := range o.Cells {
				cs = append(cs, fmt.Sprintf("c%d", j))
				if g.Cells[c] < 0 {
					// assigned only on a branch that is not taken: the cell exists and stays nil
					fmt.Fprintf(&b, "    if len([]):\n        c%d = None\n", j)
				} else if g.Cells[c] != i {
					fmt.Fprintf(&b, "    c%d = %s\n", j, name(g.Cells[c]))
				}
			}
			fmt.Fprintf(&b, "    def f%d(%s): return (%s)\n", i, strings.Join(ps, ", "), strings.Join(cs, ", "))
			for j, c := range o.Cells {
				if g.Cells[c] == i {
					fmt.Fprintf(&b, "    c%d = f%d\n", j, i)
				}
			}
			fmt.Fprintf(&b, "    return f%d\no%d = mk%d()\n", i, i, i)
		}
	}
	for i, o := range g.Objs {
		switch o.Kind {
		case "list":
			for _, c := range o.Ch {
				fmt.Fprintf(&b, "o%d.append(%s)\n", i, name(c))
			}
		case "dict":
			for j, c := range o.Ch {
				k := o.Keys[j]
				if strings.HasPrefix(k, "s:") {
					fmt.Fprintf(&b, "o%d[%q] = %s\n", i, k[2:], name(c))
				} else {
					fmt.Fprintf(&b, "o%d[%s] = %s\n", i, k[2:], name(c))
				}
			}
		}
	}
	return b.String()
}

func opSource(op string, r, s int) string {
	R, S := fmt.Sprintf("o%d", r), fmt.Sprintf("o%d", s)
	switch op {
	case "str":
		return "x = str(" + R + ")\n"
	case "repr":
		return "x = repr(" + R + ")\n"
	case "eq_self":
		return "x = (" + R + " == " + R + ")\n"
	case "eq":
		return "x = (" + R + " == " + S + ")\n"
	case "neq":
		return "x = (" + R + " != " + S + ")\n"
	case "lt":
		return "x = (" + R + " < " + S + ")\n"
	case "hash":
		return "x = {" + R + ": 1}\n"
	case "dictkey_lookup":
		return "x = {(1, 2): 1}.get(" + R + ")\n"
	case "json":
		return "x = json.encode(" + R + ")\n"
	case "sorted":
		return "x = sorted([" + R + ", " + S + "])\n"
	case "in_list":
		return "x = " + R + " in [" + S + "]\n"
	case "index":
		return "x = [" + S + ", " + R + "].index(" + R + ")\n"
	case "format":
		return "x = \"%s|%r\" % (" + R + ", " + R + ") + \"{}\".format(" + R + ")\n"
	case "print":
		return "print(" + R + ")\n"
	}
	return "x = 0\n" // freeze, freeze_str: done from Go after the module has run
}

func (m *cycleMode) Run(i int64) string {
	g, op := m.decode(i)
	src := g.source() + opSource(op, g.Root, g.Other)
	thread := &starlark.Thread{Name: "c02", Print: func(*starlark.Thread, string) {}}
	thread.SetMaxExecutionSteps(1000000)
	pre := starlark.StringDict{"struct": starlark.NewBuiltin("struct", starlarkstruct.Make), "json": sjson.Module}
	_, prog, err := starlark.SourceProgramOptions(&syntax.FileOptions{Set: true, GlobalReassign: true}, "cycle.star", src, pre.Has)
	if err != nil {
		return "skip:generator-produced-invalid-program:" + err.Error()
	}
	globals, err := prog.Init(thread, pre) // no freeze here: only the freeze ops freeze
	if err != nil {
		_ = err.Error()
		return "error"
	}
	switch op {
	case "freeze":
		globals.Freeze()
	case "freeze_str":
		globals.Freeze()
		_ = globals[fmt.Sprintf("o%d", g.Root)].String()
	}
	return "value"
}

func (m *cycleMode) Describe(i int64) map[string]any {
	g, op := m.decode(i)
	return map[string]any{"graph": g, "op": op, "source": g.source() + opSource(op, g.Root, g.Other)}
}

func (m *cycleMode) Obs(i int64, class string) map[string]any {
	g, op := m.decode(i)
	return map[string]any{"graph": g, "op": op, "class": class, "i": i}
}

func (m *cycleMode) Dist(i int64) string {
	g, op := m.decode(i)
	return g.Shape + "/" + op
}

// Key: operation and the recursion that never ended (function names from the
// fatal error's stack), or the panic message.
func (m *cycleMode) Key(i int64, kind, detail string) string {
	_, op := m.decode(i)
	g, _ := m.decode(i)
	hasStruct, hasFunc := false, false
	for _, o := range g.Objs {
		hasStruct = hasStruct || o.Kind == "struct"
		hasFunc = hasFunc || o.Kind == "func"
	}
	_ = hasFunc
	d := shortDetail(detail)
	if kind == "fatal" && strings.HasPrefix(d, "stack-overflow") {
		// the operation is part of the key only through the recursion it enters
		return "cycle:" + d
	}
	return "cycle:" + op + ":" + kind + ":" + d
}
