// c02: "nothing crashes the host".  Every case runs in a CHILD process; the
// parent observes value / error / recovered panic / fatal error / timeout.
//
//	c02 calls  -tier quick|thorough -seed N   built-in calls x argument tuples
//	c02 cycles -n N -seed N                   cyclic value graphs x operations
//	c02 src    -n N -seed N                   source texts x FileOptions
//	c02 arity  -repo DIR                      built-in arity table from the source (go/ast)
//	c02 replay <json>                         re-run one recorded case (in a child)
//	c02 child  <mode> ...                     (internal) worker
//
// Worker protocol: the parent gives the worker an index range [lo,hi) of a
// deterministic case enumeration and a small state file.  Before a case runs
// the worker stores its index in the (memory-mapped) state file, so that when
// the process dies of a fatal error (stack overflow, out of memory) the parent
// knows the single failing case without bisection; it records it, re-runs
// that case alone in a fresh child with default runtime limits to confirm,
// and restarts the worker after it.  Go panics are recovered in the worker
// and reported as class "panic".
package main

import (
	"bytes"
	"encoding/binary"
	"encoding/json"
	"flag"
	"fmt"
	"os"
	"os/exec"
	"regexp"
	"runtime/debug"
	"sort"
	"strings"
	"sync"
	"syscall"
	"time"

	"verifharness/internal/hx"
)

// A mode enumerates cases by index.
type mode interface {
	// count of cases in the enumeration
	Count() int64
	// Run executes case i and returns its class ("value", "error", or "skip:...").
	Run(i int64) string
	// Describe returns a replayable, human-readable description of case i.
	Describe(i int64) map[string]any
	// Key names the input class of case i for a finding of the given kind.
	Key(i int64, kind string, detail string) string
}

type outcome struct {
	Mode   string         `json:"mode"`
	I      int64          `json:"i"`
	Class  string         `json:"class"`  // panic fatal timeout
	Detail string         `json:"detail"` // panic message / first line of the fatal error
	Frames string         `json:"frames,omitempty"`
	Key    string         `json:"key"`
	Case   map[string]any `json:"case"`
	Conf   string         `json:"confirmed"` // class observed when re-run alone with default limits
}

type summary struct {
	Mode   string           `json:"mode"`
	Ran    int64            `json:"ran"`
	Counts map[string]int64 `json:"counts"`
	Dist   map[string]int64 `json:"dist,omitempty"`
}

var (
	caseTimeout = 8 * time.Second
	maxStackMB  = 8
	asLimitMB   = 3072
)

func main() {
	if len(os.Args) < 2 {
		fmt.Fprintln(os.Stderr, "usage: c02 calls|cycles|src|arity|replay|child ...")
		os.Exit(2)
	}
	switch os.Args[1] {
	case "child":
		childMain(os.Args[2:])
	case "arity":
		arityMain(os.Args[2:])
	case "replay":
		replayMain(os.Args[2:])
	case "calls", "cycles", "src":
		parentMain(os.Args[1], os.Args[2:])
	default:
		fmt.Fprintln(os.Stderr, "unknown mode", os.Args[1])
		os.Exit(2)
	}
}

// ---------------------------------------------------------------- mode setup

type opts struct {
	tier    string
	seed    uint64
	n       int64
	workers int
	emit    bool
	single  string // JSON description of one case (replay)
}

func parseOpts(name string, args []string) (*opts, []string) {
	fs := flag.NewFlagSet(name, flag.ExitOnError)
	o := &opts{}
	fs.StringVar(&o.tier, "tier", "quick", "")
	fs.Uint64Var(&o.seed, "seed", 1, "")
	fs.Int64Var(&o.n, "n", 0, "number of sampled cases (0 = tier default)")
	fs.IntVar(&o.workers, "workers", 6, "")
	fs.BoolVar(&o.emit, "emit", false, "emit one observation per case (for the Coq correspondence)")
	fs.StringVar(&o.single, "single", "", "")
	fs.Parse(args)
	return o, fs.Args()
}

func newMode(name string, o *opts) mode {
	switch name {
	case "calls":
		return newCallMode(o)
	case "cycles":
		return newCycleMode(o)
	case "src":
		return newSrcMode(o)
	}
	panic("no mode " + name)
}

// -------------------------------------------------------------------- parent

type span struct{ lo, hi int64 }

func parentMain(name string, args []string) {
	o, _ := parseOpts(name, args)
	m := newMode(name, o)
	total := m.Count()
	chunk := total/int64(o.workers*8) + 1
	if name == "src" {
		// growing the Go stack for the first deeply nested source costs seconds
		// per process: few, long-lived workers
		chunk = total/int64(o.workers*2) + 1
	}
	if chunk > 200000 {
		chunk = 200000
	}
	var spans []span
	for lo := int64(0); lo < total; lo += chunk {
		hi := lo + chunk
		if hi > total {
			hi = total
		}
		spans = append(spans, span{lo, hi})
	}
	if sp, ok := m.(interface{ Spans(int) []span }); ok {
		spans = sp.Spans(o.workers)
	}
	var mu sync.Mutex
	tot := summary{Mode: name, Counts: map[string]int64{}, Dist: map[string]int64{}}
	seenKey := map[string]bool{}
	var outs []outcome
	var obsLines [][]byte
	work := make(chan span, len(spans))
	for _, s := range spans {
		work <- s
	}
	close(work)
	var wg sync.WaitGroup
	for w := 0; w < o.workers; w++ {
		wg.Add(1)
		go func(w int) {
			defer wg.Done()
			for s := range work {
				lo := s.lo
				for lo < s.hi {
					t0 := time.Now()
					res := runWorker(name, args, lo, s.hi, false)
					if os.Getenv("C02_SLOW") != "" {
						fmt.Fprintf(os.Stderr, "span [%d,%d) ran to %d in %v died=%d %s\n", lo, s.hi, res.died, time.Since(t0), res.died, res.class)
					}
					mu.Lock()
					tot.Ran += res.sum.Ran
					for k, v := range res.sum.Counts {
						tot.Counts[k] += v
					}
					for k, v := range res.sum.Dist {
						tot.Dist[k] += v
					}
					obsLines = append(obsLines, res.obs...)
					for _, oc := range res.outs {
						if !seenKey[oc.Key] {
							seenKey[oc.Key] = true
							outs = append(outs, oc)
						}
					}
					mu.Unlock()
					if res.died < 0 {
						break
					}
					// the worker died at case res.died
					oc := outcome{Mode: name, I: res.died, Class: res.class, Detail: res.detail, Frames: res.frames,
						Case: m.Describe(res.died)}
					oc.Key = m.Key(res.died, res.class, res.detail+" "+res.frames)
					unbounded := res.class == "timeout" && strings.HasSuffix(oc.Key, "unbounded-work-on-huge-argument")
					mu.Lock()
					tot.Counts[res.class]++
					tot.Ran++
					dup := seenKey[oc.Key]
					if !dup && res.class != "oom" {
						seenKey[oc.Key] = true
					}
					mu.Unlock()
					if !dup && unbounded {
						oc.Conf = "timeout"
						mu.Lock()
						outs = append(outs, oc)
						mu.Unlock()
					} else if !dup && res.class != "oom" {
						// confirm alone, default runtime limits, long timeout; the
						// confirming run decides class and key (a timeout under load
						// that ends normally when run alone is not a failure)
						c := runWorker(name, args, res.died, res.died+1, true)
						if c.died >= 0 && c.class == "timeout" && res.class == "fatal" {
							oc.Conf = "timeout (the larger stack did not fill within the limit)"
						} else if c.died >= 0 {
							oc.Conf = c.class
							oc.Class, oc.Detail, oc.Frames = c.class, c.detail, c.frames
							oc.Key = m.Key(res.died, c.class, c.detail+" "+c.frames)
						} else if len(c.outs) > 0 {
							oc.Conf = "panic"
						} else {
							oc.Conf = "no-failure"
							for k := range c.sum.Counts {
								oc.Conf = k
							}
						}
						mu.Lock()
						if oc.Conf == "oom" {
							// outside the claim
						} else if !seenKey[oc.Key] || oc.Key == m.Key(res.died, res.class, res.detail+" "+res.frames) {
							seenKey[oc.Key] = true
							outs = append(outs, oc)
						}
						mu.Unlock()
					}
					lo = res.died + 1
				}
			}
		}(w)
	}
	wg.Wait()
	sort.Slice(outs, func(i, j int) bool { return outs[i].Key < outs[j].Key })
	for _, l := range obsLines {
		os.Stdout.Write(l)
		os.Stdout.Write([]byte("\n"))
	}
	for _, oc := range outs {
		hx.Emit(map[string]any{"kind": "outcome", "o": oc})
	}
	hx.Emit(map[string]any{"kind": "summary", "s": tot, "total": total})
	hx.Flush()
}

type workerResult struct {
	sum    summary
	outs   []outcome
	obs    [][]byte
	died   int64 // index of the case during which the worker died, or -1
	class  string
	detail string
	frames string
}

var goroutineFrame = regexp.MustCompile(`(?m)^([A-Za-z0-9_./\-]+(?:\(\*?[A-Za-z0-9_]+\))?[A-Za-z0-9_.]*)\(`)

// classifyDeath turns the stderr of a dead worker into (class, detail, frames).
func classifyDeath(stderr string, timedOut bool) (string, string, string) {
	if timedOut || strings.Contains(stderr, "C02-WATCHDOG") {
		return "timeout", "case exceeded its wall-clock limit", ""
	}
	first := ""
	for _, l := range strings.Split(stderr, "\n") {
		if strings.HasPrefix(l, "fatal error:") || strings.HasPrefix(l, "panic:") || strings.HasPrefix(l, "runtime:") {
			first = l
			if strings.HasPrefix(l, "fatal error:") {
				break
			}
		}
	}
	low := strings.ToLower(stderr[:min(len(stderr), 4000)])
	if strings.Contains(low, "out of memory") || strings.Contains(low, "cannot allocate memory") {
		return "oom", first, ""
	}
	// the functions that occur repeatedly among the top frames name the
	// recursion (leaf frames, which occur once, are dropped)
	cnt := map[string]int{}
	n := 0
	for _, mm := range goroutineFrame.FindAllStringSubmatch(stderr, -1) {
		f := mm[1]
		if strings.HasPrefix(f, "runtime.") || strings.HasPrefix(f, "main.") || strings.Contains(f, "verifharness") {
			continue
		}
		n++
		if n > 90 {
			break
		}
		if i := strings.LastIndex(f, "/"); i >= 0 {
			f = f[i+1:]
		}
		cnt[f]++
	}
	var names []string
	for f, c := range cnt {
		if c >= 3 {
			names = append(names, f)
		}
	}
	sort.Strings(names)
	if len(names) > 8 {
		names = names[:8]
	}
	return "fatal", first, strings.Join(names, "+")
}

func runWorker(name string, args []string, lo, hi int64, confirm bool) workerResult {
	st, err := os.CreateTemp("", "c02state")
	if err != nil {
		panic(err)
	}
	st.Write(make([]byte, 16))
	st.Close()
	defer os.Remove(st.Name())
	cargs := []string{"child", name, "-lo", fmt.Sprint(lo), "-hi", fmt.Sprint(hi), "-state", st.Name()}
	if confirm {
		cargs = append(cargs, "-defaults")
	}
	cargs = append(cargs, "--")
	cargs = append(cargs, args...)
	cmd := exec.Command(os.Args[0], cargs...)
	cmd.Env = append(os.Environ(), "GODEBUG=gcshrinkstackoff=1")
	var so, se bytes.Buffer
	cmd.Stdout = &so
	cmd.Stderr = &limitWriter{w: &se, n: 1 << 20}
	if err := cmd.Start(); err != nil {
		panic(err)
	}
	done := make(chan error, 1)
	go func() { done <- cmd.Wait() }()
	// backstop: the worker has its own watchdog; kill it if its state does not advance
	timedOut := false
	var last uint64
	lastChange := time.Now()
	tick := time.NewTicker(500 * time.Millisecond)
	defer tick.Stop()
	var werr error
loop:
	for {
		select {
		case werr = <-done:
			break loop
		case <-tick.C:
			b, _ := os.ReadFile(st.Name())
			if len(b) >= 16 {
				cur := binary.LittleEndian.Uint64(b[8:16])
				if cur != last {
					last = cur
					lastChange = time.Now()
				} else if time.Since(lastChange) > 900*time.Second {
					timedOut = true
					cmd.Process.Kill()
				}
			}
		}
	}
	res := workerResult{died: -1, sum: summary{Counts: map[string]int64{}}}
	for _, line := range bytes.Split(so.Bytes(), []byte("\n")) {
		if len(line) == 0 || line[0] != '{' {
			continue
		}
		var probe struct {
			Kind string  `json:"kind"`
			S    summary `json:"s"`
			O    outcome `json:"o"`
		}
		if json.Unmarshal(line, &probe) != nil {
			continue
		}
		switch probe.Kind {
		case "wsummary":
			res.sum = probe.S
		case "outcome":
			res.outs = append(res.outs, probe.O)
		case "obs":
			res.obs = append(res.obs, append([]byte(nil), line...))
		}
	}
	if werr == nil && !timedOut {
		return res
	}
	b, _ := os.ReadFile(st.Name())
	if len(b) < 16 {
		panic("state file unreadable")
	}
	res.died = int64(binary.LittleEndian.Uint64(b[0:8]))
	if res.died < lo || res.died >= hi {
		// died before the first case: machinery failure
		fmt.Fprintf(os.Stderr, "c02: worker died outside its range (%d not in [%d,%d)): %v\n%s\n", res.died, lo, hi, werr, tail(se.String(), 2000))
		os.Exit(1)
	}
	// counts of the cases completed before the death are lost with the worker's
	// summary; recount them as "ran" only
	res.sum.Ran = res.died - lo
	res.sum.Counts = map[string]int64{"completed-before-crash": res.died - lo}
	res.class, res.detail, res.frames = classifyDeath(se.String(), timedOut)
	return res
}

type limitWriter struct {
	w *bytes.Buffer
	n int
}

func (l *limitWriter) Write(p []byte) (int, error) {
	if l.w.Len() < l.n {
		k := l.n - l.w.Len()
		if k > len(p) {
			k = len(p)
		}
		l.w.Write(p[:k])
	}
	return len(p), nil
}

func tail(s string, n int) string {
	if len(s) > n {
		return s[len(s)-n:]
	}
	return s
}

// --------------------------------------------------------------------- child

func childMain(args []string) {
	name := args[0]
	fs := flag.NewFlagSet("child", flag.ExitOnError)
	lo := fs.Int64("lo", 0, "")
	hi := fs.Int64("hi", 0, "")
	state := fs.String("state", "", "")
	defaults := fs.Bool("defaults", false, "leave the Go runtime limits at their defaults")
	fs.Parse(args[1:])
	o, _ := parseOpts(name, fs.Args())
	if !*defaults && name != "src" {
		debug.SetMaxStack(maxStackMB << 20)
	} else if *defaults && o.tier != "thorough" {
		// quick tier: confirm with a 128 MB stack (the 1 GB default takes ~20 s of CPU to overflow)
		debug.SetMaxStack(128 << 20)
	}
	f, err := os.OpenFile(*state, os.O_RDWR, 0)
	if err != nil {
		panic(err)
	}
	mem, err := syscall.Mmap(int(f.Fd()), 0, 16, syscall.PROT_READ|syscall.PROT_WRITE, syscall.MAP_SHARED)
	if err != nil {
		panic(err)
	}
	// address-space limit: a single huge allocation is outside the claim; it
	// shows up as "out of memory" and is classified oom by the parent
	// (starlark reserves 4 GB of address space for its small-integer encoding)
	lim := uint64(4096+asLimitMB) << 20
	if name == "src" || *defaults {
		lim = 10 << 30 // the default 1 GB maximum goroutine stack must fit
		caseTimeout = 90 * time.Second
	}
	if name == "src" && !*defaults {
		caseTimeout = 60 * time.Second
	}
	syscall.Setrlimit(syscall.RLIMIT_AS, &syscall.Rlimit{Cur: lim, Max: lim})

	m := newMode(name, o)
	sum := summary{Mode: name, Counts: map[string]int64{}, Dist: map[string]int64{}}
	var cur int64 = -1
	var curStart time.Time
	var cpu0 time.Duration
	var wmu sync.Mutex
	go func() { // watchdog
		for {
			time.Sleep(100 * time.Millisecond)
			wmu.Lock()
			c, s, cpu0 := cur, curStart, cpu0
			wmu.Unlock()
			lim := caseTimeout
			if tm, ok := m.(interface{ Timeout(int64) time.Duration }); ok && c >= 0 && !*defaults {
				if d := tm.Timeout(c); d > 0 {
					lim = d
				}
			}
			// CPU time of this process, not wall-clock: on a loaded machine a case
			// that needs 0.3 s of CPU can take many seconds
			if c >= 0 && cpuSince(cpu0) > lim && time.Since(s) > lim {
				fmt.Fprintf(os.Stderr, "C02-WATCHDOG case %d\n", c)
				os.Exit(3)
			}
		}
	}()
	var ticks uint64
	for i := *lo; i < *hi; i++ {
		binary.LittleEndian.PutUint64(mem[0:8], uint64(i))
		ticks++
		binary.LittleEndian.PutUint64(mem[8:16], ticks)
		wmu.Lock()
		cur, curStart, cpu0 = i, time.Now(), cpuNow()
		wmu.Unlock()
		if sm, ok := m.(interface{ StackMB(int64) int }); ok && !*defaults {
			if mb := sm.StackMB(i); mb > 0 {
				debug.SetMaxStack(mb << 20)
			} else {
				debug.SetMaxStack(1000000000)
			}
		}
		class := runRecovered(m, i)
		if os.Getenv("C02_SLOW") != "" && time.Since(curStart) > time.Second {
			fmt.Fprintf(os.Stderr, "slow case %d %v %v\n", i, time.Since(curStart), m.Describe(i)["recipe"])
		}
		sum.Ran++
		if strings.HasPrefix(class, "panic:") {
			sum.Counts["panic"]++
			detail := class[len("panic:"):]
			oc := outcome{Mode: name, I: i, Class: "panic", Detail: detail, Case: m.Describe(i), Conf: "panic"}
			oc.Key = m.Key(i, "panic", detail)
			hx.Emit(map[string]any{"kind": "outcome", "o": oc})
			hx.Flush()
		} else {
			sum.Counts[class]++
		}
		if d, ok := m.(interface{ Dist(int64) string }); ok {
			sum.Dist[d.Dist(i)]++
		}
		if o.emit {
			if e, ok := m.(interface {
				Obs(int64, string) map[string]any
			}); ok {
				if ob := e.Obs(i, class); ob != nil {
					ob["kind"] = "obs"
					hx.Emit(ob)
					hx.Flush()
				}
			}
		}
	}
	wmu.Lock()
	cur = -1
	wmu.Unlock()
	hx.Emit(map[string]any{"kind": "wsummary", "s": sum})
	hx.Flush()
}

func cpuNow() time.Duration {
	var ru syscall.Rusage
	syscall.Getrusage(syscall.RUSAGE_SELF, &ru)
	return time.Duration(ru.Utime.Nano() + ru.Stime.Nano())
}

func cpuSince(t0 time.Duration) time.Duration { return cpuNow() - t0 }

func runRecovered(m mode, i int64) (class string) {
	defer func() {
		if e := recover(); e != nil {
			class = "panic:" + normPanic(fmt.Sprint(e))
		}
	}()
	return m.Run(i)
}

var hexRe = regexp.MustCompile(`0x[0-9a-f]+`)
var posRe = regexp.MustCompile(`\.star:[0-9]+:[0-9]+`)
var numRe = regexp.MustCompile(`[0-9]{3,}`)

func normPanic(s string) string {
	s = hexRe.ReplaceAllString(s, "0x?")
	s = posRe.ReplaceAllString(s, ".star:L:C")
	s = numRe.ReplaceAllString(s, "N")
	if len(s) > 160 {
		s = s[:160]
	}
	return s
}

// -------------------------------------------------------------------- replay

func replayMain(args []string) {
	// c02 replay <file>: file holds {"replay": {"mode":..., "case": {...}}} as written by bin/check
	b, err := os.ReadFile(args[0])
	if err != nil {
		fmt.Fprintln(os.Stderr, err)
		os.Exit(2)
	}
	var doc struct {
		Replay outcome `json:"replay"`
	}
	if err := json.Unmarshal(b, &doc); err != nil || doc.Replay.Mode == "" {
		fmt.Fprintln(os.Stderr, "not a C02 replay file:", err)
		os.Exit(2)
	}
	cj, _ := json.Marshal(doc.Replay.Case)
	res := runWorker(doc.Replay.Mode, []string{"-single", string(cj)}, 0, 1, true)
	out := map[string]any{"kind": "replay", "case": doc.Replay.Case}
	if res.died >= 0 {
		out["class"], out["detail"], out["frames"] = res.class, res.detail, res.frames
	} else if len(res.outs) > 0 {
		out["class"], out["detail"] = res.outs[0].Class, res.outs[0].Detail
	} else {
		for k := range res.sum.Counts {
			out["class"] = k
		}
	}
	hx.Emit(out)
	hx.Flush()
}
