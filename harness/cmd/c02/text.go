package main

// Block T of mode "calls": every built-in that PARSES text -- format fields and
// specs, % verbs with widths, int(s, base), float(s), json documents, durations,
// time layouts, compiled programs -- gets
//
//	(a) digit strings around every machine boundary (2^7 .. 2^64, 10^18 .. 10^21,
//	    +-1, 19/20/21 digits, leading zeros, signs, blanks, very long), placed
//	    into every numeric position of every template, and
//	(b) every PREFIX (truncation at every byte offset) of a set of valid inputs
//	    of each decoder, fed to every decoder.
import (
	"bytes"
	"fmt"
	"math/big"
	"strings"

	sjson "go.starlark.net/lib/json"
	stime "go.starlark.net/lib/time"
	"go.starlark.net/starlark"
	"go.starlark.net/syntax"
)

type textTemplate struct {
	name string
	run  func(c *cctx, s string) (starlark.Value, error)
}

// templates that place the string into a numeric position of a larger text: they get the digit strings only
var digitsOnly = map[string]bool{}

func callNamed(c *cctx, fn starlark.Value, args starlark.Tuple, kw ...starlark.Tuple) (starlark.Value, error) {
	return starlark.Call(c.thread, fn, args, kw)
}

func method(recv starlark.Value, name string) starlark.Value {
	m, err := recv.(starlark.HasAttrs).Attr(name)
	if err != nil || m == nil {
		panic("no method " + name)
	}
	return m
}

func kw(name string, v starlark.Value) starlark.Tuple {
	return starlark.Tuple{starlark.String(name), v}
}

var fmtArgs = starlark.Tuple{starlark.MakeInt(1), starlark.String("s"), starlark.Float(2.5), starlark.NewList([]starlark.Value{starlark.MakeInt(7), starlark.MakeInt(8)})}

func formatWith(c *cctx, f string) (starlark.Value, error) {
	return callNamed(c, method(starlark.String(f), "format"), fmtArgs, kw("a", structOf("b", starlark.MakeInt(3))), kw("k", starlark.MakeInt(4)))
}

func percentWith(f string, arg starlark.Value) (starlark.Value, error) {
	return starlark.Binary(syntax.PERCENT, starlark.String(f), arg)
}

// wrap builds a template that places s into a larger text
func wrap(name, pre, post string, use func(c *cctx, text string) (starlark.Value, error)) textTemplate {
	digitsOnly[name] = true
	return textTemplate{name: name, run: func(c *cctx, s string) (starlark.Value, error) { return use(c, pre+s+post) }}
}

func buildTextTemplates() []textTemplate {
	u := starlark.Universe
	jm := sjson.Module.Members
	tm := stime.Module.Members
	one := func(fn starlark.Value, extra ...starlark.Value) func(c *cctx, text string) (starlark.Value, error) {
		return func(c *cctx, text string) (starlark.Value, error) {
			return callNamed(c, fn, append(starlark.Tuple{starlark.String(text)}, extra...))
		}
	}
	pct := func(arg starlark.Value) func(c *cctx, text string) (starlark.Value, error) {
		return func(c *cctx, text string) (starlark.Value, error) { return percentWith(text, arg) }
	}
	tup := starlark.Tuple{starlark.MakeInt(1)}
	tup3 := starlark.Tuple{starlark.MakeInt(5), starlark.MakeInt(1), starlark.String("x")}
	ts := []textTemplate{
		// the string itself
		{"format(s)", func(c *cctx, s string) (starlark.Value, error) { return formatWith(c, s) }},
		{"s % (1,)", func(c *cctx, s string) (starlark.Value, error) { return percentWith(s, tup) }},
		{"s % {..}", func(c *cctx, s string) (starlark.Value, error) {
			return percentWith(s, mkDict(starlark.String("a"), starlark.MakeInt(1), starlark.String(s), starlark.MakeInt(2)))
		}},
		{"int(s)", one(u["int"])}, {"float(s)", one(u["float"])},
		{"json.decode(s)", one(jm["decode"])}, {"json.indent(s)", one(jm["indent"])},
		{"json.decode(s, default=None)", func(c *cctx, s string) (starlark.Value, error) {
			return callNamed(c, jm["decode"], starlark.Tuple{starlark.String(s)}, kw("default", starlark.None))
		}},
		{"time.parse_duration(s)", one(tm["parse_duration"])}, {"time.parse_time(s)", one(tm["parse_time"])},
		{"time.parse_time(x, format=s)", func(c *cctx, s string) (starlark.Value, error) {
			return callNamed(c, tm["parse_time"], starlark.Tuple{starlark.String("2020-01-02T03:04:05Z")}, kw("format", starlark.String(s)))
		}},
		{"time.parse_time(x, location=s)", func(c *cctx, s string) (starlark.Value, error) {
			return callNamed(c, tm["parse_time"], starlark.Tuple{starlark.String("2020-01-02T03:04:05Z")}, kw("location", starlark.String(s)))
		}},
		{"time.now().format(s)", func(c *cctx, s string) (starlark.Value, error) {
			return callNamed(c, method(stime.Time(fixedTime), "format"), starlark.Tuple{starlark.String(s)})
		}},
		{"time.is_valid_timezone(s)", one(tm["is_valid_timezone"])},
		{"CompiledProgram(s)", func(c *cctx, s string) (starlark.Value, error) {
			_, err := starlark.CompiledProgram(bytes.NewReader([]byte(s)))
			return starlark.None, err
		}},
		{"syntax.Parse(x = \"s\")", func(c *cctx, s string) (starlark.Value, error) { // inside a source string literal
			_, err := starlark.ExecFileOptions(&syntax.FileOptions{}, c.thread, "lit.star", "x = \""+s+"\"\ny = b\""+s+"\"\n", nil)
			return starlark.None, err
		}},
		{"starlark.Eval(s)", func(c *cctx, s string) (starlark.Value, error) { // the text as an expression
			return starlark.EvalOptions(&syntax.FileOptions{Set: true}, c.thread, "expr.star", s, starlark.StringDict{"f": c.fns["fv"], "q": starlark.NewList(nil), "p": starlark.True, "x": starlark.MakeInt(1)})
		}},
		{"ExecFile(y = s)", func(c *cctx, s string) (starlark.Value, error) { // the text as the right-hand side of a statement
			_, err := starlark.ExecFileOptions(&syntax.FileOptions{Set: true, GlobalReassign: true}, c.thread, "stmt.star", "q = []\np = 1\nx = 1\ndef f(*a, **k): return a\ny = "+s+"\n", nil)
			return starlark.None, err
		}},
		{"s % {a, b, k}", func(c *cctx, s string) (starlark.Value, error) { // every %(key) of the documents is present
			return percentWith(s, mkDict(starlark.String("a"), starlark.MakeInt(1), starlark.String("b"), starlark.MakeInt(66), starlark.String("k"), starlark.String("v")))
		}},
		{"bytes(s).elems / str ops", func(c *cctx, s string) (starlark.Value, error) {
			return callNamed(c, method(starlark.String(s), "codepoint_ords"), nil)
		}},
	}
	for _, base := range []int{0, 2, 8, 10, 16, 36, 37, -1} {
		ts = append(ts, textTemplate{fmt.Sprintf("int(s, %d)", base), one(u["int"], starlark.MakeInt(base))})
	}
	// numeric positions inside larger texts
	for _, w := range []struct{ name, pre, post string }{
		{"{N}", "{", "}"}, {"{N!r}", "{", "!r}"}, {"{0:N}", "{0:", "}"}, {"{0:>N}", "{0:>", "}"}, {"{3[N]}", "{3[", "]}"}, {"{a.N}", "{a.", "}"}, {"{N}{}", "{", "}{}"},
		{"{0:{N}}", "{0:{", "}}"}, {"{N:N}", "{", ":5}"}, {"{k[N]}", "{k[", "]}"},
	} {
		w := w
		ts = append(ts, wrap("format:"+w.name, w.pre, w.post, formatWith))
	}
	for _, w := range []struct{ name, pre, post string }{
		{"%Nd", "%", "d"}, {"%.Nf", "%.", "f"}, {"%Ns", "%", "s"}, {"%-Nx", "%-", "x"}, {"%0Nd", "%0", "d"}, {"%N.Ne", "%", ".3e"}, {"%Nr", "%", "r"}, {"%Nc", "%", "c"},
	} {
		ts = append(ts, wrap("percent:"+w.name, w.pre, w.post, pct(tup)))
	}
	ts = append(ts, wrap("percent:%*d", "%*d", "", pct(tup3)), wrap("percent:%(N)s", "%(", ")s", pct(mkDict(starlark.String("1"), starlark.MakeInt(1)))))
	for _, w := range []struct{ name, pre, post string }{
		{"-N", "-", ""}, {"+N", "+", ""}, {"0xN", "0x", ""}, {"0bN", "0b", ""}, {"0oN", "0o", ""}, {" N ", " ", " "}, {"N_", "", "_0"},
	} {
		ts = append(ts, wrap("int:"+w.name, w.pre, w.post, one(u["int"])), wrap("int0:"+w.name, w.pre, w.post, one(u["int"], starlark.MakeInt(0))))
	}
	for _, w := range []struct{ name, pre, post string }{
		{"1eN", "1e", ""}, {"1e-N", "1e-", ""}, {"N.N", "", ".5"}, {".N", ".", ""}, {"NeN", "", "e10"}, {"-N", "-", ""}, {"0xN", "0x", "p1"}, {"infN", "inf", ""},
	} {
		ts = append(ts, wrap("float:"+w.name, w.pre, w.post, one(u["float"])), wrap("json.decode:"+w.name, w.pre, w.post, one(jm["decode"])))
	}
	for _, w := range []struct{ name, pre, post string }{
		{"[N,N]", "[", ",1]"}, {"{\"a\":N}", "{\"a\":", "}"}, {"\"\\uN\"", "\"\\u", "\""}, {"N ", "", " "}, {"\"N", "\"", ""}, {"\"N\\", "\"", "\\"},
	} {
		ts = append(ts, wrap("json.decode:"+w.name, w.pre, w.post, one(jm["decode"])))
	}
	for _, w := range []struct{ name, pre, post string }{
		{"Nh", "", "h"}, {"Nns", "", "ns"}, {"1.Ns", "1.", "s"}, {"-Nus", "-", "us"}, {"NhNm", "", "h5m"}, {"N.Nh", "", ".5h"},
	} {
		ts = append(ts, wrap("parse_duration:"+w.name, w.pre, w.post, one(tm["parse_duration"])))
	}
	for _, w := range []struct{ name, pre, post string }{
		{"N-01-02T..", "", "-01-02T03:04:05Z"}, {"2020-N-02T..", "2020-", "-02T03:04:05Z"}, {"..05.NZ", "2020-01-02T03:04:05.", "Z"}, {"..+N:00", "2020-01-02T03:04:05+", ":00"},
	} {
		ts = append(ts, wrap("parse_time:"+w.name, w.pre, w.post, one(tm["parse_time"])))
	}
	// integers given as NUMBERS parsed from the digit string (not text): the int-taking counterparts
	ts = append(ts, textTemplate{"time.from_timestamp(int(s))", func(c *cctx, s string) (starlark.Value, error) {
		z, ok := new(big.Int).SetString(s, 10)
		if !ok {
			return starlark.None, nil
		}
		return callNamed(c, tm["from_timestamp"], starlark.Tuple{starlark.MakeBigInt(z), starlark.MakeBigInt(z)})
	}}, textTemplate{"time.time(year=int(s))", func(c *cctx, s string) (starlark.Value, error) {
		z, ok := new(big.Int).SetString(s, 10)
		if !ok {
			return starlark.None, nil
		}
		return callNamed(c, tm["time"], nil, kw("year", starlark.MakeBigInt(z)), kw("nanosecond", starlark.MakeBigInt(z)))
	}}, textTemplate{"chr(int(s)) / range / repeat", func(c *cctx, s string) (starlark.Value, error) {
		z, ok := new(big.Int).SetString(s, 10)
		if !ok {
			return starlark.None, nil
		}
		callNamed(c, starlark.Universe["chr"], starlark.Tuple{starlark.MakeBigInt(z)})
		callNamed(c, method(starlark.String("abc"), "find"), starlark.Tuple{starlark.String("b"), starlark.MakeBigInt(z), starlark.MakeBigInt(z)})
		callNamed(c, method(starlark.NewList(ints(1, 2)), "insert"), starlark.Tuple{starlark.MakeBigInt(z), starlark.None})
		callNamed(c, method(starlark.NewList(ints(1, 2)), "pop"), starlark.Tuple{starlark.MakeBigInt(z)})
		starlark.Binary(syntax.STAR, starlark.String("ab"), starlark.MakeBigInt(z))
		starlark.Binary(syntax.LTLT, starlark.MakeInt(1), starlark.MakeBigInt(z))
		return callNamed(c, starlark.Universe["range"], starlark.Tuple{starlark.MakeBigInt(z), starlark.MakeBigInt(new(big.Int).Neg(z)), starlark.MakeBigInt(new(big.Int).Neg(z))})
	}})
	for _, n := range []string{"time.from_timestamp(int(s))", "time.time(year=int(s))", "chr(int(s)) / range / repeat"} {
		digitsOnly[n] = true
	}
	return ts
}

func digitStrings() []string {
	var out []string
	add := func(z *big.Int) {
		for d := int64(-1); d <= 1; d++ {
			out = append(out, new(big.Int).Add(z, big.NewInt(d)).String())
		}
	}
	for _, sh := range []uint{7, 8, 15, 16, 31, 32, 53, 62, 63, 64, 65, 127, 128} {
		add(new(big.Int).Lsh(big.NewInt(1), sh))
	}
	for _, e := range []int64{9, 10, 18, 19, 20, 21} {
		add(new(big.Int).Exp(big.NewInt(10), big.NewInt(e), nil))
	}
	out = append(out, "0", "00", "007", strings.Repeat("0", 20)+"1", strings.Repeat("0", 30)+"9223372036854775808",
		strings.Repeat("9", 18), strings.Repeat("9", 19), strings.Repeat("9", 20), strings.Repeat("9", 21), "1"+strings.Repeat("0", 19),
		"9223372036854775807", "9223372036854775808", "18446744073709551615", "18446744073709551616", "4294967295", "4294967296", "2147483647", "2147483648",
		"", "5", "+5", "-5", " 5", "5 ", "1_000", "٣", "1e5", "0x10", "1.5", strings.Repeat("7", 400), strings.Repeat("1", 4000))
	return out
}

var truncDocs = []string{
	`{"a": [1, 2.5e-3, -0, true, false, null], "b\n\"q\\": {"\u00e9\ud83d\ude00": "x\\"}, "c": "tail\\"}`,
	`["abc\\", "\"", "\\\\", "\/\b\f\r\t", "\u12ab", 1E+2, -1.0e-10, 123456789012345678901234567890]`,
	`"abc\\"`, `"\ud800\udc00"`, ` [ 1 , { } , [ ] , "" ] `, `-12.5e+3`, `nul`, `tru`, `[[[[[[{"k":[[]]}]]]]]]`,
	`{0} {1!r:>{3[0]}} {a.b} {k:<5} {{literal}} {2:.3f} {3[1]}`,
	`%s %r %d %5d %-5x %o %X %e %.3f %g %c %% %(a)s %(a)05d`,
	`1h2m3.5s4ms5us6ns`, `-1.5h`, `2020-01-02T03:04:05.678901+07:00`, `Mon, 02 Jan 2006 15:04:05 -0700`, `2006-01-02 15:04:05.000000000 Z07:00 MST Jan _2 pm PM`,
	`%(a)s and %(b)5d and %(a)r %(b).2f`, `{k} {a.b!r:>7} {k:{k}}`, `%(a)s%(b)c%%`, `x%(k)s`, `{a.b}{k!r}`,
	`(lambda a, b=1, *c, **d: [x for x in (a, b) if x] or {a: b})(1, *[2], **{"k": 3})`,
	`[f(x, y=1, *a, **k)[1:2:3].g for x, (y, z) in q if x not in y if z] + (lambda *a: a)(0) if p else -~x ** 2`,
	`America/Argentina/Buenos_Aires`, `0x7fffffffffffffff`, `1.7976931348623157e308`, `a\x41\n\101\u00e9\U0001F600\'\"\\z`, "line\\\ncontinued",
}

// lexTokens splits a text into identifier / number runs, the multi-character
// operators of the language and single characters.
func lexTokens(s string) []string {
	ops := []string{"**=", "//=", "<<=", ">>=", "**", "//", "<<", ">>", "==", "!=", "<=", ">=", "+=", "-=", "*=", "/=", "%=", "&=", "|=", "^=", "%(", "\\\\", "\\\"", "\"\"\"", "'''"}
	var out []string
	for i := 0; i < len(s); {
		c := s[i]
		isW := func(c byte) bool {
			return c == '_' || c >= '0' && c <= '9' || c >= 'a' && c <= 'z' || c >= 'A' && c <= 'Z' || c >= 0x80
		}
		if isW(c) {
			j := i
			for j < len(s) && isW(s[j]) {
				j++
			}
			out = append(out, s[i:j])
			i = j
			continue
		}
		matched := false
		for _, op := range ops {
			if strings.HasPrefix(s[i:], op) {
				out = append(out, op)
				i += len(op)
				matched = true
				break
			}
		}
		if !matched {
			out = append(out, s[i:i+1])
			i++
		}
	}
	return out
}

// tokenVariants: the text with each single token deleted, and with each single token doubled.
func tokenVariants(s string) []string {
	toks := lexTokens(s)
	var out []string
	for i := range toks {
		if toks[i] == " " {
			continue
		}
		out = append(out, strings.Join(toks[:i], "")+strings.Join(toks[i+1:], ""))
		out = append(out, strings.Join(toks[:i+1], "")+strings.Join(toks[i:], ""))
	}
	return out
}

// truncations returns all strings; the first nBasic are prefixes / suffixes / byte deletions (for every
// decoder), the rest are substrings and token variants (for the template, expression and JSON parsers).
func truncations() (all []string, nBasic int) {
	seen := map[string]bool{}
	var out, extra []string
	toExtra := false
	add := func(s string) {
		if !seen[s] {
			seen[s] = true
			if toExtra {
				extra = append(extra, s)
			} else {
				out = append(out, s)
			}
		}
	}
	docs := append([]string(nil), truncDocs...)
	// compiled programs
	for _, src := range []string{"x = 1\n", "def f(a, b=[1, \"s\", 2.5, 1<<70], *c, **d):\n  return [a + i for i in range(3) if i] or {a: b}\nload(\"m\", \"sym\")\ny = f(1)\nz = b\"bytes\"\n"} {
		_, prog, err := starlark.SourceProgramOptions(&syntax.FileOptions{}, "p.star", src, func(string) bool { return false })
		if err == nil {
			var buf bytes.Buffer
			if prog.Write(&buf) == nil {
				docs = append(docs, buf.String())
			}
		}
	}
	for _, d := range docs {
		for i := 0; i <= len(d); i++ {
			add(d[:i])
		}
		if len(d) < 120 { // also every suffix and every single-byte deletion of the shorter documents
			for i := 1; i < len(d); i++ {
				add(d[i:])
				add(d[:i-1] + d[i:])
			}
		}
		toExtra = true
		if len(d) <= 40 { // and every substring of the short ones
			for i := 1; i < len(d); i++ {
				for j := i + 1; j < len(d); j++ {
					add(d[i:j])
				}
			}
		}
		if len(d) < 200 && !strings.HasPrefix(d, "!sky") { // every single token deleted / doubled
			for _, v := range tokenVariants(d) {
				add(v)
			}
		}
		toExtra = false
	}
	return append(out, extra...), len(out)
}

// the parsers of templates, expressions and documents: they also get the substrings and token variants
var wantsExtra = map[string]bool{"format(s)": true, "s % (1,)": true, "s % {..}": true, "s % {a, b, k}": true, "json.decode(s)": true,
	"starlark.Eval(s)": true, "ExecFile(y = s)": true, "syntax.Parse(x = \"s\")": true}
