package main

// Mode "calls": every built-in function / method / module member called
// directly through starlark.Call with argument tuples from a pool of edge
// values.  Enumeration (deterministic, by index):
//
//	block A  arity 0 and 1, all callables (all receiver variants) x full pool (incl. the "huge" values)
//	block E  (quick) arity 2 all callables and arity 3 primary callables over the boundary sub-pool (12 values)
//	block B  (thorough) arity 2 all callables x pool^2, arity 3 primary callables x pool^3  (pool without the huge-iteration values)
//	block S  seeded sample: arity 2..4 positional + 0..2 keyword arguments, full pool
import (
	"encoding/base64"
	"fmt"
	"math"
	"math/big"
	"sort"
	"strings"
	"time"
	gotime "time"

	sjson "go.starlark.net/lib/json"
	smath "go.starlark.net/lib/math"
	stime "go.starlark.net/lib/time"
	"go.starlark.net/starlark"
	"go.starlark.net/starlarkstruct"
	"go.starlark.net/syntax"

	"verifharness/internal/hx"
)

type cctx struct {
	thread *starlark.Thread
	fns    starlark.StringDict
	iters  []starlark.Iterator
}

func (c *cctx) done() {
	for _, it := range c.iters {
		it.Done()
	}
	c.iters = nil
}

type poolEntry struct {
	name   string
	huge   bool // iterating / materialising it is unbounded work: excluded from the arity>=2 product
	noprod bool // excluded from the arity>=2 product for another reason (printing it crashes: known finding)
	mk     func(c *cctx) starlark.Value
}

const preludeSrc = `
def f0(): return 1
def f1(x): return x
def fv(*args, **kwargs): return args
def fkw(x, y=2, *, z=3): return (x, y, z)
def ferr(x=None): fail("boom")
def floop(x=None):
    for i in range(1000000): pass
    return i
def mkclosure():
    a = [1]
    def inner(x=None): return a
    return inner
closure = mkclosure()
lam = lambda *a, **k: len(a)
`

func bigInt(s string) starlark.Value {
	z, _ := new(big.Int).SetString(s, 0)
	return starlark.MakeBigInt(z)
}

func ints(xs ...int) []starlark.Value {
	out := make([]starlark.Value, len(xs))
	for i, x := range xs {
		out[i] = starlark.MakeInt(x)
	}
	return out
}

func mkDict(kv ...starlark.Value) *starlark.Dict {
	d := starlark.NewDict(len(kv) / 2)
	for i := 0; i+1 < len(kv); i += 2 {
		d.SetKey(kv[i], kv[i+1])
	}
	return d
}

func mkSet(xs ...starlark.Value) *starlark.Set {
	s := starlark.NewSet(len(xs))
	for _, x := range xs {
		s.Insert(x)
	}
	return s
}

func iterating(c *cctx, v starlark.Iterable) starlark.Value {
	it := v.Iterate()
	var x starlark.Value
	it.Next(&x)
	c.iters = append(c.iters, it)
	return v
}

func structOf(kv ...any) *starlarkstruct.Struct {
	var kws []starlark.Tuple
	for i := 0; i+1 < len(kv); i += 2 {
		kws = append(kws, starlark.Tuple{starlark.String(kv[i].(string)), kv[i+1].(starlark.Value)})
	}
	return starlarkstruct.FromKeywords(starlarkstruct.Default, kws)
}

var longString = strings.Repeat("ab c\t", 400)

func buildPool() []poolEntry {
	v := func(name string, x starlark.Value) poolEntry {
		return poolEntry{name: name, mk: func(*cctx) starlark.Value { return x }}
	}
	f := func(name string, mk func(c *cctx) starlark.Value) poolEntry { return poolEntry{name: name, mk: mk} }
	p := []poolEntry{
		v("None", starlark.None), v("True", starlark.True),
		v("0", starlark.MakeInt(0)), v("1", starlark.MakeInt(1)), v("-1", starlark.MakeInt(-1)), v("255", starlark.MakeInt(255)),
		v("1<<31", starlark.MakeInt64(1<<31)), v("1<<62", starlark.MakeInt64(1<<62)), v("-(1<<63)", starlark.MakeInt64(math.MinInt64)),
		v("(1<<63)-1", starlark.MakeInt64(math.MaxInt64)), v("1<<100", bigInt("0x10000000000000000000000000")), v("-(1<<100)", bigInt("-0x10000000000000000000000000")),
		v("0.0", starlark.Float(0)), v("0.5", starlark.Float(0.5)), v("nan", starlark.Float(math.NaN())), v("+inf", starlark.Float(math.Inf(1))),
		v("-inf", starlark.Float(math.Inf(-1))), v("1e308", starlark.Float(1e308)), v("-1e18", starlark.Float(-1e18)),
		v(`""`, starlark.String("")), v(`"a"`, starlark.String("a")), v(`"a b"`, starlark.String("a b")), v(`"%s %d {} {0} {x}"`, starlark.String("%s %d {} {0} {x}")),
		v("longstring", starlark.String(longString)), v(`"\xff\x00é"`, starlark.String("\xff\x00é")), v(`"UTC"`, starlark.String("UTC")), v(`"[1, {\"a\": 2}]"`, starlark.String(`[1, {"a": 2}]`)),
		v(`b""`, starlark.Bytes("")), v(`b"abc"`, starlark.Bytes("abc")),
		v("()", starlark.Tuple{}), v("(1, \"a\")", starlark.Tuple{starlark.MakeInt(1), starlark.String("a")}),
		f("[]", func(*cctx) starlark.Value { return starlark.NewList(nil) }),
		f("[1, 2, 3]", func(*cctx) starlark.Value { return starlark.NewList(ints(1, 2, 3)) }),
		f("[(\"k\", 1)]", func(*cctx) starlark.Value {
			return starlark.NewList([]starlark.Value{starlark.Tuple{starlark.String("k"), starlark.MakeInt(1)}})
		}),
		f("frozen [3, 1]", func(*cctx) starlark.Value { l := starlark.NewList(ints(3, 1)); l.Freeze(); return l }),
		f("iterating [1, 2]", func(c *cctx) starlark.Value { return iterating(c, starlark.NewList(ints(1, 2))) }),
		f("l=[l]", func(*cctx) starlark.Value { l := starlark.NewList(nil); l.Append(l); return l }),
		f("{}", func(*cctx) starlark.Value { return starlark.NewDict(0) }),
		f(`{"a": 1, "b": 2}`, func(*cctx) starlark.Value {
			return mkDict(starlark.String("a"), starlark.MakeInt(1), starlark.String("b"), starlark.MakeInt(2))
		}),
		f("frozen {1: 2}", func(*cctx) starlark.Value {
			d := mkDict(starlark.MakeInt(1), starlark.MakeInt(2))
			d.Freeze()
			return d
		}),
		f("iterating {1: 2}", func(c *cctx) starlark.Value { return iterating(c, mkDict(starlark.MakeInt(1), starlark.MakeInt(2))) }),
		f("d={\"d\": d}", func(*cctx) starlark.Value { d := starlark.NewDict(1); d.SetKey(starlark.String("d"), d); return d }),
		f("set()", func(*cctx) starlark.Value { return starlark.NewSet(0) }),
		f("set([1, 2])", func(*cctx) starlark.Value { return mkSet(ints(1, 2)...) }),
		f("frozen set([1])", func(*cctx) starlark.Value { s := mkSet(ints(1)...); s.Freeze(); return s }),
		f("range(3)", func(c *cctx) starlark.Value { return mustCall(c, "range", starlark.MakeInt(3)) }),
		f("range(5, -5, -2)", func(c *cctx) starlark.Value {
			return mustCall(c, "range", starlark.MakeInt(5), starlark.MakeInt(-5), starlark.MakeInt(-2))
		}),
		f("struct(a=1)", func(*cctx) starlark.Value { return structOf("a", starlark.MakeInt(1)) }),
		{name: "l=[struct(x=l)]", noprod: true, mk: func(*cctx) starlark.Value { // a struct inside a list inside itself (printing it never ends: known finding; kept out of the arity>=2 product)
			l := starlark.NewList(nil)
			l.Append(structOf("x", l))
			return l
		}},
		f("len", func(*cctx) starlark.Value { return starlark.Universe["len"] }),
		f("[].append", func(*cctx) starlark.Value { m, _ := starlark.NewList(nil).Attr("append"); return m }),
		f("f0", func(c *cctx) starlark.Value { return c.fns["f0"] }),
		f("f1", func(c *cctx) starlark.Value { return c.fns["f1"] }),
		f("fv", func(c *cctx) starlark.Value { return c.fns["fv"] }),
		f("ferr", func(c *cctx) starlark.Value { return c.fns["ferr"] }),
		f("closure", func(c *cctx) starlark.Value { return c.fns["closure"] }),
		f(`"abc".elems()`, func(*cctx) starlark.Value {
			m, _ := starlark.String("abc").Attr("elems")
			r, _ := starlark.Call(&starlark.Thread{}, m, nil, nil)
			return r
		}),
		f(`"ab".codepoints()`, func(*cctx) starlark.Value { // an iterable with no Len
			m, _ := starlark.String("ab").Attr("codepoints")
			r, _ := starlark.Call(&starlark.Thread{}, m, nil, nil)
			return r
		}),
		v("json", sjson.Module), v("1h", stime.Duration(gotime.Hour)),
		v("time", stime.Time(gotime.Unix(1700000000, 5).UTC())),
		// unbounded-work values
		{name: "range(1<<62)", huge: true, mk: func(c *cctx) starlark.Value { return mustCall(c, "range", starlark.MakeInt64(1<<62)) }},
		{name: "floop", huge: true, mk: func(c *cctx) starlark.Value { return c.fns["floop"] }},
	}
	return p
}

func mustCall(c *cctx, name string, args ...starlark.Value) starlark.Value {
	r, err := starlark.Call(c.thread, starlark.Universe[name], starlark.Tuple(args), nil)
	if err != nil {
		panic(err)
	}
	return r
}

type callable struct {
	name    string // e.g. "len", "list.append@[1, 2, 3]", "json.encode"
	primary bool
	get     func(c *cctx) starlark.Value
}

type recvVariant struct {
	typ, variant string
	primary      bool
	mk           func(c *cctx) starlark.Value
}

func buildCallables() []callable {
	var cs []callable
	var names []string
	for k, v := range starlark.Universe {
		if _, ok := v.(*starlark.Builtin); ok {
			names = append(names, k)
		}
	}
	sort.Strings(names)
	for _, k := range names {
		k := k
		cs = append(cs, callable{name: k, primary: true, get: func(*cctx) starlark.Value { return starlark.Universe[k] }})
	}
	rv := []recvVariant{
		{"string", `"a b  c"`, true, func(*cctx) starlark.Value { return starlark.String("a b  c") }},
		{"string", `""`, false, func(*cctx) starlark.Value { return starlark.String("") }},
		{"string", "longstring", false, func(*cctx) starlark.Value { return starlark.String(longString) }},
		{"bytes", `b"abc"`, true, func(*cctx) starlark.Value { return starlark.Bytes("abc") }},
		{"list", "[1, 2, 3]", true, func(*cctx) starlark.Value { return starlark.NewList(ints(1, 2, 3)) }},
		{"list", "[]", false, func(*cctx) starlark.Value { return starlark.NewList(nil) }},
		{"list", "frozen", false, func(*cctx) starlark.Value { l := starlark.NewList(ints(1, 2)); l.Freeze(); return l }},
		{"list", "iterating", false, func(c *cctx) starlark.Value { return iterating(c, starlark.NewList(ints(1, 2))) }},
		{"list", "l=[l]", false, func(*cctx) starlark.Value { l := starlark.NewList(nil); l.Append(l); return l }},
		{"dict", `{"a": 1, 2: 3}`, true, func(*cctx) starlark.Value {
			return mkDict(starlark.String("a"), starlark.MakeInt(1), starlark.MakeInt(2), starlark.MakeInt(3))
		}},
		{"dict", "{}", false, func(*cctx) starlark.Value { return starlark.NewDict(0) }},
		{"dict", "frozen", false, func(*cctx) starlark.Value {
			d := mkDict(starlark.MakeInt(1), starlark.MakeInt(2))
			d.Freeze()
			return d
		}},
		{"dict", "iterating", false, func(c *cctx) starlark.Value { return iterating(c, mkDict(starlark.MakeInt(1), starlark.MakeInt(2))) }},
		{"dict", "d={1: d}", false, func(*cctx) starlark.Value { d := starlark.NewDict(1); d.SetKey(starlark.MakeInt(1), d); return d }},
		{"set", "set([1, 2])", true, func(*cctx) starlark.Value { return mkSet(ints(1, 2)...) }},
		{"set", "set()", false, func(*cctx) starlark.Value { return starlark.NewSet(0) }},
		{"set", "frozen", false, func(*cctx) starlark.Value { s := mkSet(ints(1)...); s.Freeze(); return s }},
		{"set", "iterating", false, func(c *cctx) starlark.Value { return iterating(c, mkSet(ints(1, 2)...)) }},
		{"time", "time", true, func(*cctx) starlark.Value { return stime.Time(gotime.Unix(1700000000, 5).UTC()) }},
	}
	for _, r := range rv {
		r := r
		probe := r.mk(&cctx{}).(starlark.HasAttrs)
		an := append([]string(nil), probe.AttrNames()...)
		sort.Strings(an)
		for _, a := range an {
			a := a
			if m, err := probe.Attr(a); err != nil || m == nil {
				continue
			} else if _, ok := m.(starlark.Callable); !ok {
				continue
			}
			cs = append(cs, callable{name: r.typ + "." + a + "@" + r.variant, primary: r.primary, get: func(c *cctx) starlark.Value {
				m, err := r.mk(c).(starlark.HasAttrs).Attr(a)
				if err != nil || m == nil {
					panic(fmt.Sprint("no method ", a, err))
				}
				return m
			}})
		}
	}
	cs = append(cs, callable{name: "struct", primary: true, get: func(*cctx) starlark.Value { return starlark.NewBuiltin("struct", starlarkstruct.Make) }})
	cs = append(cs, callable{name: "module", primary: true, get: func(*cctx) starlark.Value { return starlark.NewBuiltin("module", starlarkstruct.MakeModule) }})
	for _, mod := range []*starlarkstruct.Module{sjson.Module, smath.Module, stime.Module} {
		mod := mod
		for _, k := range mod.Members.Keys() {
			k := k
			if _, ok := mod.Members[k].(starlark.Callable); ok {
				cs = append(cs, callable{name: mod.Name + "." + k, primary: true, get: func(*cctx) starlark.Value { return mod.Members[k] }})
			}
		}
	}
	return cs
}

var kwNames = []string{"x", "key", "reverse", "default", "sep", "end", "start", "step", "indent", "prefix", "pairs", "iterable", "year", "location", "format", "maxsplit", "base", "a", "nosuchparam", "", "x"}

var fixedTime = gotime.Unix(1700000000, 5).UTC()

type callCase struct {
	alias    int  // block L: 1 = m(recv), 2 = m(recv, recv), 3 = f(v, v) with v one object
	oper     bool // block O: m.opc[callable]
	text     bool // block T: textTemplates[callable] applied to textStrings[args[0]]
	callable int
	args     []int
	kwn      []string
	kwv      []int
}

type callMode struct {
	o         *opts
	pool      []poolEntry
	small     []int // indices of the non-huge pool entries
	cs        []callable
	prim      []int
	nA, nB2   int64
	nB3, nS   int64
	nE        int64 // arity 2 over the boundary sub-pool (edge), all callables
	nE3       int64 // arity 3 over the boundary sub-pool, primary callables
	nT        int64 // block T (text.go): text-parsing built-ins x digit strings / truncations
	tts       []textTemplate
	tstr      []string
	tpairs    [][2]int32
	nAl       int64 // block L: the receiver itself as argument (m(recv), m(recv, recv)); f(v, v) with one object
	nO        int64 // block O (opblock.go): operators x operands
	opv       []poolEntry
	opc       []opCase
	singleOp  *opCase
	singleStr string
	edge      []int
	edge3     []int
	fns       starlark.StringDict
	single    *callCase
	singleErr string
}

func newCallMode(o *opts) *callMode {
	m := &callMode{o: o, pool: buildPool(), cs: buildCallables()}
	for i, p := range m.pool {
		if !p.huge && !p.noprod {
			m.small = append(m.small, i)
		}
	}
	for i, p := range m.pool {
		switch p.name {
		case "None", "1<<62", "-(1<<63)", `""`, `"a b"`, "nan", "l=[l]", "f1", "[1, 2, 3]", `"ab".codepoints()`, "{}", "-1":
			m.edge = append(m.edge, i)
		}
	}
	for i, c := range m.cs {
		if c.primary {
			m.prim = append(m.prim, i)
		}
	}
	P := int64(len(m.pool))
	Q := int64(len(m.small))
	C := int64(len(m.cs))
	m.tts = buildTextTemplates()
	ds := digitStrings()
	tr, nBasic := truncations()
	m.tstr = append(ds, tr...)
	for ti, t := range m.tts {
		n := len(ds) + nBasic
		if wantsExtra[t.name] {
			n = len(m.tstr)
		}
		if digitsOnly[t.name] {
			n = len(ds)
		}
		for si := 0; si < n; si++ {
			m.tpairs = append(m.tpairs, [2]int32{int32(ti), int32(si)})
		}
	}
	m.nT = int64(len(m.tpairs))
	m.nAl = C*2 + int64(len(m.prim))*P
	m.buildOps()
	m.nO = int64(len(m.opc))
	m.nA = C * (1 + P)
	m.nE = C * int64(len(m.edge)*len(m.edge))
	m.edge3 = m.edge
	if len(m.edge3) > 8 {
		m.edge3 = m.edge3[:8]
	}
	m.nE3 = int64(len(m.prim)) * int64(len(m.edge3)*len(m.edge3)*len(m.edge3))
	if o.tier == "thorough" {
		m.nE, m.nE3 = 0, 0 // covered by the full products
		m.nB2 = C * Q * Q
		m.nB3 = int64(len(m.prim)) * Q * Q * Q
		m.nS = 80000
	} else {
		m.nS = 8000
	}
	if o.n > 0 {
		m.nS = o.n
	}
	thread := &starlark.Thread{Name: "prelude"}
	fns, err := starlark.ExecFileOptions(&syntax.FileOptions{Set: true}, thread, "prelude.star", preludeSrc, nil)
	if err != nil {
		panic(err)
	}
	m.fns = fns
	if o.single != "" {
		m.single = m.parseSingle(o.single)
		m.nA, m.nB2, m.nB3, m.nS, m.nE, m.nE3, m.nT, m.nO, m.nAl = 1, 0, 0, 0, 0, 0, 0, 0, 0
	}
	return m
}

// Spans: block A holds the cases that end in a death of the worker (unbounded work on
// range(1<<62), the known struct-printing crash): small spans spread them over all workers.
func (m *callMode) Spans(workers int) []span {
	var out []span
	cut := func(lo, hi, chunk int64) {
		for ; lo < hi; lo += chunk {
			out = append(out, span{lo, min(lo+chunk, hi)})
		}
	}
	total := m.Count()
	a := min(m.nA, total)
	cut(0, a, a/int64(workers*6)+1)
	rest := total - a
	cut(a, total, min(rest/int64(workers*6)+1, 200000))
	return out
}

func (m *callMode) Count() int64 {
	return m.nA + m.nT + m.nO + m.nAl + m.nE + m.nE3 + m.nB2 + m.nB3 + m.nS
}

func (m *callMode) decode(i int64) callCase {
	if m.single != nil {
		return *m.single
	}
	P := int64(len(m.pool))
	Q := int64(len(m.small))
	if i < m.nA {
		c := i / (1 + P)
		r := i % (1 + P)
		if r == 0 {
			return callCase{callable: int(c)}
		}
		return callCase{callable: int(c), args: []int{int(r - 1)}}
	}
	i -= m.nA
	if i < m.nT {
		return callCase{text: true, callable: int(m.tpairs[i][0]), args: []int{int(m.tpairs[i][1])}}
	}
	i -= m.nT
	if i < m.nO {
		return callCase{oper: true, callable: int(i)}
	}
	i -= m.nO
	if i < m.nAl {
		C := int64(len(m.cs))
		if i < C*2 {
			return callCase{alias: int(1 + i%2), callable: int(i / 2)}
		}
		i -= C * 2
		P := int64(len(m.pool))
		return callCase{alias: 3, callable: m.prim[i/P], args: []int{int(i % P)}}
	}
	i -= m.nAl
	if i < m.nE {
		E := int64(len(m.edge))
		c := i / (E * E)
		r := i % (E * E)
		return callCase{callable: int(c), args: []int{m.edge[r/E], m.edge[r%E]}}
	}
	i -= m.nE
	if i < m.nE3 {
		E := int64(len(m.edge3))
		c := i / (E * E * E)
		r := i % (E * E * E)
		return callCase{callable: m.prim[c], args: []int{m.edge3[r/(E*E)], m.edge3[(r/E)%E], m.edge3[r%E]}}
	}
	i -= m.nE3
	if i < m.nB2 {
		c := i / (Q * Q)
		r := i % (Q * Q)
		return callCase{callable: int(c), args: []int{m.small[r/Q], m.small[r%Q]}}
	}
	i -= m.nB2
	if i < m.nB3 {
		c := i / (Q * Q * Q)
		r := i % (Q * Q * Q)
		return callCase{callable: m.prim[c], args: []int{m.small[r/(Q*Q)], m.small[(r/Q)%Q], m.small[r%Q]}}
	}
	i -= m.nB3
	// seeded sample
	r := hx.NewRand(m.o.seed*1000003 + uint64(i)).Split() // Split: consecutive seeds of hx.NewRand are shifted copies of one stream
	cc := callCase{callable: r.Intn(len(m.cs))}
	na := 2 + r.Intn(3)
	if r.Intn(4) == 0 {
		na = r.Intn(3)
	}
	for k := 0; k < na; k++ {
		cc.args = append(cc.args, r.Intn(len(m.pool)))
	}
	nk := 0
	switch r.Intn(4) {
	case 0, 1:
		nk = 1
	case 2:
		nk = 2
	}
	if na >= 2 && r.Intn(2) == 0 {
		nk = 0
	}
	for k := 0; k < nk; k++ {
		cc.kwn = append(cc.kwn, kwNames[r.Intn(len(kwNames))])
		cc.kwv = append(cc.kwv, r.Intn(len(m.pool)))
	}
	return cc
}

func (m *callMode) opOf(cc callCase) opCase {
	if m.singleOp != nil {
		return *m.singleOp
	}
	return m.opc[cc.callable]
}

func (m *callMode) textOf(cc callCase) string {
	if m.single != nil {
		return m.singleStr
	}
	return m.tstr[cc.args[0]]
}

func (m *callMode) Run(i int64) string {
	cc := m.decode(i)
	thread := &starlark.Thread{Name: "c02", Print: func(*starlark.Thread, string) {}}
	thread.SetMaxExecutionSteps(200000)
	c := &cctx{thread: thread, fns: m.fns}
	defer c.done()
	if cc.oper {
		return m.runOp(c, m.opOf(cc))
	}
	if cc.text {
		v, err := m.tts[cc.callable].run(c, m.textOf(cc))
		if err != nil {
			_ = err.Error()
			return "error"
		}
		if v == nil {
			return "panic:builtin returned nil value and nil error"
		}
		_ = v.String()
		return "value"
	}
	fn := m.cs[cc.callable].get(c)
	args := make(starlark.Tuple, len(cc.args))
	for k, a := range cc.args {
		args[k] = m.pool[a].mk(c)
	}
	switch cc.alias {
	case 1, 2:
		var recv starlark.Value = fn
		if b, ok := fn.(*starlark.Builtin); ok && b.Receiver() != nil {
			recv = b.Receiver()
		}
		args = starlark.Tuple{recv}
		if cc.alias == 2 {
			args = starlark.Tuple{recv, recv}
		}
	case 3:
		args = starlark.Tuple{args[0], args[0]}
	}
	var kwargs []starlark.Tuple
	for k, n := range cc.kwn {
		kwargs = append(kwargs, starlark.Tuple{starlark.String(n), m.pool[cc.kwv[k]].mk(c)})
	}
	v, err := starlark.Call(thread, fn, args, kwargs)
	if err != nil {
		_ = err.Error()
		return "error"
	}
	if v == nil {
		return "panic:builtin returned nil value and nil error"
	}
	// the result must be a well-formed value: no nil element anywhere, and the
	// operations the interpreter applies to every value must not crash on it
	if where := findNil(v, 0); where != "" {
		return "panic:built-in returned a value containing a nil element (" + where + ")"
	}
	v.Freeze()
	_, _ = v.Hash()
	_ = v.Truth()
	_ = v.Type()
	_ = v.String()
	return "value"
}

// findNil looks for a Go-nil Value inside a returned container.
func findNil(v starlark.Value, depth int) string {
	if depth > 4 {
		return ""
	}
	switch x := v.(type) {
	case starlark.Tuple:
		for i, e := range x {
			if e == nil {
				return fmt.Sprintf("tuple index %d", i)
			}
			if w := findNil(e, depth+1); w != "" {
				return w
			}
		}
	case *starlark.List:
		for i := 0; i < x.Len() && i < 64; i++ {
			e := x.Index(i)
			if e == nil {
				return fmt.Sprintf("list index %d", i)
			}
			if w := findNil(e, depth+1); w != "" {
				return w
			}
		}
	case *starlark.Dict:
		for i, it := range x.Items() {
			if i >= 64 {
				break
			}
			if it[0] == nil || it[1] == nil {
				return "dict item"
			}
			if w := findNil(it[1], depth+1); w != "" {
				return w
			}
		}
	}
	return ""
}

func (m *callMode) isHuge(cc callCase) bool {
	if cc.oper {
		oc := m.opOf(cc)
		return m.opv[oc.x].huge || (!oc.unary && m.opv[oc.y].huge)
	}
	if cc.text {
		return false
	}
	for _, a := range cc.args {
		if m.pool[a].huge {
			return true
		}
	}
	for _, a := range cc.kwv {
		if m.pool[a].huge {
			return true
		}
	}
	return false
}

func (m *callMode) Describe(i int64) map[string]any {
	cc := m.decode(i)
	if cc.oper {
		oc := m.opOf(cc)
		y := ""
		if !oc.unary {
			y = m.opv[oc.y].name
		}
		return map[string]any{"callable": "operator:" + oc.op.String(), "unary": oc.unary, "x": m.opv[oc.x].name, "y": y,
			"call": m.describeOp(oc), "args": []string{}, "kwargs": [][2]string{}, "huge": m.isHuge(cc)}
	}
	if cc.text {
		s := m.textOf(cc)
		return map[string]any{"callable": "text:" + m.tts[cc.callable].name, "text_b64": base64.StdEncoding.EncodeToString([]byte(s)),
			"call": fmt.Sprintf("%s with s = %s", m.tts[cc.callable].name, truncQ(s)), "args": []string{}, "kwargs": [][2]string{}, "huge": false}
	}
	var args []string
	for _, a := range cc.args {
		args = append(args, m.pool[a].name)
	}
	kw := [][2]string{}
	for k, n := range cc.kwn {
		kw = append(kw, [2]string{n, m.pool[cc.kwv[k]].name})
	}
	call := m.cs[cc.callable].name + "(" + strings.Join(args, ", ")
	for _, p := range kw {
		if len(call) > 0 && !strings.HasSuffix(call, "(") {
			call += ", "
		}
		call += p[0] + "=" + p[1]
	}
	if cc.alias > 0 {
		call = m.cs[cc.callable].name + []string{"", "(<the receiver itself>", "(<the receiver itself>, <the receiver itself>", "(v, v) with v = one object: " + strings.Join(args, "")}[cc.alias]
	}
	return map[string]any{"callable": m.cs[cc.callable].name, "args": args, "kwargs": kw, "call": call + ")", "huge": m.isHuge(cc), "alias": cc.alias}
}

func (m *callMode) parseSingle(s string) *callCase {
	var d struct {
		Callable string      `json:"callable"`
		Args     []string    `json:"args"`
		Kwargs   [][2]string `json:"kwargs"`
		Text     string      `json:"text_b64"`
		Alias    int         `json:"alias"`
		Unary    bool        `json:"unary"`
		X        string      `json:"x"`
		Y        string      `json:"y"`
	}
	if err := jsonUnmarshal(s, &d); err != nil {
		panic(err)
	}
	if strings.HasPrefix(d.Callable, "operator:") {
		findV := func(n string) int {
			for i, p := range m.opv {
				if p.name == n {
					return i
				}
			}
			panic("replay: unknown operand " + n)
		}
		oc := opCase{unary: d.Unary, x: findV(d.X)}
		if !d.Unary {
			oc.y = findV(d.Y)
		}
		for _, op := range append(append([]syntax.Token(nil), unaryOps...), binaryOps...) {
			if "operator:"+op.String() == d.Callable {
				oc.op = op
			}
		}
		m.singleOp = &oc
		return &callCase{oper: true}
	}
	if strings.HasPrefix(d.Callable, "text:") {
		b, _ := base64.StdEncoding.DecodeString(d.Text)
		m.singleStr = string(b)
		for i, t := range m.tts {
			if "text:"+t.name == d.Callable {
				return &callCase{text: true, callable: i, args: []int{0}}
			}
		}
		panic("replay: unknown text template " + d.Callable)
	}
	cc := &callCase{callable: -1}
	for i, c := range m.cs {
		if c.name == d.Callable {
			cc.callable = i
		}
	}
	if cc.callable < 0 {
		panic("replay: unknown callable " + d.Callable)
	}
	find := func(n string) int {
		for i, p := range m.pool {
			if p.name == n {
				return i
			}
		}
		panic("replay: unknown pool value " + n)
	}
	for _, a := range d.Args {
		cc.args = append(cc.args, find(a))
	}
	cc.alias = d.Alias
	for _, kv := range d.Kwargs {
		cc.kwn = append(cc.kwn, kv[0])
		cc.kwv = append(cc.kwv, find(kv[1]))
	}
	return cc
}

// Key: the callable (without the receiver variant) and what went wrong.
func (m *callMode) Key(i int64, kind, detail string) string {
	cc := m.decode(i)
	if cc.oper {
		oc := m.opOf(cc)
		if kind == "timeout" && m.isHuge(cc) {
			return "call:operator:" + oc.op.String() + ":unbounded-work-on-huge-argument"
		}
		return "call:operator:" + oc.op.String() + ":" + kind + ":" + shortDetail(detail)
	}
	if cc.text {
		return "call:text:" + m.tts[cc.callable].name + ":" + kind + ":" + shortDetail(detail)
	}
	name := m.cs[cc.callable].name
	if at := strings.Index(name, "@"); at >= 0 {
		name = name[:at]
	}
	switch kind {
	case "panic":
		return "call:" + name + ":panic:" + shortDetail(detail)
	case "fatal":
		return "call:fatal:" + shortDetail(detail)
	case "timeout":
		if m.isHuge(cc) {
			return "call:" + name + ":unbounded-work-on-huge-argument"
		}
		return "call:" + name + ":timeout"
	}
	return "call:" + name + ":" + kind
}

func (m *callMode) Timeout(i int64) time.Duration {
	if m.isHuge(m.decode(i)) {
		return 400 * time.Millisecond
	}
	return 0
}

func truncQ(s string) string {
	q := fmt.Sprintf("%q", s)
	if len(q) > 120 {
		q = q[:120] + fmt.Sprintf("...(%d bytes)", len(s))
	}
	return q
}

func (m *callMode) Dist(i int64) string {
	cc := m.decode(i)
	if cc.oper {
		return "operator"
	}
	if cc.text {
		return "text"
	}
	return fmt.Sprintf("arity%d+kw%d", len(cc.args), len(cc.kwn))
}

func shortDetail(d string) string {
	d = strings.TrimSpace(d)
	switch {
	case strings.Contains(d, "nil pointer dereference"):
		return "nil-pointer-dereference"
	case strings.Contains(d, "stack overflow") || strings.Contains(d, "stack exceeds"):
		// keep the recursion's function names (after the first line)
		if k := strings.Index(d, " "); k >= 0 {
			fr := d[strings.LastIndex(d, " ")+1:]
			return "stack-overflow:" + fr
		}
		return "stack-overflow"
	case strings.Contains(d, "makeslice"):
		return "makeslice-out-of-range"
	case strings.Contains(d, "index out of range"):
		return "index-out-of-range"
	case strings.Contains(d, "slice bounds out of range"):
		return "slice-bounds-out-of-range"
	case strings.Contains(d, "interface conversion"):
		return "interface-conversion"
	}
	if len(d) > 80 {
		d = d[:80]
	}
	return d
}
