package main

// Use / bind / use again: a name that is visible without a binding (universal `len`,
// predeclared `log`) or not visible at all is USED at top level and inside a function,
// then bound as a global (once or twice), then used again.  Which binding every use
// refers to is a static decision of the resolver that depends on the GlobalReassign
// option (a top-level use then sees only what is bound so far); it is observed here
// through the VALUES the uses evaluate to (a direct oracle), under every option vector,
// and the real syntax tree goes to the Coq model like every other program.

import (
	"fmt"
	"strings"

	"go.starlark.net/resolve"
	"go.starlark.net/starlark"
	"go.starlark.net/syntax"
)

type shadowCase struct {
	Name   string // the identifier
	Kind   string // "universal" "predeclared" "undeclared"
	Double bool   // bound twice
	ViaFor bool   // first binding made by a top-level for loop variable? (needs TopLevelControl) - not used
}

func shadowSrc(c shadowCase) (src string, reassignPos int) {
	var b strings.Builder
	b.WriteString("load(\"m.star\", \"la\", lb=\"lc\")\n") // line 1
	if c.Kind != "undeclared" {
		fmt.Fprintf(&b, "u1 = [%s]\n", c.Name) // line 2: use before any binding
	} else {
		b.WriteString("u1 = [0]\n")
	}
	fmt.Fprintf(&b, "def before(): return [%s]\n", c.Name) // line 3
	fmt.Fprintf(&b, "%s = 42\n", c.Name)                   // line 4
	fmt.Fprintf(&b, "u2 = [%s]\n", c.Name)                 // line 5
	if c.Double {
		fmt.Fprintf(&b, "%s = 43\n", c.Name) // line 6
		reassignPos = 6*1000 + 1
	} else {
		b.WriteString("pad = 0\n")
	}
	fmt.Fprintf(&b, "u3 = [%s]\n", c.Name)                // line 7
	fmt.Fprintf(&b, "def after(): return [%s]\n", c.Name) // line 8
	b.WriteString("u4 = after()\nu5 = before()\n")
	return b.String(), reassignPos
}

// expectation from the scoping rules (doc/spec.md "Name binding and variables" and the GlobalReassign option)
func shadowExpect(c shadowCase, o [6]bool, reassignPos int) (errs []rerr, runtimeError bool, vals map[string]string) {
	gr := o[oGR]
	if c.Double && !gr {
		return []rerr{{"RReassign", reassignPos}}, false, nil
	}
	last := "[42]"
	if c.Double {
		last = "[43]"
	}
	if !gr {
		// every use of the name in the file refers to the global: the use before the assignment fails at run time
		if c.Kind != "undeclared" {
			return nil, true, nil
		}
		return nil, false, map[string]string{"u2": "[42]", "u3": last, "u4": last, "u5": last}
	}
	// legacy semantics: a top-level use sees what is bound so far; uses inside functions see the global
	return nil, false, map[string]string{"u2": "[42]", "u3": last, "u4": last, "u5": last}
}

func runShadow(nvec int, emit func(*progOut)) (runs, problems int) {
	cases := []shadowCase{}
	for _, d := range []bool{false, true} {
		cases = append(cases, shadowCase{Name: "len", Kind: "universal", Double: d}, shadowCase{Name: "log", Kind: "predeclared", Double: d},
			shadowCase{Name: "True", Kind: "universal", Double: d}, shadowCase{Name: "fresh", Kind: "undeclared", Double: d})
	}
	for _, c := range cases {
		src, rp := shadowSrc(c)
		out := &progOut{Kind: "prog", Plant: fmt.Sprintf("shadow:%s:%v", c.Kind, map[bool]string{false: "bound-once", true: "bound-twice"}[c.Double]), Where: "top", Marker: rp, Src: src, Problems: []string{}, Coq: true}
		if f, err := (&syntax.FileOptions{}).Parse("p.star", src, 0); err == nil {
			out.Tree = jStmts(f.Stmts)
		} else {
			out.Problems = append(out.Problems, "generator: program does not parse: "+err.Error())
		}
		step := 1
		if nvec < 64 {
			step = 5 // 0, 5, 10, ... 60 and 63
		}
		for b := 0; b < 64; b += step {
			if nvec < 64 && b == 60 {
				b = 63
			}
			opts, o := optsOf(b)
			runs++
			label := fmt.Sprintf("opts=%06b", b)
			logFn := starlark.NewBuiltin("log", func(*starlark.Thread, *starlark.Builtin, starlark.Tuple, []starlark.Tuple) (starlark.Value, error) {
				return starlark.None, nil
			})
			thread := &starlark.Thread{Name: "c09-shadow", Load: func(*starlark.Thread, string) (starlark.StringDict, error) {
				return starlark.StringDict{"la": starlark.MakeInt(1), "lc": starlark.MakeInt(2)}, nil
			}}
			var g starlark.StringDict
			var err error
			func() {
				defer func() {
					if r := recover(); r != nil {
						err = fmt.Errorf("panic: %v", r)
					}
				}()
				g, err = starlark.ExecFileOptions(opts, thread, "p.star", src, starlark.StringDict{"log": logFn})
			}()
			res := run{Opts: b, Errs: []rerr{}}
			wantErrs, wantRT, wantVals := shadowExpect(c, o, rp)
			switch e := err.(type) {
			case nil:
				res.Accepted = true
			case resolve.ErrorList:
				for _, x := range e {
					res.Errs = append(res.Errs, rerr{ruleOf(x.Msg), posID(x.Pos)})
				}
			case *starlark.EvalError:
				res.Accepted = true
				res.RunErr = "runtime error"
			default:
				res.Other = err.Error()
			}
			out.Runs = append(out.Runs, res)
			switch {
			case res.Other != "":
				out.Problems = append(out.Problems, fmt.Sprintf("%s: %s", label, res.Other))
			case len(wantErrs) > 0:
				if res.Accepted || len(res.Errs) != len(wantErrs) || res.Errs[0] != wantErrs[0] {
					out.Problems = append(out.Problems, fmt.Sprintf("%s: errors %v (accepted=%v), expected exactly %v", label, res.Errs, res.Accepted, wantErrs))
				}
			case !res.Accepted:
				out.Problems = append(out.Problems, fmt.Sprintf("%s: breaks no rule but was rejected: %v", label, res.Errs))
			case wantRT:
				if res.RunErr == "" {
					out.Problems = append(out.Problems, fmt.Sprintf("%s: every use of %s refers to the global bound later in the file, so the first use must fail at run time; the module ran to the end (u1=%v)", label, c.Name, g["u1"]))
				}
			default:
				if res.RunErr != "" {
					out.Problems = append(out.Problems, fmt.Sprintf("%s: run-time error %v, expected values %v", label, err, wantVals))
					break
				}
				for _, k := range []string{"u2", "u3", "u4", "u5"} {
					if got := fmt.Sprint(g[k]); got != wantVals[k] {
						out.Problems = append(out.Problems, fmt.Sprintf("%s: %s = %s, the scoping rules give %s (a use after `%s = ..` must refer to the global, not to the %s name it shadows)", label, k, got, wantVals[k], c.Name, c.Kind))
						break
					}
				}
			}
		}
		out.Bindsets = dumpBindings(src)
		if len(out.Problems) > 0 {
			problems++
		}
		emit(out)
	}
	return
}
