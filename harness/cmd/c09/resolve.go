package main

func resolveMain(args []string) {}
