package main

// c09 resolve: valid programs from a small grammar; one construct planted at a
// random syntactic position (a rule violation, or a construct gated by a
// dialect option); every program is pushed through the real pipeline
// (parse -> resolve -> compile -> run) under option vectors, with predeclared
// built-ins that log their calls.  Printed per program: the real syntax tree
// (positions as the resolver reports them), the planted construct with the
// outcome expected from the language rules, and per option vector the
// resolver's error list (rule class, position), whether the program was
// accepted, ran, and how many host-visible effects happened.

import (
	"errors"
	"flag"
	"fmt"
	"os"
	"sort"
	"strings"

	"go.starlark.net/repl"
	"go.starlark.net/resolve"
	"go.starlark.net/starlark"
	"go.starlark.net/syntax"

	"verifharness/internal/hx"
)

// ------------------------------------------------------------ rule classes
func ruleOf(msg string) string {
	switch {
	case strings.Contains(msg, "not in a loop"):
		return "RBranchNotInLoop"
	case strings.Contains(msg, "if statement not within a function"):
		return "RIfToplevel"
	case strings.Contains(msg, "for loop not within a function"):
		return "RForToplevel"
	case strings.Contains(msg, "does not support while loops"):
		return "RWhileUnsupported"
	case strings.Contains(msg, "while loop not within a function"):
		return "RWhileToplevel"
	case strings.Contains(msg, "return statement not within a function"):
		return "RReturnToplevel"
	case strings.Contains(msg, "load statement within a function"):
		return "RLoadInFunction"
	case strings.Contains(msg, "load statement within a loop"):
		return "RLoadInLoop"
	case strings.Contains(msg, "load statement within a conditional"):
		return "RLoadInConditional"
	case strings.Contains(msg, "leading underscores"):
		return "RLoadUnderscore"
	case strings.Contains(msg, "in augmented assignment"):
		return "RAugSeq"
	case strings.Contains(msg, "can't assign to"):
		return "RBadAssign"
	case strings.Contains(msg, "multiple **kwargs not allowed"):
		return "RArgMultipleKwargs"
	case strings.Contains(msg, "*args may not follow **kwargs"):
		return "RArgStarAfterKwargs"
	case strings.Contains(msg, "multiple *args not allowed"):
		return "RArgMultipleStar"
	case strings.Contains(msg, "keyword argument may not follow **kwargs"):
		return "RArgNamedAfterKwargs"
	case strings.Contains(msg, "keyword argument may not follow *args"):
		return "RArgNamedAfterStar"
	case strings.Contains(msg, "is repeated"):
		return "RArgRepeatedName"
	case strings.Contains(msg, "positional argument may not follow *args"):
		return "RArgPosAfterStar"
	case strings.Contains(msg, "positional argument may not follow **kwargs"):
		return "RArgPosAfterKwargs"
	case strings.Contains(msg, "positional argument may not follow named"):
		return "RArgPosAfterNamed"
	case strings.Contains(msg, "positional arguments in call, limit is 255"):
		return "RArgTooManyPos"
	case strings.Contains(msg, "keyword arguments in call, limit is 255"):
		return "RArgTooManyNamed"
	case strings.Contains(msg, "required parameter may not follow **"):
		return "RParReqAfterKwargs"
	case strings.Contains(msg, "required parameter may not follow optional"):
		return "RParReqAfterOptional"
	case strings.Contains(msg, "duplicate parameter"):
		return "RParDuplicate"
	case strings.Contains(msg, "optional parameter may not follow **"):
		return "RParOptAfterKwargs"
	case strings.Contains(msg, "* parameter may not follow **"):
		return "RParStarAfterKwargs"
	case strings.Contains(msg, "multiple * parameters not allowed"):
		return "RParMultipleStar"
	case strings.Contains(msg, "multiple ** parameters not allowed"):
		return "RParMultipleKwargs"
	case strings.Contains(msg, "bare * must be followed"):
		return "RParBareStar"
	case strings.Contains(msg, "cannot reassign top-level"):
		return "RLoadReassign"
	case strings.Contains(msg, "cannot reassign"):
		return "RReassign"
	case strings.Contains(msg, "does not support sets"):
		return "RSetUnsupported"
	case strings.Contains(msg, "undefined:"):
		return "RUndefined"
	}
	return "other:" + msg
}

func posID(p syntax.Position) int { return int(p.Line)*1000 + int(p.Col) }

// ------------------------------------------------- syntax tree -> JSON term
// A node is a JSON array: [tag, fields...].
type J = []any

func jExprs(es []syntax.Expr) []any {
	out := []any{}
	for _, e := range es {
		out = append(out, jExpr(e))
	}
	return out
}

func jExpr(e syntax.Expr) any {
	switch e := e.(type) {
	case nil:
		return J{"ELit"}
	case *syntax.Ident:
		return J{"EId", posID(e.NamePos), e.Name}
	case *syntax.Literal:
		return J{"ELit"}
	case *syntax.ParenExpr:
		return J{"EOp", []any{jExpr(e.X)}}
	case *syntax.ListExpr:
		return J{"EOp", jExprs(e.List)}
	case *syntax.TupleExpr:
		return J{"EOp", jExprs(e.List)}
	case *syntax.CondExpr:
		return J{"EOp", []any{jExpr(e.Cond), jExpr(e.True), jExpr(e.False)}}
	case *syntax.IndexExpr:
		return J{"EOp", []any{jExpr(e.X), jExpr(e.Y)}}
	case *syntax.SliceExpr:
		l := []any{jExpr(e.X)}
		for _, x := range []syntax.Expr{e.Lo, e.Hi, e.Step} {
			if x != nil {
				l = append(l, jExpr(x))
			}
		}
		return J{"EOp", l}
	case *syntax.DictEntry:
		return J{"EOp", []any{jExpr(e.Key), jExpr(e.Value)}}
	case *syntax.DictExpr:
		return J{"EOp", jExprs(e.List)}
	case *syntax.UnaryExpr:
		return J{"EOp", []any{jExpr(e.X)}}
	case *syntax.BinaryExpr:
		return J{"EOp", []any{jExpr(e.X), jExpr(e.Y)}}
	case *syntax.DotExpr:
		return J{"EOp", []any{jExpr(e.X)}}
	case *syntax.CallExpr:
		start, _ := e.Span()
		args := []any{}
		for _, a := range e.Args {
			p, _ := a.Span()
			if u, ok := a.(*syntax.UnaryExpr); ok && u.Op == syntax.STARSTAR {
				args = append(args, J{"AStarStar", posID(p), jExpr(a)})
			} else if ok && u.Op == syntax.STAR {
				args = append(args, J{"AStar", posID(p), jExpr(a)})
			} else if b, ok := a.(*syntax.BinaryExpr); ok && b.Op == syntax.EQ {
				x := b.X.(*syntax.Ident)
				args = append(args, J{"ANamed", posID(x.NamePos), x.Name, jExpr(b.Y)})
			} else {
				args = append(args, J{"APos", posID(p), jExpr(a)})
			}
		}
		return J{"ECall", posID(start), jExpr(e.Fn), args}
	case *syntax.LambdaExpr:
		return J{"ELambda", posID(e.Lambda), jParams(e.Params), jExpr(e.Body)}
	case *syntax.Comprehension:
		first := e.Clauses[0].(*syntax.ForClause)
		cl := []any{}
		for _, c := range e.Clauses[1:] {
			switch c := c.(type) {
			case *syntax.ForClause:
				cl = append(cl, J{"CFor", jLhs(c.Vars), jExpr(c.X)})
			case *syntax.IfClause:
				cl = append(cl, J{"CIf", jExpr(c.Cond)})
			}
		}
		start, _ := e.Span()
		return J{"EComp", posID(start), jExpr(first.X), jLhs(first.Vars), cl, jExpr(e.Body)}
	}
	panic(fmt.Sprintf("unexpected expr %T", e))
}

func jParams(ps []syntax.Expr) []any {
	out := []any{}
	for _, p := range ps {
		switch p := p.(type) {
		case *syntax.Ident:
			out = append(out, J{"PId", posID(p.NamePos), p.Name})
		case *syntax.BinaryExpr:
			out = append(out, J{"PDef", posID(p.OpPos), p.X.(*syntax.Ident).Name, jExpr(p.Y)})
		case *syntax.UnaryExpr:
			if p.Op == syntax.STAR {
				if id, _ := p.X.(*syntax.Ident); id != nil {
					out = append(out, J{"PStar", posID(p.OpPos), J{posID(id.NamePos), id.Name}})
				} else {
					out = append(out, J{"PStar", posID(p.OpPos), nil})
				}
			} else {
				id := p.X.(*syntax.Ident)
				out = append(out, J{"PStarStar", posID(p.OpPos), posID(id.NamePos), id.Name})
			}
		}
	}
	return out
}

func jLhs(e syntax.Expr) any {
	switch e := e.(type) {
	case *syntax.Ident:
		return J{"LId", posID(e.NamePos), e.Name}
	case *syntax.IndexExpr:
		return J{"LExpr", []any{jExpr(e.X), jExpr(e.Y)}}
	case *syntax.DotExpr:
		return J{"LExpr", []any{jExpr(e.X)}}
	case *syntax.TupleExpr:
		l := []any{}
		for _, x := range e.List {
			l = append(l, jLhs(x))
		}
		return J{"LSeq", posID(syntax.Start(e)), l}
	case *syntax.ListExpr:
		l := []any{}
		for _, x := range e.List {
			l = append(l, jLhs(x))
		}
		return J{"LSeq", posID(syntax.Start(e)), l}
	case *syntax.ParenExpr:
		return jLhs(e.X)
	}
	return J{"LBad", posID(syntax.Start(e))}
}

func jStmts(ss []syntax.Stmt) []any {
	out := []any{}
	for _, s := range ss {
		out = append(out, jStmt(s))
	}
	return out
}

func jStmt(s syntax.Stmt) any {
	switch s := s.(type) {
	case *syntax.ExprStmt:
		return J{"SExpr", jExpr(s.X)}
	case *syntax.BranchStmt:
		if s.Token == syntax.PASS {
			return J{"SExpr", J{"ELit"}}
		}
		return J{"SBranch", posID(s.TokenPos)}
	case *syntax.IfStmt:
		return J{"SIf", posID(s.If), jExpr(s.Cond), jStmts(s.True), jStmts(s.False)}
	case *syntax.AssignStmt:
		return J{"SAssign", s.Op != syntax.EQ, jLhs(s.LHS), jExpr(s.RHS)}
	case *syntax.DefStmt:
		return J{"SDef", posID(s.Def), posID(s.Name.NamePos), s.Name.Name, jParams(s.Params), jStmts(s.Body)}
	case *syntax.ForStmt:
		return J{"SFor", posID(s.For), jLhs(s.Vars), jExpr(s.X), jStmts(s.Body)}
	case *syntax.WhileStmt:
		return J{"SWhile", posID(s.While), jExpr(s.Cond), jStmts(s.Body)}
	case *syntax.ReturnStmt:
		if s.Result == nil {
			return J{"SReturn", posID(s.Return), nil}
		}
		return J{"SReturn", posID(s.Return), jExpr(s.Result)}
	case *syntax.LoadStmt:
		items := []any{}
		for i := range s.From {
			items = append(items, J{posID(s.From[i].NamePos), s.From[i].Name, posID(s.To[i].NamePos), s.To[i].Name})
		}
		return J{"SLoad", posID(s.Load), items}
	}
	panic(fmt.Sprintf("unexpected stmt %T", s))
}

// ------------------------------------------------------------------ generator
// Base programs break no rule under ANY option vector: no while, no if/for at
// top level, every global bound once and before use, only known names.
type gen struct {
	r      *hx.Rand
	nglob  int
	nfun   int
	nloc   int
	plant  string // source text of an expression-level plant (with the \x01 marker), "" if none/used
	placed bool
}

func (g *gen) pick(n int) int { return g.r.Intn(n) }

// names usable in an expression
type scope struct {
	names []string
}

func (s *scope) with(n ...string) *scope { return &scope{append(append([]string{}, s.names...), n...)} }

func (g *gen) expr(sc *scope, depth int) string {
	// an expression-level plant takes the first eligible slot with some probability
	if g.plant != "" && !g.placed && g.pick(3) == 0 {
		g.placed = true
		return g.plant
	}
	if depth <= 0 {
		switch g.pick(3) {
		case 0:
			return fmt.Sprint(g.pick(10))
		case 1:
			if len(sc.names) > 0 {
				return sc.names[g.pick(len(sc.names))]
			}
			return "1"
		default:
			return "len"
		}
	}
	switch g.pick(11) {
	case 0:
		return g.expr(sc, depth-1) + " + " + g.expr(sc, depth-1)
	case 1:
		return "[" + g.expr(sc, depth-1) + ", " + g.expr(sc, depth-1) + "]"
	case 2:
		return "log(" + g.expr(sc, depth-1) + ")"
	case 3:
		g.nloc++
		v := fmt.Sprintf("c%d", g.nloc)
		return "[" + g.expr(sc.with(v), depth-1) + " for " + v + " in [" + g.expr(sc, depth-1) + "]]"
	case 4:
		g.nloc++
		p := fmt.Sprintf("p%d", g.nloc)
		return "(lambda " + p + "=" + g.expr(sc, depth-1) + ": " + g.expr(sc.with(p), depth-1) + ")"
	case 5:
		return "(" + g.expr(sc, depth-1) + " if " + g.expr(sc, depth-1) + " else " + g.expr(sc, depth-1) + ")"
	case 6:
		return "{" + g.expr(sc, depth-1) + ": " + g.expr(sc, depth-1) + "}"
	case 7:
		return "log(" + g.expr(sc, depth-1) + ", k=" + g.expr(sc, depth-1) + ", *[" + g.expr(sc, depth-1) + "], **{})"
	case 8:
		g.nloc++
		v, w := fmt.Sprintf("c%d", g.nloc), fmt.Sprintf("d%d", g.nloc)
		return "[" + v + " for " + v + " in [1] if " + g.expr(sc.with(v), depth-1) + " for " + w + " in [" + v + "]]"
	case 9:
		return "(" + g.expr(sc, depth-1) + ")[0]"
	default:
		return g.expr(sc, 0)
	}
}

type writer struct {
	b strings.Builder
}

func (w *writer) line(indent int, s string) { w.b.WriteString(strings.Repeat("  ", indent) + s + "\n") }

// ctx of a statement plant
type site struct {
	kind string // "top" "fn" "fn-for" "fn-if" "fn-def" "fn-for-def" "fn-for-lambda..."
}

// body statements of a function (valid), possibly hosting a statement plant
func (g *gen) fnBody(w *writer, indent int, sc *scope, inLoop bool, depth int, plantStmt func(indent int, sc *scope, inLoop bool) bool) {
	n := 1 + g.pick(3)
	for i := 0; i < n; i++ {
		if plantStmt != nil && g.pick(3) == 0 && plantStmt(indent, sc, inLoop) {
			plantStmt = nil
		}
		switch g.pick(8) {
		case 0, 1:
			g.nloc++
			v := fmt.Sprintf("v%d", g.nloc)
			w.line(indent, v+" = "+g.expr(sc, 2))
			sc = sc.with(v)
		case 2:
			w.line(indent, "if "+g.expr(sc, 1)+":")
			if depth > 0 {
				g.fnBody(w, indent+1, sc, inLoop, depth-1, nil)
			} else {
				w.line(indent+1, "pass")
			}
			if g.pick(2) == 0 {
				w.line(indent, "else:")
				w.line(indent+1, "log("+g.expr(sc, 1)+")")
			}
		case 3:
			g.nloc++
			v := fmt.Sprintf("i%d", g.nloc)
			w.line(indent, "for "+v+" in ["+g.expr(sc, 1)+"]:")
			if depth > 0 {
				g.fnBody(w, indent+1, sc.with(v), true, depth-1, nil)
			}
			switch g.pick(3) {
			case 0:
				w.line(indent+1, "break")
			case 1:
				w.line(indent+1, "continue")
			default:
				w.line(indent+1, "log("+v+")")
			}
		case 4:
			w.line(indent, "log("+g.expr(sc, 2)+")")
		case 5:
			if depth > 0 {
				g.nfun++
				f := fmt.Sprintf("h%d", g.nfun)
				w.line(indent, "def "+f+"(q, r=2, *s, t=3, **u):")
				g.fnBody(w, indent+1, sc.with("q", "r", "s", "t", "u"), false, depth-1, nil)
				w.line(indent+1, "return q")
				sc = sc.with(f)
			} else {
				w.line(indent, "pass")
			}
		case 6:
			if inLoop {
				w.line(indent, "if "+g.expr(sc, 0)+":")
				w.line(indent+1, []string{"break", "continue"}[g.pick(2)])
			} else {
				w.line(indent, "pass")
			}
		default:
			g.nloc++
			v := fmt.Sprintf("v%d", g.nloc)
			w.line(indent, v+" = 0")
			w.line(indent, v+" += "+g.expr(sc.with(v), 1))
			sc = sc.with(v)
		}
	}
	if plantStmt != nil {
		plantStmt(indent, sc, inLoop)
	}
}

// A plant: what to write and what the language rules say about it.
type expectation struct {
	Rule string `json:"rule"`
	Pos  int    `json:"pos"` // 0 = the marker
}

type plant struct {
	Kind    string
	IsExpr  bool
	Expr    string                                 // expression text with marker
	Stmt    func(w *writer, indent int, sc *scope) // writes statement text with marker
	Where   []string                               // eligible sites for statement plants
	Expect  func(o [6]bool, where string) []string // rules expected AT THE MARKER under option vector o
	NeedsFn bool
}

// option indices
const (
	oSet = iota
	oWhile
	oTLC
	oGR
	oLBG
	oRec
)

func always(r string) func([6]bool, string) []string {
	return func([6]bool, string) []string { return []string{r} }
}

func manyArgs(named bool) string {
	var as []string
	for i := 0; i < 256; i++ {
		if named {
			as = append(as, fmt.Sprintf("k%d=0", i))
		} else {
			as = append(as, "0")
		}
	}
	return "\x01log(" + strings.Join(as, ", ") + ")"
}

func plants() []*plant {
	ps := []*plant{}
	none := func(o [6]bool, _ string) []string { return nil }
	ex := func(kind, text, rule string) {
		ps = append(ps, &plant{Kind: kind, IsExpr: true, Expr: text, Expect: always(rule)})
	}
	// call argument lists
	// the misplaced positional argument ranges over the expression forms (every kind of syntax.Expr an argument can be)
	argForms := map[string]string{"literal": "2", "ident": "len", "neg": "-len", "pos": "+1", "invert": "~1", "not": "not 1", "paren": "(1)",
		"binary": "1 + 2", "list": "[1]", "dict": "{1: 2}", "call": "log(1)", "lambda": "lambda: 1", "cond": "1 if 1 else 2",
		"comprehension": "[q8 for q8 in [1]]", "index": "[1][0]", "dot": "len.real", "tuple": "(1, 2)", "string": "\"s\""}
	formNames := []string{}
	for k := range argForms {
		formNames = append(formNames, k)
	}
	sort.Strings(formNames)
	for _, fnm := range formNames {
		ex("arg-pos-after-named:"+fnm, "log(k=1, \x01"+argForms[fnm]+")", "RArgPosAfterNamed")
		ex("arg-pos-after-star:"+fnm, "log(*[1], \x01"+argForms[fnm]+")", "RArgPosAfterStar")
		ex("arg-pos-after-kwargs:"+fnm, "log(**{}, \x01"+argForms[fnm]+")", "RArgPosAfterKwargs")
	}
	// the state of an argument-list scan must survive what is nested in the arguments before the offending one:
	// calls with their own named / * / ** arguments, directly, in a lambda, in a comprehension, two levels deep
	nests := map[string]string{"call": "log()", "call-named": "log(k=9)", "call-star": "log(*[9])", "call-kwargs": "log(**{})",
		"call-in-call": "log(z=log(k=9, j=8))", "call-in-lambda": "(lambda: log(k=9))", "call-in-comprehension": "[log(k=9) for q6 in [1]]",
		"call-mixed": "log(7, k=9, *[8], **{})"}
	nestNames := []string{}
	for k := range nests {
		nestNames = append(nestNames, k)
	}
	sort.Strings(nestNames)
	for _, nn := range nestNames {
		v := nests[nn]
		ex("arg-repeated-after:"+nn, "log(k=1, j="+v+", \x01k=2)", "RArgRepeatedName")
		ex("arg-repeated-value:"+nn, "log(k="+v+", \x01k=2)", "RArgRepeatedName")
		ex("arg-pos-after-named-value:"+nn, "log(k="+v+", \x012)", "RArgPosAfterNamed")
		ex("arg-pos-after-named-after:"+nn, "log(k=1, j="+v+", \x012)", "RArgPosAfterNamed")
		ex("arg-pos-after-star-nested:"+nn, "log(*["+v+"], \x012)", "RArgPosAfterStar")
		ex("arg-pos-after-kwargs-nested:"+nn, "log(**{1: "+v+"}, \x012)", "RArgPosAfterKwargs")
		ex("arg-named-after-kwargs-nested:"+nn, "log(**{1: "+v+"}, \x01k=2)", "RArgNamedAfterKwargs")
		ex("arg-named-after-star-nested:"+nn, "log(*["+v+"], \x01k=2)", "RArgNamedAfterStar")
		ex("arg-multiple-kwargs-nested:"+nn, "log(**{1: "+v+"}, \x01**{})", "RArgMultipleKwargs")
		ex("arg-multiple-star-nested:"+nn, "log(*["+v+"], \x01*[2])", "RArgMultipleStar")
		ex("arg-star-after-kwargs-nested:"+nn, "log(**{1: "+v+"}, \x01*[2])", "RArgStarAfterKwargs")
		// and nothing leaks OUT of the nested call: the same keyword inside and outside is fine
		ps = append(ps, &plant{Kind: "arg-nested-same-keyword:" + nn, IsExpr: true, Expr: "\x01log(k=" + v + ", j=" + v + ")", Expect: none})
		ps = append(ps, &plant{Kind: "arg-positional-after-nested-named:" + nn, IsExpr: true, Expr: "\x01log(" + v + ", 2, k=3)", Expect: none})
	}
	// 256 positional arguments that are unary expressions
	ex("arg-256-positional-unary", strings.Replace(strings.Replace(manyArgs(false), "0", "-1", -1), "l-1g", "log", 1), "RArgTooManyPos")
	ex("arg-named-after-kwargs", "log(**{}, \x01k=2)", "RArgNamedAfterKwargs")
	ex("arg-named-after-star", "log(*[1], \x01k=2)", "RArgNamedAfterStar")
	ex("arg-repeated", "log(k=1, \x01k=2)", "RArgRepeatedName")
	ex("arg-multiple-kwargs", "log(**{}, \x01**{})", "RArgMultipleKwargs")
	ex("arg-star-after-kwargs", "log(**{}, \x01*[1])", "RArgStarAfterKwargs")
	ex("arg-multiple-star", "log(*[1], \x01*[2])", "RArgMultipleStar")
	ex("arg-256-positional", manyArgs(false), "RArgTooManyPos")
	ex("arg-256-named", manyArgs(true), "RArgTooManyNamed")
	// exactly 255 of each is allowed
	ps = append(ps, &plant{Kind: "arg-255-positional", IsExpr: true, Expr: strings.Replace(manyArgs(false), "0, 0", "0", 1), Expect: func([6]bool, string) []string { return nil }})
	ps = append(ps, &plant{Kind: "arg-255-named", IsExpr: true, Expr: strings.Replace(manyArgs(true), "k0=0, ", "", 1), Expect: func([6]bool, string) []string { return nil }})
	// lambda parameter lists
	ex("lambda-dup", "(lambda a, \x01a: 1)", "RParDuplicate")
	ex("lambda-dup-default", "(lambda a, a\x01=1: 1)", "RParDuplicate")
	ex("lambda-dup-star", "(lambda a, *\x01a: 1)", "RParDuplicate")
	ex("lambda-dup-kwargs", "(lambda a, **\x01a: 1)", "RParDuplicate")
	ex("lambda-req-after-opt", "(lambda a=1, \x01b: 1)", "RParReqAfterOptional")
	ex("lambda-req-after-kwargs", "(lambda **k, \x01a: 1)", "RParReqAfterKwargs")
	ex("lambda-opt-after-kwargs", "(lambda **k, a\x01=1: 1)", "RParOptAfterKwargs")
	ex("lambda-star-after-kwargs", "(lambda **k, \x01*a: 1)", "RParStarAfterKwargs")
	ex("lambda-multiple-star", "(lambda *a, \x01*b: 1)", "RParMultipleStar")
	ex("lambda-multiple-kwargs", "(lambda **a, \x01**b: 1)", "RParMultipleKwargs")
	ex("lambda-bare-star", "(lambda a, \x01*: 1)", "RParBareStar")
	// names
	ex("undefined", "\x01nosuchname", "RUndefined")
	ps = append(ps, &plant{Kind: "set", IsExpr: true, Expr: "\x01set([1])", Expect: func(o [6]bool, _ string) []string {
		if o[oSet] {
			return nil
		}
		return []string{"RSetUnsupported"}
	}})
	// statements
	st := func(kind string, where []string, text []string, exp func([6]bool, string) []string) {
		ps = append(ps, &plant{Kind: kind, Where: where, Expect: exp, Stmt: func(w *writer, indent int, sc *scope) {
			for i, l := range text {
				extra := 0
				if i > 0 && strings.HasSuffix(text[i-1], ":") {
					extra = 1
				}
				w.line(indent+extra, l)
			}
		}})
	}
	noLoop := []string{"top", "fn", "fn-if", "fn-def", "fn-for-def"}
	st("break", noLoop, []string{"\x01break"}, always("RBranchNotInLoop"))
	st("continue", noLoop, []string{"\x01continue"}, always("RBranchNotInLoop"))
	st("return", []string{"top"}, []string{"\x01return 1"}, always("RReturnToplevel"))
	inFn := []string{"fn", "fn-for", "fn-if", "fn-def", "fn-for-def"}
	st("load-in-function", inFn, []string{"\x01load(\"m.star\", \"zz\")"}, always("RLoadInFunction"))
	st("load-underscore", []string{"top"}, []string{"load(\"m.star\", \"\x01_zz\")"}, always("RLoadUnderscore"))
	st("load-underscore-alias", []string{"top"}, []string{"load(\"m.star\", yy=\"\x01_zz\")"}, always("RLoadUnderscore"))
	st("while", inFn, []string{"\x01while 0:", "pass"}, func(o [6]bool, _ string) []string {
		if o[oWhile] {
			return nil
		}
		return []string{"RWhileUnsupported"}
	})
	st("while-toplevel", []string{"top"}, []string{"\x01while 0:", "pass"}, func(o [6]bool, _ string) []string {
		var r []string
		if !o[oWhile] {
			r = append(r, "RWhileUnsupported")
		}
		if !o[oTLC] {
			r = append(r, "RWhileToplevel")
		}
		return r
	})
	tlc := func(rule string) func([6]bool, string) []string {
		return func(o [6]bool, _ string) []string {
			if o[oTLC] {
				return nil
			}
			return []string{rule}
		}
	}
	st("if-toplevel", []string{"top"}, []string{"\x01if 1:", "pass"}, tlc("RIfToplevel"))
	st("for-toplevel", []string{"top"}, []string{"\x01for tl in []:", "pass"}, tlc("RForToplevel"))
	st("aug-tuple", inFn, []string{"\x01aa, bb += 1"}, always("RAugSeq"))
	st("aug-list", inFn, []string{"\x01[aa, bb] += 1"}, always("RAugSeq"))
	st("assign-call", []string{"top", "fn", "fn-for"}, []string{"\x01log() = 1"}, always("RBadAssign"))
	st("assign-literal", []string{"top", "fn", "fn-for"}, []string{"\x011 = 2"}, always("RBadAssign"))
	st("assign-in-tuple", []string{"fn"}, []string{"aa, \x01log() = 1, 2"}, always("RBadAssign"))
	st("def-dup", []string{"top", "fn", "fn-for"}, []string{"def dd(a, \x01a):", "pass"}, always("RParDuplicate"))
	st("def-req-after-opt", []string{"top", "fn"}, []string{"def dd(a=1, \x01b):", "pass"}, always("RParReqAfterOptional"))
	st("def-bare-star", []string{"top", "fn"}, []string{"def dd(a, \x01*):", "pass"}, always("RParBareStar"))
	st("def-bare-star-kwargs", []string{"top", "fn"}, []string{"def dd(a, \x01*, **k):", "pass"}, always("RParBareStar"))
	noErr := func([6]bool, string) []string { return nil }
	st("def-kwonly-required-after-optional", []string{"top", "fn"}, []string{"def \x01dd(a=1, *b, c):", "pass"}, noErr)
	st("def-bare-star-kwonly-required", []string{"top", "fn"}, []string{"def \x01dd(a=1, *, c, d=2, **e):", "pass"}, noErr)
	st("def-multiple-star", []string{"top", "fn"}, []string{"def dd(*a, \x01*, b):", "pass"}, always("RParMultipleStar"))
	gr := func(rule string) func([6]bool, string) []string {
		return func(o [6]bool, _ string) []string {
			if o[oGR] {
				return nil
			}
			return []string{rule}
		}
	}
	st("global-reassign", []string{"top"}, []string{"gg = 1", "---", "\x01gg = 2"}, gr("RReassign"))
	st("global-reassign-def", []string{"top"}, []string{"gg = 1", "---", "def \x01gg():", "pass"}, gr("RReassign"))
	st("global-reassign-aug", []string{"top"}, []string{"gg = 1", "---", "\x01gg += 2"}, gr("RReassign"))
	st("global-reassign-after-tuple", []string{"top"}, []string{"ga, gb = 1, 2", "---", "\x01ga = 3"}, gr("RReassign"))
	st("def-twice", []string{"top"}, []string{"def gd(): pass", "---", "def \x01gd(): pass"}, gr("RReassign"))
	st("parameter-shadows-global", []string{"top"}, []string{"gp = 1", "---", "def gq(\x01gp): return gp"}, none)
	st("comprehension-variable-shadows-global", []string{"top"}, []string{"gc = 1", "---", "log([\x01gc for gc in [1]])"}, none)
	st("local-assignment-shadows-global", []string{"top"}, []string{"gl = 1", "---", "def gm(): \x01gl = 2"}, none)
	st("load-twice", []string{"top"}, []string{"load(\"m.star\", \"zz\")", "---", "load(\"m.star\", \"\x01zz\")"}, func(o [6]bool, _ string) []string {
		switch {
		case o[oGR]:
			return nil
		case o[oLBG]:
			return []string{"RReassign"}
		}
		return []string{"RLoadReassign"}
	})
	st("load-then-assign", []string{"top"}, []string{"load(\"m.star\", \"zz\")", "---", "\x01zz = 2"}, gr("RReassign"))
	st("assign-then-load", []string{"top"}, []string{"zz = 2", "---", "load(\"m.star\", \"\x01zz\")"}, func(o [6]bool, _ string) []string {
		// a file-local load binding does not collide with a global; a global one does
		if o[oLBG] && !o[oGR] {
			return []string{"RReassign"}
		}
		return nil
	})
	st("use-before-def-toplevel", []string{"top"}, []string{"log(\x01later)", "---", "later = 1"}, func(o [6]bool, _ string) []string {
		// legacy semantics ride on GlobalReassign: a top-level use then refers to what is bound so far
		if o[oGR] {
			return []string{"RUndefined"}
		}
		return nil
	})
	// scoping: what is visible where
	st("comp-var-leak", []string{"top", "fn"}, []string{"log([cv for cv in [1]])", "log(\x01cv)"}, always("RUndefined"))
	st("undefined-twice", []string{"fn", "fn-for", "fn-def"}, []string{"log(\x01nosuch2)", "log(nosuch2, [nosuch2 for q9 in [1]])"}, always("RUndefined"))
	st("set-shadowed-by-parameter", []string{"top", "fn"}, []string{"def sf(set):", "return \x01set([1])"}, none)
	st("set-shadowed-by-local", []string{"fn"}, []string{"set = len", "log(\x01set([1]))"}, none)
	st("local-forward-use", []string{"fn", "fn-if"}, []string{"log(\x01lv9)", "lv9 = 1"}, none)
	st("lambda-param-shadows", []string{"top", "fn"}, []string{"log((lambda nosuch3: \x01nosuch3)(1))"}, none)
	st("comp-later-clause-var", []string{"top", "fn"}, []string{"log([1 for q1 in [1] if \x01q2 for q2 in [2]])"}, none)
	// the counters are restored when a loop or an if ends
	st("break-after-loop", inFn, []string{"for bx in []:", "pass", "\x01break"}, func(o [6]bool, w string) []string {
		if w == "fn-for" {
			return nil // still inside the host's loop
		}
		return []string{"RBranchNotInLoop"}
	})
	st("load-after-toplevel-if", []string{"top"}, []string{"if 1:", "pass", "\x01load(\"m.star\", \"zz\")"}, func(o [6]bool, _ string) []string {
		if o[oTLC] {
			return nil
		}
		return []string{"@2,0:RIfToplevel"}
	})
	st("load-after-toplevel-for", []string{"top"}, []string{"for tl3 in []:", "pass", "\x01load(\"m.star\", \"zz\")"}, func(o [6]bool, _ string) []string {
		if o[oTLC] {
			return nil
		}
		return []string{"@2,0:RForToplevel"}
	})
	st("load-in-toplevel-if", []string{"top"}, []string{"if 1:", "\x01load(\"m.star\", \"zz\")"}, func(o [6]bool, _ string) []string {
		if o[oTLC] {
			return []string{"RLoadInConditional"}
		}
		return []string{"@enclosing:RIfToplevel", "RLoadInConditional"}
	})
	st("load-in-toplevel-for", []string{"top"}, []string{"for tl2 in []:", "\x01load(\"m.star\", \"zz\")"}, func(o [6]bool, _ string) []string {
		if o[oTLC] {
			return []string{"RLoadInLoop"}
		}
		return []string{"@enclosing:RForToplevel", "RLoadInLoop"}
	})
	st("use-before-def-in-function", []string{"fn"}, []string{"log(\x01later2)", "---"}, func(o [6]bool, _ string) []string { return nil })
	return ps
}

// one generated program
type program struct {
	Src    string
	Kind   string
	Where  string
	Marker int // position id of the marker, 0 if no plant
	plant  *plant
}

func (g *gen) program(p *plant, round int) *program {
	w := &writer{}
	sc := &scope{}
	out := &program{Kind: "valid", plant: p}
	where := ""
	if p != nil {
		out.Kind = p.Kind
		if p.IsExpr {
			g.plant = p.Expr
		} else {
			where = p.Where[round%len(p.Where)]
		}
	}
	out.Where = where
	var parts []string
	if p != nil && !p.IsExpr {
		tw := &writer{}
		p.Stmt(tw, 0, sc)
		parts = strings.Split(tw.b.String(), "---\n")
	}
	emitPart := func(ww *writer, indent int, part string) {
		for _, l := range strings.Split(strings.TrimRight(part, "\n"), "\n") {
			ww.line(indent, l)
		}
	}
	stmtPlant := func(indent int, _ *scope, _ bool) bool {
		for _, part := range parts {
			emitPart(w, indent, part)
		}
		return true
	}
	// top level
	w.line(0, "load(\"m.star\", \"la\", lb=\"lc\")")
	sc = sc.with("la", "lb")
	if where == "top" && len(parts) > 1 {
		emitPart(w, 0, parts[0])
		parts = parts[1:]
	}
	if p != nil && p.Kind == "use-before-def-in-function" {
		// the global is bound after the function that uses it
		parts = []string{strings.Replace(parts[0], "later2", "later2", 1)}
	}
	n := 2 + g.pick(3)
	fnPlaced := false
	for i := 0; i < n; i++ {
		if where == "top" && i == n/2 {
			for _, part := range parts {
				emitPart(w, 0, part)
			}
		}
		switch g.pick(3) {
		case 0:
			g.nglob++
			v := fmt.Sprintf("g%d", g.nglob)
			w.line(0, v+" = "+g.expr(sc, 2))
			sc = sc.with(v)
		case 1:
			w.line(0, "log("+g.expr(sc, 2)+")")
		default:
			g.nfun++
			f := fmt.Sprintf("f%d", g.nfun)
			w.line(0, "def "+f+"(a, b=1, *args, k=2, **kw):")
			fsc := sc.with("a", "b", "args", "k", "kw", f)
			var host func(int, *scope, bool) bool
			if where != "" && where != "top" && !fnPlaced {
				fnPlaced = true
				host = func(indent int, hsc *scope, inLoop bool) bool {
					switch where {
					case "fn":
						if inLoop {
							return false
						}
						return stmtPlant(indent, hsc, inLoop)
					case "fn-for":
						w.line(indent, "for z in [1]:")
						stmtPlant(indent+1, hsc, true)
						w.line(indent+1, "log(z)")
						return true
					case "fn-if":
						if inLoop {
							return false
						}
						w.line(indent, "if a:")
						stmtPlant(indent+1, hsc, false)
						w.line(indent+1, "log(a)")
						return true
					case "fn-def":
						if inLoop {
							return false
						}
						w.line(indent, "def inner(y):")
						stmtPlant(indent+1, hsc, false)
						w.line(indent+1, "return y")
						return true
					case "fn-for-def":
						// a def inside a loop: the loop does not extend into the nested function
						w.line(indent, "for z in [1]:")
						w.line(indent+1, "def inner(y):")
						stmtPlant(indent+2, hsc, false)
						w.line(indent+2, "return y")
						w.line(indent+1, "log(inner(z))")
						return true
					}
					return false
				}
			}
			g.fnBody(w, 1, fsc, false, 2, host)
			w.line(1, "return a")
			sc = sc.with(f)
			if g.pick(2) == 0 {
				w.line(0, "log("+f+"(1, k="+g.expr(sc, 1)+"))")
			}
		}
	}
	if where != "" && where != "top" && !fnPlaced {
		// no function was generated: make one for the plant
		w.line(0, "def host(a):")
		switch where {
		case "fn", "fn-if", "fn-def":
			stmtPlant(1, sc, false)
		case "fn-for":
			w.line(1, "for z in [1]:")
			stmtPlant(2, sc, true)
		case "fn-for-def":
			w.line(1, "for z in [1]:")
			w.line(2, "def inner(y):")
			stmtPlant(3, sc, false)
			w.line(3, "return y")
		}
		w.line(1, "return a")
	}
	if p != nil && p.IsExpr && !g.placed {
		w.line(0, "log("+g.plant+")")
		g.placed = true
	}
	if p != nil && p.Kind == "use-before-def-in-function" {
		w.line(0, "later2 = 5")
	}
	src := w.b.String()
	if i := strings.Index(src, "\x01"); i >= 0 {
		line := 1 + strings.Count(src[:i], "\n")
		col := i - strings.LastIndex(src[:i], "\n")
		out.Marker = line*1000 + col
		src = strings.Replace(src, "\x01", "", 1)
	}
	out.Src = src
	return out
}

// ------------------------------------------------------------------- running
type rerr struct {
	Rule string `json:"rule"`
	Pos  int    `json:"pos"`
}

type run struct {
	Opts     int    `json:"opts"`             // bit i = option i (set, while, tlc, gr, lbg, rec)
	Legacy   int    `json:"legacy,omitempty"` // 1 + legacy flag bits (AllowSet, AllowGlobalReassign, AllowRecursion, LoadBindsGlobally): run through starlark.ExecFile
	Errs     []rerr `json:"errs"`
	Accepted bool   `json:"accepted"`
	Effects  int    `json:"effects"`
	RunErr   string `json:"runerr,omitempty"`
	Other    string `json:"other,omitempty"` // a non-resolver error or a panic
}

func optsOf(bits int) (*syntax.FileOptions, [6]bool) {
	var o [6]bool
	for i := 0; i < 6; i++ {
		o[i] = bits&(1<<i) != 0
	}
	return &syntax.FileOptions{Set: o[0], While: o[1], TopLevelControl: o[2], GlobalReassign: o[3], LoadBindsGlobally: o[4], Recursion: o[5]}, o
}

func execute(src string, bits int, legacy int) (res run) {
	res.Opts = bits
	res.Legacy = legacy
	res.Errs = []rerr{}
	opts, _ := optsOf(bits)
	effects := 0
	logFn := starlark.NewBuiltin("log", func(*starlark.Thread, *starlark.Builtin, starlark.Tuple, []starlark.Tuple) (starlark.Value, error) {
		effects++
		return starlark.None, nil
	})
	pre := starlark.StringDict{"log": logFn}
	thread := &starlark.Thread{Name: "c09", Load: func(*starlark.Thread, string) (starlark.StringDict, error) {
		effects++
		return starlark.StringDict{"la": starlark.MakeInt(1), "lc": starlark.MakeInt(2), "zz": starlark.MakeInt(3), "_zz": starlark.MakeInt(4)}, nil
	}}
	thread.SetMaxExecutionSteps(200000)
	defer func() {
		if r := recover(); r != nil {
			res.Other = fmt.Sprintf("panic: %v", r)
		}
		res.Effects = effects
	}()
	var err error
	if legacy > 0 {
		// the legacy entry point reads the resolve.Allow* package variables (set and restored around the run;
		// this harness is single-threaded)
		lb := legacy - 1
		s0, g0, r0, l0 := resolve.AllowSet, resolve.AllowGlobalReassign, resolve.AllowRecursion, resolve.LoadBindsGlobally
		resolve.AllowSet, resolve.AllowGlobalReassign, resolve.AllowRecursion, resolve.LoadBindsGlobally = lb&1 != 0, lb&2 != 0, lb&4 != 0, lb&8 != 0
		defer func() {
			resolve.AllowSet, resolve.AllowGlobalReassign, resolve.AllowRecursion, resolve.LoadBindsGlobally = s0, g0, r0, l0
		}()
		_, err = starlark.ExecFile(thread, "p.star", src, pre)
	} else {
		_, err = starlark.ExecFileOptions(opts, thread, "p.star", src, pre)
	}
	if err == nil {
		res.Accepted = true
		return
	}
	switch err := err.(type) {
	case resolve.ErrorList:
		for _, e := range err {
			res.Errs = append(res.Errs, rerr{ruleOf(e.Msg), posID(e.Pos)})
		}
	case *starlark.EvalError:
		res.Accepted = true
		res.RunErr = err.Error()
		if len(res.RunErr) > 80 {
			res.RunErr = res.RunErr[:80]
		}
	default:
		res.Other = fmt.Sprintf("%T: %v", err, err)
	}
	return
}

// executeViaLoader: the program is a module reached through load(), executed by the loader that
// repl.MakeLoadOptions(opts) returns; the process-wide legacy flags are set to the COMPLEMENT of
// opts meanwhile, so an entry point that ignores the options it was given shows.
func executeViaLoader(src string, bits int) (res run) {
	res.Opts = bits
	res.Errs = []rerr{}
	opts, o := optsOf(bits)
	if err := os.WriteFile("p.star", []byte(src), 0o644); err != nil {
		res.Other = err.Error()
		return
	}
	s0, g0, r0, l0 := resolve.AllowSet, resolve.AllowGlobalReassign, resolve.AllowRecursion, resolve.LoadBindsGlobally
	resolve.AllowSet, resolve.AllowGlobalReassign, resolve.AllowRecursion, resolve.LoadBindsGlobally = !o[oSet], !(o[oWhile] && o[oTLC] && o[oGR]), !o[oRec], !o[oLBG]
	defer func() {
		resolve.AllowSet, resolve.AllowGlobalReassign, resolve.AllowRecursion, resolve.LoadBindsGlobally = s0, g0, r0, l0
		if r := recover(); r != nil {
			res.Other = fmt.Sprintf("panic: %v", r)
		}
	}()
	loader := repl.MakeLoadOptions(opts)
	thread := &starlark.Thread{Name: "c09-loader", Load: loader}
	thread.SetMaxExecutionSteps(200000)
	_, err := loader(thread, "p.star")
	if err == nil {
		res.Accepted = true
		return
	}
	var el resolve.ErrorList
	var ee *starlark.EvalError
	switch {
	case errors.As(err, &el):
		for _, e := range el {
			res.Errs = append(res.Errs, rerr{ruleOf(e.Msg), posID(e.Pos)})
		}
	case errors.As(err, &ee):
		res.Accepted = true
	default:
		res.Other = fmt.Sprintf("%T: %v", err, err)
	}
	return
}

// the resolver's binding decision for every identifier that has one (syntax.Ident.Binding), under the two
// options that influence it; scope codes: 0 undefined, 1 local or cell, 2 free, 3 global, 4 predeclared, 5 universal
type bindset struct {
	GR    bool     `json:"gr"`
	LBG   bool     `json:"lbg"`
	Binds [][2]int `json:"binds"`
}

func dumpBindings(src string) []bindset {
	var out []bindset
	for _, gr := range []bool{false, true} {
		for _, lbg := range []bool{false, true} {
			opts := &syntax.FileOptions{Set: true, While: true, TopLevelControl: true, GlobalReassign: gr, LoadBindsGlobally: lbg}
			f, err := opts.Parse("p.star", src, 0)
			if err != nil {
				continue
			}
			func() {
				defer func() { recover() }()
				resolve.File(f, func(name string) bool { return name == "log" }, starlark.Universe.Has)
			}()
			bs := bindset{GR: gr, LBG: lbg, Binds: [][2]int{}}
			syntax.Walk(f, func(n syntax.Node) bool {
				if id, ok := n.(*syntax.Ident); ok && id != nil && id.Binding != nil {
					if b, ok := id.Binding.(*resolve.Binding); ok && b != nil {
						code := map[resolve.Scope]int{resolve.Undefined: 0, resolve.Local: 1, resolve.Cell: 1, resolve.Free: 2, resolve.Global: 3, resolve.Predeclared: 4, resolve.Universal: 5}[b.Scope]
						bs.Binds = append(bs.Binds, [2]int{posID(id.NamePos), code})
					}
				}
				return true
			})
			out = append(out, bs)
		}
	}
	return out
}

type progOut struct {
	Bindsets []bindset `json:"bindsets,omitempty"`
	Kind     string    `json:"kind"` // "prog"
	Plant    string    `json:"plant"`
	Where    string    `json:"where"`
	Marker   int       `json:"marker"`
	Src      string    `json:"src"`
	Tree     any       `json:"tree"`
	Runs     []run     `json:"runs"`
	Problems []string  `json:"problems"` // disagreements with the expectation from the language rules
	Coq      bool      `json:"coq"`
}

func resolveMain(argv []string) {
	fs := flag.NewFlagSet("resolve", flag.ExitOnError)
	seed := fs.Uint64("seed", 1, "seed")
	nprog := fs.Int("n", 400, "programs")
	nvec := fs.Int("vectors", 8, "option vectors per program (64 = all)")
	ncoq := fs.Int("coq", 100, "programs printed with their tree for Coq")
	fs.Parse(argv)
	r := hx.NewRand(*seed)
	// modules reached through repl.MakeLoadOptions are read from the file system
	if dir, err := os.MkdirTemp("", "c09-loader"); err == nil {
		defer os.RemoveAll(dir)
		os.Chdir(dir)
		os.WriteFile("m.star", []byte("la = 1\nlc = 2\nzz = 3\n_zz = 4\n"), 0o644)
	}
	pl := plants()
	cps, css := ctxPlants(), ctxSites()
	type plantSite struct {
		p    *plant
		site int
	}
	var pairs []plantSite
	for _, p := range pl {
		n := len(p.Where)
		if p.IsExpr {
			n = 2
		}
		for j := 0; j < n; j++ {
			pairs = append(pairs, plantSite{p, j})
		}
	}
	dist := map[string]int{}
	total, problems := 0, 0
	universe := []string{}
	for k := range starlark.Universe {
		universe = append(universe, k)
	}
	sort.Strings(universe)
	hx.Emit(map[string]any{"kind": "world", "predeclared": []string{"log"}, "universal": universe})
	for i := 0; i < *nprog; i++ {
		g := &gen{r: r.Split()}
		var p *plant
		round := 0
		var pr *program
		var ctxExpect func(o [6]bool) []rerr
		if i%8 != 0 { // one in eight programs is left valid
			// index among the planted programs: every (plant, site) pair is visited in turn (an expression-level
			// plant in two random expression contexts), then every (context-sensitive construct, branch position) pair
			k := (i - i/8 - 1) % (len(pairs) + len(cps)*len(css))
			if k < len(pairs) {
				p = pairs[k].p
				round = pairs[k].site
			} else {
				k -= len(pairs)
				pr, ctxExpect = g.ctxProgram(cps[k%len(cps)], css[k/len(cps)])
			}
		}
		if pr == nil {
			pr = g.program(p, round)
		}
		f, perr := (&syntax.FileOptions{}).Parse("p.star", pr.Src, 0)
		out := &progOut{Kind: "prog", Plant: pr.Kind, Where: pr.Where, Marker: pr.Marker, Src: pr.Src, Problems: []string{}}
		if perr != nil {
			out.Problems = append(out.Problems, "generator: program does not parse: "+perr.Error())
			hx.Emit(out)
			problems++
			continue
		}
		out.Tree = jStmts(f.Stmts)
		// option vectors: all 64, or all-off, all-on and seeded others
		var vecs []int
		if *nvec >= 64 {
			for b := 0; b < 64; b++ {
				vecs = append(vecs, b)
			}
		} else {
			vecs = []int{0, 63}
			for len(vecs) < *nvec {
				vecs = append(vecs, r.Intn(64))
			}
		}
		// the legacy entry point under every combination of the four legacy flags; the documented
		// mapping: Set = AllowSet; While = TopLevelControl = GlobalReassign = AllowGlobalReassign;
		// Recursion = AllowRecursion; LoadBindsGlobally = LoadBindsGlobally
		for lb := 0; lb < 16; lb++ {
			vecs = append(vecs, 1000+lb)
		}
		for _, b := range vecs {
			legacy := 0
			label := fmt.Sprintf("opts=%06b", b)
			if b >= 1000 {
				lb := b - 1000
				legacy = lb + 1
				b = 0
				if lb&1 != 0 {
					b |= 1 << oSet
				}
				if lb&2 != 0 {
					b |= 1<<oWhile | 1<<oTLC | 1<<oGR
				}
				if lb&4 != 0 {
					b |= 1 << oRec
				}
				if lb&8 != 0 {
					b |= 1 << oLBG
				}
				label = fmt.Sprintf("legacy ExecFile with AllowSet=%v AllowGlobalReassign=%v AllowRecursion=%v LoadBindsGlobally=%v (documented as opts=%06b)", lb&1 != 0, lb&2 != 0, lb&4 != 0, lb&8 != 0, b)
			}
			res := execute(pr.Src, b, legacy)
			total++
			_, o := optsOf(b)
			// expectation from the language rules
			var want []string
			if p != nil {
				want = p.Expect(o, pr.Where)
			}
			key := pr.Kind
			if pr.Where != "" {
				key += "@" + pr.Where
			}
			if len(res.Errs) > 0 {
				key += ":rejected"
			} else {
				key += ":accepted"
			}
			dist[key]++
			if ctxExpect != nil {
				wantL := ctxExpect(o)
				same := len(wantL) == len(res.Errs)
				for j := 0; same && j < len(wantL); j++ {
					same = wantL[j] == res.Errs[j]
				}
				switch {
				case res.Other != "":
					out.Problems = append(out.Problems, fmt.Sprintf("%s: %s", label, res.Other))
				case len(wantL) > 0 && res.Accepted:
					out.Problems = append(out.Problems, fmt.Sprintf("%s: accepted, but %v applies (effects: %d)", label, wantL, res.Effects))
				case len(wantL) == 0 && !res.Accepted:
					out.Problems = append(out.Problems, fmt.Sprintf("%s: breaks no rule but was rejected: %v", label, res.Errs))
				case !same:
					out.Problems = append(out.Problems, fmt.Sprintf("%s: errors %v, expected exactly %v", label, res.Errs, wantL))
				case len(wantL) > 0 && res.Effects != 0:
					out.Problems = append(out.Problems, fmt.Sprintf("%s: rejected program had %d host-visible effects", label, res.Effects))
				}
				out.Runs = append(out.Runs, res)
				continue
			}
			switch {
			case res.Other != "":
				out.Problems = append(out.Problems, fmt.Sprintf("%s: %s", label, res.Other))
			case len(want) == 0 && !res.Accepted:
				out.Problems = append(out.Problems, fmt.Sprintf("%s: breaks no rule but was rejected: %v", label, res.Errs))
			case len(want) > 0 && res.Accepted:
				out.Problems = append(out.Problems, fmt.Sprintf("%s: accepted, but %v applies at %d (effects: %d)", label, want, pr.Marker, res.Effects))
			case len(want) > 0:
				posOf := func(w string) (string, int) {
					if strings.HasPrefix(w, "@enclosing:") {
						return strings.TrimPrefix(w, "@enclosing:"), pr.Marker - 1000 - 2
					}
					if strings.HasPrefix(w, "@") { // "@dl,dc:Rule": dl lines above, dc columns to the left of the marker
						var dl, dc int
						var rule string
						fmt.Sscanf(strings.Replace(w, ":", " ", 1), "@%d,%d %s", &dl, &dc, &rule)
						return rule, pr.Marker - 1000*dl - dc
					}
					return w, pr.Marker
				}
				w0, p0 := posOf(want[0])
				if res.Errs[0].Rule != w0 || res.Errs[0].Pos != p0 {
					out.Problems = append(out.Problems, fmt.Sprintf("%s: first error %v, expected %s at %d", label, res.Errs[0], w0, p0))
				}
				got := map[string]bool{}
				for _, e := range res.Errs {
					got[fmt.Sprintf("%s@%d", e.Rule, e.Pos)] = true
				}
				for _, wr := range want {
					wn, wp := posOf(wr)
					if !got[fmt.Sprintf("%s@%d", wn, wp)] {
						out.Problems = append(out.Problems, fmt.Sprintf("%s: %s not reported at %d: %v", label, wn, wp, res.Errs))
					}
				}
				if len(res.Errs) != len(want) {
					out.Problems = append(out.Problems, fmt.Sprintf("%s: errors %v, expected exactly %v at %d", label, res.Errs, want, pr.Marker))
				}
				if res.Effects != 0 {
					out.Problems = append(out.Problems, fmt.Sprintf("%s: rejected program had %d host-visible effects", label, res.Effects))
				}
			}
			out.Runs = append(out.Runs, res)
		}
		// the same program as a loaded module, through the loader of repl.MakeLoadOptions(opts): every entry point
		// that takes FileOptions must honour them (compared with ExecFileOptions on the same text)
		src2 := "def log(*a, **k): return None\n" + pr.Src
		loaderVecs := []int{0, 63}
		if *nvec >= 64 {
			loaderVecs = []int{0, 63, 21, 42}
		} else if i%4 != 1 {
			loaderVecs = nil // the sampled tier: one program in four
		}
		for _, b := range loaderVecs {
			direct := execute(src2, b, 0)
			viaLoad := executeViaLoader(src2, b)
			total++
			same := direct.Accepted == viaLoad.Accepted && len(direct.Errs) == len(viaLoad.Errs) && direct.Other == "" && viaLoad.Other == ""
			for j := 0; same && j < len(direct.Errs); j++ {
				same = direct.Errs[j] == viaLoad.Errs[j]
			}
			if !same {
				what := "accepted"
				if !viaLoad.Accepted {
					what = fmt.Sprintf("rejected with %v %s", viaLoad.Errs, viaLoad.Other)
				}
				exp := "accepted"
				if !direct.Accepted {
					exp = fmt.Sprintf("rejected with %v %s", direct.Errs, direct.Other)
				}
				out.Problems = append(out.Problems, fmt.Sprintf("loader entry point repl.MakeLoadOptions with opts=%06b (legacy flags set to the complement): module %s; under these options it must be %s (positions are one line down: a def of log is prepended)", b, what, exp))
			}
		}
		if len(out.Problems) > 0 {
			problems++
		}
		if *ncoq > 0 && i%((*nprog+*ncoq-1) / *ncoq) == 1 && i/((*nprog+*ncoq-1) / *ncoq) < *ncoq {
			out.Bindsets = dumpBindings(pr.Src)
		}
		out.Coq = *ncoq > 0 && i%((*nprog+*ncoq-1) / *ncoq) == 1 && i/((*nprog+*ncoq-1) / *ncoq) < *ncoq
		if out.Coq || len(out.Problems) > 0 {
			hx.Emit(out)
		}
	}
	sr, sp := runShadow(*nvec, func(o *progOut) { hx.Emit(o) })
	total += sr
	problems += sp
	hx.Emit(map[string]any{"kind": "rsummary", "programs": *nprog, "runs": total, "problem_programs": problems, "dist": dist, "vectors": *nvec, "plants": len(pl), "plant_site_pairs": len(pairs), "context_pairs": len(cps) * len(css)})
	hx.Flush()
}
