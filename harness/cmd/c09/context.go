package main

// Context-sensitive rules at every branch position of compound statements:
// a construct whose legality depends on where it stands (load, break, continue,
// return, if/for/while) is planted in the true branch, an elif branch, the
// final else, a for body, a while body and nestings of these, at top level and
// inside a function.  The expected error list (enclosing statements first, in
// source order, then the planted construct) is computed from the language rules
// and compared with the resolver's list exactly.

import (
	"fmt"
	"strings"
)

type ctxSite struct {
	Name   string
	InFn   bool
	Pre    []string // lines before the plant; leading "  " per indent level relative to the site's base
	Indent int      // indent of the plant relative to the base
	Encl   []ctxEncl
	InLoop bool
	InIf   bool
}

type ctxEncl struct {
	Line int    // index into Pre
	Kind string // "if" "for" "while"
}

type ctxPlant struct {
	Name string
	Text []string
	// rules reported at the planted construct, in order
	Own func(inFn, inLoop, inIf bool, o [6]bool) []string
}

func ctxSites() []*ctxSite {
	var out []*ctxSite
	add := func(name string, pre []string, indent int, encl []ctxEncl, inLoop, inIf bool) {
		for _, fn := range []bool{false, true} {
			n := "top-" + name
			if fn {
				n = "fn-" + name
			}
			out = append(out, &ctxSite{Name: n, InFn: fn, Pre: pre, Indent: indent, Encl: encl, InLoop: inLoop, InIf: inIf})
		}
	}
	add("if-true", []string{"if 1:"}, 1, []ctxEncl{{0, "if"}}, false, true)
	add("else", []string{"if 0:", "  pass", "else:"}, 1, []ctxEncl{{0, "if"}}, false, true)
	add("else-after-stmts", []string{"if 0:", "  log(1)", "  log(2)", "else:", "  log(3)"}, 1, []ctxEncl{{0, "if"}}, false, true)
	add("elif", []string{"if 0:", "  pass", "elif 1:"}, 1, []ctxEncl{{0, "if"}, {2, "if"}}, false, true)
	add("elif-else", []string{"if 0:", "  pass", "elif 0:", "  pass", "else:"}, 1, []ctxEncl{{0, "if"}, {2, "if"}}, false, true)
	add("elif2-else", []string{"if 0:", "  pass", "elif 0:", "  pass", "elif 0:", "  pass", "else:"}, 1, []ctxEncl{{0, "if"}, {2, "if"}, {4, "if"}}, false, true)
	add("for", []string{"for tq in [1]:"}, 1, []ctxEncl{{0, "for"}}, true, false)
	add("while", []string{"while 0:"}, 1, []ctxEncl{{0, "while"}}, true, false)
	add("if-for", []string{"if 1:", "  for tq in [1]:"}, 2, []ctxEncl{{0, "if"}, {1, "for"}}, true, true)
	add("else-for", []string{"if 0:", "  pass", "else:", "  for tq in [1]:"}, 2, []ctxEncl{{0, "if"}, {3, "for"}}, true, true)
	add("for-if", []string{"for tq in [1]:", "  if 1:"}, 2, []ctxEncl{{0, "for"}, {1, "if"}}, true, true)
	add("for-else", []string{"for tq in [1]:", "  if 0:", "    pass", "  else:"}, 2, []ctxEncl{{0, "for"}, {1, "if"}}, true, true)
	add("while-else", []string{"while 0:", "  if 0:", "    pass", "  else:"}, 2, []ctxEncl{{0, "while"}, {1, "if"}}, true, true)
	add("after-if-else", []string{"if 0:", "  pass", "else:", "  pass"}, 0, []ctxEncl{{0, "if"}}, false, false)
	add("after-for", []string{"for tq in [1]:", "  pass"}, 0, []ctxEncl{{0, "for"}}, false, false)
	return out
}

func ctxPlants() []*ctxPlant {
	loadOwn := func(inFn, inLoop, inIf bool, o [6]bool) []string {
		switch {
		case inFn:
			return []string{"RLoadInFunction"}
		case inLoop:
			return []string{"RLoadInLoop"}
		case inIf:
			return []string{"RLoadInConditional"}
		}
		return nil
	}
	branch := func(inFn, inLoop, inIf bool, o [6]bool) []string {
		if !inLoop {
			return []string{"RBranchNotInLoop"}
		}
		return nil
	}
	gate := func(rule string) func(inFn, inLoop, inIf bool, o [6]bool) []string {
		return func(inFn, inLoop, inIf bool, o [6]bool) []string {
			var r []string
			if rule == "RWhileToplevel" && !o[oWhile] {
				r = append(r, "RWhileUnsupported")
			}
			if !inFn && !o[oTLC] {
				r = append(r, rule)
			}
			return r
		}
	}
	return []*ctxPlant{
		{"load", []string{"load(\"m.star\", \"zz\")"}, loadOwn},
		{"break", []string{"break"}, branch},
		{"continue", []string{"continue"}, branch},
		{"return", []string{"return 1"}, func(inFn, inLoop, inIf bool, o [6]bool) []string {
			if !inFn {
				return []string{"RReturnToplevel"}
			}
			return nil
		}},
		{"if", []string{"if 1:", "  pass"}, gate("RIfToplevel")},
		{"for", []string{"for tz in []:", "  pass"}, gate("RForToplevel")},
		{"while", []string{"while 0:", "  pass"}, gate("RWhileToplevel")},
	}
}

// ctxProgram renders the program and returns the expectation as a function of the option vector.
func (g *gen) ctxProgram(cp *ctxPlant, cs *ctxSite) (*program, func(o [6]bool) []rerr) {
	w := &writer{}
	sc := &scope{}
	w.line(0, "load(\"m.star\", \"la\", lb=\"lc\")")
	sc = sc.with("la", "lb")
	for i := 0; i < 1+g.pick(2); i++ {
		g.nglob++
		v := fmt.Sprintf("g%d", g.nglob)
		w.line(0, v+" = "+g.expr(sc, 2))
		sc = sc.with(v)
	}
	base := 0
	if cs.InFn {
		w.line(0, "def host(a):")
		base = 1
	}
	curLine := func() int { return 1 + strings.Count(w.b.String(), "\n") }
	type enclPos struct {
		kind string
		pos  int
	}
	var encl []enclPos
	for li, l := range cs.Pre {
		trimmed := strings.TrimLeft(l, " ")
		extra := (len(l) - len(trimmed)) / 2
		for _, e := range cs.Encl {
			if e.Line == li {
				encl = append(encl, enclPos{e.Kind, curLine()*1000 + 2*(base+extra) + 1})
			}
		}
		w.line(base+extra, trimmed)
	}
	marker := curLine()*1000 + 2*(base+cs.Indent) + 1
	for _, l := range cp.Text {
		trimmed := strings.TrimLeft(l, " ")
		extra := (len(l) - len(trimmed)) / 2
		w.line(base+cs.Indent+extra, trimmed)
	}
	if cs.InFn {
		w.line(1, "return a")
	}
	w.line(0, "log("+g.expr(sc, 1)+")")
	out := &program{Src: w.b.String(), Kind: "ctx:" + cp.Name, Where: cs.Name, Marker: marker}
	expect := func(o [6]bool) []rerr {
		var r []rerr
		for _, e := range encl {
			switch e.kind {
			case "if":
				if !cs.InFn && !o[oTLC] {
					r = append(r, rerr{"RIfToplevel", e.pos})
				}
			case "for":
				if !cs.InFn && !o[oTLC] {
					r = append(r, rerr{"RForToplevel", e.pos})
				}
			case "while":
				if !o[oWhile] {
					r = append(r, rerr{"RWhileUnsupported", e.pos})
				}
				if !cs.InFn && !o[oTLC] {
					r = append(r, rerr{"RWhileToplevel", e.pos})
				}
			}
		}
		for _, rule := range cp.Own(cs.InFn, cs.InLoop, cs.InIf, o) {
			r = append(r, rerr{rule, marker})
		}
		return r
	}
	return out, expect
}
