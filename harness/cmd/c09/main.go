// c09: correspondence harness for property C09 (static rules, dialect options, recursion check).
//
//	c09 resolve ...   planted static-rule violations x option vectors (resolve.go)
//	c09 rec     ...   call graphs reaching an active function (recursion.go)
package main

import (
	"fmt"
	"os"
)

func main() {
	if len(os.Args) < 2 {
		fmt.Fprintln(os.Stderr, "usage: c09 resolve|rec [flags]")
		os.Exit(2)
	}
	switch os.Args[1] {
	case "resolve":
		resolveMain(os.Args[2:])
	case "rec":
		recMain(os.Args[2:])
	default:
		fmt.Fprintln(os.Stderr, "unknown sub-command", os.Args[1])
		os.Exit(2)
	}
}
