package main

func recMain(args []string) {}
