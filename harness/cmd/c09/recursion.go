package main

// c09 rec: call graphs of up to 4 callables (plain functions, two closures of one
// definition) whose nested call chain may reach a function that is already
// active, through plain calls, lambdas and callbacks from sorted/min/max.
// Every chain is run with Recursion off (a re-entry must fail with "called
// recursively", naming the re-entered function) and on (must succeed).  The
// frames pushed by the chain are printed as events for the Coq model of the
// stack scan.

import (
	"flag"
	"fmt"
	"strings"

	"go.starlark.net/resolve"
	"go.starlark.net/starlark"
	"go.starlark.net/syntax"

	"verifharness/internal/hx"
)

type callable struct {
	Name string
	FV   int
	Code int
}

type recCase struct {
	Kind     string         `json:"kind"` // "rec"
	Src      string         `json:"src"`
	Rec      bool           `json:"rec"`
	NoLocals bool           `json:"nolocals"`
	Entry    string         `json:"entry"` // "file": from the module top level; "go": starlark.Call from the host on an idle thread
	Chain    []string       `json:"chain"`
	Events   [][]int        `json:"events"` // [0,fv,code] call fn; [1,b] call builtin; [2] return
	Codes    map[string]int `json:"codes"`
	Obs      string         `json:"obs"`    // "ok:<n>" | "recursion:<fn>" | "other:..."
	Expect   string         `json:"expect"` // from the rule: "ok:<n>" | "recursion:<fn>"
	Problem  string         `json:"problem,omitempty"`
}

var edgeKinds = []string{"direct", "lambda", "sorted", "min", "max"}

func edgeExpr(kind string, zl bool) (pre string, call string) {
	if zl {
		// functions without parameters and without local variables: the rest of the chain is in the host list CH
		switch kind {
		case "direct":
			return "", "CH.pop(0)()"
		case "lambda":
			return "", "(lambda: CH.pop(0)())()"
		}
		return kind + "([1], key=lambda x: ACC.append(CH.pop(0)()))\n    ", "ACC.pop()"
	}
	switch kind {
	case "direct":
		return "", "chain[0](chain[1:])"
	case "lambda":
		return "", "(lambda: chain[0](chain[1:]))()"
	}
	// callbacks from a built-in: the key function runs while the built-in's frame is active
	return "acc = []\n    " + kind + "([1], key=lambda x: acc.append(chain[0](chain[1:])))\n    ", "acc[0]"
}

func recMain(argv []string) {
	fs := flag.NewFlagSet("rec", flag.ExitOnError)
	seed := fs.Uint64("seed", 1, "seed")
	n := fs.Int("n", 300, "call graphs")
	fs.Parse(argv)
	r := hx.NewRand(*seed)
	problems := 0
	dist := map[string]int{}
	for i := 0; i < *n; i++ {
		// the callables: p0..p3 plain, k0a/k0b two closures of one def
		pool := []callable{{"p0", 0, 0}, {"p1", 1, 1}, {"p2", 2, 2}, {"p3", 3, 3}, {"k0a", 20, 10}, {"k0b", 21, 10}}
		edge := map[int]string{}
		for _, c := range []int{0, 1, 2, 3, 10} {
			edge[c] = edgeKinds[r.Intn(len(edgeKinds))]
		}
		// every other block of five graphs uses functions with NO parameters and NO locals (their frames have an
		// empty locals array, like a built-in's): the chain is kept in a host-provided list
		zl := (i/5)%2 == 1
		param, test := "chain", "chain"
		if zl {
			param, test = "", "CH"
		}
		var b strings.Builder
		for _, c := range []int{0, 1, 2, 3} {
			pre, call := edgeExpr(edge[c], zl)
			fmt.Fprintf(&b, "def p%d(%s):\n    if not %s:\n        return 0\n    %sreturn 1 + %s\n", c, param, test, pre, call)
		}
		pre, call := edgeExpr(edge[10], zl)
		fmt.Fprintf(&b, "def mk0():\n    def inner(%s):\n        if not %s:\n            return 0\n        %sreturn 1 + %s\n    return inner\n",
			param, test, strings.ReplaceAll(pre, "\n    ", "\n        "), call)
		b.WriteString("k0a = mk0()\nk0b = mk0()\n")
		// the chain: up to 4 distinct callables, length up to 6
		m := 1 + r.Intn(4)
		var chosen []callable
		for len(chosen) < m {
			c := pool[r.Intn(len(pool))]
			dup := false
			for _, x := range chosen {
				if x.Name == c.Name {
					dup = true
				}
			}
			if !dup {
				chosen = append(chosen, c)
			}
		}
		L := 1 + r.Intn(6)
		var chain []callable
		for j := 0; j < L; j++ {
			chain = append(chain, chosen[r.Intn(len(chosen))])
		}
		if i%5 == 1 {
			// two closures of one definition: the second is entered while the first is active,
			// possibly with another function (and its built-in callback frames) in between
			chain = nil
			if r.Intn(2) == 0 {
				chain = append(chain, pool[r.Intn(4)])
			}
			first, second := pool[4], pool[5]
			if r.Intn(2) == 0 {
				first, second = second, first
			}
			chain = append(chain, first)
			if r.Intn(2) == 0 {
				mid := pool[r.Intn(4)]
				if len(chain) < 2 || chain[0].Name != mid.Name {
					chain = append(chain, mid)
				}
			}
			chain = append(chain, second)
			if r.Intn(2) == 0 {
				chain = append(chain, pool[r.Intn(4)])
			}
		} else if r.Intn(3) == 0 { // an acyclic chain: each callable code once
			seen := map[int]bool{}
			var ac []callable
			for _, c := range chain {
				if !seen[c.Code] {
					seen[c.Code] = true
					ac = append(ac, c)
				}
			}
			chain = ac
		}
		var names []string
		for _, c := range chain {
			names = append(names, c.Name)
		}
		// two runs in sequence: frames of the first run must be gone when the second starts
		defs := b.String()
		if zl {
			fmt.Fprintf(&b, "CH.extend([%s])\nr1 = %s()\nCH.extend([%s])\nr2 = %s()\n", strings.Join(names[1:], ", "), chain[0].Name, strings.Join(names[1:], ", "), chain[0].Name)
		} else {
			fmt.Fprintf(&b, "r1 = %s([%s])\nr2 = %s([%s])\n", chain[0].Name, strings.Join(names[1:], ", "), chain[0].Name, strings.Join(names[1:], ", "))
		}
		src := b.String()
		// expectation from the rule: the first callable whose code is already active fails
		firstBad := -1
		for j := range chain {
			for k := 0; k < j; k++ {
				if chain[k].Code == chain[j].Code {
					firstBad = j
				}
			}
			if firstBad >= 0 {
				break
			}
		}
		// events of one run (assuming every call enters): toplevel, then the nested chain
		events := [][]int{{0, 500, 500}}
		depthFrames := []int{}
		for j, c := range chain {
			if j == 0 {
				events = append(events, []int{0, c.FV, c.Code})
				depthFrames = append(depthFrames, 1)
				continue
			}
			caller := chain[j-1]
			pushed := 1
			switch edge[caller.Code] {
			case "lambda":
				events = append(events, []int{0, 900, 100 + caller.Code})
				pushed = 2
			case "sorted", "min", "max":
				events = append(events, []int{1, 1}, []int{0, 900, 100 + caller.Code})
				pushed = 3
			}
			events = append(events, []int{0, c.FV, c.Code})
			depthFrames = append(depthFrames, pushed)
		}
		for j := len(depthFrames) - 1; j >= 0; j-- {
			for k := 0; k < depthFrames[j]; k++ {
				events = append(events, []int{2})
			}
		}
		events = append(events, []int{2}) // the toplevel returns
		codes := map[string]int{"<toplevel>": 500, "lambda": -1}
		for _, c := range pool {
			codes[c.Name] = c.Code
		}
		codes["inner"] = 10
		classify := func(err error) string {
			if i := strings.Index(err.Error(), "function "); i >= 0 && strings.Contains(err.Error(), "called recursively") {
				rest := err.Error()[i+len("function "):]
				return "recursion:" + rest[:strings.Index(rest, " ")]
			}
			return "other:" + err.Error()
		}
		// the same chain entered by the host: starlark.Call on an idle thread, no <toplevel> frame below
		goEvents := events[1 : len(events)-1]
		for _, rec := range []bool{false, true} {
			for _, entry := range []string{"file", "go", "legacy"} {
				thread := &starlark.Thread{Name: "c09rec"}
				thread.SetMaxExecutionSteps(1000000)
				obs := ""
				chList, accList := starlark.NewList(nil), starlark.NewList(nil)
				var pre starlark.StringDict
				if zl {
					pre = starlark.StringDict{"CH": chList, "ACC": accList}
				}
				func() {
					defer func() {
						if r := recover(); r != nil {
							obs = fmt.Sprintf("other:panic: %v", r)
						}
					}()
					if entry == "legacy" {
						// the legacy entry point: Recursion comes from resolve.AllowRecursion (and from nothing else)
						r0, g0 := resolve.AllowRecursion, resolve.AllowGlobalReassign
						resolve.AllowRecursion, resolve.AllowGlobalReassign = rec, !rec
						defer func() { resolve.AllowRecursion, resolve.AllowGlobalReassign = r0, g0 }()
						g, err := starlark.ExecFile(thread, "g.star", src, pre)
						if err == nil {
							obs = "ok:" + g["r1"].String() + "," + g["r2"].String()
						} else {
							obs = classify(err)
						}
						return
					}
					if entry == "file" {
						g, err := starlark.ExecFileOptions(&syntax.FileOptions{Recursion: rec}, thread, "g.star", src, pre)
						if err == nil {
							obs = "ok:" + g["r1"].String() + "," + g["r2"].String()
						} else {
							obs = classify(err)
						}
						return
					}
					g, err := starlark.ExecFileOptions(&syntax.FileOptions{Recursion: rec}, thread, "g.star", defs, pre)
					if err != nil {
						obs = "other:definitions do not execute: " + err.Error()
						return
					}
					rest := make([]starlark.Value, 0, len(chain))
					for _, c := range chain[1:] {
						rest = append(rest, g[c.Name])
					}
					idle := &starlark.Thread{Name: "c09rec-go"} // a thread that is running nothing
					idle.SetMaxExecutionSteps(1000000)
					var rs []string
					for k := 0; k < 2; k++ { // twice in sequence
						var callArgs starlark.Tuple
						if zl {
							chList.Clear()
							for _, x := range rest {
								chList.Append(x)
							}
						} else {
							callArgs = starlark.Tuple{starlark.NewList(rest)}
						}
						v, err := starlark.Call(idle, g[chain[0].Name], callArgs, nil)
						if err != nil {
							obs = classify(err)
							return
						}
						rs = append(rs, v.String())
					}
					obs = "ok:" + strings.Join(rs, ",")
				}()
				expect := fmt.Sprintf("ok:%d,%d", len(chain)-1, len(chain)-1)
				if !rec && firstBad >= 0 {
					nm := chain[firstBad].Name
					if chain[firstBad].Code == 10 {
						nm = "inner"
					}
					expect = "recursion:" + nm
				}
				ev := events
				if entry == "go" {
					ev = goEvents
				}
				c := &recCase{Kind: "rec", Src: src, Rec: rec, NoLocals: zl, Entry: entry, Chain: names, Events: ev, Codes: codes, Obs: obs, Expect: expect}
				if entry == "go" {
					c.Src = defs + "# entered by the host: starlark.Call(idle thread, " + chain[0].Name + ", ([" + strings.Join(names[1:], ", ") + "],)), twice\n"
				}
				if obs != expect {
					c.Problem = fmt.Sprintf("recursion=%v, entry=%s: observed %s, the rule gives %s", rec, entry, obs, expect)
					problems++
				}
				key := "on"
				if !rec {
					key = "off"
				}
				if zl {
					key += ":nolocals"
				}
				dist[key+":"+entry+":"+strings.SplitN(obs, ":", 2)[0]]++
				hx.Emit(c)
			}
		}
	}
	hx.Emit(map[string]any{"kind": "recsummary", "graphs": *n, "runs": 6 * *n, "problems": problems, "dist": dist})
	hx.Flush()
}
