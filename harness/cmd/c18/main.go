// c18: differential harness for go.starlark.net/lib/json.
//
// It runs the REAL json.encode / json.decode on generated values and
// documents and prints what it observed (one JSON object per line), together
// with the verdict of an independent reference decoder written here from
// RFC 8259 (specDecode; shares no code with lib/json or encoding/json's
// decoder) and with encoding/json.Valid's opinion on validity.
//
//	c18 -seed S -nvals N -ndocs M [-deep]
//	c18 child <what> <n>          (one dangerous case, run in a child process)
//
// Every random choice derives from hx.NewRand(seed).
package main

import (
	"bytes"
	"context"
	"encoding/hex"
	stdjson "encoding/json"
	"flag"
	"fmt"
	"math"
	"math/big"
	"os"
	"os/exec"
	"sort"
	"strconv"
	"strings"
	"sync"
	"time"
	"unicode/utf8"

	sjson "go.starlark.net/lib/json"
	"go.starlark.net/starlark"
	"go.starlark.net/starlarkstruct"

	"verifharness/internal/hx"
)

// ---------------------------------------------------------------- descriptions

// D is the canonical description of a Starlark value.
type D struct {
	T    string  `json:"t"`
	B    bool    `json:"b,omitempty"`
	Z    string  `json:"z,omitempty"`
	Bits string  `json:"bits,omitempty"`
	H    *string `json:"h,omitempty"`
	L    []D     `json:"l,omitempty"`
	KV   [][2]D  `json:"kv,omitempty"`
}

func hexs(s string) *string { h := hex.EncodeToString([]byte(s)); return &h }

func dstr(s string) D { return D{T: "str", H: hexs(s)} }

func describe(v starlark.Value) D {
	switch v := v.(type) {
	case starlark.NoneType:
		return D{T: "none"}
	case starlark.Bool:
		return D{T: "bool", B: bool(v)}
	case starlark.Int:
		return D{T: "int", Z: v.String()}
	case starlark.Float:
		return D{T: "float", Bits: strconv.FormatUint(math.Float64bits(float64(v)), 10)}
	case starlark.String:
		return dstr(string(v))
	case *starlark.List:
		d := D{T: "list", L: []D{}}
		for i := 0; i < v.Len(); i++ {
			d.L = append(d.L, describe(v.Index(i)))
		}
		return d
	case starlark.Tuple:
		d := D{T: "tuple", L: []D{}}
		for _, e := range v {
			d.L = append(d.L, describe(e))
		}
		return d
	case *starlark.Dict:
		d := D{T: "dict", KV: [][2]D{}}
		for _, it := range v.Items() {
			d.KV = append(d.KV, [2]D{describe(it[0]), describe(it[1])})
		}
		return d
	case *starlarkstruct.Struct:
		d := D{T: "struct", KV: [][2]D{}}
		for _, n := range v.AttrNames() {
			a, _ := v.Attr(n)
			d.KV = append(d.KV, [2]D{dstr(n), describe(a)})
		}
		return d
	case *rec:
		d := D{T: "struct", KV: [][2]D{}}
		for i, n := range v.names {
			d.KV = append(d.KV, [2]D{dstr(n), describe(v.vals[i])})
		}
		return d
	}
	return D{T: "other"}
}

// MarshalJSON keeps "l"/"kv" present (possibly empty) for container kinds.
func (d D) MarshalJSON() ([]byte, error) {
	var b bytes.Buffer
	b.WriteString(`{"t":"` + d.T + `"`)
	switch d.T {
	case "bool":
		fmt.Fprintf(&b, `,"b":%v`, d.B)
	case "int":
		fmt.Fprintf(&b, `,"z":"%s"`, d.Z)
	case "float":
		fmt.Fprintf(&b, `,"bits":"%s"`, d.Bits)
	case "str":
		fmt.Fprintf(&b, `,"h":"%s"`, *d.H)
	case "list", "tuple":
		b.WriteString(`,"l":[`)
		for i, e := range d.L {
			if i > 0 {
				b.WriteByte(',')
			}
			x, _ := e.MarshalJSON()
			b.Write(x)
		}
		b.WriteByte(']')
	case "dict", "struct":
		b.WriteString(`,"kv":[`)
		for i, e := range d.KV {
			if i > 0 {
				b.WriteByte(',')
			}
			k, _ := e[0].MarshalJSON()
			v, _ := e[1].MarshalJSON()
			b.WriteByte('[')
			b.Write(k)
			b.WriteByte(',')
			b.Write(v)
			b.WriteByte(']')
		}
		b.WriteByte(']')
	}
	b.WriteByte('}')
	return b.Bytes(), nil
}

func sameD(a, b D) bool {
	x, _ := a.MarshalJSON()
	y, _ := b.MarshalJSON()
	return bytes.Equal(x, y)
}

// ------------------------------------------------- reference decoder (RFC 8259)

type specFail struct{ outcome, why string }

type specParser struct {
	d []byte
	i int
}

func (p *specParser) fail(why string) { panic(specFail{"invalid", why}) }

func (p *specParser) ws() {
	for p.i < len(p.d) {
		switch p.d[p.i] {
		case 0x20, 0x09, 0x0a, 0x0d:
			p.i++
		default:
			return
		}
	}
}

func isDig(b byte) bool { return '0' <= b && b <= '9' }

func (p *specParser) number() D {
	start := p.i
	if p.d[p.i] == '-' {
		p.i++
	}
	if p.i >= len(p.d) || !isDig(p.d[p.i]) {
		p.fail("number-no-int-digits")
	}
	if p.d[p.i] == '0' {
		p.i++
		if p.i < len(p.d) && isDig(p.d[p.i]) {
			p.fail("number-leading-zero")
		}
	} else {
		for p.i < len(p.d) && isDig(p.d[p.i]) {
			p.i++
		}
	}
	isFloat := false
	if p.i < len(p.d) && p.d[p.i] == '.' {
		if p.i+1 >= len(p.d) || !isDig(p.d[p.i+1]) {
			p.fail("number-frac-no-digits")
		}
		isFloat = true
		p.i++
		for p.i < len(p.d) && isDig(p.d[p.i]) {
			p.i++
		}
	}
	if p.i < len(p.d) && (p.d[p.i] == 'e' || p.d[p.i] == 'E') {
		j := p.i + 1
		if j < len(p.d) && (p.d[j] == '+' || p.d[j] == '-') {
			j++
		}
		if j >= len(p.d) || !isDig(p.d[j]) {
			p.fail("number-exp-no-digits")
		}
		isFloat = true
		for j < len(p.d) && isDig(p.d[j]) {
			j++
		}
		p.i = j
	}
	tok := string(p.d[start:p.i])
	if !isFloat {
		z, ok := new(big.Int).SetString(tok, 10)
		if !ok {
			panic("spec: SetString " + tok)
		}
		return D{T: "int", Z: z.String()}
	}
	f, err := strconv.ParseFloat(tok, 64)
	if err != nil {
		panic(specFail{"range", ""})
	}
	return D{T: "float", Bits: strconv.FormatUint(math.Float64bits(f), 10)}
}

func hexv(b byte) int {
	switch {
	case '0' <= b && b <= '9':
		return int(b - '0')
	case 'a' <= b && b <= 'f':
		return int(b-'a') + 10
	case 'A' <= b && b <= 'F':
		return int(b-'A') + 10
	}
	return -1
}

// u4 reads "\uXXXX" at offset i, returning the code unit or -1.
func (p *specParser) u4(i int) int {
	if i+6 > len(p.d) || p.d[i] != '\\' || p.d[i+1] != 'u' {
		return -1
	}
	v := 0
	for k := 2; k < 6; k++ {
		h := hexv(p.d[i+k])
		if h < 0 {
			return -1
		}
		v = v*16 + h
	}
	return v
}

func (p *specParser) str() string {
	p.i++ // opening quote
	var out []byte
	for {
		if p.i >= len(p.d) {
			p.fail("string-unclosed")
		}
		b := p.d[p.i]
		switch {
		case b == '"':
			p.i++
			return string(out)
		case b < 0x20:
			p.fail("string-raw-control")
		case b == '\\':
			if p.i+1 >= len(p.d) {
				p.fail("string-bad-escape")
			}
			c := p.d[p.i+1]
			switch c {
			case '"', '\\', '/':
				out = append(out, c)
				p.i += 2
			case 'b':
				out = append(out, 8)
				p.i += 2
			case 'f':
				out = append(out, 12)
				p.i += 2
			case 'n':
				out = append(out, 10)
				p.i += 2
			case 'r':
				out = append(out, 13)
				p.i += 2
			case 't':
				out = append(out, 9)
				p.i += 2
			case 'u':
				u := p.u4(p.i)
				if u < 0 {
					p.fail("string-bad-escape")
				}
				p.i += 6
				switch {
				case 0xD800 <= u && u < 0xDC00:
					lo := p.u4(p.i)
					if 0xDC00 <= lo && lo < 0xE000 {
						p.i += 6
						out = utf8.AppendRune(out, rune(0x10000+(u-0xD800)<<10+(lo-0xDC00)))
					} else {
						out = append(out, 0xEF, 0xBF, 0xBD)
					}
				case 0xDC00 <= u && u < 0xE000:
					out = append(out, 0xEF, 0xBF, 0xBD)
				default:
					out = utf8.AppendRune(out, rune(u))
				}
			default:
				p.fail("string-bad-escape")
			}
		case b < 0x80:
			out = append(out, b)
			p.i++
		default:
			r, w := utf8.DecodeRune(p.d[p.i:])
			if r == utf8.RuneError && w == 1 {
				out = append(out, 0xEF, 0xBF, 0xBD)
			} else {
				out = append(out, p.d[p.i:p.i+w]...)
			}
			p.i += w
		}
	}
}

func (p *specParser) need() byte {
	p.ws()
	if p.i >= len(p.d) {
		p.fail("eof")
	}
	return p.d[p.i]
}

func (p *specParser) lit(s string) {
	if !bytes.HasPrefix(p.d[p.i:], []byte(s)) {
		p.fail("literal")
	}
	p.i += len(s)
}

func (p *specParser) value() D {
	b := p.need()
	switch {
	case b == '"':
		return dstr(p.str())
	case b == 'n':
		p.lit("null")
		return D{T: "none"}
	case b == 't':
		p.lit("true")
		return D{T: "bool", B: true}
	case b == 'f':
		p.lit("false")
		return D{T: "bool", B: false}
	case b == '[':
		p.i++
		out := D{T: "list", L: []D{}}
		if p.need() == ']' {
			p.i++
			return out
		}
		for {
			out.L = append(out.L, p.value())
			c := p.need()
			p.i++
			if c == ']' {
				return out
			}
			if c != ',' {
				p.i--
				p.fail("array-sep")
			}
		}
	case b == '{':
		p.i++
		out := D{T: "dict", KV: [][2]D{}}
		if p.need() == '}' {
			p.i++
			return out
		}
		idx := map[string]int{}
		for {
			if p.need() != '"' {
				p.fail("object-key")
			}
			k := p.str()
			if p.need() != ':' {
				p.fail("object-colon")
			}
			p.i++
			v := p.value()
			if at, dup := idx[k]; dup {
				out.KV[at][1] = v
			} else {
				idx[k] = len(out.KV)
				out.KV = append(out.KV, [2]D{dstr(k), v})
			}
			c := p.need()
			p.i++
			if c == '}' {
				return out
			}
			if c != ',' {
				p.i--
				p.fail("object-sep")
			}
		}
	case b == '-' || isDig(b):
		return p.number()
	}
	p.fail("unexpected-char")
	panic("unreachable")
}

// G is the reference decoder's verdict.
type G struct {
	R   string `json:"r"`
	V   *D     `json:"v,omitempty"`
	Why string `json:"why,omitempty"`
}

func specDecode(doc []byte) (g G) {
	defer func() {
		if x := recover(); x != nil {
			f, ok := x.(specFail)
			if !ok {
				panic(x)
			}
			g = G{R: f.outcome, Why: f.why}
		}
	}()
	p := &specParser{d: doc}
	v := p.value()
	p.ws()
	if p.i < len(p.d) {
		p.fail("trailing-data")
	}
	return G{R: "ok", V: &v}
}

// --------------------------------------------------------------- real library

var (
	encodeFn = sjson.Module.Members["encode"]
	decodeFn = sjson.Module.Members["decode"]
)

type E struct {
	OK  bool   `json:"ok"`
	H   string `json:"h,omitempty"`
	Err string `json:"err,omitempty"`
}

type R struct {
	OK    bool `json:"ok"`
	V     *D   `json:"v,omitempty"`
	Panic bool `json:"panic,omitempty"`
}

func errClass(err error) string {
	s := err.Error()
	switch {
	case strings.Contains(s, "cycle in JSON structure"):
		return "cycle"
	case strings.Contains(s, "non-finite"):
		return "nonfinite"
	case strings.Contains(s, "key, want string"):
		return "key"
	case strings.Contains(s, "cannot encode"):
		return "type"
	}
	return "other"
}

func realEncode(x starlark.Value) (out string, e E) {
	thread := &starlark.Thread{Name: "c18"}
	v, err := starlark.Call(thread, encodeFn, starlark.Tuple{x}, nil)
	if err != nil {
		return "", E{OK: false, Err: errClass(err)}
	}
	s := string(v.(starlark.String))
	return s, E{OK: true, H: hex.EncodeToString([]byte(s))}
}

func realDecode(doc string, dflt starlark.Value) (v starlark.Value, r R) {
	defer func() {
		if x := recover(); x != nil {
			v, r = nil, R{OK: false, Panic: true}
		}
	}()
	thread := &starlark.Thread{Name: "c18"}
	var kwargs []starlark.Tuple
	if dflt != nil {
		kwargs = []starlark.Tuple{{starlark.String("default"), dflt}}
	}
	v, err := starlark.Call(thread, decodeFn, starlark.Tuple{starlark.String(doc)}, kwargs)
	if err != nil {
		return nil, R{OK: false}
	}
	d := describe(v)
	return v, R{OK: true, V: &d}
}

// rec is an application-defined HasAttrs value whose AttrNames() are NOT sorted
// (starlarkstruct sorts them itself): json.encode must sort the names.
type rec struct {
	names []string
	vals  []starlark.Value
}

func (r *rec) String() string        { return "rec(...)" }
func (r *rec) Type() string          { return "rec" }
func (r *rec) Freeze()               {}
func (r *rec) Truth() starlark.Bool  { return true }
func (r *rec) Hash() (uint32, error) { return 0, fmt.Errorf("unhashable") }
func (r *rec) AttrNames() []string   { return append([]string(nil), r.names...) }
func (r *rec) Attr(name string) (starlark.Value, error) {
	for i, n := range r.names {
		if n == name {
			return r.vals[i], nil
		}
	}
	return nil, nil
}

// ------------------------------------------------------------ value generator

type vgen struct{ r *hx.Rand }

var niceFloats = []float64{0, math.Copysign(0, -1), 1, -1, 0.1, 0.5, 1e21, 1e-7, 1e6, 123456, 1234567, 1e5, 1e-5, 0.0001, 0.00001,
	1e20, 1e22, 1e100, 1.5, -2.5e-10, 3.141592653589793, 5e-324, 2.2250738585072014e-308, 2.225073858507201e-308,
	math.MaxFloat64, -math.MaxFloat64, 9007199254740993, 0.30000000000000004, 100, 1e15, 1e16, 1e17, 123456789012345680000}

func (g *vgen) float(nice bool) starlark.Value {
	if nice {
		return starlark.Float(hx.Pick(g.r, niceFloats))
	}
	switch g.r.Intn(8) {
	case 0:
		return starlark.Float(math.Float64frombits(g.r.Uint64() & 0x800FFFFFFFFFFFFF)) // subnormal
	case 1:
		return starlark.Float(hx.Pick(g.r, []float64{math.Inf(1), math.Inf(-1), math.NaN()}))
	case 2:
		return starlark.Float(float64(g.r.Int63()%2000000-1000000) / float64(int64(1)<<uint(g.r.Intn(20))))
	}
	return starlark.Float(math.Float64frombits(g.r.Uint64()))
}

func (g *vgen) bigint() starlark.Value {
	bits := 1 + g.r.Intn(200)
	z := new(big.Int)
	switch g.r.Intn(6) {
	case 0: // exact power of two boundaries
		z.Lsh(big.NewInt(1), uint(hx.Pick(g.r, []int{31, 32, 53, 63, 64, 100, 128, 200})))
		z.Add(z, big.NewInt(int64(g.r.Intn(3)-1)))
	default:
		for i := 0; i < bits; i += 62 {
			z.Lsh(z, 62)
			z.Or(z, big.NewInt(g.r.Int63()>>1))
		}
		z.Rsh(z, uint(z.BitLen()-bits)*boolu(z.BitLen() > bits))
	}
	if g.r.Bool() {
		z.Neg(z)
	}
	return starlark.MakeBigInt(z)
}

func boolu(b bool) uint {
	if b {
		return 1
	}
	return 0
}

var specialRunes = []rune{0x80, 0x7ff, 0x800, 0xd7ff, 0xe000, 0xfffd, 0xffff, 0x10000, 0x10ffff, 0x2028, 0x2029, 0xe9, 0x4e16, 0x1f600, 0xfeff, 0x85, 0xa0}
var badUTF8 = []string{"\x80", "\xbf", "\xc0\x80", "\xc1\xbf", "\xe0\x80\x80", "\xed\xa0\x80", "\xed\xbf\xbf", "\xf4\x90\x80\x80", "\xf5", "\xff", "\xfe", "\xe2\x82", "\xf0\x9f\x98", "\xc3", "\xe2"}

// str generates a string of the given flavour.
func (g *vgen) str(flavour string) string {
	var b []byte
	n := g.r.Intn(9)
	if g.r.Intn(12) == 0 {
		n = 20 + g.r.Intn(60)
	}
	for i := 0; i < n; i++ {
		switch flavour {
		case "ascii":
			switch g.r.Intn(10) {
			case 0:
				b = append(b, hx.Pick(g.r, []byte{'"', '\\', '/', '<', '>', '&', '\'', ' ', '~', 0x7e}))
			case 1:
				if g.r.Intn(3) == 0 {
					b = append(b, 0x7f)
				} else {
					b = append(b, 'x')
				}
			default:
				b = append(b, byte(0x20+g.r.Intn(0x5f)))
			}
		case "control":
			if g.r.Intn(3) == 0 {
				b = append(b, byte(g.r.Intn(0x20)))
			} else if g.r.Intn(8) == 0 {
				b = append(b, 0x7f)
			} else {
				b = append(b, byte(0x20+g.r.Intn(0x5f)))
			}
		case "unicode":
			switch g.r.Intn(4) {
			case 0:
				b = utf8.AppendRune(b, hx.Pick(g.r, specialRunes))
			case 1:
				r := rune(g.r.Intn(0x110000))
				if r >= 0xd800 && r < 0xe000 {
					r = 0x4e00
				}
				b = utf8.AppendRune(b, r)
			case 2:
				b = append(b, byte(g.r.Intn(0x80)))
			default:
				b = append(b, byte(0x20+g.r.Intn(0x5f)))
			}
		case "invalid":
			switch g.r.Intn(3) {
			case 0:
				b = append(b, hx.Pick(g.r, badUTF8)...)
			case 1:
				b = utf8.AppendRune(b, hx.Pick(g.r, specialRunes))
			default:
				b = append(b, byte(0x20+g.r.Intn(0x5f)))
			}
		}
	}
	if flavour == "invalid" && utf8.Valid(b) {
		b = append(b, hx.Pick(g.r, badUTF8)...)
	}
	return string(b)
}

func (g *vgen) anyStr() string {
	switch g.r.Intn(10) {
	case 0, 1, 2:
		return g.str("ascii")
	case 3, 4:
		return g.str("control")
	case 5, 6, 7:
		return g.str("unicode")
	case 8:
		return g.str("invalid")
	}
	return hx.Pick(g.r, []string{"", "a", "ab", "abc", "b", "\x7f", "a\x7f", "k", "key", "\u2028", "é", "\"", "\\"})
}

func (g *vgen) scalar() starlark.Value {
	switch g.r.Intn(9) {
	case 0:
		return starlark.None
	case 1:
		return starlark.Bool(g.r.Bool())
	case 2:
		return starlark.MakeInt(g.r.Intn(2001) - 1000)
	case 3:
		return g.bigint()
	case 4:
		return g.float(true)
	case 5:
		return g.float(false)
	}
	return starlark.String(g.anyStr())
}

func (g *vgen) keys(n int) []string {
	seen := map[string]bool{}
	var ks []string
	pool := []string{"", "a", "ab", "abc", "b", "B", "a\x00", "a b", "\x7f", "é", "z", "a\"", "\u2028", "10", "9", "k\\"}
	for len(ks) < n {
		var k string
		if g.r.Intn(3) == 0 {
			k = g.anyStr()
		} else {
			k = hx.Pick(g.r, pool)
		}
		if !seen[k] {
			seen[k] = true
			ks = append(ks, k)
		}
	}
	return ks
}

func (g *vgen) tree(depth int) starlark.Value {
	if depth <= 0 || g.r.Intn(3) == 0 {
		return g.scalar()
	}
	n := g.r.Intn(4)
	switch g.r.Intn(4) {
	case 0:
		var l []starlark.Value
		for i := 0; i < n; i++ {
			l = append(l, g.tree(depth-1))
		}
		return starlark.NewList(l)
	case 1:
		var l starlark.Tuple
		for i := 0; i < n; i++ {
			l = append(l, g.tree(depth-1))
		}
		return l
	case 2:
		d := new(starlark.Dict)
		for _, k := range g.keys(n) {
			d.SetKey(starlark.String(k), g.tree(depth-1))
		}
		return d
	}
	if g.r.Intn(3) == 0 {
		r := &rec{}
		for _, k := range g.keys(n) {
			r.names = append(r.names, k)
			r.vals = append(r.vals, g.tree(depth-1))
		}
		return r
	}
	sd := starlark.StringDict{}
	for _, k := range g.keys(n) {
		sd[k] = g.tree(depth - 1)
	}
	return starlarkstruct.FromStringDict(starlarkstruct.Default, sd)
}

var valClasses = []string{"scalar-none", "scalar-bool", "int-small", "int-big", "float-nice", "float-bits",
	"str-ascii", "str-control", "str-unicode", "str-invalid-utf8", "list", "tuple", "dict", "dict-nonstring-key",
	"struct", "struct-unsorted", "nested", "nested", "nested", "other"}

func (g *vgen) gen(cls string) starlark.Value {
	switch cls {
	case "scalar-none":
		return starlark.None
	case "scalar-bool":
		return starlark.Bool(g.r.Bool())
	case "int-small":
		return starlark.MakeInt64(int64(g.r.Intn(1<<20)) - 1<<19)
	case "int-big":
		return g.bigint()
	case "float-nice":
		return g.float(true)
	case "float-bits":
		return g.float(false)
	case "str-ascii":
		return starlark.String(g.str("ascii"))
	case "str-control":
		return starlark.String(g.str("control"))
	case "str-unicode":
		return starlark.String(g.str("unicode"))
	case "str-invalid-utf8":
		return starlark.String(g.str("invalid"))
	case "list":
		var l []starlark.Value
		for i, n := 0, g.r.Intn(5); i < n; i++ {
			l = append(l, g.scalar())
		}
		return starlark.NewList(l)
	case "tuple":
		var l starlark.Tuple
		for i, n := 0, g.r.Intn(5); i < n; i++ {
			l = append(l, g.scalar())
		}
		return l
	case "dict":
		d := new(starlark.Dict)
		for _, k := range g.keys(g.r.Intn(6)) {
			d.SetKey(starlark.String(k), g.scalar())
		}
		return d
	case "dict-nonstring-key":
		d := new(starlark.Dict)
		d.SetKey(starlark.String("a"), starlark.MakeInt(1))
		d.SetKey(hx.Pick(g.r, []starlark.Value{starlark.MakeInt(1), starlark.None, starlark.Tuple{}, starlark.Float(1.5), starlark.True}), starlark.MakeInt(2))
		return d
	case "struct":
		sd := starlark.StringDict{}
		for _, k := range g.keys(g.r.Intn(5)) {
			sd[k] = g.scalar()
		}
		return starlarkstruct.FromStringDict(starlarkstruct.Default, sd)
	case "struct-unsorted":
		r := &rec{}
		for _, k := range g.keys(2 + g.r.Intn(4)) {
			r.names = append(r.names, k)
			r.vals = append(r.vals, g.scalar())
		}
		return r
	case "other":
		f := starlark.NewBuiltin("f", nil)
		switch g.r.Intn(3) {
		case 0:
			return f
		case 1:
			return starlark.NewList([]starlark.Value{starlark.MakeInt(1), f})
		}
		return starlark.Tuple{starlark.Bytes("ab")}
	}
	return g.tree(1 + g.r.Intn(6))
}

type ValCase struct {
	Kind   string `json:"kind"`
	Cls    string `json:"cls"`
	X      D      `json:"x"`
	Enc    E      `json:"enc"`
	Dec    *R     `json:"dec,omitempty"`
	Valid  *bool  `json:"valid,omitempty"`
	Gospec *G     `json:"gospec,omitempty"`
}

func runVal(cls string, x starlark.Value) ValCase {
	c := ValCase{Kind: "val", Cls: cls, X: describe(x)}
	out, e := realEncode(x)
	c.Enc = e
	if e.OK {
		_, r := realDecode(out, nil)
		c.Dec = &r
		v := stdjson.Valid([]byte(out))
		c.Valid = &v
		g := specDecode([]byte(out))
		c.Gospec = &g
	}
	return c
}

// --------------------------------------------------------- document generator

type dgen struct {
	r      *hx.Rand
	bad    string   // first invalid ingredient injected ("" = none)
	pbad   int      // 1/pbad chance of injecting an invalid ingredient at each opportunity (0 = never)
	toks   []string // token boundaries of the document being generated
	nested int
}

func (g *dgen) inject(name string) bool {
	if g.pbad == 0 || g.r.Intn(g.pbad) != 0 {
		return false
	}
	if g.bad == "" {
		g.bad = name
	}
	return true
}

func (g *dgen) emit(s string) { g.toks = append(g.toks, s) }

func (g *dgen) ws() {
	switch g.r.Intn(6) {
	case 0:
		g.emit(hx.Pick(g.r, []string{" ", "\t", "\n", "\r", "  ", " \n\t", "\r\n"}))
		if g.inject("bad-whitespace") {
			g.emit(hx.Pick(g.r, []string{"\v", "\f", "\u00a0", "\x00", "\ufeff"}))
		}
	}
}

var validNumbers = []string{"0", "-0", "7", "-7", "10", "123456789012345678901234567890", "-9223372036854775808", "18446744073709551616",
	"0.0", "-0.0", "0.5", "-0.5", "1.5e-3", "1E+5", "1e05", "1e5", "1E5", "0e0", "0E-0", "-0e+0", "1e308", "1e-400", "-1e-400", "1.0", "100.001",
	"9007199254740993.0", "9007199254740992.5", "2.2250738585072011e-308", "5e-324", "2.47e-324", "2.48e-324", "4.9e-324",
	"1.7976931348623157e308", "1.7976931348623158e308", "0.1e1", "12e-1", "3.0e0", "1e22", "1e23", "8.5e-1", "0.000001", "1.0000000000000002",
	"1.00000000000000011102230246251565404236316680908203125", "1.00000000000000011102230246251565404236316680908203124", "1.00000000000000011102230246251565404236316680908203126"}
var rangeNumbers = []string{"1e309", "-1e309", "1.7976931348623159e308", "123e400000000", "1e400", "2e308", "-1.8e308"}
var invalidNumbers = map[string][]string{
	"number-trailing-dot":   {"1.", "-1.", "0.", "-0.", "1.e5", "12.E-1", "0.e0", "1.e+5"},
	"number-leading-dot":    {"-.5", "-.5e1", "-.0"},
	"number-bare-dot":       {".5", ".", "-."},
	"number-exp-no-digits":  {"1e", "1e+", "1E-", "1.5e", "0e", "-1e", "1e+-1"},
	"number-minus-only":     {"-", "--1", "-+1", "- 1", "-e5"},
	"number-plus":           {"+1", "+0.5", "+"},
	"number-leading-zero":   {"01", "-01", "00", "-00", "01.5", "00.5", "0123", "-012e3", "01e5"},
	"number-multiple-parts": {"1.5.2", "1e5e5", "1-2", "1+2", "1e5.5", "1e5.", "1..2", "1ee5", "1e--5", "0-0", "1.2-3", "1e5-", "1-"},
	"number-other-syntax":   {"0x10", "1_000", "Infinity", "NaN", "-Infinity", "1f", "1d", "0b1", "١"},
}

func (g *dgen) number() string {
	if g.inject("number") {
		names := make([]string, 0, len(invalidNumbers))
		for k := range invalidNumbers {
			names = append(names, k)
		}
		sort.Strings(names)
		k := hx.Pick(g.r, names)
		if g.bad == "number" {
			g.bad = k
		}
		return hx.Pick(g.r, invalidNumbers[k])
	}
	switch g.r.Intn(12) {
	case 0, 1, 2:
		return hx.Pick(g.r, validNumbers)
	case 3:
		if g.r.Intn(4) == 0 {
			return hx.Pick(g.r, rangeNumbers)
		}
		return strconv.Itoa(g.r.Intn(100))
	case 4: // long digit strings
		var b strings.Builder
		if g.r.Bool() {
			b.WriteByte('-')
		}
		b.WriteByte(byte('1' + g.r.Intn(9)))
		for i, n := 0, g.r.Intn(60); i < n; i++ {
			b.WriteByte(byte('0' + g.r.Intn(10)))
		}
		if g.r.Intn(50) == 0 {
			b.WriteString(strings.Repeat("7", 400))
		}
		return b.String()
	case 5: // small with many zeros
		if g.r.Intn(40) == 0 {
			return "0." + strings.Repeat("0", 400) + "1"
		}
		return "0." + strings.Repeat("0", g.r.Intn(8)) + strconv.Itoa(1+g.r.Intn(999))
	}
	// random grammar-built number
	var b strings.Builder
	if g.r.Intn(3) == 0 {
		b.WriteByte('-')
	}
	if g.r.Intn(4) == 0 {
		b.WriteByte('0')
	} else {
		b.WriteByte(byte('1' + g.r.Intn(9)))
		for i, n := 0, g.r.Intn(18); i < n; i++ {
			b.WriteByte(byte('0' + g.r.Intn(10)))
		}
	}
	if g.r.Intn(2) == 0 {
		b.WriteByte('.')
		for i, n := 0, 1+g.r.Intn(18); i < n; i++ {
			b.WriteByte(byte('0' + g.r.Intn(10)))
		}
	}
	if g.r.Intn(3) == 0 {
		b.WriteByte(hx.Pick(g.r, []byte{'e', 'E'}))
		switch g.r.Intn(3) {
		case 0:
			b.WriteByte('+')
		case 1:
			b.WriteByte('-')
		}
		b.WriteString(strconv.Itoa(g.r.Intn(hx.Pick(g.r, []int{3, 30, 330, 400}))))
	}
	return b.String()
}

func (g *dgen) str() string {
	var b []byte
	b = append(b, '"')
	n := g.r.Intn(7)
	if g.r.Intn(15) == 0 {
		n = 15 + g.r.Intn(40)
	}
	// the fast path of the decoder: no backslash, no byte >= 0x80
	plain := g.r.Intn(3) == 0
	for i := 0; i < n; i++ {
		k := g.r.Intn(14)
		if plain && k < 9 {
			k = 13
		}
		switch k {
		case 0:
			b = append(b, '\\', hx.Pick(g.r, []byte{'"', '\\', '/', 'b', 'f', 'n', 'r', 't'}))
		case 1: // BMP escape
			u := hx.Pick(g.r, []int{0, 0x1f, 0x20, 0x22, 0x5c, 0x7f, 0x80, 0xe9, 0x7ff, 0x800, 0x2028, 0xd7ff, 0xe000, 0xfffd, 0xffff, g.r.Intn(0xd800)})
			b = append(b, g.uesc(u)...)
		case 2: // valid pair
			b = append(b, g.uesc(0xd800+g.r.Intn(0x400))...)
			b = append(b, g.uesc(0xdc00+g.r.Intn(0x400))...)
		case 3: // lone / odd surrogates (grammatical)
			switch g.r.Intn(5) {
			case 0:
				b = append(b, g.uesc(0xd800+g.r.Intn(0x400))...)
			case 1:
				b = append(b, g.uesc(0xdc00+g.r.Intn(0x400))...)
			case 2:
				b = append(b, g.uesc(0xd800+g.r.Intn(0x400))...)
				b = append(b, g.uesc(0x41+g.r.Intn(26))...)
			case 3:
				b = append(b, g.uesc(0xd800+g.r.Intn(0x400))...)
				b = append(b, 'x')
			case 4:
				b = append(b, g.uesc(0xd800+g.r.Intn(0x400))...)
				b = append(b, g.uesc(0xd800+g.r.Intn(0x400))...)
				b = append(b, g.uesc(0xdc00+g.r.Intn(0x400))...)
			}
		case 4, 5:
			b = utf8.AppendRune(b, hx.Pick(g.r, specialRunes))
		case 6:
			if g.r.Intn(4) == 0 {
				b = append(b, hx.Pick(g.r, badUTF8)...) // accepted and coerced (documented leniency)
			} else {
				b = append(b, 0x7f)
			}
		case 7:
			if g.inject("bad-escape") {
				b = append(b, hx.Pick(g.r, []string{`\x41`, `\'`, `\u12`, `\u12G4`, `\U0041`, `\a`, `\v`, `\0`, `\ `, `\u 041`, `\ud83d\u12`, "\\\n"})...)
			} else {
				b = append(b, ' ')
			}
		case 8:
			if g.inject("raw-control-slow-path") {
				b = append(b, byte(g.r.Intn(0x20)), '\\', 'n')
			} else {
				b = append(b, '\\', '/')
			}
		default:
			if g.inject(map[bool]string{true: "raw-control-fast-path", false: "raw-control"}[plain]) {
				b = append(b, byte(g.r.Intn(0x20)))
			} else {
				b = append(b, byte(0x20+g.r.Intn(0x5f)))
				if c := b[len(b)-1]; c == '"' || c == '\\' {
					b[len(b)-1] = 'q'
				}
			}
		}
	}
	if g.inject("unclosed-string") {
		if g.r.Bool() {
			return string(b) + `\`
		}
		return string(b)
	}
	if g.inject("single-quoted") {
		return "'" + string(b[1:]) + "'"
	}
	return string(b) + `"`
}

func (g *dgen) uesc(u int) string {
	if g.r.Bool() {
		return fmt.Sprintf(`\u%04x`, u)
	}
	return fmt.Sprintf(`\u%04X`, u)
}

func (g *dgen) value(depth int) {
	g.ws()
	k := g.r.Intn(10)
	if depth <= 0 && k >= 6 {
		k = g.r.Intn(6)
	}
	switch k {
	case 0:
		if g.inject("bad-literal") {
			g.emit(hx.Pick(g.r, []string{"nul", "Null", "NULL", "True", "tru", "fals", "nulll", "none", "None", "truE", "undefined", "n", "t", "f"}))
		} else {
			g.emit(hx.Pick(g.r, []string{"null", "true", "false"}))
		}
	case 1, 2, 3:
		g.emit(g.number())
	case 4, 5:
		g.emit(g.str())
	case 6, 7:
		g.emit("[")
		n := g.r.Intn(4)
		if n > 0 && g.inject("leading-comma") {
			g.emit(",")
		}
		for i := 0; i < n; i++ {
			if i > 0 {
				g.ws()
				if !g.inject("missing-comma") {
					g.emit(",")
				}
			}
			g.value(depth - 1)
		}
		g.ws()
		if n > 0 && g.inject("trailing-comma") {
			g.emit(",")
		}
		if g.inject("close-mismatch") {
			g.emit("}")
		} else if !g.inject("unclosed-array") {
			g.emit("]")
		}
	default:
		g.emit("{")
		n := g.r.Intn(4)
		var keys []string
		for i := 0; i < n; i++ {
			if i > 0 {
				g.ws()
				if !g.inject("missing-comma") {
					g.emit(",")
				}
			}
			g.ws()
			var key string
			if len(keys) > 0 && g.r.Intn(3) == 0 { // duplicate key, maybe spelled differently
				key = hx.Pick(g.r, keys)
				if key == `"a"` && g.r.Bool() {
					key = `"\u0061"`
				}
			} else if g.r.Intn(3) == 0 {
				key = hx.Pick(g.r, []string{`"a"`, `"b"`, `""`, `"a\n"`, `"k"`})
			} else {
				key = g.str()
			}
			keys = append(keys, key)
			if g.inject("non-string-key") {
				g.emit(hx.Pick(g.r, []string{"1", "null", "[]", "a", "true"}))
			} else {
				g.emit(key)
			}
			g.ws()
			if !g.inject("missing-colon") {
				g.emit(":")
			}
			g.value(depth - 1)
		}
		g.ws()
		if n > 0 && g.inject("trailing-comma") {
			g.emit(",")
		}
		if g.inject("close-mismatch") {
			g.emit("]")
		} else if !g.inject("unclosed-object") {
			g.emit("}")
		}
	}
	if g.inject("comment") {
		g.emit(hx.Pick(g.r, []string{"/* c */", "// c\n", "#c\n"}))
	}
	g.ws()
}

func (g *dgen) doc(pbad int) (doc string, cls string, toks []string) {
	g.bad, g.pbad, g.toks = "", pbad, nil
	g.value(g.r.Intn(5))
	if g.inject("trailing-data") {
		g.emit(hx.Pick(g.r, []string{"1", "x", "]", "}", ",", "null", "\"\"", "{}", "\x00"}))
	}
	doc = strings.Join(g.toks, "")
	if g.bad == "" {
		return doc, "doc-valid", g.toks
	}
	return doc, "doc-invalid:" + g.bad, g.toks
}

func poolDocs() []string {
	base := []string{"", " ", "\n\t\r ", "null", "true", "false", " null ", "nul", "nulll", "null x", "1 2", "[] ]", "{}{}", "[]", "{}", "[ ]", "{ }",
		"[1,]", "[,1]", "[1 2]", "[1,,2]", "{\"a\":1,}", "{,}", "{\"a\" 1}", "{\"a\":}", "{1:2}", "{\"a\":1 \"b\":2}", "[1}", "{\"a\":1]", "[", "{", "]", "}", ",", ":",
		"[[[[]]]]", "{\"a\":{\"a\":{}}}", "{\"a\":1,\"a\":2}", "{\"a\":1,\"b\":2,\"a\":3}", "{\"a\":1,\"\\u0061\":2}", "{\"\":0,\"\":1}",
		"\"\"", "\"a\"", "\"a", "\"", "\"\\\"", "\"\\\\\"", "\"\\", "'a'", "\"a\x00b\"", "\"a\nb\"", "\"a\tb\"", "\"\x1f\"", "\"\x7f\"", "\"a\rb\"", "\"\x01\"",
		"\"a\\nb\\u0041\x0a\"", "\"é\x0a\"", "\"\\u0041\"", "\"\\u004\"", "\"\\u004G\"", "\"\\x41\"", "\"\\'\"", "\"\\a\"", "\"\\/\"", "\"\\b\\f\\n\\r\\t\"",
		"\"\\ud83d\\ude00\"", "\"\\ud83d\"", "\"\\ude00\"", "\"\\ud83d\\u0041\"", "\"\\ud83dx\"", "\"\\ud83d\\ud83d\\ude00\"", "\"\\uD83D\\uDE00\"", "\"\\ude00\\ud83d\"",
		"\"\\u0000\"", "\"\\u001f\"", "\"\\ufffd\"", "\"\\uffff\"", "\"\\u2028\"", "\"\xe2\x80\xa8\"", "\"\xf0\x9f\x98\x80\"", "\"\xef\xbf\xbd\"",
		"\"\xff\"", "\"\xc0\x80\"", "\"\xed\xa0\x80\"", "\"a\x80\"", "\"\xe2\x82\"", "\"\xf4\x90\x80\x80\"",
		"\xef\xbb\xbf1", "\x001", "1\x00", "\v1", "\f1", "\u00a01", "1\u00a0", "/**/1", "1//x", "1#",
		"0", "-0", "-0.0", "0.0", "1", "-1", "10", "1.5", "1e5", "1E5", "1e+5", "1e-5", "1e05", "0e0", "1.5e-3",
		"1.", "-1.", "0.", "1.e5", "-.5", ".5", ".", "-.", "1e", "1e+", "1E-", "-", "--1", "-+1", "+1", "+", "01", "-01", "00", "-00", "01.5", "1.5.2", "1e5e5", "1-2", "1+2",
		"0x10", "1_000", "Infinity", "NaN", "-Infinity", "1e5.", "- 1", "1e309", "-1e309", "1e308", "1e-400", "-1e-400", "123e400000000", "1e-400000000", "0e400000000",
		"1.7976931348623157e308", "1.7976931348623159e308", "9007199254740993.0", "5e-324", "2.47e-324", "2.48e-324", "2.2250738585072011e-308",
		"123456789012345678901234567890", "-123456789012345678901234567890", "0." + strings.Repeat("0", 400) + "1", strings.Repeat("9", 400), strings.Repeat("9", 400) + ".0",
		"1" + strings.Repeat("0", 400) + "e-400", "True", "None", "NULL", "tru", "t", "f", "n", "falsey", "truefalse", "nullnull", "[null,true,false]", "[1e309]", "[1e309,]", "{\"a\":1e309}",
	}
	var out []string
	for _, d := range base {
		out = append(out, d)
	}
	for _, d := range base {
		if d == "" {
			continue
		}
		out = append(out, "["+d+"]", "{\"k\":"+d+"}", " "+d+" ", "["+d+","+d+"]")
	}
	return out
}

// structuralDocs: one defect of each kind at EVERY member / element index of
// objects and arrays with 1..4 entries (a check made only on the first iteration
// of a loop, or only on the last, shows up at the other indices), bare and nested.
func structuralDocs() []string {
	badKeys := []string{"1", "-0", "1.5", "1e5", "true", "false", "null", "[]", "{}", "[1]", "{\"a\":1}", "a", "'a'", "\"a", ""}
	vals := []string{"1", "\"v\"", "null", "[2]", "{\"z\":0}"}
	var out []string
	wrap := func(d string) {
		out = append(out, d, "["+d+"]", "{\"o\":"+d+"}", "[0, "+d+" , 1]", " "+d+"\n")
	}
	for n := 1; n <= 4; n++ {
		for bad := 0; bad < n; bad++ {
			// object: member `bad` has a non-string name / no colon / no value / extra colon
			for _, bk := range badKeys {
				var ms []string
				for i := 0; i < n; i++ {
					k := fmt.Sprintf("\"k%d\"", i)
					if i == bad {
						k = bk
					}
					ms = append(ms, k+":"+vals[i%len(vals)])
				}
				wrap("{" + strings.Join(ms, ",") + "}")
				wrap("{ " + strings.Join(ms, " , ") + " }")
			}
			for _, defect := range []string{"no-colon", "no-value", "double-colon", "comma-for-colon", "no-comma-after", "double-comma-after", "value-only"} {
				var sb strings.Builder
				sb.WriteString("{")
				for i := 0; i < n; i++ {
					k, v := fmt.Sprintf("\"k%d\"", i), vals[i%len(vals)]
					m := k + ":" + v
					sep := ","
					if i == bad {
						switch defect {
						case "no-colon":
							m = k + " " + v
						case "no-value":
							m = k + ":"
						case "double-colon":
							m = k + "::" + v
						case "comma-for-colon":
							m = k + "," + v
						case "no-comma-after":
							sep = " "
						case "double-comma-after":
							sep = ",,"
						case "value-only":
							m = v
						}
					}
					sb.WriteString(m)
					if i < n-1 || (i == bad && defect == "double-comma-after") {
						sb.WriteString(sep)
					}
				}
				sb.WriteString("}")
				wrap(sb.String())
			}
			// array: element `bad` missing / followed by no or two commas / is a member
			for _, defect := range []string{"missing", "no-comma-after", "double-comma-after", "member", "colon-after"} {
				var sb strings.Builder
				sb.WriteString("[")
				for i := 0; i < n; i++ {
					e, sep := vals[i%len(vals)], ","
					if i == bad {
						switch defect {
						case "missing":
							e = ""
						case "no-comma-after":
							sep = " "
						case "double-comma-after":
							sep = ",,"
						case "member":
							e = "\"k\":" + e
						case "colon-after":
							sep = ":"
						}
					}
					sb.WriteString(e)
					if i < n-1 || (i == bad && defect == "double-comma-after") {
						sb.WriteString(sep)
					}
				}
				sb.WriteString("]")
				wrap(sb.String())
			}
		}
	}
	return out
}

func tokenise(toks []string) []string { return toks }

func (g *dgen) corrupt(toks []string) (string, string) {
	doc := strings.Join(toks, "")
	pool := []byte{'[', ']', '{', '}', ',', ':', '"', '\\', '0', '1', '9', '.', 'e', 'E', '-', '+', ' ', '\n', 0, 1, 0x1f, 0x7f, 0x80, 0xff, 0xc3, 'n', 'u', 'a', '/', 't', 'x'}
	if len(doc) == 0 {
		return string(hx.Pick(g.r, pool)), "corrupt:insert-byte"
	}
	switch g.r.Intn(7) {
	case 0:
		i := g.r.Intn(len(doc))
		return doc[:i] + doc[i+1:], "corrupt:delete-byte"
	case 1:
		i := g.r.Intn(len(doc) + 1)
		return doc[:i] + string(hx.Pick(g.r, pool)) + doc[i:], "corrupt:insert-byte"
	case 2:
		i := g.r.Intn(len(doc))
		return doc[:i] + string(hx.Pick(g.r, pool)) + doc[i+1:], "corrupt:replace-byte"
	case 3:
		return doc[:g.r.Intn(len(doc))], "corrupt:truncate"
	case 4:
		i := g.r.Intn(len(toks))
		t := append(append([]string{}, toks[:i]...), toks[i+1:]...)
		return strings.Join(t, ""), "corrupt:drop-token"
	case 5:
		i := g.r.Intn(len(toks))
		t := append(append(append([]string{}, toks[:i+1]...), toks[i]), toks[i+1:]...)
		return strings.Join(t, ""), "corrupt:dup-token"
	}
	if len(toks) < 2 {
		return doc + doc, "corrupt:dup-token"
	}
	i := g.r.Intn(len(toks) - 1)
	t := append([]string{}, toks...)
	t[i], t[i+1] = t[i+1], t[i]
	return strings.Join(t, ""), "corrupt:swap-tokens"
}

type DocCase struct {
	Kind   string `json:"kind"`
	Cls    string `json:"cls"`
	Doc    string `json:"d"`
	Real   R      `json:"real"`
	Dflt   string `json:"dflt"`
	Valid  bool   `json:"valid"`
	Gospec G      `json:"gospec"`
}

var sentinel = starlark.Tuple{starlark.String("<default>"), starlark.MakeInt(12345)}

func runDoc(cls, doc string) DocCase {
	c := DocCase{Kind: "doc", Cls: cls, Doc: hex.EncodeToString([]byte(doc))}
	_, c.Real = realDecode(doc, nil)
	v, r2 := realDecode(doc, sentinel)
	switch {
	case !r2.OK:
		c.Dflt = "error"
	case sameD(*r2.V, describe(sentinel)) && isSentinel(v):
		c.Dflt = "default"
	case c.Real.OK && sameD(*r2.V, *c.Real.V):
		c.Dflt = "value"
	default:
		c.Dflt = "othervalue"
	}
	c.Valid = stdjson.Valid([]byte(doc))
	c.Gospec = specDecode([]byte(doc))
	return c
}

func isSentinel(v starlark.Value) bool {
	t, ok := v.(starlark.Tuple)
	return ok && len(t) == 2 && &t[0] == &sentinel[0]
}

// ------------------------------------------------------------ child processes

func child(what string, n int) string {
	res := func(v starlark.Value, err error) string {
		if err != nil {
			if strings.Contains(err.Error(), "cycle in JSON structure") {
				return "err:cycle"
			}
			return "err"
		}
		return "ok"
	}
	thread := &starlark.Thread{Name: "c18child"}
	dec := func(doc string) string {
		return res(starlark.Call(thread, decodeFn, starlark.Tuple{starlark.String(doc)}, nil))
	}
	enc := func(x starlark.Value) string {
		return res(starlark.Call(thread, encodeFn, starlark.Tuple{x}, nil))
	}
	switch what {
	case "deep-array":
		return dec(strings.Repeat("[", n) + strings.Repeat("]", n))
	case "deep-object":
		return dec(strings.Repeat(`{"a":`, n) + "1" + strings.Repeat("}", n))
	case "deep-mixed":
		return dec(strings.Repeat(`[{"a":`, n) + "null" + strings.Repeat("}]", n))
	case "deep-unclosed":
		return dec(strings.Repeat("[", n))
	case "deep-encode-list":
		var x starlark.Value = starlark.None
		for i := 0; i < n; i++ {
			x = starlark.NewList([]starlark.Value{x})
		}
		return enc(x)
	case "cycle-list-self":
		l := starlark.NewList(nil)
		l.Append(l)
		return enc(l)
	case "cycle-list-indirect":
		a := starlark.NewList(nil)
		b := starlark.NewList([]starlark.Value{a})
		a.Append(b)
		return enc(a)
	case "cycle-dict-self":
		d := new(starlark.Dict)
		d.SetKey(starlark.String("k"), d)
		return enc(d)
	case "cycle-dict-in-list":
		d := new(starlark.Dict)
		l := starlark.NewList([]starlark.Value{d})
		d.SetKey(starlark.String("k"), l)
		return enc(l)
	case "cycle-list-in-struct":
		l := starlark.NewList(nil)
		s := starlarkstruct.FromStringDict(starlarkstruct.Default, starlark.StringDict{"x": l})
		l.Append(s)
		return enc(s)
	case "cycle-tuple-list":
		l := starlark.NewList(nil)
		t := starlark.Tuple{starlark.MakeInt(1), l}
		l.Append(t)
		return enc(t)
	case "shared-not-cycle": // the same list twice is a DAG, not a cycle: must encode
		l := starlark.NewList([]starlark.Value{starlark.MakeInt(1)})
		return enc(starlark.NewList([]starlark.Value{l, l}))
	}
	return "unknown"
}

func runChild(what string, n int) string {
	ctx, cancel := context.WithTimeout(context.Background(), 120*time.Second)
	defer cancel()
	out, err := exec.CommandContext(ctx, os.Args[0], "child", what, strconv.Itoa(n)).Output()
	if ctx.Err() != nil {
		return "timeout"
	}
	if err != nil {
		return "crash"
	}
	return strings.TrimSpace(string(out))
}

// ------------------------------------------------------------------------ main

func main() {
	if len(os.Args) >= 4 && os.Args[1] == "child" {
		n, _ := strconv.Atoi(os.Args[3])
		fmt.Println(child(os.Args[2], n))
		return
	}
	seed := flag.Uint64("seed", 1, "seed")
	nvals := flag.Int("nvals", 500, "value cases")
	ndocs := flag.Int("ndocs", 3000, "document cases")
	deep := flag.Bool("deep", false, "also run deep nesting / cycle cases in child processes")
	deepmax := flag.Int("deepmax", 20000, "largest nesting depth of the -deep cases")
	flag.Parse()
	defer hx.Flush()

	root := hx.NewRand(*seed)
	classes := map[string]int{}
	nv, nd := 0, 0

	vg := &vgen{r: root.Split()}
	for i := 0; i < *nvals; i++ {
		cls := valClasses[i%len(valClasses)]
		c := runVal(cls, vg.gen(cls))
		classes[cls]++
		nv++
		hx.Emit(c)
	}

	for _, d := range poolDocs() {
		hx.Emit(runDoc("pool", d))
		classes["pool"]++
		nd++
	}
	for _, d := range structuralDocs() {
		hx.Emit(runDoc("structural", d))
		classes["structural"]++
		nd++
	}
	dg := &dgen{r: root.Split()}
	cg := &dgen{r: root.Split()}
	for i := 0; i < *ndocs; i++ {
		pbad := 0
		if i%3 == 2 {
			pbad = 12
		}
		doc, cls, toks := dg.doc(pbad)
		hx.Emit(runDoc(cls, doc))
		classes[cls]++
		nd++
		if cls == "doc-valid" && i%2 == 0 {
			cd, ccls := cg.corrupt(toks)
			hx.Emit(runDoc(ccls, cd))
			classes[ccls]++
			nd++
		}
	}

	if *deep {
		type dc struct {
			what string
			n    int
		}
		big := *deepmax
		list := []dc{{"deep-array", 1000}, {"deep-array", big}, {"deep-object", 1000}, {"deep-object", big},
			{"deep-mixed", 1000}, {"deep-mixed", big / 2}, {"deep-unclosed", big}, {"deep-encode-list", 1000}, {"deep-encode-list", big / 5}}
		cyc := []string{"cycle-list-self", "cycle-list-indirect", "cycle-dict-self", "cycle-dict-in-list", "cycle-list-in-struct", "cycle-tuple-list", "shared-not-cycle"}
		res := make([]string, len(list)+len(cyc))
		var wg sync.WaitGroup
		for i := range res {
			wg.Add(1)
			go func(i int) {
				defer wg.Done()
				if i < len(list) {
					res[i] = runChild(list[i].what, list[i].n)
				} else {
					res[i] = runChild(cyc[i-len(list)], 0)
				}
			}(i)
		}
		wg.Wait()
		for i, c := range list {
			hx.Emit(map[string]any{"kind": "deep", "cls": c.what, "depth": c.n, "result": res[i]})
		}
		for i, w := range cyc {
			hx.Emit(map[string]any{"kind": "cyc", "cls": w, "result": res[len(list)+i]})
		}
	}
	hx.Emit(map[string]any{"kind": "summary", "vals": nv, "docs": nd, "classes": classes})
}
