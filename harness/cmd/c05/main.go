// c05: frozen values and compiled programs shared between threads.
//
// Built with `go build -race`.  A parent process runs every scenario in a child
// process (so that a race report -- exit status 66, "WARNING: DATA RACE" on
// stderr -- is attributable to a scenario, seed and thread count).
//
// Scenarios
//
//	values    a generated module (internal/graphs) is executed, which freezes its
//	          values; then N goroutines, each with its own starlark.Thread, run op
//	          scripts over the SAME values: len, index, membership, full and nested
//	          iteration, comparison, hashing, printing, calling shared closures,
//	          storing the value in a module of their own (whose epilogue freezes it
//	          again), rejected mutators (methods and Go API), and Starlark scripts
//	          with for loops, comprehensions and sorted() over the shared values.
//	          Every thread's transcript must equal its transcript when run alone.
//	position  a frozen module with failing functions; N goroutines call them at the
//	          same moment on a program whose line tables were never decoded
//	          (Funcode.Position under sync.Once); backtraces must equal the solo run.
//	proginit  one *Program initialised by N goroutines at the same moment, succeeding
//	          and failing top-level code; the globals / backtraces must equal the solo run.
package main

import (
	"bytes"
	"context"
	"encoding/json"
	"flag"
	"fmt"
	"os"
	"os/exec"
	"regexp"
	"sort"
	"strconv"
	"strings"
	"sync"
	"time"

	sjson "go.starlark.net/lib/json"
	"go.starlark.net/starlark"
	"go.starlark.net/starlarkstruct"
	"go.starlark.net/syntax"

	"verifharness/internal/graphs"
	"verifharness/internal/hx"
)

type Val = graphs.Val

// ------------------------------------------------------------------ op scripts

type KV struct {
	K int64 `json:"k"`
	V Val   `json:"v"`
}

// Mop uses the JSON shape of the C04 harness' mutators.
type Mop struct {
	N   string    `json:"n"`
	I   *int64    `json:"i,omitempty"`
	V   *Val      `json:"v,omitempty"`
	Vs  []Val     `json:"vs"`
	K   *int64    `json:"k,omitempty"`
	D   *Val      `json:"d,omitempty"`
	KVs []KV      `json:"kvs"`
	Kss [][]int64 `json:"kss"`
}

type COp struct {
	N    string `json:"n"` // len index contains iter iter2 compare hash print call store mutate script
	Node int    `json:"node"`
	I    int    `json:"i,omitempty"`
	A    int64  `json:"a,omitempty"`
	B    int    `json:"b,omitempty"` // second node (compare), closure slot (call)
	M    *Mop   `json:"m,omitempty"`
	Via  string `json:"via,omitempty"`
}

// Res: one transcript entry: ["nat",n] ["val",tag,x] ["bool",b] ["unit"] ["stop"] ["err"] ["str",s]
type Res []any

func i64(x int64) *int64 { return &x }
func pv(v Val) *Val      { return &v }

// genScript: allowed == nil means every object of the world is shared and frozen; otherwise
// only the objects in allowed are (those reachable from the module's globals).
func genScript(r *hx.Rand, d *graphs.Desc, in *graphs.Instance, printable map[int]bool, length int, allowed map[int]bool) []COp {
	var ops []COp
	n := len(d.Nodes)
	for tries := 0; len(ops) < length && tries < 60*length; tries++ {
		id := r.Intn(n)
		nd := d.Nodes[id]
		if in.Objs[id] == nil || (allowed != nil && !allowed[id]) {
			continue
		}
		container := nd.Kind == "list" || nd.Kind == "dict" || nd.Kind == "set" || nd.Kind == "tuple" || nd.Kind == "tslice" || nd.Kind == "tcat"
		switch r.Intn(21) {
		case 0:
			if container {
				ops = append(ops, COp{N: "len", Node: id})
			}
		case 1:
			if nd.Kind == "list" || nd.Kind == "tuple" || nd.Kind == "tslice" || nd.Kind == "tcat" {
				ops = append(ops, COp{N: "index", Node: id, I: r.Intn(len(nd.Elems) + 1)})
			}
		case 2:
			if container {
				a := int64(r.Intn(30))
				if len(nd.Elems) > 0 && r.Bool() {
					if e := nd.Elems[r.Intn(len(nd.Elems))]; !e.IsRef() {
						a = e[1]
					}
				}
				ops = append(ops, COp{N: "contains", Node: id, A: a})
			}
		case 3, 4:
			if container {
				ops = append(ops, COp{N: hx.Pick(r, []string{"iter", "iter", "elements"}), Node: id})
			}
		case 5:
			if container {
				ops = append(ops, COp{N: "iter2", Node: id})
			}
		case 6:
			if other := r.Intn(n); in.Objs[other] != nil && (allowed == nil || allowed[other]) {
				ops = append(ops, COp{N: "compare", Node: id, B: other})
			}
		case 7:
			ops = append(ops, COp{N: "hash", Node: id})
		case 8:
			if printable[id] {
				ops = append(ops, COp{N: "print", Node: id})
			}
		case 9:
			if nd.Kind == "func" {
				slots := len(nd.Captures) + len(nd.Defaults)
				ops = append(ops, COp{N: "call", Node: id, B: r.Intn(slots), I: r.Intn(3)})
			}
		case 10:
			ops = append(ops, COp{N: "store", Node: id})
		case 11, 12:
			var m *Mop
			via := "go"
			switch nd.Kind {
			case "list":
				switch r.Intn(4) {
				case 0:
					m = &Mop{N: "GoLAppend", V: pv(graphs.Atom(7))}
				case 1:
					m, via = &Mop{N: "LAppend", V: pv(graphs.Atom(7))}, "api"
				case 2:
					m, via = &Mop{N: "LClear"}, "api"
				default:
					m = &Mop{N: "GoLClear"}
				}
			case "dict":
				switch r.Intn(3) {
				case 0:
					m = &Mop{N: "GoDSetKey", K: i64(555), V: pv(graphs.Atom(7))}
				case 1:
					m, via = &Mop{N: "DClear"}, "api"
				default:
					m = &Mop{N: "GoDDelete", K: i64(10)}
				}
			case "set":
				switch r.Intn(3) {
				case 0:
					m = &Mop{N: "GoSInsert", K: i64(555)}
				case 1:
					m, via = &Mop{N: "SAdd", K: i64(555)}, "api"
				default:
					m = &Mop{N: "GoSDelete", K: i64(20)}
				}
			}
			if m != nil {
				ops = append(ops, COp{N: "mutate", Node: id, M: m, Via: via})
			}
		case 13:
			if container {
				ops = append(ops, COp{N: "script", Node: id, I: r.Intn(4)})
			}
		case 14, 15: // a value derived from the shared one, then mutated by this thread alone
			if es := graphs.DerivExprs[nd.Kind]; len(es) > 0 {
				ops = append(ops, COp{N: "derive", Node: id, I: r.Intn(len(es)), B: r.Intn(len(graphs.DerivedMuts)), Via: "mut"})
			}
		case 17, 18: // in-place mutation by Starlark statements of every form: must be rejected
			if ms := mutScripts[nd.Kind]; len(ms) > 0 {
				ops = append(ops, COp{N: "mscript", Node: id, I: r.Intn(len(ms))})
			}
		case 19, 20: // set comparisons and set algebra with another shared set / an iterable
			if nd.Kind == "set" {
				other := r.Intn(n)
				if in.Objs[other] == nil || (allowed != nil && !allowed[other]) {
					other = id
				}
				ops = append(ops, COp{N: "setop", Node: id, B: other, I: r.Intn(12)})
			}
		case 16: // read-only operators: concatenation, repetition, slicing
			if es := graphs.ReadOnlyExprs[nd.Kind]; len(es) > 0 {
				ops = append(ops, COp{N: "derive", Node: id, I: r.Intn(len(es)), A: int64(100 + r.Intn(900)), Via: "ro"})
			}
		}
	}
	return ops
}

var scriptSrc = []string{
	// for loop + comprehension + sorted
	"n = 0\nfor e in x:\n    n += 1\nys = [1 for e in x]\nz = sorted([3, 1, 2])\nout = (n, len(ys), z, len(x))\n",
	// nested loops over the same value, membership
	"c = 0\nfor a in x:\n    for b in x:\n        c += 1\nout = (c, 7 in x, list(x) == list(x))\n",
	// the shared value ends up in this module's globals: the epilogue freezes it again
	"keep = x\nalso = [x, (x,)]\nout = len(also)\n",
	// a rejected mutation: fails, with a backtrace
	"def f(v):\n    v.clear()\nout = 1\nf(x)\n",
}

// mutScripts: Starlark code that mutates v IN PLACE through every statement form and
// operand kind (augmented assignment with a list / tuple / range / dict / set / string
// iterable, item assignment, methods with non-list iterables).  On a frozen value each
// must fail.
var mutScripts = map[string][]string{
	"list": {"v += [7]", "v += (7,)", "v += range(2)", "v += {7: 1}", "v += set([7])", "v += \"ab\".elems()", "v += \"ab\".codepoints()",
		"v[0:0] = [7]" /* not supported: must fail anyway */, "v.extend((7,))", "v.extend(range(2))", "v.extend({7: 1})", "v.extend(\"ab\".elems())",
		"v.insert(0, 7)", "v.append(7)", "v.clear()", "v[len(v) - 1] = 7" /* index error on an empty list: fails too */},
	"dict": {"v[7] = 7", "v |= {7: 7}", "v.update({7: 7})", "v.update([(7, 7)])", "v.update(((7, 7),))", "v.update(k = 7)", "v.setdefault(7777, 7)", "v.clear()", "v.pop(7777, 0) if False else v.clear()"},
	"set":  {"v.add(7777)", "v.update((7777,))", "v.update(range(3))", "v.update({7777: 1})", "v.clear() if len(v) else v.add(1)", "v.discard(7777)"},
}

var fileOpts = &syntax.FileOptions{Set: true, GlobalReassign: true, TopLevelControl: true}

func valRes(in *graphs.Instance, v starlark.Value) Res {
	x, _ := in.IDOf(v)
	return Res{"val", x[0], x[1]}
}

// runOp performs one op on the shared instance with the goroutine's own thread.
func runOp(in *graphs.Instance, th *starlark.Thread, op COp) (out []Res) {
	defer func() {
		if e := recover(); e != nil {
			out = append(out, Res{"str", fmt.Sprint("PANIC: ", e)})
		}
	}()
	v := in.Objs[op.Node]
	switch op.N {
	case "len":
		return []Res{{"nat", starlark.Len(v)}}
	case "index":
		ix := v.(starlark.Indexable)
		if op.I >= ix.Len() {
			return []Res{{"err"}}
		}
		return []Res{valRes(in, ix.Index(op.I))}
	case "contains":
		b, err := starlark.Binary(syntax.IN, starlark.MakeInt64(op.A), v)
		if err != nil {
			return []Res{{"err"}}
		}
		return []Res{{"bool", bool(b.(starlark.Bool))}}
	case "iter", "iter2":
		it := starlark.Iterate(v)
		if it == nil {
			return []Res{{"err"}}
		}
		out = append(out, Res{"unit"})
		var x starlark.Value
		first := true
		for it.Next(&x) {
			out = append(out, valRes(in, x))
			if first && op.N == "iter2" {
				it2 := starlark.Iterate(v)
				out = append(out, Res{"unit"})
				var y starlark.Value
				for it2.Next(&y) {
					out = append(out, valRes(in, y))
				}
				out = append(out, Res{"stop"})
				it2.Done()
				out = append(out, Res{"unit"})
			}
			first = false
		}
		out = append(out, Res{"stop"})
		it.Done()
		out = append(out, Res{"unit"})
		return out
	case "elements":
		// the go1.23 push iterators of iter.go (Elements, Entries)
		out = append(out, Res{"unit"})
		if d, ok := v.(*starlark.Dict); ok {
			for k := range starlark.Entries(d) {
				out = append(out, valRes(in, k))
			}
		} else {
			for x := range starlark.Elements(v.(starlark.Iterable)) {
				out = append(out, valRes(in, x))
			}
		}
		return append(out, Res{"stop"}, Res{"unit"})
	case "mscript":
		src := "def f(v):\n    " + mutScripts[in.D.Nodes[op.Node].Kind][op.I] + "\nf(x)\n"
		_, err := starlark.ExecFileOptions(fileOpts, th, "mut.star", src, starlark.StringDict{"x": v})
		if err != nil {
			return []Res{{"err"}}
		}
		return []Res{{"unit"}}
	case "setop":
		exprs := []string{"x <= y", "x < y", "x >= y", "x > y", "x == y", "x.issubset(y)", "x.issuperset(y)", "x.issubset(list(y))",
			"len(x.union(y))", "len(x.intersection(y))", "len(x.difference(y))", "len(x.symmetric_difference(y))"}
		y := in.Objs[op.B]
		if _, ok := y.(*starlark.Set); !ok {
			y = v
		}
		r, err := starlark.EvalOptions(graphs.EvalOpts, th, "setop", exprs[op.I], starlark.StringDict{"x": v, "y": y})
		if err != nil {
			return []Res{{"str", "setop-err"}}
		}
		return []Res{{"str", r.String()}}
	case "derive":
		kind := in.D.Nodes[op.Node].Kind
		var d starlark.Value
		if op.Via == "ro" {
			d = graphs.Derive(th, graphs.ReadOnlyExprs[kind][op.I], v, op.A)
		} else {
			d = graphs.Derive(th, graphs.DerivExprs[kind][op.I], v, 0)
			switch d.(type) {
			case *starlark.List, *starlark.Dict, *starlark.Set:
				graphs.DerivedMuts[op.B].F(th, d)
			}
		}
		if d == nil {
			return []Res{{"str", "derive-err"}}
		}
		// what the thread sees of its own derived value afterwards (element-wise, no printing of cycles)
		out = append(out, Res{"str", fmt.Sprint(d.Type(), starlark.Len(d))})
		if it := starlark.Iterate(d); it != nil {
			var x starlark.Value
			for n := 0; n < 6 && it.Next(&x); n++ {
				if i, ok := x.(starlark.Int); ok {
					out = append(out, Res{"str", i.String()})
				} else {
					out = append(out, valRes(in, x))
				}
			}
			it.Done()
		}
		return out
	case "compare":
		eq, err := starlark.Equal(v, in.Objs[op.B])
		if err != nil {
			return []Res{{"str", "cmp-err"}}
		}
		return []Res{{"str", fmt.Sprint("eq=", eq)}}
	case "hash":
		h, err := v.Hash()
		if err != nil {
			return []Res{{"str", "unhashable"}}
		}
		return []Res{{"str", fmt.Sprint("hash=", h)}}
	case "print":
		return []Res{{"str", v.String()}}
	case "call":
		name := []string{"index", "get", "append"}[op.I]
		r, err := starlark.Call(th, v, starlark.Tuple{starlark.MakeInt(op.B), starlark.String(name), starlark.Tuple{starlark.MakeInt(1)}, starlark.None}, in.D.Nodes[op.Node].Kwargs())
		if err != nil {
			s := err.Error()
			if ee, ok := err.(*starlark.EvalError); ok {
				s = ee.Backtrace()
			}
			return []Res{{"str", "call-err: " + s}}
		}
		return []Res{{"str", "call-ok: " + r.Type()}}
	case "store":
		// the value becomes a global of a module of this thread; its epilogue freezes it again
		g, err := starlark.ExecFileOptions(fileOpts, th, "store.star", "keep = x\n", starlark.StringDict{"x": v})
		if err != nil || g["keep"] == nil {
			return []Res{{"err"}}
		}
		v.Freeze()
		return []Res{{"unit"}}
	case "mutate":
		var err error
		m := op.M
		if op.Via == "api" {
			name := map[string]string{"LAppend": "append", "LClear": "clear", "DClear": "clear", "SAdd": "add"}[m.N]
			var args starlark.Tuple
			if m.V != nil {
				args = starlark.Tuple{in.Value(*m.V)}
			}
			if m.N == "SAdd" {
				args = starlark.Tuple{starlark.MakeInt64(*m.K)}
			}
			attr, _ := v.(starlark.HasAttrs).Attr(name)
			_, err = starlark.Call(th, attr, args, nil)
		} else {
			err = fmt.Errorf("harness: %s does not apply to %s", m.N, v.Type())
			switch x := v.(type) {
			case *starlark.List:
				switch m.N {
				case "GoLAppend":
					err = x.Append(in.Value(*m.V))
				case "GoLClear":
					err = x.Clear()
				}
			case *starlark.Dict:
				switch m.N {
				case "GoDSetKey":
					err = x.SetKey(starlark.MakeInt64(*m.K), in.Value(*m.V))
				case "GoDDelete":
					_, _, err = x.Delete(starlark.MakeInt64(*m.K))
				case "GoDClear":
					err = x.Clear()
				}
			case *starlark.Set:
				switch m.N {
				case "GoSInsert":
					err = x.Insert(starlark.MakeInt64(*m.K))
				case "GoSDelete":
					_, err = x.Delete(starlark.MakeInt64(*m.K))
				case "GoSClear":
					err = x.Clear()
				}
			}
		}
		if err != nil {
			return []Res{{"err"}}
		}
		return []Res{{"unit"}}
	case "script":
		g, err := starlark.ExecFileOptions(fileOpts, th, "script.star", scriptSrc[op.I], starlark.StringDict{"x": v})
		s := ""
		if o := g["out"]; o != nil {
			s = o.String()
		}
		if err != nil {
			if ee, ok := err.(*starlark.EvalError); ok {
				s += " / " + ee.Backtrace()
			} else {
				s += " / " + err.Error()
			}
		}
		return []Res{{"str", s}}
	}
	return []Res{{"str", "unknown op"}}
}

func runScript(in *graphs.Instance, ops []COp, name string) [][]Res {
	th := &starlark.Thread{Name: name}
	out := make([][]Res, len(ops))
	for i, op := range ops {
		out[i] = runOp(in, th, op)
	}
	return out
}

func sameJSON(a, b any) bool {
	x, _ := json.Marshal(a)
	y, _ := json.Marshal(b)
	return bytes.Equal(x, y)
}

// together runs f(0..n-1) on n goroutines released at the same moment.
func together(n int, f func(i int)) {
	start := make(chan struct{})
	var wg sync.WaitGroup
	for i := 0; i < n; i++ {
		wg.Add(1)
		go func(i int) {
			defer wg.Done()
			<-start
			f(i)
		}(i)
	}
	close(start)
	wg.Wait()
}

// ------------------------------------------------------------------- scenarios

type Out struct {
	Kind     string         `json:"kind"`
	Scenario string         `json:"scenario"`
	Seed     uint64         `json:"seed"`
	N        int            `json:"n"`
	Round    int            `json:"round"`
	Src      string         `json:"src,omitempty"`
	Desc     *graphs.Desc   `json:"desc,omitempty"`
	Scripts  [][]COp        `json:"scripts,omitempty"`
	Solo     [][][]Res      `json:"solo,omitempty"`
	Same     bool           `json:"same"`
	Diff     string         `json:"diff,omitempty"`
	Accepted []string       `json:"accepted,omitempty"` // mutators of frozen values that returned no error
	Changed  string         `json:"changed,omitempty"`  // a shared frozen value is not what it was before the threads ran
	Ops      int            `json:"ops"`
	Dist     map[string]int `json:"dist,omitempty"`
	Extra    map[string]any `json:"extra,omitempty"`
}

func scenarioValues(seed uint64, n, rounds, scriptLen int, full bool) {
	for round := 0; round < rounds; round++ {
		r := hx.NewRand(seed*7919 + uint64(round)*31 + uint64(n))
		d := graphs.GenWith(r, true)
		var allowed map[int]bool
		if round == 0 {
			d = graphs.Corner()
			allowed = d.Reach() // some of its values are operands only and stay private
		} else if round%3 == 2 {
			// a module as C04 generates them: only what is reachable from its globals (through whatever
			// edge: dict keys, closures, receivers, defaults ...) is shared; threads touch nothing else
			d = graphs.Gen(r)
			allowed = d.Reach()
		}
		src := d.Source()
		in := graphs.Instantiate(d, src)
		o := Out{Kind: "round", Scenario: "values", Seed: seed, N: n, Round: round, Src: src, Dist: map[string]int{}}
		if in.Err != nil && !(allowed != nil && strings.Contains(in.Err.Error(), "planted failure")) {
			o.Diff = "generator: module failed: " + in.Err.Error()
			hx.Emit(o)
			continue
		}
		// printing a value that reaches a struct on a cycle does not terminate (another property)
		printable := map[int]bool{}
		for id := range d.Nodes {
			ok := true
			seen := map[int]bool{}
			var visit func(x int)
			visit = func(x int) {
				if seen[x] {
					return
				}
				seen[x] = true
				nd := d.Nodes[x]
				if nd.Kind == "struct" || nd.Kind == "ssum" || nd.Kind == "func" || nd.Kind == "bound" {
					ok = false
				}
				for _, e := range nd.Elems {
					if e.IsRef() {
						visit(int(e[1]))
					}
				}
			}
			visit(id)
			printable[id] = ok
		}
		scripts := make([][]COp, n)
		for t := 0; t < n; t++ {
			scripts[t] = genScript(r, d, in, printable, scriptLen, allowed)
			for _, op := range scripts[t] {
				o.Dist[op.N]++
				o.Ops++
			}
		}
		world0 := stateOf(in)
		worldChanged := func(when string) {
			if o.Changed != "" {
				return
			}
			for _, w := range diffStates(world0, stateOf(in)) {
				if w.Field != 0 { // (re-)freezing only sets flags that were set
					o.Changed = fmt.Sprintf("%s: %s node %d: field %d (0 flag, 1 itercount, 2 contents / memory)", when, d.Nodes[w.Node].Kind, w.Node, w.Field)
					return
				}
			}
		}
		// alone, one after the other
		solo := make([][][]Res, n)
		for t := 0; t < n; t++ {
			solo[t] = runScript(in, scripts[t], fmt.Sprint("solo", t))
		}
		worldChanged("after the threads' scripts ran one after the other")
		// all at once
		conc := make([][][]Res, n)
		together(n, func(t int) { conc[t] = runScript(in, scripts[t], fmt.Sprint("conc", t)) })
		worldChanged("after the threads ran concurrently")
		o.Same = true
		for t := 0; t < n; t++ {
			for i := range scripts[t] {
				if !sameJSON(solo[t][i], conc[t][i]) && o.Same {
					o.Same = false
					a, _ := json.Marshal(solo[t][i])
					b, _ := json.Marshal(conc[t][i])
					oj, _ := json.Marshal(scripts[t][i])
					o.Diff = fmt.Sprintf("thread %d op %d %s: alone %s, concurrently %s", t, i, oj, a, b)
				}
				if (scripts[t][i].N == "mutate" || scripts[t][i].N == "mscript") && len(solo[t][i]) == 1 && solo[t][i][0][0] == "unit" {
					oj, _ := json.Marshal(scripts[t][i])
					if scripts[t][i].N == "mscript" {
						k := d.Nodes[scripts[t][i].Node].Kind
						oj = []byte("mscript " + k + ": " + mutScripts[k][scripts[t][i].I])
					}
					o.Accepted = append(o.Accepted, string(oj))
				}
			}
		}
		if full || round < 2 {
			o.Desc, o.Scripts, o.Solo = d, scripts, solo
		}
		hx.Emit(o)
		hx.Flush()
	}
}

const positionSrc = `
def bad_div(x):
    y = x + 1
    return y // 0

def bad_index(l):
    t = [e for e in l]
    return t[
        len(t) + 3
    ]

def deep(n):
    if n == 0:
        return bad_div(n)
    return deep_helper(n)

def deep_helper(n):
    return (
        deep(n - 1)
    )

def bad_attr(v):
    return v.nosuch

def bad_mut(v):
    v.append(1)

shared_list = [1, 2, 3]
`

func backtrace(err error) string {
	if err == nil {
		return "no error"
	}
	if ee, ok := err.(*starlark.EvalError); ok {
		return ee.Backtrace()
	}
	return err.Error()
}

var posOpts = &syntax.FileOptions{Set: true, Recursion: true, GlobalReassign: true, TopLevelControl: true}

func positionCalls(g starlark.StringDict, th *starlark.Thread, r *hx.Rand, k int) []string {
	var out []string
	names := []string{"bad_div", "bad_index", "deep", "bad_attr", "bad_mut"}
	for i := 0; i < k; i++ {
		name := names[r.Intn(len(names))]
		var arg starlark.Value = starlark.MakeInt(3)
		if name == "bad_index" || name == "bad_attr" || name == "bad_mut" {
			arg = g["shared_list"]
		}
		_, err := starlark.Call(th, g[name], starlark.Tuple{arg}, nil)
		out = append(out, name+": "+backtrace(err))
	}
	return out
}

func scenarioPosition(seed uint64, n, rounds int) {
	for round := 0; round < rounds; round++ {
		o := Out{Kind: "round", Scenario: "position", Seed: seed, N: n, Round: round, Src: positionSrc}
		mk := func() starlark.StringDict {
			g, err := starlark.ExecFileOptions(posOpts, &starlark.Thread{Name: "load"}, "pos.star", positionSrc, nil)
			if err != nil {
				panic(err)
			}
			return g
		}
		// concurrently FIRST, on a program none of whose line tables has been decoded
		g := mk()
		conc := make([][]string, n)
		together(n, func(t int) {
			conc[t] = positionCalls(g, &starlark.Thread{Name: fmt.Sprint("conc", t)}, hx.NewRand(seed+uint64(round*1000+t)), 4)
		})
		// alone, each on a fresh instance of the same program text
		o.Same = true
		for t := 0; t < n; t++ {
			solo := positionCalls(mk(), &starlark.Thread{Name: fmt.Sprint("solo", t)}, hx.NewRand(seed+uint64(round*1000+t)), 4)
			o.Ops += len(solo)
			if !sameJSON(solo, conc[t]) && o.Same {
				o.Same = false
				o.Diff = fmt.Sprintf("thread %d: alone %q, concurrently %q", t, solo, conc[t])
			}
		}
		hx.Emit(o)
		hx.Flush()
	}
}

const initSrcOK = `
def helper(n):
    return [i * i for i in range(n)]

table = {k: helper(k) for k in range(4)}
names = sorted(["b", "a", "c"])
total = 0
for k in table:
    total += len(table[k])
pre = len(shared) + shared[0]
`

const initSrcFail = `
def helper(n):
    return [i * i for i in range(n)]

squares = helper(5)
first = shared[0]

def fail(v):
    return v[
        10
    ]

boom = fail(squares)
after = 1
`

func globalsString(g starlark.StringDict) string {
	keys := g.Keys()
	sort.Strings(keys)
	var b strings.Builder
	for _, k := range keys {
		fmt.Fprintf(&b, "%s=%s;", k, g[k].String())
	}
	return b.String()
}

func scenarioProgInit(seed uint64, n, rounds int) {
	shared := starlark.NewList([]starlark.Value{starlark.MakeInt(5), starlark.MakeInt(6)})
	shared.Freeze()
	pre := starlark.StringDict{"shared": shared, "struct": starlark.NewBuiltin("struct", starlarkstruct.Make)}
	for round := 0; round < rounds; round++ {
		src := initSrcOK
		if round%2 == 1 {
			src = initSrcFail
		}
		o := Out{Kind: "round", Scenario: "proginit", Seed: seed, N: n, Round: round, Src: src}
		compile := func() *starlark.Program {
			_, prog, err := starlark.SourceProgramOptions(posOpts, "init.star", src, pre.Has)
			if err != nil {
				panic(err)
			}
			return prog
		}
		one := func(prog *starlark.Program, name string) string {
			th := &starlark.Thread{Name: name}
			g, err := prog.Init(th, pre)
			g.Freeze()
			s := globalsString(g) + " / " + backtrace(err)
			// the functions of the new module share the Program's Funcodes
			if h := g["helper"]; h != nil {
				_, err := starlark.Call(th, h, starlark.Tuple{starlark.String("x")}, nil)
				s += " / " + backtrace(err)
			}
			return s
		}
		prog := compile()
		conc := make([]string, n)
		together(n, func(t int) { conc[t] = one(prog, fmt.Sprint("conc", t)) })
		solo := one(compile(), "solo")
		o.Same = true
		o.Ops = n
		for t := 0; t < n; t++ {
			if conc[t] != solo && o.Same {
				o.Same = false
				o.Diff = fmt.Sprintf("thread %d: alone %q, concurrently %q", t, solo, conc[t])
			}
		}
		hx.Emit(o)
		hx.Flush()
	}
}

// ---------------------------------------------------------------------- encode
//
// The encoders of the shared-use repertoire (json.encode, json.encode_indent,
// json.decode of the encoding, str, repr) applied by N goroutines at the same
// moment to the same frozen values -- values that carry STRINGS (keys, elements,
// struct fields: printable ASCII with quotes and backslashes, empty to long),
// which the integer-atom worlds of the other scenarios do not have.

func encodeModule(r *hx.Rand) string {
	var b strings.Builder
	b.WriteString("strs = [\n")
	for i := 0; i < 14; i++ {
		n := []int{0, 1, 3, 8, 20, 60, 100, 126, 140}[r.Intn(9)]
		bs := make([]byte, n)
		for j := range bs {
			bs[j] = byte(0x20 + r.Intn(0x5f))
		}
		fmt.Fprintf(&b, "    %s,\n", strconv.Quote(string(bs)+fmt.Sprint("#", i)))
	}
	b.WriteString("]\n")
	b.WriteString("table = {s: [s, i, {\"k\": s, s: i}] for i, s in enumerate(strs)}\n")
	b.WriteString("record = struct(name = strs[0], items = strs, nested = table, pair = (strs[1], strs[2]))\n")
	b.WriteString("mixed = (strs[3], 2.5, None, True, [strs[4], {strs[5]: strs[6]}], 1 << 70)\n")
	return b.String()
}

func encodeTranscript(g starlark.StringDict, th *starlark.Thread, iters int) []string {
	enc, ind, dec := sjson.Module.Members["encode"], sjson.Module.Members["encode_indent"], sjson.Module.Members["decode"]
	var out []string
	for it := 0; it < iters; it++ {
		for _, name := range []string{"strs", "table", "record", "mixed"} {
			v := g[name]
			e, err := starlark.Call(th, enc, starlark.Tuple{v}, nil)
			if err != nil {
				out = append(out, name+" encode: "+err.Error())
				continue
			}
			out = append(out, string(e.(starlark.String)))
			if i, err := starlark.Call(th, ind, starlark.Tuple{v}, nil); err == nil {
				out = append(out, string(i.(starlark.String)))
			}
			if name != "record" {
				if d, err := starlark.Call(th, dec, starlark.Tuple{e}, nil); err == nil {
					out = append(out, d.String())
				} else {
					out = append(out, name+" decode: "+err.Error())
				}
			}
			out = append(out, v.String())
		}
	}
	return out
}

func scenarioEncode(seed uint64, n, rounds int) {
	for round := 0; round < rounds; round++ {
		src := encodeModule(hx.NewRand(seed*31337 + uint64(round)))
		o := Out{Kind: "round", Scenario: "encode", Seed: seed, N: n, Round: round, Src: src}
		pre := starlark.StringDict{"struct": starlark.NewBuiltin("struct", starlarkstruct.Make)}
		g, err := starlark.ExecFileOptions(posOpts, &starlark.Thread{Name: "load"}, "enc.star", src, pre)
		if err != nil {
			o.Diff = "generator: module failed: " + err.Error()
			hx.Emit(o)
			continue
		}
		solo := encodeTranscript(g, &starlark.Thread{Name: "solo"}, 6)
		conc := make([][]string, n)
		together(n, func(t int) { conc[t] = encodeTranscript(g, &starlark.Thread{Name: fmt.Sprint("conc", t)}, 6) })
		o.Same = true
		o.Ops = n * len(solo)
		for t := 0; t < n && o.Same; t++ {
			for i := range solo {
				if i >= len(conc[t]) || conc[t][i] != solo[i] {
					o.Same = false
					got := "<missing>"
					if i < len(conc[t]) {
						got = conc[t][i]
					}
					o.Diff = fmt.Sprintf("thread %d output %d: alone %q, concurrently %q", t, i, solo[i], got)
					break
				}
			}
		}
		hx.Emit(o)
		hx.Flush()
	}
}

// --------------------------------------------------------------------- factory
//
// Worlds made by several module executions (graphs.MultiModules): the closure kept
// in the last module's global, and the value it captures, are shared by N threads
// that all call it with a mutating argument at the same moment.  The captured value
// must be frozen (hook), every call must be rejected, nothing may change.

func scenarioFactory(seed uint64, n, rounds int) {
	for round := 0; round < rounds; round++ {
		for _, f := range graphs.MultiModules() {
			m := f()
			o := Out{Kind: "round", Scenario: "factory", Seed: seed, N: n, Round: round, Src: strings.Join(m.Srcs, "\n"), Same: true}
			if m.Err != "" {
				o.Diff = "generator: " + m.Name + ": " + m.Err
				hx.Emit(o)
				continue
			}
			if fr, ok := starlark.VerifFrozen(m.Target); ok && !fr {
				o.Accepted = append(o.Accepted, "factory "+m.Name+": the captured "+m.Target.Type()+" is reachable from a finished module's global but its frozen flag is not set")
			}
			before := m.Target.String()
			accepted := make([]bool, n)
			together(n, func(t int) { accepted[t] = m.Call(&starlark.Thread{Name: fmt.Sprint("conc", t)}) == nil })
			o.Ops = n
			for t := range accepted {
				if accepted[t] {
					o.Accepted = append(o.Accepted, fmt.Sprintf("factory %s: thread %d mutated the captured value through the shared closure", m.Name, t))
					break
				}
			}
			if after := m.Target.String(); after != before {
				o.Changed = fmt.Sprintf("factory %s: captured value node was %s, is %s", m.Name, before, after)
			}
			hx.Emit(o)
		}
		hx.Flush()
	}
}

// ------------------------------------------------------------------ footprints
//
// Sequential, deterministic: what does each operation of the repertoire WRITE?
// Observed through the verif hooks (frozen flag, itercount) and the contents of
// every described object before and after the operation, on graphs that contain
// frozen objects (reachable from the globals) and unfrozen ones (host values and
// locals the module does not keep).  Compared with the write footprints of
// C05.Model; a write to an object whose flag was set is a violation by itself.

type objState struct {
	frozen   int // -1: no flag
	iter     int // -1: no counter
	contents []Val
	hdr      []byte // the bytes of the Go object itself (verif hook), nil if not available
	froff    int
	itoff    int
}

func stateOf(in *graphs.Instance) []objState { return stateOfNodes(in, -1) }

// stateOfNodes: the state of node `only` alone (the others left blank), or of all nodes if only < 0.
func stateOfNodes(in *graphs.Instance, only int) []objState {
	out := make([]objState, len(in.Objs))
	for id, v := range in.Objs {
		if only >= 0 && id != only {
			out[id] = objState{frozen: -1, iter: -1}
			continue
		}
		st := objState{frozen: -1, iter: -1}
		if v != nil {
			if f, ok := starlark.VerifFrozen(v); ok {
				st.frozen = b2i(f)
			} else if s, ok := v.(*starlarkstruct.Struct); ok {
				st.frozen = b2i(starlarkstruct.VerifFrozen(s))
			}
			if bx, ok := v.(*graphs.Box); ok {
				st.frozen = b2i(bx.Frozen())
			}
			if _, ok := v.(starlark.Tuple); ok {
				st.frozen = 1 // immutable from birth: its array (up to its capacity) must never change
			}
			if n, ok := starlark.VerifIterCount(v); ok {
				st.iter = int(n)
			}
			if b, fo, io, ok := starlark.VerifHeader(v); ok {
				st.hdr, st.froff, st.itoff = b, fo, io
			} else if s, ok := v.(*starlarkstruct.Struct); ok {
				st.hdr, st.froff = starlarkstruct.VerifHeader(s)
				st.itoff = -1
			}
			st.contents = in.Contents(id)
		}
		out[id] = st
	}
	return out
}

func b2i(b bool) int {
	if b {
		return 1
	}
	return 0
}

type Write struct {
	Node   int  `json:"node"`
	Field  int  `json:"field"`  // 0 frozen flag, 1 itercount, 2 contents
	Frozen bool `json:"frozen"` // the object's flag was set before the operation
}

func diffStates(a, b []objState) []Write {
	ws := []Write{}
	for id := range a {
		fr := a[id].frozen == 1
		if a[id].frozen != b[id].frozen {
			ws = append(ws, Write{id, 0, fr})
		}
		if a[id].iter != b[id].iter {
			ws = append(ws, Write{id, 1, fr})
		}
		if !graphs.EqVals(a[id].contents, b[id].contents) {
			ws = append(ws, Write{id, 2, fr})
		} else if fr && a[id].hdr != nil && len(a[id].hdr) != len(b[id].hdr) {
			ws = append(ws, Write{id, 2, fr}) // memory was allocated for a frozen object
		} else if fr && a[id].hdr != nil {
			// a frozen object: not one byte of the Go object may change
			for k := range a[id].hdr {
				if a[id].hdr[k] != b[id].hdr[k] && k != a[id].froff && !(a[id].itoff >= 0 && k >= a[id].itoff && k < a[id].itoff+4) {
					ws = append(ws, Write{id, 2, fr})
					break
				}
			}
		}
	}
	return ws
}

// FStep: one primitive step (a constructor of C05.Footprint.op) and what it wrote.
type FStep struct {
	Op     string  `json:"op"` // len index contains begin next done compare hash print call store mutate
	Node   int     `json:"node"`
	I      int     `json:"i,omitempty"`
	A      int64   `json:"a,omitempty"`
	B      int     `json:"b,omitempty"`
	M      *Mop    `json:"m,omitempty"`
	Writes []Write `json:"writes"`
}

type FSeq struct {
	Steps []FStep `json:"steps"`
}

type FOut struct {
	Kind      string       `json:"kind"`
	Seed      uint64       `json:"seed"`
	Round     int          `json:"round"`
	Desc      *graphs.Desc `json:"desc"`
	Src       string       `json:"src"`
	Seqs      []FSeq       `json:"seqs"`
	Position  string       `json:"position,omitempty"`   // a problem with the lazily decoded line table
	NotFrozen []int        `json:"not_frozen,omitempty"` // reachable from the module's globals, has a frozen flag, and it is not set
	Derived   []FDerived   `json:"derived,omitempty"`    // derived-value operations that wrote to the value they were computed from
	NDerived  int          `json:"nderived"`
	Steps     int          `json:"steps"`
}

// FDerived: computing a value from node (and, for Mut != "", mutating the derived value) wrote to node.
type FDerived struct {
	Node   int     `json:"node"`
	How    string  `json:"how"`
	Mut    string  `json:"mut,omitempty"`
	Writes []Write `json:"writes"`
}

func scenarioFootprints(seed uint64, rounds int) {
	for round := 0; round < rounds; round++ {
		r := hx.NewRand(seed*104729 + uint64(round))
		d := graphs.Gen(r)
		if round == 0 {
			d = graphs.Corner()
		}
		src := d.Source()
		o := FOut{Kind: "fp", Seed: seed, Round: round, Desc: d, Src: src}
		probe := graphs.Instantiate(d, src)
		for id, st := range stateOf(probe) {
			if d.Reach()[id] && st.frozen == 0 {
				o.NotFrozen = append(o.NotFrozen, id)
			}
		}
		printable := map[int]bool{}
		// sequences obtained EARLY: while the module was still running and the value was mutable
		early := func(seqs map[int]func(func())) func(int, starlark.Value) {
			return func(id int, v starlark.Value) {
				switch x := v.(type) {
				case *starlark.Dict:
					sq := starlark.Entries(x)
					seqs[id] = func(body func()) {
						for range sq {
							body()
						}
					}
				case starlark.Iterable:
					if _, isStr := v.(starlark.String); !isStr {
						sq := starlark.Elements(x)
						seqs[id] = func(body func()) {
							for range sq {
								body()
							}
						}
					}
				}
			}
		}
		for id := range d.Nodes {
			printable[id] = true
		}
		for id := range d.Nodes { // str() of a value that reaches a struct, function or method may not terminate on cycles
			seen := map[int]bool{}
			var visit func(x int)
			visit = func(x int) {
				if seen[x] {
					return
				}
				seen[x] = true
				nd := d.Nodes[x]
				if nd.Kind == "struct" || nd.Kind == "ssum" || nd.Kind == "func" || nd.Kind == "bound" {
					printable[id] = false
				}
				for _, e := range nd.Elems {
					if e.IsRef() {
						visit(int(e[1]))
					}
				}
			}
			visit(id)
		}
		for id, nd := range d.Nodes {
			if probe.Objs[id] == nil {
				continue
			}
			container := nd.Kind == "list" || nd.Kind == "dict" || nd.Kind == "set" || nd.Kind == "tuple" || nd.Kind == "tslice" || nd.Kind == "tcat"
			var plans [][]FStep
			if container {
				plans = append(plans,
					[]FStep{{Op: "len", Node: id}, {Op: "contains", Node: id, A: int64(r.Intn(30))}},
					[]FStep{{Op: "begin", Node: id}, {Op: "next"}, {Op: "begin", Node: id}, {Op: "next"}, {Op: "done"}, {Op: "next"}, {Op: "done"}},
					[]FStep{{Op: "begin", Node: id}, {Op: "done"}, {Op: "store", Node: id}, {Op: "begin", Node: id}, {Op: "done"}})
			}
			if nd.Kind == "list" || nd.Kind == "tuple" || nd.Kind == "tslice" || nd.Kind == "tcat" {
				plans = append(plans, []FStep{{Op: "index", Node: id, I: r.Intn(len(nd.Elems) + 1)}})
			}
			if container && starlark.Len(probe.Objs[id]) > 0 {
				// the go1.23 push iterators: state observed INSIDE the range loop, and after it
				plans = append(plans, []FStep{{Op: "ebegin", Node: id}, {Op: "edone", Node: id}})
				// ... and the same for a sequence that was obtained before the value was frozen
				plans = append(plans, []FStep{{Op: "ebegin", Node: id, I: 1}, {Op: "edone", Node: id}})
			}
			other := r.Intn(len(d.Nodes))
			if probe.Objs[other] != nil {
				plans = append(plans, []FStep{{Op: "compare", Node: id, B: other}, {Op: "hash", Node: id}})
			}
			if printable[id] {
				plans = append(plans, []FStep{{Op: "print", Node: id}})
			}
			if nd.Kind == "func" {
				plans = append(plans, []FStep{{Op: "call", Node: id}, {Op: "store", Node: id}, {Op: "call", Node: id}})
			}
			plans = append(plans, []FStep{{Op: "store", Node: id}, {Op: "store", Node: id}})
			var ms []*Mop
			switch nd.Kind {
			case "list":
				ms = []*Mop{{N: "GoLAppend", V: pv(graphs.Atom(7))}, {N: "GoLClear"}}
			case "dict":
				ms = []*Mop{{N: "GoDSetKey", K: i64(555), V: pv(graphs.Atom(7))}, {N: "GoDDelete", K: i64(10)}, {N: "GoDClear"}}
			case "set":
				ms = []*Mop{{N: "GoSInsert", K: i64(555)}, {N: "GoSDelete", K: i64(20)}, {N: "GoSClear"}}
			}
			for _, m := range ms {
				plans = append(plans, []FStep{{Op: "mutate", Node: id, M: m}, {Op: "begin", Node: id}, {Op: "mutate", Node: id, M: m}, {Op: "done"}})
			}
			for _, plan := range plans {
				seqs := map[int]func(func()){}
				in := graphs.InstantiateWith(d, src, early(seqs))
				th := &starlark.Thread{Name: "fp"}
				var its []starlark.Iterator
				seq := FSeq{}
				if plan[0].Op == "ebegin" {
					v := in.Objs[plan[0].Node]
					before := stateOf(in)
					var mid []objState
					if sq := seqs[plan[0].Node]; plan[0].I == 1 && sq != nil {
						sq(func() {
							if mid == nil {
								mid = stateOf(in)
							}
						})
					} else if d, ok := v.(*starlark.Dict); ok {
						for range starlark.Entries(d) {
							if mid == nil {
								mid = stateOf(in)
							}
						}
					} else {
						for range starlark.Elements(v.(starlark.Iterable)) {
							if mid == nil {
								mid = stateOf(in)
							}
						}
					}
					if mid != nil {
						plan[0].Writes = diffStates(before, mid)
						plan[1].Writes = diffStates(mid, stateOf(in))
						seq.Steps = append(seq.Steps, plan[0], plan[1])
						o.Steps += 2
						o.Seqs = append(o.Seqs, seq)
					}
					continue
				}
				for _, st := range plan {
					before := stateOf(in)
					var v starlark.Value
					if st.Op != "next" && st.Op != "done" {
						v = in.Objs[st.Node]
					}
					switch st.Op {
					case "begin":
						if it := starlark.Iterate(v); it != nil {
							its = append(its, it)
						}
					case "next":
						if len(its) > 0 {
							var x starlark.Value
							its[len(its)-1].Next(&x)
						}
					case "done":
						if len(its) > 0 {
							its[len(its)-1].Done()
							its = its[:len(its)-1]
						}
					case "call":
						runOp(in, th, COp{N: "call", Node: st.Node, B: 0, I: 0})
					case "mutate":
						runOp(in, th, COp{N: "mutate", Node: st.Node, M: st.M, Via: "go"})
					default:
						runOp(in, th, COp{N: st.Op, Node: st.Node, I: st.I, A: st.A, B: st.B})
					}
					st.Writes = diffStates(before, stateOf(in))
					seq.Steps = append(seq.Steps, st)
					o.Steps++
				}
				o.Seqs = append(o.Seqs, seq)
			}
		}
		// derived values: x*1, x+[], x[:], sorted(x), x.items(), t+(k,) ... computed from every value
		// and mutated in every way; the original must be untouched, content and raw bytes
		{
			in := graphs.Instantiate(d, src)
			th := &starlark.Thread{Name: "derive"}
			for id, nd := range d.Nodes {
				v := in.Objs[id]
				if v == nil {
					continue
				}
				try := func(how, mut string, f func()) {
					// a write into shared memory shows in the value itself: its raw bytes cover its whole array
					before := stateOfNodes(in, id)
					func() {
						defer func() { recover() }()
						f()
					}()
					o.NDerived++
					if ws := diffStates(before, stateOfNodes(in, id)); len(ws) > 0 {
						o.Derived = append(o.Derived, FDerived{Node: id, How: how, Mut: mut, Writes: ws})
					}
				}
				for _, e := range graphs.ReadOnlyExprs[nd.Kind] {
					e := e
					try(e, "", func() {
						a := graphs.Derive(th, e, v, 7)
						b := graphs.Derive(th, e, v, 8) // a second result must not share memory with the first
						_, _ = a, b
					})
				}
				for _, e := range graphs.DerivExprs[nd.Kind] {
					for _, m := range graphs.DerivedMuts {
						e, m := e, m
						try(e, m.Name, func() {
							dv := graphs.Derive(th, e, v, 0)
							switch dv.(type) {
							case *starlark.List, *starlark.Dict, *starlark.Set:
								m.F(th, dv)
							}
						})
					}
				}
			}
		}
		// observed from INSIDE: operations that consume another iterable, or call back a key
		// function, while they work on a frozen value -- the value's state is read in the
		// middle of the operation (a counter bumped and restored is invisible afterwards)
		{
			in := graphs.Instantiate(d, src)
			th := &starlark.Thread{Name: "spy"}
			iterMethods := map[string][]string{
				"set":  {"issubset", "issuperset", "union", "intersection", "difference", "symmetric_difference", "update"},
				"list": {"extend"},
				"dict": {"update"},
			}
			for id, nd := range d.Nodes {
				v := in.Objs[id]
				if v == nil {
					continue
				}
				before := stateOfNodes(in, id)
				if before[id].frozen != 1 {
					continue // only frozen values: nothing at all may be written
				}
				watch := func(how string, run func(peek func())) {
					var ws []Write
					peek := func() {
						if ws == nil {
							ws = diffStates(before, stateOfNodes(in, id))
						}
					}
					func() {
						defer func() { recover() }()
						run(peek)
					}()
					ws = append(ws, diffStates(before, stateOfNodes(in, id))...)
					o.NDerived++
					if len(ws) > 0 {
						o.Derived = append(o.Derived, FDerived{Node: id, How: how, Mut: "(state read from inside the operation)", Writes: ws})
					}
				}
				for _, m := range iterMethods[nd.Kind] {
					m := m
					watch("x."+m+"(<host iterable>)", func(peek func()) {
						attr, _ := v.(starlark.HasAttrs).Attr(m)
						spy := &graphs.Spy{Vals: []starlark.Value{starlark.MakeInt(20), starlark.MakeInt(5 + 4096), starlark.MakeInt(7)}, OnNext: peek}
						starlark.Call(th, attr, starlark.Tuple{spy}, nil)
					})
				}
				if _, ok := v.(starlark.Iterable); ok && starlark.Len(v) > 0 {
					key := starlark.NewBuiltin("peek", func(_ *starlark.Thread, b *starlark.Builtin, _ starlark.Tuple, _ []starlark.Tuple) (starlark.Value, error) {
						return starlark.MakeInt(0), nil
					})
					for _, fn := range []string{"sorted", "max", "min"} {
						fn := fn
						watch(fn+"(x, key=<host function>)", func(peek func()) {
							k := starlark.NewBuiltin("peek", func(_ *starlark.Thread, _ *starlark.Builtin, _ starlark.Tuple, _ []starlark.Tuple) (starlark.Value, error) {
								peek()
								return starlark.MakeInt(0), nil
							})
							starlark.Call(th, starlark.Universe[fn], starlark.Tuple{v}, []starlark.Tuple{{starlark.String("key"), k}})
						})
					}
					_ = key
					for _, e := range []string{"[peek(e) for e in x]", "{peek(e): 0 for e in x}", "any([peek(e) for e in x])", "list(zip(x, spy))", "[a for a in enumerate(spy)] + [peek(e) for e in x]"} {
						e := e
						watch(e, func(peek func()) {
							pk := starlark.NewBuiltin("peek", func(_ *starlark.Thread, _ *starlark.Builtin, _ starlark.Tuple, _ []starlark.Tuple) (starlark.Value, error) {
								peek()
								return starlark.MakeInt(0), nil
							})
							spy := &graphs.Spy{Vals: []starlark.Value{starlark.MakeInt(1), starlark.MakeInt(2)}, OnNext: peek}
							starlark.EvalOptions(graphs.EvalOpts, th, "spy", e, starlark.StringDict{"x": v, "peek": pk, "spy": spy})
						})
					}
				}
			}
		}
		// the Once cell: decoded by the first failing call, never again
		in := graphs.Instantiate(d, src)
		for id, nd := range d.Nodes {
			fn, ok := in.Objs[id].(*starlark.Function)
			if !ok || nd.Kind != "func" {
				continue
			}
			if starlark.VerifLNTDecoded(fn) {
				continue // decoded by an earlier failure of the same code
			}
			th := &starlark.Thread{Name: "pos"}
			_, err := starlark.Call(th, fn, starlark.Tuple{starlark.MakeInt(99), starlark.String("index"), starlark.Tuple{}, starlark.None}, nd.Kwargs())
			if err == nil {
				o.Position = fmt.Sprintf("node %d: the call was expected to fail", id)
			} else if !starlark.VerifLNTDecoded(fn) {
				o.Position = fmt.Sprintf("node %d: a failing call did not decode the line table", id)
			}
		}
		hx.Emit(o)
		hx.Flush()
	}
}

// ------------------------------------------------------------------------ main

var raceFn = regexp.MustCompile(`(?m)^(?:Write|Read|Previous write|Previous read) at 0x[0-9a-f]+ by (?:goroutine \d+|main goroutine):\n\s+(\S+)\(\)`)

func main() {
	if len(os.Args) > 1 && os.Args[1] == "child" {
		fs := flag.NewFlagSet("child", flag.ExitOnError)
		sc := fs.String("scenario", "values", "")
		seed := fs.Uint64("seed", 1, "")
		n := fs.Int("n", 2, "")
		rounds := fs.Int("rounds", 3, "")
		slen := fs.Int("len", 12, "")
		full := fs.Bool("full", false, "")
		fs.Parse(os.Args[2:])
		switch *sc {
		case "values":
			scenarioValues(*seed, *n, *rounds, *slen, *full)
		case "position":
			scenarioPosition(*seed, *n, *rounds)
		case "proginit":
			scenarioProgInit(*seed, *n, *rounds)
		case "footprints":
			scenarioFootprints(*seed, *rounds)
		case "encode":
			scenarioEncode(*seed, *n, *rounds)
		case "factory":
			scenarioFactory(*seed, *n, *rounds)
		}
		hx.Flush()
		return
	}
	seed := flag.Uint64("seed", 1, "")
	tier := flag.String("tier", "quick", "")
	flag.Parse()
	type job struct {
		sc     string
		n      int
		rounds int
		slen   int
		full   bool
		procs  int // GOMAXPROCS of the child (0: default)
	}
	var jobs []job
	if *tier == "quick" {
		jobs = []job{{"values", 2, 6, 14, true, 0}, {"values", 8, 4, 12, false, 0}, {"values", 32, 2, 10, false, 0},
			{"position", 2, 3, 0, false, 0}, {"position", 8, 3, 0, false, 0}, {"position", 32, 2, 0, false, 0},
			{"proginit", 2, 2, 0, false, 0}, {"proginit", 8, 2, 0, false, 0}, {"proginit", 32, 2, 0, false, 0},
			{"encode", 8, 2, 0, false, 0}, {"factory", 8, 1, 0, false, 0},
			{"footprints", 1, 10, 0, false, 0}}
	} else {
		jobs = []job{{"values", 2, 1200, 16, true, 0}, {"values", 3, 480, 14, true, 0}, {"values", 8, 960, 14, false, 0}, {"values", 32, 360, 12, false, 0},
			{"values", 8, 480, 14, false, 2}, {"values", 4, 480, 14, false, 4},
			{"position", 2, 720, 0, false, 0}, {"position", 8, 720, 0, false, 0}, {"position", 32, 300, 0, false, 0}, {"position", 8, 360, 0, false, 2},
			{"proginit", 2, 480, 0, false, 0}, {"proginit", 8, 480, 0, false, 0}, {"proginit", 32, 180, 0, false, 0}, {"proginit", 8, 240, 0, false, 2},
			{"encode", 2, 40, 0, false, 0}, {"encode", 8, 40, 0, false, 0}, {"encode", 32, 15, 0, false, 0}, {"encode", 8, 20, 0, false, 2},
			{"factory", 2, 10, 0, false, 0}, {"factory", 8, 10, 0, false, 0}, {"factory", 32, 5, 0, false, 0},
			{"footprints", 1, 1000, 0, false, 0}}
	}
	w := os.Stdout
	for _, j := range jobs {
		ctx, cancel := context.WithTimeout(context.Background(), 600*time.Second)
		args := []string{"child", "-scenario", j.sc, "-seed", fmt.Sprint(*seed), "-n", fmt.Sprint(j.n), "-rounds", fmt.Sprint(j.rounds), "-len", fmt.Sprint(j.slen)}
		if j.full {
			args = append(args, "-full")
		}
		cmd := exec.CommandContext(ctx, os.Args[0], args...)
		cmd.Env = append(os.Environ(), "GORACE=halt_on_error=0 exitcode=66")
		if j.procs > 0 {
			cmd.Env = append(cmd.Env, fmt.Sprint("GOMAXPROCS=", j.procs))
		}
		var stderr bytes.Buffer
		cmd.Stderr = &stderr
		outb, err := cmd.Output()
		timedOut := ctx.Err() != nil
		cancel()
		w.Write(outb)
		rec := map[string]any{"kind": "child", "scenario": j.sc, "n": j.n, "rounds": j.rounds, "seed": *seed, "exit": 0, "gomaxprocs": j.procs,
			"replay": strings.Join(append([]string{"c05-race"}, args...), " ")}
		if err != nil {
			rec["exit"] = err.Error()
		}
		if timedOut {
			rec["timeout"] = true
		}
		es := stderr.String()
		nraces := strings.Count(es, "WARNING: DATA RACE")
		rec["races"] = nraces
		if nraces > 0 {
			seen := map[string]bool{}
			var sites []string
			for _, blk := range strings.Split(es, "WARNING: DATA RACE")[1:] {
				var fns []string
				for _, m := range raceFn.FindAllStringSubmatch(blk, -1) {
					fns = append(fns, m[1])
				}
				sort.Strings(fns)
				k := strings.Join(fns, " | ")
				if !seen[k] {
					seen[k] = true
					sites = append(sites, k)
				}
			}
			rec["sites"] = sites
			first := es[strings.Index(es, "WARNING: DATA RACE"):]
			if len(first) > 2500 {
				first = first[:2500]
			}
			rec["report"] = first
		} else if err != nil {
			if len(es) > 1500 {
				es = es[:1500]
			}
			rec["stderr"] = es
		}
		b, _ := json.Marshal(rec)
		w.Write(b)
		w.Write([]byte("\n"))
	}
}
