// c06: mutation during iteration fails; locks and thread state are restored.
//
// A scenario is a small structured program over host-created collections
// (list / dict / set) built from every iterating construct, every mutator and
// every exit path.  From one scenario description the harness derives
//   * the Starlark source (a function main(c0, c1) run with one starlark.Call),
//   * the action path of that run as a term of the Coq model (C06.Model.prog),
//   * the expectations of the property text (which attempts must be refused).
// After the call returns it probes through the Go API: itercount (verif hook),
// a content-preserving mutation, CallStackDepth, a second program on the thread.
// One JSON object per line; `viol` is set by the Go-side oracle.
package main

import (
	"flag"
	"fmt"
	"sort"
	"strings"

	"go.starlark.net/starlark"
	"go.starlark.net/syntax"

	"verifharness/internal/hx"
)

var opts = &syntax.FileOptions{Set: true, While: true, TopLevelControl: true, GlobalReassign: true, Recursion: true}

const (
	kList = iota
	kDict
	kSet
	kMixed // a list whose elements are unorderable, not all strings and not all hashable: ["a", 1, [2]]
	kPairs // a list of "pairs" whose second element is the NEXT collection of the world (of length 3, not 2): [("a", 1), c1]
)

var kindName = []string{"list", "dict", "set", "mixedlist", "pairlist"}
var base = []string{"a", "b", "c", "d", "e"}

// ---- the world ----
type world struct {
	kinds  []int
	frozen []bool
	colls  []starlark.Value
}

func newWorld(kinds []int, frozen []bool, sizes []int) *world {
	w := &world{kinds: kinds, frozen: frozen, colls: make([]starlark.Value, len(kinds))}
	for i := len(kinds) - 1; i >= 0; i-- { // last first: a pair list refers to the collection after it
		k := kinds[i]
		base := base[:sizes[i]]
		var v starlark.Value
		switch k {
		case kList:
			var xs []starlark.Value
			for _, e := range base {
				xs = append(xs, starlark.String(e))
			}
			v = starlark.NewList(xs)
		case kDict:
			d := starlark.NewDict(4)
			for j, e := range base {
				d.SetKey(starlark.String(e), starlark.MakeInt(j))
			}
			v = d
		case kSet:
			s := starlark.NewSet(4)
			for _, e := range base {
				s.Insert(starlark.String(e))
			}
			v = s
		case kMixed:
			v = starlark.NewList([]starlark.Value{starlark.String("a"), starlark.MakeInt(1), starlark.NewList([]starlark.Value{starlark.MakeInt(2)})})
		default:
			v = starlark.NewList([]starlark.Value{starlark.Tuple{starlark.String("a"), starlark.MakeInt(1)}, w.colls[i+1]})
		}
		if frozen[i] {
			v.Freeze()
		}
		w.colls[i] = v
	}
	return w
}

// the initial content of a collection, as content() reports it
func initialContent(kind, size int) []string {
	switch kind {
	case kMixed:
		return []string{"a", "1", "INNER"}
	case kPairs:
		return []string{"PAIR", "INNER"}
	}
	return append([]string{}, base[:size]...)
}

func content(v starlark.Value) []string {
	var out []string
	switch v := v.(type) {
	case *starlark.List:
		for i := 0; i < v.Len(); i++ {
			out = append(out, str(v.Index(i)))
		}
	case *starlark.Dict:
		for _, k := range v.Keys() {
			out = append(out, str(k))
		}
	case *starlark.Set:
		it := v.Iterate()
		var x starlark.Value
		for it.Next(&x) {
			out = append(out, str(x))
		}
		it.Done()
	}
	return out
}

func str(v starlark.Value) string {
	switch v := v.(type) {
	case starlark.String:
		return string(v)
	case starlark.Tuple:
		return "PAIR"
	case *starlark.List, *starlark.Dict, *starlark.Set:
		return "INNER"
	}
	return v.String()
}

func same(a, b []string) bool {
	if len(a) != len(b) {
		return false
	}
	for i := range a {
		if a[i] != b[i] {
			return false
		}
	}
	return true
}

// host-side mutation through the Go API
func hostMutate(v starlark.Value, mut string, marker string) error {
	m := starlark.String(marker)
	switch v := v.(type) {
	case *starlark.List:
		switch mut {
		case "add":
			return v.Append(m)
		case "set":
			return v.SetIndex(0, m)
		default:
			return v.Clear()
		}
	case *starlark.Dict:
		switch mut {
		case "add":
			return v.SetKey(m, starlark.MakeInt(1))
		case "set":
			return v.SetKey(starlark.String("a"), starlark.MakeInt(9))
		case "del":
			_, _, err := v.Delete(starlark.String("a"))
			return err
		default:
			return v.Clear()
		}
	case *starlark.Set:
		switch mut {
		case "add":
			return v.Insert(m)
		case "del":
			_, err := v.Delete(starlark.String("a"))
			return err
		default:
			return v.Clear()
		}
	}
	return fmt.Errorf("not a collection")
}

// a mutation that preserves the content: succeeds iff the collection is not locked
func probe(v starlark.Value) error {
	switch v := v.(type) {
	case *starlark.List:
		if v.Len() == 0 {
			if err := v.Append(starlark.None); err != nil {
				return err
			}
			return v.Clear()
		}
		return v.SetIndex(0, v.Index(0))
	case *starlark.Dict:
		ks := v.Keys()
		if len(ks) == 0 {
			return v.Clear()
		}
		old, _, _ := v.Get(ks[0])
		return v.SetKey(ks[0], old)
	case *starlark.Set:
		return v.Insert(starlark.String("a")) // present unless the scenario removed it: then re-inserted at the end; content recorded before
	}
	return nil
}

// ---- scenario DSL ----
type Stmt struct {
	K    string // for comp dictcomp unpack starargs builtin pushiter attempt mutate break continue return fail panic call if nop
	C    int    // collection
	C2   int    // second clause of a comprehension (-1: none)
	N    int    // unpack arity
	At   int    // `if`: element index the guard selects
	Mut  string
	Name string // builtin expression / push-iterator API / starargs callee
	Exit string // pushiter: full break panic create twice
	ID   int
	Body []Stmt
}

type mutDef struct {
	name   string
	tmpl   string // %c collection, %m marker literal
	stmt   bool   // statement only (not an expression)
	op     bool   // interpreter opcode (SMutate) rather than a method call
	coq    string // mut constructor with %m
	adding bool   // appends the marker when accepted
	min    int    // smallest collection the argument shape makes sense for (0: any)
	shape  bool   // an argument-shape variant: only generated where it has to be refused
}

var muts = [][]mutDef{
	{ // list
		{"append", "%c.append(%m)", false, false, "MAppend %m", true, 0, false},
		{"setindex", "%c[0] = %m", true, true, "MSetIndex 0 %m", false, 0, false},
		{"clear", "%c.clear()", false, false, "MClear", false, 0, false},
		{"insert", "%c.insert(0, %m)", false, false, "MInsert 0 %m", false, 0, false},
		{"pop", "%c.pop()", false, false, "MPop", false, 0, false},
		{"remove", "%c.remove(\"c\")", false, false, "MPop", false, 0, false},
		{"extend", "%c.extend([%m])", false, false, "MExtend [%m]", true, 0, false},
		{"iadd", "%c += [%m]", true, true, "MExtend [%m]", true, 0, false},
		// argument shapes and boundary arguments (%n length, %nm1 length-1, %negn -length, %mid a middle index,
		// %e0 / %el / %em the first / last / a middle element)
		{"pop(0)", "%c.pop(0)", false, false, "MPop", false, 1, true},
		{"pop(-1)", "%c.pop(-1)", false, false, "MPop", false, 1, true},
		{"pop(-len)", "%c.pop(%negn)", false, false, "MPop", false, 1, true},
		{"pop(len-1)", "%c.pop(%nm1)", false, false, "MPop", false, 1, true},
		{"pop(mid)", "%c.pop(%mid)", false, false, "MPop", false, 3, true},
		{"insert(-1)", "%c.insert(-1, %m)", false, false, "MInsert 0 %m", false, 1, true},
		{"insert(len)", "%c.insert(%n, %m)", false, false, "MInsert 0 %m", false, 1, true},
		{"insert(mid)", "%c.insert(%mid, %m)", false, false, "MInsert 0 %m", false, 2, true},
		{"insert(huge)", "%c.insert(1 << 40, %m)", false, false, "MInsert 0 %m", false, 1, true},
		{"remove(first)", "%c.remove(%e0)", false, false, "MPop", false, 1, true},
		{"remove(last)", "%c.remove(%el)", false, false, "MPop", false, 2, true},
		{"remove(mid)", "%c.remove(%em)", false, false, "MPop", false, 3, true},
		{"extend(2)", "%c.extend([%m, 0])", false, false, "MExtend [%m]", false, 1, true},
		{"extend(tuple)", "%c.extend((%m,))", false, false, "MExtend [%m]", false, 1, true},
		{"setindex(-1)", "%c[-1] = %m", true, true, "MSetIndex 0 %m", false, 1, true},
		{"setindex(len-1)", "%c[%nm1] = %m", true, true, "MSetIndex 0 %m", false, 1, true},
		{"setindex(-len)", "%c[%negn] = %m", true, true, "MSetIndex 0 %m", false, 1, true},
		{"setindex(mid)", "%c[%mid] = %m", true, true, "MSetIndex 0 %m", false, 3, true},
		{"iadd(tuple)", "%c += (%m,)", true, true, "MExtend [%m]", false, 1, true},
	},
	{ // dict
		{"setnew", "%c[%m] = 1", true, true, "MAppend %m", true, 0, false},
		{"setold", "%c[\"a\"] = 9", true, true, "MSetIndex 0 %m", false, 0, false},
		{"clear", "%c.clear()", false, false, "MClear", false, 0, false},
		{"pop", "%c.pop(\"c\")", false, false, "MPop", false, 0, false},
		{"popitem", "%c.popitem()", false, false, "MPop", false, 0, false},
		{"setdefault", "%c.setdefault(%m, 1)", false, false, "MAppend %m", true, 0, false},
		{"update", "%c.update({%m: 1})", false, false, "MExtend [%m]", true, 0, false},
		{"ior", "%c |= {%m: 1}", true, true, "MExtend [%m]", true, 0, false},
		{"pop(first)", "%c.pop(%e0)", false, false, "MPop", false, 1, true},
		{"pop(last)", "%c.pop(%el)", false, false, "MPop", false, 2, true},
		{"pop(mid)", "%c.pop(%em)", false, false, "MPop", false, 3, true},
		{"pop(first,default)", "%c.pop(%e0, None)", false, false, "MPop", false, 1, true},
		{"setdefault(new,none)", "%c.setdefault(%m)", false, false, "MAppend %m", false, 1, true},
		{"update(existing)", "%c.update({%e0: 5})", false, false, "MSetIndex 0 %m", false, 1, true},
		{"update(pairs)", "%c.update([(%m, 1)])", false, false, "MExtend [%m]", false, 1, true},
		{"update(kw)", "%c.update(zz=1)", false, false, "MExtend [%m]", false, 1, true},
		{"update(mixed)", "%c.update({%el: 5}, zz=1)", false, false, "MExtend [%m]", false, 1, true},
		{"setold(last)", "%c[%el] = 9", true, true, "MSetIndex 0 %m", false, 2, true},
		{"setold(mid)", "%c[%em] = 9", true, true, "MSetIndex 0 %m", false, 3, true},
		{"ior(existing)", "%c |= {%e0: 7}", true, true, "MSetIndex 0 %m", false, 1, true},
		{"ior(mixed)", "%c |= {%el: 7, %m: 1}", true, true, "MExtend [%m]", false, 1, true},
	},
	{ // set
		{"add", "%c.add(%m)", false, false, "MAppend %m", true, 0, false},
		{"clear", "%c.clear()", false, false, "MClear", false, 0, false},
		{"discard", "%c.discard(\"c\")", false, false, "MPop", false, 0, false},
		{"pop", "%c.pop()", false, false, "MPop", false, 0, false},
		{"remove", "%c.remove(\"c\")", false, false, "MPop", false, 0, false},
		{"update", "%c.update([%m])", false, false, "MExtend [%m]", true, 0, false},
		{"discard(first)", "%c.discard(%e0)", false, false, "MPop", false, 1, true},
		{"discard(last)", "%c.discard(%el)", false, false, "MPop", false, 2, true},
		{"discard(mid)", "%c.discard(%em)", false, false, "MPop", false, 3, true},
		{"remove(first)", "%c.remove(%e0)", false, false, "MPop", false, 1, true},
		{"remove(last)", "%c.remove(%el)", false, false, "MPop", false, 2, true},
		{"update(2)", "%c.update([%m], [0])", false, false, "MExtend [%m]", false, 1, true},
		{"update(mixed)", "%c.update([%e0, %m])", false, false, "MExtend [%m]", false, 1, true},
		{"update(tuple)", "%c.update((%m,))", false, false, "MExtend [%m]", false, 1, true},
	},
}

var hostMuts = [][]string{{"add", "set", "clear"}, {"add", "set", "del", "clear"}, {"add", "del", "clear"}, {"add", "set", "clear"}, {"add", "set", "clear"}}

func init() { muts = append(muts, muts[kList], muts[kList]) }

func findMut(kind int, name string) mutDef {
	for _, m := range muts[kind] {
		if m.name == name {
			return m
		}
	}
	panic("no mutator " + name)
}

// built-in expressions that iterate %c; cb: takes a key= callback
type bexpr struct {
	name  string
	tmpl  string
	kinds string // which kinds: l d s, m = mixed list
	cb    bool
	fails bool // the built-in returns an error part-way through (after it has begun to iterate)
	cancels bool // its key= call-back is a host built-in that cancels the thread and returns normally
}

var bexprs = []bexpr{
	{"sorted", "sorted(%c)", "lds", false, false, false},
	{"sorted-key", "sorted(%c, key=%f)", "lds", true, false, false},
	{"list", "list(%c)", "lds", false, false, false},
	{"tuple", "tuple(%c)", "lds", false, false, false},
	{"set", "set(%c)", "lds", false, false, false},
	{"dict", "dict(%c)", "d", false, false, false},
	{"dict-update", "{}.update(%c)", "d", false, false, false},
	{"dict-update-pairs", "{}.update([(x, 1) for x in %c])", "lds", false, false, false},
	{"extend", "[].extend(%c)", "lds", false, false, false},
	{"join", "\",\".join(%c)", "lds", false, false, false},
	{"min", "min(%c)", "lds", false, false, false},
	{"max-key", "max(%c, key=%f)", "lds", true, false, false},
	{"min-key", "min(%c, key=%f)", "lds", true, false, false},
	{"any", "any(%c)", "lds", false, false, false},
	{"all", "all(%c)", "lds", false, false, false},
	{"zip", "zip(%c, %c)", "lds", false, false, false},
	{"enumerate", "enumerate(%c)", "lds", false, false, false},
	{"reversed", "reversed(%c)", "l", false, false, false},
	{"len-list", "len(list(%c))", "lds", false, false, false},
	{"set-union", "set().union(%c)", "lds", false, false, false},
	{"set-update", "set().update(%c)", "lds", false, false, false},
	{"set-issubset", "set().issubset(%c)", "lds", false, false, false},
	{"set-intersection", "set([\"a\"]).intersection(%c)", "lds", false, false, false},
	{"list-plus", "[] + list(%c)", "lds", false, false, false},
	{"in", "\"zz\" in %c", "lds", false, false, false},
	{"dict-items", "%c.items()", "d", false, false, false},
	{"dict-keys", "%c.keys()", "d", false, false, false},
	{"dict-values", "%c.values()", "d", false, false, false},
	{"str", "str(%c)", "lds", false, false, false},
	{"list-index", "%c.index(\"c\")", "l", false, false, false},
	{"eq", "%c == %c", "lds", false, false, false},
	// error paths inside built-ins, on the mixed list ["a", 1, [2]]
	{"err-sorted", "sorted(%c)", "m", false, true, false},
	{"err-sorted-key", "sorted(%c, key=len)", "m", false, true, false},
	{"err-min", "min(%c)", "m", false, true, false},
	{"err-max", "max(%c)", "m", false, true, false},
	{"err-join", "\",\".join(%c)", "m", false, true, false},
	{"err-set", "set(%c)", "m", false, true, false},
	{"err-dict", "dict(%c)", "m", false, true, false},
	{"err-dict-update", "{}.update(%c)", "m", false, true, false},
	{"err-dict-pairs", "dict([(x, 1) for x in %c])", "m", false, true, false},
	{"err-dictcomp-key", "{x: 1 for x in %c}", "m", false, true, false},
	{"err-zip", "zip(%c, 5)", "m", false, true, false},
	{"err-set-union", "set().union(%c)", "m", false, true, false},
	{"err-set-update", "set().update(%c)", "m", false, true, false},
	{"err-set-issubset", "set([7]).issubset(%c)", "m", false, true, false},
	{"err-set-intersection", "set([1]).intersection(%c)", "m", false, true, false},
	{"err-set-difference", "set([1]).difference(%c)", "m", false, true, false},
	{"err-set-symdiff", "set([1]).symmetric_difference(%c)", "m", false, true, false},
	{"err-index", "%c.index(3)", "m", false, true, false},
	{"err-remove", "list(%c).remove(3)", "m", false, true, false},
	{"err-unpack-in-for", "[a for a, b in %c]", "m", false, true, false},
	// the key function is a host built-in that cancels the thread: the other call-backs are entered on a cancelled thread
	{"sorted-cancelkey", "sorted(%c, key=cancelkey)", "lds", false, false, true},
	{"min-cancelkey", "min(%c, key=cancelkey)", "lds", false, false, true},
	{"max-cancelkey", "max(%c, key=cancelkey)", "lds", false, false, true},
	// on the pair list [("a", 1), c1]: the second "pair" has length 3
	{"pairs-dict", "dict(%c)", "p", false, true, false},
	{"pairs-dict-kw", "dict(%c, z=1)", "p", false, true, false},
	{"pairs-update", "{}.update(%c)", "p", false, true, false},
	{"pairs-update-kw", "{}.update(%c, z=1)", "p", false, true, false},
	{"pairs-unpack-comp", "[a for a, b in %c]", "p", false, true, false},
	{"pairs-unpack-dictcomp", "{a: b for a, b in %c}", "p", false, true, false},
	{"pairs-sorted", "sorted(%c)", "p", false, true, false},
	{"pairs-min", "min(%c)", "p", false, true, false},
	{"pairs-zip-star", "zip(*%c)", "p", false, false, false},
	{"pairs-flatten", "[y for x in %c for y in x]", "p", false, false, false},
	{"pairs-list", "[list(x) for x in %c]", "p", false, false, false},
}

// ---- paths (terms of C06.Model.prog / hprog) ----
type item struct {
	kind string // act call builtin
	s    string
	sub  *path
	h    *hpath
}
type path struct {
	items []item
	exit  string
}
type hitem struct {
	kind string // iterdefer mutate attempt call
	s    string
	sub  *path
}
type hpath struct {
	items []hitem
	exit  string
}

func (p *path) coq() string {
	s := "(PExit " + p.exit + ")"
	for i := len(p.items) - 1; i >= 0; i-- {
		it := p.items[i]
		switch it.kind {
		case "act":
			s = "(PAct (" + it.s + ") " + s + ")"
		case "call":
			s = "(PCall " + it.sub.coq() + " " + s + ")"
		default:
			s = "(PBuiltin " + it.h.coq() + " " + s + ")"
		}
	}
	return s
}
func (h *hpath) coq() string {
	s := "(HExit " + h.exit + ")"
	for i := len(h.items) - 1; i >= 0; i-- {
		it := h.items[i]
		switch it.kind {
		case "call":
			s = "(HCall " + it.sub.coq() + " " + s + ")"
		default:
			s = "(" + it.s + " " + s + ")"
		}
	}
	return s
}

// ---- emitter: source + path + expectations from one scenario ----
type expect struct {
	Coll   int    `json:"coll"`
	Mut    string `json:"mut"`
	Locked bool   `json:"locked"`
}
type emitter struct {
	kinds    []int
	frozen   []bool
	sizes    []int
	len      []int // expected length of each collection
	lock     []int // static nesting of live iterators over each collection
	nattempt int
	expects  []expect
	tags     map[string]bool
	cont     [][]string // expected content: the initial elements plus the markers of accepted additions
	mustFail bool       // the path reaches a mutation that must be refused (which aborts the program)
}

func assignIDs(stmts []Stmt, next *int) {
	for i := range stmts {
		*next++
		stmts[i].ID = *next
		assignIDs(stmts[i].Body, next)
	}
}

func cv(c int) string { return fmt.Sprintf("c%d", c) }

func (e *emitter) mutSrc(s Stmt) (src, coq string, md mutDef) {
	md = findMut(e.kinds[s.C], s.Mut)
	lit := fmt.Sprintf("\"M%d\"", s.ID)
	n := e.sizes[s.C]
	q := func(i int) string { return "\"" + base[i] + "\"" }
	src = md.tmpl
	for _, kv := range [][2]string{{"%negn", fmt.Sprint(-n)}, {"%nm1", fmt.Sprint(n - 1)}, {"%n", fmt.Sprint(n)}, {"%mid", fmt.Sprint(n / 2)},
		{"%e0", q(0)}, {"%el", q(n - 1)}, {"%em", q(n / 2)}} {
		src = strings.ReplaceAll(src, kv[0], kv[1])
	}
	src = strings.ReplaceAll(strings.ReplaceAll(src, "%c", cv(s.C)), "%m", lit)
	coq = strings.ReplaceAll(md.coq, "%m", fmt.Sprint(1000+s.ID))
	return
}

// ---- source ----
func (e *emitter) exprSrc(s Stmt) string {
	switch s.K {
	case "attempt":
		return fmt.Sprintf("attempt(%d, \"%s\")", s.C, s.Mut)
	case "mutate":
		src, _, _ := e.mutSrc(s)
		return src
	case "fail":
		return "fail(\"boom\")"
	case "panic":
		return "boom()"
	case "nop":
		return "None"
	}
	panic("not an expression: " + s.K)
}

func (e *emitter) render(stmts []Stmt, ind string, sb *strings.Builder, loopVar string) {
	if len(stmts) == 0 {
		sb.WriteString(ind + "pass\n")
	}
	for _, s := range stmts {
		switch s.K {
		case "attempt", "mutate", "fail", "panic":
			sb.WriteString(ind + e.exprSrc(s) + "\n")
		case "nop":
			sb.WriteString(ind + "pass\n")
		case "cancel":
			sb.WriteString(ind + "cancelkey(0)\n")
		case "break", "continue":
			sb.WriteString(ind + s.K + "\n")
		case "return":
			sb.WriteString(ind + "return 1\n")
		case "if":
			fmt.Fprintf(sb, "%sif %s == \"%s\":\n", ind, loopVar, base[s.At])
			e.render(s.Body, ind+"    ", sb, loopVar)
		case "for":
			v := fmt.Sprintf("x%d", s.ID)
			fmt.Fprintf(sb, "%sfor %s in %s:\n", ind, v, cv(s.C))
			e.render(s.Body, ind+"    ", sb, v)
		case "comp", "dictcomp":
			cl := fmt.Sprintf("for x%d in %s", s.ID, cv(s.C))
			key := fmt.Sprintf("x%d", s.ID)
			if s.C2 >= 0 {
				cl += fmt.Sprintf(" for y%d in %s", s.ID, cv(s.C2))
				key = fmt.Sprintf("x%d + y%d", s.ID, s.ID)
			}
			if s.K == "comp" {
				fmt.Fprintf(sb, "%sr = [%s %s]\n", ind, e.exprSrc(s.Body[0]), cl)
			} else {
				fmt.Fprintf(sb, "%sr = {%s: %s %s}\n", ind, key, e.exprSrc(s.Body[0]), cl)
			}
		case "unpack":
			var names []string
			for i := 0; i < s.N; i++ {
				names = append(names, fmt.Sprintf("u%d", i))
			}
			lhs := strings.Join(names, ", ")
			if s.N == 1 {
				lhs = "(u0,)"
			}
			fmt.Fprintf(sb, "%s%s = %s\n", ind, lhs, cv(s.C))
		case "starargs":
			if s.Name == "builtin" {
				fmt.Fprintf(sb, "%sident(*%s)\n", ind, cv(s.C))
			} else {
				fmt.Fprintf(sb, "%sf%d(*%s)\n", ind, s.ID, cv(s.C))
			}
		case "call":
			fmt.Fprintf(sb, "%sf%d()\n", ind, s.ID)
		case "builtin":
			be := findBexpr(s.Name)
			src := strings.ReplaceAll(strings.ReplaceAll(be.tmpl, "%c", cv(s.C)), "%f", fmt.Sprintf("f%d", s.ID))
			fmt.Fprintf(sb, "%sr = %s\n", ind, src)
		case "pushiter":
			if s.Exit == "cancelcb" {
				fmt.Fprintf(sb, "%sgoiter(%s, \"%s\", \"full\", cancelkey)\n", ind, cv(s.C), s.Name)
			} else {
				fmt.Fprintf(sb, "%sgoiter(%s, \"%s\", \"%s\", f%d)\n", ind, cv(s.C), s.Name, s.Exit, s.ID)
			}
		default:
			panic("unknown stmt " + s.K)
		}
	}
}

// the nested function definitions, hoisted to the top of main
func (e *emitter) defs(stmts []Stmt, sb *strings.Builder) {
	for _, s := range stmts {
		params := ""
		isDef := false
		switch s.K {
		case "starargs":
			isDef, params = s.Name != "builtin", "*a"
		case "call":
			isDef = true
		case "builtin":
			isDef, params = findBexpr(s.Name).cb, "k"
		case "pushiter":
			isDef, params = true, "k"
		}
		e.defs(s.Body, sb)
		if isDef {
			fmt.Fprintf(sb, "    def f%d(%s):\n", s.ID, params)
			e.render(s.Body, "        ", sb, "")
			sb.WriteString("        return 0\n")
		}
	}
}

func findBexpr(name string) bexpr {
	for _, b := range bexprs {
		if b.name == name {
			return b
		}
	}
	panic("no builtin expression " + name)
}

// ---- path ----
const (
	cNext = iota
	cBreak
	cContinue
	cReturn
	cErr
	cPanic
)

// lockedNow: would a mutation of c be refused now (per the property text)?
func (e *emitter) lockedNow(c int) bool { return e.frozen[c] || e.lock[c] > 0 }

func (e *emitter) walk(stmts []Stmt, p *path, elem int) int {
	for _, s := range stmts {
		if ctl := e.step(s, p, elem); ctl != cNext {
			return ctl
		}
	}
	return cNext
}

// run the body of a nested function as a new frame
func (e *emitter) frame(body []Stmt) (*path, int) {
	sub := &path{exit: "ORet"}
	ctl := e.walk(body, sub, -1)
	switch ctl {
	case cErr:
		if sub.exit == "ORet" {
			sub.exit = "OErr"
		}
		return sub, cErr
	case cPanic:
		sub.exit = "OPanic"
		return sub, cPanic
	}
	return sub, cNext
}

func (e *emitter) step(s Stmt, p *path, elem int) int {
	kind := -1
	if s.C >= 0 && s.C < len(e.kinds) {
		kind = e.kinds[s.C]
	}
	switch s.K {
	case "attempt":
		e.nattempt++
		z := 100 + e.nattempt
		locked := e.lockedNow(s.C)
		e.expects = append(e.expects, expect{s.C, s.Mut, locked})
		m := map[string]string{"add": fmt.Sprintf("MAppend %d", z), "set": fmt.Sprintf("MSetIndex 0 %d", z), "del": "MPop", "clear": "MClear"}[s.Mut]
		if !locked {
			e.len[s.C]++ // only "add" is generated when not locked
			e.cont[s.C] = append(e.cont[s.C], fmt.Sprintf("m%d", e.nattempt))
		}
		p.items = append(p.items, item{kind: "builtin", h: &hpath{items: []hitem{{kind: "attempt", s: fmt.Sprintf("HAttempt %d (%s)", s.C, m)}}, exit: "ORet"}})
		e.tags["attempt:"+kindName[kind]+":"+s.Mut] = true
		return cNext
	case "mutate":
		_, cq, md := e.mutSrc(s)
		locked := e.lockedNow(s.C)
		if md.op {
			p.items = append(p.items, item{kind: "act", s: fmt.Sprintf("SMutate %d (%s)", s.C, cq)})
		} else {
			p.items = append(p.items, item{kind: "builtin", h: &hpath{items: []hitem{{kind: "mutate", s: fmt.Sprintf("HMutate %d (%s)", s.C, cq)}}, exit: "ORet"}})
		}
		e.tags["mutate:"+kindName[kind]+":"+s.Mut+":"+map[bool]string{true: "locked", false: "free"}[locked]] = true
		if locked {
			p.exit = "OErr"
			e.mustFail = true
			return cErr
		}
		e.len[s.C]++
		e.cont[s.C] = append(e.cont[s.C], fmt.Sprintf("M%d", s.ID))
		return cNext
	case "fail":
		p.exit = "OErr"
		return cErr
	case "panic":
		p.items = append(p.items, item{kind: "builtin", h: &hpath{exit: "OPanic"}})
		p.exit = "OPanic"
		return cPanic
	case "nop":
		p.items = append(p.items, item{kind: "act", s: "SNop"})
		return cNext
	case "cancel":
		// the host built-in returns normally; the next loop head of this frame finds the thread cancelled
		p.items = append(p.items, item{kind: "builtin", h: &hpath{exit: "ORet"}})
		p.exit = "OErr"
		e.tags["cancel-by-host-builtin"] = true
		return cErr
	case "break":
		return cBreak
	case "continue":
		return cContinue
	case "return":
		p.exit = "ORet"
		return cReturn
	case "if":
		if elem == s.At {
			return e.walk(s.Body, p, elem)
		}
		return cNext
	case "for":
		n := e.len[s.C]
		e.tags["for:"+kindName[kind]] = true
		if e.lock[s.C] > 0 {
			e.tags["nested-same:"+kindName[kind]] = true
		}
		p.items = append(p.items, item{kind: "act", s: fmt.Sprintf("SIterPush (Some %d%%nat)", s.C)})
		e.lock[s.C]++
		ctl := cNext
		for i := 0; i < n; i++ {
			p.items = append(p.items, item{kind: "act", s: "SIterJmp"})
			ctl = e.walk(s.Body, p, i)
			if ctl == cContinue {
				ctl = cNext
			}
			if ctl != cNext {
				break
			}
		}
		e.lock[s.C]--
		switch ctl {
		case cNext:
			p.items = append(p.items, item{kind: "act", s: "SIterJmp"}, item{kind: "act", s: "SIterPop"})
			return cNext
		case cBreak:
			p.items = append(p.items, item{kind: "act", s: "SIterPop"})
			e.tags["exit:break"] = true
			return cNext
		}
		// return / error / panic leave the loop without ITERPOP: the deferred clean-up releases it
		e.tags["exit:"+map[int]string{cReturn: "return", cErr: "error", cPanic: "panic"}[ctl]+"-in-loop"] = true
		return ctl
	case "comp", "dictcomp":
		e.tags[s.K+":"+kindName[kind]] = true
		clauses := []int{s.C}
		if s.C2 >= 0 {
			clauses = append(clauses, s.C2)
			e.tags["comp-nested-clauses"] = true
		}
		var rec func(ci int) int
		rec = func(ci int) int {
			if ci == len(clauses) {
				return e.step(s.Body[0], p, -1)
			}
			c := clauses[ci]
			n := e.len[c]
			p.items = append(p.items, item{kind: "act", s: fmt.Sprintf("SIterPush (Some %d%%nat)", c)})
			e.lock[c]++
			for i := 0; i < n; i++ {
				p.items = append(p.items, item{kind: "act", s: "SIterJmp"})
				if ctl := rec(ci + 1); ctl != cNext {
					e.lock[c]--
					return ctl
				}
			}
			p.items = append(p.items, item{kind: "act", s: "SIterJmp"}, item{kind: "act", s: "SIterPop"})
			e.lock[c]--
			return cNext
		}
		ctl := rec(0)
		if ctl != cNext {
			e.tags["exit:"+map[int]string{cErr: "error", cPanic: "panic"}[ctl]+"-in-comp"] = true
		}
		return ctl
	case "unpack":
		p.items = append(p.items, item{kind: "act", s: fmt.Sprintf("SUnpack %d %d", s.C, s.N)})
		n := e.len[s.C]
		switch {
		case s.N < n:
			e.tags["unpack:"+kindName[kind]+":too-many"] = true
			p.exit = "OErr"
			return cErr
		case s.N > n:
			e.tags["unpack:"+kindName[kind]+":too-few"] = true
			p.exit = "OErr"
			return cErr
		}
		e.tags["unpack:"+kindName[kind]+":exact"] = true
		return cNext
	case "starargs":
		p.items = append(p.items, item{kind: "act", s: fmt.Sprintf("SStarArgs %d", s.C)})
		e.tags["starargs:"+kindName[kind]+":"+s.Name] = true
		if s.Name == "builtin" {
			p.items = append(p.items, item{kind: "builtin", h: &hpath{exit: "ORet"}})
			return cNext
		}
		sub, ctl := e.frame(s.Body)
		p.items = append(p.items, item{kind: "call", sub: sub})
		if ctl != cNext {
			p.exit = sub.exit
		}
		return ctl
	case "call":
		sub, ctl := e.frame(s.Body)
		p.items = append(p.items, item{kind: "call", sub: sub})
		e.tags["nested-call"] = true
		if ctl != cNext {
			p.exit = sub.exit
		}
		return ctl
	case "builtin":
		be := findBexpr(s.Name)
		e.tags["builtin:"+be.name+":"+kindName[kind]] = true
		h := &hpath{exit: "ORet"}
		h.items = append(h.items, hitem{kind: "iterdefer", s: fmt.Sprintf("HIterDefer %d", s.C)})
		if kind == kPairs {
			h.items = append(h.items, hitem{kind: "iterdefer", s: fmt.Sprintf("HIterDefer %d", s.C+1)})
		}
		ctl := cNext
		if be.fails {
			ctl = cErr
			h.exit = "OErr"
		}
		if be.cb {
			e.lock[s.C]++
			for i := 0; i < e.len[s.C]; i++ {
				sub, c := e.frame(s.Body)
				h.items = append(h.items, hitem{kind: "call", sub: sub})
				if c != cNext {
					ctl = c
					h.exit = sub.exit
					e.tags["exit:"+map[int]string{cErr: "error", cPanic: "panic"}[c]+"-in-callback"] = true
					break
				}
			}
			e.lock[s.C]--
		}
		p.items = append(p.items, item{kind: "builtin", h: h})
		if ctl != cNext {
			p.exit = h.exit
		}
		if be.cancels && ctl == cNext {
			p.exit = "OErr" // the built-in returns; the next loop head finds the thread cancelled
			return cErr
		}
		return ctl
	case "pushiter":
		// goiter(c, api, exit, cb): host code ranging over a Go push iterator
		e.tags["pushiter:"+s.Name+":"+kindName[kind]+":"+s.Exit] = true
		h := &hpath{exit: "ORet"}
		ctl := cNext
		if s.Exit == "cancelcb" {
			h.items = append(h.items, hitem{kind: "iterdefer", s: fmt.Sprintf("HIterDefer %d", s.C)})
			p.items = append(p.items, item{kind: "builtin", h: h})
			p.exit = "OErr"
			return cErr
		}
		if s.Exit != "create" {
			rounds := 1
			if s.Exit == "twice" {
				rounds = 2
			}
			for r := 0; r < rounds && ctl == cNext; r++ {
				// (a second range starts after the first has released the collection; the model's
				// defers run when the built-in returns, which gives the same final state)
				h.items = append(h.items, hitem{kind: "iterdefer", s: fmt.Sprintf("HIterDefer %d", s.C)})
				e.lock[s.C]++
				for i := 0; i < e.len[s.C]; i++ {
					if s.Exit == "break" && i == 1 {
						break
					}
					if s.Exit == "panic" && i == 1 {
						ctl = cPanic
						h.exit = "OPanic"
						break
					}
					sub, c := e.frame(s.Body)
					h.items = append(h.items, hitem{kind: "call", sub: sub})
					if c != cNext {
						ctl = c
						h.exit = sub.exit
						break
					}
				}
				e.lock[s.C]--
			}
		}
		p.items = append(p.items, item{kind: "builtin", h: h})
		if ctl != cNext {
			p.exit = h.exit
		}
		return ctl
	}
	panic("unknown stmt " + s.K)
}

// ---- running a scenario ----
type attemptRec struct {
	Coll      int    `json:"coll"`
	Mut       string `json:"mut"`
	Rejected  bool   `json:"rejected"`
	Unchanged bool   `json:"unchanged"`
}

type result struct {
	Outcome  string       `json:"outcome"` // ok err panic
	Msg      string       `json:"msg,omitempty"`
	IC       []uint32     `json:"ic"`
	Content  [][]string   `json:"content"`
	ProbeOK  []bool       `json:"probe_ok"`
	Depth    int          `json:"depth_delta"`
	RerunOK  bool         `json:"rerun_ok"`
	Attempts []attemptRec `json:"attempts"`
	NAttempts int         `json:"n_attempts"`
	Steps    uint64       `json:"steps"`
}

type runner struct {
	w        *world
	attempts []attemptRec
}

func (r *runner) predeclared() starlark.StringDict {
	return starlark.StringDict{
		"attempt": starlark.NewBuiltin("attempt", func(t *starlark.Thread, _ *starlark.Builtin, args starlark.Tuple, _ []starlark.Tuple) (starlark.Value, error) {
			ci, _ := starlark.AsInt32(args[0])
			mut := string(args[1].(starlark.String))
			marker := fmt.Sprintf("m%d", len(r.attempts)+1)
			v := r.w.colls[ci]
			if n := starlark.Len(v); n > 200 {
				// a collection that keeps growing under iteration: do not take O(n) snapshots of it
				err := hostMutate(v, mut, marker)
				r.attempts = append(r.attempts, attemptRec{ci, mut, err != nil, starlark.Len(v) == n})
				return starlark.None, nil
			}
			before := content(v)
			err := hostMutate(v, mut, marker)
			r.attempts = append(r.attempts, attemptRec{ci, mut, err != nil, same(before, content(v))})
			return starlark.None, nil
		}),
		"boom": starlark.NewBuiltin("boom", func(t *starlark.Thread, _ *starlark.Builtin, args starlark.Tuple, _ []starlark.Tuple) (starlark.Value, error) {
			panic("boom")
		}),
		"cancelkey": starlark.NewBuiltin("cancelkey", func(t *starlark.Thread, _ *starlark.Builtin, args starlark.Tuple, _ []starlark.Tuple) (starlark.Value, error) {
			t.Cancel("host")
			return starlark.MakeInt(0), nil
		}),
		"ident": starlark.NewBuiltin("ident", func(t *starlark.Thread, _ *starlark.Builtin, args starlark.Tuple, _ []starlark.Tuple) (starlark.Value, error) {
			return starlark.MakeInt(len(args)), nil
		}),
		"goiter": starlark.NewBuiltin("goiter", func(t *starlark.Thread, _ *starlark.Builtin, args starlark.Tuple, _ []starlark.Tuple) (starlark.Value, error) {
			c := args[0]
			api := string(args[1].(starlark.String))
			exit := string(args[2].(starlark.String))
			cb := args[3]
			var callErr error
			body := func(i *int, x starlark.Value) bool {
				if exit == "break" && *i == 1 {
					return false
				}
				if exit == "panic" && *i == 1 {
					panic("boom in range body")
				}
				*i++
				if _, err := starlark.Call(t, cb, starlark.Tuple{x}, nil); err != nil {
					callErr = err
					return false
				}
				return true
			}
			rounds := 1
			if exit == "twice" {
				rounds = 2
			}
			switch api {
			case "Elements": // starlark.Elements(iterable)
				seq := starlark.Elements(c.(starlark.Iterable))
				if exit == "create" {
					return starlark.None, nil
				}
				for r := 0; r < rounds && callErr == nil; r++ {
					i := 0
					for x := range seq {
						if !body(&i, x) {
							break
						}
					}
				}
			case "method": // List.Elements / Set.Elements / Dict.Entries
				switch c := c.(type) {
				case *starlark.List:
					seq := c.Elements()
					if exit == "create" {
						return starlark.None, nil
					}
					for r := 0; r < rounds && callErr == nil; r++ {
						i := 0
						for x := range seq {
							if !body(&i, x) {
								break
							}
						}
					}
				case *starlark.Set:
					seq := c.Elements()
					if exit == "create" {
						return starlark.None, nil
					}
					for r := 0; r < rounds && callErr == nil; r++ {
						i := 0
						for x := range seq {
							if !body(&i, x) {
								break
							}
						}
					}
				case *starlark.Dict:
					seq := c.Entries()
					if exit == "create" {
						return starlark.None, nil
					}
					for r := 0; r < rounds && callErr == nil; r++ {
						i := 0
						for k := range seq {
							if !body(&i, k) {
								break
							}
						}
					}
				}
			case "Entries": // starlark.Entries(mapping)
				seq := starlark.Entries(c.(starlark.IterableMapping))
				if exit == "create" {
					return starlark.None, nil
				}
				for r := 0; r < rounds && callErr == nil; r++ {
					i := 0
					for k := range seq {
						if !body(&i, k) {
							break
						}
					}
				}
			}
			if callErr != nil {
				return nil, callErr
			}
			return starlark.None, nil
		}),
	}
}

var againProg *starlark.Program

func compile(src string) (*starlark.Program, error) {
	names := (&runner{}).predeclared()
	_, prog, err := starlark.SourceProgramOptions(opts, "s.star", src, names.Has)
	return prog, err
}

func runScenario(prog *starlark.Program, kinds []int, frozen []bool, sizes []int, limit uint64, precancel bool) (res result, ok bool) {
	w := newWorld(kinds, frozen, sizes)
	r := &runner{w: w}
	th := &starlark.Thread{}
	globals, err := prog.Init(th, r.predeclared())
	if err != nil {
		res.Outcome = "static"
		res.Msg = err.Error()
		return res, false
	}
	mainFn := globals["main"]
	depth0 := th.CallStackDepth()
	steps0 := th.ExecutionSteps()
	if limit > 0 {
		th.SetMaxExecutionSteps(steps0 + limit)
	} else {
		th.SetMaxExecutionSteps(steps0 + safetyLimit) // a scenario that accepts a mutation of what it iterates may never end
	}
	if precancel {
		th.Cancel("host") // the call is entered on a thread that is already cancelled
	}
	func() {
		defer func() {
			if e := recover(); e != nil {
				res.Outcome = "panic"
				res.Msg = fmt.Sprint(e)
			}
		}()
		_, err := starlark.Call(th, mainFn, starlark.Tuple(w.colls), nil)
		if err != nil {
			res.Outcome = "err"
			res.Msg = err.Error()
			if strings.Contains(res.Msg, "cancelled") && !strings.Contains(res.Msg, "cancelled: host") {
				res.Outcome = "cancelled" // by the step limit
			}
		} else {
			res.Outcome = "ok"
		}
	}()
	if len(res.Msg) > 90 {
		res.Msg = res.Msg[:90]
	}
	res.Steps = th.ExecutionSteps() - steps0
	res.Depth = th.CallStackDepth() - depth0
	res.Attempts = r.attempts
	res.NAttempts = len(r.attempts)
	if len(res.Attempts) > 8000 { // a runaway scenario: keep the report finite
		res.Attempts = res.Attempts[:8000]
	}
	for _, v := range w.colls {
		n, _ := starlark.VerifIterCount(v)
		res.IC = append(res.IC, n)
		c := content(v)
		if len(c) > 5000 { // a runaway scenario: keep the report finite
			c = append(c[:5000:5000], "...")
		}
		res.Content = append(res.Content, c)
	}
	for i, v := range w.colls {
		if frozen[i] {
			res.ProbeOK = append(res.ProbeOK, true)
			continue
		}
		res.ProbeOK = append(res.ProbeOK, probe(v) == nil)
	}
	// the thread runs a second program
	th.Uncancel()
	th.SetMaxExecutionSteps(1 << 62)
	func() {
		defer func() {
			if e := recover(); e != nil {
				res.RerunOK = false
			}
		}()
		if againProg == nil {
			_, againProg, _ = starlark.SourceProgramOptions(opts, "again.star", "def again(*cs):\n    return [[x for x in c] for c in cs]\n", func(string) bool { return false })
		}
		again, err := againProg.Init(th, nil)
		if err == nil {
			_, err = starlark.Call(th, again["again"], starlark.Tuple(w.colls), nil)
		}
		res.RerunOK = err == nil && th.CallStackDepth() == depth0
	}()
	return res, true
}

type line struct {
	Kind    string   `json:"kind"` // scenario cancel
	ID      string   `json:"id"`
	Family  string   `json:"family"`
	Tags    []string `json:"tags,omitempty"`
	Src     string   `json:"src,omitempty"`
	Coq     string   `json:"coq,omitempty"`
	Kinds   []int    `json:"kinds"`
	Frozen  []bool   `json:"frozen"`
	Expects []expect `json:"expects,omitempty"`
	Expected [][]string `json:"expected,omitempty"`
	Init     [][]string `json:"init,omitempty"`
	MustFail bool     `json:"must_fail,omitempty"`
	Limit   uint64   `json:"limit,omitempty"`
	Res     *result  `json:"res,omitempty"`
	Viol    string   `json:"viol,omitempty"`
	VKey    string   `json:"vkey,omitempty"`
}

const safetyLimit = 150000

// the Go-side oracle: the property text, nothing else
func oracle(res result, frozen []bool, expects []expect, checkAttempts bool) string {
	if checkAttempts && res.Outcome == "cancelled" {
		return fmt.Sprintf("the scenario did not end within %d steps (a mutation during iteration was accepted?)", safetyLimit)
	}
	for i, n := range res.IC {
		if !frozen[i] && n != 0 {
			return fmt.Sprintf("collection %d still has itercount %d after the call returned", i, n)
		}
	}
	for i, okp := range res.ProbeOK {
		if !okp {
			return fmt.Sprintf("collection %d refuses a content-preserving mutation after the call returned", i)
		}
	}
	if res.Depth != 0 {
		return fmt.Sprintf("call stack depth changed by %d", res.Depth)
	}
	if !res.RerunOK {
		return "the thread could not run a second program"
	}
	if checkAttempts {
		for i, a := range res.Attempts {
			if i >= len(expects) {
				break
			}
			ex := expects[i]
			if ex.Locked && !(a.Rejected && a.Unchanged) {
				return fmt.Sprintf("attempt %d (%s on collection %d) during iteration: rejected=%v unchanged=%v", i, a.Mut, a.Coll, a.Rejected, a.Unchanged)
			}
			if !ex.Locked && a.Rejected {
				return fmt.Sprintf("attempt %d (%s on collection %d) outside any iteration was refused", i, a.Mut, a.Coll)
			}
		}
	}
	return ""
}

type scenario struct {
	family string
	kinds  []int
	frozen []bool
	sizes  []int
	body   []Stmt
}

type built struct {
	src, coq string
	expects  []expect
	tags     []string
	cont     [][]string
	mustFail bool
}

func initOf(sc scenario) [][]string {
	var out [][]string
	for i, k := range sc.kinds {
		out = append(out, initialContent(k, sc.sizes[i]))
	}
	return out
}

func build(sc scenario) built {
	e := &emitter{kinds: sc.kinds, frozen: sc.frozen, sizes: sc.sizes, len: make([]int, len(sc.kinds)), lock: make([]int, len(sc.kinds)), tags: map[string]bool{}}
	for i := range e.len {
		e.cont = append(e.cont, initialContent(sc.kinds[i], sc.sizes[i]))
		e.len[i] = len(e.cont[i])
	}
	next := 0
	assignIDs(sc.body, &next)
	p := &path{exit: "ORet"}
	ctl := e.walk(sc.body, p, -1)
	switch ctl {
	case cErr:
		if p.exit == "ORet" {
			p.exit = "OErr"
		}
	case cPanic:
		p.exit = "OPanic"
	}
	var params []string
	for i := range sc.kinds {
		params = append(params, fmt.Sprintf("c%d", i))
	}
	var defs, body strings.Builder
	e.defs(sc.body, &defs)
	e.render(sc.body, "    ", &body, "")
	src := "def main(" + strings.Join(params, ", ") + "):\n" + defs.String() + body.String() + "    return 0\n"
	var tags []string
	for t := range e.tags {
		tags = append(tags, t)
	}
	return built{src, p.coq(), e.expects, tags, e.cont, e.mustFail}
}

func main() {
	seed := flag.Uint64("seed", 1, "")
	nrand := flag.Int("rand", 200, "random composite scenarios")
	cancelEvery := flag.Int("cancel-every", 7, "step-limit cancellation at every k-th step index (1 = every index)")
	flag.Parse()
	rnd := hx.NewRand(*seed)
	var scs []scenario
	add := func(fam string, kinds []int, frozen []bool, body ...Stmt) {
		if frozen == nil {
			frozen = make([]bool, len(kinds))
		}
		sizes := make([]int, len(kinds))
		for i, k := range kinds {
			sizes[i] = len(initialContent(k, 3))
		}
		scs = append(scs, scenario{fam, kinds, frozen, sizes, body})
	}
	addS := func(fam string, kinds []int, sizes []int, body ...Stmt) {
		scs = append(scs, scenario{fam, kinds, make([]bool, len(kinds)), sizes, body})
	}
	at := func(i int, body ...Stmt) Stmt { return Stmt{K: "if", At: i, Body: body} }
	for k := 0; k < 3; k++ {
		ks := []int{k, (k + 1) % 3}
		kn := kindName[k]
		// for loops: exits
		for _, ex := range []string{"break", "continue", "return", "fail", "panic"} {
			for i := 0; i < 3; i++ {
				add("for:"+kn+":"+ex, ks, nil, Stmt{K: "for", C: 0, Body: []Stmt{{K: "nop"}, at(i, Stmt{K: ex})}}, Stmt{K: "attempt", C: 0, Mut: "add"})
			}
		}
		add("for:"+kn+":exhaustion", ks, nil, Stmt{K: "for", C: 0, Body: []Stmt{{K: "nop"}}}, Stmt{K: "attempt", C: 0, Mut: "add"}, Stmt{K: "for", C: 0, Body: []Stmt{{K: "nop"}}})
		// every Starlark mutator at each iteration; also on the other collection (accepted) and after the loop
		for _, m := range muts[k] {
			for i := 0; i < 3; i += 2 {
				add("for:"+kn+":mutate:"+m.name, ks, nil, Stmt{K: "for", C: 0, Body: []Stmt{at(i, Stmt{K: "mutate", C: 0, Mut: m.name})}})
			}
			if m.adding {
				add("after-loop:"+kn+":mutate:"+m.name, ks, nil, Stmt{K: "for", C: 0, Body: []Stmt{{K: "nop"}}}, Stmt{K: "mutate", C: 0, Mut: m.name}, Stmt{K: "for", C: 0, Body: []Stmt{{K: "nop"}}})
				add("after-break:"+kn+":mutate:"+m.name, ks, nil, Stmt{K: "for", C: 0, Body: []Stmt{{K: "break"}}}, Stmt{K: "mutate", C: 0, Mut: m.name})
			}
			// nested loops over the same collection, mutation in the innermost / between
			add("nested2:"+kn+":mutate:"+m.name, ks, nil, Stmt{K: "for", C: 0, Body: []Stmt{{K: "for", C: 0, Body: []Stmt{{K: "nop"}}}, {K: "mutate", C: 0, Mut: m.name}}})
			if !m.stmt {
				add("comp:"+kn+":mutate:"+m.name, ks, nil, Stmt{K: "comp", C: 0, C2: -1, Body: []Stmt{{K: "mutate", C: 0, Mut: m.name}}})
				add("comp2:"+kn+":mutate:"+m.name, ks, nil, Stmt{K: "dictcomp", C: 1, C2: 0, Body: []Stmt{{K: "mutate", C: 0, Mut: m.name}}})
				add("callback:"+kn+":mutate:"+m.name, ks, nil, Stmt{K: "builtin", C: 0, Name: "sorted-key", Body: []Stmt{{K: "mutate", C: 0, Mut: m.name}}})
				add("pushiter:"+kn+":mutate:"+m.name, ks, nil, Stmt{K: "pushiter", C: 0, Name: "method", Exit: "full", Body: []Stmt{{K: "mutate", C: 0, Mut: m.name}}})
			}
		}
		for _, hm := range hostMuts[k] {
			add("for:"+kn+":attempt:"+hm, ks, nil, Stmt{K: "for", C: 0, Body: []Stmt{{K: "attempt", C: 0, Mut: hm}, {K: "for", C: 0, Body: []Stmt{{K: "attempt", C: 0, Mut: hm}}}, {K: "attempt", C: 0, Mut: hm}}}, Stmt{K: "attempt", C: 0, Mut: "add"})
			add("comp:"+kn+":attempt:"+hm, ks, nil, Stmt{K: "comp", C: 0, C2: 0, Body: []Stmt{{K: "attempt", C: 0, Mut: hm}}}, Stmt{K: "attempt", C: 0, Mut: "add"})
			add("dictcomp:"+kn+":attempt:"+hm, ks, nil, Stmt{K: "dictcomp", C: 0, C2: -1, Body: []Stmt{{K: "attempt", C: 0, Mut: hm}}}, Stmt{K: "attempt", C: 0, Mut: "add"})
		}
		// nesting of loops over the same collection x exits of the inner / outer loop
		for _, ex := range []string{"break", "return", "fail", "panic", "continue"} {
			add("nested3:"+kn+":"+ex, ks, nil, Stmt{K: "for", C: 0, Body: []Stmt{{K: "for", C: 0, Body: []Stmt{{K: "for", C: 0, Body: []Stmt{at(1, Stmt{K: ex})}}, {K: "attempt", C: 0, Mut: "add"}}}}}, Stmt{K: "attempt", C: 0, Mut: "add"})
			add("nested-call:"+kn+":"+ex, ks, nil, Stmt{K: "for", C: 0, Body: []Stmt{{K: "call", Body: []Stmt{{K: "for", C: 0, Body: []Stmt{{K: "attempt", C: 0, Mut: "add"}, at(1, Stmt{K: ex})}}}}, {K: "attempt", C: 0, Mut: "add"}}}, Stmt{K: "attempt", C: 0, Mut: "add"})
		}
		// comprehensions: exits in the body
		for _, ex := range []string{"fail", "panic", "nop"} {
			add("comp:"+kn+":"+ex, ks, nil, Stmt{K: "comp", C: 0, C2: 0, Body: []Stmt{{K: ex}}}, Stmt{K: "attempt", C: 0, Mut: "add"})
			add("dictcomp:"+kn+":"+ex, ks, nil, Stmt{K: "dictcomp", C: 0, C2: 1, Body: []Stmt{{K: ex}}}, Stmt{K: "attempt", C: 0, Mut: "add"}, Stmt{K: "attempt", C: 1, Mut: "add"})
		}
		// sequence assignment: too many, exact, too few; alone, inside a loop over the same collection, in a nested call
		for n := 1; n <= 5; n++ {
			add(fmt.Sprintf("unpack:%s:%d", kn, n), ks, nil, Stmt{K: "unpack", C: 0, N: n}, Stmt{K: "attempt", C: 0, Mut: "add"})
			add(fmt.Sprintf("unpack-in-loop:%s:%d", kn, n), ks, nil, Stmt{K: "for", C: 0, Body: []Stmt{{K: "unpack", C: 0, N: n}}}, Stmt{K: "attempt", C: 0, Mut: "add"})
			add(fmt.Sprintf("unpack-in-call:%s:%d", kn, n), ks, nil, Stmt{K: "for", C: 1, Body: []Stmt{{K: "call", Body: []Stmt{{K: "unpack", C: 0, N: n}}}}}, Stmt{K: "attempt", C: 0, Mut: "add"})
		}
		// *args
		add("starargs:"+kn+":builtin", ks, nil, Stmt{K: "starargs", C: 0, Name: "builtin"}, Stmt{K: "attempt", C: 0, Mut: "add"})
		for _, ex := range []string{"nop", "fail", "panic"} {
			add("starargs:"+kn+":def:"+ex, ks, nil, Stmt{K: "starargs", C: 0, Name: "def", Body: []Stmt{{K: "attempt", C: 0, Mut: "add"}, {K: ex}}}, Stmt{K: "attempt", C: 0, Mut: "add"})
			add("starargs-in-loop:"+kn+":def:"+ex, ks, nil, Stmt{K: "for", C: 0, Body: []Stmt{{K: "starargs", C: 0, Name: "def", Body: []Stmt{{K: "attempt", C: 0, Mut: "add"}, {K: ex}}}}}, Stmt{K: "attempt", C: 0, Mut: "add"})
		}
		// iterating built-ins and methods
		for _, be := range bexprs {
			if !strings.Contains(be.kinds, kn[:1]) {
				continue
			}
			if !be.cb {
				add("builtin:"+kn+":"+be.name, ks, nil, Stmt{K: "builtin", C: 0, Name: be.name}, Stmt{K: "attempt", C: 0, Mut: "add"})
				add("builtin-in-loop:"+kn+":"+be.name, ks, nil, Stmt{K: "for", C: 0, Body: []Stmt{{K: "builtin", C: 0, Name: be.name}, {K: "attempt", C: 0, Mut: "add"}}}, Stmt{K: "attempt", C: 0, Mut: "add"})
				continue
			}
			for _, ex := range []string{"nop", "fail", "panic"} {
				for _, hm := range hostMuts[k] {
					add("builtin:"+kn+":"+be.name+":"+ex+":"+hm, ks, nil, Stmt{K: "builtin", C: 0, Name: be.name, Body: []Stmt{{K: "attempt", C: 0, Mut: hm}, {K: ex}}}, Stmt{K: "attempt", C: 0, Mut: "add"})
				}
			}
		}
		// Go push iterators
		apis := []string{"Elements", "method"}
		if k == kDict {
			apis = append(apis, "Entries")
		}
		for _, api := range apis {
			for _, ex := range []string{"full", "break", "panic", "create", "twice"} {
				add("pushiter:"+kn+":"+api+":"+ex, ks, nil, Stmt{K: "pushiter", C: 0, Name: api, Exit: ex, Body: []Stmt{{K: "attempt", C: 0, Mut: "add"}}}, Stmt{K: "attempt", C: 0, Mut: "add"})
			}
			for _, ex := range []string{"fail", "panic"} {
				add("pushiter:"+kn+":"+api+":cb-"+ex, ks, nil, Stmt{K: "pushiter", C: 0, Name: api, Exit: "full", Body: []Stmt{{K: "attempt", C: 0, Mut: "clear"}, {K: ex}}}, Stmt{K: "attempt", C: 0, Mut: "add"})
			}
			add("pushiter-in-loop:"+kn+":"+api, ks, nil, Stmt{K: "for", C: 0, Body: []Stmt{{K: "pushiter", C: 0, Name: api, Exit: "break", Body: []Stmt{{K: "attempt", C: 0, Mut: "add"}}}, {K: "attempt", C: 0, Mut: "add"}}}, Stmt{K: "attempt", C: 0, Mut: "add"})
		}
		// cancellation by host code that returns normally: the key function of sorted/min/max, the call-back of a
		// push-iterator consumer, a built-in called from a loop body, a nested call or a call-back
		for _, bn := range []string{"sorted-cancelkey", "min-cancelkey", "max-cancelkey"} {
			add("hostcancel:"+kn+":"+bn, ks, nil, Stmt{K: "builtin", C: 0, Name: bn}, Stmt{K: "attempt", C: 0, Mut: "add"})
			add("hostcancel-in-loop:"+kn+":"+bn, ks, nil, Stmt{K: "for", C: 0, Body: []Stmt{{K: "builtin", C: 0, Name: bn}, {K: "attempt", C: 0, Mut: "add"}}})
			add("hostcancel-in-call:"+kn+":"+bn, ks, nil, Stmt{K: "for", C: 1, Body: []Stmt{{K: "call", Body: []Stmt{{K: "builtin", C: 0, Name: bn}}}}})
		}
		for _, api := range apis {
			add("hostcancel:"+kn+":pushiter:"+api, ks, nil, Stmt{K: "pushiter", C: 0, Name: api, Exit: "cancelcb"}, Stmt{K: "attempt", C: 0, Mut: "add"})
			add("hostcancel-in-loop:"+kn+":pushiter:"+api, ks, nil, Stmt{K: "for", C: 0, Body: []Stmt{{K: "pushiter", C: 0, Name: api, Exit: "cancelcb"}}})
		}
		for i := 0; i < 3; i += 2 {
			add("hostcancel:"+kn+":for", ks, nil, Stmt{K: "for", C: 0, Body: []Stmt{{K: "attempt", C: 0, Mut: "add"}, at(i, Stmt{K: "cancel"})}}, Stmt{K: "attempt", C: 0, Mut: "add"})
		}
		add("hostcancel:"+kn+":nested-call", ks, nil, Stmt{K: "for", C: 0, Body: []Stmt{{K: "call", Body: []Stmt{{K: "for", C: 0, Body: []Stmt{{K: "cancel"}}}}}}})
		add("hostcancel:"+kn+":callback", ks, nil, Stmt{K: "builtin", C: 0, Name: "sorted-key", Body: []Stmt{{K: "attempt", C: 0, Mut: "add"}, {K: "cancel"}}}, Stmt{K: "attempt", C: 0, Mut: "add"})
		add("hostcancel:"+kn+":pushiter-callback", ks, nil, Stmt{K: "pushiter", C: 0, Name: "method", Exit: "full", Body: []Stmt{{K: "cancel"}}})
		add("hostcancel:"+kn+":comp", ks, nil, Stmt{K: "for", C: 0, Body: []Stmt{{K: "cancel"}, {K: "comp", C: 0, C2: -1, Body: []Stmt{{K: "attempt", C: 0, Mut: "add"}}}}})
		// frozen collection: iteration does not count, mutation always refused
		add("frozen:"+kn, ks, []bool{true, false}, Stmt{K: "for", C: 0, Body: []Stmt{{K: "attempt", C: 0, Mut: "add"}, {K: "attempt", C: 1, Mut: "add"}}}, Stmt{K: "attempt", C: 0, Mut: "add"}, Stmt{K: "unpack", C: 0, N: 2})
	}
	// every argument shape of every mutator on collections of 1, 2 and 5 elements, at the first and the last iteration
	for k := 0; k < 3; k++ {
		for _, size := range []int{1, 2, 5} {
			for _, m := range muts[k] {
				if m.min > size || strings.Contains(m.tmpl, "\"c\"") {
					continue
				}
				its := []int{0}
				if size > 1 {
					its = append(its, size-1)
				}
				for _, i := range its {
					addS(fmt.Sprintf("size%d:%s:mutate:%s", size, kindName[k], m.name), []int{k, (k + 1) % 3}, []int{size, 3},
						Stmt{K: "for", C: 0, Body: []Stmt{at(i, Stmt{K: "mutate", C: 0, Mut: m.name})}})
				}
				if !m.stmt && size == 2 {
					addS(fmt.Sprintf("size%d-callback:%s:mutate:%s", size, kindName[k], m.name), []int{k, (k + 1) % 3}, []int{size, 3},
						Stmt{K: "builtin", C: 0, Name: "min-key", Body: []Stmt{{K: "mutate", C: 0, Mut: m.name}}})
					addS(fmt.Sprintf("size%d-call:%s:mutate:%s", size, kindName[k], m.name), []int{k, (k + 1) % 3}, []int{size, 3},
						Stmt{K: "for", C: 0, Body: []Stmt{{K: "call", Body: []Stmt{{K: "mutate", C: 0, Mut: m.name}}}}})
				}
			}
		}
	}
	// built-ins that iterate the ELEMENTS of what they iterate: [("a", 1), c1] with len(c1) == 3
	for k := 0; k < 3; k++ {
		for _, be := range bexprs {
			if !strings.Contains(be.kinds, "p") {
				continue
			}
			ks := []int{kPairs, k}
			add("pairs:"+kindName[k]+":"+be.name, ks, nil, Stmt{K: "builtin", C: 0, Name: be.name}, Stmt{K: "attempt", C: 1, Mut: "add"})
			add("pairs-in-loop:"+kindName[k]+":"+be.name, ks, nil, Stmt{K: "for", C: 1, Body: []Stmt{{K: "builtin", C: 0, Name: be.name}}}, Stmt{K: "attempt", C: 1, Mut: "add"})
		}
	}
	// error paths inside built-ins (after they have begun to iterate), alone and inside a loop over the same list
	for _, be := range bexprs {
		if !strings.Contains(be.kinds, "m") {
			continue
		}
		ks := []int{kMixed, kList}
		add("builtin-error:"+be.name, ks, nil, Stmt{K: "builtin", C: 0, Name: be.name})
		add("builtin-error-in-loop:"+be.name, ks, nil, Stmt{K: "for", C: 0, Body: []Stmt{{K: "attempt", C: 0, Mut: "add"}, {K: "builtin", C: 0, Name: be.name}}})
		add("builtin-error-in-call:"+be.name, ks, nil, Stmt{K: "for", C: 1, Body: []Stmt{{K: "call", Body: []Stmt{{K: "builtin", C: 0, Name: be.name}}}}})
	}
	// random compositions
	var gen func(r *hx.Rand, depth int, inLoop bool, nc int) []Stmt
	gen = func(r *hx.Rand, depth int, inLoop bool, nc int) []Stmt {
		var out []Stmt
		n := 1 + r.Intn(3)
		for i := 0; i < n; i++ {
			c := r.Intn(nc)
			switch x := r.Intn(13); {
			case x == 0 && depth < 3:
				out = append(out, Stmt{K: "for", C: c, Body: gen(r, depth+1, true, nc)})
			case x == 1 && depth < 3:
				out = append(out, Stmt{K: "call", Body: gen(r, depth+1, false, nc)})
			case x == 2:
				out = append(out, Stmt{K: []string{"comp", "dictcomp"}[r.Intn(2)], C: c, C2: r.Intn(nc+1) - 1, Body: []Stmt{{K: "attempt", C: r.Intn(nc), Mut: "add"}}})
			case x == 3:
				out = append(out, Stmt{K: "unpack", C: c, N: 2 + r.Intn(3)})
			case x == 4 && depth < 3:
				out = append(out, Stmt{K: "starargs", C: c, Name: "def", Body: gen(r, depth+1, false, nc)})
			case x == 5 && depth < 3:
				out = append(out, Stmt{K: "builtin", C: c, Name: []string{"sorted-key", "max-key", "min-key"}[r.Intn(3)], Body: gen(r, depth+1, false, nc)})
			case x == 6 && depth < 3:
				out = append(out, Stmt{K: "pushiter", C: c, Name: []string{"Elements", "method"}[r.Intn(2)], Exit: []string{"full", "break", "panic", "twice"}[r.Intn(4)], Body: gen(r, depth+1, false, nc)})
			case x == 7 && inLoop:
				out = append(out, Stmt{K: "if", At: r.Intn(3), Body: []Stmt{{K: []string{"break", "continue", "return", "fail", "panic"}[r.Intn(5)]}}})
			case x == 8:
				out = append(out, Stmt{K: "builtin", C: c, Name: []string{"sorted", "list", "zip", "any", "join", "enumerate"}[r.Intn(6)]})
			default:
				out = append(out, Stmt{K: "attempt", C: c, Mut: "add"})
			}
		}
		return out
	}
	for i := 0; i < *nrand; i++ {
		r := rnd.Split()
		ks := []int{r.Intn(3), r.Intn(3)}
		add("random", ks, nil, gen(r, 0, false, 2)...)
	}
	// run
	for i, sc := range scs {
		b := build(sc)
		src, coq, expects, tags := b.src, b.coq, b.expects, b.tags
		id := fmt.Sprintf("s%d", i)
		prog, cerr := compile(src)
		if cerr != nil {
			hx.Emit(line{Kind: "static-error", ID: id, Family: sc.family, Src: src, Kinds: sc.kinds, Frozen: sc.frozen, Res: &result{Msg: cerr.Error()}})
			continue
		}
		res, ok := runScenario(prog, sc.kinds, sc.frozen, sc.sizes, 0, false)
		if !ok {
			hx.Emit(line{Kind: "static-error", ID: id, Family: sc.family, Src: src, Kinds: sc.kinds, Frozen: sc.frozen, Res: &res})
			continue
		}
		viol := oracle(res, sc.frozen, expects, true)
		if viol == "" {
			// the collections hold exactly their initial elements plus the accepted additions:
			// nothing that had to be refused has left a trace
			for ci := range sc.kinds {
				if !same(res.Content[ci], b.cont[ci]) {
					viol = fmt.Sprintf("collection %d holds %v, expected %v (a mutation during iteration changed it, or one outside was lost)", ci, res.Content[ci], b.cont[ci])
				}
			}
			if b.mustFail && res.Outcome != "err" {
				viol = fmt.Sprintf("a mutation during iteration had to fail but the call ended with %q", res.Outcome)
			}
		}
		vkey := sc.family
		if sc.family == "random" {
			// name the suspicious constructs present, so that different defects get different keys
			var sus []string
			for _, t := range tags {
				if strings.HasSuffix(t, ":too-many") || (strings.HasPrefix(t, "pushiter:Elements:dict")) {
					sus = append(sus, t)
				}
			}
			sort.Strings(sus)
			if len(sus) > 2 {
				sus = sus[:2]
			}
			vkey = "random:" + strings.Join(sus, "+")
		}
		hx.Emit(line{Kind: "scenario", ID: id, Family: sc.family, Tags: tags, Src: src, Coq: coq, Kinds: sc.kinds, Frozen: sc.frozen, Expects: expects, Expected: b.cont, Init: initOf(sc), MustFail: b.mustFail, Res: &res, Viol: viol, VKey: vkey})
		// the same call entered on a thread that the host has already cancelled
		if r0, ok := runScenario(prog, sc.kinds, sc.frozen, sc.sizes, 0, true); ok {
			v := oracle(r0, sc.frozen, nil, false)
			if v == "" && r0.Outcome != "err" {
				v = fmt.Sprintf("call on a cancelled thread ended with %q", r0.Outcome)
			}
			if v == "" && len(r0.Attempts) > 0 {
				v = "the call on a cancelled thread executed built-ins"
			}
			l := line{Kind: "precancel", ID: id, Family: sc.family, Kinds: sc.kinds, Frozen: sc.frozen, Viol: v, VKey: "precancelled:" + strings.SplitN(sc.family, ":", 2)[0]}
			if v != "" {
				l.Src = src
			}
			l.Res = &r0
			hx.Emit(l)
		}
		// step-limit cancellation at step indices of this call
		T := res.Steps
		if T == 0 || res.Outcome == "cancelled" || T > 20000 {
			continue
		}
		every := uint64(*cancelEvery)
		if T/every > 1200 { // long runs: at most about 1200 cut points each
			every = T/1200 + 1
		}
		for n := uint64(1); n <= T; n++ {
			if every > 1 && !(n <= 2 || n == T || (n+uint64(i))%every == 0) {
				continue
			}
			r2, ok := runScenario(prog, sc.kinds, sc.frozen, sc.sizes, n, false)
			if !ok {
				continue
			}
			v := oracle(r2, sc.frozen, expects, false)
			// every attempt made while the scenario's static lock depth was positive must have been refused:
			// attempts are made in program order, so the i-th attempt has the i-th expectation
			if v == "" {
				for j, a := range r2.Attempts {
					if j < len(expects) && expects[j].Locked && !(a.Rejected && a.Unchanged) {
						v = fmt.Sprintf("attempt %d during iteration accepted", j)
					}
				}
			}
			if r2.Outcome != "cancelled" && r2.Outcome != "panic" && r2.Outcome != res.Outcome {
				v = fmt.Sprintf("limit %d of %d: outcome %s", n, T, r2.Outcome)
			}
			l := line{Kind: "cancel", ID: id, Family: sc.family, Kinds: sc.kinds, Frozen: sc.frozen, Limit: n, Viol: v, VKey: "cancel:" + vkey}
			if v != "" {
				l.Src = src
				l.Res = &r2
			} else {
				l.Res = &result{Outcome: r2.Outcome}
			}
			hx.Emit(l)
		}
	}
	elementProbes()
	hx.Flush()
}

// elementProbes: built-ins that iterate the ELEMENTS of what they iterate, given
// element collections of every kind and length 0..3 whose members may be
// unhashable, so that the call fails at different points (wrong length, failing
// insertion, failing comparison).  Whatever the outcome, when the call has
// returned every collection involved must be unlocked (builtin_balanced): its
// iterator count is 0 and a content-preserving mutation succeeds.
func elementProbes() {
	mk := map[string]func() starlark.Value{
		"list:unhashable-first": func() starlark.Value {
			return starlark.NewList([]starlark.Value{starlark.NewList(nil), starlark.MakeInt(1)})
		},
		"list:unhashable-second": func() starlark.Value {
			return starlark.NewList([]starlark.Value{starlark.MakeInt(1), starlark.NewList(nil)})
		},
		"list:ok":    func() starlark.Value { return starlark.NewList([]starlark.Value{starlark.String("k"), starlark.MakeInt(1)}) },
		"list:len1":  func() starlark.Value { return starlark.NewList([]starlark.Value{starlark.String("k")}) },
		"list:len3":  func() starlark.Value { return starlark.NewList([]starlark.Value{starlark.String("k"), starlark.MakeInt(1), starlark.MakeInt(2)}) },
		"list:empty": func() starlark.Value { return starlark.NewList(nil) },
		"dict:len2": func() starlark.Value {
			d := starlark.NewDict(2)
			d.SetKey(starlark.String("a"), starlark.MakeInt(1))
			d.SetKey(starlark.Tuple{starlark.MakeInt(1)}, starlark.MakeInt(2))
			return d
		},
		"set:len2": func() starlark.Value {
			x := starlark.NewSet(2)
			x.Insert(starlark.String("a"))
			x.Insert(starlark.MakeInt(2))
			return x
		},
		"dict:tuple-with-list-key": func() starlark.Value {
			d := starlark.NewDict(2)
			d.SetKey(starlark.String("a"), starlark.MakeInt(1))
			d.SetKey(starlark.String("b"), starlark.MakeInt(2))
			return d
		},
	}
	exprs := []string{
		"dict([e])", "dict([('z', 0), e])", "dict([e], z=1)", "dict(outer)",
		"{}.update([e])", "{}.update([('z', 0), e], y=2)", "{}.update(outer)", "tgt.update([e])", "frozen_tgt.update([e])",
		"set([e])", "set().union([e])", "set().update([e])", "{e: 1}", "sorted([e, e])", "sorted(outer)", "min([e, [1]])", "max(outer, key=len)",
		"[a for a, b in [e]]", "{a: b for a, b in [e]}", "zip(*[e])", "list(zip(e, outer))", "enumerate(e)", "tuple(e) in {}", "'%s%s' % tuple(e)", "','.join(e)", "any([e]) and all(e)",
		"reversed(e)", "len(set(e))", "list(e) + list(outer)", "dict(zip(e, e))", "dict.fromkeys(e)" ,
	}
	names := make([]string, 0, len(mk))
	for k := range mk {
		names = append(names, k)
	}
	sort.Strings(names)
	id := 0
	for _, nm := range names {
		for _, ex := range exprs {
			id++
			e := mk[nm]()
			outer := starlark.NewList([]starlark.Value{starlark.Tuple{starlark.String("p"), starlark.MakeInt(0)}, e})
			tgt := starlark.NewDict(1)
			ftgt := starlark.NewDict(1)
			ftgt.Freeze()
			env := starlark.StringDict{"e": e, "outer": outer, "tgt": tgt, "frozen_tgt": ftgt}
			th := &starlark.Thread{Name: "probe"}
			outcome := "ok"
			func() {
				defer func() {
					if r := recover(); r != nil {
						outcome = "panic"
					}
				}()
				if _, err := starlark.EvalOptions(&syntax.FileOptions{Set: true}, th, "probe.star", ex, env); err != nil {
					outcome = "err"
					if strings.Contains(err.Error(), "undefined") || strings.Contains(err.Error(), "has no .") {
						outcome = "n/a"
					}
				}
			}()
			viol := ""
			for who, v := range map[string]starlark.Value{"e": e, "outer": outer, "tgt": tgt} {
				if n, ok := starlark.VerifIterCount(v); ok && n != 0 {
					viol = fmt.Sprintf("after `%s` returned (%s) with e = %s, %s still has itercount %d", ex, outcome, nm, who, n)
				}
			}
			if l, ok := e.(*starlark.List); ok && viol == "" {
				if err := l.Append(starlark.None); err != nil {
					viol = fmt.Sprintf("after `%s` returned (%s) with e = %s, e refuses append: %v", ex, outcome, nm, err)
				}
			}
			fam := "element-probe:" + strings.SplitN(ex, "(", 2)[0]
			l := line{Kind: "probe", ID: fmt.Sprintf("probe-%d", id), Family: fam, Kinds: []int{}, Frozen: []bool{}, Src: ex + "  # e = " + nm, Res: &result{Outcome: outcome}, Viol: viol}
			if viol != "" {
				l.VKey = "builtin-leaves-lock:" + strings.SplitN(ex, "(", 2)[0]
			}
			hx.Emit(l)
		}
	}
}
