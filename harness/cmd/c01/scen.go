package main

// Scenario templates for the non-fragment half: each emits a small group of
// module-level statements (with fresh names and randomised constants) that
// deliberately exercises one of the constructs listed in the C01 generator
// contract. They are mixed with grammar-generated code by generate().

import (
	"fmt"
	"math/big"
	"strings"

	"verifharness/internal/hx"
)

func (g *gen) t(s string) string {
	if g.chance(50) {
		return "trace(" + s + ")"
	}
	return s
}

func (g *gen) k() int { return 1 + g.r.Intn(8) }

// lines emits a block of text; leading tabs in each line mean indentation levels.
func (g *gen) lines(text string) {
	for _, l := range strings.Split(strings.Trim(text, "\n"), "\n") {
		n := 0
		for strings.HasPrefix(l, "\t") {
			l = l[1:]
			n++
		}
		g.ind += n
		g.raw(l)
		g.ind -= n
	}
}

func (g *gen) addGlobal(name string, t typ, minlen int) {
	grp := 0
	if t == tList || t == tDict {
		grp = 0 // scenario objects may be aliased by closures: unknown group
	}
	g.vars = append(g.vars, vinfo{name: name, t: t, minlen: minlen, group: grp})
}

var shadowNames = []string{"min", "max", "any", "all", "int", "repr", "hash", "reversed", "enumerate", "zip"}

func (g *gen) scenario() {
	g.topCost += 60
	F, G := g.freshF, g.freshG
	switch g.r.Intn(40) {
	case 0: // closure over a local and a parameter
		g.tag("closure")
		f, v, w := F(), G(), G()
		g.lines(fmt.Sprintf(`
def %[1]s(p):
	x = %[4]d
	def inner(q):
		return %[5]s + q * p
	return inner
%[2]s = %[1]s(%[6]d)
%[3]s = %[2]s(%[7]s)
trace(%[3]s, %[2]s(%[8]d))`, f, v, w, g.k(), g.t("x"), g.k(), g.t(fmt.Sprint(g.k())), g.k()))
		g.addGlobal(w, tInt, 0)
	case 1: // closure observing a later reassignment
		g.tag("closure")
		g.tag("closure-reassign")
		f := F()
		upd := hx.Pick(g.r, []string{"x = x + %d", "x += %d", "x = %d"})
		g.lines(fmt.Sprintf(`
def %[1]s():
	x = %[2]d
	def get():
		return x
	trace(get())
	`+upd+`
	trace(get())
	x = "%[4]s"
	return get
trace(%[1]s()())`, f, g.k(), g.k(), hx.Pick(g.r, strPool)))
	case 2: // nested function mutating a captured list
		g.tag("closure")
		g.tag("dot")
		f, v := F(), G()
		mut := hx.Pick(g.r, []string{"acc.append(v)", "acc.extend([v, v])", "acc.append(len(acc) + v)"})
		g.lines(fmt.Sprintf(`
def %[1]s():
	acc = [%[3]d]
	def add(v):
		%[4]s
		acc[0] += 1
		return len(acc)
	add(%[5]d)
	trace(add(trace(%[6]d)))
	return acc
%[2]s = %[1]s()
trace(%[2]s)`, f, v, g.k(), mut, g.k(), g.k()))
		g.tag("augassign-index")
		g.addGlobal(v, tList, 2)
	case 3: // closures created in a loop
		g.tag("closure")
		g.tag("closure-loop")
		g.tag("comprehension")
		f := F()
		if g.chance(50) {
			g.tag("lambda")
			g.lines(fmt.Sprintf(`
def %[1]s():
	fs = []
	for i in range(%[2]d):
		fs.append(lambda: i * %[3]d)
	return [f() for f in fs]
trace(%[1]s())`, f, 2+g.r.Intn(3), g.k()))
		} else {
			g.tag("dot")
			g.lines(fmt.Sprintf(`
def %[1]s():
	fs = []
	for i in range(%[2]d):
		j = i + %[3]d
		def h():
			return (i, j)
		fs.append(h)
	return [f() for f in fs]
trace(%[1]s())`, f, 2+g.r.Intn(3), g.k()))
		}
	case 4: // lambdas inside comprehensions
		g.tag("lambda")
		g.tag("comprehension")
		g.tag("closure")
		a, b := G(), G()
		g.lines(fmt.Sprintf(`
%[1]s = [(lambda y: y + v)(trace(v)) for v in [%[3]d, %[4]d, %[5]d]]
%[2]s = [f() for f in [lambda: v * %[6]d for v in range(%[7]d)]]
trace(%[1]s, %[2]s)`, a, b, g.k(), g.k(), g.k(), g.k(), 2+g.r.Intn(3)))
		g.addGlobal(a, tList, 3)
	case 5: // comprehension variables shadowing, first iterable sees the outer variable
		g.tag("comprehension")
		g.tag("dictcomp")
		g.tag("shadow")
		g.tag("comp-shadow")
		f, a, b := F(), G(), G()
		g.lines(fmt.Sprintf(`
def %[1]s(x):
	y = [x for x in x if x %% 2 == %[4]d]
	z = [x * w for x in x for w in range(x) if w != 1]
	trace(x, y, z)
	return {x: [x for x in range(x)] for x in x}
trace(%[1]s([%[5]d, %[6]d, %[7]d]))
%[2]s = [%[5]d, %[7]d]
%[3]s = [%[2]s + 1 for %[2]s in %[2]s]
trace(%[2]s, %[3]s)`, f, a, b, g.r.Intn(2), 1+g.r.Intn(3), 1+g.r.Intn(3), 1+g.r.Intn(3)))
		g.addGlobal(a, tList, 2)
		g.addGlobal(b, tList, 2)
	case 6: // defaults evaluated at def time, mutable default
		g.tag("defaults")
		g.tag("call-named")
		g.tag("dot")
		f := F()
		g.lines(fmt.Sprintf(`
def %[1]s(a, b=trace(%[2]d), c=[]):
	c.append(a)
	return (a, b, c)
trace(%[1]s(%[3]d))
trace(%[1]s(%[4]d, %[5]s))
trace(%[1]s(%[6]d, c=[%[7]d]))
trace(%[1]s(b=trace(%[3]d), a=trace(%[4]d)))`, f, g.k(), g.k(), g.k(), g.t(fmt.Sprint(g.k())), g.k(), g.k()))
	case 7, 8: // random signature and calls mixing positional, named, * and ** arguments
		g.sigFun()
	case 9: // augmented assignment with side effects in the target
		g.tag("augassign-index")
		g.tag("augassign-index-effect")
		g.tag("dict")
		a, f, c := G(), F(), G()
		op := hx.Pick(g.r, []string{"+=", "-=", "*=", "|=", "//="})
		g.lines(fmt.Sprintf(`
%[1]s = [%[4]d, %[5]d, %[6]d]
%[1]s[trace(%[7]d)] += trace(%[8]d)
def %[2]s():
	trace("%[2]s")
	return %[1]s
%[2]s()[trace(%[9]d)] %[10]s %[11]d
%[3]s = {"k": %[4]d}
%[3]s[trace("k")] += trace(%[5]d)
trace(%[1]s, %[3]s)`, a, f, c, g.k(), g.k(), g.k(), g.r.Intn(3), g.k(), g.r.Intn(3), op, g.k()))
		g.addGlobal(a, tList, 3)
	case 10: // short-circuit operators with side effects
		g.tag("shortcircuit-effect")
		a, b, c, d := G(), G(), G(), G()
		x, y, z := g.r.Intn(3), g.r.Intn(3), g.r.Intn(3)
		g.lines(fmt.Sprintf(`
%[1]s = trace(%[5]d) and trace(%[6]d)
%[2]s = trace(%[6]d) or trace(%[7]d)
%[3]s = trace(%[5]d) and trace(%[6]d) or trace(%[7]d)
%[4]s = not trace(%[7]d) or trace("%[8]s") and trace([])
trace(%[1]s, %[2]s, %[3]s, %[4]s)`, a, b, c, d, x, y, z, hx.Pick(g.r, strPool)))
		g.addGlobal(a, tInt, 0)
		g.addGlobal(b, tInt, 0)
		g.addGlobal(c, tInt, 0)
	case 11: // nested loops with continue / break / return in nested ifs
		g.tag("nested-loop")
		g.tag("break")
		g.tag("continue")
		g.tag("return-in-loop")
		g.tag("dot")
		f, v := F(), G()
		g.lines(fmt.Sprintf(`
def %[1]s(xs):
	r = []
	for a in xs:
		for b in range(a):
			if b == %[3]d:
				continue
			if a == %[4]d:
				break
			r.append((a, b))
		if a == %[5]d:
			if len(r) > %[6]d:
				return r
	return trace(r)
%[2]s = %[1]s([1, 2, 3, 4])
trace(%[2]s)`, f, v, g.r.Intn(3), 1+g.r.Intn(4), 1+g.r.Intn(4), g.r.Intn(4)))
	case 12: // unpacking targets, nested, in for loops
		g.tag("unpack")
		f, a, b := F(), G(), G()
		g.lines(fmt.Sprintf(`
def %[1]s():
	a, b = %[4]d, %[5]d
	a, b = b, a
	(c, [d, e]) = (trace(%[6]d), [%[4]d, trace(%[5]d)])
	[p, q] = trace((%[5]d, %[6]d))
	for k, (u, w) in [(1, (2, %[4]d)), (%[5]d, (5, 6))]:
		trace(k, u, w)
	for [i, s] in [(1, "a"), (2, "%[7]s")]:
		trace(s, i)
	return (a, b, c, d, e, p, q)
trace(%[1]s())
%[2]s, %[3]s = trace(%[6]d), trace(%[4]d)`, f, a, b, g.k(), g.k(), g.k(), hx.Pick(g.r, strPool)))
		g.addGlobal(a, tInt, 0)
		g.addGlobal(b, tInt, 0)
	case 13: // dict display / index / assignment / iteration / methods
		g.tag("dict")
		g.tag("dot")
		g.tag("augassign-index")
		a, f := G(), F()
		g.lines(fmt.Sprintf(`
%[1]s = {"a": %[3]d, trace("b"): trace(%[4]d), 3: "c"}
%[1]s["d"] = %[5]d
%[1]s["a"] += %[4]d
trace(%[1]s["a"], %[1]s.get("zz"), %[1]s.get("b", 0), %[1]s[3])
trace(%[1]s.keys(), %[1]s.values(), %[1]s.items())
def %[2]s(d):
	n = 0
	for k in d:
		trace(k, d[k])
		n += 1
	d["n"] = n
	return len(d)
trace(%[2]s(%[1]s), %[1]s)`, a, f, g.k(), g.k(), g.k()))
	case 14: // slices
		g.tag("slice")
		a, b, c := G(), G(), G()
		g.lines(fmt.Sprintf(`
%[1]s = [0, 1, 2, 3, 4]
%[2]s = "%[4]s"
%[3]s = (1, 2, 3)
trace(%[1]s[%[5]d:], %[1]s[::2], %[1]s[trace(%[5]d):trace(%[6]d)], %[2]s[-2:], %[1]s[::-1])
trace(%[3]s[:%[5]d], %[2]s[1:4:2], %[1]s[%[6]d:%[5]d:-1], %[1]s[:])`, a, b, c, hx.Pick(g.r, []string{"hello", "abcdef", "xy"}), g.r.Intn(4), 1+g.r.Intn(4)))
		g.addGlobal(a, tList, 5)
		g.addGlobal(b, tStr, 2)
		g.addGlobal(c, tTuple, 3)
	case 15: // + chains with adjacent literals
		g.tag("plus-chain-literals")
		g.tag("const-left-noncomm")
		a, b, c := G(), G(), G()
		s1, s2, s3 := hx.Pick(g.r, strPool), hx.Pick(g.r, strPool), hx.Pick(g.r, strPool)
		g.lines(fmt.Sprintf(`
%[1]s = "%[4]s"
%[2]s = [%[7]d]
%[3]s = (%[7]d, %[8]d)
trace("%[5]s" + "%[6]s" + %[1]s, [1] + [%[8]d] + %[2]s, %[1]s + "%[5]s" + "%[6]s")
trace((1,) + (%[7]d,) + %[3]s, "%[4]s" + ("%[5]s" + "%[6]s"), %[1]s + ("%[5]s") + "%[6]s" + %[1]s + "c" + "d")
trace(%[2]s + [%[8]d] + [] + [trace(3)], %[3]s + () + (4, 5), [] + [], "" + "")`, a, b, c, s1, s2, s3, g.k(), g.k()))
		g.addGlobal(a, tStr, len(s1))
		g.addGlobal(b, tList, 1)
		g.addGlobal(c, tTuple, 2)
	case 16: // non-commutative operators with a constant left operand
		g.tag("const-left-noncomm")
		f := F()
		g.lines(fmt.Sprintf(`
def %[1]s(x, s, l):
	return (10 - x, "a" + s, 7 // x, 2 < x, 100 %% x, 1 << x, [0] + l, 3 in l, 2 * x - 1, "%%d" %% x, (1, 2) + tuple(l))
trace(%[1]s(%[2]d, "%[3]s", [%[4]d]))
trace(%[1]s(%[5]d, "", []))`, f, 1+g.r.Intn(5), hx.Pick(g.r, strPool), g.k(), 1+g.r.Intn(9)))
	case 17, 18: // shadowing
		g.shadowScen()
	case 19: // load
		g.loadScen()
	case 20: // iterator released after the loop, after break and after return
		g.tag("iter-release")
		g.tag("break")
		g.tag("return-in-loop")
		g.tag("dot")
		f, h, v := F(), F(), G()
		g.lines(fmt.Sprintf(`
def %[1]s(xs):
	for v in xs:
		if v == %[4]d:
			break
	xs.append(99)
	return xs
%[3]s = [1, 2, 3]
trace(%[1]s(%[3]s))
def %[2]s(xs, t):
	for v in xs:
		if v > t:
			return v
	return None
trace(%[2]s(%[3]s, %[5]d))
%[3]s.append(4)
%[3]s[0] = %[5]d
trace(%[3]s)`, f, h, v, 1+g.r.Intn(4), g.r.Intn(4)))
		g.addGlobal(v, tList, 5)
	case 21: // function reading a global that is defined later
		g.tag("global-late")
		f, v := F(), G()
		early := ""
		if g.chance(25) {
			g.tag("use-before-def")
			g.tag("err-unbound")
			early = fmt.Sprintf("trace(%s())\n", f)
		}
		g.lines(fmt.Sprintf(`
def %[1]s():
	return %[2]s + 1
%[3]s%[2]s = %[4]d
trace(%[1]s())`, f, v, early, g.k()))
		g.addGlobal(v, tInt, 0)
	case 22: // list methods, sorted, dict()
		g.tag("dot")
		g.tag("dict")
		g.tag("call-named")
		a := G()
		g.lines(fmt.Sprintf(`
%[1]s = [%[2]d, %[3]d, %[4]d]
%[1]s.append(trace(%[5]d))
%[1]s.extend([%[2]d, 6])
trace(%[1]s.pop(), %[1]s.pop(0))
trace(sorted(%[1]s), dict(a=%[3]d), dict([("k", %[4]d)]), list((1, 2)), tuple([3]), str(%[1]s), type(%[1]s), bool(%[1]s))`, a, g.k(), g.k(), g.k(), g.k()))
		g.addGlobal(a, tList, 4)
	case 23: // three-level closure (cell passed through an intermediate function)
		g.tag("closure")
		f := F()
		g.lines(fmt.Sprintf(`
def %[1]s(x):
	y = x * %[2]d
	def mid(z):
		def inner():
			return trace(x) + y + z
		y2 = inner()
		return inner() + y2
	r = mid(%[3]d)
	y = 0
	return r + mid(1)
trace(%[1]s(%[4]d))`, f, g.k(), g.k(), g.k()))
		g.tag("closure-reassign")
	case 24: // while inside a function, with break/continue
		if !g.o.While {
			g.sigFun()
			return
		}
		g.tag("while")
		g.tag("break")
		g.tag("continue")
		f := F()
		g.lines(fmt.Sprintf(`
def %[1]s(n):
	out = []
	while n > 0:
		n -= 1
		if n %% 2 == %[2]d:
			continue
		if n == %[3]d:
			break
		out += [trace(n)]
	return out
trace(%[1]s(%[4]d))`, f, g.r.Intn(2), g.r.Intn(3), 3+g.r.Intn(5)))
	case 25, 26, 27: // mutation of a container that is being iterated or is frozen
		g.lockedMutation()
	case 28, 29: // None / True / False are ordinary identifiers: parameters, locals, loop and comprehension variables
		g.tag("shadow")
		g.tag("shadow-constant-name")
		f, v := F(), G()
		nm := hx.Pick(g.r, []string{"None", "True", "False"})
		other := hx.Pick(g.r, []string{"None", "True", "False"})
		g.lines(fmt.Sprintf(`
def %[1]s(%[3]s, y):
	trace(%[3]s, y)
	%[4]s = [%[3]s, y]
	for %[3]s in [%[5]d, %[6]d]:
		y = y + %[3]s
	return (%[3]s, %[4]s, [%[4]s for %[4]s in (7, 8)], (lambda: %[3]s)(), y)
%[2]s = %[1]s(%[7]d, %[8]d)
trace(%[2]s, None, True, False)`, f, v, nm, other, g.k(), g.k(), g.k(), g.k()))
	case 30, 31: // keyword-only parameters cannot be filled positionally
		g.tag("kwonly")
		g.tag("kwonly-positional")
		f := F()
		dflt := ""
		if g.chance(50) {
			dflt = fmt.Sprintf("=%d", g.k())
		}
		g.lines(fmt.Sprintf(`
def %[1]s(a, *, c%[2]s):
	trace("in", a, c)
	return (a, c)
trace(%[1]s(%[3]d, c=%[4]d))
trace(%[1]s(%[3]d, %[4]d))`, f, dflt, g.k(), g.k()))
	case 32, 33: // sequence assignment with too many / too few values from a container held in a global
		g.tag("unpack")
		g.tag("err-unpack")
		f, v := F(), G()
		n := 3 + g.r.Intn(2)
		if g.chance(25) {
			n = 1
		}
		elems := make([]string, n)
		for i := range elems {
			elems[i] = fmt.Sprint(g.k())
		}
		cont := "[" + strings.Join(elems, ", ") + "]"
		if g.chance(30) {
			cont = "{" + strings.Join(elems, ": 0, ") + ": 0}"
		}
		form := hx.Pick(g.r, []string{"a, b = %s", "[a, b] = %s", "(a, b) = %s", "for a, b in [%s]:\n\t\tpass"})
		g.lines(fmt.Sprintf(`
%[2]s = %[3]s
def %[1]s():
	trace("unpacking", len(%[2]s))
	`+form+`
	return %[2]s
trace(%[1]s())`, f, v, cont, v))
	case 34, 35, 36: // literals of different types with the same spelling are distinct constants
		g.tag("constants-same-spelling")
		f, v, w := F(), G(), G()
		bn := new(big.Int).Lsh(big.NewInt(int64(1+g.r.Intn(1<<20))), uint(60+g.r.Intn(40)))
		bn.Add(bn, big.NewInt(int64(g.r.Intn(1<<30))))
		hex, dec := bn.Text(16), bn.Text(10)
		lit := hx.Pick(g.r, []string{"0x" + hex, "0X" + strings.ToUpper(hex), dec, "0o" + bn.Text(8)})
		small := g.k()
		items := []string{lit, `"` + hex + `"`, `"` + dec + `"`, fmt.Sprint(small), fmt.Sprintf(`"%d"`, small), `"True"`, "True", `"None"`, "None", lit, `"` + hex + `"`}
		for i := len(items) - 1; i > 0; i-- {
			j := g.r.Intn(i + 1)
			items[i], items[j] = items[j], items[i]
		}
		first, second := `"`+hex+`"`, lit
		if g.chance(50) {
			first, second = second, first
		}
		g.lines(fmt.Sprintf(`
%[2]s = %[4]s
%[3]s = %[5]s
def %[1]s():
	return [%[6]s]
trace(%[2]s, %[3]s, %[1]s())`, f, v, w, first, second, strings.Join(items, ", ")))
	case 37, 38, 39: // x += y on a list takes any iterable and is x.extend(y), in place
		g.tag("inplace-add-iterable")
		g.tag("selfcheck")
		f := F()
		str := hx.Pick(g.r, []string{"ab", "", "héllo", "x"})
		its := []string{
			fmt.Sprintf("%q.codepoints()", str), fmt.Sprintf("%q.codepoint_ords()", str), fmt.Sprintf("%q.elems()", str),
			fmt.Sprintf("%q.elem_ords()", str), fmt.Sprintf("b%q.elems()", "ab"), "enumerate([7, 8])", "zip([1, 2], [3, 4])",
			fmt.Sprintf("range(%d)", g.r.Intn(4)), "(1, 2)", "[3]", `{"k": 1}`,
		}
		it := its[g.r.Intn(len(its))]
		if g.chance(60) {
			it = its[g.r.Intn(5)]
		}
		target, ret := "x", "x"
		init := fmt.Sprintf("[%d]", g.k())
		if g.chance(35) {
			target, init, ret = "x[0]", fmt.Sprintf("[[%d], 1]", g.k()), "x[0]"
		}
		g.lines(fmt.Sprintf(`
def %[1]s(y1, y2):
	x = %[2]s
	alias = %[5]s
	%[3]s += y1
	z = %[2]s
	%[6]s.extend(y2)
	return x == z and alias == %[5]s and len(alias) == len(%[7]s)
trace("selfcheck-begin")
trace("selfcheck", %[1]s(%[4]s, %[4]s))`, f, init, target, it, ret, strings.Replace(ret, "x", "z", 1), strings.Replace(ret, "x", "z", 1)))
	default: // keyword-only parameters and evaluation order of arguments
		g.tag("kwonly")
		g.tag("call-named")
		g.tag("defaults")
		f := F()
		g.lines(fmt.Sprintf(`
def %[1]s(a, *, k, k2=trace(%[2]d)):
	return [a, k, k2]
trace(%[1]s(trace(1), k=trace(%[3]d)))
trace(%[1]s(k2=trace(%[4]d), k=trace(2), a=trace(3)))`, f, g.k(), g.k(), g.k()))
	}
}

func (g *gen) sigFun() {
	f := g.freshF()
	hasB := g.chance(60)
	hasArgs := g.chance(55)
	hasKwonly := g.chance(50)
	hasKw := g.chance(55)
	params := []string{"a"}
	shown := []string{"a"}
	if hasB {
		g.tag("defaults")
		params = append(params, fmt.Sprintf("b=%s", g.t(fmt.Sprint(g.k()))))
		shown = append(shown, "b")
	}
	if hasArgs {
		g.tag("varargs")
		params = append(params, "*args")
		shown = append(shown, "args")
	} else if hasKwonly {
		params = append(params, "*")
	}
	if hasKwonly {
		g.tag("kwonly")
		params = append(params, "k")
		shown = append(shown, "k")
		if g.chance(50) {
			params = append(params, fmt.Sprintf("k2=%d", g.k()))
			shown = append(shown, "k2")
		}
	}
	if hasKw {
		g.tag("kwargs-param")
		params = append(params, "**kw")
		shown = append(shown, "kw")
	}
	g.line("def %s(%s):", f, strings.Join(params, ", "))
	g.ind++
	g.line("trace(%s)", strings.Join(shown, ", "))
	if hasKw && g.chance(50) {
		g.tag("dict")
		g.tag("dot")
		g.line("trace(sorted(kw.keys()), kw.get(\"z\"))")
	}
	if hasArgs && g.chance(50) {
		g.line("return len(args) + a")
	} else {
		g.line("return a")
	}
	g.ind--
	ncalls := 2 + g.r.Intn(2)
	for c := 0; c < ncalls; c++ {
		var args []string
		args = append(args, g.t(fmt.Sprint(g.k())))
		bGiven := false
		if hasB && g.chance(50) {
			args = append(args, g.t(fmt.Sprint(g.k())))
			bGiven = true
		}
		if hasArgs && bGiven && g.chance(50) {
			args = append(args, g.t(fmt.Sprint(g.k())))
		}
		kGiven := false
		named := []string{}
		if hasKwonly && g.chance(70) {
			named = append(named, "k="+g.t(fmt.Sprint(g.k())))
			kGiven = true
			g.tag("call-named")
		}
		if hasB && !bGiven && g.chance(40) {
			named = append(named, "b="+g.t(fmt.Sprint(g.k())))
			bGiven = true
			g.tag("call-named")
		}
		if hasKw && g.chance(50) {
			named = append(named, "z="+g.t(fmt.Sprint(g.k())))
			g.tag("call-named")
		}
		// shuffle named arguments
		if len(named) > 1 && g.chance(50) {
			named[0], named[len(named)-1] = named[len(named)-1], named[0]
		}
		args = append(args, named...)
		bNamed := false
		for _, a := range named {
			if strings.HasPrefix(a, "b=") {
				bNamed = true
			}
		}
		if bNamed {
			// b was passed by name: no further positional arguments
			if g.chance(15) {
				g.tag("call-star")
				args = append(args, "*"+g.t("[]"))
			}
		} else if (hasArgs && bGiven && g.chance(60)) || (hasArgs && !hasB && g.chance(60)) {
			g.tag("call-star")
			args = append(args, "*"+g.t(fmt.Sprintf("[%d, %d]", g.k(), g.k())))
		} else if hasB && !bGiven && g.chance(40) {
			g.tag("call-star")
			args = append(args, "*"+g.t(fmt.Sprintf("(%d,)", g.k())))
			bGiven = true
		} else if g.chance(15) {
			g.tag("call-star")
			args = append(args, "*"+g.t("[]"))
		}
		if hasKwonly && !kGiven {
			g.tag("call-starstar")
			args = append(args, "**"+g.t(fmt.Sprintf(`{"k": %d}`, g.k())))
		} else if hasKw && g.chance(60) {
			g.tag("call-starstar")
			args = append(args, "**"+g.t(fmt.Sprintf(`{"y": %d, "w": %d}`, g.k(), g.k())))
		} else if g.chance(15) {
			g.tag("call-starstar")
			args = append(args, "**"+g.t("{}"))
		}
		g.line("trace(%s(%s))", f, strings.Join(args, ", "))
	}
}

func (g *gen) shadowScen() {
	g.tag("shadow")
	F, G := g.freshF, g.freshG
	switch g.r.Intn(4) {
	case 0: // locals / parameters / comprehension variables shadowing universal and predeclared names
		g.tag("comprehension")
		f, h, a, b := F(), F(), G(), G()
		g.lines(fmt.Sprintf(`
def %[1]s(len):
	trace(len)
	type = len + %[5]d
	return [str for str in range(type)]
trace(%[1]s(%[6]d))
def %[2]s(trace):
	return trace + 1
%[3]s = %[2]s(%[7]d)
%[4]s = [trace * 2 for trace in [1, %[5]d]]
trace(%[3]s, %[4]s, len([1]), type(1), str(2))`, f, h, a, b, g.k()%3, g.k()%3, g.k()))
		g.addGlobal(a, tInt, 0)
		g.addGlobal(b, tList, 2)
	case 1: // a local shadows a global of the same name
		f, a := F(), G()
		g.lines(fmt.Sprintf(`
%[2]s = %[3]d
def %[1]s(p):
	if p:
		%[2]s = %[4]d
		return %[2]s + p
	return p
trace(%[1]s(%[5]d), %[2]s)`, f, a, g.k(), g.k(), g.k()))
		g.addGlobal(a, tInt, 0)
	case 2: // a later global binding shadows a universal name
		name := g.takeShadowName()
		if name == "" {
			g.sigFun()
			return
		}
		f := F()
		g.tag("global-late")
		if g.chance(30) {
			// use at top level before the binding: dynamic error
			g.tag("use-before-def")
			g.tag("err-unbound")
			g.lines(fmt.Sprintf(`
trace(%[1]s)
%[1]s = %[2]d
trace(%[1]s)`, name, g.k()))
		} else {
			g.lines(fmt.Sprintf(`
def %[2]s():
	return %[1]s
%[1]s = %[3]d
trace(%[2]s(), %[1]s)`, name, f, g.k()))
		}
	default: // a local that is conditionally bound shadows a global: unbound local on one path
		f, a := F(), G()
		p := g.r.Intn(4)
		if p == 0 {
			g.tag("err-unbound")
			g.tag("use-before-def")
		}
		g.lines(fmt.Sprintf(`
%[2]s = "%[3]s"
def %[1]s(p):
	if p:
		%[2]s = p
	return %[2]s
trace(%[1]s(%[4]d))
trace(%[2]s)`, f, a, hx.Pick(g.r, strPool), p))
		g.addGlobal(a, tStr, 0)
	}
}

func (g *gen) takeShadowName() string {
	for i := 0; i < 4; i++ {
		n := hx.Pick(g.r, shadowNames)
		if !g.taken[n] {
			g.taken[n] = true
			return n
		}
	}
	return ""
}

// lockedMutation: an in-place or mutating operation applied to a container that may
// not be mutated at that moment -- it is being iterated by an enclosing for loop or
// comprehension, or it is frozen (loaded from another module) -- with operands that
// are often degenerate (empty right operand, storing back the same element).  The
// operation must fail whatever the operand is.
func (g *gen) lockedMutation() {
	g.tag("locked-mutation")
	f, h := g.freshF(), g.freshF()
	isDict := g.chance(50)
	var ops, operands []string
	cont := "[1, 2, 3]"
	if isDict {
		cont = `{"k": 1, "j": 2}`
		ops = []string{"c |= e", "c |= e", "c[\"k\"] = c[\"k\"]", "c[\"k\"] += 0", "c |= c", "c[\"new\"] = e"}
		operands = []string{"{}", "{}", `{"z": 1}`, `{"k": 1}`}
	} else {
		ops = []string{"c += e", "c += e", "c.extend(e)", "c.extend(e)", "c[0] = c[0]", "c[0] += 0", "c.append(e)", "c.pop()", "c += c[0:0]", "c[-1] = e"}
		operands = []string{"[]", "[]", "()", "[7]", "c[1:1]"}
	}
	op := hx.Pick(g.r, ops)
	operand := hx.Pick(g.r, operands)
	if operand == "c[1:1]" {
		operand = "[]"
	}
	pre := ""
	if g.chance(50) {
		pre = "\ttrace(\"before\", len(c))\n"
	}
	switch g.r.Intn(3) {
	case 0: // being iterated by an enclosing for loop
		g.tag("mutate-during-iteration")
		g.lines(fmt.Sprintf(`
def %[1]s(c, e):
	n = 0
	for k in c:
		%[2]s
		n += 1
	return (n, c)
trace(%[1]s(%[3]s, %[4]s))`, f, op, cont, operand))
	case 1: // being iterated by an enclosing comprehension
		g.tag("mutate-during-iteration")
		g.tag("comprehension")
		g.lines(fmt.Sprintf(`
def %[5]s(c, e):
	%[2]s
	return len(c)
def %[1]s(c, e):
	return [%[5]s(c, e) for k in c]
trace(%[1]s(%[3]s, %[4]s))`, f, op, cont, operand, h))
	default: // frozen: exported by another module
		g.tag("mutate-frozen")
		g.tag("load")
		v := g.freshG()
		name := "fl"
		if isDict {
			name = "fd"
		}
		g.lines(fmt.Sprintf(`
load("m.star", %[5]s="%[6]s")
def %[1]s(c, e):
%[7]s	%[2]s
	return c
trace(%[1]s(%[5]s, %[4]s))`, f, op, cont, operand, v, name, pre))
	}
}

func (g *gen) loadScen() {
	if g.feats["load"] {
		g.sigFun()
		return
	}
	g.tag("load")
	f := g.freshF()
	if g.chance(12) {
		g.tag("err-load")
		g.lines(`
load("other.star", "zz")
trace(zz)`)
		return
	}
	switch g.r.Intn(3) {
	case 0:
		g.lines(fmt.Sprintf(`
load("m.star", "a", bb="b")
trace(a, bb)
def %[1]s(x):
	return a + x
trace(%[1]s(%[2]d), bb + "%[3]s")`, f, g.k(), hx.Pick(g.r, strPool)))
	case 1:
		g.lines(fmt.Sprintf(`
load("m.star", bb="b", a="a")
trace([a * i for i in range(%[2]d)], bb)
def %[1]s():
	return (a, bb)
trace(%[1]s())`, f, 1+g.r.Intn(3)))
		g.tag("comprehension")
	default:
		g.lines(`
load("m.star", "a")
load("m.star", bb="a")
trace(a + bb)`)
	}
}
